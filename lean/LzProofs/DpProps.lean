/-
  LzProofs.DpProps — C11 (iii): the dynamic program `shortestPath` of OSAP returns a valid
  parse of minimum cost among all parses over the admissible steps `Adm` (literals and the
  match edges stored for the block).
-/
import LzProofs.SapLemmas
namespace LZ.Sap

/-! ## Specification: parses over the stored edges -/

section Spec
variable (minMatch n : Nat) (edges : Array (List Edge)) (k0 : Nat)

/-- the match steps the DP may take at block position `i`: a stored edge `(mx, o)` of that
    position, any length `max 1 minMatch ≤ m ≤ min mx (n - i)` -/
def Adm (i m o : Nat) : Prop :=
  ∃ mx, (mx, o) ∈ edges.getD (k0 + i) [] ∧ 1 ≤ m ∧ minMatch ≤ m ∧ m ≤ mx ∧ i + m ≤ n

/-- a step `(m, o)` at position `i`: the literal `(1, 0)` or an admissible match -/
def StepOK (i m o : Nat) : Prop :=
  (m = 1 ∧ o = 0 ∧ i < n) ∨ Adm minMatch n edges k0 i m o

/-- `π` is a parse of the positions `a … b` -/
def PathOK : Nat → Nat → List Edge → Prop
  | a, b, [] => a = b
  | a, b, (m, o) :: r => StepOK minMatch n edges k0 a m o ∧ PathOK (a + m) b r

/-- a parse of the whole block of `n` bytes -/
def ValidParse (π : List Edge) : Prop := PathOK minMatch n edges k0 0 n π

end Spec

/-- cost of a parse: the sum of `XZCost` over its steps -/
def pathCost (π : List Edge) : Nat := (π.map fun e => xzCost e.1 e.2).sum

/-- number of bytes a parse covers -/
def pathLen (π : List Edge) : Nat := (π.map fun e => e.1).sum

@[simp] theorem pathCost_nil : pathCost [] = 0 := rfl
@[simp] theorem pathCost_cons (e : Edge) (r : List Edge) :
    pathCost (e :: r) = xzCost e.1 e.2 + pathCost r := by simp [pathCost]
@[simp] theorem pathLen_nil : pathLen [] = 0 := rfl
@[simp] theorem pathLen_cons (e : Edge) (r : List Edge) :
    pathLen (e :: r) = e.1 + pathLen r := by simp [pathLen]

theorem PathOK.len {minMatch n edges k0} : ∀ {a b π}, PathOK minMatch n edges k0 a b π → a + pathLen π = b
  | _, _, [], h => by simpa [PathOK] using h
  | a, b, (m, o) :: r, h => by
    have := PathOK.len h.2
    simp only [pathLen_cons]; omega

/-! ## Invariants of the table -/

section Inv
variable (minMatch n : Nat) (edges : Array (List Edge)) (k0 : Nat)

/-- entry `j` records a legal last step whose predecessor cost accounts for its own cost -/
def GoodEntry (d : Array Opt) (j : Nat) : Prop :=
  1 ≤ (d.getD j default).m ∧ (d.getD j default).m ≤ j ∧
  StepOK minMatch n edges k0 (j - (d.getD j default).m) (d.getD j default).m (d.getD j default).o ∧
  cst d (j - (d.getD j default).m) + xzCost (d.getD j default).m (d.getD j default).o ≤ cst d j

def Good (d : Array Opt) : Prop := ∀ j, 1 ≤ j → j ≤ n → GoodEntry minMatch n edges k0 d j

/-- `d'` arises from `d` by lowering costs at indices `≥ i` only -/
structure Ext (i : Nat) (d d' : Array Opt) : Prop where
  size : d'.size = d.size
  le : ∀ k, cst d' k ≤ cst d k
  low : ∀ k, k < i → d'.getD k default = d.getD k default

theorem Ext.refl (i : Nat) (d : Array Opt) : Ext i d d :=
  ⟨rfl, fun _ => Nat.le_refl _, fun _ _ => rfl⟩

theorem Ext.trans {i : Nat} {d d' d'' : Array Opt} (h1 : Ext i d d') (h2 : Ext i d' d'') : Ext i d d'' :=
  ⟨h2.size.trans h1.size, fun k => Nat.le_trans (h2.le k) (h1.le k),
   fun k hk => (h2.low k hk).trans (h1.low k hk)⟩

theorem Ext.mono {i i' : Nat} {d d' : Array Opt} (h : Ext i d d') (hi : i' ≤ i) : Ext i' d d' :=
  ⟨h.size, h.le, fun k hk => h.low k (by omega)⟩

theorem Ext.cst_low {i : Nat} {d d' : Array Opt} (h : Ext i d d') {k : Nat} (hk : k < i) :
    cst d' k = cst d k := by unfold cst; rw [h.low k hk]

theorem relax1_ext (d : Array Opt) {i j : Nat} (e : Opt) (h : i ≤ j) : Ext i d (relax1 d j e) :=
  ⟨relax1_size d j e, fun k => relax1_cst_le d j k e,
   fun k hk => relax1_getD_ne d e (by omega)⟩

theorem relax1_good {d : Array Opt} {j : Nat} {e : Opt}
    (hg : Good minMatch n edges k0 d)
    (he : e.c < cst d j → 1 ≤ e.m ∧ e.m ≤ j ∧ StepOK minMatch n edges k0 (j - e.m) e.m e.o ∧
        cst d (j - e.m) + xzCost e.m e.o ≤ e.c) :
    Good minMatch n edges k0 (relax1 d j e) := by
  by_cases hc : e.c < cst d j
  · obtain ⟨h1, h2, h3, h4⟩ := he hc
    intro k hk1 hkn
    unfold GoodEntry
    by_cases hkj : k = j
    · subst hkj
      have hself : (relax1 d k e).getD k default = e := by rw [relax1_getD_self]; simp [hc]
      have hc' : cst (relax1 d k e) k = e.c := by unfold cst; rw [hself]
      rw [hself, hc']
      exact ⟨h1, h2, h3, Nat.le_trans (Nat.add_le_add_right (relax1_cst_le d k _ e) _) h4⟩
    · have hne : (relax1 d j e).getD k default = d.getD k default := relax1_getD_ne d e hkj
      have hc' : cst (relax1 d j e) k = cst d k := by unfold cst; rw [hne]
      rw [hne, hc']
      obtain ⟨g1, g2, g3, g4⟩ := hg k hk1 hkn
      exact ⟨g1, g2, g3, Nat.le_trans (Nat.add_le_add_right (relax1_cst_le d j _ e) _) g4⟩
  · rw [relax1_noop d j e (by omega)]; exact hg

/-! ### the inner loops -/

theorem relaxLens_spec (i ci o : Nat) : ∀ (cnt m0 : Nat) (d : Array Opt), cst d i ≤ ci →
    Ext (i + 1) d (relaxLens minMatch i ci o cnt m0 d) ∧
    (∀ m, m0 ≤ m → m < m0 + cnt → cst (relaxLens minMatch i ci o cnt m0 d) (i + m) ≤ ci + xzCost m o) ∧
    (Good minMatch n edges k0 d →
      (∀ m, m0 ≤ m → m < m0 + cnt → 1 ≤ m → StepOK minMatch n edges k0 i m o) →
      Good minMatch n edges k0 (relaxLens minMatch i ci o cnt m0 d)) := by
  intro cnt
  induction cnt with
  | zero =>
    intro m0 d _
    refine ⟨Ext.refl _ _, ?_, fun hg _ => hg⟩
    intro m h1 h2; omega
  | succ cnt ih =>
    intro m0 d hci
    have hstep : relaxLens minMatch i ci o (cnt + 1) m0 d =
        relaxLens minMatch i ci o cnt (m0 + 1) (relax1 d (i + m0) ⟨m0, o, ci + xzCost m0 o⟩) := rfl
    rw [hstep]
    -- the single update
    have hext1 : Ext (i + 1) d (relax1 d (i + m0) ⟨m0, o, ci + xzCost m0 o⟩) := by
      by_cases hm : m0 = 0
      · subst hm
        rw [relax1_noop]
        · exact Ext.refl _ _
        · show cst d (i + 0) ≤ ci + xzCost 0 o
          simp only [Nat.add_zero]; omega
      · exact relax1_ext d _ (by omega)
    have hci' : cst (relax1 d (i + m0) ⟨m0, o, ci + xzCost m0 o⟩) i ≤ ci :=
      Nat.le_trans (hext1.le i) hci
    obtain ⟨e2, c2, g2⟩ := ih (m0 + 1) _ hci'
    refine ⟨hext1.trans e2, ?_, ?_⟩
    · intro m h1 h2
      by_cases hm : m = m0
      · subst hm
        exact Nat.le_trans (e2.le _) (relax1_cst_self d (i + m) _)
      · exact c2 m (by omega) (by omega)
    · intro hg hs
      apply g2
      · apply relax1_good minMatch n edges k0 hg
        intro hlt
        have hlt' : ci + xzCost m0 o < cst d (i + m0) := hlt
        have hm1 : 1 ≤ m0 := by
          rcases Nat.eq_zero_or_pos m0 with h | h
          · subst h; simp only [Nat.add_zero] at hlt'; omega
          · exact h
        have hsub : i + m0 - m0 = i := by omega
        refine ⟨hm1, Nat.le_add_left _ _, ?_, ?_⟩
        · show StepOK minMatch n edges k0 (i + m0 - m0) m0 o
          rw [hsub]; exact hs m0 (Nat.le_refl _) (by omega) hm1
        · show cst d (i + m0 - m0) + xzCost m0 o ≤ ci + xzCost m0 o
          rw [hsub]; omega
      · intro m h1 h2 h3; exact hs m (by omega) (by omega) h3

theorem relaxEdges_spec (i ci maxLen : Nat) : ∀ (es : List Edge) (d : Array Opt), cst d i ≤ ci →
    Ext (i + 1) d (relaxEdges minMatch i ci maxLen es d) ∧
    (∀ mx o, (mx, o) ∈ es → ∀ m, minMatch ≤ m → m ≤ mx → m ≤ maxLen →
      cst (relaxEdges minMatch i ci maxLen es d) (i + m) ≤ ci + xzCost m o) ∧
    (Good minMatch n edges k0 d →
      (∀ mx o, (mx, o) ∈ es → ∀ m, minMatch ≤ m → m ≤ mx → m ≤ maxLen → 1 ≤ m →
        StepOK minMatch n edges k0 i m o) →
      Good minMatch n edges k0 (relaxEdges minMatch i ci maxLen es d)) := by
  intro es
  induction es with
  | nil =>
    intro d _
    refine ⟨Ext.refl _ _, ?_, fun hg _ => hg⟩
    intro mx o h; simp at h
  | cons e rest ih =>
    intro d hci
    obtain ⟨mx, o⟩ := e
    have hstep : relaxEdges minMatch i ci maxLen ((mx, o) :: rest) d =
        relaxEdges minMatch i ci maxLen rest
          (relaxLens minMatch i ci o (min mx maxLen + 1 - minMatch) minMatch d) := rfl
    rw [hstep]
    obtain ⟨e1, c1, g1⟩ := relaxLens_spec minMatch n edges k0 i ci o
      (min mx maxLen + 1 - minMatch) minMatch d hci
    have hci' := Nat.le_trans (e1.le i) hci
    obtain ⟨e2, c2, g2⟩ := ih _ hci'
    refine ⟨e1.trans e2, ?_, ?_⟩
    · intro mx' o' hmem m h1 h2 h3
      rcases List.mem_cons.1 hmem with h | h
      · have hmx : mx' = mx := congrArg Prod.fst h
        have ho : o' = o := congrArg Prod.snd h
        subst hmx; subst ho
        exact Nat.le_trans (e2.le _) (c1 m h1 (by omega))
      · exact c2 mx' o' h m h1 h2 h3
    · intro hg hs
      apply g2
      · apply g1 hg
        intro m h1 h2 h3
        exact hs mx o (List.mem_cons_self) m h1 (by omega) (by omega) h3
      · intro mx' o' hmem
        exact hs mx' o' (List.mem_cons_of_mem _ hmem)

/-! ### the outer loop -/

/-- state of the table when the loop is about to process position `i` -/
structure Inv (i : Nat) (d : Array Opt) : Prop where
  size : d.size = n + 1
  zero : cst d 0 = 0
  lit : ∀ j, 1 ≤ j → j < i → cst d j ≤ cst d (j - 1) + 9
  mat : ∀ i' m o, i' < i → Adm minMatch n edges k0 i' m o → cst d (i' + m) ≤ cst d i' + xzCost m o
  good : Good minMatch n edges k0 d

/-- the literal relaxation at position `i` -/
def litRelax (d : Array Opt) (i : Nat) : Array Opt :=
  if i > 0 then relax1 d i ⟨1, 0, cst d (i - 1) + xzCost 1 0⟩ else d

theorem litRelax_spec {i : Nat} {d : Array Opt} (hi : i ≤ n) (hg : Good minMatch n edges k0 d) :
    Ext i d (litRelax d i) ∧ (1 ≤ i → cst (litRelax d i) i ≤ cst (litRelax d i) (i - 1) + 9) ∧
    Good minMatch n edges k0 (litRelax d i) := by
  unfold litRelax
  by_cases h0 : i > 0
  · simp only [h0, if_true]
    have hext := relax1_ext d (i := i) (j := i) ⟨1, 0, cst d (i - 1) + xzCost 1 0⟩ (Nat.le_refl _)
    refine ⟨hext, ?_, ?_⟩
    · intro _
      rw [hext.cst_low (k := i - 1) (by omega)]
      have := relax1_cst_self d i ⟨1, 0, cst d (i - 1) + xzCost 1 0⟩
      rw [xzCost_one_zero] at this ⊢
      exact this
    · apply relax1_good minMatch n edges k0 hg
      intro _
      refine ⟨Nat.le_refl _, h0, Or.inl ⟨rfl, rfl, ?_⟩, Nat.le_refl _⟩
      show i - 1 < n
      omega
  · simp only [h0, if_false]
    exact ⟨Ext.refl _ _, fun h => by omega, hg⟩

theorem Inv.ext {i : Nat} {d d' : Array Opt} (h : Inv minMatch n edges k0 i d) (e : Ext i d d')
    (hg : Good minMatch n edges k0 d') : Inv minMatch n edges k0 i d' := by
  refine ⟨e.size.trans h.size, ?_, ?_, ?_, hg⟩
  · have := e.le 0; have := h.zero; omega
  · intro j h1 h2
    rw [e.cst_low h2, e.cst_low (k := j - 1) (by omega)]
    exact h.lit j h1 h2
  · intro i' m o hi' ha
    rw [e.cst_low hi']
    exact Nat.le_trans (e.le _) (h.mat i' m o hi' ha)

theorem dpLoop_step_eq (fuel i : Nat) (d : Array Opt) :
    dpLoop minMatch n edges k0 (fuel + 1) i d =
      dpLoop minMatch n edges k0 fuel (i + 1)
        (relaxEdges minMatch i (cst (litRelax d i) i) (n - i) (edges.getD (k0 + i) []).reverse
          (litRelax d i)) := rfl

theorem dp_step {i : Nat} {d : Array Opt} (hi : i < n) (h : Inv minMatch n edges k0 i d) :
    Inv minMatch n edges k0 (i + 1)
      (relaxEdges minMatch i (cst (litRelax d i) i) (n - i) (edges.getD (k0 + i) []).reverse
        (litRelax d i)) := by
  obtain ⟨e1, l1, g1⟩ := litRelax_spec minMatch n edges k0 (Nat.le_of_lt hi) h.good
  have h1 := h.ext minMatch n edges k0 e1 g1
  obtain ⟨e2, c2, g2⟩ := relaxEdges_spec minMatch n edges k0 i (cst (litRelax d i) i) (n - i)
    (edges.getD (k0 + i) []).reverse (litRelax d i) (Nat.le_refl _)
  have hg2 := g2 g1 (by
    intro mx o hmem m a b c h1
    exact Or.inr ⟨mx, List.mem_reverse.1 hmem, h1, a, b, by omega⟩)
  have h2 := h1.ext minMatch n edges k0 (e2.mono (Nat.le_succ i)) hg2
  refine ⟨h2.size, h2.zero, ?_, ?_, hg2⟩
  · intro j hj1 hj2
    by_cases hji : j < i
    · exact h2.lit j hj1 hji
    · have hj : j = i := by omega
      subst hj
      rw [e2.cst_low (k := j) (by omega), e2.cst_low (k := j - 1) (by omega)]
      exact l1 hj1
  · intro i' m o hi' ha
    by_cases hlt : i' < i
    · exact h2.mat i' m o hlt ha
    · have hj : i' = i := by omega
      subst hj
      obtain ⟨mx, hmem, _, a, b, c⟩ := ha
      rw [e2.cst_low (k := i') (by omega)]
      exact c2 mx o (List.mem_reverse.2 hmem) m a b (by omega)

theorem dpLoop_inv : ∀ (fuel i : Nat) (d : Array Opt), i + fuel = n → Inv minMatch n edges k0 i d →
    Inv minMatch n edges k0 n (dpLoop minMatch n edges k0 fuel i d) := by
  intro fuel
  induction fuel with
  | zero =>
    intro i d hi h
    have : i = n := by omega
    subst this; exact h
  | succ fuel ih =>
    intro i d hi h
    rw [dpLoop_step_eq]
    exact ih (i + 1) _ (by omega) (dp_step minMatch n edges k0 (by omega) h)

/-! ### the initial table -/

def d0 (n : Nat) : Array Opt :=
  (Array.range (n + 1)).map fun i => if i = 0 then ⟨0, 0, 0⟩ else ⟨1, 0, xzCost i 0⟩

theorem d0_getD {j : Nat} (hj : j ≤ n) :
    (d0 n).getD j default = if j = 0 then ⟨0, 0, 0⟩ else ⟨1, 0, 9 * j⟩ := by
  unfold d0
  have : j < ((Array.range (n + 1)).map fun i => if i = 0 then (⟨0, 0, 0⟩ : Opt) else ⟨1, 0, xzCost i 0⟩).size := by
    simp; omega
  simp only [Array.getD_eq_getD_getElem?, Array.getElem?_eq_getElem this]
  simp [xzCost_zero_offset]

theorem d0_cst {j : Nat} (hj : j ≤ n) : cst (d0 n) j = 9 * j := by
  unfold cst; rw [d0_getD n hj]; split
  · subst_vars; rfl
  · rfl

theorem inv_init : Inv minMatch n edges k0 0 (d0 n) := by
  refine ⟨by simp [d0], by rw [d0_cst n (Nat.zero_le _)], ?_, ?_, ?_⟩
  · intro j _ h; omega
  · intro i' m o h; omega
  · intro j h1 h2
    unfold GoodEntry
    rw [d0_getD n h2, d0_cst n h2]
    have : j ≠ 0 := by omega
    simp only [this, if_false]
    refine ⟨Nat.le_refl _, h1, Or.inl ⟨rfl, rfl, by omega⟩, ?_⟩
    rw [d0_cst n (by omega), xzCost_one_zero]; omega

/-- the table `shortestPath` back-tracks over -/
def dFinal : Array Opt :=
  litRelax (dpLoop minMatch n edges k0 n 0 (d0 n)) n

/-- the closed table: every literal and match edge of the block is relaxed -/
structure Closed (d : Array Opt) : Prop where
  zero : cst d 0 = 0
  lit : ∀ j, 1 ≤ j → j ≤ n → cst d j ≤ cst d (j - 1) + 9
  mat : ∀ i m o, Adm minMatch n edges k0 i m o → cst d (i + m) ≤ cst d i + xzCost m o
  good : Good minMatch n edges k0 d

theorem dFinal_closed : Closed minMatch n edges k0 (dFinal minMatch n edges k0) := by
  have h := dpLoop_inv minMatch n edges k0 n 0 (d0 n) (by omega) (inv_init minMatch n edges k0)
  obtain ⟨e1, l1, g1⟩ := litRelax_spec minMatch n edges k0 (Nat.le_refl n) h.good
  have h1 := h.ext minMatch n edges k0 e1 g1
  refine ⟨h1.zero, ?_, ?_, g1⟩
  · intro j hj1 hj2
    by_cases hjn : j < n
    · exact h1.lit j hj1 hjn
    · have : j = n := by omega
      subst this; exact l1 hj1
  · intro i m o ha
    by_cases hin : i < n
    · exact h1.mat i m o hin ha
    · obtain ⟨mx, _, _, _, _, c⟩ := ha
      omega

/-! ### lower bound: the table entry is below every parse -/

theorem closed_lower {d : Array Opt} (h : Closed minMatch n edges k0 d) :
    ∀ (π : List Edge) (a b : Nat), PathOK minMatch n edges k0 a b π → b ≤ n →
      cst d b ≤ cst d a + pathCost π := by
  intro π
  induction π with
  | nil => intro a b hp _; have : a = b := hp; subst this; simp
  | cons e r ih =>
    intro a b hp hb
    obtain ⟨m, o⟩ := e
    obtain ⟨hs, hr⟩ := hp
    have h1 := ih (a + m) b hr hb
    have h2 : cst d (a + m) ≤ cst d a + xzCost m o := by
      rcases hs with ⟨rfl, rfl, han⟩ | ha
      · have := h.lit (a + 1) (by omega) (by omega)
        rw [xzCost_one_zero]; simpa using this
      · exact h.mat a m o ha
    simp only [pathCost_cons]; omega

/-! ### back-tracking -/

theorem backtrack_spec {d : Array Opt} (hg : Good minMatch n edges k0 d) :
    ∀ (fuel i : Nat) (acc : List Edge), i ≤ fuel → i ≤ n → PathOK minMatch n edges k0 i n acc →
      PathOK minMatch n edges k0 0 n (backtrack d fuel i acc) ∧
      pathCost (backtrack d fuel i acc) ≤ cst d i + pathCost acc := by
  intro fuel
  induction fuel with
  | zero =>
    intro i acc hi _ hp
    have : i = 0 := by omega
    subst this
    exact ⟨hp, Nat.le_add_left _ _⟩
  | succ fuel ih =>
    intro i acc hi hin hp
    unfold backtrack
    by_cases h0 : i = 0
    · subst h0; simp only [if_true]; exact ⟨hp, Nat.le_add_left _ _⟩
    · simp only [h0, if_false]
      obtain ⟨g1, g2, g3, g4⟩ := hg i (by omega) hin
      have hp' : PathOK minMatch n edges k0 (i - (d.getD i default).m) n
          (((d.getD i default).m, (d.getD i default).o) :: acc) := by
        refine ⟨g3, ?_⟩
        have : i - (d.getD i default).m + (d.getD i default).m = i := by omega
        rw [this]; exact hp
      obtain ⟨r1, r2⟩ := ih (i - (d.getD i default).m) _ (by omega) (by omega) hp'
      refine ⟨r1, ?_⟩
      simp only [pathCost_cons] at r2
      omega

end Inv

/-! ## C11 (iii): `shortestPath` is optimal over the stored edges -/

theorem shortestPath_eq (minMatch n : Nat) (edges : Array (List Edge)) (k0 : Nat) :
    shortestPath minMatch n edges k0 = backtrack (dFinal minMatch n edges k0) n n [] := rfl

/-- The path returned by `shortestPath` is a parse of the `n` block bytes over literals and the
    stored edges, and no such parse is cheaper. -/
theorem dp_optimal (minMatch n : Nat) (edges : Array (List Edge)) (k0 : Nat) :
    ValidParse minMatch n edges k0 (shortestPath minMatch n edges k0) ∧
    ∀ π, ValidParse minMatch n edges k0 π →
      pathCost (shortestPath minMatch n edges k0) ≤ pathCost π := by
  have hc := dFinal_closed minMatch n edges k0
  obtain ⟨r1, r2⟩ := backtrack_spec minMatch n edges k0 hc.good n n [] (Nat.le_refl _) (Nat.le_refl _) rfl
  rw [shortestPath_eq]
  refine ⟨r1, ?_⟩
  intro π hπ
  have := closed_lower minMatch n edges k0 hc π 0 n hπ (Nat.le_refl _)
  rw [hc.zero] at this
  simp only [pathCost_nil] at r2
  omega

/-- the cost of the returned path is the final table entry `d[n].c` -/
theorem shortestPath_cost (minMatch n : Nat) (edges : Array (List Edge)) (k0 : Nat) :
    pathCost (shortestPath minMatch n edges k0) = cst (dFinal minMatch n edges k0) n := by
  have hc := dFinal_closed minMatch n edges k0
  obtain ⟨r1, r2⟩ := backtrack_spec minMatch n edges k0 hc.good n n [] (Nat.le_refl _) (Nat.le_refl _) rfl
  rw [shortestPath_eq]
  have := closed_lower minMatch n edges k0 hc _ 0 n r1 (Nat.le_refl _)
  rw [hc.zero] at this
  simp only [pathCost_nil] at r2
  omega

/-- the returned path covers exactly the `n` bytes of the block -/
theorem shortestPath_len (minMatch n : Nat) (edges : Array (List Edge)) (k0 : Nat) :
    pathLen (shortestPath minMatch n edges k0) = n := by
  have := (dp_optimal minMatch n edges k0).1.len
  omega

/-! ## Non-vacuity and the counter-witness for the DP without the literal relaxation (D10) -/

/-- `shortestPath` before the repair: no literal edge is relaxed -/
def dpLoopOld (minMatch n : Nat) (edges : Array (List Edge)) (k0 : Nat) : Nat → Nat → Array Opt → Array Opt
  | 0, _, d => d
  | fuel+1, i, d =>
    let ci := (d.getD i default).c
    let d := relaxEdges minMatch i ci (n - i) (edges.getD (k0 + i) []).reverse d
    dpLoopOld minMatch n edges k0 fuel (i+1) d

def shortestPathOld (minMatch n : Nat) (edges : Array (List Edge)) (k0 : Nat) : List Edge :=
  backtrack (dpLoopOld minMatch n edges k0 n 0 (d0 n)) n n []

theorem d0_3 : d0 3 = #[⟨0,0,0⟩, ⟨1,0,9⟩, ⟨1,0,18⟩, ⟨1,0,27⟩] := by
  apply Array.ext'
  simp [d0, xzCost, List.range, List.range.loop]

/-- Three bytes, position 0 offers a far 3-byte match (19 bits) and a near 2-byte match
    (8 bits).  The optimum is the near match followed by a literal (17 bits); the DP without
    the literal relaxation prices `d[3]` only as 27 (all literals) or 19 and returns the far
    match. -/
example : shortestPathOld 2 3 #[[(3, 5000), (2, 1)], [], []] 0 = [(3, 5000)] ∧
    pathCost [(3, 5000)] = 19 ∧
    shortestPath 2 3 #[[(3, 5000), (2, 1)], [], []] 0 = [(2, 1), (1, 0)] ∧
    pathCost [(2, 1), (1, 0)] = 17 := by
  rw [shortestPath_eq, dFinal, shortestPathOld, d0_3]
  decide

/-- the old result is a valid parse, so it witnesses non-optimality of the old DP -/
example : ValidParse 2 3 #[[(3, 5000), (2, 1)], [], []] 0 [(3, 5000)] :=
  ⟨Or.inr ⟨3, by decide, by decide, by decide, by decide, by decide⟩, rfl⟩

example : ValidParse 2 3 #[[(3, 5000), (2, 1)], [], []] 0 [(2, 1), (1, 0)] :=
  ⟨Or.inr ⟨2, by decide, by decide, by decide, by decide, by decide⟩, Or.inl ⟨rfl, rfl, by decide⟩, rfl⟩

#print axioms dp_optimal
#print axioms shortestPath_cost
#print axioms shortestPath_len

end LZ.Sap
