/-
  LzProofs.Int32All — the D18 bound `Sap.Int32OK` is a consequence of `NewParser`.

  Since the repair of D18 (`OSAPConfig.Verify` and `GSAPConfig.Verify` reject
  `BufferSize > MaxInt32`; `LZ.verify` follows), every OSAP parser `NewParser` returns satisfies
  `Sap.Int32OK` (its first disjunct, `BufferSize ≤ MaxInt32`).  The history-level theorems that
  carried the hypothesis `(hb : Int32OK s0)` next to `(h0 : newParser .OSAP raw = some s0)` hold
  without it; the corollaries are named `<old name>_all`, conclusions verbatim.

  This file: the base lemma and the theorems of GlueLemmas.lean / GlueSuffix.lean (namespace
  `LZ.Sap`).  `GlueProps` and `RunsOsap` cannot be imported into one file (`GlueProps` and `Runs`
  both declare `LZ.step_fst`), so
   * the theorems of GlueProps.lean (`LZ.C11_…`) are in `Int32AllGlue.lean`,
   * the theorems of RunsOsap.lean  (`LZ.C19_…`) are in `Int32AllRuns.lean`.

  Theorems (namespace `LZ.Sap`):
   * `int32OK_of_newParser`          `newParser .OSAP raw = some s0 → Int32OK s0`
   * `newParser_osap_bufferSize`     … in the form `s0.buf.cfg.bufferSize ≤ 2147483647`
   * `C11_optimal_of_segFacts_all`   strengthens `C11_optimal_of_segFacts`   (GlueLemmas)
   * `ceAt_all_histories_all`        strengthens `ceAt_all_histories`        (GlueLemmas)
   * `C11_optimal_unconditional_all` strengthens `Sap.C11_optimal_unconditional` (GlueSuffix)
   * `ceAt_holds_all`                strengthens `ceAt_holds`                (GlueSuffix)
-/
import LzProofs.GlueSuffix
namespace LZ.Sap

/-- every OSAP parser `NewParser` returns has `BufferSize ≤ MaxInt32` (`Verify`, fix for D18) -/
theorem newParser_osap_bufferSize (raw : Cfg) (s0 : Parser)
    (h0 : newParser .OSAP raw = some s0) : s0.buf.cfg.bufferSize ≤ 2147483647 := by
  unfold newParser at h0
  simp only at h0
  split at h0
  · rename_i hv
    cases h0
    simp only [verify, Bool.and_eq_true, decide_eq_true_eq] at hv
    have hle : (setDefaults .OSAP (raw.restrict .OSAP)).bufferSize ≤ 2147483647 := hv.2
    simp only [PBuf.init, Cfg.bufCfg]
    omega
  · cases h0

/-- **the D18 bound holds for every accepted OSAP configuration** -/
theorem int32OK_of_newParser (raw : Cfg) (s0 : Parser) (h0 : newParser .OSAP raw = some s0) :
    Int32OK s0 :=
  Or.inl (newParser_osap_bufferSize raw s0 h0)

/-! ## GlueLemmas.lean -/

/-- `C11_optimal_of_segFacts` without `Int32OK` -/
theorem C11_optimal_of_segFacts_all (hS : SegmentsFacts) (raw : Cfg) (s0 : Parser)
    (h0 : newParser .OSAP raw = some s0)
    (ops : List POp) (flags : Nat) (hf : flags % 2 = 0)
    (hn : (runOps s0 ops).blockN ≠ 0) :
    let s := runOps s0 ops
    ∃ o, s.dict = .osap o ∧
      LzParse (s.buf.data.take (s.buf.w + s.blockN)) s.buf.w s.buf.cfg.windowSize
        s.minMatch s.cfg.maxMatchLen.toNat s.blockN (osapPath s o) ∧
      ∀ π, LzParse (s.buf.data.take (s.buf.w + s.blockN)) s.buf.w s.buf.cfg.windowSize
          s.minMatch s.cfg.maxMatchLen.toNat s.blockN π →
        blockCost (s.parse flags).2.2.2 ≤ pathCost π :=
  C11_optimal_of_segFacts hS raw s0 h0 (int32OK_of_newParser raw s0 h0) ops flags hf hn

/-- `ceAt_all_histories` without `Int32OK` -/
theorem ceAt_all_histories_all (hS : SegmentsFacts) (raw : Cfg) (s0 : Parser)
    (h0 : newParser .OSAP raw = some s0) (ops : List POp) :
    CEAt (runOps s0 ops) ∧ BufLen (runOps s0 ops) :=
  ceAt_all_histories hS raw s0 h0 (int32OK_of_newParser raw s0 h0) ops

/-! ## GlueSuffix.lean -/

/-- **C11, unconditional, for every accepted OSAP configuration.**  Start from a new OSAP parser,
    apply any sequence of `Write`, `ReadFrom`, `Parse(&blk, flags)`, `Parse(nil)`, `Shrink`,
    `Reset`; the next block emitted with flags 0 is an LZ77 parse of its bytes (lengths in
    `[MinMatchLen, MaxMatchLen]`, offsets `≤ WindowSize`, sources in the buffer) of minimum
    `XZCost`. -/
theorem C11_optimal_unconditional_all (raw : Cfg) (s0 : Parser)
    (h0 : newParser .OSAP raw = some s0)
    (ops : List POp) (flags : Nat) (hf : flags % 2 = 0)
    (hn : (runOps s0 ops).blockN ≠ 0) :
    let s := runOps s0 ops
    ∃ o, s.dict = .osap o ∧
      LzParse (s.buf.data.take (s.buf.w + s.blockN)) s.buf.w s.buf.cfg.windowSize
        s.minMatch s.cfg.maxMatchLen.toNat s.blockN (osapPath s o) ∧
      ∀ π, LzParse (s.buf.data.take (s.buf.w + s.blockN)) s.buf.w s.buf.cfg.windowSize
          s.minMatch s.cfg.maxMatchLen.toNat s.blockN π →
        blockCost (s.parse flags).2.2.2 ≤ pathCost π :=
  C11_optimal_unconditional raw s0 h0 (int32OK_of_newParser raw s0 h0) ops flags hf hn

/-- the hypothesis `CEAt` of `C11_all_histories` holds for every buffer along every history of
    every accepted OSAP configuration -/
theorem ceAt_holds_all (raw : Cfg) (s0 : Parser) (h0 : newParser .OSAP raw = some s0)
    (ops : List POp) : CEAt (runOps s0 ops) :=
  ceAt_holds raw s0 h0 (int32OK_of_newParser raw s0 h0) ops

/-! ## non-vacuity -/

example : Int32OK glueOsap0 := int32OK_of_newParser glueOsapCfg glueOsap0 glueOsap0_new

example := C11_optimal_unconditional_all glueOsapCfg glueOsap0 glueOsap0_new glueOps 0 rfl
  glueOps_blockN

example : CEAt (runOps glueOsap0 glueOps) := ceAt_holds_all glueOsapCfg glueOsap0 glueOsap0_new
  glueOps

/-! ## axioms -/

#print axioms newParser_osap_bufferSize
#print axioms int32OK_of_newParser
#print axioms C11_optimal_of_segFacts_all
#print axioms ceAt_all_histories_all
#print axioms C11_optimal_unconditional_all
#print axioms ceAt_holds_all

end LZ.Sap
