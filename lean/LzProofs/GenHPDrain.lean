/-
  LzProofs.GenHPDrain — C14 "repeated `Parse(nil)` drains the buffer" about the Go text of HP: the model-level drain theorem
  `C14_drains` (LzProofs/ParseProps.lean; `nilIter`, LzProofs/ParseParser.lean) transported along the history simulation
  `runN_sim` of LzProofs/GenHPHistNil.lean.  No sorry, no axioms of its own.

    nilOps fl             the calls `Parse(nil, flags_k)` (ghost value `fl[k].1`, flags `fl[k].2`; every value, every flags)
    drainRes bs u k fl    the results expected from call number `k` on: ghost handed back, `n = min(bs, u − k·bs)`, the error
                          `nil` if `k < ⌈u / bs⌉` and `ErrEmptyBuffer` otherwise
    nSum rs               the sum of the `n` of the `Parse(nil)` results in `rs`
    nSum_drainRes         `Σ n = min(u − k·bs, |fl|·bs)`
    C14_drains_go_text_hp after ANY history of the translated operations from `init` (state `t`, `u = len(Data) − W`
                          unparsed bytes, `bs = BlockSize`, `r = ⌈u / bs⌉`): ANY number `m` of further translated
                          `Parse(nil, ·)` calls run without panic and return EXACTLY `drainRes bs u 0`: call `k < r`
                          returns `(min(bs, u − k·bs), nil)`, every call `k ≥ r` returns `(0, ErrEmptyBuffer)` — so
                          `ErrEmptyBuffer` is reached after exactly `r` calls —; the `n` sum to `min(u, m·bs)`,
                          `W` ends at `min(len(Data), W + m·bs)`; for `m ≥ r` the `n` sum to `u` and `W = len(Data)`.
-/
import LzProofs.GenHPHistNil

set_option linter.unusedSimpArgs false
set_option linter.unusedVariables false

namespace LZ.GenHPHist
open LZ LZ.Gen LZ.GenBuf LZ.GenHash LZ.GenHPParse LZ.GenProps LZ.GenNil

/-- the calls `Parse(nil, flags)`, one per entry (ghost value, flags) -/
def nilOps (fl : List (Gen.Block' × Int)) : List GOpN := fl.map fun x => GOpN.parseNil x.1 x.2

/-- what the model returns for the calls `nilOps fl` from `s` -/
def modelNilRes : Parser → List (Gen.Block' × Int) → List GResN
  | _, [] => []
  | s, x :: xs => .parseNil x.1 ((s.parseNil.2.1 : Nat) : Int) (parseErr s.parseNil.2.2) :: modelNilRes s.parseNil.1 xs

/-- the results of draining: call number `k` (counted from the state with `u` unparsed bytes) returns
    `n = min(bs, u − k·bs)` and `nil`, or `ErrEmptyBuffer` from call `⌈u / bs⌉` on -/
def drainRes (bs u : Nat) : Nat → List (Gen.Block' × Int) → List GResN
  | _, [] => []
  | k, x :: xs =>
    .parseNil x.1 ((Min.min bs (u - k * bs) : Nat) : Int)
      (if k < (u + bs - 1) / bs then Gen.Err.ok else Gen.ErrEmptyBuffer) :: drainRes bs u (k + 1) xs

/-- the sum of the `n` returned by the `Parse(nil)` calls of a result list -/
def nSum : List GResN → Int
  | [] => 0
  | .parseNil _ n _ :: rs => n + nSum rs
  | .r _ :: rs => nSum rs

theorem nilOps_wf (fl : List (Gen.Block' × Int)) : ∀ op ∈ nilOps fl, op.WF := by
  intro op hop
  obtain ⟨x, -, rfl⟩ := List.mem_map.mp hop
  trivial

theorem resultsAgreeN_nil : ∀ (fl : List (Gen.Block' × Int)) (sg : Parser × Ghost) (rs : List GResN),
    ResultsAgreeN sg (nilOps fl) rs → rs = modelNilRes sg.1 fl := by
  intro fl
  induction fl with
  | nil =>
    intro sg rs h
    cases rs with
    | nil => rfl
    | cons r rs => exact absurd h (by simp [nilOps, ResultsAgreeN])
  | cons x xs ih =>
    intro sg rs h
    cases rs with
    | nil => exact absurd h (by simp [nilOps, ResultsAgreeN])
    | cons r rs =>
      have h' : resAgreeN sg.1 (.parseNil x.1 x.2) r ∧ ResultsAgreeN (step sg .parseNil) (nilOps xs) rs := h
      obtain ⟨h1, h2⟩ := h'
      have hrs := ih _ _ h2
      rw [step_parseNil_fst] at hrs
      cases r with
      | r res => exact absurd h1 (by simp [resAgreeN])
      | parseNil b n e =>
        obtain ⟨a1, a2, a3⟩ := h1
        subst a1 a2 a3
        rw [hrs]; rfl

theorem runOps_nilOps : ∀ (fl : List (Gen.Block' × Int)) (sg : Parser × Ghost),
    (runOps sg ((nilOps fl).map GOpN.abs)).1 = Parser.nilIter fl.length sg.1 := by
  intro fl
  induction fl with
  | nil => intro sg; rfl
  | cons x xs ih =>
    intro sg
    show (runOps (step sg .parseNil) ((nilOps xs).map GOpN.abs)).1 = Parser.nilIter (xs.length + 1) sg.1
    rw [ih, step_parseNil_fst]; rfl

theorem nilIter_succ' : ∀ (k : Nat) (s : Parser), Parser.nilIter (k + 1) s = (Parser.nilIter k s).parseNil.1
  | 0, s => rfl
  | k + 1, s => by
    show Parser.nilIter (k + 1) s.parseNil.1 = (Parser.nilIter k s.parseNil.1).parseNil.1
    exact nilIter_succ' k s.parseNil.1

/-- the model's results of repeated `Parse(nil)` ARE the drain results (`C14_drains`) -/
theorem modelNilRes_drain (s : Parser) (hw : s.buf.w ≤ s.buf.data.length) (hbs : 1 ≤ s.buf.cfg.blockSize) :
    ∀ (fl : List (Gen.Block' × Int)) (k : Nat),
      modelNilRes (Parser.nilIter k s) fl = drainRes s.buf.cfg.blockSize (s.buf.data.length - s.buf.w) k fl := by
  obtain ⟨d1, d2⟩ := C14_drains s hw hbs
  simp only at d1 d2
  intro fl
  induction fl with
  | nil => intro k; rfl
  | cons x xs ih =>
    intro k
    show GResN.parseNil x.1 _ _ :: modelNilRes (Parser.nilIter k s).parseNil.1 xs = GResN.parseNil x.1 _ _ :: _
    rw [← nilIter_succ', ih (k + 1)]
    by_cases hk : k < (s.buf.data.length - s.buf.w + s.buf.cfg.blockSize - 1) / s.buf.cfg.blockSize
    · obtain ⟨s', hs⟩ := d1 k hk
      rw [hs, if_pos hk]; rfl
    · have hk' : ¬ k * s.buf.cfg.blockSize < s.buf.data.length - s.buf.w :=
        fun hc => hk ((Parser.ceilDiv_lt_iff k (s.buf.data.length - s.buf.w) s.buf.cfg.blockSize hbs).mpr hc)
      rw [(d2 k (by omega)).1, if_neg hk]
      have : Min.min s.buf.cfg.blockSize (s.buf.data.length - s.buf.w - k * s.buf.cfg.blockSize) = 0 := by omega
      rw [this]; rfl

theorem nSum_drainRes (bs u : Nat) : ∀ (fl : List (Gen.Block' × Int)) (k : Nat),
    nSum (drainRes bs u k fl) = ((Min.min (u - k * bs) (fl.length * bs) : Nat) : Int) := by
  intro fl
  induction fl with
  | nil => intro k; simp [drainRes, nSum]
  | cons x xs ih =>
    intro k
    show ((Min.min bs (u - k * bs) : Nat) : Int) + nSum (drainRes bs u (k + 1) xs) = _
    rw [ih (k + 1), List.length_cons, Nat.succ_mul, Nat.succ_mul]
    generalize k * bs = a
    generalize xs.length * bs = c
    omega

/-- **C14 (repeated `Parse(nil)` drains the buffer) about the Go text of HP.**  Run any history `ops` of the translated
    `Write`, `ReadFrom`, `Parse(&blk)`, `Parse(nil)`, `Shrink`, `Reset` from `hashParser.init`; let `t` be the Go state
    reached, `u = len(Data) − W` its unparsed bytes, `bs = BlockSize`, `r = ⌈u / bs⌉`.  Then ANY further sequence of
    translated `Parse(nil, flags_k)` calls (`fl`: ghost values and flags, all arbitrary) runs without panic and returns
    exactly `drainRes bs u 0 fl`: call `k < r` returns `n = min(bs, u − k·bs) > 0` and `nil`, every call `k ≥ r` returns
    `(0, ErrEmptyBuffer)` — `ErrEmptyBuffer` is reached after exactly `r` calls —, each hands its ghost block back; the
    returned `n` sum to `min(u, m·bs)` (`m` = number of calls), `W` ends at `min(len(Data), W + m·bs)` with `len(Data)`
    unchanged; once `m ≥ r` the `n` sum to the unparsed length `u` and `W = len(Data)`. -/
theorem C14_drains_go_text_hp (cfg : Gen.HPConfig) (s0 : Gen.hashParser)
    (hinit : hashParser_init default cfg = Res.ok (s0, Gen.Err.ok))
    (extra : Nat) (grow : Nat → Nat → Nat) (fuel : Nat)
    (hfuel : s0.hashDictionary.ParserBuffer.BufConfig.BufferSize.toNat + 3 ≤ fuel)
    (ops : List GOpN) (hwf : ∀ op ∈ ops, op.WF) (fl : List (Gen.Block' × Int)) :
    ∃ t rs, runN (rfGo extra) grow fuel s0 ops = Res.ok (t, rs) ∧
      let bs := t.hashDictionary.ParserBuffer.BufConfig.BlockSize.toNat
      let u := t.hashDictionary.ParserBuffer.Data.len - t.hashDictionary.ParserBuffer.W.toNat
      let r := (u + bs - 1) / bs
      ∃ t', runN (rfGo extra) grow fuel t (nilOps fl) = Res.ok (t', drainRes bs u 0 fl) ∧
        nSum (drainRes bs u 0 fl) = ((Min.min u (fl.length * bs) : Nat) : Int) ∧
        t'.hashDictionary.ParserBuffer.Data.len = t.hashDictionary.ParserBuffer.Data.len ∧
        t'.hashDictionary.ParserBuffer.W =
          ((Min.min t.hashDictionary.ParserBuffer.Data.len (t.hashDictionary.ParserBuffer.W.toNat + fl.length * bs) : Nat) : Int) ∧
        (r ≤ fl.length → nSum (drainRes bs u 0 fl) = (u : Int) ∧
          t'.hashDictionary.ParserBuffer.W = (t.hashDictionary.ParserBuffer.Data.len : Int)) := by
  obtain ⟨p, t, rs, hp, h0, h1, hH, hbc, hf, h3, -, -⟩ := gen_hp_history_nil cfg s0 hinit extra grow fuel hfuel ops hwf
  refine ⟨t, rs, h1, ?_⟩
  intro bs u r
  obtain ⟨t', rs', k1, k2, k3, -, k5⟩ :=
    runN_sim hbc (rfGo extra) (rfGo_spec extra) grow fuel hf (nilOps fl) t Ghost.init hH (nilOps_wf fl)
  -- the model facts
  have hw := hH.hw
  have hdl := hH.dataLen
  have hbs1 : 1 ≤ (ofHPs t).buf.cfg.blockSize := by
    have hc : (ofHPs t).buf.cfg = p.buf.cfg := hH.cfg
    rw [hc]
    exact (newParser_inv .HP (ofHP cfg) p hp).2.2
  have hbsE : (ofHPs t).buf.cfg.blockSize = bs := rfl
  have hwE : (ofHPs t).buf.w = t.hashDictionary.ParserBuffer.W.toNat := rfl
  have huE : (ofHPs t).buf.data.length - (ofHPs t).buf.w = u := by rw [hdl, hwE]
  have hrs : rs' = drainRes bs u 0 fl := by
    rw [resultsAgreeN_nil fl _ _ k5]
    have := modelNilRes_drain (ofHPs t) hw hbs1 fl 0
    rw [hbsE, huE] at this
    exact this
  have hsum := nSum_drainRes bs u fl 0
  rw [Nat.zero_mul, Nat.sub_zero] at hsum
  -- the state reached
  have hst : ofHPs t' = Parser.nilIter fl.length (ofHPs t) := by rw [k3, runOps_nilOps]
  have hbuf := Parser.nilIter_buf fl.length (ofHPs t) hw
  rw [← hst] at hbuf
  have hW' : t'.hashDictionary.ParserBuffer.W.toNat =
      Min.min t.hashDictionary.ParserBuffer.Data.len (t.hashDictionary.ParserBuffer.W.toNat + fl.length * bs) := by
    have := congrArg PBuf.w hbuf
    rw [hdl] at this
    exact this
  have hD' : t'.hashDictionary.ParserBuffer.Data.len = t.hashDictionary.ParserBuffer.Data.len := by
    have := congrArg (fun b => b.data.length) hbuf
    simp only at this
    rw [k2.dataLen, hdl] at this
    exact this
  have hW0 := k2.pok.wf.1.w
  have hWt0 := hH.pok.wf.1.w
  have hWle := hH.pok.w
  have hWfin : t'.hashDictionary.ParserBuffer.W =
      ((Min.min t.hashDictionary.ParserBuffer.Data.len (t.hashDictionary.ParserBuffer.W.toNat + fl.length * bs) : Nat) : Int) := by
    rw [← hW']; omega
  refine ⟨t', by rw [← hrs]; exact k1, hsum, hD', hWfin, ?_⟩
  intro hr
  have hle : u ≤ fl.length * bs := by
    have h1 : (u + bs - 1) / bs < fl.length + 1 := by show r < _; omega
    have hbs1' : 1 ≤ bs := hbs1
    rw [Nat.div_lt_iff_lt_mul (by omega), Nat.succ_mul] at h1
    omega
  refine ⟨?_, ?_⟩
  · rw [hsum]
    have : Min.min u (fl.length * bs) = u := by omega
    rw [this]
  · rw [hWfin]
    have : Min.min t.hashDictionary.ParserBuffer.Data.len (t.hashDictionary.ParserBuffer.W.toNat + fl.length * bs) =
        t.hashDictionary.ParserBuffer.Data.len := by
      have hu : u = t.hashDictionary.ParserBuffer.Data.len - t.hashDictionary.ParserBuffer.W.toNat := rfl
      omega
    rw [this]

end LZ.GenHPHist

#print axioms LZ.GenHPHist.resultsAgreeN_nil
#print axioms LZ.GenHPHist.modelNilRes_drain
#print axioms LZ.GenHPHist.nSum_drainRes
#print axioms LZ.GenHPHist.C14_drains_go_text_hp
