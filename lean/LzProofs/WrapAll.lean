/-
  LzProofs.WrapAll — C08 (Wrap) for ALL seven parser kinds (HP, BHP, DHP, BDHP, BUP, GSAP, OSAP).

  Part 1: `parseSpec_all : ParseSpec I_all`.  `I_all` is `Parser.GreedyWF` with the clause
          "the dictionary is not OSAP's" replaced by "if the dictionary is OSAP's edge table, it
          satisfies `OsapOK`" (the history invariant of the OSAP table, ParseHist.lean).  The
          soundness of `computeEdges` is not a hypothesis: `computeEdgesSound_holds` (GlueProps).
  Part 2: the theorems of LzProofs/WrapProps.lean instantiated with `parseSpec_all`.

  The history-level statements are in LzProofs/WrapAllHist.lean.
-/
import LzProofs.WrapProps
import LzProofs.GlueProps
namespace LZ
open PBuf

/-! ## Part 1: the parser invariant for all kinds -/

/-- The parser invariant of the Wrap theorems for all seven kinds: `1 ≤ minMatch`,
    `1 ≤ BlockSize`, and — only if the search structure is OSAP's edge table `o` — `OsapOK`:
    the table starts at or before `W` and was computed by `computeEdges` for a prefix of the
    present buffer (or is empty).  Nothing is assumed about hash tables, buckets or GSAP's
    suffix array. -/
def I_all (s : Parser) : Prop :=
  1 ≤ s.minMatch ∧ 1 ≤ s.buf.cfg.blockSize ∧
  ∀ o, s.dict = .osap o →
    OsapOK s.buf.data s.buf.w s.buf.cfg.windowSize s.cfg.maxMatchLen.toNat o

/-- the invariant of the six greedy kinds is a special case -/
theorem I_all_of_greedyWF {s : Parser} (h : s.GreedyWF) : I_all s :=
  ⟨h.1, h.2.1, fun o ho => absurd ho (h.2.2 o)⟩

theorem I_all.greedyWF {s : Parser} (h : I_all s) (hd : ∀ o, s.dict ≠ .osap o) : s.GreedyWF :=
  ⟨h.1, h.2.1, hd⟩

/-- the soundness of `computeEdges` in the shape `OsapOK.next` wants it -/
theorem computeEdges_sound_parser (s : Parser) :
    ∀ data w w' n, w ≤ w' → w' + n ≤ data.length →
      EdgesSoundBlock (data.take (w' + n)) w' s.buf.cfg.windowSize s.cfg.maxMatchLen.toNat n
        (computeEdges data w s.buf.cfg.windowSize s.minMatch s.cfg.maxMatchLen.toNat).edges (w' - w) :=
  computeEdgesSound_holds _ _ _

/-- one `Parse` of an OSAP state satisfying `I_all`, with unparsed data -/
theorem Parser.parse_osap_all (s : Parser) (flags : Nat) (o : OsapD) (hd : s.dict = .osap o)
    (hI : I_all s) (hw : s.buf.w ≤ s.buf.data.length) (hn : s.blockN ≠ 0) :
    ∃ s' n blk, s.parse flags = (s', n, .ok, blk) ∧ Parser.ParseOK s flags s.seqGoodO s' n blk ∧
      s'.dict = .osap (s.osapEdges o) ∧
      OsapOK s.buf.data s.buf.w s.buf.cfg.windowSize s.cfg.maxMatchLen.toNat (s.osapEdges o) := by
  obtain ⟨hmm, hbs, hO⟩ := hI
  obtain ⟨hE', hO'⟩ := OsapOK.next s o hw (computeEdges_sound_parser s) (hO o hd)
  obtain ⟨s', n, blk, hp, hok, hd'⟩ := Parser.parse_osap_ok_block s flags o hd hw hn hmm hE'
  exact ⟨s', n, blk, hp, hok, hd', hO'⟩

/-- progress of `Parse` for every kind -/
theorem Parser.parse_progress_all (s : Parser) (flags : Nat) (hI : I_all s) (hb : BufOK s.buf)
    (hlt : s.buf.w < s.buf.data.length) :
    s.buf.w < (s.parse flags).1.buf.w ∧ (s.parse flags).1.buf.w ≤ s.buf.data.length := by
  cases hd : s.dict with
  | osap o =>
    have hn : s.blockN ≠ 0 := by
      rw [ne_eq, Parser.blockN_eq_zero_iff s hb.1 hI.2.1]; omega
    obtain ⟨s', n, blk, hp, hok, -, -⟩ := Parser.parse_osap_all s flags o hd hI hb.1 hn
    rw [hp]
    have h1 := hok.n_pos
    have h2 := hok.w_le hb.1
    simp only [hok.buf]
    omega
  | single _ | double _ | bucket _ | gsap _ =>
    exact Parser.parse_progress s flags
      (hI.greedyWF (by intro o ho; rw [hd] at ho; simp at ho)) hb.1 hb.2.2 hlt

theorem I_all.parse {s : Parser} (flags : Nat) (hI : I_all s) (hb : BufOK s.buf) :
    I_all (s.parse flags).1 := by
  cases hd : s.dict with
  | osap o =>
    by_cases hn : s.blockN = 0
    · rw [Parser.parse_empty s flags hn]; exact hI
    · obtain ⟨s', n, blk, hp, hok, hd', hO'⟩ := Parser.parse_osap_all s flags o hd hI hb.1 hn
      rw [hp]
      refine ⟨?_, ?_, ?_⟩
      · show 1 ≤ s'.minMatch
        rw [minMatch_eq, hok.kind, hok.cfg, ← minMatch_eq]; exact hI.1
      · show 1 ≤ s'.buf.cfg.blockSize
        rw [hok.buf]; exact hI.2.1
      · intro o' ho'
        have ho'' : s'.dict = .osap o' := ho'
        rw [hd'] at ho''
        simp only [Dict.osap.injEq] at ho''
        subst ho''
        show OsapOK s'.buf.data s'.buf.w s'.buf.cfg.windowSize s'.cfg.maxMatchLen.toNat _
        rw [hok.buf, hok.cfg]
        exact hO'.mono_w _ (by simp only; omega)
  | single _ | double _ | bucket _ | gsap _ =>
    exact I_all_of_greedyWF (Parser.GreedyWF.parse flags
      (hI.greedyWF (by intro o ho; rw [hd] at ho; simp at ho)) hb.1 hb.2.2)

theorem I_all.shrink {s : Parser} (hI : I_all s) : I_all s.shrink.1 := by
  rcases shrink_eq s with he | ⟨hk, hc, hb, hd1, hd2⟩
  · rw [he]; exact hI
  · obtain ⟨hmm, hbs, hO⟩ := hI
    refine ⟨by rw [minMatch_eq, hk, hc, ← minMatch_eq]; exact hmm, ?_, ?_⟩
    · rw [hb, (PBuf.shrink_frame s.buf).2.2.2.1]; exact hbs
    · intro o' ho'
      cases hd : s.dict with
      | osap o =>
        rw [hd1 o hd] at ho'
        simp only [Dict.osap.injEq] at ho'
        subst ho'
        exact OsapOK.empty _ _ _ _
      | single _ | double _ | bucket _ | gsap _ =>
        exact absurd ho' (hd2 (by intro o ho; rw [hd] at ho; simp at ho) o')

theorem I_all.readFrom {s : Parser} (hI : I_all s) (r : Reader) : I_all (s.readFrom r).1 := by
  obtain ⟨hmm, hbs, hO⟩ := hI
  obtain ⟨a1, a2, a3, a4, a5, a6⟩ := PBuf.readFrom_frame s.buf r
  refine ⟨hmm, ?_, ?_⟩
  · show 1 ≤ (s.buf.readFrom r).1.cfg.blockSize
    rw [a5]; exact hbs
  · intro o ho
    have ho' : s.dict = .osap o := ho
    show OsapOK (s.buf.readFrom r).1.data (s.buf.readFrom r).1.w
      (s.buf.readFrom r).1.cfg.windowSize s.cfg.maxMatchLen.toNat o
    rw [a1, a3, a5]
    exact (hO o ho').append _

/-- `Reset` (with any data) keeps `I_all` -/
theorem I_all.reset {s : Parser} (hI : I_all s) (data : List Byte) (capExtra : Nat) :
    I_all (s.reset data capExtra).1 := by
  rcases reset_eq s data capExtra with ⟨-, hs⟩ | ⟨-, hk, hc, hb, -, hd1, hd2⟩
  · rw [hs]; exact hI
  · obtain ⟨hmm, hbs, hO⟩ := hI
    refine ⟨by rw [minMatch_eq, hk, hc, ← minMatch_eq]; exact hmm, ?_, ?_⟩
    · rw [hb]
      rcases PBuf.reset_frame s.buf data capExtra with ⟨-, -, -, -, b4, -⟩ | ⟨-, b1⟩
      · rw [b4]; exact hbs
      · rw [b1]; exact hbs
    · intro o' ho'
      cases hd : s.dict with
      | osap o =>
        rw [hd1 o hd] at ho'
        simp only [Dict.osap.injEq] at ho'
        subst ho'
        exact OsapOK.empty _ _ _ _
      | single _ | double _ | bucket _ | gsap _ =>
        exact absurd ho' (hd2 (by intro o ho; rw [hd] at ho; simp at ho) o')

/-- **`ParseSpec` for all seven kinds.** -/
theorem parseSpec_all : ParseSpec I_all where
  progress := fun s flags hI hb hlt => Parser.parse_progress_all s flags hI hb hlt
  inv_parse := fun _ flags hI hb => hI.parse flags hb
  inv_shrink := fun _ hI _ => hI.shrink
  inv_readFrom := fun _ r hI _ => hI.readFrom r

/-- every parser made by `NewParser` satisfies `I_all` (all kinds) -/
theorem newParser_I_all (k : Kind) (raw : Cfg) (s0 : Parser) (h0 : newParser k raw = some s0) :
    I_all s0 := by
  obtain ⟨hi, hmm, hbs⟩ := newParser_inv k raw s0 h0
  refine ⟨by rw [minMatch_eq, hi.kind]; exact hmm, hbs, ?_⟩
  intro o ho
  have hD := hi.dict
  unfold DictOK at hD
  simp only [ho] at hD
  exact hD.2

/-! ## Part 2: the Wrap theorems for all kinds -/

/-- **C08, one call** (all kinds): see `C08_wrap_step`. -/
theorem C08_wrap_step_all (wp : Wrapped) (flags : Nat) (fed : List Byte)
    (h : WInv I_all wp fed) : WrapPost I_all wp fed (wp.parse flags) :=
  C08_wrap_step parseSpec_all wp flags fed h

/-- `WrappedParser.Parse` never panics and never returns `ErrFullBuffer`/`ErrEmptyBuffer`
    (all kinds). -/
theorem C08_wrap_no_panic_all (wp : Wrapped) (flags : Nat) (fed : List Byte)
    (h : WInv I_all wp fed) :
    (wp.parse flags).2.2.1 ≠ .panic ∧ (wp.parse flags).2.2.1 ≠ .full ∧
    (wp.parse flags).2.2.1 ≠ .empty :=
  C08_wrap_no_panic parseSpec_all wp flags fed h

/-- an error is returned only with `n = 0`, nothing unparsed in the buffer, and it is the
    reader's own report; the invariant survives (all kinds). -/
theorem C08_wrap_error_all (wp : Wrapped) (flags : Nat) (fed : List Byte)
    (h : WInv I_all wp fed) (he : (wp.parse flags).2.2.1 ≠ .ok) :
    (wp.parse flags).2.1 = 0 ∧
    (wp.parse flags).1.s.buf.w = (wp.parse flags).1.s.buf.data.length ∧
    ReaderSaid wp.r (wp.parse flags).1.r (wp.parse flags).2.2.1 ∧
    ∃ q, WInv I_all (wp.parse flags).1 (fed ++ q) ∧
      wp.r.payload = q ++ (wp.parse flags).1.r.payload ∧
      (wp.parse flags).1.pos = (fed ++ q).length :=
  C08_wrap_error parseSpec_all wp flags fed h he

theorem C08_wrap_tail_all (wp : Wrapped) (flags : Nat) (fed : List Byte)
    (h : WInv I_all wp fed) (hd : ReaderDone wp.r) :
    WInv I_all (wp.parse flags).1 fed ∧ ReaderDone (wp.parse flags).1.r ∧
    (wp.parse flags).1.pos = wp.pos + (wp.parse flags).2.1 ∧
    (((wp.parse flags).2.2.1 = .ok ∧ 1 ≤ (wp.parse flags).2.1) ∨
     ((wp.parse flags).2.1 = 0 ∧ (wp.parse flags).2.2.1 = .eof ∧ Drained (wp.parse flags).1 ∧
      (wp.parse flags).1.pos = fed.length)) :=
  C08_wrap_tail parseSpec_all wp flags fed h hd

theorem C08_wrap_eof_all (wp : Wrapped) (flags : Nat) (fed : List Byte)
    (h : WInv I_all wp fed) (hd : Drained wp) :
    (wp.parse flags).2.1 = 0 ∧ (wp.parse flags).2.2.1 = .eof ∧
    WInv I_all (wp.parse flags).1 fed ∧ Drained (wp.parse flags).1 :=
  C08_wrap_eof parseSpec_all wp flags fed h hd

theorem C08_wrap_eof_forever_all (flags : Nat) (fed : List Byte) (k : Nat) (wp : Wrapped)
    (h : WInv I_all wp fed) (hd : Drained wp) :
    ((Wrapped.iter flags k wp).parse flags).2.1 = 0 ∧
    ((Wrapped.iter flags k wp).parse flags).2.2.1 = .eof :=
  C08_wrap_eof_forever parseSpec_all flags fed k wp h hd

theorem C08_wrap_calls_all (flags : Nat) (k : Nat) (wp : Wrapped) (fed : List Byte)
    (h : WInv I_all wp fed) :
    ∃ q, WInv I_all (Wrapped.iter flags k wp) (fed ++ q) ∧
      wp.r.payload = q ++ (Wrapped.iter flags k wp).r.payload ∧
      (Wrapped.iter flags k wp).pos = wp.pos + ((Wrapped.calls flags k wp).map (·.1)).sum ∧
      ∀ c ∈ Wrapped.calls flags k wp,
        (c.2 = .ok ∧ 1 ≤ c.1) ∨
        (c.1 = 0 ∧ c.2 ≠ .ok ∧ c.2 ≠ .panic ∧ c.2 ≠ .full ∧ c.2 ≠ .empty) :=
  C08_wrap_calls parseSpec_all flags k wp fed h

theorem C08_wrap_chunking_all (wa wb : Wrapped) (flags : Nat) (fa fb : List Byte)
    (ha : WInv I_all wa fa) (hb : WInv I_all wb fb) (hs : WSim wa wb) :
    (wa.parse flags).2 = (wb.parse flags).2 ∧ WSim (wa.parse flags).1 (wb.parse flags).1 :=
  C08_wrap_chunking parseSpec_all wa wb flags fa fb ha hb hs

theorem C08_wrap_chunking_calls_all (flags : Nat) (k : Nat) (wa wb : Wrapped) (fa fb : List Byte)
    (ha : WInv I_all wa fa) (hb : WInv I_all wb fb) (hs : WSim wa wb) :
    Wrapped.calls flags k wa = Wrapped.calls flags k wb :=
  C08_wrap_chunking_calls parseSpec_all flags k wa wb fa fb ha hb hs

end LZ

#print axioms LZ.parseSpec_all
#print axioms LZ.newParser_I_all
#print axioms LZ.C08_wrap_step_all
#print axioms LZ.C08_wrap_no_panic_all
#print axioms LZ.C08_wrap_error_all
#print axioms LZ.C08_wrap_tail_all
#print axioms LZ.C08_wrap_eof_all
#print axioms LZ.C08_wrap_eof_forever_all
#print axioms LZ.C08_wrap_calls_all
#print axioms LZ.C08_wrap_chunking_all
#print axioms LZ.C08_wrap_chunking_calls_all
