/-
  LzProofs.GenOSAPHistRun — HISTORIES of translated operations of the optimizing suffix-array parser OSAP, and C01 / C02 /
  C03 / C11 stated about the translation of the Go text.  No sorry, no axioms of its own.

  Operations (`GenHPHist.GOpR`): `Write(p)`, `Parse(&blk, flags)`, `Shrink()`, `Reset(data)`, `ReadFrom(r)` — the
  translated `optSuffixArrayParser_Parse / _Shrink / _Reset` (osap.go; `Parse` calls the translated `shortestPath`),
  the promoted `ParserBuffer_Write` and the translated `ParserBuffer_ReadFrom` run against the scripted reader
  (`rfGo extra`).  `Parse(nil, …)` is excluded by the topic assumption `blk != nil` of CodeOSAPParse.
  `runO extra grow fuel ce s ops` executes the translated functions one after the other; `ce` is the rendering of the
  callee `computeEdges` of `Parse`, constrained by `CESpec B ce` (GenOSAPParseLemmas) — the ONLY hypothesis besides
  "init returned nil", `MinMatchLen < 2^32` (notes/osap-translate.md §6 (a)), well-formed arguments and the fuel
  `BufferSize + B + 5`.  LzProofs/GenOSAPHistEx.lean: the hypothesis is satisfiable; LzProofs/GenOSAPHistGo.lean (when
  present): it holds for the TRANSLATED `computeEdges`.

    stepO_sim / runO_sim   from any Go state with `HistOKO` whose model state is reachable: no panic, `HistOKO` again, the
                     model state after the abstracted operations, every result the model's, the C01 ghost
    runO_append      the states a history passes through are the final states of its prefixes
    gen_osap_history   the same from `init` on `new(optSuffixArrayParser)` for every configuration it accepts; the state
                     reached satisfies `ParseOKO B`
    gen_osap_history_states   `ParseOKO B` after every prefix
    C01_go_text_osap, C02_go_text_osap, C03_go_text_osap   as for HP / GSAP
    C11_go_text_osap   after ANY history the next translated `Parse(&blk, flags)` with even flags returns a block that
                     is the rendering of an LZ77 parse of its bytes, of MINIMUM `XZCost` among all LZ77 parses
-/
import LzProofs.GenOSAPHist
import LzProofs.RunsOsap
import LzProofs.Int32All

set_option linter.unusedSimpArgs false
set_option linter.unusedVariables false

namespace LZ.GenOSAPHist
open LZ LZ.Gen LZ.GenBuf LZ.GenHash LZ.GenSuffix LZ.GenHPParse LZ.GenProps LZ.GenOSAP
open LZ.GenHPHist (GOp GRes GOp.WF GOp.abs resAgree ResultsAgree ghostStep ghostRun parseErr_ok_iff step_parse_fst
  step_reset_fst bind_ok' GOpR GResR GOpR.WF GOpR.abs resAgreeR ResultsAgreeR ghostStepR ghostRunR genErr RFun RFSpec
  rfGo rfGo_spec)

/-- the rendering of the callee `computeEdges` of the translated `Parse` -/
abbrev CEFun := Gen.optSuffixArrayParser → Res Gen.optSuffixArrayParser

/-- one call, on the translated functions -/
def stepO (extra : Nat) (grow : Nat → Nat → Nat) (fuel : Nat) (ce : CEFun) (s : Gen.optSuffixArrayParser) :
    GOpR → Res (Gen.optSuffixArrayParser × GResR)
  | .base (.write p) => Res.bind (osap_Write grow s p) fun r => Res.ok (r.1, .base (.write r.2.1 r.2.2))
  | .base (.parse blk flags) =>
    Res.bind (optSuffixArrayParser_Parse grow fuel ce s blk flags) fun r =>
      Res.ok (r.1, .base (.parse r.2.1 r.2.2.1 r.2.2.2))
  | .base .shrink => Res.bind (optSuffixArrayParser_Shrink s) fun r => Res.ok (r.1, .base (.shrink r.2))
  | .base (.reset data) => Res.bind (optSuffixArrayParser_Reset s data) fun r => Res.ok (r.1, .base (.reset r.2))
  | .readFrom r => Res.bind (osap_ReadFrom (rfGo extra) s r) fun x => Res.ok (x.1, .readFrom x.2.2.1 x.2.2.2)

/-- a history of calls; the results in order -/
def runO (extra : Nat) (grow : Nat → Nat → Nat) (fuel : Nat) (ce : CEFun) :
    Gen.optSuffixArrayParser → List GOpR → Res (Gen.optSuffixArrayParser × List GResR)
  | s, [] => Res.ok (s, [])
  | s, op :: ops =>
    Res.bind (stepO extra grow fuel ce s op) fun r =>
    Res.bind (runO extra grow fuel ce r.1 ops) fun q => Res.ok (q.1, r.2 :: q.2)

theorem runOps_snoc (sg : Parser × Ghost) (ops : List POp) (op : POp) :
    runOps sg (ops ++ [op]) = step (runOps sg ops) op := by
  simp [runOps, List.foldl_append]

/-! ## one step -/

theorem stepO_sim {bc : BufCfg} {B : Nat} (hbc : BCOKO bc) (ce : CEFun) (hCE : CESpec B ce) (extra : Nat)
    (grow : Nat → Nat → Nat) (fuel : Nat) (hfuel : bc.bufferSize + B + 5 ≤ fuel)
    (raw : Cfg) (p0 : Parser) (h0 : newParser .OSAP raw = some p0) (mops : List POp)
    (t : Gen.optSuffixArrayParser) (gh : Ghost) (h : HistOKO bc B t)
    (hreach : (ofOSAPs t, gh) = runOps (p0, Ghost.init) mops) (op : GOpR) (hop : op.WF) :
    ∃ t' r, stepO extra grow fuel ce t op = Res.ok (t', r) ∧ HistOKO bc B t' ∧
      ofOSAPs t' = (step (ofOSAPs t, gh) op.abs).1 ∧ ghostStepR gh op r = (step (ofOSAPs t, gh) op.abs).2 ∧
      resAgreeR (ofOSAPs t) op r := by
  cases op with
  | base op =>
    cases op with
    | write p =>
      obtain ⟨t', n, e, h1, h2, h3, h4, h5, h6⟩ := hist_write hbc grow t h p hop
      refine ⟨t', .base (.write n e), ?_, h2, h3, ?_, h4, h5⟩
      · simp only [stepO, h1]; rfl
      · simp only [ghostStepR, ghostStep, step, GOpR.abs, GOp.abs, h4, Int.toNat_natCast]
    | parse blk flags =>
      have hr1 : ofOSAPs t = (runOps (p0, Ghost.init) mops).1 := by rw [← hreach]
      obtain ⟨t', blk', h1, h2, h3, h4, h5, h6⟩ :=
        hist_parse hbc grow fuel ce hCE t h raw p0 h0 mops hr1 blk flags hop (by have := h.len; omega)
      refine ⟨t', .base (.parse blk' _ _), ?_, h2, ?_, ?_, rfl, rfl, h4, h5⟩
      · simp only [stepO, h1]; rfl
      · show _ = (step (ofOSAPs t, gh) (.parse flags.toNat)).1
        rw [step_parse_fst]; exact h3
      · simp only [ghostStepR, ghostStep, step, GOpR.abs, GOp.abs, parseErr_ok_iff _ h6, Int.toNat_natCast, h4]
        split <;> rfl
    | shrink =>
      obtain ⟨t', h1, h2, h3⟩ := hist_shrink hbc t h
      refine ⟨t', .base (.shrink _), ?_, h2, h3, rfl, rfl⟩
      simp only [stepO, h1]; rfl
    | reset data =>
      obtain ⟨t', e, h1, h2, h3, h4⟩ := hist_reset hbc t h data hop
      refine ⟨t', .base (.reset e), ?_, h2, ?_, ?_, h4⟩
      · simp only [stepO, h1]; rfl
      · show _ = (step (ofOSAPs t, gh) (.reset data.data (data.cap - data.len))).1
        rw [step_reset_fst]; exact h3
      · simp only [ghostStepR, ghostStep, step, GOpR.abs, GOp.abs, GenHash.errOfReset_ok_iff e _ h4]
        split <;> rfl
  | readFrom rd =>
    obtain ⟨t', h1, h2, h3⟩ := hist_readFrom hbc (rfGo extra) (rfGo_spec extra) t h rd
    refine ⟨t', .readFrom _ _, ?_, h2, h3, ?_, rfl, rfl⟩
    · simp only [stepO, h1]; rfl
    · simp only [ghostStepR, step, GOpR.abs, Int.toNat_natCast]

/-! ## histories -/

/-- **Simulation**, from any Go state satisfying the invariant whose model state (with ghost `gh`) is the one reached
    from `NewParser` by `mops`. -/
theorem runO_sim {bc : BufCfg} {B : Nat} (hbc : BCOKO bc) (ce : CEFun) (hCE : CESpec B ce) (extra : Nat)
    (grow : Nat → Nat → Nat) (fuel : Nat) (hfuel : bc.bufferSize + B + 5 ≤ fuel)
    (raw : Cfg) (p0 : Parser) (h0 : newParser .OSAP raw = some p0) :
    ∀ (ops : List GOpR) (mops : List POp) (t : Gen.optSuffixArrayParser) (gh : Ghost), HistOKO bc B t →
      (ofOSAPs t, gh) = runOps (p0, Ghost.init) mops → (∀ op ∈ ops, op.WF) →
      ∃ t' rs, runO extra grow fuel ce t ops = Res.ok (t', rs) ∧ HistOKO bc B t' ∧
        ofOSAPs t' = (runOps (ofOSAPs t, gh) (ops.map GOpR.abs)).1 ∧
        ghostRunR gh ops rs = (runOps (ofOSAPs t, gh) (ops.map GOpR.abs)).2 ∧
        ResultsAgreeR (ofOSAPs t, gh) ops rs := by
  intro ops
  induction ops with
  | nil => intro mops t gh h _ _; exact ⟨t, [], rfl, h, rfl, rfl, trivial⟩
  | cons op ops ih =>
    intro mops t gh h hreach hwf
    obtain ⟨t1, r, h1, h2, h3, h4, h5⟩ :=
      stepO_sim hbc ce hCE extra grow fuel hfuel raw p0 h0 mops t gh h hreach op (hwf op (List.mem_cons_self ..))
    have hsg : step (ofOSAPs t, gh) op.abs = (ofOSAPs t1, ghostStepR gh op r) := by
      rw [h3, h4]
    have hreach1 : (ofOSAPs t1, ghostStepR gh op r) = runOps (p0, Ghost.init) (mops ++ [op.abs]) := by
      rw [runOps_snoc, ← hreach, hsg]
    obtain ⟨t', rs, k1, k2, k3, k4, k5⟩ := ih (mops ++ [op.abs]) t1 (ghostStepR gh op r) h2 hreach1
      (fun o ho => hwf o (List.mem_cons_of_mem _ ho))
    refine ⟨t', r :: rs, ?_, k2, ?_, ?_, h5, ?_⟩
    · show Res.bind (stepO extra grow fuel ce t op) _ = _
      rw [h1]
      show Res.bind (runO extra grow fuel ce t1 ops) _ = _
      rw [k1]; rfl
    · show _ = (runOps (step (ofOSAPs t, gh) op.abs) (ops.map GOpR.abs)).1
      rw [hsg]; exact k3
    · show ghostRunR (ghostStepR gh op r) ops rs = (runOps (step (ofOSAPs t, gh) op.abs) (ops.map GOpR.abs)).2
      rw [hsg]; exact k4
    · show ResultsAgreeR (step (ofOSAPs t, gh) op.abs) ops rs
      rw [hsg]; exact k5

/-- the states a history passes through are the final states of its prefixes -/
theorem runO_append (extra : Nat) (grow : Nat → Nat → Nat) (fuel : Nat) (ce : CEFun) :
    ∀ (a b : List GOpR) (s : Gen.optSuffixArrayParser),
    runO extra grow fuel ce s (a ++ b) =
      Res.bind (runO extra grow fuel ce s a) fun r =>
      Res.bind (runO extra grow fuel ce r.1 b) fun q => Res.ok (q.1, r.2 ++ q.2) := by
  intro a
  induction a with
  | nil =>
    intro b s
    simp only [List.nil_append, runO, bind_ok', List.nil_append]
    cases runO extra grow fuel ce s b with
    | ok v => rfl
    | panic => rfl
    | fuel => rfl
  | cons op a ih =>
    intro b s
    simp only [List.cons_append, runO]
    cases hs : stepO extra grow fuel ce s op with
    | ok v =>
      simp only [bind_ok', ih]
      cases runO extra grow fuel ce v.1 a with
      | ok w =>
        simp only [bind_ok']
        cases runO extra grow fuel ce w.1 b with
        | ok u => rfl
        | panic => rfl
        | fuel => rfl
      | panic => rfl
      | fuel => rfl
    | panic => rfl
    | fuel => rfl

/-- the history theorem with the full invariant (`HistOKO`, `BCOKO`) exported; `gen_osap_history` is its public face -/
theorem gen_osap_history_inv (B : Nat) (cfg : Gen.OSAPConfig) (s0 : Gen.optSuffixArrayParser)
    (hinit : optSuffixArrayParser_init default cfg = Res.ok (s0, Gen.Err.ok))
    (h32 : s0.OSAPConfig.MinMatchLen < 4294967296) (ce : CEFun) (hCE : CESpec B ce)
    (extra : Nat) (grow : Nat → Nat → Nat) (fuel : Nat)
    (hfuel : s0.ParserBuffer.BufConfig.BufferSize.toNat + B + 5 ≤ fuel)
    (ops : List GOpR) (hwf : ∀ op ∈ ops, op.WF) :
    ∃ p t rs, newParser .OSAP (ofOSAP cfg) = some p ∧ ofOSAPs s0 = p ∧
      runO extra grow fuel ce s0 ops = Res.ok (t, rs) ∧ BCOKO p.buf.cfg ∧ HistOKO p.buf.cfg B t ∧
      p.buf.cfg.bufferSize + B + 5 ≤ fuel ∧
      (ofOSAPs t, ghostRunR Ghost.init ops rs) = runOps (p, Ghost.init) (ops.map GOpR.abs) ∧
      ResultsAgreeR (p, Ghost.init) ops rs := by
  obtain ⟨p, hp, h2, hbc, hH⟩ := hist_init B cfg s0 hinit h32
  have hf : p.buf.cfg.bufferSize + B + 5 ≤ fuel := by
    have : p.buf.cfg = ofCfg s0.ParserBuffer.BufConfig := hH.cfg.symm
    rw [this]; exact hfuel
  obtain ⟨t, rs, k1, k2, k3, k4, k5⟩ := runO_sim hbc ce hCE extra grow fuel hf (ofOSAP cfg) p hp ops [] s0 Ghost.init
    hH (by rw [h2]; rfl) hwf
  rw [h2] at k3 k4 k5
  refine ⟨p, t, rs, hp, h2, k1, hbc, k2, hf, ?_, k5⟩
  rw [k3, k4]

/-- **`gen_osap_history`.**  `init(cfg)` on `new(optSuffixArrayParser)` returned `nil` and stored a `MinMatchLen` below
    `2^32`; the opaque callee `computeEdges` satisfies `CESpec B ce`.  Then for every history of well-formed calls
    (`Write`, `ReadFrom`, `Parse(&blk, flags)`, `Shrink`, `Reset`) the translated functions never panic and never run
    out of fuel; the state reached satisfies `ParseOKO B`; it abstracts to the state the model reaches from `NewParser`
    with the abstracted history; every returned value — `n`, the error, the block — is the model's. -/
theorem gen_osap_history (B : Nat) (cfg : Gen.OSAPConfig) (s0 : Gen.optSuffixArrayParser)
    (hinit : optSuffixArrayParser_init default cfg = Res.ok (s0, Gen.Err.ok))
    (h32 : s0.OSAPConfig.MinMatchLen < 4294967296) (ce : CEFun) (hCE : CESpec B ce)
    (extra : Nat) (grow : Nat → Nat → Nat) (fuel : Nat)
    (hfuel : s0.ParserBuffer.BufConfig.BufferSize.toNat + B + 5 ≤ fuel)
    (ops : List GOpR) (hwf : ∀ op ∈ ops, op.WF) :
    ∃ p t rs, newParser .OSAP (ofOSAP cfg) = some p ∧ ofOSAPs s0 = p ∧
      runO extra grow fuel ce s0 ops = Res.ok (t, rs) ∧ ParseOKO B t ∧
      ofOSAPs t = (runOps (p, Ghost.init) (ops.map GOpR.abs)).1 ∧
      ghostRunR Ghost.init ops rs = (runOps (p, Ghost.init) (ops.map GOpR.abs)).2 ∧
      ResultsAgreeR (p, Ghost.init) ops rs := by
  obtain ⟨p, t, rs, hp, h2, k1, -, k2, -, k3, k5⟩ :=
    gen_osap_history_inv B cfg s0 hinit h32 ce hCE extra grow fuel hfuel ops hwf
  exact ⟨p, t, rs, hp, h2, k1, k2.pok, by rw [← k3], by rw [← k3], k5⟩

/-- … and `ParseOKO B` holds in EVERY state the history passes through: after every prefix `ops.take k` the run is
    `Res.ok` with a state satisfying `ParseOKO B`, and the whole run continues from that state. -/
theorem gen_osap_history_states (B : Nat) (cfg : Gen.OSAPConfig) (s0 : Gen.optSuffixArrayParser)
    (hinit : optSuffixArrayParser_init default cfg = Res.ok (s0, Gen.Err.ok))
    (h32 : s0.OSAPConfig.MinMatchLen < 4294967296) (ce : CEFun) (hCE : CESpec B ce)
    (extra : Nat) (grow : Nat → Nat → Nat) (fuel : Nat)
    (hfuel : s0.ParserBuffer.BufConfig.BufferSize.toNat + B + 5 ≤ fuel)
    (ops : List GOpR) (hwf : ∀ op ∈ ops, op.WF) (k : Nat) :
    ∃ tk rk t rs', runO extra grow fuel ce s0 (ops.take k) = Res.ok (tk, rk) ∧ ParseOKO B tk ∧
      runO extra grow fuel ce tk (ops.drop k) = Res.ok (t, rs') ∧
      runO extra grow fuel ce s0 ops = Res.ok (t, rk ++ rs') := by
  obtain ⟨p, tk, rk, hp, h2, k1, hbc, k2, hf, k3, -⟩ :=
    gen_osap_history_inv B cfg s0 hinit h32 ce hCE extra grow fuel hfuel (ops.take k)
      (fun o ho => hwf o (List.mem_of_mem_take ho))
  obtain ⟨t, rs', j1, -⟩ := runO_sim hbc ce hCE extra grow fuel hf (ofOSAP cfg) p hp (ops.drop k)
    ((ops.take k).map GOpR.abs) tk (ghostRunR Ghost.init (ops.take k) rk) k2 k3
    (fun o ho => hwf o (List.mem_of_mem_drop ho))
  refine ⟨tk, rk, t, rs', k1, k2.pok, j1, ?_⟩
  have := runO_append extra grow fuel ce (ops.take k) (ops.drop k) s0
  rw [List.take_append_drop, k1, bind_ok'] at this
  simp only at this
  rw [this, j1]; rfl

/-! ## the property theorems about the translation -/

/-- **C01 about the Go text of OSAP.**  `cfg` is any configuration for which the translated `init`, called on the zero
    value, returns `nil` (with `MinMatchLen < 2^32`); `computeEdges` satisfies `CESpec B ce`.  Run any history of
    `Write(p)`, `ReadFrom(r)`, `Parse(&blk, flags)`, `Shrink()`, `Reset(data)` (slices with `len ≤ cap`, `flags ≥ 0`) on
    the TRANSLATED functions, with any capacity policy for `append` and any `fuel ≥ BufferSize + B + 5`.  Then no call
    panics or runs out of fuel, and the reference decoder, applied to the blocks the translated `Parse` returned since the
    last successful `Reset`, yields exactly the first `consumed` bytes of what the translated `Write` / `ReadFrom` /
    `Reset` accepted. -/
theorem C01_go_text_osap (B : Nat) (cfg : Gen.OSAPConfig) (s0 : Gen.optSuffixArrayParser)
    (hinit : optSuffixArrayParser_init default cfg = Res.ok (s0, Gen.Err.ok))
    (h32 : s0.OSAPConfig.MinMatchLen < 4294967296) (ce : CEFun) (hCE : CESpec B ce)
    (extra : Nat) (grow : Nat → Nat → Nat) (fuel : Nat)
    (hfuel : s0.ParserBuffer.BufConfig.BufferSize.toNat + B + 5 ≤ fuel)
    (ops : List GOpR) (hwf : ∀ op ∈ ops, op.WF) :
    ∃ t rs, runO extra grow fuel ce s0 ops = Res.ok (t, rs) ∧
      decode [] (ghostRunR Ghost.init ops rs).log =
        some ((ghostRunR Ghost.init ops rs).fed.take (ghostRunR Ghost.init ops rs).consumed) := by
  obtain ⟨p, t, rs, hp, -, h1, -, -, h4, -⟩ := gen_osap_history B cfg s0 hinit h32 ce hCE extra grow fuel hfuel ops hwf
  refine ⟨t, rs, h1, ?_⟩
  rw [h4]
  exact C01_roundtrip .OSAP (ofOSAP cfg) p hp (histHyp_osap p) (ops.map GOpR.abs)

/-- **C02 about the Go text of OSAP**: every sequence of every block the translated `Parse` returned has
    `1 ≤ Offset ≤ WindowSize`, `Offset ≤` the stream bytes before its match, `MatchLen ≥ MinMatchLen`, `Aux = 0`, and the
    `LitLen`s of a block do not exceed its literals. -/
theorem C02_go_text_osap (B : Nat) (cfg : Gen.OSAPConfig) (s0 : Gen.optSuffixArrayParser)
    (hinit : optSuffixArrayParser_init default cfg = Res.ok (s0, Gen.Err.ok))
    (h32 : s0.OSAPConfig.MinMatchLen < 4294967296) (ce : CEFun) (hCE : CESpec B ce)
    (extra : Nat) (grow : Nat → Nat → Nat) (fuel : Nat)
    (hfuel : s0.ParserBuffer.BufConfig.BufferSize.toNat + B + 5 ≤ fuel)
    (ops : List GOpR) (hwf : ∀ op ∈ ops, op.WF) :
    ∃ t rs, runO extra grow fuel ce s0 ops = Res.ok (t, rs) ∧
      LogAll (fun pos e => ∀ n fl blk, e = .block n fl blk →
        SeqsAll (SeqWF s0.ParserBuffer.BufConfig.WindowSize.toNat s0.OSAPConfig.MinMatchLen.toNat) pos blk.seqs ∧
        litSum blk.seqs ≤ blk.lits.length) 0 (ghostRunR Ghost.init ops rs).log := by
  obtain ⟨p, t, rs, hp, h0, h1, -, -, h4, -⟩ := gen_osap_history B cfg s0 hinit h32 ce hCE extra grow fuel hfuel ops hwf
  subst h0
  refine ⟨t, rs, h1, ?_⟩
  rw [h4]
  exact C02_wellformed .OSAP (ofOSAP cfg) _ hp (histHyp_osap _) (ops.map GOpR.abs)

/-- **C03 about the Go text of OSAP**: the blocks tile the consumed stream. -/
theorem C03_go_text_osap (B : Nat) (cfg : Gen.OSAPConfig) (s0 : Gen.optSuffixArrayParser)
    (hinit : optSuffixArrayParser_init default cfg = Res.ok (s0, Gen.Err.ok))
    (h32 : s0.OSAPConfig.MinMatchLen < 4294967296) (ce : CEFun) (hCE : CESpec B ce)
    (extra : Nat) (grow : Nat → Nat → Nat) (fuel : Nat)
    (hfuel : s0.ParserBuffer.BufConfig.BufferSize.toNat + B + 5 ≤ fuel)
    (ops : List GOpR) (hwf : ∀ op ∈ ops, op.WF) :
    ∃ t rs, runO extra grow fuel ce s0 ops = Res.ok (t, rs) ∧
      let g := ghostRunR Ghost.init ops rs
      LogAll (fun pos e => 1 ≤ e.n ∧ e.n ≤ s0.ParserBuffer.BufConfig.BlockSize.toNat ∧
        pos + e.n ≤ g.fed.length ∧
        ∀ n fl blk, e = .block n fl blk →
          blk.len = n ∧ expand (g.fed.take pos) blk = some (g.fed.take (pos + n)) ∧
          (fl % 2 = 1 → blk.seqs ≠ [] → blk.lits.length = litSum blk.seqs ∧ n = seqsSpan blk.seqs)) 0 g.log ∧
      logSpan g.log = g.consumed ∧ g.consumed ≤ g.fed.length := by
  obtain ⟨p, t, rs, hp, h0, h1, -, -, h4, -⟩ := gen_osap_history B cfg s0 hinit h32 ce hCE extra grow fuel hfuel ops hwf
  subst h0
  refine ⟨t, rs, h1, ?_⟩
  intro gg
  have hg : gg = (runOps (ofOSAPs s0, Ghost.init) (ops.map GOpR.abs)).2 := h4
  have := C03_contiguous .OSAP (ofOSAP cfg) _ hp (histHyp_osap _) (ops.map GOpR.abs)
  obtain ⟨a1, a2, a3, a4⟩ := this
  rw [hg]
  exact ⟨a1, a2, a4⟩

/-! ## C11 -/

/-- the number of bytes the next block covers, from the Go state: `min(len(s.Data) - s.W, BlockSize)` -/
def blockLen (t : Gen.optSuffixArrayParser) : Nat :=
  Min.min (t.ParserBuffer.Data.data.length - t.ParserBuffer.W.toNat) t.ParserBuffer.BufConfig.BlockSize.toNat

/-- the all-literals path is an LZ77 parse -/
theorem lzPathOK_lits (p : List Byte) (w ws mm mx n : Nat) :
    ∀ (k a : Nat), a + k = n → Sap.LzPathOK p w ws mm mx n a n (List.replicate k ((1, 0) : Edge))
  | 0, a, h => by
    show a = n
    omega
  | k + 1, a, h => by
    show Sap.LzStep p w ws mm mx n a 1 0 ∧ Sap.LzPathOK p w ws mm mx n (a + 1) n (List.replicate k ((1, 0) : Edge))
    exact ⟨Or.inl ⟨rfl, rfl, by omega⟩, lzPathOK_lits p w ws mm mx n k (a + 1) (by omega)⟩

theorem pathCost_lits : ∀ k : Nat, Sap.pathCost (List.replicate k ((1, 0) : Edge)) = 9 * k
  | 0 => rfl
  | k + 1 => by
    rw [List.replicate_succ, Sap.pathCost_cons, pathCost_lits k]
    show xzCost 1 0 + 9 * k = 9 * (k + 1)
    have : xzCost 1 0 = 9 := by decide
    omega

/-- the rendering of a path as a block: `pathToSeqs` from the window head, the literals behind the last match appended -/
def renderPath (p : List Byte) (W : Nat) (π : List Edge) : Block :=
  let r := pathToSeqs p π W W [] []
  ⟨r.1, r.2.1 ++ p.drop r.2.2.2⟩

theorem pathToSeqs_lits (p : List Byte) : ∀ (k i li : Nat) (seqs : List Seq) (lits : List Byte),
    pathToSeqs p (List.replicate k ((1, 0) : Edge)) i li seqs lits = (seqs, lits, i + k, li)
  | 0, i, li, seqs, lits => rfl
  | k + 1, i, li, seqs, lits => by
    rw [List.replicate_succ]
    show (if (0 : Nat) = 0 then pathToSeqs p (List.replicate k ((1, 0) : Edge)) (i + 1) li seqs lits else _) = _
    rw [if_pos rfl, pathToSeqs_lits p k (i + 1) li seqs lits]
    congr 3
    omega

/-- **C11 about the Go text of OSAP.**  After ANY history of the translated operations (there is no `Parse(nil)` among
    them), the next `Parse(&blk, flags)` of the translated `Parse` with EVEN flags (no `NoTrailingLiterals`) on a
    non-empty buffer (`blockLen t ≠ 0`) returns `n = min(len(Data) − W, BlockSize)`, `nil`, and a block for which there
    is a path `π` (list of `(length, offset)` steps, offset 0 = a literal) such that
    * `π` is an LZ77 parse of the block bytes `p[W : W+n]`, `p = Data[:W+n]`: every step is a literal or a genuine match of
      the buffered bytes with `MinMatchLen ≤ m ≤ MaxMatchLen`, `1 ≤ o ≤ WindowSize`, source inside the buffer, staying
      inside the block (`Sap.LzParse`),
    * the block IS the rendering of `π` (`renderPath`: the literal steps in front of a match become its `LitLen` and its
      literal bytes, a match step `(m, o)` becomes `MatchLen = m`, `Offset = o`, the literals behind the last match are
      appended),
    * the block costs what `π` costs: `Σ XZCost(MatchLen, Offset)` + 9 bits per literal byte,
    * and NO LZ77 parse of these bytes is cheaper.
    The statement mentions the translated functions, `ofBlock` and the specification predicates `Sap.LzParse`,
    `Sap.blockCost`, `Sap.pathCost` only. -/
theorem C11_go_text_osap (B : Nat) (cfg : Gen.OSAPConfig) (s0 : Gen.optSuffixArrayParser)
    (hinit : optSuffixArrayParser_init default cfg = Res.ok (s0, Gen.Err.ok))
    (h32 : s0.OSAPConfig.MinMatchLen < 4294967296) (ce : CEFun) (hCE : CESpec B ce)
    (extra : Nat) (grow : Nat → Nat → Nat) (fuel : Nat)
    (hfuel : s0.ParserBuffer.BufConfig.BufferSize.toNat + B + 5 ≤ fuel)
    (ops : List GOpR) (hwf : ∀ op ∈ ops, op.WF) (blk : Gen.Block') (flags : Int) (hfl : 0 ≤ flags)
    (hev : flags % 2 = 0) :
    ∃ t rs t' blk' n e, runO extra grow fuel ce s0 ops = Res.ok (t, rs) ∧
      optSuffixArrayParser_Parse grow fuel ce t blk flags = Res.ok (t', blk', n, e) ∧
      (blockLen t ≠ 0 →
        let W := t.ParserBuffer.W.toNat
        let p := t.ParserBuffer.Data.data.take (W + blockLen t)
        let ws := t.ParserBuffer.BufConfig.WindowSize.toNat
        let mm := t.OSAPConfig.MinMatchLen.toNat
        let mx := t.OSAPConfig.MaxMatchLen.toNat
        n = (blockLen t : Int) ∧ e = Gen.Err.ok ∧
        ∃ π, Sap.LzParse p W ws mm mx (blockLen t) π ∧ ofBlock blk' = renderPath p W π ∧
          Sap.blockCost (ofBlock blk') = Sap.pathCost π ∧
          ∀ π', Sap.LzParse p W ws mm mx (blockLen t) π' → Sap.pathCost π ≤ Sap.pathCost π') := by
  obtain ⟨p, t, rs, hp, h2, k1, hbc, k2, hf, k3, -⟩ :=
    gen_osap_history_inv B cfg s0 hinit h32 ce hCE extra grow fuel hfuel ops hwf
  have hr1 : ofOSAPs t = (runOps (p, Ghost.init) (ops.map GOpR.abs)).1 := by rw [← k3]
  obtain ⟨t', blk', j1, -, -, j4, -, -⟩ :=
    hist_parse hbc grow fuel ce hCE t k2 (ofOSAP cfg) p hp (ops.map GOpR.abs) hr1 blk flags hfl
      (by have := k2.len; omega)
  refine ⟨t, rs, t', blk', _, _, k1, j1, ?_⟩
  intro hn
  have hs : ofOSAPs t = Sap.runOps p ((ops.map GOpR.abs).map RunsOsap.toSap) := by
    rw [hr1]; exact RunsOsap.runOps_fst_sap p _
  have hf2 : flags.toNat % 2 = 0 := by omega
  have hnM : (ofOSAPs t).blockN ≠ 0 := hn
  have hC := Sap.C11_optimal_of_segFacts_all Sap.segmentsFacts_holds (ofOSAP cfg) p hp
    ((ops.map GOpR.abs).map RunsOsap.toSap) flags.toNat hf2 (by rw [← hs]; exact hnM)
  rw [← hs] at hC
  obtain ⟨o, hd, hlz, hmin⟩ := hC
  have ho : o = ofOD t := by
    have hd' : Dict.osap (ofOD t) = Dict.osap o := hd
    injection hd' with hd'
    exact hd'.symm
  subst ho
  obtain ⟨hnn, hee⟩ := Sap.parse_osap_n (ofOSAPs t) (ofOD t) rfl flags.toNat hnM hf2
  have hcost := Sap.osap_block_cost (ofOSAPs t) (ofOD t) rfl flags.toNat hnM hf2
  have hblk := Sap.parse_osap_block (ofOSAPs t) (ofOD t) rfl flags.toNat hnM hf2
  rw [j4]
  refine ⟨by rw [hnn]; rfl, by rw [hee]; rfl, ?_⟩
  by_cases h0 : (Sap.osapEdges (ofOSAPs t) (ofOD t)).nEdges = 0
  · rw [if_pos h0] at hcost hblk
    refine ⟨List.replicate (blockLen t) ((1, 0) : Edge), lzPathOK_lits _ _ _ _ _ _ _ 0 (by omega), ?_, ?_, ?_⟩
    · rw [hblk]
      unfold renderPath
      rw [pathToSeqs_lits]
      simp only [List.nil_append]
      congr 1
      show (List.drop (ofOSAPs t).buf.w (ofOSAPs t).buf.data).take (ofOSAPs t).blockN =
        (List.take ((ofOSAPs t).buf.w + (ofOSAPs t).blockN) (ofOSAPs t).buf.data).drop (ofOSAPs t).buf.w
      rw [List.drop_take]
      congr 1
      omega
    · rw [hcost, pathCost_lits]; rfl
    · intro π' hπ'
      have := hmin π' hπ'
      rw [hcost] at this
      rw [pathCost_lits]; exact this
  · rw [if_neg h0] at hcost hblk
    refine ⟨Sap.osapPath (ofOSAPs t) (ofOD t), hlz, hblk, hcost, ?_⟩
    intro π' hπ'
    have := hmin π' hπ'
    rw [hcost] at this
    exact this

end LZ.GenOSAPHist

#print axioms LZ.GenOSAPHist.stepO_sim
#print axioms LZ.GenOSAPHist.runO_sim
#print axioms LZ.GenOSAPHist.runO_append
#print axioms LZ.GenOSAPHist.gen_osap_history
#print axioms LZ.GenOSAPHist.gen_osap_history_states
#print axioms LZ.GenOSAPHist.C01_go_text_osap
#print axioms LZ.GenOSAPHist.C02_go_text_osap
#print axioms LZ.GenOSAPHist.C03_go_text_osap
#print axioms LZ.GenOSAPHist.C11_go_text_osap
