/-
  LzProofs.GenOSAPAll — the translated osap.go, all parts together (notes/osap-translate.md):
    GenOSAPPath   `gen_osap_shortestPath`      translated `shortestPath` = `Idx.shortestPathChk` (the DP, its tie-breaking, the back-tracking)
    GenOSAPParse  `gen_osap_parse`, `gen_osap_parse_model`, `gen_osap_parse_empty`
                                               translated `Parse` = `Idx.parseOsapChk` / `Parser.parse` on reachable states, under `CESpec`
    GenOSAPInit   `gen_osap_resetEdges / reset / shrink / init`
  and the glue between them: the two spellings of the abstraction agree, and `init` establishes the
  invariant `ParseOKO` that `gen_osap_parse` needs and preserves.
-/
import LzProofs.GenOSAPPath
import LzProofs.GenOSAPParse
import LzProofs.GenOSAPInit

namespace LZ.GenOSAP
open LZ LZ.Gen LZ.GenHash LZ.GenBuf

theorem odOf_eq (s : Gen.optSuffixArrayParser) : odOf s = ofOD s := rfl
theorem osapOf_eq (s : Gen.optSuffixArrayParser) : osapOf s = ofOSAPs s := rfl

/-- **`init` establishes `ParseOKO`** for every accepted configuration whose `MinMatchLen` is below `2^32`
    (`Verify` checks `2 ≤ MinMatchLen ≤ MaxMatchLen` only; beyond `MaxInt32` `computeEdges` finds no edge and
    `shortestPath` — the only reader of `uint32(s.MinMatchLen)` — is never called: notes/osap-translate.md §6);
    every bound `B` on the number of edges per position holds for the empty table. -/
theorem gen_osap_init_parseOK (B : Nat) (s : Gen.optSuffixArrayParser) (cfg : Gen.OSAPConfig)
    (hok : OSAPConfig_Verify (OSAPConfig_SetDefaults cfg) = Gen.Err.ok)
    (h32 : (OSAPConfig_SetDefaults cfg).MinMatchLen < 4294967296) :
    ∃ s', optSuffixArrayParser_init s cfg = Res.ok (s', Gen.Err.ok) ∧ ParseOKO B s' := by
  obtain ⟨s', e, hc, hpb, hwe, hde, hwt, hcost, hst, hne, hW, hlen, hbs, hbs1, hws, hws0, hmm2, hmmx, hbuf, -⟩ :=
    gen_osap_init_inv s cfg hok
  refine ⟨s', e, ?_⟩
  exact
    { pb := hpb, wedges := hwe, wq := by intro q hq; rw [hde] at hq; cases hq
      wtmp := hwt, cost := hcost, st0 := by omega, ne0 := by omega, stw := by omega, cbs := hbs, bs0 := by omega,
      mm0 := by omega, mm32 := by rw [hc]; exact h32, w := by omega, small := by omega, cws := hws, ws0 := hws0, mmx := hmmx }

#print axioms gen_osap_init_parseOK

end LZ.GenOSAP
