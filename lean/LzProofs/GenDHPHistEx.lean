/-
  LzProofs.GenDHPHistEx — non-vacuity of LzProofs/GenDHPHistRun.lean: a concrete history executed on the TRANSLATED
  functions of the double hash parser (`GenDHPHist.runG`), checked by kernel evaluation (`decide +kernel`), and the instances of `C01_go_text_dhp` / `gen_dhp_history` for it.

  Configuration: ShrinkSize 16, BufferSize 64, WindowSize 32, BlockSize 32, InputLen1 3, HashBits1 4, InputLen2 6,
  HashBits2 5.
  History: Write("hijklmno-+hijXY*/hijklmno!"); Parse(&blk, 0); Shrink(); Write("xyzxyzabcabcQ");
           Parse(&blk, NoTrailingLiterals); Parse(&blk, 0); Parse(&blk, 0) [empty]; Reset("hello hello hello"); Parse(&blk, 0).
  The first block shows the LONG hash at work: at position 17 ("hijklmno" again) the table of the short hash points
  to the most recent "hij" (position 10, common prefix 3), the table of the long hash to position 0 — the translated
  `Parse` of DHP returns ONE match of length 8 at offset 17; the translated `Parse` of HP with InputLen 3 on the same
  calls returns the match of length 3 at offset 7, a literal and a match of length 4 (`exRunHP`).
-/
import LzProofs.GenDHPHistRun
import LzProofs.GenHPHistEx

namespace LZ.GenDHPHist
open LZ LZ.Gen LZ.GenBuf LZ.GenHash LZ.GenHPParse LZ.GenDHPParse LZ.GenProps
open LZ.GenHPHist (GOp GRes GOp.WF ghostRun sliceOf exGrow exB exC)

def exCfg : Gen.DHPConfig :=
  { ShrinkSize := 16, BufferSize := 64, WindowSize := 32, BlockSize := 32, InputLen1 := 3, HashBits1 := 4,
    InputLen2 := 6, HashBits2 := 5 }

/-- "hijklmno-+hijXY*/hijklmno!" -/
def exD : List UInt8 :=
  [104, 105, 106, 107, 108, 109, 110, 111, 45, 43, 104, 105, 106, 88, 89, 42, 47, 104, 105, 106, 107, 108, 109, 110, 111, 33]

def exOps : List GOp :=
  [ .write (sliceOf exD), .parse default 0, .shrink, .write (sliceOf exB), .parse default 1, .parse default 0,
    .parse default 0, .reset (sliceOf exC), .parse default 0 ]

/-- the state `doubleHashParser.init(exCfg)` leaves in `new(doubleHashParser)` -/
def exS0 : Gen.doubleHashParser :=
  match doubleHashParser_init default exCfg with
  | .ok (s, _) => s
  | _ => default

theorem exInit : doubleHashParser_init default exCfg = Res.ok (exS0, Gen.Err.ok) := by decide +kernel

theorem exWF : ∀ op ∈ exOps, op.WF := by
  intro op hop
  simp only [exOps, List.mem_cons, List.not_mem_nil, or_false] at hop
  rcases hop with rfl | rfl | rfl | rfl | rfl | rfl | rfl | rfl | rfl <;>
    first | trivial | exact Nat.le_refl _ | (show (0 : Int) ≤ _; decide)

/-- the values the translated functions return, in order -/
def exResults : List GRes :=
  [ .write 26 Gen.Err.ok,
    -- "hijklmno-+" + match(3, offset 10) + "XY*/" + match(8, offset 17: found through the table of the LONG hash) + "!"
    .parse { Sequences := [{ LitLen := 10, MatchLen := 3, Offset := 10, Aux := 0 },
                           { LitLen := 4, MatchLen := 8, Offset := 17, Aux := 0 }],
             Literals := { arr := [104, 105, 106, 107, 108, 109, 110, 111, 45, 43, 88, 89, 42, 47, 33], len := 15 } }
           26 Gen.Err.ok,
    .shrink 10,
    .write 13 Gen.Err.ok,
    -- NoTrailingLiterals: the block ends with its last match, 12 of the 13 unparsed bytes
    .parse { Sequences := [{ LitLen := 3, MatchLen := 3, Offset := 3, Aux := 0 },
                           { LitLen := 3, MatchLen := 3, Offset := 3, Aux := 0 }],
             Literals := { arr := [120, 121, 122, 97, 98, 99], len := 6 } } 12 Gen.Err.ok,
    -- the trailing "Q"
    .parse { Sequences := [], Literals := { arr := [81], len := 1 } } 1 Gen.Err.ok,
    .parse { Sequences := [], Literals := { arr := [], len := 0 } } 0 Gen.ErrEmptyBuffer,
    .reset Gen.Err.ok,
    .parse { Sequences := [{ LitLen := 6, MatchLen := 11, Offset := 6, Aux := 0 }],
             Literals := { arr := [104, 101, 108, 108, 111, 32], len := 6 } } 17 Gen.Err.ok ]

/-- the run on the translated functions, evaluated by the kernel -/
theorem exRun : (match runG exGrow 140 exS0 exOps with | .ok r => some r.2 | _ => none) = some exResults := by
  decide +kernel

/-- the bookkeeping computed from the calls and the results: after the `Reset` 17 bytes were fed, 17 consumed, one
    block -/
theorem exGhost :
    (ghostRun Ghost.init exOps exResults).fed = exC ∧ (ghostRun Ghost.init exOps exResults).consumed = 17 ∧
    (ghostRun Ghost.init exOps exResults).log.length = 1 := by decide +kernel

/-- the bookkeeping before the `Reset`: 39 bytes fed, all consumed, three blocks, and they decode to those bytes -/
theorem exGhost7 :
    (ghostRun Ghost.init (exOps.take 7) (exResults.take 7)).fed = exD ++ exB ∧
    (ghostRun Ghost.init (exOps.take 7) (exResults.take 7)).consumed = 39 ∧
    decode [] (ghostRun Ghost.init (exOps.take 7) (exResults.take 7)).log = some (exD ++ exB) := by decide +kernel

/-- the same first two calls on the translated HP functions (InputLen 3, HashBits 4): the second match is split
    (length 3 at offset 7, the literal "k", length 4 at offset 17) -/
theorem exRunHP :
    (match hashParser_init default
        { ShrinkSize := 16, BufferSize := 64, WindowSize := 32, BlockSize := 32, InputLen := 3, HashBits := 4 } with
     | .ok (s, _) =>
       (match LZ.GenHPHist.runG exGrow 140 s (exOps.take 2) with | .ok r => some r.2 | _ => none)
     | _ => none) =
    some [ .write 26 Gen.Err.ok,
      .parse { Sequences := [{ LitLen := 10, MatchLen := 3, Offset := 10, Aux := 0 },
                             { LitLen := 4, MatchLen := 3, Offset := 7, Aux := 0 },
                             { LitLen := 1, MatchLen := 4, Offset := 17, Aux := 0 }],
               Literals := { arr := [104, 105, 106, 107, 108, 109, 110, 111, 45, 43, 88, 89, 42, 47, 107, 33], len := 16 } }
             26 Gen.Err.ok ] := by decide +kernel

/-- `C01_go_text_dhp` etc. for this history -/
example := C01_go_text_dhp exCfg exS0 exInit exGrow 140 (by decide +kernel) exOps exWF
example := C02_go_text_dhp exCfg exS0 exInit exGrow 140 (by decide +kernel) exOps exWF
example := C03_go_text_dhp exCfg exS0 exInit exGrow 140 (by decide +kernel) exOps exWF
example := gen_dhp_history exCfg exS0 exInit exGrow 140 (by decide +kernel) exOps exWF

end LZ.GenDHPHist

#print axioms LZ.GenDHPHist.exInit
#print axioms LZ.GenDHPHist.exRun
#print axioms LZ.GenDHPHist.exGhost
#print axioms LZ.GenDHPHist.exGhost7
#print axioms LZ.GenDHPHist.exRunHP
