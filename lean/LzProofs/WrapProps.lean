/-
  LzProofs.WrapProps — the buffer-determined part of C08 for `Wrapped.parse`
  (model of `WrappedParser.Parse`, wrap.go).

  The only assumption about the parsers is `ParseSpec I`: with unparsed data in the buffer
  `Parser.parse` moves `W` forward, not beyond the data, and keeps a parser invariant `I` of
  the prover's choice (proved elsewhere). Everything else about `Parser.parse` that is used here
  is proved below by unfolding (frame, `ErrEmptyBuffer` iff nothing to parse, no panic thanks to
  the 7-byte margin, `n = W' - W`).

  `extra/WrapInst.lean` (needs LzProofs/ParseHist.lean of the parser proofs, therefore not under
  LzProofs/ here) proves `parseSpec_greedy : ParseSpec Parser.GreedyWF`, which discharges the
  assumption for HP, BHP, DHP, BDHP, BUP and GSAP; it was checked in a merged copy of both trees.
-/
import LzProofs.PBufProps
import LzModel.Parser
namespace LZ
open PBuf

/-! ## the buffer invariant without ghost state -/

/-- `PInv` without the stream: parse position inside the data, at most `BufferSize` bytes,
    7-byte margin behind non-empty data -/
def BufOK (b : PBuf) : Prop :=
  b.w ≤ b.data.length ∧ b.data.length ≤ b.cfg.bufferSize ∧
  (b.data = [] ∨ b.data.length + Facts.margin ≤ b.cap)

theorem bufOK_of_pinv {b : PBuf} {fed : List Byte} (h : PInv b fed) : BufOK b :=
  ⟨h.w_le, h.len_le, h.margin⟩

theorem pinv_of_bufOK {b : PBuf} (h : BufOK b) : PInv b (List.replicate b.off 0 ++ b.data) := by
  obtain ⟨h1, h2, h3⟩ := h
  constructor
  · rw [List.drop_append_of_le_length (by simp)]
    simp
  · simp
  · exact h1
  · exact h2
  · exact h3

theorem bufOK_iff (b : PBuf) : BufOK b ↔ ∃ fed, PInv b fed :=
  ⟨fun h => ⟨_, pinv_of_bufOK h⟩, fun ⟨_, h⟩ => bufOK_of_pinv h⟩

/-! ## facts about `Parser.parse`, `Parser.shrink`, `Parser.readFrom` proved by unfolding -/

namespace Parser

theorem parse_of_blockN_zero (s : Parser) (flags : Nat) (h : s.blockN = 0) :
    s.parse flags = (s, 0, .empty, ⟨[], []⟩) := by
  unfold Parser.parse
  simp [h]

theorem blockN_zero_of_w (s : Parser) (h : s.buf.data.length ≤ s.buf.w) : s.blockN = 0 := by
  unfold Parser.blockN; omega

/-- `Parse` changes nothing in the buffer but `W` -/
theorem parse_frame (s : Parser) (flags : Nat) :
    (s.parse flags).1.buf = { s.buf with w := (s.parse flags).1.buf.w } := by
  have : ∃ w', (s.parse flags).1.buf = { s.buf with w := w' } := by
    unfold Parser.parse
    simp only []
    repeat' split
    all_goals first | exact ⟨_, rfl⟩ | exact ⟨s.buf.w, rfl⟩
  obtain ⟨w', h⟩ := this
  rw [h]

/-- the count returned is the distance `W` moved (unless `Parse` panicked or had nothing to do) -/
theorem parse_n (s : Parser) (flags : Nat) (hok : (s.parse flags).2.2.1 = .ok) :
    (s.parse flags).2.1 = (s.parse flags).1.buf.w - s.buf.w := by
  revert hok
  unfold Parser.parse
  simp only []
  repeat' split
  all_goals first | (intro h; cases h; done) | (intro _; simp; done) | (intro _; rfl)

/-- with something to parse and the 7-byte margin in place, `Parse` returns `nil` (no panic) -/
theorem parse_ok (s : Parser) (flags : Nat) (hb : BufOK s.buf) (hn : s.blockN ≠ 0) :
    (s.parse flags).2.2.1 = .ok := by
  obtain ⟨h1, h2, h3⟩ := hb
  have hlen : s.buf.w < s.buf.data.length := by
    unfold Parser.blockN at hn; omega
  have hm : s.buf.data.length + Facts.margin ≤ s.buf.cap := by
    rcases h3 with h | h
    · rw [h] at hlen; simp at hlen
    · exact h
  unfold Parser.parse
  simp only [hn, if_false]
  repeat' split
  all_goals first | rfl | (rename_i hp; exfalso; simp only [List.length_take] at hp; omega)

theorem shrink_buf (s : Parser) : s.shrink.1.buf = s.buf.shrink.1 := by
  unfold Parser.shrink
  simp only []
  split
  · rename_i h
    -- delta = 0: the buffer did not change either
    rw [PBuf.shrink_spec] at h ⊢
    simp only [] at h
    have h2 : min s.buf.cfg.shrinkSize s.buf.w = s.buf.w := by omega
    simp [h, h2]
  · rfl

theorem readFrom_buf (s : Parser) (r : Reader) :
    (s.readFrom r).1.buf = (s.buf.readFrom r).1 ∧ (s.readFrom r).2 = (s.buf.readFrom r).2 := by
  unfold Parser.readFrom
  exact ⟨rfl, rfl⟩

end Parser

/-! ## the assumption about the parsers -/

/-- What the Wrap theorems assume about `Parser.parse` (to be discharged by the parser proofs), for
    a parser invariant `I` (e.g. well-formedness of the dictionary relative to the buffer):
    with unparsed data in the buffer, `Parse` moves `W` forward by at least one byte and not beyond
    the data; `I` is kept by `Parse`, `Shrink` and `ReadFrom`.
    Together with the lemmas above this means: `Parse` returns `ErrEmptyBuffer` iff `W = len(Data)`,
    otherwise `nil` with `1 ≤ n`, `W' = W + n ≤ len(Data)`, and it never changes `Data`. -/
structure ParseSpec (I : Parser → Prop) : Prop where
  progress : ∀ s flags, I s → BufOK s.buf → s.buf.w < s.buf.data.length →
    s.buf.w < (s.parse flags).1.buf.w ∧ (s.parse flags).1.buf.w ≤ s.buf.data.length
  inv_parse : ∀ s flags, I s → BufOK s.buf → I (s.parse flags).1
  inv_shrink : ∀ s, I s → BufOK s.buf → I s.shrink.1
  inv_readFrom : ∀ s r, I s → BufOK s.buf → I (s.readFrom r).1

/-- If progress of `Parse` is known for all dictionaries, no parser invariant is needed beyond
    `1 ≤ BlockSize`. -/
theorem ParseSpec.of_progress
    (h : ∀ (s : Parser) flags, 1 ≤ s.buf.cfg.blockSize → BufOK s.buf →
      s.buf.w < s.buf.data.length →
      s.buf.w < (s.parse flags).1.buf.w ∧ (s.parse flags).1.buf.w ≤ s.buf.data.length) :
    ParseSpec (fun s => 1 ≤ s.buf.cfg.blockSize) where
  progress := h
  inv_parse := by
    intro s flags hI _
    rw [Parser.parse_frame]; exact hI
  inv_shrink := by
    intro s hI _
    rw [Parser.shrink_buf, PBuf.shrink_spec]; exact hI
  inv_readFrom := by
    intro s r hI hb
    rw [(Parser.readFrom_buf s r).1]
    obtain ⟨fed, hp⟩ := (bufOK_iff _).1 hb
    obtain ⟨-, -, -, -, -, h6, -⟩ := C15_readFrom hp r (b' := (s.buf.readFrom r).1)
      (r' := (s.buf.readFrom r).2.1) (n := (s.buf.readFrom r).2.2.1)
      (e := (s.buf.readFrom r).2.2.2) rfl
    rw [h6]; exact hI

/-- the two cases of `Parse` under `ParseSpec` -/
theorem Parser.parse_cases {I : Parser → Prop} (hP : ParseSpec I) (s : Parser) (flags : Nat)
    (hI : I s) (hb : BufOK s.buf) :
    (s.buf.w = s.buf.data.length ∧ s.parse flags = (s, 0, .empty, ⟨[], []⟩)) ∨
    (s.buf.w < s.buf.data.length ∧ (s.parse flags).2.2.1 = .ok ∧ 1 ≤ (s.parse flags).2.1 ∧
      (s.parse flags).1.buf = { s.buf with w := s.buf.w + (s.parse flags).2.1 } ∧
      s.buf.w + (s.parse flags).2.1 ≤ s.buf.data.length ∧ I (s.parse flags).1) := by
  by_cases hw : s.buf.w < s.buf.data.length
  · right
    obtain ⟨p1, p2⟩ := hP.progress s flags hI hb hw
    have hn : s.blockN ≠ 0 := by
      intro h0
      rw [Parser.parse_of_blockN_zero s flags h0] at p1
      simp at p1
    have hok := Parser.parse_ok s flags hb hn
    have hnn := Parser.parse_n s flags hok
    refine ⟨hw, hok, by omega, ?_, by omega, hP.inv_parse s flags hI hb⟩
    have hw' : (s.parse flags).1.buf.w = s.buf.w + (s.parse flags).2.1 := by omega
    rw [Parser.parse_frame s flags, ← hw']
  · left
    have : s.buf.w = s.buf.data.length := by have := hb.1; omega
    exact ⟨this, Parser.parse_of_blockN_zero s flags (Parser.blockN_zero_of_w s (by omega))⟩

/-! ## the refill step at buffer level: `Shrink` then `ReadFrom` on a completely parsed buffer -/

/-- `e` is what the reader said last: `io.EOF` because the script of the model reader is exhausted,
    or the report `ec ≠ 0` of the last consumed response (a response with a nil error, also
    `(0, nil)`, never ends `ReadFrom`). -/
def ReaderSaid (r r' : Reader) (e : Err) : Prop :=
  (e = .eof ∧ r'.resps = []) ∨
  (∃ j mx ec, r.resps.drop j = (mx, ec) :: r'.resps ∧ ec ≠ 0 ∧ e = errOfCode ec)

theorem ReaderSaid.ne {r r' : Reader} {e : Err} (h : ReaderSaid r r' e) :
    e ≠ .ok ∧ e ≠ .panic ∧ e ≠ .full ∧ e ≠ .empty := by
  rcases h with ⟨h, _⟩ | ⟨j, mx, ec, _, hec, h⟩
  · rw [h]; simp
  · rw [h]; exact errOfCode_ne _ hec

/-- **The `PBuf`-level lemma `Wrap` rests on.** On a completely parsed buffer (`W = len(Data)`) with
    `ShrinkSize < BufferSize`, `Shrink` followed by `ReadFrom` never returns `(0, ErrFullBuffer)`
    (so `panic("unexpected ErrFullBuffer")` in wrap.go is unreachable); it appends the `k` bytes
    taken from the reader, keeps the absolute parse position, and if `k = 0` the buffer is still
    completely parsed and the error is the reader's own; if `k ≠ 0` at least one response of the
    script was consumed. -/
theorem PBuf.refill_spec {b : PBuf} {fed : List Byte} (h : PInv b fed)
    (hw : b.w = b.data.length) (hc : b.cfg.shrinkSize < b.cfg.bufferSize) (r : Reader)
    {b3 : PBuf} {r' : Reader} {k : Nat} {e : Err} (hr : b.shrink.1.readFrom r = (b3, r', k, e)) :
    PInv b3 (fed ++ r.payload.take k) ∧ r.payload = r.payload.take k ++ r'.payload ∧
    b3.off + b3.w = b.off + b.w ∧ b3.cfg = b.cfg ∧
    b3.data.length = b3.w + k ∧
    ¬ (k = 0 ∧ e = .full) ∧ e ≠ .ok ∧ e ≠ .panic ∧
    (k ≠ 0 → r'.resps.length < r.resps.length) ∧
    (∃ j, r'.resps = r.resps.drop j) ∧
    (k = 0 → ReaderSaid r r' e) := by
  obtain ⟨hs, hp2, hpos⟩ := C15_shrink h
  have hw2 : b.shrink.1.w = b.shrink.1.data.length := by
    rw [hs]; simp only [List.length_drop]; omega
  have hlen2 : b.shrink.1.data.length < b.cfg.bufferSize := by
    rw [hs]; simp only [List.length_drop]; omega
  have hcfg2 : b.shrink.1.cfg = b.cfg := by rw [hs]
  obtain ⟨h1, h2, h3, h4, h5, h6, h7, h8, h9, pre, hpre, hprelen, hcase⟩ := C15_readFrom hp2 r hr
  have hlen3 : b3.data.length = b.shrink.1.data.length + k := by
    rw [h1]; simp only [List.length_append, List.length_take]; omega
  have hnotfull : ¬ (k = 0 ∧ e = .full) := by
    rintro ⟨hk, he⟩
    rcases hcase with ⟨a1, a2, g3, a4⟩ | ⟨g1, a2⟩ | ⟨a1, a2, a3, a4, a5, g3⟩
    · rw [hcfg2] at g3; omega
    · rw [he] at g1; cases g1
    · exact g3 he
  refine ⟨h7, ?_, by rw [h4, h5]; exact hpos, by rw [h6, hcfg2], by rw [hlen3, h4, hw2], hnotfull,
    h8, h9, ?_, ?_, ?_⟩
  · rw [h3, List.take_append_drop]
  · intro hk
    rcases hcase with ⟨_, g2, _, g4⟩ | ⟨_, g2, g3, _, g5⟩ | ⟨mx, ec, g1, _⟩
    · have : pre ≠ [] := fun hh => hk (g4 hh)
      have := List.length_pos_iff.2 this
      rw [g2]; simp only [List.length_append]; omega
    · have : pre ≠ [] := fun hh => hk (g5 hh)
      have := List.length_pos_iff.2 this
      rw [g2, g3]; simp only [List.length_nil]; omega
    · rw [g1]; simp only [List.length_append, List.length_cons]; omega
  · rcases hcase with ⟨_, g2, _⟩ | ⟨_, g2, g3, _⟩ | ⟨mx, ec, g1, _⟩
    · exact ⟨pre.length, by rw [g2]; simp⟩
    · exact ⟨pre.length, by rw [g2, g3]; simp⟩
    · exact ⟨pre.length + 1, by rw [g1]; simp⟩
  · intro hk
    rcases hcase with ⟨g1, _⟩ | ⟨g1, _, g3, _⟩ | ⟨mx, ec, g1, hec, g2, _⟩
    · exact absurd ⟨hk, g1⟩ hnotfull
    · exact Or.inl ⟨g1, g3⟩
    · exact Or.inr ⟨pre.length, mx, ec, by rw [g1]; simp, hec, g2⟩

/-! ## unfolding `Wrapped.parse` -/

theorem Wrapped.parse_eq (wp : Wrapped) (flags : Nat) :
    wp.parse flags =
      if (wp.s.parse flags).2.2.1 ≠ .empty then
        ({ wp with s := (wp.s.parse flags).1 }, (wp.s.parse flags).2.1, (wp.s.parse flags).2.2.1,
         (wp.s.parse flags).2.2.2)
      else
        let rf := (wp.s.parse flags).1.shrink.1.readFrom wp.r
        if rf.2.2.1 = 0 then
          if rf.2.2.2 = .full then (⟨rf.2.1, rf.1⟩, 0, .panic, (wp.s.parse flags).2.2.2)
          else (⟨rf.2.1, rf.1⟩, 0, rf.2.2.2, (wp.s.parse flags).2.2.2)
        else if rf.2.1.resps.length < wp.r.resps.length then
          Wrapped.parse ⟨rf.2.1, rf.1⟩ flags
        else (⟨rf.2.1, rf.1⟩, 0, .panic, (wp.s.parse flags).2.2.2) := by
  rw [Wrapped.parse]
  simp only [dite_eq_ite]


/-! ## C08: `Wrapped.parse` -/

/-- absolute parse position: number of stream bytes already delivered in blocks -/
def Wrapped.pos (wp : Wrapped) : Nat := wp.s.buf.off + wp.s.buf.w

/-- invariant of a wrapped parser; `fed` = all bytes taken from the reader so far -/
structure WInv (I : Parser → Prop) (wp : Wrapped) (fed : List Byte) : Prop where
  inv : I wp.s
  view : PInv wp.s.buf fed
  cfg : wp.s.buf.cfg.shrinkSize < wp.s.buf.cfg.bufferSize

/-- What one call `wp.parse flags = res` does, relative to the bytes `fed` read so far:
    `q` = bytes taken from the reader during the call. -/
def WrapPost (I : Parser → Prop) (wp : Wrapped) (fed : List Byte)
    (res : Wrapped × Nat × Err × Block) : Prop :=
  ∃ q : List Byte,
    WInv I res.1 (fed ++ q) ∧
    wp.r.payload = q ++ res.1.r.payload ∧
    (∃ j, res.1.r.resps = wp.r.resps.drop j) ∧
    res.1.pos = wp.pos + res.2.1 ∧
    ((res.2.2.1 = .ok ∧ 1 ≤ res.2.1) ∨
     (res.2.1 = 0 ∧ res.1.pos = (fed ++ q).length ∧ ReaderSaid wp.r res.1.r res.2.2.1))

theorem ReaderSaid.mono {r r1 r' : Reader} {e : Err} (j : Nat) (h1 : r1.resps = r.resps.drop j)
    (h : ReaderSaid r1 r' e) : ReaderSaid r r' e := by
  rcases h with h | ⟨j', mx, ec, g1, hec, g2⟩
  · exact Or.inl h
  · refine Or.inr ⟨j + j', mx, ec, ?_, hec, g2⟩
    rw [← g1, h1, List.drop_drop]

theorem Wrapped.parse_post_aux {I : Parser → Prop} (hP : ParseSpec I) (flags : Nat) :
    ∀ (n : Nat) (wp : Wrapped) (fed : List Byte), wp.r.resps.length = n → WInv I wp fed →
      WrapPost I wp fed (wp.parse flags) := by
  intro n
  induction n using Nat.strongRecOn with
  | ind n ih =>
    intro wp fed hn hinv
    have hb : BufOK wp.s.buf := bufOK_of_pinv hinv.view
    rcases Parser.parse_cases hP wp.s flags hinv.inv hb with
      ⟨hw, hpe⟩ | ⟨hw, hok, hn1, hbuf, hle, hI'⟩
    · -- nothing to parse: shrink, read, retry
      rw [Wrapped.parse_eq]
      have he : ¬ (wp.s.parse flags).2.2.1 ≠ .empty := by rw [hpe]; simp
      rw [if_neg he]
      simp only [hpe]
      -- the refill step
      have hI2 : I wp.s.shrink.1 := hP.inv_shrink wp.s hinv.inv hb
      have hb2 : BufOK wp.s.shrink.1.buf := by
        rw [Parser.shrink_buf]; exact bufOK_of_pinv (pinv_shrink hinv.view)
      have hI3 : I (wp.s.shrink.1.readFrom wp.r).1 := hP.inv_readFrom _ wp.r hI2 hb2
      obtain ⟨hrb, hrr⟩ := Parser.readFrom_buf wp.s.shrink.1 wp.r
      rw [Parser.shrink_buf] at hrb hrr
      generalize hrf : wp.s.shrink.1.readFrom wp.r = rf at hI3 hrb hrr
      obtain ⟨s3, r', k, e2⟩ := rf
      simp only [] at hI3 hrb hrr ⊢
      have hr : wp.s.buf.shrink.1.readFrom wp.r = (s3.buf, r', k, e2) := by
        rw [hrb, hrr]
      obtain ⟨f1, f2, f3, f4, f5, f6, f7, f8, f9, f10, f11⟩ :=
        PBuf.refill_spec hinv.view hw hinv.cfg wp.r hr
      have hinv3 : WInv I ⟨r', s3⟩ (fed ++ wp.r.payload.take k) :=
        ⟨hI3, f1, by simp only []; rw [f4]; exact hinv.cfg⟩
      by_cases hk : k = 0
      · rw [if_pos hk]
        have hnf : e2 ≠ .full := fun h => f6 ⟨hk, h⟩
        rw [if_neg hnf]
        refine ⟨wp.r.payload.take k, hinv3, f2, f10, ?_, Or.inr ⟨rfl, ?_, f11 hk⟩⟩
        · simp only [Wrapped.pos]; omega
        · have := f1.fed_length
          simp only [Wrapped.pos]; omega
      · rw [if_neg hk, if_pos (f9 hk)]
        have := ih r'.resps.length (by rw [← hn]; exact f9 hk) ⟨r', s3⟩ _ rfl hinv3
        obtain ⟨q2, g1, g2, ⟨j2, g3⟩, g4, g5⟩ := this
        obtain ⟨j1, f10⟩ := f10
        refine ⟨wp.r.payload.take k ++ q2, by rw [← List.append_assoc]; exact g1, ?_,
          ⟨j1 + j2, ?_⟩, ?_, ?_⟩
        · rw [List.append_assoc, ← g2]; exact f2
        · rw [g3]; simp only []; rw [f10, List.drop_drop]
        · rw [g4]; simp only [Wrapped.pos]; omega
        · rcases g5 with g5 | ⟨g5, g6, g7⟩
          · exact Or.inl g5
          · refine Or.inr ⟨g5, by rw [← List.append_assoc]; exact g6, ?_⟩
            exact ReaderSaid.mono (r1 := r') j1 f10 g7
    · -- a block is delivered
      rw [Wrapped.parse_eq]
      have he : (wp.s.parse flags).2.2.1 ≠ .empty := by rw [hok]; simp
      rw [if_pos he]
      refine ⟨[], ⟨hI', ?_, ?_⟩, by simp, ⟨0, by simp⟩, ?_, Or.inl ⟨hok, hn1⟩⟩
      · simp only [List.append_nil]
        rw [hbuf]
        exact pinv_advance hinv.view _ hle
      · simp only []; rw [hbuf]; exact hinv.cfg
      · simp only [Wrapped.pos]; rw [hbuf]; simp only []; omega

/-- **C08, one call.** Under `ParseSpec I`, for a wrapped parser satisfying the invariant
    (`ShrinkSize < BufferSize`, buffer views the bytes `fed` read so far), one call of
    `WrappedParser.Parse` returning `(n, e)`:
    * keeps the invariant, with `fed' = fed ++ q` where `q` are exactly the bytes the reader lost
      (nothing lost, nothing duplicated: `fed' ++ payload' = fed ++ payload`);
    * advances the absolute parse position by exactly `n`;
    * either `e = nil ∧ 1 ≤ n` (a block was delivered), or `n = 0` and every byte ever read has been
      delivered (`pos = |fed'|`) and `e` is what the reader said on its last read. -/
theorem C08_wrap_step {I : Parser → Prop} (hP : ParseSpec I) (wp : Wrapped) (flags : Nat)
    (fed : List Byte) (h : WInv I wp fed) : WrapPost I wp fed (wp.parse flags) :=
  Wrapped.parse_post_aux hP flags _ wp fed rfl h

/-- `WrappedParser.Parse` never panics (in particular `panic("unexpected ErrFullBuffer")` and the
    model's "no response consumed" branch are unreachable) and never returns `ErrFullBuffer` or
    `ErrEmptyBuffer`. -/
theorem C08_wrap_no_panic {I : Parser → Prop} (hP : ParseSpec I) (wp : Wrapped) (flags : Nat)
    (fed : List Byte) (h : WInv I wp fed) :
    (wp.parse flags).2.2.1 ≠ .panic ∧ (wp.parse flags).2.2.1 ≠ .full ∧
    (wp.parse flags).2.2.1 ≠ .empty := by
  obtain ⟨q, -, -, -, -, hc⟩ := C08_wrap_step hP wp flags fed h
  rcases hc with ⟨h1, _⟩ | ⟨_, _, h3⟩
  · rw [h1]; simp
  · exact ⟨h3.ne.2.1, h3.ne.2.2.1, h3.ne.2.2.2⟩

/-- An error (the reader's error or `io.EOF`) is returned only with `n = 0`, only when the last
    `ReadFrom` read nothing and no unparsed byte is buffered: every byte read before the failure has
    been delivered in a block. The error is the reader's own report, and the invariant still holds,
    so parsing continues without loss or duplication when the reader recovers. -/
theorem C08_wrap_error {I : Parser → Prop} (hP : ParseSpec I) (wp : Wrapped) (flags : Nat)
    (fed : List Byte) (h : WInv I wp fed) (he : (wp.parse flags).2.2.1 ≠ .ok) :
    (wp.parse flags).2.1 = 0 ∧
    (wp.parse flags).1.s.buf.w = (wp.parse flags).1.s.buf.data.length ∧
    ReaderSaid wp.r (wp.parse flags).1.r (wp.parse flags).2.2.1 ∧
    ∃ q, WInv I (wp.parse flags).1 (fed ++ q) ∧ wp.r.payload = q ++ (wp.parse flags).1.r.payload ∧
      (wp.parse flags).1.pos = (fed ++ q).length := by
  obtain ⟨q, h1, h2, -, h4, hc⟩ := C08_wrap_step hP wp flags fed h
  rcases hc with ⟨g1, _⟩ | ⟨g1, g2, g3⟩
  · exact absurd g1 he
  · refine ⟨g1, ?_, g3, q, h1, h2, g2⟩
    have := h1.view.fed_length
    simp only [Wrapped.pos] at g2
    omega

/-! ### after the payload is exhausted: `(0, io.EOF)` forever -/

/-- the reader has nothing left and will not report anything but `nil`/`io.EOF` -/
def ReaderDone (r : Reader) : Prop := r.payload = [] ∧ ∀ x ∈ r.resps, x.2 ≤ 1

/-- reader done and everything buffered has been parsed -/
def Drained (wp : Wrapped) : Prop := ReaderDone wp.r ∧ wp.s.buf.w = wp.s.buf.data.length

/-- Once the reader's payload is exhausted, every call either delivers a block from the data still
    buffered (`1 ≤ n`, position stays within the bytes read) or returns `(0, io.EOF)` with
    everything delivered; the reader stays done and `fed` does not change. -/
theorem C08_wrap_tail {I : Parser → Prop} (hP : ParseSpec I) (wp : Wrapped) (flags : Nat)
    (fed : List Byte) (h : WInv I wp fed) (hd : ReaderDone wp.r) :
    WInv I (wp.parse flags).1 fed ∧ ReaderDone (wp.parse flags).1.r ∧
    (wp.parse flags).1.pos = wp.pos + (wp.parse flags).2.1 ∧
    (((wp.parse flags).2.2.1 = .ok ∧ 1 ≤ (wp.parse flags).2.1) ∨
     ((wp.parse flags).2.1 = 0 ∧ (wp.parse flags).2.2.1 = .eof ∧ Drained (wp.parse flags).1 ∧
      (wp.parse flags).1.pos = fed.length)) := by
  obtain ⟨q, h1, h2, ⟨j, h3⟩, h4, hc⟩ := C08_wrap_step hP wp flags fed h
  obtain ⟨hd1, hd2⟩ := hd
  rw [hd1] at h2
  have hq : q = [] ∧ (wp.parse flags).1.r.payload = [] := by
    have := congrArg List.length h2
    simp only [List.length_nil, List.length_append] at this
    exact ⟨List.eq_nil_of_length_eq_zero (by omega), List.eq_nil_of_length_eq_zero (by omega)⟩
  obtain ⟨hq, hpl⟩ := hq
  subst hq
  simp only [List.append_nil] at h1 hc
  have hdone : ReaderDone (wp.parse flags).1.r := by
    refine ⟨hpl, fun x hx => hd2 x ?_⟩
    rw [h3] at hx
    exact List.mem_of_mem_drop hx
  refine ⟨h1, hdone, h4, ?_⟩
  rcases hc with hc | ⟨g1, g2, g3⟩
  · exact Or.inl hc
  · right
    have hw : (wp.parse flags).1.s.buf.w = (wp.parse flags).1.s.buf.data.length := by
      have := h1.view.fed_length
      simp only [Wrapped.pos] at g2
      omega
    refine ⟨g1, ?_, ⟨hdone, hw⟩, g2⟩
    rcases g3 with ⟨g3, _⟩ | ⟨j', mx, ec, g3, hec, g4⟩
    · exact g3
    · have hmem : (mx, ec) ∈ wp.r.resps := by
        apply List.mem_of_mem_drop (i := j')
        rw [g3]; simp
      have := hd2 _ hmem
      simp only [] at this
      rw [g4]
      exact errOfCode_le_one ec hec this

/-- **`(0, io.EOF)` and it stays that way**: in a drained state the call returns `(0, io.EOF)`
    and the state is drained again. -/
theorem C08_wrap_eof {I : Parser → Prop} (hP : ParseSpec I) (wp : Wrapped) (flags : Nat)
    (fed : List Byte) (h : WInv I wp fed) (hd : Drained wp) :
    (wp.parse flags).2.1 = 0 ∧ (wp.parse flags).2.2.1 = .eof ∧
    WInv I (wp.parse flags).1 fed ∧ Drained (wp.parse flags).1 := by
  obtain ⟨t1, t2, t3, t4⟩ := C08_wrap_tail hP wp flags fed h hd.1
  rcases t4 with ⟨g1, g2⟩ | ⟨g1, g2, g3, g4⟩
  · exfalso
    have e1 := h.view.fed_length
    have e2 := t1.view.fed_length
    have e3 := t1.view.w_le
    have e4 := hd.2
    simp only [Wrapped.pos] at t3
    omega
  · exact ⟨g1, g2, t1, g3⟩

/-- the state after `k` calls -/
def Wrapped.iter (flags : Nat) : Nat → Wrapped → Wrapped
  | 0, wp => wp
  | k + 1, wp => Wrapped.iter flags k (wp.parse flags).1

/-- **forever**: from a drained state, the `k`-th further call returns `(0, io.EOF)`, for every `k`. -/
theorem C08_wrap_eof_forever {I : Parser → Prop} (hP : ParseSpec I) (flags : Nat) (fed : List Byte)
    (k : Nat) : ∀ (wp : Wrapped), WInv I wp fed → Drained wp →
      ((Wrapped.iter flags k wp).parse flags).2.1 = 0 ∧
      ((Wrapped.iter flags k wp).parse flags).2.2.1 = .eof := by
  induction k with
  | zero =>
    intro wp h hd
    obtain ⟨g1, g2, -, -⟩ := C08_wrap_eof hP wp flags fed h hd
    exact ⟨g1, g2⟩
  | succ k ih =>
    intro wp h hd
    obtain ⟨-, -, g3, g4⟩ := C08_wrap_eof hP wp flags fed h hd
    exact ih _ g3 g4

/-! ### sequences of calls: nothing lost, nothing duplicated -/

/-- the results `(n, err)` of the first `k` calls -/
def Wrapped.calls (flags : Nat) : Nat → Wrapped → List (Nat × Err)
  | 0, _ => []
  | k + 1, wp => ((wp.parse flags).2.1, (wp.parse flags).2.2.1) ::
      Wrapped.calls flags k (wp.parse flags).1

/-- **C08 over call sequences.** After any number `k` of calls (whatever the reader does: short
    reads, data with errors, errors, recovery): the invariant holds for some `fed'` with
    `fed' ++ (rest of the reader's payload) = fed ++ (initial payload)` and `fed` a prefix of `fed'`;
    the absolute parse position has advanced by exactly the sum of the returned `n`; each call
    returned `nil` with `1 ≤ n`, or `n = 0` with an error that is not a panic/`ErrFullBuffer`/
    `ErrEmptyBuffer`. -/
theorem C08_wrap_calls {I : Parser → Prop} (hP : ParseSpec I) (flags : Nat) (k : Nat) :
    ∀ (wp : Wrapped) (fed : List Byte), WInv I wp fed →
      ∃ q, WInv I (Wrapped.iter flags k wp) (fed ++ q) ∧
        wp.r.payload = q ++ (Wrapped.iter flags k wp).r.payload ∧
        (Wrapped.iter flags k wp).pos = wp.pos + ((Wrapped.calls flags k wp).map (·.1)).sum ∧
        ∀ c ∈ Wrapped.calls flags k wp,
          (c.2 = .ok ∧ 1 ≤ c.1) ∨
          (c.1 = 0 ∧ c.2 ≠ .ok ∧ c.2 ≠ .panic ∧ c.2 ≠ .full ∧ c.2 ≠ .empty) := by
  induction k with
  | zero =>
    intro wp fed h
    exact ⟨[], by simpa [Wrapped.iter] using h, by simp [Wrapped.iter], by simp [Wrapped.iter, Wrapped.calls],
      by simp [Wrapped.calls]⟩
  | succ k ih =>
    intro wp fed h
    obtain ⟨q1, h1, h2, -, h4, hc⟩ := C08_wrap_step hP wp flags fed h
    obtain ⟨q2, g1, g2, g3, g4⟩ := ih _ _ h1
    refine ⟨q1 ++ q2, by rw [← List.append_assoc]; exact g1, ?_, ?_, ?_⟩
    · simp only [Wrapped.iter]; rw [List.append_assoc, ← g2]; exact h2
    · simp only [Wrapped.iter, Wrapped.calls, List.map_cons, List.sum_cons]
      rw [g3, h4]; omega
    · intro c hcm
      simp only [Wrapped.calls, List.mem_cons] at hcm
      rcases hcm with hcm | hcm
      · subst hcm
        rcases hc with hc | ⟨c1, _, c3⟩
        · exact Or.inl hc
        · exact Or.inr ⟨c1, c3.ne.1, c3.ne.2.1, c3.ne.2.2.1, c3.ne.2.2.2⟩
      · exact g4 c hcm

/-! ## C08: the results of `Wrapped.parse` do not depend on how the reader chunks -/

/-- the parser with another buffer capacity -/
def Parser.withCap (s : Parser) (c : Nat) : Parser := { s with buf := { s.buf with cap := c } }

@[simp] theorem Parser.withCap_blockN (s : Parser) (c : Nat) : (s.withCap c).blockN = s.blockN := rfl
@[simp] theorem Parser.withCap_minMatch (s : Parser) (c : Nat) :
    (s.withCap c).minMatch = s.minMatch := rfl
@[simp] theorem Parser.withCap_dict (s : Parser) (c : Nat) : (s.withCap c).dict = s.dict := rfl
@[simp] theorem Parser.withCap_kind (s : Parser) (c : Nat) : (s.withCap c).kind = s.kind := rfl
@[simp] theorem Parser.withCap_cfg (s : Parser) (c : Nat) : (s.withCap c).cfg = s.cfg := rfl
@[simp] theorem Parser.withCap_data (s : Parser) (c : Nat) :
    (s.withCap c).buf.data = s.buf.data := rfl
@[simp] theorem Parser.withCap_w (s : Parser) (c : Nat) : (s.withCap c).buf.w = s.buf.w := rfl
@[simp] theorem Parser.withCap_off (s : Parser) (c : Nat) : (s.withCap c).buf.off = s.buf.off := rfl
@[simp] theorem Parser.withCap_cap (s : Parser) (c : Nat) : (s.withCap c).buf.cap = c := rfl
@[simp] theorem Parser.withCap_bcfg (s : Parser) (c : Nat) :
    (s.withCap c).buf.cfg = s.buf.cfg := rfl

theorem Parser.ite_withCap {C : Prop} [Decidable C] (c : Nat)
    (A B A' B' : Parser × Nat × Err × Block)
    (hA : A' = (A.1.withCap c, A.2)) (hB : B' = (B.1.withCap c, B.2)) :
    (if C then A' else B') = ((if C then A else B).1.withCap c, (if C then A else B).2) := by
  split <;> assumption

/-- `Parse` does not look at the capacity (beyond the margin check, which passes under `BufOK`):
    same count, error and block, same new state up to `cap`. -/
theorem Parser.parse_withCap (s : Parser) (flags c : Nat) (hb : BufOK s.buf)
    (hc : BufOK (s.withCap c).buf) :
    (s.withCap c).parse flags = ((s.parse flags).1.withCap c, (s.parse flags).2) := by
  by_cases hn : s.blockN = 0
  · have hn' : (s.withCap c).blockN = 0 := hn
    rw [Parser.parse_of_blockN_zero _ _ hn, Parser.parse_of_blockN_zero _ _ hn']
  · obtain ⟨h1, h2, h3⟩ := hb
    obtain ⟨_, _, h3'⟩ := hc
    have hlen : s.buf.w < s.buf.data.length := by
      unfold Parser.blockN at hn; omega
    have hm : s.buf.data.length + Facts.margin ≤ s.buf.cap := by
      rcases h3 with h | h
      · rw [h] at hlen; simp at hlen
      · exact h
    have hm' : s.buf.data.length + Facts.margin ≤ c := by
      rcases h3' with h | h
      · have : s.buf.data = [] := h
        rw [this] at hlen; simp at hlen
      · exact h
    have hil : ∀ il : Nat, ¬ (il ≠ 0 ∧ (c : Int) <
        ((List.take (s.buf.w + s.blockN) s.buf.data).length : Int) - il + 1 + Facts.margin) := by
      intro il; simp only [List.length_take]; omega
    have hil' : ∀ il : Nat, ¬ (il ≠ 0 ∧ (s.buf.cap : Int) <
        ((List.take (s.buf.w + s.blockN) s.buf.data).length : Int) - il + 1 + Facts.margin) := by
      intro il; simp only [List.length_take]; omega
    obtain ⟨kind, cfg, buf, dict⟩ := s
    unfold Parser.parse
    simp only [Parser.withCap_blockN, Parser.withCap_minMatch, Parser.withCap_dict,
      Parser.withCap_kind, Parser.withCap_cfg, Parser.withCap_data, Parser.withCap_w,
      Parser.withCap_off, Parser.withCap_cap, Parser.withCap_bcfg, hn, if_false]
    cases dict <;> simp only [hil, hil', if_false]
    all_goals first
      | rfl
      | exact Parser.ite_withCap c _ _ _ _ rfl rfl

theorem Parser.shrink_withCap (s : Parser) (c : Nat) :
    (s.withCap c).shrink = (s.shrink.1.withCap c, s.shrink.2) := by
  obtain ⟨kind, cfg, buf, dict⟩ := s
  unfold Parser.shrink PBuf.shrink
  simp only [Parser.withCap]
  by_cases h : buf.w ≤ buf.cfg.shrinkSize
  · simp only [h, if_true]
  · simp only [h, if_false]
    by_cases h2 : buf.w - buf.cfg.shrinkSize = 0
    · simp only [h2, if_true]
    · simp only [h2, if_false]

/-- two parsers that differ at most in the capacity of their buffers -/
def Parser.Sim (a b : Parser) : Prop :=
  a.kind = b.kind ∧ a.cfg = b.cfg ∧ a.dict = b.dict ∧ SameView a.buf b.buf

theorem Parser.Sim.eq_withCap {a b : Parser} (h : Parser.Sim a b) : b = a.withCap b.buf.cap := by
  obtain ⟨h1, h2, h3, h4, h5, h6, h7⟩ := h
  obtain ⟨ka, ca, ba, da⟩ := a
  obtain ⟨kb, cb, bb, db⟩ := b
  obtain ⟨d1, w1, o1, c1, g1⟩ := ba
  obtain ⟨d2, w2, o2, c2, g2⟩ := bb
  simp only [Parser.withCap] at *
  subst h1 h2 h3 h4 h5 h6 h7
  rfl

theorem Parser.sim_withCap (a : Parser) (c : Nat) : Parser.Sim a (a.withCap c) :=
  ⟨rfl, rfl, rfl, rfl, rfl, rfl, rfl⟩

theorem Parser.parse_sim {a b : Parser} (h : Parser.Sim a b) (flags : Nat) (ha : BufOK a.buf)
    (hb : BufOK b.buf) :
    Parser.Sim (a.parse flags).1 (b.parse flags).1 ∧ (a.parse flags).2 = (b.parse flags).2 := by
  have hb' := hb
  rw [h.eq_withCap] at hb' ⊢
  rw [Parser.parse_withCap a flags _ ha hb']
  exact ⟨Parser.sim_withCap _ _, rfl⟩

theorem Parser.shrink_sim {a b : Parser} (h : Parser.Sim a b) :
    Parser.Sim a.shrink.1 b.shrink.1 := by
  rw [h.eq_withCap, Parser.shrink_withCap]
  exact Parser.sim_withCap _ _

theorem Parser.readFrom_sim {a b : Parser} (h : Parser.Sim a b) (ha : BufOK a.buf)
    {ra rb : Reader} (hp : ra.payload = rb.payload) (hfa : FillR ra) (hfb : FillR rb) :
    Parser.Sim (a.readFrom ra).1 (b.readFrom rb).1 ∧
    (a.readFrom ra).2.1.payload = (b.readFrom rb).2.1.payload ∧
    (a.readFrom ra).2.2 = (b.readFrom rb).2.2 := by
  obtain ⟨h1, h2, h3, h4⟩ := h
  obtain ⟨g1, g2, g3⟩ := sameView_readFrom_fill h4 ha.2.1 hp (hfa.fillScript _) (hfb.fillScript _)
  exact ⟨⟨h1, h2, h3, g1⟩, g2, g3⟩

/-- the refill step of `Wrapped.parse` when the buffer is completely parsed -/
theorem Wrapped.parse_refill {I : Parser → Prop} (hP : ParseSpec I) (wp : Wrapped) (flags : Nat)
    (fed : List Byte) (hinv : WInv I wp fed) (hw : wp.s.buf.w = wp.s.buf.data.length) :
    let rf := wp.s.shrink.1.readFrom wp.r
    WInv I ⟨rf.2.1, rf.1⟩ (fed ++ wp.r.payload.take rf.2.2.1) ∧
    rf.2.2.1 ≤ wp.r.payload.length ∧
    (rf.2.2.1 = 0 → wp.parse flags = (⟨rf.2.1, rf.1⟩, 0, rf.2.2.2, ⟨[], []⟩)) ∧
    (rf.2.2.1 ≠ 0 → wp.parse flags = Wrapped.parse ⟨rf.2.1, rf.1⟩ flags) := by
  intro rf
  have hb : BufOK wp.s.buf := bufOK_of_pinv hinv.view
  have hpe := Parser.parse_of_blockN_zero wp.s flags (Parser.blockN_zero_of_w wp.s (by omega))
  have hI2 : I wp.s.shrink.1 := hP.inv_shrink wp.s hinv.inv hb
  have hb2 : BufOK wp.s.shrink.1.buf := by
    rw [Parser.shrink_buf]; exact bufOK_of_pinv (pinv_shrink hinv.view)
  have hI3 : I rf.1 := hP.inv_readFrom _ wp.r hI2 hb2
  obtain ⟨hrb, hrr⟩ := Parser.readFrom_buf wp.s.shrink.1 wp.r
  rw [Parser.shrink_buf] at hrb hrr
  have hr : wp.s.buf.shrink.1.readFrom wp.r = (rf.1.buf, rf.2.1, rf.2.2.1, rf.2.2.2) := by
    rw [hrb, hrr]
  obtain ⟨f1, f2, f3, f4, f5, f6, f7, f8, f9, f10, f11⟩ :=
    PBuf.refill_spec hinv.view hw hinv.cfg wp.r hr
  obtain ⟨-, hk, -⟩ := C15_readFrom (pinv_shrink hinv.view) wp.r hr
  refine ⟨⟨hI3, f1, by simp only []; rw [f4]; exact hinv.cfg⟩, hk, ?_, ?_⟩
  · intro hk0
    rw [Wrapped.parse_eq]
    have he : ¬ (wp.s.parse flags).2.2.1 ≠ .empty := by rw [hpe]; simp
    rw [if_neg he]
    simp only [hpe]
    have hnf : rf.2.2.2 ≠ .full := fun h => f6 ⟨hk0, h⟩
    rw [if_pos hk0, if_neg hnf]
  · intro hk0
    rw [Wrapped.parse_eq]
    have he : ¬ (wp.s.parse flags).2.2.1 ≠ .empty := by rw [hpe]; simp
    rw [if_neg he]
    simp only [hpe]
    rw [if_neg hk0, if_pos (f9 hk0)]

/-- two wrapped parsers that differ at most in buffer capacity and in how their readers chunk
    the same remaining payload -/
structure WSim (wa wb : Wrapped) : Prop where
  sim : Parser.Sim wa.s wb.s
  payload : wa.r.payload = wb.r.payload
  fillA : FillR wa.r
  fillB : FillR wb.r

theorem Wrapped.parse_chunking_aux {I : Parser → Prop} (hP : ParseSpec I) (flags : Nat) :
    ∀ (m : Nat) (wa wb : Wrapped) (fa fb : List Byte), wa.r.payload.length = m →
      WInv I wa fa → WInv I wb fb → WSim wa wb →
      (wa.parse flags).2 = (wb.parse flags).2 ∧ WSim (wa.parse flags).1 (wb.parse flags).1 := by
  intro m
  induction m using Nat.strongRecOn with
  | ind m ih =>
    intro wa wb fa fb hm ha hb hs
    have hba : BufOK wa.s.buf := bufOK_of_pinv ha.view
    have hbb : BufOK wb.s.buf := bufOK_of_pinv hb.view
    obtain ⟨psim, peq⟩ := Parser.parse_sim hs.sim flags hba hbb
    rcases Parser.parse_cases hP wa.s flags ha.inv hba with
      ⟨hw, hpe⟩ | ⟨hw, hok, hn1, hbuf, hle, hI'⟩
    · -- both buffers are completely parsed: refill both
      have hwb : wb.s.buf.w = wb.s.buf.data.length := by
        obtain ⟨-, -, -, v1, v2, -⟩ := hs.sim
        rw [← v1, ← v2]; exact hw
      obtain ⟨a1, a2, a3, a4⟩ := Wrapped.parse_refill hP wa flags fa ha hw
      obtain ⟨b1, b2, b3, b4⟩ := Wrapped.parse_refill hP wb flags fb hb hwb
      have hba2 : BufOK wa.s.shrink.1.buf := by
        rw [Parser.shrink_buf]; exact bufOK_of_pinv (pinv_shrink ha.view)
      have hbb2 : BufOK wb.s.shrink.1.buf := by
        rw [Parser.shrink_buf]; exact bufOK_of_pinv (pinv_shrink hb.view)
      obtain ⟨r1, r2, r3⟩ := Parser.readFrom_sim (Parser.shrink_sim hs.sim) hba2 hs.payload
        hs.fillA hs.fillB
      have hk : (wa.s.shrink.1.readFrom wa.r).2.2.1 = (wb.s.shrink.1.readFrom wb.r).2.2.1 :=
        congrArg Prod.fst r3
      have he : (wa.s.shrink.1.readFrom wa.r).2.2.2 = (wb.s.shrink.1.readFrom wb.r).2.2.2 :=
        congrArg Prod.snd r3
      have hfa' : FillR (wa.s.shrink.1.readFrom wa.r).2.1 := by
        obtain ⟨hrb, hrr⟩ := Parser.readFrom_buf wa.s.shrink.1 wa.r
        exact fillR_readFrom hba2.2.1 hs.fillA (b' := (wa.s.shrink.1.buf.readFrom wa.r).1)
          (n := (wa.s.shrink.1.buf.readFrom wa.r).2.2.1)
          (e := (wa.s.shrink.1.buf.readFrom wa.r).2.2.2)
          (by rw [show (wa.s.shrink.1.readFrom wa.r).2.1 = (wa.s.shrink.1.buf.readFrom wa.r).2.1
                from congrArg Prod.fst hrr])
      have hfb' : FillR (wb.s.shrink.1.readFrom wb.r).2.1 := by
        obtain ⟨hrb, hrr⟩ := Parser.readFrom_buf wb.s.shrink.1 wb.r
        exact fillR_readFrom hbb2.2.1 hs.fillB (b' := (wb.s.shrink.1.buf.readFrom wb.r).1)
          (n := (wb.s.shrink.1.buf.readFrom wb.r).2.2.1)
          (e := (wb.s.shrink.1.buf.readFrom wb.r).2.2.2)
          (by rw [show (wb.s.shrink.1.readFrom wb.r).2.1 = (wb.s.shrink.1.buf.readFrom wb.r).2.1
                from congrArg Prod.fst hrr])
      have hsim3 : WSim ⟨(wa.s.shrink.1.readFrom wa.r).2.1, (wa.s.shrink.1.readFrom wa.r).1⟩
          ⟨(wb.s.shrink.1.readFrom wb.r).2.1, (wb.s.shrink.1.readFrom wb.r).1⟩ :=
        ⟨r1, r2, hfa', hfb'⟩
      by_cases hk0 : (wa.s.shrink.1.readFrom wa.r).2.2.1 = 0
      · rw [a3 hk0, b3 (by rw [← hk]; exact hk0)]
        exact ⟨by simp only []; rw [he], hsim3⟩
      · rw [a4 hk0, b4 (by rw [← hk]; exact hk0)]
        -- the remaining payload got shorter
        have hpl : (wa.s.shrink.1.readFrom wa.r).2.1.payload.length < m := by
          obtain ⟨hrb, hrr⟩ := Parser.readFrom_buf wa.s.shrink.1 wa.r
          obtain ⟨fed2, hp2⟩ := (bufOK_iff _).1 hba2
          obtain ⟨-, -, g3, -⟩ := C15_readFrom hp2 wa.r
            (b' := (wa.s.shrink.1.buf.readFrom wa.r).1)
            (r' := (wa.s.shrink.1.buf.readFrom wa.r).2.1)
            (n := (wa.s.shrink.1.buf.readFrom wa.r).2.2.1)
            (e := (wa.s.shrink.1.buf.readFrom wa.r).2.2.2) rfl
          have e1 : (wa.s.shrink.1.readFrom wa.r).2.1 = (wa.s.shrink.1.buf.readFrom wa.r).2.1 :=
            congrArg Prod.fst hrr
          have e2 : (wa.s.shrink.1.readFrom wa.r).2.2.1 = (wa.s.shrink.1.buf.readFrom wa.r).2.2.1 :=
            congrArg (fun x => x.2.1) hrr
          rw [e1, g3, List.length_drop, ← e2]
          omega
        exact ih _ hpl _ _ _ _ rfl a1 b1 hsim3
    · -- both deliver the same block
      have hokb : (wb.s.parse flags).2.2.1 = .ok := by
        have : (wa.s.parse flags).2.2.1 = (wb.s.parse flags).2.2.1 :=
          congrArg (fun x => x.2.1) peq
        rw [← this]; exact hok
      rw [Wrapped.parse_eq wa, Wrapped.parse_eq wb]
      rw [if_pos (by rw [hok]; simp), if_pos (by rw [hokb]; simp)]
      exact ⟨peq, ⟨psim, hs.payload, hs.fillA, hs.fillB⟩⟩

/-- **C08, chunking independence at the level of `WrappedParser.Parse`.** Two wrapped parsers
    whose parsers agree up to buffer capacity and whose readers hold the same remaining payload but
    chunk it differently (both error free, `FillR`) return the same `(n, err, block)`, and are again
    in such a relation afterwards. -/
theorem C08_wrap_chunking {I : Parser → Prop} (hP : ParseSpec I) (wa wb : Wrapped) (flags : Nat)
    (fa fb : List Byte) (ha : WInv I wa fa) (hb : WInv I wb fb) (hs : WSim wa wb) :
    (wa.parse flags).2 = (wb.parse flags).2 ∧ WSim (wa.parse flags).1 (wb.parse flags).1 :=
  Wrapped.parse_chunking_aux hP flags _ wa wb fa fb rfl ha hb hs

/-- … hence the whole sequence of results `(n, err)` of any number of calls is the same, and so
    are the blocks (they are part of `.2` in `C08_wrap_chunking`). -/
theorem C08_wrap_chunking_calls {I : Parser → Prop} (hP : ParseSpec I) (flags : Nat) (k : Nat) :
    ∀ (wa wb : Wrapped) (fa fb : List Byte), WInv I wa fa → WInv I wb fb → WSim wa wb →
      Wrapped.calls flags k wa = Wrapped.calls flags k wb := by
  induction k with
  | zero => intros; rfl
  | succ k ih =>
    intro wa wb fa fb ha hb hs
    obtain ⟨h1, h2⟩ := C08_wrap_chunking hP wa wb flags fa fb ha hb hs
    obtain ⟨qa, ha', -⟩ := C08_wrap_step hP wa flags fa ha
    obtain ⟨qb, hb', -⟩ := C08_wrap_step hP wb flags fb hb
    simp only [Wrapped.calls]
    rw [ih _ _ _ _ ha' hb' h2]
    have e1 : (wa.parse flags).2.1 = (wb.parse flags).2.1 := congrArg Prod.fst h1
    have e2 : (wa.parse flags).2.2.1 = (wb.parse flags).2.2.1 := congrArg (fun x => x.2.1) h1
    rw [e1, e2]

/-! ## non-vacuity: concrete instances (BufferSize 4, ShrinkSize 1) -/

section Examples

/-- a GSAP parser over the empty 4-byte buffer of `PBuf.cfg4` -/
def exParser : Parser :=
  { kind := .GSAP, cfg := {}, buf := PBuf.init cfg4, dict := .gsap GsapD.empty }

example : WInv (fun _ => True) ⟨rdBytes, exParser⟩ [] :=
  ⟨trivial, pinv_init _, by decide⟩

example : WInv (fun _ => True) ⟨rdChunks, exParser.withCap 100⟩ [] :=
  ⟨trivial, by constructor <;> simp [exParser, Parser.withCap, init, cfg4], by decide⟩

example : FillR rdBytes := by unfold FillR; decide
example : FillR rdChunks := by unfold FillR; decide

/-- same payload, single-byte reads against chunks 2 + 3, different capacities -/
example : WSim ⟨rdBytes, exParser⟩ ⟨rdChunks, exParser.withCap 100⟩ :=
  ⟨Parser.sim_withCap _ _, rfl, by unfold FillR; decide, by unfold FillR; decide⟩

/-- the refill step on a full, completely parsed buffer: `Shrink` keeps 1 byte, `ReadFrom` with
    single-byte reads fills the 3 free bytes and reports `ErrFullBuffer` with `k = 3 ≠ 0` -/
example : ((PBuf.mk [1, 2, 3, 4] 4 0 11 cfg4).shrink.1).readFrom rdBytes =
    ({ data := [4, 3, 4, 5], w := 1, off := 3, cap := 11, cfg := cfg4 },
     ⟨[6, 7], [(1, 0), (1, 0)]⟩, 3, .full) := by
  simp [readFrom, readLoop, shrink, cfg4, rdBytes, Facts.margin, Facts.chunkSize, min3]

/-- … and with a reader that fails without data: `(0, reader 7)`, never `(0, ErrFullBuffer)` -/
example : ((PBuf.mk [1, 2, 3, 4] 4 0 11 cfg4).shrink.1).readFrom ⟨[9], [(0, 7), (1, 0)]⟩ =
    ({ data := [4], w := 1, off := 3, cap := 11, cfg := cfg4 }, ⟨[9], [(1, 0)]⟩, 0, .reader 7) := by
  simp [readFrom, readLoop, shrink, cfg4, Facts.margin, Facts.chunkSize, min3, errOfCode]

/-- a failing reader on a drained wrapped parser: the error comes out with `n = 0` -/
example : ((Wrapped.mk ⟨[], [(1, 7), (1, 0)]⟩ exParser).parse 0).2 = (0, .reader 7, ⟨[], []⟩) := by
  simp [Wrapped.parse, Parser.parse, Parser.blockN, Parser.shrink, Parser.readFrom, exParser,
    readFrom, readLoop, shrink, init, grow, cfg4, Facts.margin, Facts.chunkSize, Facts.growMin, min3,
    errOfCode]

/-- an exhausted reader on a drained wrapped parser: the `(0, nil)` answer is skipped, then the
    script is exhausted: `(0, io.EOF)` -/
example : ((Wrapped.mk ⟨[], [(1, 0)]⟩ exParser).parse 0).2 = (0, .eof, ⟨[], []⟩) := by
  simp [Wrapped.parse, Parser.parse, Parser.blockN, Parser.shrink, Parser.readFrom, exParser,
    readFrom, readLoop, shrink, init, grow, cfg4, Facts.margin, Facts.chunkSize, Facts.growMin, min3]

example : Drained (Wrapped.mk ⟨[], [(1, 0), (5, 1)]⟩ exParser) :=
  ⟨⟨rfl, by decide⟩, rfl⟩

end Examples

end LZ

#print axioms LZ.PBuf.refill_spec
#print axioms LZ.Parser.parse_frame
#print axioms LZ.Parser.parse_ok
#print axioms LZ.Parser.parse_n
#print axioms LZ.Parser.parse_cases
#print axioms LZ.ParseSpec.of_progress
#print axioms LZ.C08_wrap_step
#print axioms LZ.C08_wrap_no_panic
#print axioms LZ.C08_wrap_error
#print axioms LZ.C08_wrap_tail
#print axioms LZ.C08_wrap_eof
#print axioms LZ.C08_wrap_eof_forever
#print axioms LZ.C08_wrap_calls
#print axioms LZ.Parser.parse_withCap
#print axioms LZ.C08_wrap_chunking
#print axioms LZ.C08_wrap_chunking_calls
