/-
  LzProofs.GenOSAPHistEx — NON-VACUITY of LzProofs/GenOSAPHist.lean / GenOSAPHistRun.lean.

    ceK            an instance of the opaque callee `computeEdges` of the translated `Parse`: the range-checked hand model
                   `Idx.computeEdgesChk` written back into the Go representation (`none` ↦ panic)
    cespec_ceK     `CESpec 2147483647 ceK`: the specification hypothesis is SATISFIABLE, with the concrete bound
                   `B = MaxInt32` on the number of edges per position (`Sap.computeEdges_len_le`: at most `len(Data)`,
                   because the offsets stored for one position are strictly decreasing and lie in `[1, len(Data)]`)
    exInit, exWF   a configuration `init` accepts and an 11-call history
    exRun          the run on the translated functions with `ceK`, checked by `#guard` (the evaluator, NOT the kernel:
                   `saSpec` / `List.mergeSort` are defined by well-founded recursion and do not reduce in the kernel;
                   this is a test, not a theorem — no theorem depends on it).  The first four `Parse` results are the
                   values the REAL Go run printed (notes/osap-translate.md §6).
    examples       every theorem of GenOSAPHistRun instantiated
  No sorry, no axioms of its own, no native_decide.
-/
import LzProofs.GenOSAPHistRun
import LzProofs.OsapEdgeBound

set_option linter.unusedSimpArgs false
set_option linter.unusedVariables false

namespace LZ.GenOSAPHist
open LZ LZ.Gen LZ.GenBuf LZ.GenHash LZ.GenSuffix LZ.GenHPParse LZ.GenProps LZ.GenOSAP
open LZ.GenHPHist (GOp GRes GOpR GResR GOpR.WF ghostRunR)

/-! ## the instance of `computeEdges` -/

/-- a model edge as a Go `edge` -/
def toEdgeG (e : Edge) : Gen.edge := ⟨UInt32.ofNat e.1, UInt32.ofNat e.2⟩

/-- a model edge table as a Go `[][]edge` (every slice with `cap = len`) -/
def edgesRep (es : Array (List Edge)) : GSlice (GSlice Gen.edge) :=
  ⟨es.toList.map (fun l => ⟨l.map toEdgeG, l.length⟩), es.size⟩

/-- the range-checked hand model of `computeEdges`, written back into the Go state -/
def ceK : CEFun := fun s =>
  match Idx.computeEdgesChk (ofOSAPs s).buf.data (ofOSAPs s).buf.w (ofOSAPs s).buf.cfg.windowSize (ofOSAPs s).minMatch
      (ofOSAPs s).cfg.maxMatchLen.toNat with
  | some o => Res.ok { s with edges := edgesRep o.edges, start := (o.start : Int), nEdges := (o.nEdges : Int) }
  | none => Res.panic

theorem edgeAbs_toEdgeG (e : Edge) (h1 : e.1 < 4294967296) (h2 : e.2 < 4294967296) : edgeAbs (toEdgeG e) = e := by
  obtain ⟨a, b⟩ := e
  simp only at h1 h2
  unfold edgeAbs toEdgeG
  simp only [UInt32.toNat_ofNat']
  rw [Nat.mod_eq_of_lt h1, Nat.mod_eq_of_lt h2]

theorem edgesRep_data (es : Array (List Edge)) :
    (edgesRep es).data = es.toList.map (fun l => (⟨l.map toEdgeG, l.length⟩ : GSlice Gen.edge)) := by
  unfold edgesRep GSlice.data
  simp only
  rw [List.take_of_length_le (by simp)]

theorem edgesAbs_rep (es : Array (List Edge))
    (h : ∀ l ∈ es.toList, ∀ e ∈ l, e.1 < 4294967296 ∧ e.2 < 4294967296) : edgesAbs (edgesRep es) = es := by
  unfold edgesAbs
  rw [edgesRep_data, List.map_map]
  apply Array.ext'
  simp only []
  conv => rhs; rw [← List.map_id es.toList]
  apply List.map_congr_left
  intro l hl
  show (GSlice.data ⟨l.map toEdgeG, l.length⟩).map edgeAbs = l
  unfold GSlice.data
  simp only
  rw [List.take_of_length_le (by simp), List.map_map]
  conv => rhs; rw [← List.map_id l]
  apply List.map_congr_left
  intro e he
  exact edgeAbs_toEdgeG e (h l hl e he).1 (h l hl e he).2

/-- **`CESpec` is satisfiable**, with `B = MaxInt32` -/
theorem cespec_ceK : CESpec 2147483647 ceK := by
  intro s o hP hchk
  have hdl : (ofOSAPs s).buf.data.length = s.ParserBuffer.Data.len := data_length hP.pb.data
  have hw : (ofOSAPs s).buf.w ≤ (ofOSAPs s).buf.data.length := by
    rw [hdl]
    show s.ParserBuffer.W.toNat ≤ _
    have := hP.w; have := hP.pb.w; omega
  have hlen : (ofOSAPs s).buf.data.length ≤ 2147483647 := by rw [hdl]; exact hP.small
  have ho : o = computeEdges (ofOSAPs s).buf.data (ofOSAPs s).buf.w (ofOSAPs s).buf.cfg.windowSize (ofOSAPs s).minMatch
      (ofOSAPs s).cfg.maxMatchLen.toNat := by
    rw [Idx.computeEdgesChk_eq _ _ _ _ _ hw hlen] at hchk
    exact (Option.some.inj hchk).symm
  have hget : ∀ l ∈ o.edges.toList, ∃ k, o.edges.getD k [] = l := by
    intro l hl
    obtain ⟨k, hk, rfl⟩ := List.mem_iff_getElem.1 hl
    refine ⟨k, ?_⟩
    simp only [Array.length_toList] at hk
    rw [Array.getD_eq_getD_getElem?, Array.getElem?_eq_getElem hk]
    simp
  have hent : ∀ l ∈ o.edges.toList, ∀ e ∈ l, e.1 < 4294967296 ∧ e.2 < 4294967296 := by
    intro l hl e he
    obtain ⟨k, rfl⟩ := hget l hl
    rw [ho] at he
    obtain ⟨-, a, b⟩ := Sap.computeEdges_entry_le _ _ _ _ _ hw hlen k e.1 e.2 he
    omega
  have hlens : ∀ l ∈ o.edges.toList, l.length ≤ 2147483647 := by
    intro l hl
    obtain ⟨k, rfl⟩ := hget l hl
    have := Sap.computeEdges_len_le (ofOSAPs s).buf.data (ofOSAPs s).buf.w (ofOSAPs s).buf.cfg.windowSize
      (ofOSAPs s).minMatch (ofOSAPs s).cfg.maxMatchLen.toNat hw hlen k
    rw [← ho] at this
    omega
  refine ⟨{ s with edges := edgesRep o.edges, start := (o.start : Int), nEdges := (o.nEdges : Int) }, ?_, ?_, rfl, rfl,
    rfl, rfl, Int.natCast_nonneg _, Int.natCast_nonneg _, ?_, ?_⟩
  · unfold ceK
    rw [hchk]
  · show (⟨edgesAbs (edgesRep o.edges), ((o.start : Nat) : Int).toNat, ((o.nEdges : Nat) : Int).toNat⟩ : OsapD) = o
    rw [edgesAbs_rep _ hent]
    simp only [Int.toNat_natCast]
  · show GWF (edgesRep o.edges)
    unfold GWF edgesRep; simp
  · intro q hq
    have hq' : q ∈ (edgesRep o.edges).data := hq
    rw [edgesRep_data] at hq'
    obtain ⟨l, hl, rfl⟩ := List.mem_map.1 hq'
    refine ⟨?_, hlens l hl⟩
    unfold GWF; simp

/-! ## a history -/

/-- BufferSize 64, WindowSize 16, BlockSize 12, ShrinkSize 8, MinMatchLen 2 (MaxMatchLen, Cost: defaults) -/
def exCfg : Gen.OSAPConfig :=
  { ShrinkSize := 8, BufferSize := 64, WindowSize := 16, BlockSize := 12, MinMatchLen := 2, MaxMatchLen := 0, Cost := "" }

def exGrow : Nat → Nat → Nat := fun _ n => n

def sliceOf (l : List UInt8) : Slice := { arr := l, len := l.length }

/-- "abcabcabcabxyzxyzabcabQQQQabcab" -/
def exA : List UInt8 :=
  [97, 98, 99, 97, 98, 99, 97, 98, 99, 97, 98, 120, 121, 122, 120, 121, 122, 97, 98, 99, 97, 98, 81, 81, 81, 81, 97, 98,
    99, 97, 98]
/-- "abcabQQQQxyzxyz" -/
def exB : List UInt8 := [97, 98, 99, 97, 98, 81, 81, 81, 81, 120, 121, 122, 120, 121, 122]
/-- "hello hello hello" -/
def exC : List UInt8 := [104, 101, 108, 108, 111, 32, 104, 101, 108, 108, 111, 32, 104, 101, 108, 108, 111]

/-- a reader delivering `exB` in answers of at most 4, 0 (`(0, nil)`) and 100 bytes, then `io.EOF` -/
def exRd : Reader := ⟨exB, [(4, 0), (0, 0), (100, 0)]⟩

def exOps : List GOpR :=
  [ .base (.write (sliceOf exA)), .base (.parse default 0), .base (.parse default 1), .base (.parse default 1),
    .base (.parse default 0), .base .shrink, .readFrom exRd, .base (.parse default 0), .base (.parse default 0),
    .base (.reset (sliceOf exC)), .base (.parse default 0) ]

/-- the state `init(exCfg)` leaves in `new(optSuffixArrayParser)` -/
def exS0 : Gen.optSuffixArrayParser :=
  match optSuffixArrayParser_init default exCfg with
  | .ok (s, _) => s
  | _ => default

theorem exInit : optSuffixArrayParser_init default exCfg = Res.ok (exS0, Gen.Err.ok) := by decide +kernel

theorem ex32 : exS0.OSAPConfig.MinMatchLen < 4294967296 := by decide +kernel

theorem exWF : ∀ op ∈ exOps, op.WF := by
  intro op hop
  simp only [exOps, List.mem_cons, List.not_mem_nil, or_false] at hop
  rcases hop with rfl | rfl | rfl | rfl | rfl | rfl | rfl | rfl | rfl | rfl | rfl <;>
    first | trivial | exact Nat.le_refl _ | (show (0 : Int) ≤ _; decide)

/-- the fuel: `BufferSize + B + 5` with `B = MaxInt32` -/
def exFuelN : Nat := 64 + 2147483647 + 5

theorem exFuel : exS0.ParserBuffer.BufConfig.BufferSize.toNat + 2147483647 + 5 ≤ exFuelN := by decide +kernel

/-- `(n, err = nil, sequences, literals)` of the `Parse` calls, `n` of the others — as a test (see the header) -/
def exShow : Res (List (Int × Bool × List (UInt32 × UInt32 × UInt32) × List UInt8)) :=
  Res.bind (runO 0 exGrow exFuelN ceK exS0 exOps) fun r =>
  Res.ok (r.2.map fun
    | .base (.write n e) => (n, e == Gen.Err.ok, [], [])
    | .base (.parse b n e) => (n, e == Gen.Err.ok, b.Sequences.map (fun q => (q.LitLen, q.MatchLen, q.Offset)), b.Literals.data)
    | .base (.shrink d) => (d, true, [], [])
    | .base (.reset e) => (0, e == Gen.Err.ok, [], [])
    | .readFrom n _ => (n, true, [], []))

-- Write 31; Parse(0): n=12 (3,8,3) "abcx"; Parse(NTL): n=10 (2,3,3)(0,5,11) "yz"; Parse(NTL): n=9 (1,3,1)(0,5,9) "Q";
-- Parse(0): 0, ErrEmptyBuffer  — the values of the real Go run (notes/osap-translate.md §6); then Shrink, ReadFrom,
-- two Parse, Reset, Parse
#guard (match exShow with
  | .ok l => l.take 5 == [(31, true, [], []), (12, true, [(3, 8, 3)], [97, 98, 99, 120]),
      (10, true, [(2, 3, 3), (0, 5, 11)], [121, 122]), (9, true, [(1, 3, 1), (0, 5, 9)], [81]), (0, false, [], [])] &&
      l.length == 11 && (l.drop 5).map (·.1) == [23, 15, 12, 3, 0, 12]
  | _ => false)

/-! ## the theorems instantiated -/

example := gen_osap_history 2147483647 exCfg exS0 exInit ex32 ceK cespec_ceK 0 exGrow exFuelN exFuel exOps exWF
example := gen_osap_history_states 2147483647 exCfg exS0 exInit ex32 ceK cespec_ceK 0 exGrow exFuelN exFuel exOps exWF 7
example := C01_go_text_osap 2147483647 exCfg exS0 exInit ex32 ceK cespec_ceK 0 exGrow exFuelN exFuel exOps exWF
example := C02_go_text_osap 2147483647 exCfg exS0 exInit ex32 ceK cespec_ceK 0 exGrow exFuelN exFuel exOps exWF
example := C03_go_text_osap 2147483647 exCfg exS0 exInit ex32 ceK cespec_ceK 0 exGrow exFuelN exFuel exOps exWF
example := C11_go_text_osap 2147483647 exCfg exS0 exInit ex32 ceK cespec_ceK 0 exGrow exFuelN exFuel (exOps.take 1)
  (fun o ho => exWF o (List.mem_of_mem_take ho)) default 0 (by decide) (by decide)

end LZ.GenOSAPHist

#print axioms LZ.GenOSAPHist.cespec_ceK
#print axioms LZ.GenOSAPHist.exInit
