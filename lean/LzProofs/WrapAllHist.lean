/-
  LzProofs.WrapAllHist — C08 at history level, for all seven parser kinds.

  A wrapped history is a list of `WOp` (`WrappedParser.Parse(&blk, flags)` with any flags,
  `WrappedParser.Reset(r)` with any reader script) run from `{ r := r0, s := s0 }` where
  `newParser k raw = some s0`.
-/
import LzProofs.WrapAll
namespace LZ
open PBuf

/-! ## wrapped histories -/

/-- the calls of a wrapped history -/
inductive WOp where
  | parse (flags : Nat)
  | reset (r : Reader)

/-- what a wrapped call returns: `(n, err, block)`; `Reset` returns `(0, err, empty block)` -/
abbrev WOut := Nat × Err × Block

def Wrapped.stepW (wp : Wrapped) : WOp → Wrapped × WOut
  | .parse f => wp.parse f
  | .reset r => ((wp.reset r).1, 0, (wp.reset r).2, ⟨[], []⟩)

/-- run a wrapped history: final state and the list of results, in order -/
def Wrapped.runW : Wrapped → List WOp → Wrapped × List WOut
  | wp, [] => (wp, [])
  | wp, op :: ops =>
    ((Wrapped.runW (wp.stepW op).1 ops).1, (wp.stepW op).2 :: (Wrapped.runW (wp.stepW op).1 ops).2)

/-! ## `Reset` -/

theorem Parser.reset_nil (s : Parser) :
    s.reset [] 0 =
      ({ s with buf := { s.buf with data := [], w := 0, off := 0 }, dict := s.clearDict }, .ok) := by
  simp [Parser.reset, PBuf.reset]

/-- `WrappedParser.Reset(r)` always succeeds: the buffer is emptied, the dictionary cleared, the
    reader replaced -/
theorem Wrapped.reset_eq (wp : Wrapped) (r : Reader) :
    wp.reset r = (⟨r, (wp.s.reset [] 0).1⟩, .ok) := by
  simp [Wrapped.reset, Parser.reset_nil]

theorem WInv.reset {wp : Wrapped} {fed : List Byte} (h : WInv I_all wp fed) (r : Reader) :
    WInv I_all (wp.reset r).1 [] := by
  rw [Wrapped.reset_eq]
  refine ⟨h.inv.reset [] 0, ?_, ?_⟩
  · show PInv (wp.s.reset [] 0).1.buf []
    rw [Parser.reset_nil]
    constructor <;> simp
  · show (wp.s.reset [] 0).1.buf.cfg.shrinkSize < (wp.s.reset [] 0).1.buf.cfg.bufferSize
    rw [Parser.reset_nil]
    exact h.cfg

/-! ## the invariant holds in every reachable wrapped state -/

theorem newParser_bufcfg (k : Kind) (raw : Cfg) (s0 : Parser) (h0 : newParser k raw = some s0) :
    s0.buf.cfg.shrinkSize < s0.buf.cfg.bufferSize ∧ s0.buf = PBuf.init s0.cfg.bufCfg := by
  unfold newParser at h0
  simp only [] at h0
  split at h0
  · rename_i hv
    simp only [Option.some.injEq] at h0
    subst h0
    refine ⟨?_, rfl⟩
    have hv := verify_buf _ _ hv
    simp only [bufVerify, Bool.decide_and, Bool.and_eq_true, decide_eq_true_eq] at hv
    simp only [PBuf.init, Cfg.bufCfg]; omega
  · simp at h0

/-- a wrapper around a new parser satisfies the invariant of the Wrap theorems
    (`ShrinkSize < BufferSize` is what `Verify` guarantees) -/
theorem newParser_winv (k : Kind) (raw : Cfg) (s0 : Parser) (h0 : newParser k raw = some s0)
    (r0 : Reader) : WInv I_all ⟨r0, s0⟩ [] := by
  obtain ⟨h1, h2⟩ := newParser_bufcfg k raw s0 h0
  refine ⟨newParser_I_all k raw s0 h0, ?_, h1⟩
  show PInv s0.buf []
  rw [h2]; exact pinv_init _

theorem WInv.stepW {wp : Wrapped} {fed : List Byte} (h : WInv I_all wp fed) (op : WOp) :
    ∃ fed', WInv I_all (wp.stepW op).1 fed' := by
  cases op with
  | parse f =>
    obtain ⟨q, hq, -⟩ := C08_wrap_step_all wp f fed h
    exact ⟨_, hq⟩
  | reset r => exact ⟨[], h.reset r⟩

theorem WInv.runW (ops : List WOp) : ∀ {wp : Wrapped} {fed : List Byte}, WInv I_all wp fed →
    ∃ fed', WInv I_all (wp.runW ops).1 fed' := by
  induction ops with
  | nil => intro wp fed h; exact ⟨fed, h⟩
  | cons op ops ih =>
    intro wp fed h
    obtain ⟨fed1, h1⟩ := h.stepW op
    exact ih h1

/-- **The invariant of the Wrap theorems holds in every reachable wrapped state**, for every kind:
    after any sequence of wrapped calls on a wrapper around a new parser, `WInv I_all` holds (for
    the bytes `fed` read since the last `Reset`), so `C08_wrap_step_all` … apply. -/
theorem C08_reachable_winv (k : Kind) (raw : Cfg) (s0 : Parser) (h0 : newParser k raw = some s0)
    (r0 : Reader) (ops : List WOp) :
    ∃ fed, WInv I_all (Wrapped.runW ⟨r0, s0⟩ ops).1 fed :=
  (newParser_winv k raw s0 h0 r0).runW ops

/-- … hence no call of any wrapped history panics or returns `ErrFullBuffer`/`ErrEmptyBuffer` -/
theorem C08_reachable_no_panic (k : Kind) (raw : Cfg) (s0 : Parser) (h0 : newParser k raw = some s0)
    (r0 : Reader) (ops : List WOp) (flags : Nat) :
    let wp := (Wrapped.runW ⟨r0, s0⟩ ops).1
    (wp.parse flags).2.2.1 ≠ .panic ∧ (wp.parse flags).2.2.1 ≠ .full ∧
    (wp.parse flags).2.2.1 ≠ .empty := by
  intro wp
  obtain ⟨fed, h⟩ := C08_reachable_winv k raw s0 h0 r0 ops
  exact C08_wrap_no_panic_all wp flags fed h

/-! ## C08, headline 1: the results do not depend on how the readers chunk -/

theorem Parser.reset_sim {a b : Parser} (h : Parser.Sim a b) :
    Parser.Sim (a.reset [] 0).1 (b.reset [] 0).1 := by
  obtain ⟨h1, h2, h3, h4, h5, h6, h7⟩ := h
  rw [Parser.reset_nil, Parser.reset_nil]
  refine ⟨h1, h2, ?_, rfl, rfl, rfl, h7⟩
  show a.clearDict = b.clearDict
  unfold Parser.clearDict; rw [h3]

/-- the same call; for `Reset` the two reader scripts are error free (`FillR`) and carry the same
    payload, chunked in any way (short reads, single bytes, all at once) -/
def WOp.Sim : WOp → WOp → Prop
  | .parse f, .parse f' => f = f'
  | .reset r, .reset r' => r.payload = r'.payload ∧ FillR r ∧ FillR r'
  | _, _ => False

/-- two histories of the same calls -/
def OpsSim : List WOp → List WOp → Prop
  | [], [] => True
  | a :: as, b :: bs => a.Sim b ∧ OpsSim as bs
  | _, _ => False

theorem Wrapped.stepW_chunking {wa wb : Wrapped} {fa fb : List Byte} (ha : WInv I_all wa fa)
    (hb : WInv I_all wb fb) (hs : WSim wa wb) {a b : WOp} (hab : a.Sim b) :
    (wa.stepW a).2 = (wb.stepW b).2 ∧ WSim (wa.stepW a).1 (wb.stepW b).1 := by
  cases a with
  | parse f =>
    cases b with
    | parse f' =>
      have : f = f' := hab
      subst this
      exact C08_wrap_chunking_all wa wb f fa fb ha hb hs
    | reset r' => exact absurd hab (by simp [WOp.Sim])
  | reset r =>
    cases b with
    | parse f' => exact absurd hab (by simp [WOp.Sim])
    | reset r' =>
      obtain ⟨h1, h2, h3⟩ : r.payload = r'.payload ∧ FillR r ∧ FillR r' := hab
      show ((wa.reset r).1, 0, (wa.reset r).2, (⟨[], []⟩ : Block)).2 =
          ((wb.reset r').1, 0, (wb.reset r').2, (⟨[], []⟩ : Block)).2 ∧
        WSim (wa.reset r).1 (wb.reset r').1
      rw [Wrapped.reset_eq, Wrapped.reset_eq]
      exact ⟨rfl, Parser.reset_sim hs.sim, h1, h2, h3⟩

/-- chunking independence for histories from any two related states -/
theorem Wrapped.runW_chunking : ∀ (opsA opsB : List WOp) {wa wb : Wrapped} {fa fb : List Byte},
    WInv I_all wa fa → WInv I_all wb fb → WSim wa wb → OpsSim opsA opsB →
    (wa.runW opsA).2 = (wb.runW opsB).2 ∧ WSim (wa.runW opsA).1 (wb.runW opsB).1 := by
  intro opsA
  induction opsA with
  | nil =>
    intro opsB wa wb fa fb ha hb hs ho
    cases opsB with
    | nil => exact ⟨rfl, hs⟩
    | cons b bs => exact absurd ho (by simp [OpsSim])
  | cons a as ih =>
    intro opsB wa wb fa fb ha hb hs ho
    cases opsB with
    | nil => exact absurd ho (by simp [OpsSim])
    | cons b bs =>
      obtain ⟨hab, hrest⟩ : a.Sim b ∧ OpsSim as bs := ho
      obtain ⟨e1, s1⟩ := Wrapped.stepW_chunking ha hb hs hab
      obtain ⟨fa', ha'⟩ := ha.stepW a
      obtain ⟨fb', hb'⟩ := hb.stepW b
      obtain ⟨e2, s2⟩ := ih bs ha' hb' s1 hrest
      simp only [Wrapped.runW]
      exact ⟨by rw [e1, e2], s2⟩

/-- **C08, chunking independence over histories (all seven kinds).**  Two wrappers around the
    same new parser, whose readers are error free and carry the same payload but chunk it in
    any two ways (short reads, single bytes, everything at once — `FillR`), run through the same
    calls (`Parse` with the same flags; `Reset` with readers that again carry equal payloads,
    chunked arbitrarily): the two sequences of results `(n, err, block)` are identical. -/
theorem C08_chunking_independent (k : Kind) (raw : Cfg) (s0 : Parser)
    (h0 : newParser k raw = some s0) (ra rb : Reader) (hp : ra.payload = rb.payload)
    (hfa : FillR ra) (hfb : FillR rb) (opsA opsB : List WOp) (ho : OpsSim opsA opsB) :
    (Wrapped.runW ⟨ra, s0⟩ opsA).2 = (Wrapped.runW ⟨rb, s0⟩ opsB).2 :=
  (Wrapped.runW_chunking opsA opsB (newParser_winv k raw s0 h0 ra) (newParser_winv k raw s0 h0 rb)
    ⟨⟨rfl, rfl, rfl, rfl, rfl, rfl, rfl⟩, hp, hfa, hfb⟩ ho).1

/-! ## the structure of one wrapped `Parse` call -/

/-- the call delivers a block at once when unparsed data are buffered -/
theorem Wrapped.parse_block (wp : Wrapped) (flags : Nat) (fed : List Byte)
    (hinv : WInv I_all wp fed) (hlt : wp.s.buf.w < wp.s.buf.data.length) :
    wp.parse flags = ({ wp with s := (wp.s.parse flags).1 }, (wp.s.parse flags).2) ∧
    (wp.s.parse flags).2.2.1 = .ok ∧ 1 ≤ (wp.s.parse flags).2.1 := by
  have hb : BufOK wp.s.buf := bufOK_of_pinv hinv.view
  rcases Parser.parse_cases parseSpec_all wp.s flags hinv.inv hb with
    ⟨hw, -⟩ | ⟨-, hok, hn1, -⟩
  · omega
  · refine ⟨?_, hok, hn1⟩
    rw [Wrapped.parse_eq, if_pos (by rw [hok]; simp)]

/-- the refill step (`Shrink`, `ReadFrom`) of a call on a completely parsed buffer -/
theorem Wrapped.parse_refill_all (wp : Wrapped) (flags : Nat) (fed : List Byte)
    (hinv : WInv I_all wp fed) (hw : wp.s.buf.w = wp.s.buf.data.length) :
    let rf := wp.s.shrink.1.readFrom wp.r
    WInv I_all ⟨rf.2.1, rf.1⟩ (fed ++ wp.r.payload.take rf.2.2.1) ∧
    rf.2.1.payload = wp.r.payload.drop rf.2.2.1 ∧
    wp.s.parse flags = (wp.s, 0, .empty, ⟨[], []⟩) ∧
    rf.2.2.2 ≠ .ok ∧
    (FillR wp.r → FillR rf.2.1 ∧ (rf.2.2.1 = 0 → rf.2.2.2 = .eof ∧ rf.2.1.payload = [])) ∧
    (rf.2.2.1 = 0 → wp.parse flags = (⟨rf.2.1, rf.1⟩, 0, rf.2.2.2, ⟨[], []⟩)) ∧
    (rf.2.2.1 ≠ 0 → rf.2.1.resps.length < wp.r.resps.length ∧
      wp.parse flags = Wrapped.parse ⟨rf.2.1, rf.1⟩ flags) := by
  intro rf
  obtain ⟨a1, a2, a3, a4⟩ := Wrapped.parse_refill parseSpec_all wp flags fed hinv hw
  have hpe := Parser.parse_of_blockN_zero wp.s flags (Parser.blockN_zero_of_w wp.s (by omega))
  obtain ⟨hrb, hrr⟩ := Parser.readFrom_buf wp.s.shrink.1 wp.r
  rw [Parser.shrink_buf] at hrb hrr
  have hr : wp.s.buf.shrink.1.readFrom wp.r = (rf.1.buf, rf.2.1, rf.2.2.1, rf.2.2.2) := by
    rw [hrb, hrr]
  obtain ⟨f1, f2, f3, f4, f5, f6, f7, f8, f9, f10, f11⟩ :=
    PBuf.refill_spec hinv.view hw hinv.cfg wp.r hr
  have hps := pinv_shrink hinv.view
  obtain ⟨-, -, c3, -⟩ := C15_readFrom hps wp.r hr
  refine ⟨a1, c3, hpe, f7, ?_, a3, fun hk => ⟨f9 hk, a4 hk⟩⟩
  intro hf
  have hf' := fillR_readFrom hps.len_le hf hr
  refine ⟨hf', fun hk => ?_⟩
  obtain ⟨s1, s2, s3⟩ := readFrom_stop_of_fillScript hps.len_le (hf.fillScript _) hr
  have hnf : rf.2.2.2 ≠ .full := fun h => f6 ⟨hk, h⟩
  rcases s1 with s1 | s1
  · exact absurd s1 hnf
  · rcases s2 with s2 | s2
    · exact absurd s2 hnf
    · exact ⟨s2, s1⟩

/-- induction over the refills of a wrapped call -/
theorem Wrapped.refill_induct (M : Wrapped → List Byte → Prop)
    (hblock : ∀ wp fed, WInv I_all wp fed → wp.s.buf.w < wp.s.buf.data.length → M wp fed)
    (hstop : ∀ wp fed, WInv I_all wp fed → wp.s.buf.w = wp.s.buf.data.length →
      (wp.s.shrink.1.readFrom wp.r).2.2.1 = 0 → M wp fed)
    (hretry : ∀ wp fed, WInv I_all wp fed → wp.s.buf.w = wp.s.buf.data.length →
      (wp.s.shrink.1.readFrom wp.r).2.2.1 ≠ 0 →
      M ⟨(wp.s.shrink.1.readFrom wp.r).2.1, (wp.s.shrink.1.readFrom wp.r).1⟩
        (fed ++ wp.r.payload.take (wp.s.shrink.1.readFrom wp.r).2.2.1) → M wp fed) :
    ∀ (wp : Wrapped) (fed : List Byte), WInv I_all wp fed → M wp fed := by
  have key : ∀ (n : Nat) (wp : Wrapped) (fed : List Byte), wp.r.resps.length = n →
      WInv I_all wp fed → M wp fed := by
    intro n
    induction n using Nat.strongRecOn with
    | ind n ih =>
      intro wp fed hn hinv
      by_cases hlt : wp.s.buf.w < wp.s.buf.data.length
      · exact hblock wp fed hinv hlt
      · have hw : wp.s.buf.w = wp.s.buf.data.length := by
          have := hinv.view.w_le; omega
        obtain ⟨a1, -, -, -, -, -, a7⟩ := Wrapped.parse_refill_all wp 0 fed hinv hw
        by_cases hk : (wp.s.shrink.1.readFrom wp.r).2.2.1 = 0
        · exact hstop wp fed hinv hw hk
        · exact hretry wp fed hinv hw hk
            (ih _ (by rw [← hn]; exact (a7 hk).1) _ _ rfl a1)
  intro wp fed h
  exact key _ wp fed rfl h

/-- an error-free reader stays error free, and with it the only error of a call is `io.EOF`,
    returned when the payload is exhausted -/
theorem Wrapped.parse_fill (flags : Nat) : ∀ (wp : Wrapped) (fed : List Byte), WInv I_all wp fed →
    FillR wp.r → FillR (wp.parse flags).1.r ∧
      ((wp.parse flags).2.2.1 ≠ .ok →
        (wp.parse flags).2.2.1 = .eof ∧ (wp.parse flags).1.r.payload = []) := by
  apply Wrapped.refill_induct
  · intro wp fed hinv hlt hf
    obtain ⟨h1, h2, -⟩ := Wrapped.parse_block wp flags fed hinv hlt
    rw [h1]
    exact ⟨hf, fun h => absurd h2 h⟩
  · intro wp fed hinv hw hk hf
    obtain ⟨-, -, -, -, a5, a6, -⟩ := Wrapped.parse_refill_all wp flags fed hinv hw
    rw [a6 hk]
    exact ⟨(a5 hf).1, fun _ => (a5 hf).2 hk⟩
  · intro wp fed hinv hw hk ih hf
    obtain ⟨-, -, -, -, a5, -, a7⟩ := Wrapped.parse_refill_all wp flags fed hinv hw
    rw [(a7 hk).2]
    exact ih (a5 hf).1

/-! ## a wrapped call is a finite sequence of parser operations -/

/-- the parser operations one call of `WrappedParser.Parse` performs: `Parse`, and as long as that
    returns `ErrEmptyBuffer`: `Shrink`, `ReadFrom(r)`, `Parse` again … (same recursion as
    `Wrapped.parse`) -/
def Wrapped.parseOps (wp : Wrapped) (flags : Nat) : List POp :=
  if (wp.s.parse flags).2.2.1 ≠ .empty then [.parse flags]
  else
    if ((wp.s.parse flags).1.shrink.1.readFrom wp.r).2.2.1 = 0 then
      [.parse flags, .shrink, .readFrom wp.r]
    else if _h : ((wp.s.parse flags).1.shrink.1.readFrom wp.r).2.1.resps.length
        < wp.r.resps.length then
      [.parse flags, .shrink, .readFrom wp.r] ++
        Wrapped.parseOps ⟨((wp.s.parse flags).1.shrink.1.readFrom wp.r).2.1,
          ((wp.s.parse flags).1.shrink.1.readFrom wp.r).1⟩ flags
    else [.parse flags, .shrink, .readFrom wp.r]
termination_by wp.r.resps.length

theorem Wrapped.parseOps_block (wp : Wrapped) (flags : Nat)
    (h : (wp.s.parse flags).2.2.1 ≠ .empty) : wp.parseOps flags = [.parse flags] := by
  rw [Wrapped.parseOps, if_pos h]

theorem Wrapped.parseOps_stop (wp : Wrapped) (flags : Nat)
    (hpe : wp.s.parse flags = (wp.s, 0, .empty, ⟨[], []⟩))
    (hk : (wp.s.shrink.1.readFrom wp.r).2.2.1 = 0) :
    wp.parseOps flags = [.parse flags, .shrink, .readFrom wp.r] := by
  rw [Wrapped.parseOps]
  simp only [hpe, ne_eq, not_true_eq_false, if_false, hk, if_true]

theorem Wrapped.parseOps_retry (wp : Wrapped) (flags : Nat)
    (hpe : wp.s.parse flags = (wp.s, 0, .empty, ⟨[], []⟩))
    (hk : (wp.s.shrink.1.readFrom wp.r).2.2.1 ≠ 0)
    (hlt : (wp.s.shrink.1.readFrom wp.r).2.1.resps.length < wp.r.resps.length) :
    wp.parseOps flags = [.parse flags, .shrink, .readFrom wp.r] ++
      Wrapped.parseOps ⟨(wp.s.shrink.1.readFrom wp.r).2.1, (wp.s.shrink.1.readFrom wp.r).1⟩ flags := by
  rw [Wrapped.parseOps]
  simp only [hpe, ne_eq, not_true_eq_false, if_false, hk, hlt, dite_true]

theorem runOps_append (sg : Parser × Ghost) (a b : List POp) :
    runOps sg (a ++ b) = runOps (runOps sg a) b := by
  simp [runOps, List.foldl_append]

/-- the three operations of a refill on a completely parsed buffer, with the ghost bookkeeping of
    the parser histories -/
theorem Wrapped.runOps_refill (wp : Wrapped) (flags : Nat) (g : Ghost)
    (hpe : wp.s.parse flags = (wp.s, 0, .empty, ⟨[], []⟩)) :
    runOps (wp.s, g) [.parse flags, .shrink, .readFrom wp.r] =
      ((wp.s.shrink.1.readFrom wp.r).1,
       { g with fed := g.fed ++ wp.r.payload.take (wp.s.shrink.1.readFrom wp.r).2.2.1 }) := by
  simp [runOps, step, hpe]

/-- **Projection of one wrapped call.**  Running the parser operations `wp.parseOps flags` with
    the ghost bookkeeping of the parser histories (ParseHist.lean) ends in the parser of
    `wp.parse flags`, and the ghost state changes as the results of the wrapped call say:
    `fed` gains exactly the bytes `q` the reader lost, `consumed` gains `n`, the log gains the
    block iff the call returned `nil`. -/
theorem Wrapped.parse_project (flags : Nat) : ∀ (wp : Wrapped) (fed : List Byte),
    WInv I_all wp fed → ∀ g : Ghost,
      ∃ q, wp.r.payload = q ++ (wp.parse flags).1.r.payload ∧
        runOps (wp.s, g) (wp.parseOps flags) =
          ((wp.parse flags).1.s,
           { fed := g.fed ++ q, consumed := g.consumed + (wp.parse flags).2.1,
             log := if (wp.parse flags).2.2.1 = .ok then
               g.log ++ [.block (wp.parse flags).2.1 flags (wp.parse flags).2.2.2] else g.log }) := by
  apply Wrapped.refill_induct
  · intro wp fed hinv hlt g
    obtain ⟨h1, h2, -⟩ := Wrapped.parse_block wp flags fed hinv hlt
    rw [Wrapped.parseOps_block wp flags (by rw [h2]; simp), h1]
    refine ⟨[], by simp, ?_⟩
    simp [runOps, step, h2]
  · intro wp fed hinv hw hk g
    obtain ⟨-, a2, a3, a4, -, a6, -⟩ := Wrapped.parse_refill_all wp flags fed hinv hw
    rw [Wrapped.parseOps_stop wp flags a3 hk, a6 hk, Wrapped.runOps_refill wp flags g a3]
    refine ⟨wp.r.payload.take (wp.s.shrink.1.readFrom wp.r).2.2.1, ?_, ?_⟩
    · simp only []; rw [a2, List.take_append_drop]
    · simp only [a4, if_false, Nat.add_zero]
  · intro wp fed hinv hw hk ih g
    obtain ⟨-, a2, a3, -, -, -, a7⟩ := Wrapped.parse_refill_all wp flags fed hinv hw
    rw [Wrapped.parseOps_retry wp flags a3 hk (a7 hk).1, (a7 hk).2, runOps_append,
      Wrapped.runOps_refill wp flags g a3]
    obtain ⟨q3, e1, e2⟩ := ih
      { g with fed := g.fed ++ wp.r.payload.take (wp.s.shrink.1.readFrom wp.r).2.2.1 }
    refine ⟨wp.r.payload.take (wp.s.shrink.1.readFrom wp.r).2.2.1 ++ q3, ?_, ?_⟩
    · simp only [] at e1
      rw [List.append_assoc, ← e1, a2, List.take_append_drop]
    · rw [e2]; simp only [List.append_assoc]

/-! ## wrapped histories with ghost state, and their projection to parser histories -/

/-- One wrapped call with ghost bookkeeping done at the level of the wrapper, from what a caller
    can observe (`Ghost` of ParseHist.lean): `fed` = the bytes the current reader has handed out
    (what its payload lost), `consumed` = sum of the returned `n`, `log` = the blocks returned
    with `nil`, all since the last `Reset`. -/
def Wrapped.stepG (wg : Wrapped × Ghost) : WOp → Wrapped × Ghost
  | .parse f =>
    ((wg.1.parse f).1,
     { fed := wg.2.fed ++
         wg.1.r.payload.take (wg.1.r.payload.length - (wg.1.parse f).1.r.payload.length),
       consumed := wg.2.consumed + (wg.1.parse f).2.1,
       log := if (wg.1.parse f).2.2.1 = .ok then
           wg.2.log ++ [.block (wg.1.parse f).2.1 f (wg.1.parse f).2.2.2]
         else wg.2.log })
  | .reset r => ((wg.1.reset r).1, Ghost.init)

def Wrapped.runG (wg : Wrapped × Ghost) (ops : List WOp) : Wrapped × Ghost :=
  ops.foldl Wrapped.stepG wg

theorem Wrapped.runG_cons (wg : Wrapped × Ghost) (op : WOp) (ops : List WOp) :
    Wrapped.runG wg (op :: ops) = Wrapped.runG (Wrapped.stepG wg op) ops := rfl

theorem Wrapped.runG_append (wg : Wrapped × Ghost) (a b : List WOp) :
    Wrapped.runG wg (a ++ b) = Wrapped.runG (Wrapped.runG wg a) b := by
  simp [Wrapped.runG, List.foldl_append]

theorem Wrapped.stepG_fst (wg : Wrapped × Ghost) (op : WOp) :
    (Wrapped.stepG wg op).1 = (wg.1.stepW op).1 := by
  cases op <;> rfl

/-- the ghost bookkeeping does not influence the run -/
theorem Wrapped.runG_fst (ops : List WOp) : ∀ (wg : Wrapped × Ghost),
    (Wrapped.runG wg ops).1 = (wg.1.runW ops).1 := by
  induction ops with
  | nil => intro wg; rfl
  | cons op ops ih =>
    intro wg
    rw [Wrapped.runG_cons, ih, Wrapped.stepG_fst]
    rfl

/-- the parser operations of a wrapped history -/
def Wrapped.project : Wrapped → List WOp → List POp
  | _, [] => []
  | wp, .parse f :: ops => wp.parseOps f ++ Wrapped.project (wp.parse f).1 ops
  | wp, .reset r :: ops => POp.reset [] 0 :: Wrapped.project (wp.reset r).1 ops

theorem take_of_append_eq {l q t : List Byte} (h : l = q ++ t) :
    l.take (l.length - t.length) = q := by
  subst h; simp

/-- **Projection lemma.**  A wrapped history is a parser history: running the parser operations
    `wp.project ops` from the wrapped parser's state, with the ghost bookkeeping of the parser
    histories, gives the parser state AND the ghost state of the wrapped run. -/
theorem Wrapped.project_runG (ops : List WOp) : ∀ (wp : Wrapped) (g : Ghost) (fed : List Byte),
    WInv I_all wp fed →
    runOps (wp.s, g) (wp.project ops) =
      ((Wrapped.runG (wp, g) ops).1.s, (Wrapped.runG (wp, g) ops).2) := by
  induction ops with
  | nil => intro wp g fed _; rfl
  | cons op ops ih =>
    intro wp g fed hinv
    cases op with
    | parse f =>
      obtain ⟨q, e1, e2⟩ := Wrapped.parse_project f wp fed hinv g
      obtain ⟨q', w1, -⟩ := C08_wrap_step_all wp f fed hinv
      simp only [Wrapped.project, Wrapped.runG_cons, Wrapped.stepG]
      rw [runOps_append, e2, take_of_append_eq e1]
      exact ih _ _ _ w1
    | reset r =>
      have hr := hinv.reset r
      simp only [Wrapped.project, Wrapped.runG_cons, Wrapped.stepG]
      rw [← ih (wp.reset r).1 Ghost.init [] hr]
      show runOps (step (wp.s, g) (.reset [] 0)) _ = _
      rw [Wrapped.reset_eq]
      simp [step, Parser.reset_nil, Ghost.init]

/-- the static side conditions of the parser histories hold for every kind (for OSAP through
    `computeEdgesSound_holds`) -/
theorem static_all (k : Kind) (c : Cfg) (bc : BufCfg) (hmm : 1 ≤ mmOf k c) (hbs : 1 ≤ bc.blockSize) :
    Static k c bc :=
  ⟨hmm, hbs, fun _ => computeEdgesSound_holds _ _ _⟩

/-- the payload of the reader installed last (by `Reset`, or the initial reader) -/
def curSrc : List Byte → List WOp → List Byte
  | src, [] => src
  | src, .parse _ :: ops => curSrc src ops
  | _, .reset r :: ops => curSrc r.payload ops

/-- Invariant of a wrapped history with ghost state: the invariant of the Wrap theorems for the
    ghost stream, the invariant of the parser histories (ParseHist.lean: C01, C02, C03 for the
    log), and `fed ++ (what the reader still holds) = src`, the payload of the current reader. -/
structure HInv (k : Kind) (c : Cfg) (bc : BufCfg) (src : List Byte) (wg : Wrapped × Ghost) :
    Prop where
  winv : WInv I_all wg.1 wg.2.fed
  inv : Inv k c bc (wg.1.s, wg.2)
  src : wg.2.fed ++ wg.1.r.payload = src

theorem HInv.parse {k : Kind} {c : Cfg} {bc : BufCfg} {src : List Byte} {wg : Wrapped × Ghost}
    (hS : Static k c bc) (h : HInv k c bc src wg) (f : Nat) :
    HInv k c bc src (Wrapped.stepG wg (.parse f)) := by
  obtain ⟨wp, g⟩ := wg
  obtain ⟨q, e1, e2⟩ := Wrapped.parse_project f wp g.fed h.winv g
  obtain ⟨q', w1, w2, -⟩ := C08_wrap_step_all wp f g.fed h.winv
  have hq : q' = q := List.append_cancel_right (w2.symm.trans e1)
  have ht := take_of_append_eq e1
  have hi := runOps_inv hS (wp.parseOps f) (wp.s, g) h.inv
  rw [e2] at hi
  have hsrc := h.src
  simp only [] at hsrc
  refine ⟨?_, ?_, ?_⟩
  · simp only [Wrapped.stepG]; rw [ht, ← hq]; exact w1
  · simp only [Wrapped.stepG]; rw [ht]; exact hi
  · simp only [Wrapped.stepG]; rw [ht, List.append_assoc, ← e1]; exact hsrc

theorem HInv.reset {k : Kind} {c : Cfg} {bc : BufCfg} {src : List Byte} {wg : Wrapped × Ghost}
    (h : HInv k c bc src wg) (r : Reader) :
    HInv k c bc r.payload (Wrapped.stepG wg (.reset r)) := by
  obtain ⟨wp, g⟩ := wg
  refine ⟨h.winv.reset r, ?_, ?_⟩
  · have := step_reset h.inv [] 0
    simp only [Wrapped.stepG, Wrapped.reset_eq]
    simpa [step, Parser.reset_nil, Ghost.init] using this
  · simp [Wrapped.stepG, Wrapped.reset_eq, Ghost.init]

theorem HInv.stepG {k : Kind} {c : Cfg} {bc : BufCfg} {src : List Byte} {wg : Wrapped × Ghost}
    (hS : Static k c bc) (h : HInv k c bc src wg) (op : WOp) :
    HInv k c bc (curSrc src [op]) (Wrapped.stepG wg op) := by
  cases op with
  | parse f => exact h.parse hS f
  | reset r => exact h.reset r

theorem HInv.runG {k : Kind} {c : Cfg} {bc : BufCfg} (hS : Static k c bc) (ops : List WOp) :
    ∀ {src : List Byte} {wg : Wrapped × Ghost}, HInv k c bc src wg →
      HInv k c bc (curSrc src ops) (Wrapped.runG wg ops) := by
  induction ops with
  | nil => intro src wg h; exact h
  | cons op ops ih =>
    intro src wg h
    rw [Wrapped.runG_cons]
    cases op with
    | parse f => exact ih (h.parse hS f)
    | reset r => exact ih (h.reset r)

/-- what the invariant says about the blocks delivered so far: they expand (reference decoder
    `decode` of ParseHist.lean) to the first `consumed` bytes of the current reader's payload;
    `consumed` is the sum of the returned `n`, the absolute parse position, and at most the
    number of bytes the reader has handed out -/
theorem HInv.facts {k : Kind} {c : Cfg} {bc : BufCfg} {src : List Byte} {wg : Wrapped × Ghost}
    (h : HInv k c bc src wg) :
    wg.2.consumed = wg.1.pos ∧ wg.2.consumed = logSpan wg.2.log ∧
    wg.2.consumed ≤ wg.2.fed.length ∧
    decode [] wg.2.log = some (wg.2.fed.take wg.2.consumed) ∧
    decode [] wg.2.log = some (src.take wg.2.consumed) ∧
    wg.2.fed = src.take (src.length - wg.1.r.payload.length) := by
  have h1 : wg.2.consumed = wg.1.pos := h.inv.consumed
  have h2 := h.inv.span
  simp only [] at h2
  have h3 : wg.2.consumed ≤ wg.2.fed.length := by
    have a := h.winv.view.fed_length
    have b := h.winv.view.w_le
    simp only [Wrapped.pos] at h1
    omega
  have h4 : decode [] wg.2.log = some (wg.2.fed.take wg.2.consumed) := by
    have := decode_of_logAll wg.2.fed _ _ _ wg.2.log 0 (Nat.zero_le _) h.inv.log
    rw [h2] at this
    simpa using this
  refine ⟨h1, h2.symm, h3, h4, ?_, ?_⟩
  · rw [h4, ← h.src, List.take_append_of_le_length h3]
  · exact (take_of_append_eq h.src.symm).symm

theorem HInv.init (k : Kind) (raw : Cfg) (s0 : Parser) (h0 : newParser k raw = some s0)
    (r0 : Reader) :
    Static k s0.cfg s0.buf.cfg ∧
    HInv k s0.cfg s0.buf.cfg r0.payload (⟨r0, s0⟩, Ghost.init) := by
  obtain ⟨hi, hmm, hbs⟩ := newParser_inv k raw s0 h0
  exact ⟨static_all _ _ _ hmm hbs, newParser_winv k raw s0 h0 r0, hi, rfl⟩

/-- **C08 over histories (all kinds): the ghost invariant.**  After any wrapped history `ops` from
    a wrapper around a new parser: `HInv` holds for the ghost state kept from the caller's
    observations; the blocks returned since the last `Reset` expand to the first `consumed` bytes
    of the payload `src` of the current reader, where `consumed` = sum of the returned `n`; the
    bytes handed out by the reader are `fed`, and `fed ++ (rest held by the reader) = src`
    (nothing lost, nothing duplicated). -/
theorem C08_history (k : Kind) (raw : Cfg) (s0 : Parser) (h0 : newParser k raw = some s0)
    (r0 : Reader) (ops : List WOp) :
    let wg := Wrapped.runG (⟨r0, s0⟩, Ghost.init) ops
    let src := curSrc r0.payload ops
    HInv k s0.cfg s0.buf.cfg src wg ∧
    wg.1 = (Wrapped.runW ⟨r0, s0⟩ ops).1 ∧
    wg.2.consumed = wg.1.pos ∧ wg.2.consumed = logSpan wg.2.log ∧
    wg.2.consumed ≤ wg.2.fed.length ∧
    decode [] wg.2.log = some (src.take wg.2.consumed) ∧
    wg.2.fed ++ wg.1.r.payload = src := by
  intro wg src
  obtain ⟨hS, hI⟩ := HInv.init k raw s0 h0 r0
  have h := HInv.runG hS ops hI
  obtain ⟨f1, f2, f3, -, f5, -⟩ := h.facts
  exact ⟨h, Wrapped.runG_fst ops _, f1, f2, f3, f5, h.src⟩

/-- the wrapped history IS the parser history `project ops` of ParseHist.lean (same parser, same
    ghost state), so every history theorem about `runOps` (C01, C02, C03, …) speaks about it -/
theorem C08_history_projects (k : Kind) (raw : Cfg) (s0 : Parser) (h0 : newParser k raw = some s0)
    (r0 : Reader) (ops : List WOp) :
    runOps (s0, Ghost.init) (Wrapped.project ⟨r0, s0⟩ ops) =
      ((Wrapped.runG (⟨r0, s0⟩, Ghost.init) ops).1.s, (Wrapped.runG (⟨r0, s0⟩, Ghost.init) ops).2) :=
  Wrapped.project_runG ops ⟨r0, s0⟩ Ghost.init [] (newParser_winv k raw s0 h0 r0)

/-! ## C08, headline 2: an error-free reader is delivered completely, then `io.EOF` forever -/

/-- error-free readers stay error free along a history -/
theorem Wrapped.runW_fill (ops : List WOp) : ∀ {wp : Wrapped} {fed : List Byte},
    WInv I_all wp fed → FillR wp.r → (∀ r, WOp.reset r ∈ ops → FillR r) →
    FillR (wp.runW ops).1.r := by
  induction ops with
  | nil => intro wp fed _ hf _; exact hf
  | cons op ops ih =>
    intro wp fed hinv hf hr
    obtain ⟨fed1, h1⟩ := hinv.stepW op
    refine ih h1 ?_ (fun r hm => hr r (List.mem_cons_of_mem _ hm))
    cases op with
    | parse f => exact (Wrapped.parse_fill f wp fed hinv hf).1
    | reset r =>
      show FillR (wp.reset r).1.r
      rw [Wrapped.reset_eq]
      exact hr r List.mem_cons_self

/-- from a drained state (reader done, nothing unparsed) every further call, whatever its flags,
    returns `(0, io.EOF)` -/
theorem Wrapped.drained_forever (fs : List Nat) : ∀ {wp : Wrapped} {fed : List Byte},
    WInv I_all wp fed → Drained wp →
    ∀ o ∈ (wp.runW (fs.map WOp.parse)).2, o.1 = 0 ∧ o.2.1 = .eof := by
  induction fs with
  | nil => intro wp fed _ _ o ho; simp [Wrapped.runW] at ho
  | cons f fs ih =>
    intro wp fed hinv hd o ho
    obtain ⟨g1, g2, g3, g4⟩ := C08_wrap_eof_all wp f fed hinv hd
    simp only [List.map_cons, Wrapped.runW, List.mem_cons] at ho
    rcases ho with ho | ho
    · subst ho; exact ⟨g1, g2⟩
    · exact ih g3 g4 o ho

/-- One call in a state satisfying the history invariant, reader error free: either a block is
    delivered, or `(0, io.EOF)` is returned, and then the blocks delivered since the last `Reset`
    expand to exactly the payload `src` of the reader, the state is drained and the log unchanged. -/
theorem HInv.complete {k : Kind} {c : Cfg} {bc : BufCfg} {src : List Byte} {wg : Wrapped × Ghost}
    (hS : Static k c bc) (h : HInv k c bc src wg) (hf : FillR wg.1.r) (f : Nat) :
    ((wg.1.parse f).2.2.1 = .ok ∧ 1 ≤ (wg.1.parse f).2.1) ∨
    ((wg.1.parse f).2.1 = 0 ∧ (wg.1.parse f).2.2.1 = .eof ∧
      decode [] wg.2.log = some src ∧ Drained (wg.1.parse f).1 ∧
      (Wrapped.stepG wg (.parse f)).2.log = wg.2.log) := by
  obtain ⟨q, -, -, -, -, hc⟩ := C08_wrap_step_all wg.1 f wg.2.fed h.winv
  rcases hc with hc | ⟨c1, -, c3⟩
  · exact Or.inl hc
  · right
    have hne : (wg.1.parse f).2.2.1 ≠ .ok := c3.ne.1
    obtain ⟨hf', hfe⟩ := Wrapped.parse_fill f wg.1 wg.2.fed h.winv hf
    obtain ⟨e1, e2⟩ := hfe hne
    obtain ⟨-, hw, -⟩ := C08_wrap_error_all wg.1 f wg.2.fed h.winv hne
    have h' := h.parse hS f
    have hlog : (Wrapped.stepG wg (.parse f)).2.log = wg.2.log := by
      simp only [Wrapped.stepG, hne, if_false]
    obtain ⟨f1, -, -, f4, -, -⟩ := h'.facts
    have hsrc := h'.src
    have hfl := h'.winv.view.fed_length
    have e3 : (Wrapped.stepG wg (.parse f)).1 = (wg.1.parse f).1 := rfl
    rw [e3] at f1 hsrc hfl
    rw [e2, List.append_nil] at hsrc
    have hcons : (Wrapped.stepG wg (.parse f)).2.consumed =
        (Wrapped.stepG wg (.parse f)).2.fed.length := by
      rw [f1, hfl]; simp only [Wrapped.pos]; omega
    rw [hlog, hcons, List.take_length, hsrc] at f4
    refine ⟨c1, e1, f4, ⟨⟨e2, ?_⟩, hw⟩, hlog⟩
    intro x hx
    have := (hf'.1 x hx).1
    omega

/-- **C08, completeness (all seven kinds).**  Take any wrapped history `ops` all of whose reader
    scripts are error free (`FillR`: no error before the payload is exhausted; chunking
    arbitrary), and any further call `Parse(&blk, f)`.  It returns a block (`nil`, `1 ≤ n`) or
    `(0, io.EOF)`; the blocks returned since the last `Reset` always expand (reference decoder)
    to the first `Σ n` bytes of the payload `src` of the current reader; and when the call
    returns `io.EOF`, they expand to exactly `src`, and every later call `Parse(&blk, f')`, for
    any flags, returns `(0, io.EOF)` again. -/
theorem C08_complete (k : Kind) (raw : Cfg) (s0 : Parser) (h0 : newParser k raw = some s0)
    (r0 : Reader) (hf0 : FillR r0) (ops : List WOp) (hfr : ∀ r, WOp.reset r ∈ ops → FillR r)
    (f : Nat) :
    let wg := Wrapped.runG (⟨r0, s0⟩, Ghost.init) ops
    let src := curSrc r0.payload ops
    let res := (Wrapped.runW ⟨r0, s0⟩ ops).1.parse f
    decode [] wg.2.log = some (src.take wg.2.consumed) ∧
    ((res.2.2.1 = .ok ∧ 1 ≤ res.2.1) ∨
     (res.2.1 = 0 ∧ res.2.2.1 = .eof ∧ decode [] wg.2.log = some src ∧
      ∀ fs : List Nat, ∀ o ∈ (res.1.runW (fs.map WOp.parse)).2, o.1 = 0 ∧ o.2.1 = .eof)) := by
  intro wg src res
  obtain ⟨hS, hI⟩ := HInv.init k raw s0 h0 r0
  have h : HInv k s0.cfg s0.buf.cfg src wg := HInv.runG hS ops hI
  have hfst : wg.1 = (Wrapped.runW ⟨r0, s0⟩ ops).1 := Wrapped.runG_fst ops _
  have hf : FillR wg.1.r := by
    rw [hfst]
    exact Wrapped.runW_fill ops (newParser_winv k raw s0 h0 r0) hf0 hfr
  refine ⟨h.facts.2.2.2.2.1, ?_⟩
  have hres : res = wg.1.parse f := by rw [hfst]
  rw [hres]
  rcases h.complete hS hf f with hc | ⟨c1, c2, c3, c4, -⟩
  · exact Or.inl hc
  · refine Or.inr ⟨c1, c2, c3, fun fs => ?_⟩
    exact Wrapped.drained_forever fs (h.parse hS f).winv c4

theorem not_reset_mem_map_parse (fs : List Nat) (r : Reader) (P : Prop)
    (hm : WOp.reset r ∈ fs.map WOp.parse) : P := by
  rw [List.mem_map] at hm
  obtain ⟨a, -, ha⟩ := hm
  cases ha

theorem curSrc_map_parse (fs : List Nat) : ∀ (src : List Byte), curSrc src (fs.map WOp.parse) = src := by
  induction fs with
  | nil => intro src; rfl
  | cons a as ih => intro src; exact ih src

/-- the events (blocks) of the calls of a reset-free history that returned `nil` -/
def okEvents : List Nat → List WOut → List Event
  | f :: fs, (n, e, blk) :: outs =>
    if e = .ok then .block n f blk :: okEvents fs outs else okEvents fs outs
  | _, _ => []

theorem Wrapped.runG_parse_log (fs : List Nat) : ∀ (wg : Wrapped × Ghost),
    (Wrapped.runG wg (fs.map WOp.parse)).2.log =
      wg.2.log ++ okEvents fs (wg.1.runW (fs.map WOp.parse)).2 ∧
    (Wrapped.runG wg (fs.map WOp.parse)).2.consumed =
      wg.2.consumed + (((wg.1.runW (fs.map WOp.parse)).2).map (·.1)).sum := by
  induction fs with
  | nil => intro wg; simp [Wrapped.runG, Wrapped.runW, okEvents]
  | cons f fs ih =>
    intro wg
    obtain ⟨i1, i2⟩ := ih (Wrapped.stepG wg (.parse f))
    simp only [List.map_cons, Wrapped.runG_cons, Wrapped.runW, List.sum_cons]
    rw [i1, i2]
    constructor
    · by_cases h : (wg.1.parse f).2.2.1 = .ok <;>
        simp [Wrapped.stepG, Wrapped.stepW, okEvents, h]
    · simp only [Wrapped.stepG, Wrapped.stepW]; omega

/-- **C08, completeness, for a history of `Parse` calls only**, stated on the list of results:
    with an error-free reader `r0`, the blocks of the calls that returned `nil` expand to the
    first `Σ n` bytes of `r0.payload`; if the next call returns `io.EOF` they expand to exactly
    `r0.payload`. -/
theorem C08_complete_calls (k : Kind) (raw : Cfg) (s0 : Parser) (h0 : newParser k raw = some s0)
    (r0 : Reader) (hf0 : FillR r0) (fs : List Nat) (f : Nat) :
    let run := Wrapped.runW ⟨r0, s0⟩ (fs.map WOp.parse)
    decode [] (okEvents fs run.2) = some (r0.payload.take ((run.2.map (·.1)).sum)) ∧
    (∀ o ∈ run.2, (o.2.1 = .ok ∧ 1 ≤ o.1) ∨ (o.1 = 0 ∧ o.2.1 = .eof)) ∧
    ((run.1.parse f).2.2.1 = .eof → decode [] (okEvents fs run.2) = some r0.payload) := by
  intro run
  have hsrc := curSrc_map_parse fs
  have hnr : ∀ (fs : List Nat) r, WOp.reset r ∈ fs.map WOp.parse → FillR r :=
    fun fs r hm => not_reset_mem_map_parse fs r _ hm
  obtain ⟨l1', l2'⟩ := Wrapped.runG_parse_log fs (⟨r0, s0⟩, Ghost.init)
  have l1 : (Wrapped.runG (⟨r0, s0⟩, Ghost.init) (fs.map WOp.parse)).2.log = okEvents fs run.2 := by
    simpa [Ghost.init] using l1'
  have l2 : (Wrapped.runG (⟨r0, s0⟩, Ghost.init) (fs.map WOp.parse)).2.consumed =
      (run.2.map (·.1)).sum := by
    simpa [Ghost.init] using l2'
  obtain ⟨c1, c2⟩ := C08_complete k raw s0 h0 r0 hf0 (fs.map WOp.parse) (hnr fs) f
  rw [hsrc, l1, l2] at c1
  rw [hsrc, l1] at c2
  refine ⟨c1, ?_, ?_⟩
  · -- every earlier call: apply the theorem to each prefix
    intro o ho
    have key : ∀ (fs : List Nat) (wp : Wrapped) (fed : List Byte), WInv I_all wp fed → FillR wp.r →
        ∀ o ∈ (wp.runW (fs.map WOp.parse)).2, (o.2.1 = .ok ∧ 1 ≤ o.1) ∨ (o.1 = 0 ∧ o.2.1 = .eof) := by
      intro fs
      induction fs with
      | nil => intro wp fed _ _ o ho; simp [Wrapped.runW] at ho
      | cons a as ih =>
        intro wp fed hinv hf o ho
        obtain ⟨q, w1, -, -, -, hc⟩ := C08_wrap_step_all wp a fed hinv
        obtain ⟨hf', hfe⟩ := Wrapped.parse_fill a wp fed hinv hf
        simp only [List.map_cons, Wrapped.runW, List.mem_cons] at ho
        rcases ho with ho | ho
        · subst ho
          rcases hc with hc | ⟨c1, -, c3⟩
          · exact Or.inl hc
          · exact Or.inr ⟨c1, (hfe c3.ne.1).1⟩
        · exact ih _ _ w1 hf' o ho
    exact key fs _ _ (newParser_winv k raw s0 h0 r0) hf0 o ho
  · intro he
    rcases c2 with ⟨c3, -⟩ | ⟨-, -, c5, -⟩
    · rw [he] at c3; cases c3
    · exact c5

/-! ## C08, headline 3: reader failures -/

theorem decode_append (a b : List Event) : ∀ (out : List Byte),
    decode out (a ++ b) = (decode out a).bind (fun o => decode o b) := by
  induction a with
  | nil => intro out; simp [decode]
  | cons e es ih =>
    intro out
    cases e with
    | block n fl blk =>
      simp only [List.cons_append, decode]
      cases expand out blk with
      | none => rfl
      | some o => exact ih o
    | skip x =>
      simp only [List.cons_append, decode]
      exact ih _

/-- further `Parse` calls only extend the log and the bytes read -/
theorem Wrapped.runG_parse_mono (fs : List Nat) : ∀ (wg : Wrapped × Ghost),
    ∃ evs x, (Wrapped.runG wg (fs.map WOp.parse)).2.log = wg.2.log ++ evs ∧
      (Wrapped.runG wg (fs.map WOp.parse)).2.fed = wg.2.fed ++ x := by
  induction fs with
  | nil => intro wg; exact ⟨[], [], by simp [Wrapped.runG], by simp [Wrapped.runG]⟩
  | cons f fs ih =>
    intro wg
    obtain ⟨evs, x, i1, i2⟩ := ih (Wrapped.stepG wg (.parse f))
    simp only [List.map_cons, Wrapped.runG_cons]
    rw [i1, i2]
    simp only [Wrapped.stepG]
    split
    · exact ⟨Event.block (wg.1.parse f).2.1 f (wg.1.parse f).2.2.2 :: evs, _, by simp,
        by rw [List.append_assoc]⟩
    · exact ⟨evs, _, rfl, by rw [List.append_assoc]⟩

/-- One failing call in a state satisfying the history invariant (`err ≠ nil`: the reader's
    error, or `io.EOF`): `n = 0`; the error is the reader's own report; the log is unchanged and
    ALREADY expands to all bytes `fed'` the reader has handed out (so the error comes only after
    every byte read before the failure has been delivered); `fed' ++ (rest in the reader) = src`.
    Continuing with any further `Parse` calls `more` (the reader goes on with the rest of its
    script): the invariant holds again, the log and the bytes read are only extended, and the new
    blocks `evs` expand, starting from the bytes `fed'` delivered before the failure, to the
    prefix `consumed''` of `src` — nothing lost, nothing duplicated.  If the rest of the reader
    script is error free, the next failing call returns `io.EOF` and by then all of `src` has
    been delivered exactly once. -/
theorem HInv.fault {k : Kind} {c : Cfg} {bc : BufCfg} {src : List Byte} {wg : Wrapped × Ghost}
    (hS : Static k c bc) (h : HInv k c bc src wg) (f : Nat)
    (he : (wg.1.parse f).2.2.1 ≠ .ok) :
    let wg' := Wrapped.stepG wg (.parse f)
    (wg.1.parse f).2.1 = 0 ∧
    ReaderSaid wg.1.r wg'.1.r (wg.1.parse f).2.2.1 ∧
    wg'.2.log = wg.2.log ∧
    wg'.2.fed ++ wg'.1.r.payload = src ∧
    decode [] wg'.2.log = some wg'.2.fed ∧
    ∀ more : List Nat,
      let wg'' := Wrapped.runG wg' (more.map WOp.parse)
      HInv k c bc src wg'' ∧
      ∃ evs x, wg''.2.log = wg'.2.log ++ evs ∧ wg''.2.fed = wg'.2.fed ++ x ∧
        decode wg'.2.fed evs = some (src.take wg''.2.consumed) ∧
        (FillR wg'.1.r → ∀ f2, (wg''.1.parse f2).2.2.1 ≠ .ok →
          (wg''.1.parse f2).2.2.1 = .eof ∧ decode wg'.2.fed evs = some src) := by
  intro wg'
  obtain ⟨c1, hw, c3, -⟩ := C08_wrap_error_all wg.1 f wg.2.fed h.winv he
  have h' : HInv k c bc src wg' := h.parse hS f
  have hlog : wg'.2.log = wg.2.log := by
    simp only [wg', Wrapped.stepG, he, if_false]
  obtain ⟨f1, -, -, f4, -, -⟩ := h'.facts
  have hfl := h'.winv.view.fed_length
  have e3 : wg'.1 = (wg.1.parse f).1 := rfl
  have hcons : wg'.2.consumed = wg'.2.fed.length := by
    rw [f1, hfl, e3]; simp only [Wrapped.pos]; omega
  rw [hcons, List.take_length] at f4
  refine ⟨c1, c3, hlog, h'.src, f4, ?_⟩
  intro more wg''
  have h'' : HInv k c bc src wg'' := by
    have := HInv.runG hS (more.map WOp.parse) h'
    rw [curSrc_map_parse] at this
    exact this
  obtain ⟨evs, x, m1, m2⟩ := Wrapped.runG_parse_mono more wg'
  obtain ⟨-, -, -, -, g5, -⟩ := h''.facts
  have hdec : decode wg'.2.fed evs = some (src.take wg''.2.consumed) := by
    have : decode [] wg''.2.log = some (src.take wg''.2.consumed) := g5
    rw [show wg''.2.log = wg'.2.log ++ evs from m1, decode_append, f4] at this
    exact this
  refine ⟨h'', evs, x, m1, m2, hdec, ?_⟩
  intro hf f2 he2
  have hf'' : FillR wg''.1.r := by
    have : wg''.1 = (wg'.1.runW (more.map WOp.parse)).1 := Wrapped.runG_fst _ _
    rw [this]
    exact Wrapped.runW_fill _ h'.winv hf (fun r hm => not_reset_mem_map_parse more r _ hm)
  rcases h''.complete hS hf'' f2 with ⟨hc, -⟩ | ⟨-, d2, d3, -, -⟩
  · exact absurd hc he2
  · refine ⟨d2, ?_⟩
    rw [show wg''.2.log = wg'.2.log ++ evs from m1, decode_append, f4] at d3
    exact d3

/-- **C08, reader failures (all seven kinds).**  After any wrapped history `ops` (any readers:
    short reads, data together with errors, errors, recovery), if the next call returns the
    reader's error `reader(c)`: see `HInv.fault` — `n = 0`, every byte the reader handed out so
    far is covered by the blocks already delivered, and continuing with the rest of the reader
    script loses and duplicates nothing. -/
theorem C08_fault (k : Kind) (raw : Cfg) (s0 : Parser) (h0 : newParser k raw = some s0)
    (r0 : Reader) (ops : List WOp) (f : Nat) (c : Nat)
    (he : ((Wrapped.runW ⟨r0, s0⟩ ops).1.parse f).2.2.1 = .reader c) :
    let wg := Wrapped.runG (⟨r0, s0⟩, Ghost.init) ops
    let src := curSrc r0.payload ops
    let wg' := Wrapped.stepG wg (.parse f)
    wg.1 = (Wrapped.runW ⟨r0, s0⟩ ops).1 ∧
    (wg.1.parse f).2.1 = 0 ∧
    ReaderSaid wg.1.r wg'.1.r (.reader c) ∧
    wg'.2.log = wg.2.log ∧
    wg'.2.fed ++ wg'.1.r.payload = src ∧
    decode [] wg'.2.log = some wg'.2.fed ∧
    ∀ more : List Nat,
      let wg'' := Wrapped.runG wg' (more.map WOp.parse)
      HInv k s0.cfg s0.buf.cfg src wg'' ∧
      ∃ evs x, wg''.2.log = wg'.2.log ++ evs ∧ wg''.2.fed = wg'.2.fed ++ x ∧
        decode wg'.2.fed evs = some (src.take wg''.2.consumed) ∧
        (FillR wg'.1.r → ∀ f2, (wg''.1.parse f2).2.2.1 ≠ .ok →
          (wg''.1.parse f2).2.2.1 = .eof ∧ decode wg'.2.fed evs = some src) := by
  intro wg src wg'
  obtain ⟨hS, hI⟩ := HInv.init k raw s0 h0 r0
  have h : HInv k s0.cfg s0.buf.cfg src wg := HInv.runG hS ops hI
  have hfst : wg.1 = (Wrapped.runW ⟨r0, s0⟩ ops).1 := Wrapped.runG_fst ops _
  have he' : (wg.1.parse f).2.2.1 = .reader c := by rw [hfst]; exact he
  have hne : (wg.1.parse f).2.2.1 ≠ .ok := by rw [he']; simp
  obtain ⟨a1, a2, a3, a4, a5, a6⟩ := h.fault hS f hne
  rw [he'] at a2
  exact ⟨hfst, a1, a2, a3, a4, a5, a6⟩

end LZ

#print axioms LZ.C08_reachable_winv
#print axioms LZ.C08_reachable_no_panic
#print axioms LZ.C08_chunking_independent
#print axioms LZ.Wrapped.parse_project
#print axioms LZ.Wrapped.project_runG
#print axioms LZ.C08_history
#print axioms LZ.C08_history_projects
#print axioms LZ.C08_complete
#print axioms LZ.C08_complete_calls
#print axioms LZ.HInv.fault
#print axioms LZ.C08_fault
