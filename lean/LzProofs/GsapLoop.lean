/-
  LzProofs.GsapLoop — C12 lifted through the greedy loop: every sequence GSAP emits carries
  the longest previous match at its position, and (buffer ≤ window) every literal position had
  no match of `minMatch` bytes available.
-/
import LzProofs.GsapProps
import LzModel.Parser
namespace LZ.Sap

/-- generic invariant rule for the greedy loop -/
theorem greedyLoop_invariant {δ} (F : Finder δ) (p : List Byte) (stop : Nat) (J : LoopSt δ → Prop)
    (hnone : ∀ (st : LoopSt δ) d, st.i < stop → J st →
      F.probe st.dict p st.i st.litIndex = (d, none) → J { st with dict := d, i := st.i + 1 })
    (hsome : ∀ (st : LoopSt δ) d s k o, st.i < stop → J st →
      F.probe st.dict p st.i st.litIndex = (d, some (s, k, o)) →
      s + k > st.i ∧
      J { dict := d, i := s + k, litIndex := s + k,
          seqs := st.seqs ++ [{ litLen := ((p.drop st.litIndex).take (s - st.litIndex)).length,
                                matchLen := k, offset := o }],
          lits := st.lits ++ (p.drop st.litIndex).take (s - st.litIndex) }) :
    ∀ st : LoopSt δ, J st → J (greedyLoop F p stop st) ∧ ¬ (greedyLoop F p stop st).i < stop := by
  intro st
  induction st using greedyLoop.induct F p stop with
  | case1 st h d hp ih =>
    intro hJ
    rw [greedyLoop]; simp only [h, dite_true]
    split
    · rename_i d2 heq
      rw [hp] at heq
      simp only [Prod.mk.injEq, and_true] at heq
      subst heq
      exact ih (hnone st d h hJ hp)
    · rename_i d2 s2 k2 o2 heq
      rw [hp] at heq; simp at heq
  | case2 st h d s k o hp hk q ih =>
    intro hJ
    rw [greedyLoop]; simp only [h, dite_true]
    split
    · rename_i d2 heq
      rw [hp] at heq; simp at heq
    · rename_i d2 s2 k2 o2 heq
      rw [hp] at heq
      simp only [Prod.mk.injEq, Option.some.injEq] at heq
      obtain ⟨hd, hs, hk2, ho⟩ := heq
      subst hd hs hk2 ho
      simp only [hk, dite_true]
      exact ih (hsome st d s k o h hJ hp).2
  | case3 st h d s k o hp hk =>
    intro hJ
    exact absurd (hsome st d s k o h hJ hp).1 hk
  | case4 st h =>
    intro hJ
    rw [greedyLoop]; simp only [h, dite_false, not_false_eq_true, and_true]; exact hJ

/-! ## the reference: longest previous match -/

/-- `max` over `f < k` of the common prefix of the suffixes of `p` at `f` and `i` -/
def lpmAt (p : List Byte) (i : Nat) : Nat → Nat
  | 0 => 0
  | k + 1 => max (lpmAt p i k) (lcpLen (p.drop k) (p.drop i))

/-- length of the longest match at `i` against any earlier position of `p` (clipped at the end
    of `p`) — the brute-force oracle -/
def lpm (p : List Byte) (i : Nat) : Nat := lpmAt p i i

theorem lpmAt_le_iff (p : List Byte) (i m : Nat) : ∀ k,
    lpmAt p i k ≤ m ↔ ∀ f, f < k → lcpLen (p.drop f) (p.drop i) ≤ m := by
  intro k
  induction k with
  | zero => simp [lpmAt]
  | succ k ih =>
    simp only [lpmAt, Nat.max_le, ih]
    constructor
    · rintro ⟨a, b⟩ f hf
      by_cases h : f = k
      · subst h; exact b
      · exact a f (by omega)
    · intro h; exact ⟨fun f hf => h f (by omega), h k (by omega)⟩

theorem lpmAt_attained (p : List Byte) (i : Nat) : ∀ k,
    lpmAt p i k = 0 ∨ ∃ f, f < k ∧ lpmAt p i k = lcpLen (p.drop f) (p.drop i) := by
  intro k
  induction k with
  | zero => left; rfl
  | succ k ih =>
    simp only [lpmAt]
    by_cases h : lpmAt p i k ≤ lcpLen (p.drop k) (p.drop i)
    · right; exact ⟨k, by omega, by omega⟩
    · rcases ih with h0 | ⟨f, a, b⟩
      · omega
      · right; exact ⟨f, by omega, by omega⟩

/-- characterisation used below: an attained upper bound is the maximum -/
theorem lpm_eq {p : List Byte} {i m f : Nat} (hf : f < i)
    (hm : m = lcpLen (p.drop f) (p.drop i))
    (hup : ∀ f', f' < i → lcpLen (p.drop f') (p.drop i) ≤ m) : lpm p i = m := by
  apply Nat.le_antisymm
  · exact (lpmAt_le_iff p i m i).2 hup
  · rw [hm]; exact (lpmAt_le_iff p i _ i).1 (Nat.le_refl _) f hf

theorem lpm_lt {p : List Byte} {i m : Nat} (hm : 0 < m)
    (hup : ∀ f', f' < i → lcpLen (p.drop f') (p.drop i) < m) : lpm p i < m := by
  rcases lpmAt_attained p i i with h | ⟨f, a, b⟩
  · unfold lpm; omega
  · unfold lpm; rw [b]; exact hup f a

/-! ## what the emitted sequences must satisfy -/

/-- The sequences, read from block position `a`: each match has exactly the longest-previous-
    match length at its position and at least `minMatch` bytes; when `lit` is set, every literal
    position in front of it had no match of `minMatch` bytes.  The match is real: its offset
    points to an earlier buffered position inside the window and the two suffixes share exactly
    `matchLen` bytes (clipped at the block end). -/
def GreedySpec (p : List Byte) (ws minMatch : Nat) (lit : Prop) : Nat → List Seq → Prop
  | _, [] => True
  | a, s :: r =>
    (lit → ∀ q, a ≤ q → q < a + s.litLen → lpm p q < minMatch) ∧
    s.matchLen = lpm p (a + s.litLen) ∧ minMatch ≤ s.matchLen ∧
    (1 ≤ s.offset ∧ s.offset ≤ a + s.litLen ∧ s.offset < ws ∧
      s.matchLen = lcpLen (p.drop (a + s.litLen - s.offset)) (p.drop (a + s.litLen))) ∧
    GreedySpec p ws minMatch lit (a + s.litLen + s.matchLen) r

def endPos : Nat → List Seq → Nat
  | a, [] => a
  | a, s :: r => endPos (a + s.litLen + s.matchLen) r

theorem GreedySpec_snoc (p : List Byte) (ws minMatch : Nat) (lit : Prop) (s : Seq) :
    ∀ (ss : List Seq) (a : Nat), GreedySpec p ws minMatch lit a ss →
      GreedySpec p ws minMatch lit (endPos a ss) [s] → GreedySpec p ws minMatch lit a (ss ++ [s]) := by
  intro ss
  induction ss with
  | nil => intro a _ h; exact h
  | cons x r ih =>
    intro a h1 h2
    obtain ⟨b, c, d, d', e⟩ := h1
    exact ⟨b, c, d, d', ih _ e h2⟩

theorem endPos_snoc (s : Seq) : ∀ (ss : List Seq) (a : Nat),
    endPos a (ss ++ [s]) = endPos a ss + s.litLen + s.matchLen := by
  intro ss
  induction ss with
  | nil => intro a; rfl
  | cons x r ih => intro a; exact ih _

/-! ## the state after a probe -/

theorem bitsOK_after_none {t : List Byte} {sa isa : Array Nat} {bits : Array Bool} {i : Nat}
    (hs : SAOK t sa isa) (hb : BitsOK sa bits t.length i) (hi : i < t.length) :
    BitsOK sa (bits.setIfInBounds (isa.getD i 0) true) t.length (i + 1) := by
  refine ⟨by simp [hb.size], ?_⟩
  intro r
  rw [bits_insert hb hs hi r]
  constructor
  · rintro ⟨a, b⟩; exact ⟨a, by omega⟩
  · rintro ⟨a, b⟩; exact ⟨a, by omega⟩

theorem bitsOK_after_some {t : List Byte} {sa isa : Array Nat} {bits : Array Bool} {i m : Nat}
    (hs : SAOK t sa isa) (hb : BitsOK sa bits t.length i) (hi : i < t.length)
    (hm : 1 ≤ m) (him : i + m ≤ t.length) :
    BitsOK sa (insertRanks isa (bits.setIfInBounds (isa.getD i 0) true) (i + 1) (m - 1)) t.length (i + m) := by
  have h1 := bitsOK_after_none hs hb hi
  refine ⟨by simp [hb.size], ?_⟩
  intro r
  rw [insertRanks_spec, h1.mark, h1.size]
  constructor
  · rintro (⟨a, b⟩ | ⟨a, k, hk, hr⟩)
    · exact ⟨a, by omega⟩
    · refine ⟨a, ?_⟩
      have := (hs.sa_isa (i + 1 + k) (by omega)).2
      rw [hr] at this
      omega
  · rintro ⟨a, b⟩
    by_cases hle : sa.getD r 0 < i + 1
    · exact Or.inl ⟨a, hle⟩
    · right
      refine ⟨a, sa.getD r 0 - (i + 1), by omega, ?_⟩
      have : i + 1 + (sa.getD r 0 - (i + 1)) = sa.getD r 0 := by omega
      rw [this]; exact hs.isa_sa r a

/-! ## the loop -/

section Loop
variable (t : List Byte) (sa isa : Array Nat) (e w ws minMatch : Nat) (lit : Prop)

/-- invariant of the GSAP loop over the block `p = t.take e`, started at `w` -/
structure GInv (st : LoopSt GsapD) : Prop where
  hsa : st.dict.sa = sa
  hisa : st.dict.isa = isa
  bits : BitsOK sa st.dict.bits t.length st.i
  li_le : st.litIndex ≤ st.i
  i_le : st.i ≤ e
  pos : endPos w st.seqs = st.litIndex
  spec : GreedySpec (t.take e) ws minMatch lit w st.seqs
  lits : lit → ∀ q, st.litIndex ≤ q → q < st.i → lpm (t.take e) q < minMatch

theorem gsap_loop (hs : SAOK t sa isa) (he : e ≤ t.length) (hmm : 1 ≤ minMatch)
    (hlit : lit → e ≤ ws) (st : LoopSt GsapD)
    (hJ : GInv t sa isa e w ws minMatch lit st) :
    GInv t sa isa e w ws minMatch lit (greedyLoop ⟨gsapProbe ws minMatch⟩ (t.take e) e st) ∧
    (greedyLoop ⟨gsapProbe ws minMatch⟩ (t.take e) e st).i = e := by
  have key := greedyLoop_invariant ⟨gsapProbe ws minMatch⟩ (t.take e) e
    (GInv t sa isa e w ws minMatch lit) ?_ ?_ st hJ
  · exact ⟨key.1, by have := key.1.i_le; have := key.2; omega⟩
  · -- a literal
    intro st d hi hJ hp
    have hi' : st.i < t.length := by omega
    have hs' : SAOK t st.dict.sa st.dict.isa := by rw [hJ.hsa, hJ.hisa]; exact hs
    have hb' : BitsOK st.dict.sa st.dict.bits t.length st.i := by rw [hJ.hsa]; exact hJ.bits
    have hp2 : (gsapProbe ws minMatch st.dict (t.take e) st.i st.litIndex).2 = none := by
      show ((⟨gsapProbe ws minMatch⟩ : Finder GsapD).probe st.dict (t.take e) st.i st.litIndex).2 = none
      rw [hp]
    have hd : d = { st.dict with bits := st.dict.bits.setIfInBounds (st.dict.isa.getD st.i 0) true } := by
      have h1 : d = (gsapProbe ws minMatch st.dict (t.take e) st.i st.litIndex).1 := by
        show d = ((⟨gsapProbe ws minMatch⟩ : Finder GsapD).probe st.dict (t.take e) st.i st.litIndex).1
        rw [hp]
      rw [h1, gsapProbe_eq]
      simp only
      split
      · rfl
      · split
        · rfl
        · rename_i h2 h3
          rw [gsapProbe_eq] at hp2
          simp only [h2, h3, if_false] at hp2
          cases hp2
    subst hd
    refine ⟨hJ.hsa, hJ.hisa, ?_, ?_, ?_, hJ.pos, hJ.spec, ?_⟩
    · have := bitsOK_after_none hs' hb' hi'
      rw [hJ.hsa] at this; exact this
    · show st.litIndex ≤ st.i + 1
      have := hJ.li_le; omega
    · show st.i + 1 ≤ e
      omega
    · intro hl q h1 h2
      have h2' : q < st.i + 1 := h2
      by_cases hq : q < st.i
      · exact hJ.lits hl q h1 hq
      · have hq' : q = st.i := by omega
        subst hq'
        have := gsapProbe_literal_only_if ws minMatch st.litIndex hs' hb' hi'
          (by have := hlit hl; omega) hp2
        exact lpm_lt hmm this
  · -- a match
    intro st d s k o hi hJ hp
    have hi' : st.i < t.length := by omega
    have hs' : SAOK t st.dict.sa st.dict.isa := by rw [hJ.hsa, hJ.hisa]; exact hs
    have hb' : BitsOK st.dict.sa st.dict.bits t.length st.i := by rw [hJ.hsa]; exact hJ.bits
    have hp2 : (gsapProbe ws minMatch st.dict (t.take e) st.i st.litIndex).2 = some (s, k, o) := by
      show ((⟨gsapProbe ws minMatch⟩ : Finder GsapD).probe st.dict (t.take e) st.i st.litIndex).2 = _
      rw [hp]
    obtain ⟨rfl, ho1, ho2, ho3, hk1, hk2, hk3⟩ := gsapProbe_longest ws minMatch st.litIndex hs' hb' hi' hp2
    have hkpos : 1 ≤ k := by omega
    have hke : st.i + k ≤ e := by
      have h1 := lcpLen_le_right ((t.take e).drop (st.i - o)) ((t.take e).drop st.i)
      rw [← hk2] at h1
      simp only [List.length_drop, List.length_take] at h1
      omega
    have hd : d = { st.dict with bits := (insertRanks st.dict.isa
        (st.dict.bits.setIfInBounds (st.dict.isa.getD st.i 0) true) (st.i + 1) (k - 1)) } := by
      have h1 : d = (gsapProbe ws minMatch st.dict (t.take e) st.i st.litIndex).1 := by
        show d = ((⟨gsapProbe ws minMatch⟩ : Finder GsapD).probe st.dict (t.take e) st.i st.litIndex).1
        rw [hp]
      rw [h1]
      rw [gsapProbe_eq] at hp2 ⊢
      simp only at hp2 ⊢
      split
      · rename_i h2; simp only [h2, if_true] at hp2; cases hp2
      · rename_i h2
        split
        · rename_i h3; simp only [h2, h3, if_false] at hp2; cases hp2
        · rename_i h3
          simp only [h2, h3, if_false, Option.some.injEq, Prod.mk.injEq] at hp2
          rw [hp2.2.1]
    subst hd
    refine ⟨by omega, hJ.hsa, hJ.hisa, ?_, Nat.le_refl _, hke, ?_, ?_, ?_⟩
    · have := bitsOK_after_some hs' hb' hi' hkpos (by omega)
      rw [hJ.hsa] at this; exact this
    · have hq : ((List.drop st.litIndex (t.take e)).take (st.i - st.litIndex)).length = st.i - st.litIndex := by
        simp only [List.length_take, List.length_drop]
        have := hJ.li_le; omega
      show endPos w (st.seqs ++ [_]) = st.i + k
      rw [endPos_snoc, hJ.pos]
      simp only [hq]
      have := hJ.li_le; omega
    · have hq : ((List.drop st.litIndex (t.take e)).take (st.i - st.litIndex)).length = st.i - st.litIndex := by
        simp only [List.length_take, List.length_drop]
        have := hJ.li_le; omega
      apply GreedySpec_snoc _ _ _ _ _ _ _ hJ.spec
      rw [hJ.pos]
      have hli := hJ.li_le
      have hadd : st.litIndex + (st.i - st.litIndex) = st.i := by omega
      refine ⟨?_, ?_, hk1, ?_, trivial⟩
      · intro hl q h1 h2
        simp only [hq, hadd] at h2
        exact hJ.lits hl q h1 h2
      · simp only [hq, hadd]
        exact (lpm_eq (f := st.i - o) (by omega) hk2 hk3).symm
      · simp only [hq, hadd]
        exact ⟨ho1, ho2, ho3, hk2⟩
    · intro hl q h1 h2
      have h1' : st.i + k ≤ q := h1
      have h2' : q < st.i + k := h2
      omega

end Loop

/-! ## the `.gsap` branch of `Parser.parse` -/

theorem blockN_le' (s : Parser) (hn : s.blockN ≠ 0) : s.buf.w + s.blockN ≤ s.buf.data.length := by
  unfold Parser.blockN at *; omega

/-- the suffix array state the `.gsap` branch works with: re-sorted if the block is not covered -/
def gsapG (s : Parser) (g : GsapD) : GsapD :=
  if s.buf.w + s.blockN > g.sa.size then gsapSort s.buf.data s.buf.w else g

/-- the final loop state of the `.gsap` branch -/
def gsapRun (s : Parser) (g : GsapD) : LoopSt GsapD :=
  greedyLoop ⟨gsapProbe s.buf.cfg.windowSize s.minMatch⟩ (s.buf.data.take (s.buf.w + s.blockN))
    (s.buf.data.take (s.buf.w + s.blockN)).length
    { dict := gsapG s g, i := s.buf.w, litIndex := s.buf.w, seqs := [], lits := [] }

theorem parse_gsap_seqs (s : Parser) (g : GsapD) (hd : s.dict = .gsap g) (flags : Nat)
    (hn : s.blockN ≠ 0) : (s.parse flags).2.2.2.seqs = (gsapRun s g).seqs := by
  unfold Parser.parse
  simp only [hn, if_false, hd, ne_eq, not_true_eq_false, false_and, Parser.runGreedy, finishBlock,
    gsapRun, gsapG]
  split <;> split <;> rfl

theorem gsapSort_bitsOK (data : List Byte) (w : Nat) (hw : w ≤ data.length)
    (hs : SAOK data (gsapSort data w).sa (gsapSort data w).isa) :
    BitsOK (gsapSort data w).sa (gsapSort data w).bits data.length w := by
  have hsz : (gsapSort data w).sa.size = data.length := hs.size_sa
  have hbits : (gsapSort data w).bits =
      insertRanks (gsapSort data w).isa (Array.replicate (gsapSort data w).sa.size false) 0 w := rfl
  refine ⟨by rw [hbits]; simp [hsz], ?_⟩
  intro r
  rw [hbits, insertRanks_spec]
  have hfalse : (Array.replicate (gsapSort data w).sa.size false).getD r false = false := by
    simp only [Array.getD_eq_getD_getElem?, Array.getElem?_replicate]
    split <;> rfl
  rw [hfalse, Array.size_replicate, hsz]
  constructor
  · rintro (h | ⟨a, k, hk, hr⟩)
    · cases h
    · refine ⟨a, ?_⟩
      have := (hs.sa_isa (0 + k) (by omega)).2
      rw [hr] at this; omega
  · rintro ⟨a, b⟩
    right
    refine ⟨a, (gsapSort data w).sa.getD r 0, b, ?_⟩
    rw [Nat.zero_add]; exact hs.isa_sa r a

/-- C12 for a block (hypotheses named): let `t` be the data the suffix array in use was built
    from (`SAOK`; the block `p` is a prefix of `t`) and let `bits` mark exactly the ranks of the
    positions in front of the block (`BitsOK`).  Then
    * every emitted match has exactly the longest-previous-match length at its position
      (against all earlier buffered bytes, clipped at the block end) and `≥ MinMatchLen` bytes;
    * if the block end is inside the window (`w + n ≤ WindowSize`, implied by
      `BufferSize ≤ WindowSize`), every byte emitted as a literal — between the matches and
      behind the last one — had no earlier position offering `MinMatchLen` bytes. -/
theorem C12_longest_partial (s : Parser) (g : GsapD) (hd : s.dict = .gsap g) (flags : Nat)
    (hn : s.blockN ≠ 0) (hmm : 1 ≤ s.minMatch)
    (t : List Byte) (ht : s.buf.data.take (s.buf.w + s.blockN) = t.take (s.buf.w + s.blockN))
    (he : s.buf.w + s.blockN ≤ t.length)
    (hs : SAOK t (gsapG s g).sa (gsapG s g).isa)
    (hb : BitsOK (gsapG s g).sa (gsapG s g).bits t.length s.buf.w) :
    GreedySpec (s.buf.data.take (s.buf.w + s.blockN)) s.buf.cfg.windowSize s.minMatch
      (s.buf.w + s.blockN ≤ s.buf.cfg.windowSize) s.buf.w (s.parse flags).2.2.2.seqs ∧
    (s.buf.w + s.blockN ≤ s.buf.cfg.windowSize →
      ∀ q, endPos s.buf.w (s.parse flags).2.2.2.seqs ≤ q → q < s.buf.w + s.blockN →
        lpm (s.buf.data.take (s.buf.w + s.blockN)) q < s.minMatch) := by
  rw [parse_gsap_seqs s g hd flags hn]
  unfold gsapRun
  have hle := blockN_le' s hn
  have hplen : (s.buf.data.take (s.buf.w + s.blockN)).length = s.buf.w + s.blockN := by
    simp only [List.length_take]; omega
  rw [hplen, ht]
  have h0 : GInv t (gsapG s g).sa (gsapG s g).isa (s.buf.w + s.blockN) s.buf.w s.buf.cfg.windowSize s.minMatch
      (s.buf.w + s.blockN ≤ s.buf.cfg.windowSize)
      { dict := gsapG s g, i := s.buf.w, litIndex := s.buf.w, seqs := [], lits := [] } :=
    ⟨rfl, rfl, hb, Nat.le_refl _, Nat.le_add_right _ _, rfl, trivial, fun _ q a b => by
      have a' : s.buf.w ≤ q := a
      have b' : q < s.buf.w := b
      omega⟩
  obtain ⟨hJ, hi⟩ := gsap_loop t _ _ (s.buf.w + s.blockN) s.buf.w s.buf.cfg.windowSize s.minMatch
    (s.buf.w + s.blockN ≤ s.buf.cfg.windowSize) hs he hmm (fun h => h) _ h0
  refine ⟨hJ.spec, ?_⟩
  intro hl q h1 h2
  rw [hJ.pos] at h1
  rw [← hi] at h2
  exact hJ.lits hl q h1 h2

theorem parse_gsap_eq (s : Parser) (g : GsapD) (hd : s.dict = .gsap g) (flags : Nat)
    (hn : s.blockN ≠ 0) :
    s.parse flags =
      (let st := gsapRun s g
       let fb := finishBlock (s.buf.data.take (s.buf.w + s.blockN)) flags st
       let g' := if flags % 2 = 1 ∧ fb.2.seqs ≠ [] ∧ st.litIndex < (s.buf.data.take (s.buf.w + s.blockN)).length
         then { st.dict with sa := #[] } else st.dict
       ({ s with buf := { s.buf with w := fb.1 }, dict := .gsap g' }, fb.1 - s.buf.w, .ok, fb.2)) := by
  unfold Parser.parse
  simp only [hn, if_false, hd, ne_eq, not_true_eq_false, false_and, Parser.runGreedy]
  rfl

theorem finishBlock_seqs {δ} (p : List Byte) (flags : Nat) (st : LoopSt δ) :
    (finishBlock p flags st).2.seqs = st.seqs := by
  unfold finishBlock; split <;> rfl

/-- the inductive step of the GSAP history invariant: after `Parse(&blk, flags)` the suffix
    array is either dropped (truncated block) or unchanged with `bits` marking exactly the ranks
    of the positions in front of the new `W` -/
theorem parse_gsap_inv (s : Parser) (g : GsapD) (hd : s.dict = .gsap g) (flags : Nat)
    (hn : s.blockN ≠ 0) (hmm : 1 ≤ s.minMatch)
    (t : List Byte) (ht : s.buf.data.take (s.buf.w + s.blockN) = t.take (s.buf.w + s.blockN))
    (he : s.buf.w + s.blockN ≤ t.length)
    (hs : SAOK t (gsapG s g).sa (gsapG s g).isa)
    (hb : BitsOK (gsapG s g).sa (gsapG s g).bits t.length s.buf.w) :
    (s.parse flags).1.buf.data = s.buf.data ∧
    ∃ g2, (s.parse flags).1.dict = .gsap g2 ∧
      (g2.sa = #[] ∨
        (g2.sa = (gsapG s g).sa ∧ g2.isa = (gsapG s g).isa ∧
          BitsOK g2.sa g2.bits t.length (s.parse flags).1.buf.w)) := by
  have hle := blockN_le' s hn
  have hplen : (s.buf.data.take (s.buf.w + s.blockN)).length = s.buf.w + s.blockN := by
    simp only [List.length_take]; omega
  have h0 : GInv t (gsapG s g).sa (gsapG s g).isa (s.buf.w + s.blockN) s.buf.w s.buf.cfg.windowSize s.minMatch False
      { dict := gsapG s g, i := s.buf.w, litIndex := s.buf.w, seqs := [], lits := [] } :=
    ⟨rfl, rfl, hb, Nat.le_refl _, Nat.le_add_right _ _, rfl, trivial, fun h => h.elim⟩
  obtain ⟨hJ, hi⟩ := gsap_loop t _ _ (s.buf.w + s.blockN) s.buf.w s.buf.cfg.windowSize s.minMatch
    False hs he hmm (fun h => h.elim) _ h0
  have hrun : gsapRun s g = greedyLoop ⟨gsapProbe s.buf.cfg.windowSize s.minMatch⟩
      (t.take (s.buf.w + s.blockN)) (s.buf.w + s.blockN)
      { dict := gsapG s g, i := s.buf.w, litIndex := s.buf.w, seqs := [], lits := [] } := by
    unfold gsapRun; rw [hplen, ht]
  rw [← hrun] at hJ hi
  rw [parse_gsap_eq s g hd flags hn]
  refine ⟨rfl, ?_⟩
  simp only
  split
  · exact ⟨_, rfl, Or.inl rfl⟩
  · rename_i h
    refine ⟨_, rfl, Or.inr ⟨hJ.hsa, hJ.hisa, ?_⟩⟩
    have hb2 := hJ.bits
    rw [hi] at hb2
    rw [finishBlock_seqs] at h
    have hw : (finishBlock (s.buf.data.take (s.buf.w + s.blockN)) flags (gsapRun s g)).1 = s.buf.w + s.blockN := by
      unfold finishBlock
      split
      · rename_i h2
        have := hJ.li_le
        show (gsapRun s g).litIndex = _
        have h3 : ¬ (gsapRun s g).litIndex < s.buf.w + s.blockN := by
          intro hlt; apply h; exact ⟨h2.1, h2.2, by rw [hplen]; exact hlt⟩
        omega
      · exact hplen
    show BitsOK (gsapRun s g).dict.sa (gsapRun s g).dict.bits t.length
      (finishBlock (s.buf.data.take (s.buf.w + s.blockN)) flags (gsapRun s g)).1
    rw [hw, hJ.hsa]; exact hb2

/-- C12 for a block parsed right after a (re-)sort: only the suffix-array facts about
    `saSpec`/`invertSA` remain as hypothesis -/
theorem C12_longest_fresh (s : Parser) (g : GsapD) (hd : s.dict = .gsap g) (flags : Nat)
    (hn : s.blockN ≠ 0) (hmm : 1 ≤ s.minMatch) (hsort : s.buf.w + s.blockN > g.sa.size)
    (hs : SAOK s.buf.data (gsapSort s.buf.data s.buf.w).sa (gsapSort s.buf.data s.buf.w).isa) :
    GreedySpec (s.buf.data.take (s.buf.w + s.blockN)) s.buf.cfg.windowSize s.minMatch
      (s.buf.w + s.blockN ≤ s.buf.cfg.windowSize) s.buf.w (s.parse flags).2.2.2.seqs ∧
    (s.buf.w + s.blockN ≤ s.buf.cfg.windowSize →
      ∀ q, endPos s.buf.w (s.parse flags).2.2.2.seqs ≤ q → q < s.buf.w + s.blockN →
        lpm (s.buf.data.take (s.buf.w + s.blockN)) q < s.minMatch) := by
  have hle := blockN_le' s hn
  have hg : gsapG s g = gsapSort s.buf.data s.buf.w := by unfold gsapG; rw [if_pos hsort]
  apply C12_longest_partial s g hd flags hn hmm s.buf.data rfl hle
  · rw [hg]; exact hs
  · rw [hg]; exact gsapSort_bitsOK _ _ (by omega) hs

/-! ## non-vacuity -/

/-- `"abab"` with its suffix array `[2,0,3,1]` and inverse -/
example : SAOK [97, 98, 97, 98] #[2, 0, 3, 1] #[1, 3, 0, 2] :=
  ⟨by decide, by decide, by decide, by unfold LexSorted; decide⟩

/-- after position 0 and 1 were passed: ranks 1 (`abab`) and 3 (`bab`) are marked -/
example : BitsOK #[2, 0, 3, 1] #[false, true, false, true] 4 2 :=
  ⟨by decide, by
    intro r
    by_cases h : r < 4
    · have : r = 0 ∨ r = 1 ∨ r = 2 ∨ r = 3 := by omega
      rcases this with rfl | rfl | rfl | rfl <;> decide
    · have : (#[false, true, false, true] : Array Bool).getD r false = false :=
        getD_false_of_size_le _ (by simp; omega)
      rw [this]; simp; omega⟩

/-- the probe at position 2 of `"abab"` finds the match `(2, 2, 2)` — `lpm = 2` -/
example : (gsapProbe 8 2 ⟨#[2, 0, 3, 1], #[1, 3, 0, 2], #[false, true, false, true]⟩
    [97, 98, 97, 98] 2 0).2 = some (2, 2, 2) := by decide

example : lpm [97, 98, 97, 98] 2 = 2 := by decide

#print axioms greedyLoop_invariant
#print axioms gsap_loop
#print axioms C12_longest_partial
#print axioms C12_longest_fresh
#print axioms parse_gsap_inv

/-! ## counter-witness: the unrepaired GSAP loop (D6) -/

/-- the loop of `gsap.Parse` before the repair, with fuel: `i++; continue` inside
    `for …; i++` advances by 2 after a literal, and after a match the position `litIndex` is
    skipped; `repaired = true` gives the repaired stepping -/
def gsapLoopFuel (repaired : Bool) (ws minMatch : Nat) (p : List Byte) :
    Nat → GsapD → Nat → List (Nat × Nat × Nat) → List (Nat × Nat × Nat)
  | 0, _, _, acc => acc
  | fuel + 1, g, i, acc =>
    if i < p.length then
      match gsapProbe ws minMatch g p i 0 with
      | (g', none) => gsapLoopFuel repaired ws minMatch p fuel g' (if repaired then i + 1 else i + 2) acc
      | (g', some (s, k, o)) =>
        gsapLoopFuel repaired ws minMatch p fuel g' (if repaired then s + k else s + k + 1) (acc ++ [(s, k, o)])
    else acc

def xabab : List Byte := [120, 97, 98, 97, 98]
def xababG : GsapD := ⟨#[3, 1, 4, 2, 0], #[4, 1, 3, 0, 2], #[false, false, false, false, false]⟩

example : SAOK xabab xababG.sa xababG.isa :=
  ⟨by decide, by decide, by decide, by unfold LexSorted; decide⟩

/-- `"xabab"`: the unrepaired loop visits only the positions 0, 2, 4 and finds nothing, although
    position 3 has a match of length 2 (`lpm = 2`); the repaired stepping emits it. -/
example : gsapLoopFuel false 8 2 xabab 5 xababG 0 [] = [] ∧
    lpm xabab 3 = 2 ∧
    gsapLoopFuel true 8 2 xabab 5 xababG 0 [] = [(3, 2, 2)] := by decide

end LZ.Sap
