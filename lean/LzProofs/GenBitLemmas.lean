/-
  LzProofs.GenBitLemmas — normalisation lemmas about the bit primitives of the generated code
  (`leadingZeros64`, `bitsLen64`, `shlU64`) that relate different but equivalent Go spellings:

    bits_lz_len   `63 - bits.LeadingZeros64(x)`  =  `bits.Len64(x) - 1`
    not_mask      `^(1<<s - 1)`                   =  `^uint64(0) << s`          (s < 64)

  No translated function is mentioned.
-/
import LzModel.Generated.CodePrelude
import LzModel.Generated.CodePart4Prelude

namespace LZ.GenBits
open LZ LZ.Gen

/-- the highest set bit below `p` of a word `< 2^p` is its `log2` -/
theorem highBitBelow_log2 (x : UInt64) : ∀ p, x.toNat < 2 ^ p →
    highBitBelow x p = if x.toNat = 0 then -1 else Int.ofNat (Nat.log2 x.toNat)
  | 0, h => by
    have h0 : x.toNat = 0 := by simp at h; omega
    simp [highBitBelow, h0]
  | p + 1, h => by
    simp only [highBitBelow]
    by_cases hb : x.toNat.testBit p
    · have hge : 2 ^ p ≤ x.toNat := Nat.ge_two_pow_of_testBit hb
      have hne : x.toNat ≠ 0 := by have := Nat.two_pow_pos p; omega
      have hlog : Nat.log2 x.toNat = p := by
        apply Nat.le_antisymm
        · have := (Nat.log2_lt hne).2 h; omega
        · exact (Nat.le_log2 hne).2 hge
      simp [hb, hne, hlog]
    · have hlt : x.toNat < 2 ^ p := by
        apply Nat.lt_pow_two_of_testBit
        intro i hi
        by_cases hip : i = p
        · subst hip; simpa using hb
        · exact Nat.testBit_lt_two_pow
            (Nat.lt_of_lt_of_le h (Nat.pow_le_pow_right (by omega) (by omega)))
      simp [hb, highBitBelow_log2 x p hlt]

/-- `63 - bits.LeadingZeros64(x) = bits.Len64(x) - 1` (both are -1 for `x = 0`) -/
theorem bits_lz_len (x : UInt64) : 63 - leadingZeros64 x = bitsLen64 x - 1 := by
  unfold leadingZeros64 bitsLen64
  rw [highBitBelow_log2 x 64 x.toNat_lt]
  have h0 : x = 0 ↔ x.toNat = 0 := by
    constructor
    · intro h; subst h; rfl
    · intro h; exact UInt64.toNat_inj.1 (by simpa using h)
  by_cases hx : x.toNat = 0
  · simp [h0.2 hx]
  · have : ¬ x = 0 := fun e => hx (h0.1 e)
    simp only [hx, this, if_false, Int.ofNat_eq_natCast]
    omega

theorem bits_len_lz (x : UInt64) : bitsLen64 x - 1 = 63 - leadingZeros64 x := (bits_lz_len x).symm

theorem not_mask_fin : ∀ s : Fin 64,
    ~~~(shlU64 (1 : UInt64) s.val - 1) = shlU64 (~~~(0 : UInt64)) s.val := by decide

/-- `^(1<<s - 1) = ^uint64(0) << s` for a shift count below the width -/
theorem not_mask (s : Nat) (hs : s < 64) :
    ~~~(shlU64 (1 : UInt64) s - 1) = shlU64 (~~~(0 : UInt64)) s := not_mask_fin ⟨s, hs⟩

theorem shl_ones (s : Nat) (hs : s < 64) :
    shlU64 (~~~(0 : UInt64)) s = ~~~(shlU64 (1 : UInt64) s - 1) := (not_mask s hs).symm

end LZ.GenBits

#print axioms LZ.GenBits.bits_lz_len
#print axioms LZ.GenBits.not_mask
