/-
  LzProofs.GenGSAPHistRun — HISTORIES of translated operations of the greedy suffix-array parser GSAP, and C01 / C02 /
  C03 / C12 stated about the translation of the Go text.  No sorry, no axioms of its own.

  Operations (`GenHPHist.GOpR`): `Write(p)`, `Parse(&blk, flags)`, `Shrink()`, `Reset(data)`, `ReadFrom(r)` — the
  translated `gsap_Parse / gsap_Shrink / gsap_Reset` (gsap.go), the promoted `ParserBuffer_Write` and the translated
  `ParserBuffer_ReadFrom` run against the scripted reader (`rfGo extra`).  `Parse(nil, …)` is excluded by the topic
  assumption `blk != nil` of CodeGSAPParse, so the quantifier "histories without Parse(nil)" of C12 is the quantifier
  over ALL histories here.  `runG extra grow fuel lcp SS BI s ops` executes the translated functions one after the other.
  The three opaque callees `lcp`, `suffix.Sort` (`SS`), `bitset.insert` (`BI`) enter under `GsapSpecs lcp SS BI`
  (LzProofs/GenGSAPHist.lean) — the ONLY hypotheses besides "init returned nil", well-formed arguments and the fuel.

    stepG_sim / runG_sim   from any Go state with `HistOKG` whose model state is reachable: no panic, `HistOKG` again, the
                     model state after the abstracted operations, every result the model's, the C01 ghost
    runG_append      the states a history passes through are the final states of its prefixes
    gen_gsap_history   the same from `gsap.init` on `new(gsap)` for every configuration it accepts; the state reached
                     satisfies `ParseOKG` — in particular the INDEX invariant `len(sa) = 0 ∨ SaIdx`, which is thereby
                     derived for every reachable Go state
    gen_gsap_history_states   `ParseOKG` after every prefix
    C01_go_text_gsap, C02_go_text_gsap, C03_go_text_gsap   as for HP
    C12_go_text_gsap   the greedy-longest-match clause for the block the translated `Parse` returns after ANY history
    C12_literal_go_text_gsap   the literal clause for `BufferSize ≤ WindowSize`
-/
import LzProofs.GenGSAPHist
import LzProofs.GlueLemmas
import LzProofs.RunsOsap

set_option linter.unusedSimpArgs false
set_option linter.unusedVariables false

namespace LZ.GenGSAPHist
open LZ LZ.Gen LZ.GenBuf LZ.GenHash LZ.GenSuffix LZ.GenBitset LZ.GsapBits LZ.GenHPParse LZ.GenParse LZ.GenBUPParse
  LZ.GenProps LZ.GenGSAP
open LZ.GenHPHist (GOp GRes GOp.WF GOp.abs resAgree ResultsAgree ghostStep ghostRun parseErr_ok_iff step_parse_fst
  step_reset_fst bind_ok' GOpR GResR GOpR.WF GOpR.abs resAgreeR ResultsAgreeR ghostStepR ghostRunR genErr RFun RFSpec
  rfGo rfGo_spec)

section
variable {lcp : Slice → Slice → Int} {SS : Slice → GSlice Int32 → Res (GSlice Int32)}
  {BI : Gen.bitset → List Int → Res Gen.bitset}

/-- one call, on the translated functions -/
def stepG (extra : Nat) (grow : Nat → Nat → Nat) (fuel : Nat) (lcp : Slice → Slice → Int)
    (SS : Slice → GSlice Int32 → Res (GSlice Int32)) (BI : Gen.bitset → List Int → Res Gen.bitset) (s : Gen.gsap) :
    GOpR → Res (Gen.gsap × GResR)
  | .base (.write p) => Res.bind (gsap_Write grow s p) fun r => Res.ok (r.1, .base (.write r.2.1 r.2.2))
  | .base (.parse blk flags) =>
    Res.bind (gsap_Parse grow fuel lcp SS BI s blk flags) fun r => Res.ok (r.1, .base (.parse r.2.1 r.2.2.1 r.2.2.2))
  | .base .shrink => Res.bind (gsap_Shrink s) fun r => Res.ok (r.1, .base (.shrink r.2))
  | .base (.reset data) => Res.bind (gsap_Reset s data) fun r => Res.ok (r.1, .base (.reset r.2))
  | .readFrom r => Res.bind (gsap_ReadFrom (rfGo extra) s r) fun x => Res.ok (x.1, .readFrom x.2.2.1 x.2.2.2)

/-- a history of calls; the results in order -/
def runG (extra : Nat) (grow : Nat → Nat → Nat) (fuel : Nat) (lcp : Slice → Slice → Int)
    (SS : Slice → GSlice Int32 → Res (GSlice Int32)) (BI : Gen.bitset → List Int → Res Gen.bitset) :
    Gen.gsap → List GOpR → Res (Gen.gsap × List GResR)
  | s, [] => Res.ok (s, [])
  | s, op :: ops =>
    Res.bind (stepG extra grow fuel lcp SS BI s op) fun r =>
    Res.bind (runG extra grow fuel lcp SS BI r.1 ops) fun q => Res.ok (q.1, r.2 :: q.2)

theorem runOps_snoc (sg : Parser × Ghost) (ops : List POp) (op : POp) :
    runOps sg (ops ++ [op]) = step (runOps sg ops) op := by
  simp [runOps, List.foldl_append]

theorem runOps_append (sg : Parser × Ghost) (a b : List POp) : runOps sg (a ++ b) = runOps (runOps sg a) b := by
  simp [runOps, List.foldl_append]

/-! ## one step -/

theorem stepG_sim {bc : BufCfg} (hbc : BCOKG bc) (sp : GsapSpecs lcp SS BI) (extra : Nat) (grow : Nat → Nat → Nat)
    (fuel : Nat) (hfuel : 2 * bc.bufferSize + 5 ≤ fuel)
    (raw : Cfg) (p0 : Parser) (h0 : newParser .GSAP raw = some p0) (mops : List POp)
    (t : Gen.gsap) (gh : Ghost) (g : GsapD) (h : HistOKG bc t) (hG : GSim g (ofGW t))
    (hreach : (ofGSAPs t g, gh) = runOps (p0, Ghost.init) mops) (op : GOpR) (hop : op.WF) :
    ∃ t' r g', stepG extra grow fuel lcp SS BI t op = Res.ok (t', r) ∧ HistOKG bc t' ∧ GSim g' (ofGW t') ∧
      ofGSAPs t' g' = (step (ofGSAPs t g, gh) op.abs).1 ∧ ghostStepR gh op r = (step (ofGSAPs t g, gh) op.abs).2 ∧
      resAgreeR (ofGSAPs t g) op r := by
  cases op with
  | base op =>
    cases op with
    | write p =>
      obtain ⟨t', n, e, h1, h2, h3, h3', h4, h5, h6⟩ := hist_write hbc grow t h g p hop
      refine ⟨t', .base (.write n e), g, ?_, h2, by rw [h3']; exact hG, h3, ?_, h4, h5⟩
      · simp only [stepG, h1]; rfl
      · simp only [ghostStepR, ghostStep, step, GOpR.abs, GOp.abs, h4, Int.toNat_natCast]
    | parse blk flags =>
      have hr1 : ofGSAPs t g = (runOps (p0, Ghost.init) mops).1 := by rw [← hreach]
      obtain ⟨t', blk', g', h1, h2, h3, hG', h4, h5, h6⟩ :=
        hist_parse hbc grow fuel sp t h g hG raw p0 h0 mops hr1 blk flags hop (by have := h.len; omega)
      refine ⟨t', .base (.parse blk' _ _), g', ?_, h2, hG', ?_, ?_, rfl, rfl, h4, h5⟩
      · simp only [stepG, h1]; rfl
      · show _ = (step (ofGSAPs t g, gh) (.parse flags.toNat)).1
        rw [step_parse_fst]; exact h3
      · simp only [ghostStepR, ghostStep, step, GOpR.abs, GOp.abs, parseErr_ok_iff _ h6, Int.toNat_natCast, h4]
        split <;> rfl
    | shrink =>
      obtain ⟨t', g', h1, h2, h3, hG'⟩ := hist_shrink hbc t h g hG
      refine ⟨t', .base (.shrink _), g', ?_, h2, hG', h3, rfl, rfl⟩
      simp only [stepG, h1]; rfl
    | reset data =>
      obtain ⟨t', e, g', h1, h2, h3, hG', h4⟩ := hist_reset hbc t h g hG data hop
      refine ⟨t', .base (.reset e), g', ?_, h2, hG', ?_, ?_, h4⟩
      · simp only [stepG, h1]; rfl
      · show _ = (step (ofGSAPs t g, gh) (.reset data.data (data.cap - data.len))).1
        rw [step_reset_fst]; exact h3
      · simp only [ghostStepR, ghostStep, step, GOpR.abs, GOp.abs, GenHash.errOfReset_ok_iff e _ h4]
        split <;> rfl
  | readFrom rd =>
    obtain ⟨t', h1, h2, h3, h3'⟩ := hist_readFrom hbc (rfGo extra) (rfGo_spec extra) t h g rd
    refine ⟨t', .readFrom _ _, g, ?_, h2, by rw [h3']; exact hG, h3, ?_, rfl, rfl⟩
    · simp only [stepG, h1]; rfl
    · simp only [ghostStepR, step, GOpR.abs, Int.toNat_natCast]

/-! ## histories -/

/-- **Simulation**, from any Go state satisfying the invariant whose model state (with ghost `gh`) is the one reached
    from `NewParser` by `mops`. -/
theorem runG_sim {bc : BufCfg} (hbc : BCOKG bc) (sp : GsapSpecs lcp SS BI) (extra : Nat) (grow : Nat → Nat → Nat)
    (fuel : Nat) (hfuel : 2 * bc.bufferSize + 5 ≤ fuel)
    (raw : Cfg) (p0 : Parser) (h0 : newParser .GSAP raw = some p0) :
    ∀ (ops : List GOpR) (mops : List POp) (t : Gen.gsap) (gh : Ghost) (g : GsapD), HistOKG bc t → GSim g (ofGW t) →
      (ofGSAPs t g, gh) = runOps (p0, Ghost.init) mops → (∀ op ∈ ops, op.WF) →
      ∃ t' rs g', runG extra grow fuel lcp SS BI t ops = Res.ok (t', rs) ∧ HistOKG bc t' ∧ GSim g' (ofGW t') ∧
        ofGSAPs t' g' = (runOps (ofGSAPs t g, gh) (ops.map GOpR.abs)).1 ∧
        ghostRunR gh ops rs = (runOps (ofGSAPs t g, gh) (ops.map GOpR.abs)).2 ∧
        ResultsAgreeR (ofGSAPs t g, gh) ops rs := by
  intro ops
  induction ops with
  | nil => intro mops t gh g h hG _ _; exact ⟨t, [], g, rfl, h, hG, rfl, rfl, trivial⟩
  | cons op ops ih =>
    intro mops t gh g h hG hreach hwf
    obtain ⟨t1, r, g1, h1, h2, hG1, h3, h4, h5⟩ :=
      stepG_sim hbc sp extra grow fuel hfuel raw p0 h0 mops t gh g h hG hreach op (hwf op (List.mem_cons_self ..))
    have hsg : step (ofGSAPs t g, gh) op.abs = (ofGSAPs t1 g1, ghostStepR gh op r) := by
      rw [h3, h4]
    have hreach1 : (ofGSAPs t1 g1, ghostStepR gh op r) = runOps (p0, Ghost.init) (mops ++ [op.abs]) := by
      rw [runOps_snoc, ← hreach, hsg]
    obtain ⟨t', rs, g', k1, k2, kG, k3, k4, k5⟩ := ih (mops ++ [op.abs]) t1 (ghostStepR gh op r) g1 h2 hG1 hreach1
      (fun o ho => hwf o (List.mem_cons_of_mem _ ho))
    refine ⟨t', r :: rs, g', ?_, k2, kG, ?_, ?_, h5, ?_⟩
    · show Res.bind (stepG extra grow fuel lcp SS BI t op) _ = _
      rw [h1]
      show Res.bind (runG extra grow fuel lcp SS BI t1 ops) _ = _
      rw [k1]; rfl
    · show _ = (runOps (step (ofGSAPs t g, gh) op.abs) (ops.map GOpR.abs)).1
      rw [hsg]; exact k3
    · show ghostRunR (ghostStepR gh op r) ops rs = (runOps (step (ofGSAPs t g, gh) op.abs) (ops.map GOpR.abs)).2
      rw [hsg]; exact k4
    · show ResultsAgreeR (step (ofGSAPs t g, gh) op.abs) ops rs
      rw [hsg]; exact k5

/-- the states a history passes through are the final states of its prefixes -/
theorem runG_append (extra : Nat) (grow : Nat → Nat → Nat) (fuel : Nat) (lcp : Slice → Slice → Int)
    (SS : Slice → GSlice Int32 → Res (GSlice Int32)) (BI : Gen.bitset → List Int → Res Gen.bitset) :
    ∀ (a b : List GOpR) (s : Gen.gsap),
    runG extra grow fuel lcp SS BI s (a ++ b) =
      Res.bind (runG extra grow fuel lcp SS BI s a) fun r =>
      Res.bind (runG extra grow fuel lcp SS BI r.1 b) fun q => Res.ok (q.1, r.2 ++ q.2) := by
  intro a
  induction a with
  | nil =>
    intro b s
    simp only [List.nil_append, runG, bind_ok', List.nil_append]
    cases runG extra grow fuel lcp SS BI s b with
    | ok v => rfl
    | panic => rfl
    | fuel => rfl
  | cons op a ih =>
    intro b s
    simp only [List.cons_append, runG]
    cases hs : stepG extra grow fuel lcp SS BI s op with
    | ok v =>
      simp only [bind_ok', ih]
      cases runG extra grow fuel lcp SS BI v.1 a with
      | ok w =>
        simp only [bind_ok']
        cases runG extra grow fuel lcp SS BI w.1 b with
        | ok u => rfl
        | panic => rfl
        | fuel => rfl
      | panic => rfl
      | fuel => rfl
    | panic => rfl
    | fuel => rfl

/-- the history theorem with the full invariant (`HistOKG`, `BCOKG`) exported; `gen_gsap_history` is its public face -/
theorem gen_gsap_history_inv (cfg : Gen.GSAPConfig) (s0 : Gen.gsap)
    (hinit : gsap_init default cfg = Res.ok (s0, Gen.Err.ok)) (sp : GsapSpecs lcp SS BI)
    (extra : Nat) (grow : Nat → Nat → Nat) (fuel : Nat)
    (hfuel : 2 * s0.ParserBuffer.BufConfig.BufferSize.toNat + 5 ≤ fuel)
    (ops : List GOpR) (hwf : ∀ op ∈ ops, op.WF) :
    ∃ p t rs g, newParser .GSAP (ofGSAP cfg) = some p ∧ ofGSAPs s0 GsapD.empty = p ∧
      runG extra grow fuel lcp SS BI s0 ops = Res.ok (t, rs) ∧ BCOKG p.buf.cfg ∧ HistOKG p.buf.cfg t ∧
      2 * p.buf.cfg.bufferSize + 5 ≤ fuel ∧ GSim g (ofGW t) ∧
      (ofGSAPs t g, ghostRunR Ghost.init ops rs) = runOps (p, Ghost.init) (ops.map GOpR.abs) ∧
      ResultsAgreeR (p, Ghost.init) ops rs := by
  obtain ⟨p, hp, h2, hG0, hbc, hH⟩ := hist_init cfg s0 hinit
  have hf : 2 * p.buf.cfg.bufferSize + 5 ≤ fuel := by
    have : p.buf.cfg = ofCfg s0.ParserBuffer.BufConfig := hH.cfg.symm
    rw [this]; exact hfuel
  obtain ⟨t, rs, g, k1, k2, kG, k3, k4, k5⟩ := runG_sim hbc sp extra grow fuel hf (ofGSAP cfg) p hp ops [] s0 Ghost.init
    GsapD.empty hH hG0 (by rw [h2]; rfl) hwf
  rw [h2] at k3 k4 k5
  refine ⟨p, t, rs, g, hp, h2, k1, hbc, k2, hf, kG, ?_, k5⟩
  rw [k3, k4]

/-- **`gen_gsap_history`.**  `gsap.init(cfg)` on `new(gsap)` returned `nil`; the three opaque callees satisfy their
    specifications.  Then for every history of well-formed calls (`Write`, `ReadFrom`, `Parse(&blk, flags)`, `Shrink`,
    `Reset`) the translated functions never panic and never run out of fuel; the state reached satisfies `ParseOKG` —
    incl. the index invariant `len(sa) = 0 ∨ SaIdx` —; with a rank array `g` that stands for the same set as the Go
    bitset it abstracts to the state the model reaches from `NewParser` with the abstracted history; every returned
    value — `n`, the error, the block — is the model's. -/
theorem gen_gsap_history (cfg : Gen.GSAPConfig) (s0 : Gen.gsap)
    (hinit : gsap_init default cfg = Res.ok (s0, Gen.Err.ok)) (sp : GsapSpecs lcp SS BI)
    (extra : Nat) (grow : Nat → Nat → Nat) (fuel : Nat)
    (hfuel : 2 * s0.ParserBuffer.BufConfig.BufferSize.toNat + 5 ≤ fuel)
    (ops : List GOpR) (hwf : ∀ op ∈ ops, op.WF) :
    ∃ p t rs g, newParser .GSAP (ofGSAP cfg) = some p ∧ ofGSAPs s0 GsapD.empty = p ∧
      runG extra grow fuel lcp SS BI s0 ops = Res.ok (t, rs) ∧ ParseOKG t ∧ GSim g (ofGW t) ∧
      ofGSAPs t g = (runOps (p, Ghost.init) (ops.map GOpR.abs)).1 ∧
      ghostRunR Ghost.init ops rs = (runOps (p, Ghost.init) (ops.map GOpR.abs)).2 ∧
      ResultsAgreeR (p, Ghost.init) ops rs := by
  obtain ⟨p, t, rs, g, hp, h2, k1, -, k2, -, kG, k3, k5⟩ :=
    gen_gsap_history_inv cfg s0 hinit sp extra grow fuel hfuel ops hwf
  exact ⟨p, t, rs, g, hp, h2, k1, k2.pok, kG, by rw [← k3], by rw [← k3], k5⟩

/-- … and `ParseOKG` (incl. `SaIdx`) holds in EVERY state the history passes through: after every prefix `ops.take k`
    the run is `Res.ok` with a state satisfying `ParseOKG`, and the whole run continues from that state. -/
theorem gen_gsap_history_states (cfg : Gen.GSAPConfig) (s0 : Gen.gsap)
    (hinit : gsap_init default cfg = Res.ok (s0, Gen.Err.ok)) (sp : GsapSpecs lcp SS BI)
    (extra : Nat) (grow : Nat → Nat → Nat) (fuel : Nat)
    (hfuel : 2 * s0.ParserBuffer.BufConfig.BufferSize.toNat + 5 ≤ fuel)
    (ops : List GOpR) (hwf : ∀ op ∈ ops, op.WF) (k : Nat) :
    ∃ tk rk t rs', runG extra grow fuel lcp SS BI s0 (ops.take k) = Res.ok (tk, rk) ∧ ParseOKG tk ∧
      (tk.sa.len = 0 ∨ SaIdx tk) ∧
      runG extra grow fuel lcp SS BI tk (ops.drop k) = Res.ok (t, rs') ∧
      runG extra grow fuel lcp SS BI s0 ops = Res.ok (t, rk ++ rs') := by
  obtain ⟨p, tk, rk, gk, hp, h2, k1, hbc, k2, hf, kG, k3, -⟩ :=
    gen_gsap_history_inv cfg s0 hinit sp extra grow fuel hfuel (ops.take k) (fun o ho => hwf o (List.mem_of_mem_take ho))
  obtain ⟨t, rs', g', j1, -⟩ := runG_sim hbc sp extra grow fuel hf (ofGSAP cfg) p hp (ops.drop k)
    ((ops.take k).map GOpR.abs) tk (ghostRunR Ghost.init (ops.take k) rk) gk k2 kG k3
    (fun o ho => hwf o (List.mem_of_mem_drop ho))
  refine ⟨tk, rk, t, rs', k1, k2.pok, k2.pok.idx, j1, ?_⟩
  have := runG_append extra grow fuel lcp SS BI (ops.take k) (ops.drop k) s0
  rw [List.take_append_drop, k1, bind_ok'] at this
  simp only at this
  rw [this, j1]; rfl

/-! ## the property theorems about the translation -/

/-- **C01 about the Go text of GSAP.**  `cfg` is any configuration for which the translated `gsap.init`, called on the
    zero value, returns `nil`; `lcp`, `suffix.Sort`, `bitset.insert` satisfy `GsapSpecs`.  Run any history of `Write(p)`,
    `ReadFrom(r)`, `Parse(&blk, flags)`, `Shrink()`, `Reset(data)` (slices with `len ≤ cap`, `flags ≥ 0`) on the TRANSLATED
    functions, with any capacity policy for `append` and any `fuel ≥ 2·BufferSize + 5`.  Then no call panics or runs out
    of fuel, and the reference decoder, applied to the blocks the translated `Parse` returned since the last successful
    `Reset`, yields exactly the first `consumed` bytes of what the translated `Write` / `ReadFrom` / `Reset` accepted. -/
theorem C01_go_text_gsap (cfg : Gen.GSAPConfig) (s0 : Gen.gsap)
    (hinit : gsap_init default cfg = Res.ok (s0, Gen.Err.ok)) (sp : GsapSpecs lcp SS BI)
    (extra : Nat) (grow : Nat → Nat → Nat) (fuel : Nat)
    (hfuel : 2 * s0.ParserBuffer.BufConfig.BufferSize.toNat + 5 ≤ fuel)
    (ops : List GOpR) (hwf : ∀ op ∈ ops, op.WF) :
    ∃ t rs, runG extra grow fuel lcp SS BI s0 ops = Res.ok (t, rs) ∧
      decode [] (ghostRunR Ghost.init ops rs).log =
        some ((ghostRunR Ghost.init ops rs).fed.take (ghostRunR Ghost.init ops rs).consumed) := by
  obtain ⟨p, t, rs, g, hp, -, h1, -, -, -, h4, -⟩ := gen_gsap_history cfg s0 hinit sp extra grow fuel hfuel ops hwf
  refine ⟨t, rs, h1, ?_⟩
  rw [h4]
  exact C01_roundtrip .GSAP (ofGSAP cfg) p hp (histHyp_of_ne .GSAP p (by decide)) (ops.map GOpR.abs)

/-- **C02 about the Go text of GSAP**: every sequence of every block the translated `Parse` returned has
    `1 ≤ Offset ≤ WindowSize`, `Offset ≤` the stream bytes before its match, `MatchLen ≥ MinMatchLen`, `Aux = 0`, and the
    `LitLen`s of a block do not exceed its literals. -/
theorem C02_go_text_gsap (cfg : Gen.GSAPConfig) (s0 : Gen.gsap)
    (hinit : gsap_init default cfg = Res.ok (s0, Gen.Err.ok)) (sp : GsapSpecs lcp SS BI)
    (extra : Nat) (grow : Nat → Nat → Nat) (fuel : Nat)
    (hfuel : 2 * s0.ParserBuffer.BufConfig.BufferSize.toNat + 5 ≤ fuel)
    (ops : List GOpR) (hwf : ∀ op ∈ ops, op.WF) :
    ∃ t rs, runG extra grow fuel lcp SS BI s0 ops = Res.ok (t, rs) ∧
      LogAll (fun pos e => ∀ n fl blk, e = .block n fl blk →
        SeqsAll (SeqWF s0.ParserBuffer.BufConfig.WindowSize.toNat s0.GSAPConfig.MinMatchLen.toNat) pos blk.seqs ∧
        litSum blk.seqs ≤ blk.lits.length) 0 (ghostRunR Ghost.init ops rs).log := by
  obtain ⟨p, t, rs, g, hp, h0, h1, -, -, -, h4, -⟩ := gen_gsap_history cfg s0 hinit sp extra grow fuel hfuel ops hwf
  subst h0
  refine ⟨t, rs, h1, ?_⟩
  rw [h4]
  exact C02_wellformed .GSAP (ofGSAP cfg) _ hp (histHyp_of_ne .GSAP _ (by decide)) (ops.map GOpR.abs)

/-- **C03 about the Go text of GSAP**: the blocks tile the consumed stream. -/
theorem C03_go_text_gsap (cfg : Gen.GSAPConfig) (s0 : Gen.gsap)
    (hinit : gsap_init default cfg = Res.ok (s0, Gen.Err.ok)) (sp : GsapSpecs lcp SS BI)
    (extra : Nat) (grow : Nat → Nat → Nat) (fuel : Nat)
    (hfuel : 2 * s0.ParserBuffer.BufConfig.BufferSize.toNat + 5 ≤ fuel)
    (ops : List GOpR) (hwf : ∀ op ∈ ops, op.WF) :
    ∃ t rs, runG extra grow fuel lcp SS BI s0 ops = Res.ok (t, rs) ∧
      let g := ghostRunR Ghost.init ops rs
      LogAll (fun pos e => 1 ≤ e.n ∧ e.n ≤ s0.ParserBuffer.BufConfig.BlockSize.toNat ∧
        pos + e.n ≤ g.fed.length ∧
        ∀ n fl blk, e = .block n fl blk →
          blk.len = n ∧ expand (g.fed.take pos) blk = some (g.fed.take (pos + n)) ∧
          (fl % 2 = 1 → blk.seqs ≠ [] → blk.lits.length = litSum blk.seqs ∧ n = seqsSpan blk.seqs)) 0 g.log ∧
      logSpan g.log = g.consumed ∧ g.consumed ≤ g.fed.length := by
  obtain ⟨p, t, rs, g, hp, h0, h1, -, -, -, h4, -⟩ := gen_gsap_history cfg s0 hinit sp extra grow fuel hfuel ops hwf
  subst h0
  refine ⟨t, rs, h1, ?_⟩
  intro gg
  have hg : gg = (runOps (ofGSAPs s0 GsapD.empty, Ghost.init) (ops.map GOpR.abs)).2 := h4
  have := C03_contiguous .GSAP (ofGSAP cfg) _ hp (histHyp_of_ne .GSAP _ (by decide)) (ops.map GOpR.abs)
  obtain ⟨a1, a2, a3, a4⟩ := this
  rw [hg]
  exact ⟨a1, a2, a4⟩

/-! ## C12 -/

theorem abs_notNil (ops : List GOpR) : ∀ op ∈ (ops.map GOpR.abs).map RunsOsap.toSap, op.notNil := by
  intro op hop
  simp only [List.mem_map] at hop
  obtain ⟨a, ⟨o, _, rfl⟩, rfl⟩ := hop
  cases o with
  | base b => cases b <;> exact trivial
  | readFrom r => exact trivial

/-- the number of bytes the next block covers, from the Go state: `min(len(s.Data) - s.W, BlockSize)` -/
def blockLen (t : Gen.gsap) : Nat :=
  Min.min (t.ParserBuffer.Data.data.length - t.ParserBuffer.W.toNat) t.ParserBuffer.BufConfig.BlockSize.toNat

/-- **C12 about the Go text of GSAP, greedy-longest-match clause.**  After ANY history of the translated operations
    (there is no `Parse(nil)` among them) the next `Parse(&blk, flags)` of the translated `gsap.Parse` returns a block
    whose sequences, read from the window head `W` over the buffered bytes `p = Data[:W+n]` (`n = min(len(Data) - W,
    BlockSize)`), satisfy `GreedySpec`: every emitted match is real (`1 ≤ Offset ≤` its position, inside the window,
    the two suffixes of `p` share exactly `MatchLen` bytes), has at least `MinMatchLen` bytes and EXACTLY the length
    `lpm p pos` of the longest match any earlier buffered position offers there (clipped at the block end); and if the
    block ends inside the window (`W + n ≤ WindowSize`) every literal position — in front of a match or behind the last
    one — had no earlier position offering `MinMatchLen` bytes. -/
theorem C12_go_text_gsap (cfg : Gen.GSAPConfig) (s0 : Gen.gsap)
    (hinit : gsap_init default cfg = Res.ok (s0, Gen.Err.ok)) (sp : GsapSpecs lcp SS BI)
    (extra : Nat) (grow : Nat → Nat → Nat) (fuel : Nat)
    (hfuel : 2 * s0.ParserBuffer.BufConfig.BufferSize.toNat + 5 ≤ fuel)
    (ops : List GOpR) (hwf : ∀ op ∈ ops, op.WF) (blk : Gen.Block') (flags : Int) (hfl : 0 ≤ flags) :
    ∃ t rs t' blk' n e, runG extra grow fuel lcp SS BI s0 ops = Res.ok (t, rs) ∧
      gsap_Parse grow fuel lcp SS BI t blk flags = Res.ok (t', blk', n, e) ∧
      (blockLen t ≠ 0 →
        let W := t.ParserBuffer.W.toNat
        let p := t.ParserBuffer.Data.data.take (W + blockLen t)
        let ws := t.ParserBuffer.BufConfig.WindowSize.toNat
        let mm := t.GSAPConfig.MinMatchLen.toNat
        Sap.GreedySpec p ws mm (W + blockLen t ≤ ws) W (ofBlock blk').seqs ∧
        (W + blockLen t ≤ ws → ∀ q, Sap.endPos W (ofBlock blk').seqs ≤ q → q < W + blockLen t → Sap.lpm p q < mm)) := by
  obtain ⟨p, t, rs, g, hp, h2, k1, hbc, k2, hf, kG, k3, -⟩ :=
    gen_gsap_history_inv cfg s0 hinit sp extra grow fuel hfuel ops hwf
  have hr1 : ofGSAPs t g = (runOps (p, Ghost.init) (ops.map GOpR.abs)).1 := by rw [← k3]
  obtain ⟨t', blk', g', j1, -, -, -, j4, -, -⟩ :=
    hist_parse hbc grow fuel sp t k2 g kG (ofGSAP cfg) p hp (ops.map GOpR.abs) hr1 blk flags hfl
      (by have := k2.len; omega)
  refine ⟨t, rs, t', blk', _, _, k1, j1, ?_⟩
  intro hn
  have hs : ofGSAPs t g = Sap.runOps p ((ops.map GOpR.abs).map RunsOsap.toSap) := by
    rw [hr1]; exact RunsOsap.runOps_fst_sap p _
  have hC := Sap.C12_longest_unconditional (ofGSAP cfg) p hp ((ops.map GOpR.abs).map RunsOsap.toSap) (abs_notNil ops)
    flags.toNat (by rw [← hs]; exact hn)
  rw [← hs] at hC
  rw [j4]
  exact hC

/-- **C12 about the Go text of GSAP, literal clause.**  "When the buffer is no larger than the window, a byte is
    emitted as a literal only if no earlier buffered position offers a match of at least `MinMatchLen` there": for a
    configuration with `BufferSize ≤ WindowSize` (after `SetDefaults`, as stored by `init`), after any history, in the
    block the translated `Parse` returns the sequences satisfy `GreedySpec` with the literal clause switched on, and for
    every position `q` emitted as a literal and every earlier buffered position `f < q` the common prefix of the
    block-clipped suffixes at `f` and `q` is shorter than `MinMatchLen`. -/
theorem C12_literal_go_text_gsap (cfg : Gen.GSAPConfig) (s0 : Gen.gsap)
    (hinit : gsap_init default cfg = Res.ok (s0, Gen.Err.ok)) (sp : GsapSpecs lcp SS BI)
    (hbw : s0.ParserBuffer.BufConfig.BufferSize.toNat ≤ s0.ParserBuffer.BufConfig.WindowSize.toNat)
    (extra : Nat) (grow : Nat → Nat → Nat) (fuel : Nat)
    (hfuel : 2 * s0.ParserBuffer.BufConfig.BufferSize.toNat + 5 ≤ fuel)
    (ops : List GOpR) (hwf : ∀ op ∈ ops, op.WF) (blk : Gen.Block') (flags : Int) (hfl : 0 ≤ flags) :
    ∃ t rs t' blk' n e, runG extra grow fuel lcp SS BI s0 ops = Res.ok (t, rs) ∧
      gsap_Parse grow fuel lcp SS BI t blk flags = Res.ok (t', blk', n, e) ∧
      (blockLen t ≠ 0 →
        let W := t.ParserBuffer.W.toNat
        let p := t.ParserBuffer.Data.data.take (W + blockLen t)
        let ws := t.ParserBuffer.BufConfig.WindowSize.toNat
        let mm := t.GSAPConfig.MinMatchLen.toNat
        Sap.GreedySpec p ws mm True W (ofBlock blk').seqs ∧
        ∀ q, q < W + blockLen t → Sap.LitPos W (ofBlock blk').seqs q →
          ∀ f, f < q → lcpLen (p.drop f) (p.drop q) < mm) := by
  obtain ⟨p, t, rs, g, hp, h2, k1, hbc, k2, hf, kG, k3, -⟩ :=
    gen_gsap_history_inv cfg s0 hinit sp extra grow fuel hfuel ops hwf
  have hr1 : ofGSAPs t g = (runOps (p, Ghost.init) (ops.map GOpR.abs)).1 := by rw [← k3]
  obtain ⟨t', blk', g', j1, -, -, -, j4, -, -⟩ :=
    hist_parse hbc grow fuel sp t k2 g kG (ofGSAP cfg) p hp (ops.map GOpR.abs) hr1 blk flags hfl
      (by have := k2.len; omega)
  refine ⟨t, rs, t', blk', _, _, k1, j1, ?_⟩
  intro hn
  have hs : ofGSAPs t g = Sap.runOps p ((ops.map GOpR.abs).map RunsOsap.toSap) := by
    rw [hr1]; exact RunsOsap.runOps_fst_sap p _
  have hbw' : p.buf.cfg.bufferSize ≤ p.buf.cfg.windowSize := by rw [← h2]; exact hbw
  have hC := Sap.C12_literal_only_if_buffer (ofGSAP cfg) p hp hbw' ((ops.map GOpR.abs).map RunsOsap.toSap)
    (abs_notNil ops) flags.toNat (by rw [← hs]; exact hn)
  rw [← hs] at hC
  rw [j4]
  exact hC

end

end LZ.GenGSAPHist

#print axioms LZ.GenGSAPHist.stepG_sim
#print axioms LZ.GenGSAPHist.runG_sim
#print axioms LZ.GenGSAPHist.runG_append
#print axioms LZ.GenGSAPHist.gen_gsap_history
#print axioms LZ.GenGSAPHist.gen_gsap_history_states
#print axioms LZ.GenGSAPHist.C01_go_text_gsap
#print axioms LZ.GenGSAPHist.C02_go_text_gsap
#print axioms LZ.GenGSAPHist.C03_go_text_gsap
#print axioms LZ.GenGSAPHist.C12_go_text_gsap
#print axioms LZ.GenGSAPHist.C12_literal_go_text_gsap
