/-
  LzProofs.Lex — order facts about `lexLe`, facts about `lcpLen`, the sandwich lemma.
-/
import LzModel.Suffix
namespace LZ

/-! ### `lexLe` is a total order on byte strings -/

theorem lexLe_refl : ∀ a : List Byte, lexLe a a = true
  | [] => by simp [lexLe]
  | x :: xs => by simp [lexLe, lexLe_refl xs]

theorem lexLe_total : ∀ a b : List Byte, lexLe a b = true ∨ lexLe b a = true
  | [], _ => by simp [lexLe]
  | _ :: _, [] => by simp [lexLe]
  | x :: xs, y :: ys => by
    simp only [lexLe, Bool.or_eq_true, Bool.and_eq_true, decide_eq_true_eq, beq_iff_eq]
    by_cases hxy : x = y
    · subst hxy
      rcases lexLe_total xs ys with h | h
      · exact Or.inl (Or.inr ⟨rfl, h⟩)
      · exact Or.inr (Or.inr ⟨rfl, h⟩)
    · rcases UInt8.lt_or_lt_of_ne hxy with h | h
      · exact Or.inl (Or.inl h)
      · exact Or.inr (Or.inl h)

theorem lexLe_trans : ∀ a b c : List Byte, lexLe a b = true → lexLe b c = true → lexLe a c = true
  | [], _, _ => by simp [lexLe]
  | _ :: _, [], _ => by simp [lexLe]
  | _ :: _, _ :: _, [] => by simp [lexLe]
  | x :: xs, y :: ys, z :: zs => by
    simp only [lexLe, Bool.or_eq_true, Bool.and_eq_true, decide_eq_true_eq, beq_iff_eq]
    intro hab hbc
    rcases hab with h1 | ⟨h1, h1'⟩
    · rcases hbc with h2 | ⟨h2, _⟩
      · exact Or.inl (UInt8.lt_trans h1 h2)
      · subst h2; exact Or.inl h1
    · subst h1
      rcases hbc with h2 | ⟨h2, h2'⟩
      · exact Or.inl h2
      · subst h2; exact Or.inr ⟨rfl, lexLe_trans xs ys zs h1' h2'⟩

theorem lexLe_antisymm : ∀ a b : List Byte, lexLe a b = true → lexLe b a = true → a = b
  | [], [] => by simp
  | [], _ :: _ => by simp [lexLe]
  | _ :: _, [] => by simp [lexLe]
  | x :: xs, y :: ys => by
    simp only [lexLe, Bool.or_eq_true, Bool.and_eq_true, decide_eq_true_eq, beq_iff_eq]
    intro hab hba
    rcases hab with h1 | ⟨h1, h1'⟩
    · rcases hba with h2 | ⟨h2, _⟩
      · exact absurd (UInt8.lt_trans h1 h2) (UInt8.lt_irrefl _)
      · subst h2; exact absurd h1 (UInt8.lt_irrefl _)
    · subst h1
      rcases hba with h2 | ⟨_, h2'⟩
      · exact absurd h2 (UInt8.lt_irrefl _)
      · rw [lexLe_antisymm xs ys h1' h2']

/-- `lexLe` in the form core's `mergeSort` lemmas want totality -/
theorem lexLe_total' (a b : List Byte) : (lexLe a b || lexLe b a) = true := by
  rcases lexLe_total a b with h | h <;> simp [h]

/-- a proper prefix / shorter equal string: not `≤` the other way round unless equal -/
theorem not_lexLe_of_lexLe_ne {a b : List Byte} (h : lexLe a b = true) (hne : a ≠ b) :
    lexLe b a = false := by
  cases hb : lexLe b a with
  | false => rfl
  | true => exact absurd (lexLe_antisymm a b h hb) hne

/-! ### sandwich lemma (kernel-checked prototype /tmp/agents/Lex.lean, re-proved for the model's defs) -/

theorem sandwich : ∀ (a b c : List Byte), lexLe a b = true → lexLe b c = true →
    lcpLen a c ≤ lcpLen a b ∧ lcpLen a c ≤ lcpLen b c := by
  intro a
  induction a with
  | nil => intro b c _ _; simp [lcpLen]
  | cons x xs ih =>
    intro b c hab hbc
    cases b with
    | nil => simp [lexLe] at hab
    | cons y ys =>
      cases c with
      | nil => simp [lexLe] at hbc
      | cons z zs =>
        simp only [lexLe, Bool.or_eq_true, Bool.and_eq_true, decide_eq_true_eq, beq_iff_eq] at hab hbc
        simp only [lcpLen]
        by_cases hxz : x = z
        · subst hxz
          have hxy : x = y := by
            rcases hab with h1 | ⟨h1, _⟩
            · rcases hbc with h2 | ⟨h2, _⟩
              · exact absurd (UInt8.lt_trans h1 h2) (UInt8.lt_irrefl _)
              · subst h2; exact absurd h1 (UInt8.lt_irrefl _)
            · exact h1
          subst hxy
          have h1 : lexLe xs ys = true := by
            rcases hab with h | ⟨_, h⟩
            · exact absurd h (UInt8.lt_irrefl _)
            · exact h
          have h2 : lexLe ys zs = true := by
            rcases hbc with h | ⟨_, h⟩
            · exact absurd h (UInt8.lt_irrefl _)
            · exact h
          have := ih ys zs h1 h2
          simp; omega
        · simp [hxz]

/-- the sandwich lemma is in fact an equality: `lcp(a,c) = min (lcp(a,b)) (lcp(b,c))` -/
theorem lcpLen_min_le : ∀ (a b c : List Byte), min (lcpLen a b) (lcpLen b c) ≤ lcpLen a c
  | [], _, _ => by simp [lcpLen]
  | _ :: _, [], _ => by simp [lcpLen]
  | _ :: _, _ :: _, [] => by simp [lcpLen]
  | x :: xs, y :: ys, z :: zs => by
    simp only [lcpLen]
    by_cases hxy : x = y
    · subst hxy
      by_cases hxz : x = z
      · subst hxz
        have := lcpLen_min_le xs ys zs
        simp; omega
      · simp [hxz]
    · simp [hxy]

theorem lcpLen_sandwich_eq (a b c : List Byte) (hab : lexLe a b = true) (hbc : lexLe b c = true) :
    lcpLen a c = min (lcpLen a b) (lcpLen b c) := by
  have h1 := sandwich a b c hab hbc
  have h2 := lcpLen_min_le a b c
  omega

/-! ### `lcpLen` facts -/

theorem lcpLen_comm : ∀ a b : List Byte, lcpLen a b = lcpLen b a
  | [], [] => rfl
  | [], _ :: _ => by simp [lcpLen]
  | _ :: _, [] => by simp [lcpLen]
  | x :: xs, y :: ys => by
    simp only [lcpLen]
    by_cases h : x = y
    · subst h; simp [lcpLen_comm xs ys]
    · have : ¬ y = x := fun h' => h h'.symm
      simp [h, this]

theorem lcpLen_le_left : ∀ a b : List Byte, lcpLen a b ≤ a.length
  | [], _ => by simp [lcpLen]
  | _ :: _, [] => by simp [lcpLen]
  | x :: xs, y :: ys => by
    simp only [lcpLen]
    have := lcpLen_le_left xs ys
    split <;> simp <;> omega

theorem lcpLen_le_right (a b : List Byte) : lcpLen a b ≤ b.length := by
  rw [lcpLen_comm]; exact lcpLen_le_left b a

@[simp] theorem lcpLen_nil_left (b : List Byte) : lcpLen [] b = 0 := by simp [lcpLen]
@[simp] theorem lcpLen_nil_right (a : List Byte) : lcpLen a [] = 0 := by
  cases a <;> simp [lcpLen]

theorem lcpLen_self : ∀ a : List Byte, lcpLen a a = a.length
  | [] => rfl
  | x :: xs => by simp [lcpLen, lcpLen_self xs]

/-- the first `lcpLen a b` bytes agree -/
theorem take_lcpLen : ∀ a b : List Byte, a.take (lcpLen a b) = b.take (lcpLen a b)
  | [], _ => by simp
  | _ :: _, [] => by simp
  | x :: xs, y :: ys => by
    simp only [lcpLen]
    by_cases h : x = y
    · subst h; simp [take_lcpLen xs ys]
    · simp [h]

/-- and the next bytes (if both exist) differ -/
theorem lcpLen_next_ne : ∀ (a b : List Byte) (h1 : lcpLen a b < a.length) (h2 : lcpLen a b < b.length),
    a[lcpLen a b] ≠ b[lcpLen a b]
  | [], _, h1, _ => by simp at h1
  | _ :: _, [], _, h2 => by simp at h2
  | x :: xs, y :: ys, h1, h2 => by
    by_cases h : x = y
    · subst h
      have e : lcpLen (x :: xs) (x :: ys) = lcpLen xs ys + 1 := by simp [lcpLen]
      simp only [e, List.getElem_cons_succ]
      simp only [e, List.length_cons] at h1 h2
      exact lcpLen_next_ne xs ys (by omega) (by omega)
    · have e : lcpLen (x :: xs) (y :: ys) = 0 := by simp [lcpLen, h]
      simp only [e, List.getElem_cons_zero]
      exact h

/-- splitting a common prefix: if `l ≤ lcpLen a b` the rest can be computed behind `l` -/
theorem lcpLen_drop : ∀ (l : Nat) (a b : List Byte), l ≤ lcpLen a b →
    lcpLen a b = l + lcpLen (a.drop l) (b.drop l)
  | 0, _, _, _ => by simp
  | l+1, [], _, h => by simp at h
  | l+1, _ :: _, [], h => by simp at h
  | l+1, x :: xs, y :: ys, h => by
    simp only [lcpLen] at h ⊢
    by_cases hxy : x = y
    · subst hxy
      simp only [if_true] at h ⊢
      have := lcpLen_drop l xs ys (by omega)
      simp only [List.drop_succ_cons]
      omega
    · simp [hxy] at h

/-- dropping one byte loses at most one common byte -/
theorem lcpLen_drop_one (a b : List Byte) : lcpLen a b - 1 ≤ lcpLen (a.drop 1) (b.drop 1) := by
  by_cases h : 1 ≤ lcpLen a b
  · have := lcpLen_drop 1 a b h; omega
  · omega

/-- tails of ordered strings with a common first byte are ordered -/
theorem lexLe_drop_one : ∀ (a b : List Byte), lexLe a b = true → 1 ≤ lcpLen a b →
    lexLe (a.drop 1) (b.drop 1) = true
  | [], _, _, h => by simp at h
  | _ :: _, [], _, h => by simp at h
  | x :: xs, y :: ys, hle, h => by
    simp only [lcpLen] at h
    by_cases hxy : x = y
    · subst hxy
      simp only [lexLe, Bool.or_eq_true, Bool.and_eq_true, decide_eq_true_eq, beq_iff_eq] at hle
      rcases hle with h' | ⟨_, h'⟩
      · exact absurd h' (UInt8.lt_irrefl _)
      · simpa using h'
    · simp [hxy] at h

/-! ### suffixes of one text -/

theorem drop_injective_of_le {t : List Byte} {i j : Nat} (hi : i ≤ t.length) (hj : j ≤ t.length)
    (h : t.drop i = t.drop j) : i = j := by
  have := congrArg List.length h
  simp only [List.length_drop] at this
  omega

/-- distinct suffixes of one text have different lengths, hence are different lists -/
theorem drop_ne_of_ne {t : List Byte} {i j : Nat} (hi : i ≤ t.length) (hj : j ≤ t.length)
    (h : i ≠ j) : t.drop i ≠ t.drop j := fun e => h (drop_injective_of_le hi hj e)

theorem length_drop_ne_of_ne {t : List Byte} {i j : Nat} (hi : i ≤ t.length) (hj : j ≤ t.length)
    (h : i ≠ j) : (t.drop i).length ≠ (t.drop j).length := by
  simp only [List.length_drop]; omega

end LZ
