/-
  LzProofs.GenOSAPParseLemmas — definitions and lemmas for LzProofs.GenOSAPParse (the translated
  `(*optSuffixArrayParser).Parse` of osap.go, LzModel/Generated/CodeOSAPParse.lean, against the range-checked model
  `Idx.parseOsapChk` of LzProofs/IdxOsap.lean):

    ofOD, ofOSAPs        abstraction maps (Go state ↦ `OsapD` / `Parser`)
    SPSpec               specification hypothesis of the translated `shortestPath` (proved in LzProofs.GenOSAPPath)
    ParseOKO             representation invariant of the Go state
    CESpec               specification hypothesis of the OPAQUE state-passing callee `computeEdges`
    parse_loop_eq        the loop `for j := len(sp)-1; j >= 0; j--` = `Idx.pathToSeqsChk` over the reversed slice
    pathToSeqsChk_facts  where `pathToSeqsChk` ends (`i' = i + pathLen`, `li ≤ li' ≤ i'`)
    shortestPathChk_facts  a successful `shortestPathChk` returns at most `n` edges of total length `n`
    computeEdgesChk_start  a successful `computeEdgesChk` sets `start = W`
  No sorry, no axioms of its own.
-/
import LzModel.Generated.CodeOSAPParse
import LzProofs.GenOSAPLemmas
import LzProofs.IdxOsap
import LzProofs.GenHPParse
import LzProofs.GenPropsCfgOSAP
import LzProofs.GenCallByName

set_option linter.unusedSimpArgs false
set_option linter.unusedVariables false

namespace LZ.GenOSAP
open LZ LZ.Gen LZ.GenBuf LZ.GenHash LZ.GenSuffix LZ.GenHPParse LZ.GenProps

/-! ## abstraction maps -/

/-- the model's edge table a Go `optSuffixArrayParser` stands for -/
def ofOD (s : Gen.optSuffixArrayParser) : OsapD := ⟨edgesAbs s.edges, s.start.toNat, s.nEdges.toNat⟩

/-- the model parser state a Go `optSuffixArrayParser` stands for -/
def ofOSAPs (s : Gen.optSuffixArrayParser) : Parser :=
  ⟨.OSAP, ofOSAP s.OSAPConfig, ofPB s.ParserBuffer, .osap (ofOD s)⟩

/-! ## the specification hypotheses of the two callees -/

/-- what LzProofs.GenOSAPPath proves of the translated `shortestPath` (`gen_osap_shortestPath`, same hypotheses in the
    same order): on a state whose `cost` is `XZCost`, with well-formed edge table, for a block of `n ≤ MaxInt32` bytes and
    fuel `n + len(q) + 2` for every edge list `q`, if the range-checked model `Idx.shortestPathChk` returns `path` then the
    Go text returns `p` with `path` appended in REVERSE order. -/
def SPSpec : Prop :=
  ∀ (grow : Nat → Nat → Nat) (fuel : Nat) (s : Gen.optSuffixArrayParser) (p : GSlice Gen.edge) (n : Int)
    (path : List Edge),
    s.cost = 1 → n ≤ 2147483647 → 0 ≤ s.ParserBuffer.W - s.start → GWF s.edges →
    (∀ q ∈ s.edges.data, GWF q) →
    0 ≤ s.OSAPConfig.MinMatchLen → s.OSAPConfig.MinMatchLen < 4294967296 → GWF p →
    (∀ q ∈ s.edges.data, n.toNat + q.len + 2 ≤ fuel) →
    Idx.shortestPathChk s.OSAPConfig.MinMatchLen.toNat n.toNat (edgesAbs s.edges)
      (s.ParserBuffer.W - s.start).toNat = some path →
    ∃ p', Gen.optSuffixArrayParser_shortestPath grow fuel s p n = Res.ok p' ∧
      p'.data.map edgeAbs = p.data.map edgeAbs ++ path.reverse ∧ GWF p'

/-- the hypotheses of `gen_osap_parse` on the Go state (`B` = a bound on the number of edges stored per position; it
    only bounds the fuel of the inner loop of `shortestPath`).  `Parse` preserves the bundle.
    * `pb`      representation invariant of the embedded `ParserBuffer` (`len ≤ cap`, `W, Off, ShrinkSize, BufferSize ≥ 0`):
                `ParserBuffer.Init`, kept by `Write / ReadFrom / Shrink / Reset` (GenBufPropsP)
    * `wedges`, `wq`  `s.edges` and every `s.edges[i]` are slice values with `len ≤ cap`: `computeEdges` builds them with
                `make` / reslicing / `append`; `len(s.edges[i]) ≤ B` is the abstract bound
    * `wtmp`    `len(s.tmp) ≤ cap(s.tmp)` (`s.tmp[:0]`; nil after `init`)
    * `cost`    the function field `cost` holds `XZCost` (code 1): `init` stores it for `cfg.Cost == "XZCost"`, the only
                value `Verify` accepts
    * `st0`, `ne0`  `s.start = s.W ≥ 0` and `s.nEdges` counts up from 0 in `computeEdges`; both 0 after `resetEdges`
    * `stw`     `s.start ≤ s.W` (`k := s.W - s.start` is a slice index): `computeEdges` sets `start = W`, `W` only grows
                until `Reset / Shrink`, which call `resetEdges` (`start = 0`) — `Sap.OsapHist` at model level
    * `cbs`     `Parse` reads `s.BlockSize` = `OSAPConfig.BlockSize`, the model the copy in `ParserBuffer.BufConfig`
                (`init`: `bufferConfig(&cfg)`)
    * `bs0`     `0 ≤ BlockSize` (`Verify`: `BlockSize > 0`)
    * `mm0`, `mm32`  `0 ≤ MinMatchLen < 2^32` (`Verify`: `2 ≤ MinMatchLen ≤ MaxMatchLen`; `m := uint32(s.MinMatchLen)`)
    * `w`, `small`  `W ≤ len(Data) ≤ MaxInt32` (`Verify`: `BufferSize ≤ MaxInt32`; `i := uint32(s.W)`, and `computeEdges`
                panics beyond)
    * `cws`, `ws0`, `mmx`  NOT used by the proof of `Parse`; they are part of the precondition of `CESpec`:
                `computeEdges` reads `s.WindowSize` = `OSAPConfig.WindowSize` (the model: the `BufConfig` copy),
                `doz(s.W, s.WindowSize)` is the model's truncated subtraction only for `WindowSize ≥ 0`, `Verify`:
                `MinMatchLen ≤ MaxMatchLen` -/
structure ParseOKO (B : Nat) (s : Gen.optSuffixArrayParser) : Prop where
  pb : PBWF s.ParserBuffer
  wedges : GWF s.edges
  wq : ∀ q ∈ s.edges.data, GWF q ∧ q.len ≤ B
  wtmp : GWF s.tmp
  cost : s.cost = 1
  st0 : 0 ≤ s.start
  ne0 : 0 ≤ s.nEdges
  stw : s.start ≤ s.ParserBuffer.W
  cbs : s.OSAPConfig.BlockSize.toNat = s.ParserBuffer.BufConfig.BlockSize.toNat
  bs0 : 0 ≤ s.OSAPConfig.BlockSize
  mm0 : 0 ≤ s.OSAPConfig.MinMatchLen
  mm32 : s.OSAPConfig.MinMatchLen < 4294967296
  w : s.ParserBuffer.W ≤ s.ParserBuffer.Data.len
  small : s.ParserBuffer.Data.len ≤ 2147483647
  cws : s.OSAPConfig.WindowSize.toNat = s.ParserBuffer.BufConfig.WindowSize.toNat
  ws0 : 0 ≤ s.OSAPConfig.WindowSize
  mmx : s.OSAPConfig.MinMatchLen ≤ s.OSAPConfig.MaxMatchLen

/-- the specification hypothesis of the opaque state-passing callee `computeEdges`: on a state satisfying the
    representation invariant, if the range-checked model `Idx.computeEdgesChk` (arguments as `Idx.parseOsapChk` passes
    them) returns the table `o`, the callee returns a state standing for `o` in which only `edgeBuf`, `edges`, `start`,
    `nEdges` changed, `start` and `nEdges` are non-negative (`s.start = s.W`, `s.nEdges` counts), and the edge table is
    well-formed with at most `B` edges per position. -/
def CESpec (B : Nat) (ce : Gen.optSuffixArrayParser → Res Gen.optSuffixArrayParser) : Prop :=
  ∀ (s : Gen.optSuffixArrayParser) (o : OsapD), ParseOKO B s →
    Idx.computeEdgesChk (ofOSAPs s).buf.data (ofOSAPs s).buf.w (ofOSAPs s).buf.cfg.windowSize (ofOSAPs s).minMatch
      (ofOSAPs s).cfg.maxMatchLen.toNat = some o →
    ∃ s', ce s = Res.ok s' ∧ ofOD s' = o ∧ s'.ParserBuffer = s.ParserBuffer ∧ s'.OSAPConfig = s.OSAPConfig ∧
      s'.cost = s.cost ∧ s'.tmp = s.tmp ∧ 0 ≤ s'.start ∧ 0 ≤ s'.nEdges ∧ GWF s'.edges ∧
      (∀ q ∈ s'.edges.data, GWF q ∧ q.len ≤ B)

/-! ## uint32 -/

theorem u32_self (x : UInt32) : UInt32.ofInt ((x.toNat : Nat) : Int) = x := by
  apply UInt32.toNat_inj.mp
  exact toNat_ofInt32 _ _ rfl (by have := UInt32.toNat_lt x; omega)

theorem u32_add (a b : UInt32) (h : a.toNat + b.toNat < 4294967296) : (a + b).toNat = a.toNat + b.toNat := by
  rw [UInt32.toNat_add, Nat.mod_eq_of_lt (by omega)]

theorem u32_eq_zero (x : UInt32) : x = 0 ↔ x.toNat = 0 := by
  constructor
  · intro h; rw [h]; rfl
  · intro h; apply UInt32.toNat_inj.mp; rw [h]; rfl

/-! ## the checked model: where the conversion ends -/

/-- `pathToSeqsChk` ends at `i + pathLen π`, with `li ≤ li' ≤ i'` -/
theorem pathToSeqsChk_facts (p : List Byte) : ∀ (π : List Edge) (i li : Nat) (seqs : List Seq) (lits : List Byte)
    (r : List Seq × List Byte × Nat × Nat), li ≤ i → Idx.pathToSeqsChk p π i li seqs lits = some r →
    r.2.2.1 = i + Sap.pathLen π ∧ li ≤ r.2.2.2 ∧ r.2.2.2 ≤ r.2.2.1
  | [], i, li, seqs, lits, r, hle, h => by
    unfold Idx.pathToSeqsChk at h
    injection h with h
    subst h
    simp only [Sap.pathLen_nil]
    omega
  | (m, o) :: rest, i, li, seqs, lits, r, hle, h => by
    unfold Idx.pathToSeqsChk at h
    simp only [Sap.pathLen_cons]
    by_cases ho : o = 0
    · simp only [ho, if_true] at h
      have := pathToSeqsChk_facts p rest (i + m) li seqs lits r (by omega) h
      omega
    · simp only [ho, if_false] at h
      cases hq : Idx.sliceChk p li i with
      | none => rw [hq] at h; cases h
      | some q =>
        rw [hq] at h
        have := pathToSeqsChk_facts p rest (i + m) (i + m) _ _ r (Nat.le_refl _) h
        omega

theorem backtrackChk_length (d : Array Opt) : ∀ (fuel i : Nat) (acc r : List Edge),
    Idx.backtrackChk d fuel i acc = some r → r.length ≤ acc.length + fuel := by
  intro fuel
  induction fuel with
  | zero =>
    intro i acc r h
    unfold Idx.backtrackChk at h
    split at h
    · injection h with h; subst h; omega
    · cases h
  | succ fuel ih =>
    intro i acc r h
    unfold Idx.backtrackChk at h
    split at h
    · injection h with h; subst h; omega
    · cases hd : d[i]? with
      | none => rw [hd] at h; cases h
      | some e =>
        rw [hd] at h
        simp only at h
        split at h
        · have := ih _ _ _ h
          simp only [List.length_cons] at this
          omega
        · cases h

/-- a successful `shortestPathChk` for a block of `n ≥ 1` bytes: at most `n` edges (the fuel of the back-tracking), of
    total length `n` (`Sap.shortestPath_len`) -/
theorem shortestPathChk_facts (mm n : Nat) (edges : Array (List Edge)) (k0 : Nat) (path : List Edge) (hn : n ≠ 0)
    (h : Idx.shortestPathChk mm n edges k0 = some path) : path.length ≤ n ∧ Sap.pathLen path = n := by
  have he : k0 + n ≤ edges.size := by
    unfold Idx.shortestPathChk at h
    by_cases hc : k0 + n ≤ edges.size
    · exact hc
    · rw [if_neg hc] at h; cases h
  constructor
  · unfold Idx.shortestPathChk at h
    rw [if_pos he] at h
    simp only at h
    split at h
    · cases h
    · rw [if_neg hn] at h
      split at h
      · cases h
      · have := backtrackChk_length _ _ _ _ _ h
        simpa using this
  · rw [Idx.shortestPathChk_eq mm n edges k0 hn he] at h
    injection h with h
    rw [← h]
    exact Sap.shortestPath_len mm n edges k0

/-- a successful `computeEdgesChk` sets `start = W` -/
theorem computeEdgesChk_start (data : List Byte) (w ws mm mx : Nat) (o : OsapD)
    (h : Idx.computeEdgesChk data w ws mm mx = some o) : o.start = w := by
  unfold Idx.computeEdgesChk at h
  simp only at h
  repeat' split at h
  all_goals first
    | (cases h; rfl)
    | cases h

/-! ## the loop of `Parse` -/

theorem take_drop_take (A : List UInt8) (len a b : Nat) (hb : b ≤ len) :
    ((A.take len).drop a).take (b - a) = (A.drop a).take (b - a) := by
  rw [List.drop_take, List.take_take, Nat.min_eq_left (by omega)]

/-- **the loop `for j := len(sp) - 1; j >= 0; j-- { … }`** walks `sp` from the end: it is `Idx.pathToSeqsChk` over the
    reversed elements of `sp[:j+1]`.  No uint32 wrap-around as long as `i + pathLen < 2^32`. -/
theorem parse_loop_eq (grow : Nat → Nat → Nat) (ce : Gen.optSuffixArrayParser → Res Gen.optSuffixArrayParser)
    (sp : GSlice Gen.edge) (hsp : GWF sp) (p : Slice) (hp : SWF p) :
    ∀ (j : Nat) (π : List Edge), j ≤ sp.len → ((sp.data.take j).map edgeAbs).reverse = π →
    ∀ (fuel : Nat) (blk : Block') (i li : UInt32) (jI : Int) (iN liN : Nat) (seqs : List Seq) (lits : List Byte)
      (r : List Seq × List Byte × Nat × Nat),
      jI = (j : Int) - 1 → j + 1 ≤ fuel → i.toNat = iN → li.toNat = liN → iN + Sap.pathLen π < 4294967296 →
      blk.Sequences = seqs.map seqRep → blk.Literals.data = lits → SWF blk.Literals →
      Idx.pathToSeqsChk p.data π iN liN seqs lits = some r →
      -- the loop function applied and its state tuple built BY GO VARIABLE NAME (`gcall%` / `gstate%`,
      -- LzProofs/GenCallByName.lean): declaring `litIndex` before `i` swaps two components of the state
      ∃ blk' i' li' j', (gcall% Gen.optSuffixArrayParser_Parse_loop_1 [grow := grow, optSuffixArrayParser_computeEdges := ce,
          sp := sp, p := p, fuel := fuel, blk := blk, i := i, litIndex := li, j := jI]) =
          Res.ok (gstate% Gen.optSuffixArrayParser_Parse_loop_1 [blk := blk', i := i', litIndex := li', j := j']) ∧
        blk'.Sequences = r.1.map seqRep ∧ blk'.Literals.data = r.2.1 ∧ SWF blk'.Literals ∧
        i'.toNat = r.2.2.1 ∧ li'.toNat = r.2.2.2 := by
  intro j
  induction j with
  | zero =>
    intro π hj hπ fuel blk i li jI iN liN seqs lits r hjI hf hi hli hb hseq hlit hswf hr
    simp only [List.take_zero, List.map_nil, List.reverse_nil] at hπ
    subst hπ
    unfold Idx.pathToSeqsChk at hr
    injection hr with hr
    subst hr
    obtain ⟨f, rfl⟩ : ∃ f, fuel = f + 1 := ⟨fuel - 1, by omega⟩
    refine ⟨blk, i, li, jI, ?_, hseq, hlit, hswf, hi, hli⟩
    unfold Gen.optSuffixArrayParser_Parse_loop_1
    rw [if_neg (by omega)]
  | succ j ih =>
    intro π hj hπ fuel blk i li jI iN liN seqs lits r hjI hf hi hli hb hseq hlit hswf hr
    obtain ⟨f, rfl⟩ : ∃ f, fuel = f + 1 := ⟨fuel - 1, by omega⟩
    have hjl : j < sp.len := by omega
    have hjd : j < sp.data.length := by rw [gdata_length hsp]; exact hjl
    have hgl : sp.len ≤ sp.arr.length := hsp
    have hel : sp.data[j]? = some ((sp.arr[j]?).getD ({ m := 0, o := 0 } : Gen.edge)) := by
      rw [gdata_getElem?, if_pos hjl, List.getElem?_eq_getElem (by omega)]
      rfl
    generalize he : (sp.arr[j]?).getD ({ m := 0, o := 0 } : Gen.edge) = e at hel
    have hπ' : π = (e.m.toNat, e.o.toNat) :: ((sp.data.take j).map edgeAbs).reverse := by
      rw [← hπ, List.take_add_one, hel]
      simp [edgeAbs]
    subst hπ'
    simp only [Sap.pathLen_cons] at hb
    have hadd : (i + e.m).toNat = iN + e.m.toNat := by rw [u32_add _ _ (by omega), hi]
    unfold Gen.optSuffixArrayParser_Parse_loop_1
    rw [if_pos (by omega), gindex_ok _ sp jI j (by omega) hjl, bind_ok, he]
    unfold Idx.pathToSeqsChk at hr
    by_cases ho : e.o = 0
    · have ho' : e.o.toNat = 0 := (u32_eq_zero _).mp ho
      simp only [ho', if_true] at hr
      simp only [ho, if_true]
      exact ih _ (by omega) rfl f blk (i + e.m) li (jI - 1) (iN + e.m.toNat) liN seqs lits r (by omega) (by omega)
        hadd hli (by omega) hseq hlit hswf hr
    · have ho' : ¬ e.o.toNat = 0 := fun hc => ho ((u32_eq_zero _).mpr hc)
      simp only [ho', if_false] at hr
      -- the test `e.o == 0` with the operands either way round
      have ho2 : ¬ ((0 : UInt32) = e.o) := fun hc => ho hc.symm
      simp only [ho, ho2, if_false]
      have hpl : p.data.length = p.len := data_length hp
      have hpa : p.len ≤ p.arr.length := hp
      by_cases hq : liN ≤ iN ∧ iN ≤ p.data.length
      · simp only [Idx.sliceChk, hq, and_self, if_true] at hr
        rw [slice_okI p _ _ liN iN (by rw [← hli]; rfl) (by rw [← hi]; rfl) hq.1 (by omega), bind_ok]
        refine ih _ (by omega) rfl f _ (i + e.m) (i + e.m) (jI - 1) (iN + e.m.toNat) (iN + e.m.toNat) _ _ r
          (by omega) (by omega) hadd hadd (by omega) ?_ ?_ ?_ hr
        · show blk.Sequences ++ [_] = List.map seqRep (seqs ++ [_])
          rw [List.map_append, hseq, List.map_singleton]
          congr 2
          unfold seqRep
          simp only [u32_self]
          congr 2
          show ((iN - liN : Nat) : Int) = _
          rw [List.length_take, List.length_drop]
          omega
        · show (Slice.append grow blk.Literals _).data = _
          rw [(append_spec grow blk.Literals hswf _).1, hlit]
          congr 1
          show (p.arr.drop liN).take (iN - liN) = ((p.arr.take p.len).drop liN).take (iN - liN)
          rw [take_drop_take _ _ _ _ (by omega)]
        · exact swf_append grow _ hswf _
      · simp only [Idx.sliceChk, hq, if_false] at hr
        cases hr

end LZ.GenOSAP
