/-
  LzProofs.AcceptCompose — property C07 (c): parser output fed to the decoder.

  The parser proofs (LzProofs.ParseProps …) and the decoder proofs (LzProofs.DecoderProps …) both
  define `LZ.copyRef_prepend` / `LZ.expandSeqs_prepend`, so they cannot be imported into one file.
  This file imports the parser side through LzProofs.AcceptParse and the decoder side through
  LzProofs.AccProps, a GENERATED verbatim copy of LzProofs.AcceptProps on top of generated copies
  of DecoderLemmas / DecoderProps / DecoderWB in which only those two lemma names carry the suffix
  `_d` (script `gen_acc.sh`; all definitions — `DecBuf.Inv`, `Decoder.log`, `Hist`, `Decoder.Good`,
  `Decoder.feedAll`, … — are textually identical to the originals).
-/
import LzProofs.AcceptProps
import LzProofs.AcceptParse
namespace LZ
open Decoder

/-- **C07 (c), partial: parser → decoder.**
    A parser `s0` created by `NewParser` (any kind, any accepted configuration; OSAP relative to
    `HistHyp`), any history `ops` of Write / ReadFrom / Parse / Parse(nil) / Shrink / Reset.  Let
    `items` be what was emitted since the last Reset (blocks; segments skipped by `Parse(nil)` are
    passed verbatim with `Decoder.Write`).
    A decoder `d` in a `Good` state with empty log (fresh from `Init`/`Reset`, `C07_good_init`),
    a writer that does not fail, a window at least as large as the parser's, any growth function.
    If every emitted sequence has `LitLen + MatchLen ≤ BufferSize - WindowSize` of the decoder
    (`hfit`), then every item is accepted, `Flush` succeeds and the writer has received exactly
    `fed.take consumed`: the original bytes the parser consumed.
    Full statement (FALSE, `C07_counter` + `C07_parser_emits_long_sequence` below): without `hfit`. -/
theorem C07_parser_to_decoder_partial (k : Kind) (raw : Cfg) (s0 : Parser)
    (h0 : newParser k raw = some s0) (hH : HistHyp k s0) (ops : List POp)
    (g : Grow) (d : Decoder) (hd : Good d) (hlog : d.log = []) (hw : d.w.resps = [])
    (hws : s0.buf.cfg.windowSize ≤ d.buf.ws)
    (hfit : EventsFit (d.buf.bs - d.buf.ws) ((runOps (s0, Ghost.init) ops).2.log.map Event.toD)) :
    let gh := (runOps (s0, Ghost.init) ops).2
    let items := gh.log.map Event.toD
    (d.feedAll g items).2 = .ok ∧ (d.feedAll g items).1.flush.2 = .ok ∧
    (d.feedAll g items).1.flush.1.w.got = gh.fed.take gh.consumed := by
  intro gh items
  obtain ⟨p1, _, p3⟩ := parser_log_wellformed k raw s0 h0 hH ops
  have hwf : WellFormedEvents d.buf.ws d.log items := by
    rw [hlog]; exact WellFormedEvents.mono hws _ _ p1
  obtain ⟨a1, a2, a3, _⟩ := C07_events_partial g items d hd hw hwf hfit
  refine ⟨a1, a2, ?_⟩
  rw [hlog] at a3
  have p3' : refDecode [] items = some (gh.fed.take gh.consumed) := p3
  rw [p3'] at a3
  exact (Option.some.inj a3).symm

/-- **C07 (c), static form.**  Every sequence a parser emits is at most `BlockSize` bytes long, so
    `BlockSize ≤ BufferSize - WindowSize` (decoder) suffices: e.g. the decoder's default
    `BufferSize = 2·WindowSize` with `BlockSize ≤ WindowSize`. -/
theorem C07_parser_to_decoder_blockSize (k : Kind) (raw : Cfg) (s0 : Parser)
    (h0 : newParser k raw = some s0) (hH : HistHyp k s0) (ops : List POp)
    (g : Grow) (d : Decoder) (hd : Good d) (hlog : d.log = []) (hw : d.w.resps = [])
    (hws : s0.buf.cfg.windowSize ≤ d.buf.ws)
    (hbs : s0.buf.cfg.blockSize ≤ d.buf.bs - d.buf.ws) :
    let gh := (runOps (s0, Ghost.init) ops).2
    let items := gh.log.map Event.toD
    (d.feedAll g items).2 = .ok ∧ (d.feedAll g items).1.flush.2 = .ok ∧
    (d.feedAll g items).1.flush.1.w.got = gh.fed.take gh.consumed :=
  C07_parser_to_decoder_partial k raw s0 h0 hH ops g d hd hlog hw hws
    (EventsFit.mono hbs _ (parser_log_wellformed k raw s0 h0 hH ops).2.1)

/-- any writer: no item of parser output is ever refused by the decoder (the result of feeding is
    `nil` or an error of the writer) under the same hypotheses, for every writer script -/
theorem C07_parser_to_decoder_never_refused (k : Kind) (raw : Cfg) (s0 : Parser)
    (h0 : newParser k raw = some s0) (hH : HistHyp k s0) (ops : List POp)
    (g : Grow) (d : Decoder) (hd : Good d) (hlog : d.log = [])
    (hws : s0.buf.cfg.windowSize ≤ d.buf.ws)
    (hbs : s0.buf.cfg.blockSize ≤ d.buf.bs - d.buf.ws) :
    let items := (runOps (s0, Ghost.init) ops).2.log.map Event.toD
    (d.feedAll g items).2 = .ok ∨ WErr (d.feedAll g items).2 := by
  intro items
  obtain ⟨p1, p2, _⟩ := parser_log_wellformed k raw s0 h0 hH ops
  exact (C07_events_never_refused g items d hd
    (by rw [hlog]; exact WellFormedEvents.mono hws _ _ p1) (EventsFit.mono hbs _ p2)).1

/-! ## non-vacuity -/

section Examples

/-- HP with the configuration `exCfg` of ParseProps (WindowSize 64, BlockSize 32) -/
example : ∃ s0, newParser .HP exCfg = some s0 ∧ HistHyp .HP s0 ∧
    s0.buf.cfg.windowSize = 64 ∧ s0.buf.cfg.blockSize = 32 := by
  have h : (newParser .HP exCfg).isSome = true := by decide
  obtain ⟨s0, hs⟩ := Option.isSome_iff_exists.mp h
  refine ⟨s0, hs, histHyp_of_ne _ _ (by decide), ?_, ?_⟩
  · unfold newParser at hs
    simp only [] at hs
    split at hs
    · cases hs; rfl
    · cases hs
  · unfold newParser at hs
    simp only [] at hs
    split at hs
    · cases hs; rfl
    · cases hs

/-- a decoder for it: WindowSize 64, BufferSize 128 (`DecoderConfig{64, 0}` gives this) -/
example : ∃ b, DecBuf.init 64 0 0 = some b ∧ b.ws = 64 ∧ b.bs = 128 ∧
    Good { buf := b, w := ⟨[], []⟩ } ∧ ({ buf := b, w := ⟨[], []⟩ } : Decoder).log = [] ∧
    32 ≤ b.bs - b.ws := by
  refine ⟨⟨[], 0, 0, 64, 128, 0⟩, by rfl, rfl, rfl, ?_, ?_, by decide⟩
  · exact (C07_good_init (ws := 64) (bs := 0) (precap := 0) (by rfl) ⟨[], []⟩ rfl).1
  · rfl

/-- HP with WindowSize 4 (accepted by `Verify`) -/
def exCfg4 : Cfg := { exCfg with windowSize := 4 }

example : (newParser .HP exCfg4).isSome = true := by decide

/-- the HP state after `Write("abcabcabcab")` on a fresh parser with configuration `exCfg4` -/
def exState4 : Parser :=
  { kind := .HP, cfg := setDefaults .HP (exCfg4.restrict .HP),
    buf := { data := exData, w := 0, off := 0, cap := 71,
             cfg := (setDefaults .HP (exCfg4.restrict .HP)).bufCfg },
    dict := freshDict .HP (setDefaults .HP (exCfg4.restrict .HP)) }

/-- **the refusal is reachable with genuine parser output.**  The HP parser with WindowSize 4 and
    "abcabcabcab" buffered emits the block `exBlock` (3 literals, one match of length 8 at
    offset 3).  A fresh decoder with the same window, `DecoderConfig{WindowSize: 4, BufferSize: 6}`
    (accepted by `Verify`), refuses this block with `errMatchLen`: `3 + 8 > 6 - 4`. -/
theorem C07_parser_emits_long_sequence :
    (exState4.parse 0).2 = (11, .ok, exBlock) ∧ exState4.buf.cfg.windowSize = 4 ∧
    DecBuf.init 4 6 0 = some ⟨[], 0, 0, 4, 6, 0⟩ ∧
    (Decoder.writeBlock (fun _ n => n) ⟨⟨[], 0, 0, 4, 6, 0⟩, ⟨[], []⟩⟩ exBlock.seqs exBlock.lits 0 0 0).2
      = (0, 0, 0, Err.matchLen) := by
  refine ⟨?_, by decide, by rfl, ?_⟩
  · rw [Parser.parse_single exState4 0 _ rfl (by decide)
      (Parser.marginOK_of_cap _ (Or.inr (by decide)) (by decide))]
    simp only [runGreedy_eq_fuel]
    decide
  · simp [Decoder.writeBlock, DecBuf.writeBlock, DecBuf.seqLoop, DecBuf.shrink, exBlock]

end Examples

end LZ

#print axioms LZ.C07_parser_to_decoder_partial
#print axioms LZ.C07_parser_to_decoder_blockSize
#print axioms LZ.C07_parser_to_decoder_never_refused
#print axioms LZ.C07_parser_emits_long_sequence
