/-
  LzProofs.ParseHist — histories of parser operations (Write, ReadFrom, Parse(&blk, flags),
  Parse(nil), Shrink, Reset) with ghost state: the bytes fed since the last Reset, the number
  of them consumed, and the log of emitted blocks / skipped segments.  The invariant
  ties the model's buffer (`Data`, `W`, `Off`) to the ghost stream and yields the
  history-level statements of C01, C02, C03 and C14.
-/
import LzProofs.ParseOsap
import LzProofs.ParseBuf
namespace LZ

/-- the operations of a parser history -/
inductive POp where
  | write (p : List Byte)
  | readFrom (r : Reader)
  | parse (flags : Nat)
  | parseNil
  | shrink
  | reset (data : List Byte) (capExtra : Nat)

/-- what a decoder receives: a block, or (for `Parse(nil)`) the skipped bytes verbatim -/
inductive Event where
  | block (n flags : Nat) (blk : Block)
  | skip (bytes : List Byte)

/-- number of stream bytes an event accounts for (`n` of the `Parse` call) -/
def Event.n : Event → Nat
  | .block n _ _ => n
  | .skip b => b.length

structure Ghost where
  /-- all bytes accepted by Write / ReadFrom / Reset(data) since the last successful Reset -/
  fed : List Byte
  /-- sum of the `n` returned by successful Parse calls since the last successful Reset -/
  consumed : Nat
  /-- the events since the last successful Reset, in order -/
  log : List Event

def Ghost.init : Ghost := { fed := [], consumed := 0, log := [] }

/-- one operation on the model, with the ghost bookkeeping -/
def step (sg : Parser × Ghost) : POp → Parser × Ghost
  | .write p =>
    let r := sg.1.write p
    (r.1, { sg.2 with fed := sg.2.fed ++ p.take r.2.1 })
  | .readFrom rd =>
    let r := sg.1.readFrom rd
    (r.1, { sg.2 with fed := sg.2.fed ++ rd.payload.take r.2.2.1 })
  | .parse flags =>
    let r := sg.1.parse flags
    if r.2.2.1 = .ok then
      (r.1, { sg.2 with consumed := sg.2.consumed + r.2.1,
                        log := sg.2.log ++ [.block r.2.1 flags r.2.2.2] })
    else (r.1, sg.2)
  | .parseNil =>
    let r := sg.1.parseNil
    if r.2.2 = .ok then
      (r.1, { sg.2 with consumed := sg.2.consumed + r.2.1,
                        log := sg.2.log ++ [.skip ((sg.2.fed.drop sg.2.consumed).take r.2.1)] })
    else (r.1, sg.2)
  | .shrink => (sg.1.shrink.1, sg.2)
  | .reset data capExtra =>
    let r := sg.1.reset data capExtra
    if r.2 = .ok then (r.1, { fed := data, consumed := 0, log := [] }) else (r.1, sg.2)

def runOps (sg : Parser × Ghost) (ops : List POp) : Parser × Ghost := ops.foldl step sg

/-! ## the log -/

def logSpan (es : List Event) : Nat := (es.map Event.n).sum

/-- `P pos e` for every event, `pos` = stream position (since Reset) where the event starts -/
def LogAll (P : Nat → Event → Prop) : Nat → List Event → Prop
  | _, [] => True
  | pos, e :: es => P pos e ∧ LogAll P (pos + e.n) es

@[simp] theorem logSpan_nil : logSpan [] = 0 := rfl
@[simp] theorem logSpan_cons (e : Event) (es : List Event) : logSpan (e :: es) = e.n + logSpan es := by
  simp [logSpan]
@[simp] theorem logSpan_append (a b : List Event) : logSpan (a ++ b) = logSpan a + logSpan b := by
  simp [logSpan]

theorem LogAll_append (P : Nat → Event → Prop) (pos : Nat) (a b : List Event) :
    LogAll P pos (a ++ b) ↔ LogAll P pos a ∧ LogAll P (pos + logSpan a) b := by
  induction a generalizing pos with
  | nil => simp [LogAll]
  | cons e es ih =>
    simp only [List.cons_append, LogAll, ih, logSpan_cons]
    rw [← Nat.add_assoc, and_assoc]

theorem LogAll.mono {P Q : Nat → Event → Prop} (h : ∀ pos e, P pos e → Q pos e) :
    ∀ (pos : Nat) (es : List Event), LogAll P pos es → LogAll Q pos es := by
  intro pos es
  induction es generalizing pos with
  | nil => intro _; trivial
  | cons e es ih => intro ⟨a, b⟩; exact ⟨h _ _ a, ih _ b⟩

/-- The per-event guarantee relative to the stream `fed`: window size `ws`, minimum match
    length `mm`, block size `bs`.  `pos` is the number of stream bytes before the event. -/
def EventOK (fed : List Byte) (ws mm bs : Nat) (pos : Nat) : Event → Prop
  | .block n _flags blk =>
    1 ≤ n ∧ n ≤ bs ∧ pos + n ≤ fed.length ∧
    expand (fed.take pos) blk = some (fed.take (pos + n)) ∧          -- C01
    blk.len = n ∧                                                   -- C03
    SeqsAll (SeqWF ws mm) pos blk.seqs ∧ litSum blk.seqs ≤ blk.lits.length ∧  -- C02
    -- C03, NoTrailingLiterals with a match: exactly the claimed literals, `n` = end of last match
    (_flags % 2 = 1 → blk.seqs ≠ [] → blk.lits.length = litSum blk.seqs ∧ n = seqsSpan blk.seqs)
  | .skip b =>
    1 ≤ b.length ∧ b.length ≤ bs ∧ pos + b.length ≤ fed.length ∧
    b = (fed.drop pos).take b.length                                -- C14

theorem EventOK.append {fed : List Byte} {ws mm bs pos : Nat} {e : Event}
    (h : EventOK fed ws mm bs pos e) (x : List Byte) : EventOK (fed ++ x) ws mm bs pos e := by
  cases e with
  | block n flags blk =>
    obtain ⟨a1, a2, a3, a4, a5, a6, a7⟩ := h
    refine ⟨a1, a2, by simp; omega, ?_, a5, a6, a7⟩
    rw [List.take_append_of_le_length (by omega), List.take_append_of_le_length (by omega)]
    exact a4
  | skip b =>
    obtain ⟨a1, a2, a3, a4⟩ := h
    refine ⟨a1, a2, by simp; omega, ?_⟩
    rw [List.drop_append_of_le_length (by omega), List.take_append_of_le_length (by simp; omega)]
    exact a4

/-- the reference decoder over a log: blocks are expanded, skipped bytes appended verbatim -/
def decode : List Byte → List Event → Option (List Byte)
  | out, [] => some out
  | out, .block _ _ blk :: es =>
    match expand out blk with
    | some out' => decode out' es
    | none => none
  | out, .skip b :: es => decode (out ++ b) es

/-- C01 from the per-event guarantee -/
theorem decode_of_logAll (fed : List Byte) (ws mm bs : Nat) :
    ∀ (es : List Event) (pos : Nat), pos ≤ fed.length → LogAll (EventOK fed ws mm bs) pos es →
      decode (fed.take pos) es = some (fed.take (pos + logSpan es)) := by
  intro es
  induction es with
  | nil => intro pos _ _; simp [decode]
  | cons e es ih =>
    intro pos hpos ⟨he, hes⟩
    cases e with
    | block n flags blk =>
      obtain ⟨a1, a2, a3, a4, a5, a6, a7⟩ := he
      simp only [decode, a4, logSpan_cons, Event.n]
      rw [ih (pos + n) a3 hes, Nat.add_assoc]
    | skip b =>
      obtain ⟨a1, a2, a3, a4⟩ := he
      simp only [decode, logSpan_cons, Event.n]
      have : fed.take pos ++ b = fed.take (pos + b.length) := by
        rw [List.take_add]; congr 1
      rw [this, ih (pos + b.length) a3 hes, Nat.add_assoc]

/-! ## the invariant -/

/-- `minMatch` as a function of the (constant) kind and configuration -/
def mmOf (k : Kind) (c : Cfg) : Nat :=
  ({ kind := k, cfg := c, buf := default, dict := default } : Parser).minMatch

theorem minMatch_eq (s : Parser) : s.minMatch = mmOf s.kind s.cfg := rfl

/-- the invariant of OSAP's edge table `o` for buffer `data` and head `w`: it starts at or
    before `w` and was computed for a prefix `data0` of the buffer (Write/ReadFrom only append),
    covers only positions inside `data0`, and is sound for every block inside `data0` -/
def OsapOK (data : List Byte) (w ws mx : Nat) (o : OsapD) : Prop :=
  o.start ≤ w ∧ ∃ data0 x, data = data0 ++ x ∧ o.start + o.edges.size ≤ data0.length ∧
    ∀ w' n, o.start ≤ w' → w' + n ≤ data0.length →
      EdgesSoundBlock (data0.take (w' + n)) w' ws mx n o.edges (w' - o.start)

/-- what is known about the search structure: nothing for the six greedy parsers; for OSAP
    the stored edge table satisfies `OsapOK` -/
def DictOK (k : Kind) (s : Parser) : Prop :=
  match s.dict with
  | .osap o => k = .OSAP ∧
      OsapOK s.buf.data s.buf.w s.buf.cfg.windowSize s.cfg.maxMatchLen.toNat o
  | _ => True

/-- Invariant of a parser history for constant kind `k`, configuration `c` and buffer
    configuration `bc`. -/
structure Inv (k : Kind) (c : Cfg) (bc : BufCfg) (sg : Parser × Ghost) : Prop where
  kind : sg.1.kind = k
  cfg : sg.1.cfg = c
  bcfg : sg.1.buf.cfg = bc
  hw : sg.1.buf.w ≤ sg.1.buf.data.length
  cap : sg.1.buf.CapOK
  /-- the buffer holds the tail of the stream; `Off` bytes have been dropped by Shrink -/
  fed : ∃ dropped, sg.2.fed = dropped ++ sg.1.buf.data ∧ dropped.length = sg.1.buf.off
  /-- `Off + W` is the number of consumed stream bytes -/
  consumed : sg.2.consumed = sg.1.buf.off + sg.1.buf.w
  log : LogAll (EventOK sg.2.fed bc.windowSize (mmOf k c) bc.blockSize) 0 sg.2.log
  span : logSpan sg.2.log = sg.2.consumed
  dict : DictOK k sg.1

/-- the static side conditions every accepted configuration satisfies; for OSAP additionally
    the named hypothesis that `computeEdges` is sound -/
structure Static (k : Kind) (c : Cfg) (bc : BufCfg) : Prop where
  mm : 1 ≤ mmOf k c
  bs : 1 ≤ bc.blockSize
  edges : k = .OSAP → ∀ data w w' n, w ≤ w' → w' + n ≤ data.length →
    EdgesSoundBlock (data.take (w' + n)) w' bc.windowSize c.maxMatchLen.toNat n
      (computeEdges data w bc.windowSize (mmOf k c) c.maxMatchLen.toNat).edges (w' - w)

theorem SeqsAll.shift {P Q : Nat → Seq → Prop} (d : Nat) (h : ∀ q s, P q s → Q (q + d) s) :
    ∀ (pos : Nat) (ss : List Seq), SeqsAll P pos ss → SeqsAll Q (pos + d) ss := by
  intro pos ss
  induction ss generalizing pos with
  | nil => intro _; trivial
  | cons s ss ih =>
    intro ⟨a, b⟩
    refine ⟨h _ _ a, ?_⟩
    have := ih _ b
    have e : pos + s.litLen + s.matchLen + d = pos + d + s.litLen + s.matchLen := by omega
    rw [e] at this; exact this

theorem SeqWF.shift {ws mm q : Nat} {s : Seq} (d : Nat) (h : SeqWF ws mm q s) : SeqWF ws mm (q + d) s := by
  obtain ⟨a, b, c, e, f⟩ := h
  exact ⟨a, b, by omega, e, f⟩

theorem OsapOK.empty (data : List Byte) (w ws mx : Nat) : OsapOK data w ws mx OsapD.empty := by
  refine ⟨Nat.zero_le _, [], data, rfl, by simp [OsapD.empty], ?_⟩
  intro w' n _ hn i mx' o hi
  simp at hn; omega

theorem OsapOK.mono_w {data : List Byte} {w ws mx : Nat} {o : OsapD} (h : OsapOK data w ws mx o)
    (w' : Nat) (hw : w ≤ w') : OsapOK data w' ws mx o :=
  ⟨by have := h.1; omega, h.2⟩

theorem OsapOK.append {data : List Byte} {w ws mx : Nat} {o : OsapD} (h : OsapOK data w ws mx o)
    (y : List Byte) : OsapOK (data ++ y) w ws mx o := by
  obtain ⟨h1, data0, x, hx, h2, h3⟩ := h
  exact ⟨h1, data0, x ++ y, by rw [hx, List.append_assoc], h2, h3⟩

/-- the table the next `Parse` uses is sound for the next block and satisfies `OsapOK` again -/
theorem OsapOK.next (s : Parser) (o : OsapD) (hw : s.buf.w ≤ s.buf.data.length)
    (hCE : ∀ data w w' n, w ≤ w' → w' + n ≤ data.length →
      EdgesSoundBlock (data.take (w' + n)) w' s.buf.cfg.windowSize s.cfg.maxMatchLen.toNat n
        (computeEdges data w s.buf.cfg.windowSize s.minMatch s.cfg.maxMatchLen.toNat).edges (w' - w))
    (hO : OsapOK s.buf.data s.buf.w s.buf.cfg.windowSize s.cfg.maxMatchLen.toNat o) :
    EdgesSoundBlock s.blockPrefix s.buf.w s.buf.cfg.windowSize s.cfg.maxMatchLen.toNat
      s.blockN (s.osapEdges o).edges (s.buf.w - (s.osapEdges o).start) ∧
    OsapOK s.buf.data s.buf.w s.buf.cfg.windowSize s.cfg.maxMatchLen.toNat (s.osapEdges o) := by
  have hN := s.blockN_le
  unfold Parser.osapEdges
  split
  · rw [Parser.computeEdges_start]
    refine ⟨hCE _ _ _ _ (Nat.le_refl _) (by omega), ?_⟩
    refine ⟨by rw [Parser.computeEdges_start]; exact Nat.le_refl _, s.buf.data, [], by simp, ?_, ?_⟩
    · rw [Parser.computeEdges_start, Parser.computeEdges_size]; omega
    · intro w' n h1 h2
      rw [Parser.computeEdges_start] at h1 ⊢
      exact hCE _ _ _ _ h1 h2
  · rename_i hc
    refine ⟨?_, hO⟩
    obtain ⟨h1, data0, x, hx, h2, h3⟩ := hO
    have := h3 s.buf.w s.blockN h1 (by omega)
    unfold Parser.blockPrefix
    rw [hx, List.take_append_of_le_length (by omega)]
    exact this

/-- the core of the `Parse` step: a `ParseOK` result extends the log by a good event -/
theorem Inv.parse_step {k : Kind} {c : Cfg} {bc : BufCfg} {s : Parser} {g : Ghost}
    (h : Inv k c bc (s, g)) {flags : Nat} {Q : Nat → Seq → Prop} {s' : Parser} {n : Nat} {blk : Block}
    (hok : Parser.ParseOK s flags Q s' n blk)
    (hQ : ∀ q sq, Q q sq → SeqWF bc.windowSize (mmOf k c) q sq)
    (hd : DictOK k s') :
    Inv k c bc (s', { g with consumed := g.consumed + n, log := g.log ++ [.block n flags blk] }) := by
  obtain ⟨dropped, hf, hdl⟩ := h.fed
  have hcons := h.consumed
  have hw := h.hw
  simp only at hf hdl hcons hw
  have hnle := hok.n_le
  have hN := s.blockN_le
  have hbc := h.bcfg
  simp only at hbc
  have hwn := hok.w_le hw
  refine ⟨by rw [hok.kind]; exact h.kind, by rw [hok.cfg]; exact h.cfg, by simp only [hok.buf]; exact hbc,
    by simp only [hok.buf]; exact hwn, ?_, ⟨dropped, ?_, ?_⟩, ?_, ?_, ?_, hd⟩
  · have := h.cap; simp only [hok.buf]; exact this
  · simp only [hok.buf]; exact hf
  · simp only [hok.buf]; exact hdl
  · simp only [hok.buf]; omega
  · simp only
    rw [LogAll_append]
    refine ⟨h.log, ?_, trivial⟩
    rw [h.span]
    simp only [Nat.zero_add]
    refine ⟨hok.n_pos, by rw [← hbc]; omega, ?_, ?_, ?_, ?_, hok.block.lits, ?_⟩
    · rw [hf, hcons]; simp; omega
    · have e1 : g.fed.take g.consumed = dropped ++ s.buf.data.take s.buf.w := by
        rw [hf, hcons, List.take_append, List.take_of_length_le (by omega)]
        congr 2; omega
      have e2 : g.fed.take (g.consumed + n) = dropped ++ s.buf.data.take (s.buf.w + n) := by
        rw [hf, hcons, List.take_append, List.take_of_length_le (by omega)]
        congr 2; omega
      rw [e1, e2]
      exact expand_prepend _ _ _ _ hok.roundtrip
    · have := hok.block.len; omega
    · have h1 := SeqsAll.mono hQ _ _ hok.block.all
      have h2 := SeqsAll.shift s.buf.off (fun q sq hq => SeqWF.shift s.buf.off hq) _ _ h1
      have e : s.buf.w + s.buf.off = g.consumed := by omega
      rw [e] at h2; exact h2
    · intro h1 h2
      have := hok.block.trunc h1 h2
      exact ⟨this.1, by omega⟩
  · simp only [logSpan_append, logSpan_cons, logSpan_nil, Event.n]
    have := h.span; simp only at this; omega

theorem DictOK.of_not_osap {k : Kind} {s : Parser} (h : ∀ o, s.dict ≠ .osap o) : DictOK k s := by
  unfold DictOK
  split
  · rename_i o ho; exact absurd ho (h o)
  · trivial

theorem step_parse {k : Kind} {c : Cfg} {bc : BufCfg} (hS : Static k c bc) {s : Parser} {g : Ghost}
    (h : Inv k c bc (s, g)) (flags : Nat) : Inv k c bc (step (s, g) (.parse flags)) := by
  by_cases hn : s.blockN = 0
  · simp only [step, Parser.parse_empty s flags hn]
    simp only [reduceCtorEq, if_false]
    exact h
  have hk := h.kind
  have hc := h.cfg
  have hbc := h.bcfg
  simp only at hk hc hbc
  have hmm : 1 ≤ s.minMatch := by rw [minMatch_eq, hk, hc]; exact hS.mm
  cases hd : s.dict with
  | osap o =>
    have hD := h.dict
    unfold DictOK at hD
    simp only [hd] at hD
    obtain ⟨hkO, hO⟩ := hD
    have hCE : ∀ data w w' n, w ≤ w' → w' + n ≤ data.length →
        EdgesSoundBlock (data.take (w' + n)) w' s.buf.cfg.windowSize s.cfg.maxMatchLen.toNat n
          (computeEdges data w s.buf.cfg.windowSize s.minMatch s.cfg.maxMatchLen.toNat).edges
          (w' - w) := by
      rw [minMatch_eq, hk, hc, hbc]; exact hS.edges hkO
    obtain ⟨hE', hO'⟩ := OsapOK.next s o h.hw hCE hO
    obtain ⟨s', n, blk, hp, hok, hd'⟩ := Parser.parse_osap_ok_block s flags o hd h.hw hn hmm hE'
    simp only [step, hp, if_true]
    apply h.parse_step hok
    · intro q sq hq
      have := hq.1.1
      rw [minMatch_eq, hk, hc, hbc] at this; exact this
    · unfold DictOK
      simp only [hd']
      refine ⟨hkO, ?_⟩
      simp only [hok.buf, hok.cfg]
      exact hO'.mono_w _ (by omega)
  | single _ | double _ | bucket _ | gsap _ =>
    have hnot : ∀ o, s.dict ≠ .osap o := by intro o ho; rw [hd] at ho; simp at ho
    obtain ⟨s', n, blk, hp, hok, hd'⟩ :=
      Parser.parse_greedy_ok s flags h.hw hn hmm (Parser.marginOK_of_cap s h.cap hn) hnot
    simp only [step, hp, if_true]
    apply h.parse_step hok
    · intro q sq hq
      have := hq.1
      rw [minMatch_eq, hk, hc, hbc] at this; exact this
    · exact DictOK.of_not_osap hd'

theorem parseNil_dict (s : Parser) (hn : s.blockN ≠ 0) :
    (∀ o, s.dict = .osap o → s.parseNil.1.dict = .osap o) ∧
    ((∀ o, s.dict ≠ .osap o) → ∀ o, s.parseNil.1.dict ≠ .osap o) := by
  unfold Parser.parseNil
  simp only [hn, if_false]
  cases s.dict <;> simp

theorem step_parseNil {k : Kind} {c : Cfg} {bc : BufCfg} {s : Parser} {g : Ghost}
    (h : Inv k c bc (s, g)) : Inv k c bc (step (s, g) .parseNil) := by
  by_cases hn : s.blockN = 0
  · simp only [step, Parser.parseNil_empty s hn]
    simp only [reduceCtorEq, if_false]
    exact h
  obtain ⟨s', hp, hk, hc, hb⟩ := Parser.parseNil_ok s hn
  have hdict := parseNil_dict s hn
  rw [hp] at hdict
  simp only [step, hp, if_true]
  obtain ⟨dropped, hf, hdl⟩ := h.fed
  have hcons := h.consumed
  have hw := h.hw
  have hbc := h.bcfg
  simp only at hf hdl hcons hw hbc hdict
  have hN := s.blockN_le
  have hlen : ((g.fed.drop g.consumed).take s.blockN).length = s.blockN := by
    rw [hf]; simp; omega
  refine ⟨by rw [hk]; exact h.kind, by rw [hc]; exact h.cfg, by simp only [hb]; exact hbc,
    by simp only [hb]; omega, ?_, ⟨dropped, ?_, ?_⟩, ?_, ?_, ?_, ?_⟩
  · have := h.cap; simp only [hb]; exact this
  · simp only [hb]; exact hf
  · simp only [hb]; exact hdl
  · simp only [hb]; omega
  · simp only
    rw [LogAll_append]
    refine ⟨h.log, ?_, trivial⟩
    rw [h.span]
    simp only [Nat.zero_add]
    refine ⟨by rw [hlen]; omega, by rw [hlen, ← hbc]; omega, ?_, ?_⟩
    · rw [hlen, hf, hcons]; simp; omega
    · rw [hlen]
  · simp only [logSpan_append, logSpan_cons, logSpan_nil, Event.n, hlen]
    have := h.span; simp only at this; omega
  · have hD := h.dict
    unfold DictOK at hD ⊢
    simp only at hD ⊢
    cases hd : s.dict with
    | osap o =>
      rw [hd] at hD
      simp only at hD
      rw [hdict.1 o hd]
      simp only [hb, hc]
      exact ⟨hD.1, hD.2.mono_w _ (by omega)⟩
    | single _ | double _ | bucket _ | gsap _ =>
      have := hdict.2 (by intro o ho; rw [hd] at ho; simp at ho)
      split
      · rename_i o ho; exact absurd ho (this o)
      · trivial

/-- appending accepted bytes to the buffer and the stream -/
theorem Inv.append_step {k : Kind} {c : Cfg} {bc : BufCfg} {s : Parser} {g : Ghost}
    (h : Inv k c bc (s, g)) (b' : PBuf) (x : List Byte)
    (hdata : b'.data = s.buf.data ++ x) (hw : b'.w = s.buf.w) (hoff : b'.off = s.buf.off)
    (hcfg : b'.cfg = s.buf.cfg) (hcap : s.buf.CapOK → b'.CapOK) :
    Inv k c bc ({ s with buf := b' }, { g with fed := g.fed ++ x }) := by
  obtain ⟨dropped, hf, hdl⟩ := h.fed
  simp only at hf hdl
  refine ⟨h.kind, h.cfg, by simp only [hcfg]; exact h.bcfg, ?_, hcap h.cap, ⟨dropped, ?_, ?_⟩, ?_, ?_,
    h.span, ?_⟩
  · have := h.hw; simp only [hw, hdata, List.length_append] at this ⊢; omega
  · simp only [hdata, hf, List.append_assoc]
  · simp only [hoff]; exact hdl
  · simp only [hoff, hw]; exact h.consumed
  · exact LogAll.mono (fun pos e he => he.append x) _ _ h.log
  · have hD := h.dict
    unfold DictOK at hD ⊢
    simp only at hD ⊢
    split
    · rename_i o ho
      rw [ho] at hD
      simp only at hD
      simp only [hdata, hcfg, hw]
      exact ⟨hD.1, hD.2.append x⟩
    · trivial

theorem step_write {k : Kind} {c : Cfg} {bc : BufCfg} {s : Parser} {g : Ghost}
    (h : Inv k c bc (s, g)) (p : List Byte) : Inv k c bc (step (s, g) (.write p)) := by
  obtain ⟨a1, a2, a3, a4, a5, a6⟩ := PBuf.write_frame s.buf p
  exact h.append_step _ _ a1 a3 a4 a5 a6

theorem step_readFrom {k : Kind} {c : Cfg} {bc : BufCfg} {s : Parser} {g : Ghost}
    (h : Inv k c bc (s, g)) (r : Reader) : Inv k c bc (step (s, g) (.readFrom r)) := by
  obtain ⟨a1, a2, a3, a4, a5, a6⟩ := PBuf.readFrom_frame s.buf r
  exact h.append_step _ _ a1 a3 a4 a5 a6

theorem shrink_eq (s : Parser) :
    s.shrink.1 = s ∨
    (s.shrink.1.kind = s.kind ∧ s.shrink.1.cfg = s.cfg ∧ s.shrink.1.buf = s.buf.shrink.1 ∧
      (∀ o, s.dict = .osap o → s.shrink.1.dict = .osap OsapD.empty) ∧
      ((∀ o, s.dict ≠ .osap o) → ∀ o, s.shrink.1.dict ≠ .osap o)) := by
  unfold Parser.shrink
  simp only []
  split
  · left; rfl
  · right
    refine ⟨rfl, rfl, rfl, ?_, ?_⟩
    · intro o ho; simp only [ho]
    · intro hno o
      simp only
      cases hd : s.dict <;> simp
      exact absurd hd (hno _)

theorem step_shrink {k : Kind} {c : Cfg} {bc : BufCfg} {s : Parser} {g : Ghost}
    (h : Inv k c bc (s, g)) : Inv k c bc (step (s, g) .shrink) := by
  simp only [step]
  rcases shrink_eq s with he | ⟨hk, hc, hb, hd1, hd2⟩
  · rw [he]; exact h
  obtain ⟨a1, a2, a3, a4, a5, a6⟩ := PBuf.shrink_frame s.buf
  obtain ⟨dropped, hf, hdl⟩ := h.fed
  have hcons := h.consumed
  have hw := h.hw
  simp only at hf hdl hcons hw
  generalize s.buf.shrink.2 = delta at a1 a2 a3 a6
  refine ⟨by rw [hk]; exact h.kind, by rw [hc]; exact h.cfg, by rw [hb, a4]; exact h.bcfg, ?_, ?_,
    ⟨dropped ++ s.buf.data.take delta, ?_, ?_⟩, ?_, h.log, h.span, ?_⟩
  · rw [hb, a1]; simp only [List.length_drop]; omega
  · have hcap := h.cap
    unfold PBuf.CapOK at hcap ⊢
    rw [hb, a1, a5]
    rcases hcap with hcap | hcap
    · left; simp only at hcap; rw [hcap]; simp
    · right; simp only [List.length_drop] at hcap ⊢; omega
  · rw [hb, a1]; simp only [List.append_assoc, List.take_append_drop]; exact hf
  · rw [hb, a3]; simp only [List.length_append, List.length_take]; omega
  · rw [hb, a3]; simp only; omega
  · cases hd : s.dict with
    | osap o =>
      have hD := h.dict
      unfold DictOK at hD ⊢
      simp only [hd] at hD
      simp only [hd1 o hd]
      exact ⟨hD.1, OsapOK.empty _ _ _ _⟩
    | single _ | double _ | bucket _ | gsap _ =>
      exact DictOK.of_not_osap (hd2 (by intro o ho; rw [hd] at ho; simp at ho))

theorem reset_eq (s : Parser) (data : List Byte) (capExtra : Nat) :
    ((s.reset data capExtra).2 ≠ .ok ∧ (s.reset data capExtra).1 = s) ∨
    ((s.reset data capExtra).2 = .ok ∧ (s.reset data capExtra).1.kind = s.kind ∧
      (s.reset data capExtra).1.cfg = s.cfg ∧
      (s.reset data capExtra).1.buf = (s.buf.reset data capExtra).1 ∧
      (s.buf.reset data capExtra).2 = .ok ∧
      (∀ o, s.dict = .osap o → (s.reset data capExtra).1.dict = .osap OsapD.empty) ∧
      ((∀ o, s.dict ≠ .osap o) → ∀ o, (s.reset data capExtra).1.dict ≠ .osap o)) := by
  unfold Parser.reset
  simp only []
  split
  · rename_i he
    right
    refine ⟨he, rfl, rfl, rfl, he, ?_, ?_⟩
    · intro o ho; simp only [Parser.clearDict, ho]
    · intro hno o
      simp only [Parser.clearDict]
      cases hd : s.dict <;> simp
      exact absurd hd (hno _)
  · rename_i he
    left; exact ⟨he, rfl⟩

theorem step_reset {k : Kind} {c : Cfg} {bc : BufCfg} {s : Parser} {g : Ghost}
    (h : Inv k c bc (s, g)) (data : List Byte) (capExtra : Nat) :
    Inv k c bc (step (s, g) (.reset data capExtra)) := by
  simp only [step]
  rcases reset_eq s data capExtra with ⟨he, hs⟩ | ⟨he, hk, hc, hb, hbe, hd1, hd2⟩
  · simp only [he, if_false]; rw [hs]; exact h
  simp only [he, if_true]
  rcases PBuf.reset_frame s.buf data capExtra with ⟨-, b1, b2, b3, b4, b5⟩ | ⟨b0, -⟩
  · refine ⟨by rw [hk]; exact h.kind, by rw [hc]; exact h.cfg, by rw [hb, b4]; exact h.bcfg, ?_, ?_,
      ⟨[], ?_, ?_⟩, ?_, trivial, rfl, ?_⟩
    · rw [hb, b2]; exact Nat.zero_le _
    · rw [hb]; exact b5
    · rw [hb, b1]; rfl
    · rw [hb, b3]; rfl
    · rw [hb, b2, b3]
    · cases hd : s.dict with
      | osap o =>
        have hD := h.dict
        unfold DictOK at hD ⊢
        simp only [hd] at hD
        simp only [hd1 o hd]
        exact ⟨hD.1, OsapOK.empty _ _ _ _⟩
      | single _ | double _ | bucket _ | gsap _ =>
        exact DictOK.of_not_osap (hd2 (by intro o ho; rw [hd] at ho; simp at ho))
  · exact absurd hbe b0

/-- every operation preserves the invariant -/
theorem step_inv {k : Kind} {c : Cfg} {bc : BufCfg} (hS : Static k c bc) (sg : Parser × Ghost)
    (h : Inv k c bc sg) (op : POp) : Inv k c bc (step sg op) := by
  obtain ⟨s, g⟩ := sg
  cases op with
  | write p => exact step_write h p
  | readFrom r => exact step_readFrom h r
  | parse flags => exact step_parse hS h flags
  | parseNil => exact step_parseNil h
  | shrink => exact step_shrink h
  | reset data capExtra => exact step_reset h data capExtra

theorem runOps_inv {k : Kind} {c : Cfg} {bc : BufCfg} (hS : Static k c bc) (ops : List POp) :
    ∀ (sg : Parser × Ghost), Inv k c bc sg → Inv k c bc (runOps sg ops) := by
  induction ops with
  | nil => intro sg h; exact h
  | cons op ops ih => intro sg h; exact ih _ (step_inv hS sg h op)

/-! ## the initial state -/

theorem verify_buf (k : Kind) (c : Cfg) (hv : verify k c = true) : bufVerify c = true := by
  cases k <;> simp only [verify, Bool.and_eq_true] at hv
  · exact hv.1
  · exact hv.1
  · exact hv.1.1.1
  · exact hv.1.1.1
  · exact hv.1.1
  · exact hv.1.1.1.1
  · exact hv.1.1.1

theorem verify_static (k : Kind) (c : Cfg) (hv : verify k c = true) :
    1 ≤ mmOf k c ∧ 1 ≤ c.bufCfg.blockSize := by
  have hb : 1 ≤ c.bufCfg.blockSize := by
    have h := verify_buf k c hv
    simp only [bufVerify, Bool.decide_and, Bool.and_eq_true, decide_eq_true_eq] at h
    simp only [Cfg.bufCfg]; omega
  refine ⟨?_, hb⟩
  cases k <;>
    simp only [verify, hashVerify, Bool.and_eq_true, decide_eq_true_iff] at hv <;>
    (try simp only [Facts.minInputLen] at hv) <;>
    simp only [mmOf, Parser.minMatch] <;> omega

theorem newParser_inv (k : Kind) (raw : Cfg) (s : Parser) (h : newParser k raw = some s) :
    Inv k s.cfg s.buf.cfg (s, Ghost.init) ∧ 1 ≤ mmOf k s.cfg ∧ 1 ≤ s.buf.cfg.blockSize := by
  unfold newParser at h
  simp only [] at h
  split at h
  · rename_i hv
    simp only [Option.some.injEq] at h
    subst h
    refine ⟨?_, verify_static _ _ hv⟩
    refine { kind := rfl, cfg := rfl, bcfg := rfl, hw := Nat.le_refl _, cap := Or.inl rfl,
             fed := ⟨[], rfl, rfl⟩, consumed := rfl, log := trivial, span := rfl, dict := ?_ }
    unfold DictOK
    cases k <;> simp only [freshDict]
    exact ⟨trivial, OsapOK.empty _ _ _ _⟩
  · simp at h

/-! ## `GreedyWF` is preserved by every operation (for clients such as Wrap) -/

namespace Parser

theorem GreedyWF.shrink {s : Parser} (h : s.GreedyWF) : s.shrink.1.GreedyWF := by
  rcases shrink_eq s with he | ⟨hk, hc, hb, -, hd2⟩
  · rw [he]; exact h
  · obtain ⟨h1, h2, h3⟩ := h
    refine ⟨by rw [minMatch_eq, hk, hc, ← minMatch_eq]; exact h1, ?_, hd2 h3⟩
    rw [hb, (PBuf.shrink_frame s.buf).2.2.2.1]; exact h2

theorem GreedyWF.write {s : Parser} (h : s.GreedyWF) (p : List Byte) : (s.write p).1.GreedyWF := by
  obtain ⟨h1, h2, h3⟩ := h
  refine ⟨h1, ?_, h3⟩
  show 1 ≤ (s.buf.write p).1.cfg.blockSize
  rw [(PBuf.write_frame s.buf p).2.2.2.2.1]; exact h2

theorem GreedyWF.readFrom {s : Parser} (h : s.GreedyWF) (r : Reader) : (s.readFrom r).1.GreedyWF := by
  obtain ⟨h1, h2, h3⟩ := h
  refine ⟨h1, ?_, h3⟩
  show 1 ≤ (s.buf.readFrom r).1.cfg.blockSize
  rw [(PBuf.readFrom_frame s.buf r).2.2.2.2.1]; exact h2

theorem GreedyWF.parseNil {s : Parser} (h : s.GreedyWF) : s.parseNil.1.GreedyWF := by
  by_cases hn : s.blockN = 0
  · rw [parseNil_empty s hn]; exact h
  · obtain ⟨h1, h2, h3⟩ := h
    have hd := (parseNil_dict s hn).2 h3
    obtain ⟨s', hp, hk, hc, hb⟩ := parseNil_ok s hn
    rw [hp] at hd ⊢
    refine ⟨by rw [minMatch_eq, hk, hc, ← minMatch_eq]; exact h1, ?_, hd⟩
    rw [hb]; exact h2

theorem GreedyWF.reset {s : Parser} (h : s.GreedyWF) (data : List Byte) (capExtra : Nat) :
    (s.reset data capExtra).1.GreedyWF := by
  rcases reset_eq s data capExtra with ⟨-, hs⟩ | ⟨-, hk, hc, hb, -, -, hd2⟩
  · rw [hs]; exact h
  · obtain ⟨h1, h2, h3⟩ := h
    refine ⟨by rw [minMatch_eq, hk, hc, ← minMatch_eq]; exact h1, ?_, hd2 h3⟩
    rw [hb]
    rcases PBuf.reset_frame s.buf data capExtra with ⟨-, -, -, -, b4, -⟩ | ⟨-, b1⟩
    · rw [b4]; exact h2
    · rw [b1]; exact h2

end Parser

end LZ
