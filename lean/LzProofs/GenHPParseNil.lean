/-
  LzProofs.GenHPParseNil — the NIL PATH of the mechanical translation of hp.go `(*hashParser).Parse`:
  `hashParser_Parse_nilable grow fuel s true blk flags` (LzModel/Generated/CodeHPParse.lean; the pointer parameter
  `blk` is modelled by a flag plus a value, tools/extract/code_nil.go) is the call `Parse(nil, flags)`.
  No sorry, no axioms of its own.

    gen_hp_parse_nonnil   `hashParser_Parse … blk …` IS `hashParser_Parse_nilable … false blk …` (the generated wrapper)
    gen_hp_parseNil       for every Go state with `ParseOK s`, every `blk` (a ghost), every `flags`, `fuel ≥ len + 2`:
                            `parseNilW (ofHPs s) (staleOf s) = none` ⇒ the translated `Parse(nil)` is `Res.panic`
                            `… = some (s', n, e)` ⇒ it is `Res.ok (t, blk, n, parseErr e)` — THE SAME `blk`: nothing is
                            written — with `ofHPs t = s'`, `staleOf t = staleOf s`, `ParseOK t`, and only `W` and the
                            table of the Go state change (`∃ t', t = withWT s … t'`)
    gen_hp_parseNil_model on reachable states: the list-level `Parser.parseNil`, no panic
-/
import LzProofs.GenHPParse

set_option linter.unusedSimpArgs false
set_option linter.unusedVariables false

namespace LZ.GenHPParse
open LZ LZ.Gen LZ.GenBuf LZ.GenHash

theorem gen_hp_parse_nonnil (grow : Nat → Nat → Nat) (fuel : Nat) (s : Gen.hashParser) (blk : Gen.Block') (flags : Int) :
    hashParser_Parse grow fuel s blk flags = hashParser_Parse_nilable grow fuel s false blk flags := rfl

/-- the straight-line prefix of the nil path: nothing buffered ⇒ `(0, ErrEmptyBuffer)`, the parser and the ghost block
    unchanged; for every `grow`, `fuel`, `flags` -/
theorem gen_hp_parseNil_empty (grow : Nat → Nat → Nat) (fuel : Nat) (s : Gen.hashParser) (blk : Gen.Block')
    (flags : Int) (h : blockN s = 0) :
    hashParser_Parse_nilable grow fuel s true blk flags = Res.ok (s, blk, (0 : Int), ErrEmptyBuffer) := by
  unfold blockN at h
  unfold hashParser_Parse_nilable
  simp only [if_true, ite_lt_min, ite_le_min] at h ⊢
  split
  all_goals first
    | rfl
    | (exfalso; int_omega)

theorem parseNilW_single_nf (s : Parser) (stale : List Byte) (h : HashT) (hd : s.dict = .single h)
    (hn : s.blockN ≠ 0) :
    ProbeW.parseNilW s stale =
      (ProbeW.processSegment1W h s.buf.data stale ((s.buf.w : Int) - h.inputLen + 1) ((s.buf.w + s.blockN : Nat) : Int)).bind fun h' =>
      some ({ s with buf := { s.buf with w := s.buf.w + s.blockN }, dict := .single h' }, s.blockN, .ok) := by
  unfold ProbeW.parseNilW
  simp only [hn, if_false, hd]
  rfl

set_option maxHeartbeats 1000000 in
theorem gen_hp_parseNil (grow : Nat → Nat → Nat) (fuel : Nat) (s : Gen.hashParser) (blk : Gen.Block') (flags : Int)
    (h : ParseOK s) (hfuel : s.hashDictionary.ParserBuffer.Data.len + 2 ≤ fuel) :
    match ProbeW.parseNilW (ofHPs s) (staleOf s) with
    | none => hashParser_Parse_nilable grow fuel s true blk flags = Res.panic
    | some (s', n, e) =>
      ∃ t, hashParser_Parse_nilable grow fuel s true blk flags = Res.ok (t, blk, (n : Int), parseErr e) ∧
        ofHPs t = s' ∧ staleOf t = staleOf s ∧ (e = .ok ∨ e = .empty) ∧ ParseOK t ∧
        ∃ t', t = withWT s ((s'.buf.w : Nat) : Int) t' := by
  have hP := h
  obtain ⟨⟨hpb, hhw⟩, cws, cbs, cil, hbs0, hW, hil1, hsh, hsmall⟩ := h
  obtain ⟨hgwf, hil0, hmask, hsh2, htl⟩ := hhw
  have hD : SWF s.hashDictionary.ParserBuffer.Data := hpb.data
  have hD' : s.hashDictionary.ParserBuffer.Data.len ≤ s.hashDictionary.ParserBuffer.Data.arr.length := hD
  have hW0 := hpb.w
  have hdl : s.hashDictionary.ParserBuffer.Data.data.length = s.hashDictionary.ParserBuffer.Data.len := data_length hD
  have hbN : (ofHPs s).blockN = Min.min (s.hashDictionary.ParserBuffer.Data.len - s.hashDictionary.ParserBuffer.W.toNat)
      s.HPConfig.BlockSize.toNat := by
    show Min.min (s.hashDictionary.ParserBuffer.Data.data.length - _) s.hashDictionary.ParserBuffer.BufConfig.BlockSize.toNat = _
    rw [hdl, cbs]
    rfl
  have hnG : Min.min ((Int.ofNat s.hashDictionary.ParserBuffer.Data.len) - s.hashDictionary.ParserBuffer.W) s.HPConfig.BlockSize =
      (((ofHPs s).blockN : Nat) : Int) := by
    rw [hbN]; int_omega
  have hnG' : Min.min s.HPConfig.BlockSize ((Int.ofNat s.hashDictionary.ParserBuffer.Data.len) - s.hashDictionary.ParserBuffer.W) =
      (((ofHPs s).blockN : Nat) : Int) := by
    rw [hbN]; int_omega
  have bind_ok : ∀ {α β : Type} (a : α) (f : α → Res β), Res.bind (Res.ok a) f = f a := fun _ _ => rfl
  generalize hG : hashParser_Parse_nilable grow fuel s true blk flags = G
  unfold hashParser_Parse_nilable at hG
  simp only [if_true] at hG
  simp only [ite_lt_min, ite_le_min, ite_lt_max, ite_le_max] at hG
  simp only [hnG, hnG'] at hG
  by_cases hn : (ofHPs s).blockN = 0
  · unfold ProbeW.parseNilW
    simp only [hn, if_true]
    rw [hn] at hG
    split at hG
    all_goals first
      | (exfalso; int_omega)
      | (refine ⟨s, hG.symm, rfl, rfl, by simp, hP, s.hashDictionary.hash.table, ?_⟩
         have e1 : (((ofHPs s).buf.w : Nat) : Int) = s.hashDictionary.ParserBuffer.W := by
           show ((s.hashDictionary.ParserBuffer.W.toNat : Nat) : Int) = _; omega
         rw [e1])
  rw [parseNilW_single_nf (ofHPs s) (staleOf s) (ofHash s.hashDictionary.hash) rfl hn]
  rw [if_neg (by omega)] at hG
  have hargs : ProbeW.processSegment1W (ofHash s.hashDictionary.hash) (ofHPs s).buf.data (staleOf s)
      (((ofHPs s).buf.w : Int) - ((ofHash s.hashDictionary.hash).inputLen : Int) + 1)
        (((ofHPs s).buf.w + (ofHPs s).blockN : Nat) : Int) =
      ProbeW.processSegment1W (ofHash s.hashDictionary.hash) s.hashDictionary.ParserBuffer.Data.data
        (s.hashDictionary.ParserBuffer.Data.arr.drop s.hashDictionary.ParserBuffer.Data.len)
        ((s.hashDictionary.ParserBuffer.W - s.hashDictionary.hash.inputLen) + 1)
        (s.hashDictionary.ParserBuffer.W + (((ofHPs s).blockN : Nat) : Int)) := by
    have e1 : (((ofHPs s).buf.w : Nat) : Int) = s.hashDictionary.ParserBuffer.W := by
      show ((s.hashDictionary.ParserBuffer.W.toNat : Nat) : Int) = _; omega
    have e2 : (((ofHash s.hashDictionary.hash).inputLen : Nat) : Int) = s.hashDictionary.hash.inputLen := by
      show ((s.hashDictionary.hash.inputLen.toNat : Nat) : Int) = _; omega
    rw [Int.natCast_add, e1, e2]; rfl
  rw [hargs]
  have hps := gen_processSegment fuel s.hashDictionary ((s.hashDictionary.ParserBuffer.W - s.hashDictionary.hash.inputLen) + 1)
    (s.hashDictionary.ParserBuffer.W + (((ofHPs s).blockN : Nat) : Int)) hD hil0 hmask hsh hsh2 ⟨hgwf, htl⟩ hsmall (by omega)
  cases hp1 : ProbeW.processSegment1W (ofHash s.hashDictionary.hash) s.hashDictionary.ParserBuffer.Data.data
        (s.hashDictionary.ParserBuffer.Data.arr.drop s.hashDictionary.ParserBuffer.Data.len)
        ((s.hashDictionary.ParserBuffer.W - s.hashDictionary.hash.inputLen) + 1)
        (s.hashDictionary.ParserBuffer.W + (((ofHPs s).blockN : Nat) : Int)) with
  | none =>
    rw [hp1] at hps
    simp only [] at hps
    rw [hps] at hG
    exact hG.symm
  | some h' =>
    rw [hp1] at hps
    obtain ⟨t0, ht0, rfl, hps⟩ := hps
    rw [hps, bind_ok] at hG
    rw [Option.bind_some]
    dsimp only at hG ⊢
    have hN := (ofHPs s).blockN_le
    have hwn : (ofHPs s).buf.w = s.hashDictionary.ParserBuffer.W.toNat := rfl
    have hLlen : s.hashDictionary.ParserBuffer.W.toNat + (ofHPs s).blockN ≤ s.hashDictionary.ParserBuffer.Data.len := by
      rw [hbN]; omega
    have hwt : s.hashDictionary.ParserBuffer.W + (((ofHPs s).blockN : Nat) : Int) =
        (((ofHPs s).buf.w + (ofHPs s).blockN : Nat) : Int) := by rw [hwn]; omega
    refine ⟨withWT s (((ofHPs s).buf.w + (ofHPs s).blockN : Nat) : Int) t0, hG.symm.trans ?_, ?_, rfl, Or.inl rfl, ?_, t0, rfl⟩
    · rw [hwt]; rfl
    · show ofHPs (withWT s _ t0) = _
      unfold ofHPs ofDict ofPB
      simp only [Int.toNat_natCast]
      rfl
    · exact ⟨⟨⟨hD, by show (0 : Int) ≤ (((ofHPs s).buf.w + (ofHPs s).blockN : Nat) : Int); omega, hpb.off, hpb.ss, hpb.bs⟩, ⟨ht0.1, hil0, hmask, hsh2, ht0.2⟩⟩,
        cws, cbs, cil, hbs0,
        by show (((ofHPs s).buf.w + (ofHPs s).blockN : Nat) : Int) ≤ ((s.hashDictionary.ParserBuffer.Data.len : Nat) : Int); rw [hwn]; omega,
        hil1, hsh, hsmall⟩

/-- **Go text → list-level model**, nil path: on reachable states no panic, the result of `Parser.parseNil`. -/
theorem gen_hp_parseNil_model (grow : Nat → Nat → Nat) (fuel : Nat) (s : Gen.hashParser) (blk : Gen.Block') (flags : Int)
    (h : ParseOK s) (hfuel : s.hashDictionary.ParserBuffer.Data.len + 2 ≤ fuel)
    (hcap : (ofHPs s).buf.CapOK) (hil8 : s.hashDictionary.hash.inputLen ≤ 8) :
    ∃ t, hashParser_Parse_nilable grow fuel s true blk flags =
        Res.ok (t, blk, (((ofHPs s).parseNil).2.1 : Int), parseErr ((ofHPs s).parseNil).2.2) ∧
      ofHPs t = ((ofHPs s).parseNil).1 ∧ staleOf t = staleOf s ∧ ParseOK t ∧
      ∃ t', t = withWT s ((((ofHPs s).parseNil).1.buf.w : Nat) : Int) t' := by
  have hb : ProbeW.Backing (ofHPs s) (staleOf s) := staleOf_length s h.wf.1.data
  have hd : ProbeW.HashDictOK (ofHPs s).dict := by
    exact ⟨by show 1 ≤ s.hashDictionary.hash.inputLen.toNat; have := h.il1; omega,
      by show s.hashDictionary.hash.inputLen.toNat ≤ 8; omega⟩
  have hW := ProbeW.parseNilW_eq (ofHPs s) (staleOf s) hb hcap hd
  have hm := gen_hp_parseNil grow fuel s blk flags h hfuel
  rw [hW] at hm
  obtain ⟨t, h1, h2, h3, _, h5, h6⟩ := hm
  exact ⟨t, h1, h2, h3, h5, h6⟩

#print axioms gen_hp_parseNil
#print axioms gen_hp_parseNil_model

end LZ.GenHPParse
