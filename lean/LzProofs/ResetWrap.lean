/-
  LzProofs.ResetWrap — C13 for `WrappedParser.Reset` (wrap.go): a wrapped parser that is reset
  with a reader behaves, call by call, like a wrapper around a newly created parser.
  Greedy parsers only (HP, BHP, DHP, BDHP, BUP, GSAP): uses `parseSpec_greedy` of LzProofs.WrapInst.
-/
import LzProofs.ResetProps
import LzProofs.WrapInst
namespace LZ
open PBuf

/-! ## `WrappedParser.Reset` (wrap.go) -/

/-- the results `(n, err, block)` of the first `k` calls of `WrappedParser.Parse` -/
def Wrapped.outs (flags : Nat) : Nat → Wrapped → List (Nat × Err × Block)
  | 0, _ => []
  | k + 1, wp => (wp.parse flags).2 :: Wrapped.outs flags k (wp.parse flags).1

theorem Wrapped.outs_sim (flags : Nat) (k : Nat) :
    ∀ (wa wb : Wrapped) (fa fb : List Byte), WInv Parser.GreedyWF wa fa → WInv Parser.GreedyWF wb fb →
      WSim wa wb → Wrapped.outs flags k wa = Wrapped.outs flags k wb := by
  induction k with
  | zero => intros; rfl
  | succ k ih =>
    intro wa wb fa fb ha hb hs
    obtain ⟨h1, h2⟩ := C08_wrap_chunking parseSpec_greedy wa wb flags fa fb ha hb hs
    obtain ⟨qa, ha', -⟩ := C08_wrap_step parseSpec_greedy wa flags fa ha
    obtain ⟨qb, hb', -⟩ := C08_wrap_step parseSpec_greedy wb flags fb hb
    simp only [Wrapped.outs]
    rw [ih _ _ _ _ ha' hb' h2, h1]

theorem dictShape_not_osap {k : Kind} {c : Cfg} {d : Dict} (h : DictShape k c d) (hk : k ≠ .OSAP) :
    ∀ o, d ≠ .osap o := by
  intro o ho
  rw [ho] at h
  exact hk h

theorem newParser_verify (k : Kind) (raw : Cfg) (s0 : Parser) (h : newParser k raw = some s0) :
    verify k s0.cfg = true := by
  unfold newParser at h
  simp only [] at h
  split at h
  · simp only [Option.some.injEq] at h; subst h; assumption
  · simp at h

/-- `GreedyWF` (the parser invariant of the Wrap theorems) for every reachable state of a
    greedy parser -/
theorem reachable_greedyWF (k : Kind) (raw : Cfg) (s0 : Parser) (h0 : newParser k raw = some s0)
    (hk : k ≠ .OSAP) (s : Parser) (hr : Reachable s0 s) : s.GreedyWF := by
  have hs := reachable_rinv k raw s0 h0 s hr
  obtain ⟨-, hmm, hbs⟩ := newParser_inv k raw s0 h0
  have h0r := (newParser_rinv k raw s0 h0).1
  refine ⟨?_, ?_, dictShape_not_osap hs.dict hk⟩
  · rw [minMatch_eq, hs.kind, hs.cfg]; exact hmm
  · rw [hs.bcfg, ← h0r.bcfg]; exact hbs

/-- **C13 for `WrappedParser`** (greedy parsers): after `Reset(r)` a wrapped parser that has
    processed anything returns, call by call, the same `(n, err, block)` as a wrapper around a
    newly created parser reading the same payload (error-free readers; chunking may differ). -/
theorem C13_wrapped_reset (k : Kind) (raw : Cfg) (s0 : Parser) (h0 : newParser k raw = some s0)
    (hk : k ≠ .OSAP) (wp : Wrapped) (hr : Reachable s0 wp.s) (r r' : Reader)
    (hp : r.payload = r'.payload) (hf : FillR r) (hf' : FillR r') (flags n : Nat) :
    (wp.reset r).2 = .ok ∧
    Wrapped.outs flags n (wp.reset r).1 = Wrapped.outs flags n ⟨r', s0⟩ := by
  obtain ⟨e1, hobs⟩ := reset_nil_eq_new k raw s0 h0 wp.s hr 0
  have hs := reachable_rinv k raw s0 h0 wp.s hr
  obtain ⟨h0r, -, h0b⟩ := newParser_rinv k raw s0 h0
  have hres : wp.reset r = (⟨r, (wp.s.reset [] 0).1⟩, .ok) := by
    unfold Wrapped.reset
    simp only [e1, if_true]
  rw [hres]
  refine ⟨rfl, ?_⟩
  have hss : s0.buf.cfg.shrinkSize < s0.buf.cfg.bufferSize := by
    have hv := verify_buf k s0.cfg (newParser_verify k raw s0 h0)
    simp only [bufVerify, Bool.decide_and, Bool.and_eq_true, decide_eq_true_eq] at hv
    rw [h0r.bcfg]; simp only [Cfg.bufCfg]; omega
  have hr1 : Reachable s0 (wp.s.reset [] 0).1 := by
    obtain ⟨ops, ho⟩ := hr
    refine ⟨ops ++ [.reset [] 0], ?_⟩
    have : ∀ (ops : List POp) (s : Parser) (op : POp),
        (s.runOut (ops ++ [op])).1 = ((s.runOut ops).1.stepOut op).1 := by
      intro ops
      induction ops with
      | nil => intro s op; rfl
      | cons o os ih => intro s op; exact ih _ op
    rw [this, ← ho]; rfl
  have wa : WInv Parser.GreedyWF ⟨r, (wp.s.reset [] 0).1⟩ [] := by
    refine ⟨reachable_greedyWF k raw s0 h0 hk _ hr1, ?_, ?_⟩
    · show PInv (wp.s.reset [] 0).1.buf []
      rw [(Parser.reset_buf wp.s [] 0).1]
      exact pinv_reset wp.s.buf [] 0 (Nat.zero_le _)
    · show (wp.s.reset [] 0).1.buf.cfg.shrinkSize < (wp.s.reset [] 0).1.buf.cfg.bufferSize
      rw [hobs.2.2.2.2.2.2]; exact hss
  have wb : WInv Parser.GreedyWF ⟨r', s0⟩ [] := by
    refine ⟨reachable_greedyWF k raw s0 h0 hk s0 ⟨[], rfl⟩, ?_, hss⟩
    show PInv s0.buf []
    rw [h0b]; exact pinv_init _
  exact Wrapped.outs_sim flags n _ _ [] [] wa wb ⟨hobs, hp, hf, hf'⟩

/-- non-vacuity: the used DHP parser of LzProofs.ResetProps, wrapped, reset with a reader that
    delivers `cwY` byte by byte, versus a wrapper around the new parser whose reader delivers
    `cwY` in one piece -/
example (flags n : Nat) :
    Wrapped.outs flags n ((⟨⟨[], []⟩, cwUsed⟩ : Wrapped).reset ⟨cwY, List.replicate 18 (1, 0)⟩).1 =
    Wrapped.outs flags n ⟨⟨cwY, List.replicate 18 (18, 0)⟩, cwNew⟩ :=
  (C13_wrapped_reset .DHP cwCfg cwNew cwNew_new (by decide) ⟨⟨[], []⟩, cwUsed⟩ cwUsed_reachable
    ⟨cwY, List.replicate 18 (1, 0)⟩ ⟨cwY, List.replicate 18 (18, 0)⟩ rfl
    (by unfold FillR; decide) (by unfold FillR; decide) flags n).2

end LZ
#print axioms LZ.reachable_greedyWF
#print axioms LZ.C13_wrapped_reset
