/-
  LzProofs.GenBUPParseLoop — the greedy loop of the translated `(*bucketParser).Parse` (bup.go, loop_1 of
  LzModel/Generated/CodeBUPParse.lean): ONE iteration is one step of the word-level finder `ProbeW.bupProbeW`
  (`loop1_step`: key load through `_p`, the bucket scan over the read-only view of `s.bucket(h)` = `bupScanW`
  (GenBUPParseLemmas.scan_eq), `s.add` = `BucketT.add`, the re-indexing loop = `binsertRangeW`), and the whole loop is
  `ProbeW.greedyLoopW` (`loops_eq`, an instance of `GenParse.greedy_generic`).  `lcp` is an opaque callee under
  `LcpSpec`.  No sorry, no axioms of its own.
-/
import LzProofs.GenBUPParseLemmas
import LzProofs.GenCallByName

set_option linter.unusedSimpArgs false
set_option linter.unusedVariables false

namespace LZ.GenBUPParse
open LZ LZ.Gen LZ.GenDec LZ.GenBuf LZ.GenHash LZ.GenHPParse LZ.GenParse

/-- the parser state with another bucket table -/
@[reducible] def setB (s : Gen.bucketParser) (g : Gen.bucketHash) : Gen.bucketParser :=
  { s with bucketDictionary := { s.bucketDictionary with bucketHash := g } }

/-- the finder of the model without `do` -/
theorem bupProbeW_nf (ws mm E : Nat) (behind : List Byte) (bk : BucketT) (pd : List Byte) (i li : Nat)
    (_pd : List Byte) (y : UInt64)
    (h1 : BytesW.sliceTo pd behind (E + 7) = some _pd)
    (hy : (BytesW.sliceFrom _pd i).bind BytesW.le64 = some y)
    (x : UInt64) (hx : x = y &&& maskOf bk.inputLen) :
    ProbeW.bupProbeW ws mm E behind bk pd i li =
      (ProbeW.bupScanW bk pd i ws (lo32 x) (LZ.hashValue x bk.hashBits * bk.bucketSize) (List.range bk.bucketSize) 0 0).bind
        fun ok =>
        if ok.2 < mm then some (bk.add (LZ.hashValue x bk.hashBits) i (lo32 x), none)
        else
          (ProbeW.binsertRangeW (bk.add (LZ.hashValue x bk.hashBits) i (lo32 x)) _pd (i + 1)
            (Min.min (i + ok.2) E - (i + 1))).bind fun bk2 => some (bk2, some (i, ok.2, ok.1)) := by
  subst hx
  unfold ProbeW.bupProbeW ProbeW.loadKey
  simp only [Option.bind_eq_bind, Option.pure_def] at hy ⊢
  rw [h1, Option.bind_some]
  cases hsi : BytesW.sliceFrom _pd i with
  | none => rw [hsi] at hy; cases hy
  | some l =>
    rw [hsi, Option.bind_some] at hy
    simp only [Option.bind_some, hy]

/-- reading slot `t` of the view `buckets[base : base+bs]` is reading slot `base + t` of the model's table -/
theorem view_get (g : Gen.bucketHash) (hg : GWF g.buckets) (base bs t : Nat) (ht : t < bs)
    (hb : base + bs ≤ g.buckets.len) :
    (ofBucket g).buckets.getD (base + t) (0, 0) =
      ofBEntry (((g.buckets.arr.drop base)[t]?).getD { pos := 0, val := 0 }) := by
  have h1 : base + t < g.buckets.len := by omega
  have h2 : base + t < g.buckets.arr.length := by unfold GWF at hg; omega
  simp [ofBucket, GSlice.data, List.getElem?_take, List.getElem?_drop, h1, h2]

set_option maxHeartbeats 1000000 in
theorem loop1_step (grow : Nat → Nat → Nat) (lcp : Slice → Slice → Int) (hlcp : LcpSpec lcp)
    (inputEnd mm : Int) (A : List UInt8) (L E mmN ws : Nat)
    (fuel i li : Nat) (ia lia : Int) (s : Gen.bucketParser) (blk : Block')
    (c : BCtx s.bucketDictionary.bucketHash { arr := A, len := E + 7 })
    (hb : BOK s.bucketDictionary.bucketHash)
    (hia : ia = (i : Int)) (hlia : lia = (li : Int)) (hE : inputEnd = (E : Int)) (hmm : mm = (mmN : Int))
    (hi : i < E) (hEL : E ≤ L) (hLA : L ≤ A.length) (hEA : E + 7 ≤ A.length) (hli : li ≤ i)
    (hws : ws = s.BUPConfig.WindowSize.toNat) (hws0 : 0 ≤ s.BUPConfig.WindowSize) (hmm1 : 1 ≤ mmN)
    (hfuel : L ≤ fuel + i) :
    ∃ r, ProbeW.bupProbeW ws mmN E (A.drop L) (ofBucket s.bucketDictionary.bucketHash) (A.take L) i li = some r ∧
      ∃ g', BOK g' ∧ SameCfg s.bucketDictionary.bucketHash g' ∧ r.1 = ofBucket g' ∧
        (gcall% bucketParser_Parse_loop_1 [grow := grow, lcp := lcp, inputEnd := inputEnd,
            _p := ({ arr := A, len := E + 7 } : Slice), p := ({ arr := A, len := L } : Slice), minMatchLen := mm,
            fuel := fuel + 1, i := ia, s := s, blk := blk, litIndex := lia]) =
          (match r.2 with
          | none =>
            (gcall% bucketParser_Parse_loop_1 [grow := grow, lcp := lcp, inputEnd := inputEnd,
            _p := ({ arr := A, len := E + 7 } : Slice), p := ({ arr := A, len := L } : Slice), minMatchLen := mm,
            fuel := fuel, i := ia + 1, s := setB s g', blk := blk, litIndex := lia])
          | some (st, k, o) =>
            (gcall% bucketParser_Parse_loop_1 [grow := grow, lcp := lcp, inputEnd := inputEnd,
            _p := ({ arr := A, len := E + 7 } : Slice), p := ({ arr := A, len := L } : Slice), minMatchLen := mm,
            fuel := fuel, i := ((i + k : Nat) : Int), s := setB s g', blk := 
              { Sequences := blk.Sequences ++ [seqRep { litLen := i - li, matchLen := k, offset := o }],
                Literals := Slice.append grow blk.Literals ((A.drop li).take (i - li)) }, litIndex := ((i + k : Nat) : Int)])) ∧
        (∀ st k o, r.2 = some (st, k, o) → st = i ∧ 1 ≤ k ∧ i + k ≤ L) := by
  -- the memory
  have hmem : BytesW.sliceTo (A.take L) (A.drop L) (E + 7) = some (A.take (E + 7)) := by
    unfold BytesW.sliceTo; rw [List.take_append_drop, if_pos hEA]
  have hpd : ({ arr := A, len := E + 7 } : Slice).data = A.take (E + 7) := rfl
  have hpl : (A.take L).length = L := by rw [List.length_take]; omega
  have hsmall : E + 7 < 4294967296 + 8 := c.small
  generalize hg : s.bucketDictionary.bucketHash = g at c hb ⊢
  obtain ⟨bsN, hbsN⟩ : ∃ n : Nat, g.bucketSize = (n : Int) := ⟨g.bucketSize.toNat, by have := hb.bs1; omega⟩
  have hbsN' : g.bucketSize.toNat = bsN := by omega
  -- the load at i
  obtain ⟨y, hy, hF⟩ := gen_load_ok { arr := A, len := E + 7 } c.swf ia i hia (by show i + 8 ≤ E + 7; omega)
  rw [hpd] at hy
  obtain ⟨hv, hlt⟩ := gen_hashValue_shift (y &&& g.mask) g.shift c.sh1 c.sh2
  have hidx : (Gen.hashValue (y &&& g.mask) g.shift).toNat < g.indexes.len := by rw [hv, hb.ilen]; exact hlt
  -- the model side
  rw [bupProbeW_nf ws mmN E (A.drop L) (ofBucket g) (A.take L) i li (A.take (E + 7)) y hmem hy (y &&& g.mask)
    (by rw [ofBucket_inputLen, c.mask])]
  have hscanW := ProbeW.bupScanW_eq (ofBucket g) (A.take L) i ws (lo32 (y &&& g.mask))
    (LZ.hashValue (y &&& g.mask) (ofBucket g).hashBits * (ofBucket g).bucketSize) (by rw [hpl]; omega)
    (List.range (ofBucket g).bucketSize) 0 0 (Nat.zero_le _)
  have hinv := LZ.bupScan_inv (ofBucket g) (A.take L) i ws (lo32 (y &&& g.mask))
    (LZ.hashValue (y &&& g.mask) (ofBucket g).hashBits * (ofBucket g).bucketSize)
    (List.range (ofBucket g).bucketSize) 0 0 (Or.inl ⟨rfl, rfl⟩)
  revert hscanW hinv
  generalize bupScan (ofBucket g) (A.take L) i ws (lo32 (y &&& g.mask))
    (LZ.hashValue (y &&& g.mask) (ofBucket g).hashBits * (ofBucket g).bucketSize)
    (List.range (ofBucket g).bucketSize) 0 0 = ok
  obtain ⟨o, k⟩ := ok
  intro hscanW hinv
  simp only [] at hinv
  have hkL : k ≤ L - i := by
    rcases hinv with ⟨-, hk0⟩ | ⟨j, hj1, hj2, hj3, hj4⟩
    · omega
    · rw [hj4]
      have := BytesW.lcpLen_le_right ((A.take L).drop j) ((A.take L).drop i)
      rw [List.length_drop, hpl] at this
      exact this
  rw [hscanW, Option.bind_some]
  simp only []
  -- the Go side: the load, the view, the scan
  have hbase : (Gen.hashValue (y &&& g.mask) g.shift).toNat * bsN + bsN ≤ g.buckets.len := by
    have := slot_lt _ _ bsN 0 hidx (by have := hb.bs1; omega)
    rw [hb.blen, hbsN', ← hb.ilen]
    have h2 : ((Gen.hashValue (y &&& g.mask) g.shift).toNat + 1) * bsN ≤ g.indexes.len * bsN :=
      Nat.mul_le_mul_right bsN hidx
    rw [Nat.succ_mul] at h2
    exact h2
  have hbarr : (Gen.hashValue (y &&& g.mask) g.shift).toNat * bsN + bsN ≤ g.buckets.arr.length := by
    have := hb.gwf; unfold GWF at this; omega
  rw [bucketParser_Parse_loop_1, if_pos (show ia < inputEnd by omega), hF]
  dsimp only
  rw [hg]
  have hvk : (Int.ofNat (Gen.hashValue (y &&& g.mask) g.shift).toNat) * g.bucketSize =
      (((Gen.hashValue (y &&& g.mask) g.shift).toNat * bsN : Nat) : Int) := by
    rw [hbsN]; show (((Gen.hashValue (y &&& g.mask) g.shift).toNat : Nat) : Int) * (bsN : Int) = _
    rw [Int.natCast_mul]
  rw [hvk]
  have hbk : (ofBucket g).bucketSize = bsN := hbsN'
  have hhb : LZ.hashValue (y &&& g.mask) (ofBucket g).hashBits = (Gen.hashValue (y &&& g.mask) g.shift).toNat := by
    rw [ofBucket_hashBits]; exact hv.symm
  rw [hhb] at hscanW ⊢
  rw [hbk] at hscanW
  generalize hbd : (Gen.hashValue (y &&& g.mask) g.shift).toNat * bsN = base at hbase hbarr hscanW ⊢
  rw [gslice_ok g.buckets (base : Int) ((base : Int) + g.bucketSize) base (base + bsN) rfl
    (by rw [hbsN]; omega) (by omega) hbarr, bind_ok]
  -- the scan
  have hsc := scan_eq grow fuel lcp hlcp (ofBucket g) (g.buckets.arr.drop base) (base + bsN - base) base
    (by rw [List.length_drop]; omega)
    (fun t ht => view_get g hb.gwf base (base + bsN - base) t ht (by omega))
    (y &&& g.mask).toUInt32 ia i hia s hws0 A L hLA (by omega) (base + bsN - base) 0 0 0 (by omega)
  have hsc' : (gcall% bucketParser_Parse_loop_2 [grow := grow, fuel := fuel, lcp := lcp,
      view1 := ({ arr := g.buckets.arr.drop base, len := base + bsN - base } : GSlice Gen.bucketEntry),
      v := (y &&& g.mask).toUInt32, i := ia, s := s, p := ({ arr := A, len := L } : Slice), rest_1 := base + bsN - base,
      i_2 := (0 : Int), o := (0 : Int), k := (0 : Int)]) =
      Res.ok ((o : Int), (k : Int)) := by
    refine hsc.trans ?_
    have e1 : base + bsN - base = bsN := by omega
    rw [e1, ← List.range_eq_range', lo32_eq, ← hws, hscanW]
    rfl
  rw [hsc', bind_ok]
  -- `s.add(h, uint32(i), v)`
  obtain ⟨g1, hadd, hofg1, hb1, hsc1⟩ := gen_add g hb (Gen.hashValue (y &&& g.mask) g.shift) (UInt32.ofInt ia)
    (y &&& g.mask).toUInt32 hidx
  rw [hadd, bind_ok]
  dsimp only
  have hsmall2 : E + 7 < 4294967296 + 8 := c.small
  rw [toNat_ofInt32 i ia hia (by omega), lo32_eq] at hofg1
  rw [← hofg1]
  by_cases hk : k < mmN
  · rw [if_pos hk, if_pos (show (k : Int) < mm by omega)]
    refine ⟨_, rfl, g1, hb1, hsc1, rfl, ?_, ?_⟩
    · simp only [setB, hg]
    · intro st k' o' hc; cases hc
  · rw [if_neg hk, if_neg (show ¬ (k : Int) < mm by omega)]
    -- q := p[litIndex:i]
    rw [slice_okI { arr := A, len := L } lia ia li i hlia hia hli (by show i ≤ A.length; omega), bind_ok]
    -- the re-indexing loop
    have hbI : (if ia + (k : Int) > inputEnd then inputEnd else ia + (k : Int)) = ((Min.min (i + k) E : Nat) : Int) := by
      rw [hia, hE]; split <;> omega
    rw [hbI]
    have c1 : BCtx g1 { arr := A, len := E + 7 } := c.of_same hsc1
    obtain ⟨jj, g2, hb2, hsc2, hr2, hl2⟩ := loop3_eq grow lcp ((Min.min (i + k) E : Nat) : Int) (y &&& g.mask)
      { arr := A, len := E + 7 } (Gen.hashValue (y &&& g.mask) g.shift)
      (Min.min (i + k) E - (i + 1)) fuel (i + 1) (ia + 1)
      { bucketDictionary := { ParserBuffer := s.bucketDictionary.ParserBuffer, bucketHash := g1 }, BUPConfig := s.BUPConfig }
      (by omega) (by omega) (by omega) (by show _ ∨ _ ≤ E + 7; omega) c1 hb1
    rw [hl2, bind_ok]
    rw [hpd] at hr2
    have hr2' : ProbeW.binsertRangeW (ofBucket g1) (A.take (E + 7)) (i + 1) (Min.min (i + k) E - (i + 1)) =
        some (ofBucket g2) := hr2
    rw [hr2', Option.bind_some]
    refine ⟨_, rfl, g2, hb2, hsc1.trans hsc2, rfl, ?_, ?_⟩
    · have e1 : ia + (k : Int) - 1 + 1 = ((i + k : Nat) : Int) := by omega
      have e2 : ia + (k : Int) = ((i + k : Nat) : Int) := by omega
      rw [e1, e2]
      rfl
    · intro st k' o' hc
      simp only [Option.some.injEq, Prod.mk.injEq] at hc
      obtain ⟨h1, h2, h3⟩ := hc
      subst h1; subst h2
      exact ⟨rfl, by omega, by omega⟩

/-- the Go states the loop runs through: only the bucket table changes -/
def InvB (s s' : Gen.bucketParser) : Prop :=
  ∃ g, s' = setB s g ∧ BOK g ∧ SameCfg s.bucketDictionary.bucketHash g

/-- **The greedy loop of `Parse`** (loop_1) is one run of `ProbeW.greedyLoopW` with the finder `ProbeW.bupProbeW`:
    no panic, same final position, `litIndex`, sequences, literals; the final table abstracts to the model's. -/
theorem loops_eq (grow : Nat → Nat → Nat) (lcp : Slice → Slice → Int) (hlcp : LcpSpec lcp)
    (eI mm : Int) (A : List UInt8) (L E mmN ws : Nat)
    (hE : eI = (E : Int)) (hmm : mm = (mmN : Int))
    (hEL : E ≤ L) (hLA : L ≤ A.length) (hEA : E + 7 ≤ A.length) (hmm1 : 1 ≤ mmN)
    (fuel W : Nat) (s : Gen.bucketParser) (blk : Block')
    (c : BCtx s.bucketDictionary.bucketHash { arr := A, len := E + 7 }) (hb : BOK s.bucketDictionary.bucketHash)
    (hws : ws = s.BUPConfig.WindowSize.toNat) (hws0 : 0 ≤ s.BUPConfig.WindowSize) (hW : W ≤ L)
    (hfuel : L + 1 ≤ fuel + W)
    (hsq : blk.Sequences = []) (hlt : blk.Literals.data = []) (hswf : SWF blk.Literals) :
    ∃ (st' : LoopSt BucketT) (g' : Gen.bucketHash) (blk' : Block'),
      ProbeW.greedyLoopW (ProbeW.bupProbeW ws mmN E (A.drop L)) (A.take L) E
        { dict := ofBucket s.bucketDictionary.bucketHash, i := W, litIndex := W, seqs := [], lits := [] } = some st' ∧
      (gcall% bucketParser_Parse_loop_1 [grow := grow, lcp := lcp, inputEnd := eI,
            _p := ({ arr := A, len := E + 7 } : Slice), p := ({ arr := A, len := L } : Slice), minMatchLen := mm,
            fuel := fuel, i := (W : Int), s := s, blk := blk, litIndex := (W : Int)]) =
        Res.ok (gstate% bucketParser_Parse_loop_1 [i := (st'.i : Int), s := setB s g', blk := blk',
          litIndex := (st'.litIndex : Int)]) ∧
      BOK g' ∧ SameCfg s.bucketDictionary.bucketHash g' ∧ st'.dict = ofBucket g' ∧
      blk'.Sequences = st'.seqs.map seqRep ∧ blk'.Literals.data = st'.lits ∧ SWF blk'.Literals ∧
      W ≤ st'.litIndex ∧ st'.litIndex ≤ L := by
  -- the generic lemma wants the state as `(i, s, blk, litIndex)`: the components of the result are taken by name
  let loopF : Nat → Int → Gen.bucketParser → Block' → Int → Res (Int × Gen.bucketParser × Block' × Int) :=
    fun fuel ia s blk lia =>
      Res.bind (gcall% bucketParser_Parse_loop_1 [grow := grow, lcp := lcp, inputEnd := eI,
            _p := ({ arr := A, len := E + 7 } : Slice), p := ({ arr := A, len := L } : Slice), minMatchLen := mm,
            fuel := fuel, i := ia, s := s, blk := blk, litIndex := lia]) fun r =>
        Res.ok (gproj% bucketParser_Parse_loop_1 i ((), r), gproj% bucketParser_Parse_loop_1 s ((), r),
          gproj% bucketParser_Parse_loop_1 blk ((), r), gproj% bucketParser_Parse_loop_1 litIndex ((), r))
  obtain ⟨st1, s1, blk1, hg1, hl1, ⟨g1, rfl, hb1, hsc1⟩, hd1, hE1, hiL1, hli1, hsq1, hlt1, hswf1, hW1⟩ :=
    greedy_generic (ProbeW.bupProbeW ws mmN E (A.drop L)) loopF
      (fun s' => ofBucket s'.bucketDictionary.bucketHash) (InvB s)
      grow A L E E 0 0 (Nat.le_refl _) hEL hLA
      (fun fuel ia s blk lia h => by
        show Res.bind (gcall% bucketParser_Parse_loop_1 [grow := grow, lcp := lcp, inputEnd := eI,
            _p := ({ arr := A, len := E + 7 } : Slice), p := ({ arr := A, len := L } : Slice), minMatchLen := mm,
            fuel := fuel + 1, i := ia, s := s, blk := blk, litIndex := lia]) _ = _
        rw [bucketParser_Parse_loop_1, if_neg (by omega)]
        try rfl)
      (fun fuel i li ia lia s' blk hinv hia hlia hlo hi hli hf => by
        obtain ⟨g, rfl, hbg, hscg⟩ := hinv
        obtain ⟨r, hr, g', hb', hsc', hr1, hstp, hbnd⟩ := loop1_step grow lcp hlcp eI mm A L E mmN ws
          fuel i li ia lia (setB s g) blk (c.of_same hscg) hbg hia hlia hE hmm hi hEL hLA hEA hli hws hws0 hmm1 (by omega)
        refine ⟨r, hr, setB s g', ⟨g', rfl, hb', hscg.trans hsc'⟩, hr1, ?_, ?_⟩
        · show Res.bind (gcall% bucketParser_Parse_loop_1 [grow := grow, lcp := lcp, inputEnd := eI,
            _p := ({ arr := A, len := E + 7 } : Slice), p := ({ arr := A, len := L } : Slice), minMatchLen := mm,
            fuel := fuel + 1, i := ia, s := setB s g, blk := blk, litIndex := lia]) _ = _
          rw [hstp]
          obtain ⟨d, m⟩ := r
          cases m with
          | none => rfl
          | some m =>
            obtain ⟨st, k, o⟩ := m
            obtain ⟨rfl, -, -⟩ := hbnd st k o rfl
            rfl
        · intro st k o hc
          obtain ⟨rfl, h1, h2⟩ := hbnd st k o hc
          exact ⟨hli, Nat.le_refl _, by omega, h2⟩)
      (E - W) fuel W W (W : Int) (W : Int) s blk [] [] (by omega) (Nat.zero_le _) hW (Nat.le_refl _) rfl rfl
      (by omega) ⟨_, rfl, hb, SameCfg.refl _⟩ (by rw [hsq]; rfl) hlt hswf
  refine ⟨st1, g1, blk1, ?_, ?_, hb1, hsc1, hd1, hsq1, hlt1, hswf1, hW1, by omega⟩
  · rw [hg1]
    exact ProbeW.greedyLoopW_done _ _ _ _ (by omega)
  · have hl1' : Res.bind (gcall% bucketParser_Parse_loop_1 [grow := grow, lcp := lcp, inputEnd := eI,
            _p := ({ arr := A, len := E + 7 } : Slice), p := ({ arr := A, len := L } : Slice), minMatchLen := mm,
            fuel := fuel, i := (W : Int), s := s, blk := blk, litIndex := (W : Int)])
        (fun r => Res.ok (gproj% bucketParser_Parse_loop_1 i ((), r), gproj% bucketParser_Parse_loop_1 s ((), r),
          gproj% bucketParser_Parse_loop_1 blk ((), r), gproj% bucketParser_Parse_loop_1 litIndex ((), r))) =
        Res.ok ((st1.i : Int), setB s g1, blk1, (st1.litIndex : Int)) := hl1
    cases hL : (gcall% bucketParser_Parse_loop_1 [grow := grow, lcp := lcp, inputEnd := eI,
            _p := ({ arr := A, len := E + 7 } : Slice), p := ({ arr := A, len := L } : Slice), minMatchLen := mm,
            fuel := fuel, i := (W : Int), s := s, blk := blk, litIndex := (W : Int)]) with
    | ok r =>
      -- the components of the result by name; the tuple is put together again by eta
      rw [hL, bind_ok] at hl1'
      injection hl1' with hl1'
      simp only [Prod.mk.injEq] at hl1'
      obtain ⟨q1, q2, q3, q4⟩ := hl1'
      rw [← q1, ← q2, ← q3, ← q4]
    | panic => rw [hL] at hl1'; cases hl1'
    | fuel => rw [hL] at hl1'; cases hl1'

end LZ.GenBUPParse

#print axioms LZ.GenBUPParse.loop1_step
#print axioms LZ.GenBUPParse.loops_eq
