/-
  LzProofs.GenDHPParseNil — port of LzProofs/GenHPParseNil.lean to the double hash parser DHP: the NIL PATH of the
  mechanical translation of dhp.go `(*doubleHashParser).Parse`:
  `doubleHashParser_Parse_nilable grow fuel s true blk flags` (LzModel/Generated/CodeDHPParse.lean; the pointer
  parameter `blk` is modelled by a flag plus a value, tools/extract/code_nil.go) is the call `Parse(nil, flags)`.
  No sorry, no axioms of its own.

    gen_dhp_parse_nonnil   `doubleHashParser_Parse … blk …` IS `doubleHashParser_Parse_nilable … false blk …`
    gen_dhp_parseNil_empty the straight-line prefix (`n = 0`), every fuel
    gen_dhp_parseNil       for every Go state with `ParseOKD s`, every `blk` (a ghost), every `flags`, `fuel ≥ len + 2`:
                             `parseNilW (ofDHPs s) (staleOfD s) = none` ⇒ the translated `Parse(nil)` is `Res.panic`
                             `… = some (s', n, e)` ⇒ it is `Res.ok (t, blk, n, parseErr e)` — THE SAME `blk`: nothing is
                             written — with `ofDHPs t = s'`, `staleOfD t = staleOfD s`, `ParseOKD t`, and only `W` and
                             the two tables of the Go state change (`∃ t1 t2, t = withWTD s … t1 t2`)
    gen_dhp_parseNil_model on reachable states: the list-level `Parser.parseNil`, no panic
-/
import LzProofs.GenDHPParse

set_option linter.unusedSimpArgs false
set_option linter.unusedVariables false

namespace LZ.GenDHPParse
open LZ LZ.Gen LZ.GenBuf LZ.GenHash LZ.GenProps LZ.GenHPParse LZ.GenParse

theorem gen_dhp_parse_nonnil (grow : Nat → Nat → Nat) (fuel : Nat) (s : Gen.doubleHashParser) (blk : Gen.Block')
    (flags : Int) :
    doubleHashParser_Parse grow fuel s blk flags = doubleHashParser_Parse_nilable grow fuel s false blk flags := rfl

/-- the straight-line prefix of the nil path: nothing buffered ⇒ `(0, ErrEmptyBuffer)`, the parser and the ghost block
    unchanged; for every `grow`, `fuel`, `flags` -/
theorem gen_dhp_parseNil_empty (grow : Nat → Nat → Nat) (fuel : Nat) (s : Gen.doubleHashParser) (blk : Gen.Block')
    (flags : Int) (h : blockND s = 0) :
    doubleHashParser_Parse_nilable grow fuel s true blk flags = Res.ok (s, blk, (0 : Int), ErrEmptyBuffer) := by
  unfold doubleHashParser_Parse_nilable
  simp only [gen_min, Int.min_def, gt_iff_lt, ge_iff_le, Int.not_lt, Int.not_le,
    blockND_lt, blockND_le, blockND_lt', blockND_le']
  simp only [h, if_true]

theorem parseNilW_double_nf (s : Parser) (stale : List Byte) (d : Hash2) (hd : s.dict = .double d)
    (hn : s.blockN ≠ 0) :
    ProbeW.parseNilW s stale =
      (ProbeW.processSegment2W d.h1 d.h2 s.buf.data stale ((s.buf.w : Int) - d.h2.inputLen + 1)
        ((s.buf.w + s.blockN : Nat) : Int)).bind fun hh =>
      some ({ s with buf := { s.buf with w := s.buf.w + s.blockN }, dict := .double { h1 := hh.1, h2 := hh.2 } },
        s.blockN, .ok) := by
  unfold ProbeW.parseNilW
  simp only [hn, if_false, hd]
  rfl

set_option maxHeartbeats 1000000 in
theorem gen_dhp_parseNil (grow : Nat → Nat → Nat) (fuel : Nat) (s : Gen.doubleHashParser) (blk : Gen.Block')
    (flags : Int) (h : ParseOKD s) (hfuel : s.doubleHashDictionary.ParserBuffer.Data.len + 2 ≤ fuel) :
    match ProbeW.parseNilW (ofDHPs s) (staleOfD s) with
    | none => doubleHashParser_Parse_nilable grow fuel s true blk flags = Res.panic
    | some (s', n, e) =>
      ∃ t, doubleHashParser_Parse_nilable grow fuel s true blk flags = Res.ok (t, blk, (n : Int), parseErr e) ∧
        ofDHPs t = s' ∧ staleOfD t = staleOfD s ∧ (e = .ok ∨ e = .empty) ∧ ParseOKD t ∧
        ∃ t1 t2, t = withWTD s ((s'.buf.w : Nat) : Int) t1 t2 := by
  have hP := h
  obtain ⟨⟨hpb, hw1, hw2⟩, cws, cbs, cil, hbs0, hW, hil1, hil12, hsh1, hsh2, hsmall⟩ := h
  obtain ⟨hgwf1, hil01, hmask1, hs641, htl1⟩ := hw1
  obtain ⟨hgwf2, hil02, hmask2, hs642, htl2⟩ := hw2
  have w1 : HOK s.doubleHashDictionary.h1 := ⟨hil01, hmask1, hsh1, hs641, ⟨hgwf1, htl1⟩⟩
  have w2 : HOK s.doubleHashDictionary.h2 := ⟨hil02, hmask2, hsh2, hs642, ⟨hgwf2, htl2⟩⟩
  have hD : SWF s.doubleHashDictionary.ParserBuffer.Data := hpb.data
  have hD' : s.doubleHashDictionary.ParserBuffer.Data.len ≤ s.doubleHashDictionary.ParserBuffer.Data.arr.length := hD
  have hW0 := hpb.w
  have hdl : s.doubleHashDictionary.ParserBuffer.Data.data.length = s.doubleHashDictionary.ParserBuffer.Data.len :=
    data_length hD
  have hbN : (ofDHPs s).blockN = Min.min (s.doubleHashDictionary.ParserBuffer.Data.len - s.doubleHashDictionary.ParserBuffer.W.toNat)
      s.DHPConfig.BlockSize.toNat := by
    show Min.min (s.doubleHashDictionary.ParserBuffer.Data.data.length - _) s.doubleHashDictionary.ParserBuffer.BufConfig.BlockSize.toNat = _
    rw [hdl, cbs]
    rfl
  have hnG : blockND s = (((ofDHPs s).blockN : Nat) : Int) := by
    rw [hbN]; unfold blockND
    simp only [Int.ofNat_eq_natCast]
    split <;> omega
  have e1 : (((ofDHPs s).buf.w : Nat) : Int) = s.doubleHashDictionary.ParserBuffer.W := by
    show ((s.doubleHashDictionary.ParserBuffer.W.toNat : Nat) : Int) = _; omega
  by_cases hn : (ofDHPs s).blockN = 0
  · have hg : blockND s = 0 := by rw [hnG, hn]; rfl
    rw [gen_dhp_parseNil_empty grow fuel s blk flags hg]
    unfold ProbeW.parseNilW
    simp only [hn, if_true]
    refine ⟨s, rfl, rfl, rfl, by simp, hP, s.doubleHashDictionary.h1.table, s.doubleHashDictionary.h2.table, ?_⟩
    rw [e1]
  rw [parseNilW_double_nf (ofDHPs s) (staleOfD s)
    ⟨ofHash s.doubleHashDictionary.h1, ofHash s.doubleHashDictionary.h2⟩ rfl hn]
  have hargs : ProbeW.processSegment2W (ofHash s.doubleHashDictionary.h1) (ofHash s.doubleHashDictionary.h2)
      (ofDHPs s).buf.data (staleOfD s)
      (((ofDHPs s).buf.w : Int) - ((ofHash s.doubleHashDictionary.h2).inputLen : Int) + 1)
        (((ofDHPs s).buf.w + (ofDHPs s).blockN : Nat) : Int) =
      ProbeW.processSegment2W (ofHash s.doubleHashDictionary.h1) (ofHash s.doubleHashDictionary.h2)
        s.doubleHashDictionary.ParserBuffer.Data.data
        (s.doubleHashDictionary.ParserBuffer.Data.arr.drop s.doubleHashDictionary.ParserBuffer.Data.len)
        ((s.doubleHashDictionary.ParserBuffer.W - s.doubleHashDictionary.h2.inputLen) + 1)
        (s.doubleHashDictionary.ParserBuffer.W + (((ofDHPs s).blockN : Nat) : Int)) := by
    have e2 : (((ofHash s.doubleHashDictionary.h2).inputLen : Nat) : Int) = s.doubleHashDictionary.h2.inputLen := by
      show ((s.doubleHashDictionary.h2.inputLen.toNat : Nat) : Int) = _; omega
    rw [Int.natCast_add, e1, e2]; rfl
  rw [hargs]
  have hps := gen_processSegment2 fuel s.doubleHashDictionary
    ((s.doubleHashDictionary.ParserBuffer.W - s.doubleHashDictionary.h2.inputLen) + 1)
    (s.doubleHashDictionary.ParserBuffer.W + (((ofDHPs s).blockN : Nat) : Int)) hD w1 w2 hil12 hsmall (by omega)
  generalize hG : doubleHashParser_Parse_nilable grow fuel s true blk flags = G
  unfold doubleHashParser_Parse_nilable at hG
  simp only [gen_min, Int.min_def, gt_iff_lt, ge_iff_le, Int.not_lt, Int.not_le,
    blockND_lt, blockND_le, blockND_lt', blockND_le', hnG] at hG
  simp only [if_true] at hG
  rw [if_neg (by omega)] at hG
  cases hp1 : ProbeW.processSegment2W (ofHash s.doubleHashDictionary.h1) (ofHash s.doubleHashDictionary.h2)
        s.doubleHashDictionary.ParserBuffer.Data.data
        (s.doubleHashDictionary.ParserBuffer.Data.arr.drop s.doubleHashDictionary.ParserBuffer.Data.len)
        ((s.doubleHashDictionary.ParserBuffer.W - s.doubleHashDictionary.h2.inputLen) + 1)
        (s.doubleHashDictionary.ParserBuffer.W + (((ofDHPs s).blockN : Nat) : Int)) with
  | none =>
    rw [hp1] at hps
    simp only [] at hps
    rw [hps] at hG
    exact hG.symm
  | some hh =>
    rw [hp1] at hps
    obtain ⟨t01, t02, ht01, ht02, rfl, hps⟩ := hps
    rw [hps, bind_ok] at hG
    rw [Option.bind_some]
    dsimp only at hG ⊢
    have hN := (ofDHPs s).blockN_le
    have hwn : (ofDHPs s).buf.w = s.doubleHashDictionary.ParserBuffer.W.toNat := rfl
    have hLlen : s.doubleHashDictionary.ParserBuffer.W.toNat + (ofDHPs s).blockN ≤
        s.doubleHashDictionary.ParserBuffer.Data.len := by
      rw [hbN]; omega
    have hwt : s.doubleHashDictionary.ParserBuffer.W + (((ofDHPs s).blockN : Nat) : Int) =
        (((ofDHPs s).buf.w + (ofDHPs s).blockN : Nat) : Int) := by rw [hwn]; omega
    refine ⟨withWTD s (((ofDHPs s).buf.w + (ofDHPs s).blockN : Nat) : Int) t01 t02, hG.symm.trans ?_, ?_, rfl,
      Or.inl rfl, ?_, t01, t02, rfl⟩
    · rw [hwt]; rfl
    · show ofDHPs (withWTD s _ t01 t02) = _
      unfold ofDHPs ofDDict ofPB
      simp only [Int.toNat_natCast]
      rfl
    · exact ⟨⟨⟨hD, by show (0 : Int) ≤ (((ofDHPs s).buf.w + (ofDHPs s).blockN : Nat) : Int); omega, hpb.off, hpb.ss, hpb.bs⟩,
          ⟨ht01.1, hil01, hmask1, hs641, ht01.2⟩, ⟨ht02.1, hil02, hmask2, hs642, ht02.2⟩⟩,
        cws, cbs, cil, hbs0,
        by show (((ofDHPs s).buf.w + (ofDHPs s).blockN : Nat) : Int) ≤ ((s.doubleHashDictionary.ParserBuffer.Data.len : Nat) : Int); rw [hwn]; omega,
        hil1, hil12, hsh1, hsh2, hsmall⟩

/-- **Go text → list-level model**, nil path: on reachable states no panic, the result of `Parser.parseNil`. -/
theorem gen_dhp_parseNil_model (grow : Nat → Nat → Nat) (fuel : Nat) (s : Gen.doubleHashParser) (blk : Gen.Block')
    (flags : Int) (h : ParseOKD s) (hfuel : s.doubleHashDictionary.ParserBuffer.Data.len + 2 ≤ fuel)
    (hcap : (ofDHPs s).buf.CapOK) (hil8 : s.doubleHashDictionary.h2.inputLen ≤ 8) :
    ∃ t, doubleHashParser_Parse_nilable grow fuel s true blk flags =
        Res.ok (t, blk, (((ofDHPs s).parseNil).2.1 : Int), parseErr ((ofDHPs s).parseNil).2.2) ∧
      ofDHPs t = ((ofDHPs s).parseNil).1 ∧ staleOfD t = staleOfD s ∧ ParseOKD t ∧
      ∃ t1 t2, t = withWTD s ((((ofDHPs s).parseNil).1.buf.w : Nat) : Int) t1 t2 := by
  have hb : ProbeW.Backing (ofDHPs s) (staleOfD s) := staleOfD_length s h.wf.1.data
  have hd : ProbeW.HashDictOK (ofDHPs s).dict := by
    have hil1 := h.il1
    have hil12 := h.il12
    show 1 ≤ s.doubleHashDictionary.h1.inputLen.toNat ∧
      s.doubleHashDictionary.h1.inputLen.toNat ≤ s.doubleHashDictionary.h2.inputLen.toNat ∧
      s.doubleHashDictionary.h2.inputLen.toNat ≤ 8
    omega
  have hW := ProbeW.parseNilW_eq (ofDHPs s) (staleOfD s) hb hcap hd
  have hm := gen_dhp_parseNil grow fuel s blk flags h hfuel
  rw [hW] at hm
  obtain ⟨t, h1, h2, h3, _, h5, h6⟩ := hm
  exact ⟨t, h1, h2, h3, h5, h6⟩

#print axioms gen_dhp_parse_nonnil
#print axioms gen_dhp_parseNil_empty
#print axioms gen_dhp_parseNil
#print axioms gen_dhp_parseNil_model

end LZ.GenDHPParse
