/-
  LzProofs.GenParseShared — lemmas shared by the proofs "translated `Parse` = `ProbeW.parseW`" of the hash parsers
  with two tables and with buckets (GenDHPParse, GenBDHPParse, GenBUPParse): generic versions of the HP lemmas of
  LzProofs/GenHPParseLemmas*.lean that do not mention a particular generated loop function.

  A generated loop function enters only through its DEFINING EQUATION, given as a hypothesis in terms of a body
  written here once (`extLoopBody`, the hypotheses `heq` of `reindex1` / `reindex2`); the instantiation per parser
  is `fun … => by rw [P_loop_k]; rfl`.

    Loop2Spec, loop2_of_eqn     the match extension loop `for len(q) >= 8 { … goto match … }`  = `BytesW.matchExtLoop`
    extBlock, extBlock_eq       the block `if k == 8 { … match: }`                              = `BytesW.matchExt`
    reindex1                    a loop `for ; j < b; j++ { x := _getLE64(_p[j:]) & h.mask; h.table[…] = … }` on ONE
                                table reached through a lens of the loop state                  = `ProbeW.insertRangeW`
    reindex2                    the same on TWO tables (one load, two stores)
    table_probe                 `entry := h.table[idx]; h.table[idx] = hashEntry{pos, value}`   = `getD` / `setIfInBounds`
    first_word                  `k := TrailingZeros64(_getLE64(_p[j:])^y) >> 3; if k > len(p)-i {…}; k < minMatchLen`
                                = the head of `BytesW.matchLenInline`
    greedy_generic              the induction over the iterations of a greedy loop (any finder, any state), with the
                                Go loop bound `E'` possibly smaller than the model's bound `E` (two consecutive Go
                                loops = one model loop)
    insertRangeW_add            re-indexing of `[a, a+n+m)` = `[a, a+n)` then `[a+n, a+n+m)`
-/
import LzProofs.GenHPParseLemmasLoop

set_option linter.unusedSimpArgs false
set_option linter.unusedVariables false

namespace LZ.GenParse
open LZ LZ.Gen LZ.GenBuf LZ.GenHash LZ.GenHPParse

/-! ## the match extension loop -/

/-- what the proofs use of a translated loop `for len(q) >= 8 { … }` (exit code 1 = `goto match`) -/
def Loop2Spec (F : Nat → Int → Slice → Slice → Res (Nat × Int × Slice × Slice)) : Prop :=
  ∀ (m fuel kN : Nat) (k : Int) (r q : Slice), q.len < 8 * m → m ≤ fuel → k = (kN : Int) →
    SWF r → SWF q → q.len ≤ r.len →
    ∃ (e kN' : Nat) (r' q' : Slice),
      F fuel k r q = Res.ok (e, (kN' : Int), r', q') ∧ SWF r' ∧ SWF q' ∧
      ((e = 1 ∧ BytesW.matchExtLoop r.data q.data kN = some kN') ∨
       (e ≠ 1 ∧ BytesW.matchExtLoop r.data q.data kN = some (BytesW.matchExtTail r'.data q'.data kN')))

/-- the body of the translated loop (the text the extractor produces for all hash parsers) -/
def extLoopBody (rec : Int → Slice → Slice → Res (Nat × Int × Slice × Slice)) (k : Int) (r q : Slice) :
    Res (Nat × Int × Slice × Slice) :=
  if (Int.ofNat q.len) ≥ 8 then
    Res.bind (LZ.Gen._getLE64 r) fun r_1 =>
    Res.bind (LZ.Gen._getLE64 q) fun r_2 =>
    let x_1 : UInt64 := r_1 ^^^ r_2
    let b : Int := (trailingZeros64 x_1) >>> (3 : Nat)
    let k : Int := k + b
    if b < 8 then
      Res.ok (1, k, r, q)
    else
    Res.bind (Slice.slice r (8 : Int) (Int.ofNat r.len)) fun t_3 =>
    let r : Slice := t_3
    Res.bind (Slice.slice q (8 : Int) (Int.ofNat q.len)) fun t_4 =>
    let q : Slice := t_4
    rec k r q
  else
    Res.ok (0, k, r, q)

theorem loop2_of_eqn (F : Nat → Int → Slice → Slice → Res (Nat × Int × Slice × Slice))
    (heq : ∀ fuel k r q, F (fuel + 1) k r q = extLoopBody (F fuel) k r q) : Loop2Spec F := by
  intro m
  induction m with
  | zero => intro fuel kN k r q h; omega
  | succ m ih =>
    intro fuel kN k r q hm hf hk hr hq hqr
    obtain ⟨f, rfl⟩ : ∃ f, fuel = f + 1 := ⟨fuel - 1, by omega⟩
    have hrl : r.data.length = r.len := data_length hr
    have hql : q.data.length = q.len := data_length hq
    have hr' : r.len ≤ r.arr.length := hr
    have hq' : q.len ≤ q.arr.length := hq
    rw [heq]
    unfold extLoopBody
    by_cases h8 : 8 ≤ q.len
    · rw [if_pos (by show (q.len : Int) ≥ 8; omega), gen_le64 r hr, gen_le64 q hq,
        BytesW.le64_eq_some _ (by omega), BytesW.le64_eq_some _ (by omega)]
      simp only [ofOpt, bind_ok, tz_shr]
      rw [matchExtLoop_ge _ _ _ (by omega) (by omega)]
      generalize BytesW.tz64 (BytesW.getLE64 r.data ^^^ BytesW.getLE64 q.data) >>> 3 = b
      by_cases hb : b < 8
      · rw [if_pos (by omega), if_pos hb]
        exact ⟨1, kN + b, r, q, by rw [hk]; rfl, hr, hq, Or.inl ⟨rfl, rfl⟩⟩
      · rw [if_neg (by omega), if_neg hb,
          slice_okI r 8 (Int.ofNat r.len) 8 r.len rfl rfl (by omega) hr', bind_ok,
          slice_okI q 8 (Int.ofNat q.len) 8 q.len rfl rfl (by omega) hq', bind_ok]
        obtain ⟨e, kN', r', q', hl, h1, h2, h3⟩ := ih f (kN + b) (k + (b : Int))
          { arr := r.arr.drop 8, len := r.len - 8 } { arr := q.arr.drop 8, len := q.len - 8 }
          (by show q.len - 8 < _; omega) (by omega) (by rw [hk]; rfl) (swf_drop _ _ _ hr') (swf_drop _ _ _ hq')
          (by show q.len - 8 ≤ r.len - 8; omega)
        rw [data_drop', data_drop'] at h3
        exact ⟨e, kN', r', q', hl, h1, h2, h3⟩
    · rw [if_neg (by show ¬ (q.len : Int) ≥ 8; omega), matchExtLoop_lt _ _ _ (by omega)]
      exact ⟨0, kN, r, q, by rw [hk], hr, hq, Or.inr ⟨by decide, rfl⟩⟩

/-- the block `if k == 8 { r := p[j+8:]; q := p[i+8:]; for len(q) >= 8 {…}; if len(q) > 0 {…}; match: }` as the
    extractor translates it (a join; `F` = the translated inner loop) -/
def extBlock (F : Nat → Int → Slice → Slice → Res (Nat × Int × Slice × Slice)) (fuel : Nat) (p : Slice)
    (i j k : Int) : Res Int :=
  if k = 8 then
    Res.bind (Slice.slice p (j + 8) (Int.ofNat p.len)) fun t_9 =>
    let r : Slice := t_9
    Res.bind (Slice.slice p (i + 8) (Int.ofNat p.len)) fun t_10 =>
    let q : Slice := t_10
    Res.bind (F fuel k r q) fun r_11 =>
    let k : Int := r_11.2.1
    let r : Slice := r_11.2.2.1
    let q : Slice := r_11.2.2.2
    if r_11.1 = 1 then
      Res.ok k
    else
    Res.bind (
      if (Int.ofNat q.len) > 0 then
        Res.bind (LZ.Gen.getLE64 r) fun r_12 =>
        Res.bind (LZ.Gen.getLE64 q) fun r_13 =>
        let x_2 : UInt64 := r_12 ^^^ r_13
        let b : Int := (trailingZeros64 x_2) >>> (3 : Nat)
        let b : Int :=
          if b > (Int.ofNat q.len) then
            let b : Int := Int.ofNat q.len
            b
          else
            b
        let k : Int := k + b
        Res.ok k
      else
        Res.ok k) fun join_14 =>
    let k : Int := join_14
    Res.ok k
  else
    Res.ok k

/-- the extension block computes `BytesW.matchExt` (no panic) -/
theorem extBlock_eq (F : Nat → Int → Slice → Slice → Res (Nat × Int × Slice × Slice)) (hF : Loop2Spec F)
    (fuel : Nat) (A : List UInt8) (L i j k8 kk : Nat) (ia : Int) (hia : ia = (i : Int))
    (hj : j < i) (hk8 : k8 ≤ L - i) (hLA : L ≤ A.length) (hfuel : L - i ≤ fuel)
    (hme : BytesW.matchExt (A.take L) i j k8 = some kk) :
    extBlock F fuel { arr := A, len := L } ia (Int.ofNat j) ((k8 : Nat) : Int) = Res.ok ((kk : Nat) : Int) := by
  have hpl : (A.take L).length = L := by rw [List.length_take]; omega
  unfold extBlock
  by_cases h8 : k8 = 8
  · subst h8
    rw [if_pos (by omega)]
    have hme' := hme
    unfold BytesW.matchExt at hme'
    rw [if_pos rfl, BytesW.sliceFrom_eq_some _ _ (by rw [hpl]; omega),
      BytesW.sliceFrom_eq_some _ _ (by rw [hpl]; omega)] at hme'
    simp only [Option.bind_eq_bind, Option.bind_some] at hme'
    refine bind_trans (slice_okI _ (Int.ofNat j + 8) (Int.ofNat L) (j + 8) L (by show (j : Int) + 8 = _; omega) rfl
      (by omega) hLA) ?_
    refine bind_trans (slice_okI _ (ia + 8) (Int.ofNat L) (i + 8) L (by omega) rfl (by omega) hLA) ?_
    obtain ⟨e, kN', r', q', hl2, hr', hq', hdisj⟩ := hF (L - i) fuel 8
      ((8 : Nat) : Int) { arr := A.drop (j + 8), len := L - (j + 8) } { arr := A.drop (i + 8), len := L - (i + 8) }
      (by show L - (i + 8) < 8 * (L - i); omega) (by omega) rfl (swf_drop _ _ _ hLA) (swf_drop _ _ _ hLA)
      (by show L - (i + 8) ≤ L - (j + 8); omega)
    refine bind_trans hl2 ?_
    dsimp only
    rw [data_drop, data_drop, hme'] at hdisj
    rcases hdisj with ⟨he, hm⟩ | ⟨he, hm⟩
    · rw [if_pos he]
      injection hm with hm
      rw [hm]
    · rw [if_neg he]
      injection hm with hm
      by_cases hq0 : q'.len > 0
      · rw [if_pos (by show (q'.len : Int) > 0; omega), gen_getLE64 r' hr', bind_ok, gen_getLE64 q' hq', bind_ok,
          bind_ok]
        have htv := tail_val r'.data q'.data kN' (by rw [data_length hq']; exact hq0)
        rw [data_length hq'] at htv
        rw [hm]
        simp only [tz_shr]
        exact congrArg Res.ok htv
      · rw [if_neg (by show ¬ (q'.len : Int) > 0; omega), bind_ok]
        unfold BytesW.matchExtTail at hm
        rw [if_neg (by rw [data_length hq']; exact hq0)] at hm
        rw [hm]
  · rw [if_neg (by omega)]
    unfold BytesW.matchExt at hme
    rw [if_neg h8] at hme
    injection hme with hme
    rw [hme]

/-! ## re-indexing loops -/

/-- `x := _getLE64(_p[j:]) & h.mask; h.table[hashValue(x, h.shift)] = hashEntry{pos: uint32(j), value: uint32(x)}`
    as a function of the table -/
def storeKey (g : Gen.hash) (t : GSlice hashEntry) (y : UInt64) (j : Int) : Res (GSlice hashEntry) :=
  GSlice.set t (Int.ofNat (LZ.Gen.hashValue (y &&& g.mask) g.shift).toNat)
    ({ pos := UInt32.ofInt j, value := (y &&& g.mask).toUInt32 } : hashEntry)

/-- a re-indexing loop on ONE table.  `σ` = the loop state (the parser, possibly with further variables),
    `g` = the Go `hash` value inside it, `next s y t` = the state after one iteration that loaded the word `y` and
    stored into the table, giving the table `t`. -/
theorem reindex1 {σ : Type} (F : Nat → Int → σ → Res (Int × σ)) (b : Int) (_p : Slice)
    (g : σ → Gen.hash) (next : σ → UInt64 → GSlice hashEntry → σ)
    (hg : ∀ s y t, g (next s y t) = { g s with table := t })
    (heq : ∀ fuel j s, F (fuel + 1) j s =
      if j < b then
        Res.bind (Slice.slice _p j (Int.ofNat _p.len)) fun t_1 =>
        Res.bind (LZ.Gen._getLE64 t_1) fun r_2 =>
        Res.bind (storeKey (g s) (g s).table r_2 j) fun t_3 =>
        F fuel (j + 1) (next s r_2 t_3)
      else Res.ok (j, s))
    (R : σ → σ → Prop) (hR0 : ∀ s, R s s) (hR : ∀ s s' y t, R s s' → R s (next s' y t)) :
    ∀ (n fuel j : Nat) (a : Int) (s0 s : σ), a = (j : Int) → n = (b - a).toNat → n < fuel →
      (n = 0 ∨ j + n + 7 ≤ _p.len) → R s0 s →
      TCtx (g s).mask (g s).shift (g s).inputLen _p → TOK (g s).shift (g s).table →
      ∃ s' t', TOK (g s).shift t' ∧
        ProbeW.insertRangeW (ofHash (g s)) _p.data j n = some (ofHashT (g s) t') ∧
        F fuel a s = Res.ok (((j + n : Nat) : Int), s') ∧ g s' = { g s with table := t' } ∧ R s0 s' := by
  intro n
  induction n with
  | zero =>
    intro fuel j a s0 s ha hb hf _ hr c ht
    obtain ⟨f, rfl⟩ : ∃ f, fuel = f + 1 := ⟨fuel - 1, by omega⟩
    refine ⟨s, (g s).table, ht, rfl, ?_, rfl, hr⟩
    rw [heq, if_neg (by omega), ha]; rfl
  | succ n ih =>
    intro fuel j a s0 s ha hb hf hn hr c ht
    obtain ⟨f, rfl⟩ : ∃ f, fuel = f + 1 := ⟨fuel - 1, by omega⟩
    obtain ⟨y, t1, hy, hF, hset, ht1, hins⟩ := insert_step (g s) _p c _ ht a j ha (by omega)
    rw [heq, if_pos (by omega), hF]
    unfold storeKey
    rw [hset, bind_ok]
    have hg1 := hg s y t1
    obtain ⟨s', t2, ht2, hr2, hl, hgs, hrr⟩ := ih f (j + 1) (a + 1) s0 (next s y t1) (by omega) (by omega) (by omega)
      (by omega) (hR _ _ _ _ hr) (by rw [hg1]; exact c) (by rw [hg1]; exact ht1)
    rw [hg1] at ht2 hr2 hgs
    refine ⟨s', t2, ht2, ?_, ?_, hgs, hrr⟩
    · unfold ProbeW.insertRangeW
      simp only [Option.bind_eq_bind]
      rw [show ofHash (g s) = ofHashT (g s) (g s).table from rfl, hins, Option.bind_some]
      exact hr2
    · rw [hl]
      have : ((j + 1 + n : Nat) : Int) = ((j + (n + 1) : Nat) : Int) := by omega
      rw [this]

/-- a re-indexing loop on TWO tables: one load, a store into the table of `gA`, then into the table of `gB`. -/
theorem reindex2 {σ : Type} (F : Nat → Int → σ → Res (Int × σ)) (b : Int) (_p : Slice)
    (gA gB : σ → Gen.hash) (nextA nextB : σ → GSlice hashEntry → σ)
    (hAA : ∀ s t, gA (nextA s t) = { gA s with table := t }) (hBA : ∀ s t, gB (nextA s t) = gB s)
    (hBB : ∀ s t, gB (nextB s t) = { gB s with table := t }) (hAB : ∀ s t, gA (nextB s t) = gA s)
    (heq : ∀ fuel j s, F (fuel + 1) j s =
      if j < b then
        Res.bind (Slice.slice _p j (Int.ofNat _p.len)) fun t_1 =>
        Res.bind (LZ.Gen._getLE64 t_1) fun r_2 =>
        Res.bind (storeKey (gA s) (gA s).table r_2 j) fun t_3 =>
        Res.bind (storeKey (gB (nextA s t_3)) (gB (nextA s t_3)).table r_2 j) fun t_4 =>
        F fuel (j + 1) (nextB (nextA s t_3) t_4)
      else Res.ok (j, s))
    (R : σ → σ → Prop) (hR0 : ∀ s, R s s) (hR : ∀ s s' t u, R s s' → R s (nextB (nextA s' t) u)) :
    ∀ (n fuel j : Nat) (a : Int) (s0 s : σ), a = (j : Int) → n = (b - a).toNat → n < fuel →
      (n = 0 ∨ j + n + 7 ≤ _p.len) → R s0 s →
      TCtx (gA s).mask (gA s).shift (gA s).inputLen _p → TOK (gA s).shift (gA s).table →
      TCtx (gB s).mask (gB s).shift (gB s).inputLen _p → TOK (gB s).shift (gB s).table →
      ∃ s' tA tB, TOK (gA s).shift tA ∧ TOK (gB s).shift tB ∧
        ProbeW.insertRangeW (ofHash (gA s)) _p.data j n = some (ofHashT (gA s) tA) ∧
        ProbeW.insertRangeW (ofHash (gB s)) _p.data j n = some (ofHashT (gB s) tB) ∧
        F fuel a s = Res.ok (((j + n : Nat) : Int), s') ∧
        gA s' = { gA s with table := tA } ∧ gB s' = { gB s with table := tB } ∧ R s0 s' := by
  intro n
  induction n with
  | zero =>
    intro fuel j a s0 s ha hb hf _ hr cA htA cB htB
    obtain ⟨f, rfl⟩ : ∃ f, fuel = f + 1 := ⟨fuel - 1, by omega⟩
    refine ⟨s, (gA s).table, (gB s).table, htA, htB, rfl, rfl, ?_, rfl, rfl, hr⟩
    rw [heq, if_neg (by omega), ha]; rfl
  | succ n ih =>
    intro fuel j a s0 s ha hb hf hn hr cA htA cB htB
    obtain ⟨f, rfl⟩ : ∃ f, fuel = f + 1 := ⟨fuel - 1, by omega⟩
    obtain ⟨y, t1, hy, hF, hset, ht1, hins⟩ := insert_step (gA s) _p cA _ htA a j ha (by omega)
    obtain ⟨y', u1, hy', _, hsetB, hu1, hinsB⟩ := insert_step (gB s) _p cB _ htB a j ha (by omega)
    have hyy : y' = y := by rw [hy] at hy'; injection hy' with h; exact h.symm
    subst hyy
    rw [heq, if_pos (by omega), hF]
    unfold storeKey
    rw [hset, bind_ok, hBA, hsetB, bind_ok]
    have hA1 : gA (nextB (nextA s t1) u1) = { gA s with table := t1 } := by rw [hAB, hAA]
    have hB1 : gB (nextB (nextA s t1) u1) = { gB s with table := u1 } := by rw [hBB, hBA]
    obtain ⟨s', tA, tB, htA2, htB2, hrA, hrB, hl, hgA, hgB, hrr⟩ := ih f (j + 1) (a + 1) s0 (nextB (nextA s t1) u1)
      (by omega) (by omega) (by omega) (by omega) (hR _ _ _ _ hr)
      (by rw [hA1]; exact cA) (by rw [hA1]; exact ht1) (by rw [hB1]; exact cB) (by rw [hB1]; exact hu1)
    rw [hA1] at htA2 hrA hgA
    rw [hB1] at htB2 hrB hgB
    refine ⟨s', tA, tB, htA2, htB2, ?_, ?_, ?_, hgA, hgB, hrr⟩
    · unfold ProbeW.insertRangeW
      simp only [Option.bind_eq_bind]
      rw [show ofHash (gA s) = ofHashT (gA s) (gA s).table from rfl, hins, Option.bind_some]
      exact hrA
    · unfold ProbeW.insertRangeW
      simp only [Option.bind_eq_bind]
      rw [show ofHash (gB s) = ofHashT (gB s) (gB s).table from rfl, hinsB, Option.bind_some]
      exact hrB
    · rw [hl]
      have : ((j + 1 + n : Nat) : Int) = ((j + (n + 1) : Nat) : Int) := by omega
      rw [this]

theorem insertRangeW_succ (_p : List Byte) (k a : Nat) (h : HashT) :
    ProbeW.insertRangeW h _p a (k + 1) =
      (ProbeW.insertW h _p a).bind fun h1 => ProbeW.insertRangeW h1 _p (a + 1) k := rfl

theorem insertRangeW_add (_p : List Byte) : ∀ (n m a : Nat) (h : HashT),
    ProbeW.insertRangeW h _p a (n + m) =
      (ProbeW.insertRangeW h _p a n).bind fun h' => ProbeW.insertRangeW h' _p (a + n) m := by
  intro n
  induction n with
  | zero => intro m a h; simp [ProbeW.insertRangeW]
  | succ n ih =>
    intro m a h
    have e : n + 1 + m = (n + m) + 1 := by omega
    rw [e, insertRangeW_succ, insertRangeW_succ]
    cases ProbeW.insertW h _p a with
    | none => rfl
    | some h1 =>
      simp only [Option.bind_some]
      rw [ih m (a + 1) h1]
      have : a + 1 + n = a + (n + 1) := by omega
      rw [this]

/-! ## one table access of the greedy loop -/

/-- `entry := h.table[idx]; h.table[idx] = hashEntry{pos: uint32(i), value: uint32(x)}` with
    `x = y & h.mask`, `idx = hashValue(x, h.shift)`: no panic; the model's `getD` / `setIfInBounds` -/
theorem table_probe (g : Gen.hash) (t : GSlice hashEntry) (ht : TOK g.shift t)
    (sh1 : 32 ≤ g.shift.toNat) (sh2 : g.shift.toNat ≤ 64) (y : UInt64) (ia : Int) (i : Nat) (hia : ia = (i : Int))
    (hi : i < 4294967296) :
    ∃ (ent : hashEntry) (t1 : GSlice hashEntry),
      GSlice.index ({ pos := 0, value := 0 } : hashEntry) t (Int.ofNat (Gen.hashValue (y &&& g.mask) g.shift).toNat)
        = Res.ok ent ∧
      GSlice.set t (Int.ofNat (Gen.hashValue (y &&& g.mask) g.shift).toNat)
        ({ pos := UInt32.ofInt ia, value := (y &&& g.mask).toUInt32 } : hashEntry) = Res.ok t1 ∧
      TOK g.shift t1 ∧
      ofEntry ent = (ofHashT g t).tbl.getD (LZ.hashValue (y &&& g.mask) (ofHashT g t).hashBits) (0, 0) ∧
      ofHashT g t1 = { ofHashT g t with tbl := (ofHashT g t).tbl.setIfInBounds (LZ.hashValue (y &&& g.mask) (ofHashT g t).hashBits) (i, lo32 (y &&& g.mask)) } := by
  obtain ⟨hv, hlt⟩ := gen_hashValue_shift (y &&& g.mask) g.shift sh1 sh2
  have hidx : (Gen.hashValue (y &&& g.mask) g.shift).toNat < t.len := by rw [hv, ht.2]; exact hlt
  refine ⟨_, _, gindex_ok _ _ (Int.ofNat _) _ rfl hidx, gset_ok _ (Int.ofNat _) _ rfl hidx _,
    ⟨gwf_set _ ht.1 _ _, ht.2⟩, ?_, ?_⟩
  · have hget := ofHashT_get g t ht.1 _ hidx
    unfold zeroE at hget
    rw [ofHashT_hashBits, ← hv]
    exact hget.symm
  · have hset := ofHashT_set g t (Gen.hashValue (y &&& g.mask) g.shift).toNat
      { pos := UInt32.ofInt ia, value := (y &&& g.mask).toUInt32 }
    simp only [ofEntry, lo32_eq, toNat_ofInt32 i ia hia hi] at hset
    rw [ofHashT_hashBits, ← hv]
    exact hset

/-! ## the first word of a candidate -/

/-- `k := bits.TrailingZeros64(_getLE64(_p[j:])^y) >> 3; if k > len(p)-i { k = len(p)-i }; if k < minMatchLen {…}`:
    the clamped value `k8`, and what `BytesW.matchLenInline` returns in the two cases -/
theorem first_word (A : List UInt8) (L E mmN i j : Nat) (y z : UInt64) (ia : Int) (hia : ia = (i : Int))
    (hy : (BytesW.sliceFrom (A.take (E + 7)) i).bind BytesW.le64 = some y)
    (hz : (BytesW.sliceFrom (A.take (E + 7)) j).bind BytesW.le64 = some z)
    (hj : j < i) (hi : i < E) (hEL : E ≤ L) (hLA : L ≤ A.length) (hEA : E + 7 ≤ A.length) :
    ∃ k8 : Nat, k8 ≤ L - i ∧
      (if ((BytesW.tz64 (z ^^^ y) >>> 3 : Nat) : Int) > Int.ofNat L - ia then Int.ofNat L - ia
        else ((BytesW.tz64 (z ^^^ y) >>> 3 : Nat) : Int)) = ((k8 : Nat) : Int) ∧
      ((k8 < mmN ∧ BytesW.matchLenInline (A.take L) (A.drop L) E mmN i j = some none) ∨
       (¬ k8 < mmN ∧ ∃ kk, BytesW.matchExt (A.take L) i j k8 = some kk ∧
          BytesW.matchLenInline (A.take L) (A.drop L) E mmN i j = some (some kk) ∧ mmN ≤ kk ∧ kk ≤ L - i)) := by
  have hmem : BytesW.sliceTo (A.take L) (A.drop L) (E + 7) = some (A.take (E + 7)) := by
    unfold BytesW.sliceTo; rw [List.take_append_drop, if_pos hEA]
  have hpl : (A.take L).length = L := by rw [List.length_take]; omega
  have hml := matchLenInline_nf (A.take L) (A.drop L) (A.take (E + 7)) E mmN i j y z hmem hy hz
  rw [hpl] at hml
  have hk8 : (if ((BytesW.tz64 (z ^^^ y) >>> 3 : Nat) : Int) > Int.ofNat L - ia then Int.ofNat L - ia
      else ((BytesW.tz64 (z ^^^ y) >>> 3 : Nat) : Int)) =
      (((if BytesW.tz64 (z ^^^ y) >>> 3 > L - i then L - i else BytesW.tz64 (z ^^^ y) >>> 3 : Nat)) : Int) := by
    rw [hia]; show (if _ > (L : Int) - _ then (L : Int) - _ else _) = _
    split <;> split <;> omega
  have hk8le : (if BytesW.tz64 (z ^^^ y) >>> 3 > L - i then L - i else BytesW.tz64 (z ^^^ y) >>> 3) ≤ L - i := by
    split <;> omega
  refine ⟨_, hk8le, hk8, ?_⟩
  generalize (if BytesW.tz64 (z ^^^ y) >>> 3 > L - i then L - i else BytesW.tz64 (z ^^^ y) >>> 3) = k8
    at hml hk8le ⊢
  by_cases hC1 : k8 < mmN
  · rw [if_pos hC1] at hml
    exact Or.inl ⟨hC1, hml⟩
  rw [if_neg hC1] at hml
  refine Or.inr ⟨hC1, ?_⟩
  have hsem := BytesW.matchLenInline_eq (A.take L) (A.drop L) E mmN i j hj hi (by rw [hpl]; exact hEL)
    (by rw [List.take_append_drop]; exact hEA)
  have hLcle : lcpLen ((A.take L).drop j) ((A.take L).drop i) ≤ L - i := by
    have := BytesW.lcpLen_le_right ((A.take L).drop j) ((A.take L).drop i)
    rw [List.length_drop, hpl] at this; exact this
  generalize lcpLen ((A.take L).drop j) ((A.take L).drop i) = Lc at hsem hLcle
  rw [hml] at hsem
  cases hme : BytesW.matchExt (A.take L) i j k8 with
  | none => rw [hme] at hsem; cases hsem
  | some kk =>
    rw [hme, Option.map_some] at hsem
    have hkk : ¬ Min.min 8 Lc < mmN ∧ kk = Lc := by
      by_cases hh : Min.min 8 Lc < mmN
      · rw [if_pos hh] at hsem; cases hsem
      · rw [if_neg hh] at hsem; injection hsem with h1; injection h1 with h2; exact ⟨hh, h2⟩
    obtain ⟨hmin, hkkLc⟩ := hkk
    subst hkkLc
    rw [hme, Option.map_some] at hml
    exact ⟨kk, rfl, hml, by omega, hLcle⟩

/-! ## the induction over the iterations of a greedy loop -/

/-- **The greedy loop, generically.**  `loopF` = a translated loop `for ; i < E'; i++ { … }` with state
    `(i, s, blk, litIndex)`; `f` = the word-level finder of the model, whose loop runs to `E ≥ E'`; `abs` = the
    dictionary the Go state stands for; `Inv` = the invariant of the Go state.  If ONE iteration of `loopF` at a
    position `lo ≤ i < E'` is one step of the finder (`hstep`; `c` = the fuel an iteration may need for its inner
    loops beyond `L - i`), then the Go loop run from `(i, s, blk, li)` ends in a state `(i', s', blk', li')` with
    `E' ≤ i'`, and the model loop from the corresponding state CONTINUES from the corresponding state. -/
theorem greedy_generic {δ σ : Type} (f : δ → List Byte → Nat → Nat → Option (δ × Option (Nat × Nat × Nat)))
    (loopF : Nat → Int → σ → Block' → Int → Res (Int × σ × Block' × Int)) (abs : σ → δ) (Inv : σ → Prop)
    (grow : Nat → Nat → Nat) (A : List UInt8) (L E E' c lo : Nat) (hE : E' ≤ E) (hEL : E ≤ L) (hLA : L ≤ A.length)
    (hdone : ∀ fuel (ia : Int) s blk lia, ¬ ia < (E' : Int) → loopF (fuel + 1) ia s blk lia = Res.ok (ia, s, blk, lia))
    (hstep : ∀ (fuel i li : Nat) (ia lia : Int) (s : σ) (blk : Block'), Inv s → ia = (i : Int) → lia = (li : Int) →
      lo ≤ i → i < E' → li ≤ i → L + c ≤ fuel + i →
      ∃ r, f (abs s) (A.take L) i li = some r ∧
        ∃ s', Inv s' ∧ r.1 = abs s' ∧
          loopF (fuel + 1) ia s blk lia =
            (match r.2 with
            | none => loopF fuel (ia + 1) s' blk lia
            | some (st, k, o) =>
              loopF fuel ((st + k : Nat) : Int) s'
                { Sequences := blk.Sequences ++ [seqRep { litLen := st - li, matchLen := k, offset := o }],
                  Literals := Slice.append grow blk.Literals ((A.drop li).take (st - li)) }
                ((st + k : Nat) : Int)) ∧
          (∀ st k o, r.2 = some (st, k, o) → li ≤ st ∧ st ≤ i ∧ i < st + k ∧ st + k ≤ L)) :
    ∀ (n fuel i li : Nat) (ia lia : Int) (s : σ) (blk : Block') (sq : List LZ.Seq) (lt : List Byte),
      E' ≤ i + n → lo ≤ i → i ≤ L → li ≤ i → ia = (i : Int) → lia = (li : Int) → L + c + 1 ≤ fuel + i → Inv s →
      blk.Sequences = sq.map seqRep → blk.Literals.data = lt → SWF blk.Literals →
      ∃ (st' : LoopSt δ) (s' : σ) (blk' : Block'),
        ProbeW.greedyLoopW f (A.take L) E { dict := abs s, i := i, litIndex := li, seqs := sq, lits := lt } =
          ProbeW.greedyLoopW f (A.take L) E st' ∧
        loopF fuel ia s blk lia = Res.ok ((st'.i : Int), s', blk', (st'.litIndex : Int)) ∧
        Inv s' ∧ st'.dict = abs s' ∧ E' ≤ st'.i ∧ st'.i ≤ L ∧ st'.litIndex ≤ st'.i ∧
        blk'.Sequences = st'.seqs.map seqRep ∧ blk'.Literals.data = st'.lits ∧ SWF blk'.Literals ∧
        li ≤ st'.litIndex := by
  intro n
  induction n with
  | zero =>
    intro fuel i li ia lia s blk sq lt hn hlo hiL hli hia hlia hfuel hinv hsq hlt hswf
    obtain ⟨fu, rfl⟩ : ∃ fu, fuel = fu + 1 := ⟨fuel - 1, by omega⟩
    refine ⟨{ dict := abs s, i := i, litIndex := li, seqs := sq, lits := lt }, s, blk, rfl, ?_, hinv, rfl,
      by show E' ≤ i; omega, hiL, hli, hsq, hlt, hswf, Nat.le_refl _⟩
    rw [hdone _ _ _ _ _ (by omega), hia, hlia]
  | succ n ih =>
    intro fuel i li ia lia s blk sq lt hn hlo hiL hli hia hlia hfuel hinv hsq hlt hswf
    by_cases hi : i < E'
    · obtain ⟨fu, rfl⟩ : ∃ fu, fuel = fu + 1 := ⟨fuel - 1, by omega⟩
      obtain ⟨r, hr, s1, hinv1, hr1, hstp, hb⟩ := hstep fu i li ia lia s blk hinv hia hlia hlo hi hli (by omega)
      obtain ⟨d, m⟩ := r
      simp only [] at hr1 hstp hb
      subst hr1
      cases m with
      | none =>
        simp only [] at hstp
        obtain ⟨st', s', blk', h1, h2, h3, h4, h5, h6, h7, h9, h10, h11, h12⟩ :=
          ih fu (i + 1) li (ia + 1) lia s1 blk sq lt
          (by omega) (by omega) (by omega) (by omega) (by omega) hlia (by omega) hinv1 hsq hlt hswf
        refine ⟨st', s', blk', ?_, ?_, h3, h4, h5, h6, h7, h9, h10, h11, h12⟩
        · rw [ProbeW.greedyLoopW_none _ _ _ _ _ (by show i < E; omega) hr]; exact h1
        · rw [hstp]; exact h2
      | some m =>
        obtain ⟨st0, k, o⟩ := m
        obtain ⟨hlist, hsti, hik, hkL⟩ := hb st0 k o rfl
        simp only [] at hstp
        have hql : (((A.take L).drop li).take (st0 - li)).length = st0 - li := by
          rw [lits_eq A L li st0 hlist (by omega), List.length_take, List.length_drop]; omega
        obtain ⟨st', s', blk', h1, h2, h3, h4, h5, h6, h7, h9, h10, h11, h12⟩ :=
          ih fu (st0 + k) (st0 + k) ((st0 + k : Nat) : Int) ((st0 + k : Nat) : Int) s1
          { Sequences := blk.Sequences ++ [seqRep { litLen := st0 - li, matchLen := k, offset := o }],
            Literals := Slice.append grow blk.Literals ((A.drop li).take (st0 - li)) }
          (sq ++ [{ litLen := (((A.take L).drop li).take (st0 - li)).length, matchLen := k, offset := o }])
          (lt ++ ((A.take L).drop li).take (st0 - li))
          (by omega) (by omega) hkL (Nat.le_refl _) rfl rfl (by omega) hinv1
          (by rw [List.map_append, hsq, hql]; rfl)
          (by rw [(append_spec grow blk.Literals hswf _).1, hlt, lits_eq A L li st0 hlist (by omega)])
          (swf_append grow _ hswf _)
        refine ⟨st', s', blk', ?_, ?_, h3, h4, h5, h6, h7, h9, h10, h11, by omega⟩
        · rw [ProbeW.greedyLoopW_some _ _ _ _ _ _ _ _ (by show i < E; omega) hr (by show st0 + k > i; omega)]; exact h1
        · rw [hstp]; exact h2
    · obtain ⟨fu, rfl⟩ : ∃ fu, fuel = fu + 1 := ⟨fuel - 1, by omega⟩
      refine ⟨{ dict := abs s, i := i, litIndex := li, seqs := sq, lits := lt }, s, blk, rfl, ?_, hinv, rfl,
        by show E' ≤ i; omega, hiL, hli, hsq, hlt, hswf, Nat.le_refl _⟩
      rw [hdone _ _ _ _ _ (by omega), hia, hlia]

end LZ.GenParse

#print axioms LZ.GenParse.loop2_of_eqn
#print axioms LZ.GenParse.extBlock_eq
#print axioms LZ.GenParse.reindex1
#print axioms LZ.GenParse.reindex2
#print axioms LZ.GenParse.table_probe
#print axioms LZ.GenParse.first_word
#print axioms LZ.GenParse.greedy_generic
