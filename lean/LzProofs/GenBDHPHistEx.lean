/-
  LzProofs.GenBDHPHistEx — non-vacuity of LzProofs/GenBDHPHistRun.lean: a concrete history executed on the TRANSLATED
  functions of the backward double hash parser (`GenBDHPHist.runG`), checked by kernel evaluation, and the instances
  of `C01_go_text_bdhp` / `gen_bdhp_history` for it.  `lcs` is instantiated with the specification itself
  (`GenBHPHist.exLcs`, `LcsSpec` by `rfl`).

  Configuration: ShrinkSize 16, BufferSize 64, WindowSize 64, BlockSize 48, InputLen1 3, HashBits1 4, InputLen2 8,
  HashBits2 4.
  History: Write("Zabcdefgh1371"); Write("51abcdefgX"); Parse(&blk, 0); Shrink(); Write("xyzxyzabcabcQ");
           Parse(&blk, NoTrailingLiterals); Parse(&blk, 0); Parse(&blk, 0) [empty].
  A BACKWARD EXTENSION happens in the first block (the data of `C19Hist.bhp_backward_example`, last byte changed so
  that the long hash does not see the repetition): with 16 slots in the table of the short hash the entries of "abc",
  "bcd" have been overwritten when the second "abcdefg" (position 15) is reached; the match is found at position 17
  and extended two bytes backwards over the pending literals: 15 literals, 7 bytes at offset 14.  The translated
  `Parse` of DHP on the same calls returns 17 literals, 5 bytes at offset 14 (`exRunDHP`).
  The real library (go run against /repo, 2026-09-29) returns the same values for both parsers.
-/
import LzProofs.GenBDHPHistRun
import LzProofs.GenDHPHistEx
import LzProofs.GenBHPHistEx

namespace LZ.GenBDHPHist
open LZ LZ.Gen LZ.GenBuf LZ.GenHash LZ.GenHPParse LZ.GenBHPParse LZ.GenDHPParse LZ.GenBDHPParse LZ.GenProps
open LZ.GenHPHist (GOp GRes GOp.WF ghostRun sliceOf exGrow exB)
open LZ.GenBHPHist (exLcs exLcs_spec)

def exCfg : Gen.BDHPConfig :=
  { ShrinkSize := 16, BufferSize := 64, WindowSize := 64, BlockSize := 48, InputLen1 := 3, HashBits1 := 4,
    InputLen2 := 8, HashBits2 := 4 }

/-- "Zabcdefgh1371" -/
def exE : List UInt8 := [90, 97, 98, 99, 100, 101, 102, 103, 104, 49, 51, 55, 49]
/-- "51abcdefgX" -/
def exF : List UInt8 := [53, 49, 97, 98, 99, 100, 101, 102, 103, 88]

def exOps : List GOp :=
  [ .write (sliceOf exE), .write (sliceOf exF), .parse default 0, .shrink, .write (sliceOf exB), .parse default 1,
    .parse default 0, .parse default 0 ]

/-- the state `bdhp.init(exCfg)` leaves in `new(bdhp)` -/
def exS0 : Gen.bdhp :=
  match bdhp_init default exCfg with
  | .ok (s, _) => s
  | _ => default

theorem exInit : bdhp_init default exCfg = Res.ok (exS0, Gen.Err.ok) := by decide +kernel

theorem exWF : ∀ op ∈ exOps, op.WF := by
  intro op hop
  simp only [exOps, List.mem_cons, List.not_mem_nil, or_false] at hop
  rcases hop with rfl | rfl | rfl | rfl | rfl | rfl | rfl | rfl <;>
    first | trivial | exact Nat.le_refl _ | (show (0 : Int) ≤ _; decide)

/-- the values the translated functions return, in order -/
def exResults : List GRes :=
  [ .write 13 Gen.Err.ok,
    .write 10 Gen.Err.ok,
    -- "Zabcdefgh137151" + match(7, offset 14: found at "cde", extended backwards over "ab") + "X"
    .parse { Sequences := [{ LitLen := 15, MatchLen := 7, Offset := 14, Aux := 0 }],
             Literals := { arr := [90, 97, 98, 99, 100, 101, 102, 103, 104, 49, 51, 55, 49, 53, 49, 88], len := 16 } }
           23 Gen.Err.ok,
    .shrink 7,
    .write 13 Gen.Err.ok,
    .parse { Sequences := [{ LitLen := 3, MatchLen := 3, Offset := 3, Aux := 0 },
                           { LitLen := 3, MatchLen := 3, Offset := 3, Aux := 0 }],
             Literals := { arr := [120, 121, 122, 97, 98, 99], len := 6 } } 12 Gen.Err.ok,
    .parse { Sequences := [], Literals := { arr := [81], len := 1 } } 1 Gen.Err.ok,
    .parse { Sequences := [], Literals := { arr := [], len := 0 } } 0 Gen.ErrEmptyBuffer ]

/-- the run on the translated functions, evaluated by the kernel -/
theorem exRun : (match runG exGrow 140 exLcs exS0 exOps with | .ok r => some r.2 | _ => none) = some exResults := by
  decide +kernel

/-- the bookkeeping computed from the calls and the results: 36 bytes fed, all consumed, three blocks, and they decode
    to those bytes -/
theorem exGhost :
    (ghostRun Ghost.init exOps exResults).fed = exE ++ exF ++ exB ∧
    (ghostRun Ghost.init exOps exResults).consumed = 36 ∧
    decode [] (ghostRun Ghost.init exOps exResults).log = some (exE ++ exF ++ exB) := by decide +kernel

/-- the same first three calls on the translated DHP functions (same configuration): no backward extension -/
theorem exRunDHP :
    (match doubleHashParser_init default
        { ShrinkSize := 16, BufferSize := 64, WindowSize := 64, BlockSize := 48, InputLen1 := 3, HashBits1 := 4,
          InputLen2 := 8, HashBits2 := 4 } with
     | .ok (s, _) =>
       (match LZ.GenDHPHist.runG exGrow 140 s (exOps.take 3) with | .ok r => some r.2 | _ => none)
     | _ => none) =
    some [ .write 13 Gen.Err.ok, .write 10 Gen.Err.ok,
      .parse { Sequences := [{ LitLen := 17, MatchLen := 5, Offset := 14, Aux := 0 }],
               Literals := { arr := [90, 97, 98, 99, 100, 101, 102, 103, 104, 49, 51, 55, 49, 53, 49, 97, 98, 88],
                             len := 18 } } 23 Gen.Err.ok ] := by decide +kernel

/-- `C01_go_text_bdhp` etc. for this history -/
example := C01_go_text_bdhp exCfg exS0 exInit exGrow 140 exLcs exLcs_spec (by decide +kernel) exOps exWF
example := C02_go_text_bdhp exCfg exS0 exInit exGrow 140 exLcs exLcs_spec (by decide +kernel) exOps exWF
example := C03_go_text_bdhp exCfg exS0 exInit exGrow 140 exLcs exLcs_spec (by decide +kernel) exOps exWF
example := gen_bdhp_history exCfg exS0 exInit exGrow 140 exLcs exLcs_spec (by decide +kernel) exOps exWF

end LZ.GenBDHPHist

#print axioms LZ.GenBDHPHist.exInit
#print axioms LZ.GenBDHPHist.exRun
#print axioms LZ.GenBDHPHist.exGhost
#print axioms LZ.GenBDHPHist.exRunDHP
