/-
  LzProofs.GlueSuffix — the named hypotheses of the OSAP/GSAP theorems (C11, C12), discharged
  from the suffix-array theorems (C09, C10).

  Environment: suffix-array files (`SuffixProps` …) + OSAP/GSAP files (`SapHist` …) + `PBufLemmas`.
  (The parser files `ParseProbe` … `ParseProps` cannot be imported next to `Scan.lean` — both
  declare `LZ.ScanInv`; the consequences for the parser-level theorems C01/C02/C03 are in
  `GlueProps.lean`.)

  * `segmentsFacts_holds : SegmentsFacts` — from `segmentsOf_some`, `C10_groups_sound`,
    `C10_groups_complete_unique`, `C10_groups_children_first`, `C10_groups_nodup`,
    `saSpec_isSuffixArray` via `SegHyps_of_C10`.
  * `saok_gsapSort` (GlueLemmas) — `SAOK` for `gsap.sort()`, from `saSpec_isSuffixArray`-style
    facts and `invertSA_sa`, `sa_invertSA` via `SAOK_of_list`.
  * `ceHyps_holds`, `ceHyps_holds_maxMatch` — `CEHyps` for every buffer with
    `len(Data) ≤ MaxInt32` (resp. every buffer when `MaxMatchLen ≤ MaxInt32`).
  * `computeEdges_sound_holds`, `computeEdges_complete_holds`.
  * `C11_optimal_unconditional`, `C12_longest_unconditional`, `C12_literal_only_if_buffer`.
-/
import LzProofs.SuffixProps
import LzProofs.GlueLemmas
namespace LZ.Sap

/-- **The C10 facts hold** (instantiation of `SegHyps` from the C10 theorems of the suffix-array
    topic for the text `t`, its suffix array `saSpec t`, and the LCP table computed by `_lcp`). -/
theorem segmentsFacts_holds : SegmentsFacts := by
  intro t minLen maxLen hmm hmax
  have h := saSpec_isSuffixArray t
  have hmin : (0 : Int) ≤ (minLen : Int) := Int.natCast_nonneg _
  have hmm' : (minLen : Int) ≤ (maxLen : Int) := Int.ofNat_le.2 hmm
  have hmax' : (maxLen : Int) ≤ 2147483647 := by omega
  have hs := segmentsOf_some h hmin hmm' hmax'
  refine ⟨_, hs, ?_⟩
  exact SegHyps_of_C10 h.1
    (fun hcb => C10_groups_sound h hmin hmm' hmax' hs hcb)
    (fun hab hb hc => C10_groups_complete_unique h hmin hmm' hmax' hs hab hb hc)
    (fun h1 h2 hlo hhi hm => C10_groups_children_first h hmin hmm' hmax' hs h1 h2 hlo hhi hm)
    (C10_groups_nodup h hmin hmm' hmax' hs)

/-- **`CEHyps` holds** for every buffer of at most `MaxInt32` bytes: any window head `w`, window
    size `ws`, `MinMatchLen`, `MaxMatchLen`.  (The bound is defect D18: `computeEdges` passes
    `min (max lcp) MaxMatchLen` to `Segments`, which refuses `maxLen > MaxInt32`.) -/
theorem ceHyps_holds (data : List Byte) (w ws mm maxM : Nat) (hlen : data.length ≤ 2147483647) :
    CEHyps data w ws mm maxM :=
  ceHyps_of_segFacts segmentsFacts_holds data w ws mm maxM (Or.inl hlen)

/-- … and for every buffer whatsoever when `MaxMatchLen ≤ MaxInt32` -/
theorem ceHyps_holds_maxMatch (data : List Byte) (w ws mm maxM : Nat) (hmax : maxM ≤ 2147483647) :
    CEHyps data w ws mm maxM :=
  ceHyps_of_segFacts segmentsFacts_holds data w ws mm maxM (Or.inr hmax)

/-- **C11 (ii), soundness of `computeEdges`, unconditionally**: every edge stored for a block
    position is a genuine match of the buffered bytes, inside the window, for every length it is
    used with (all buffers, no size bound: where `Segments` would refuse, nothing is stored). -/
theorem computeEdges_sound_holds (data : List Byte) (w ws mm maxM : Nat) {w' n : Nat}
    (hw' : w ≤ w') (hn : w' + n ≤ data.length) :
    EdgesSound (data.take (w' + n)) w' ws maxM n (computeEdges data w ws mm maxM).edges (w' - w) :=
  computeEdges_sound_of_segFacts segmentsFacts_holds data w ws mm maxM hw' hn

/-- **C11 (ii), completeness of `computeEdges`** for buffers of at most `MaxInt32` bytes (or
    `MaxMatchLen ≤ MaxInt32`): every genuine match at a block position is dominated by a stored
    edge (at least as long, offset no larger). -/
theorem computeEdges_complete_holds (data : List Byte) (w ws mm maxM : Nat)
    (hb : data.length ≤ 2147483647 ∨ maxM ≤ 2147483647) {w' n : Nat}
    (hw' : w ≤ w') (hn : w' + n ≤ data.length) :
    EdgesComplete (data.take (w' + n)) w' ws mm maxM n
      (computeEdges data w ws mm maxM).edges (w' - w) :=
  computeEdges_complete (ceHyps_of_segFacts segmentsFacts_holds data w ws mm maxM hb) hw' hn

/-- **C11, unconditional.**  Start from a new OSAP parser whose configuration has
    `BufferSize ≤ MaxInt32` or `MaxMatchLen ≤ MaxInt32` (`Int32OK`, the D18 bound), apply any
    sequence of `Write`, `ReadFrom`, `Parse(&blk, flags)`, `Parse(nil)`, `Shrink`, `Reset`; the
    next block emitted with flags 0 is an LZ77 parse of its bytes (lengths in
    `[MinMatchLen, MaxMatchLen]`, offsets `≤ WindowSize`, sources in the buffer) of minimum
    `XZCost`. -/
theorem C11_optimal_unconditional (raw : Cfg) (s0 : Parser)
    (h0 : newParser .OSAP raw = some s0) (hb : Int32OK s0)
    (ops : List POp) (flags : Nat) (hf : flags % 2 = 0)
    (hn : (runOps s0 ops).blockN ≠ 0) :
    let s := runOps s0 ops
    ∃ o, s.dict = .osap o ∧
      LzParse (s.buf.data.take (s.buf.w + s.blockN)) s.buf.w s.buf.cfg.windowSize
        s.minMatch s.cfg.maxMatchLen.toNat s.blockN (osapPath s o) ∧
      ∀ π, LzParse (s.buf.data.take (s.buf.w + s.blockN)) s.buf.w s.buf.cfg.windowSize
          s.minMatch s.cfg.maxMatchLen.toNat s.blockN π →
        blockCost (s.parse flags).2.2.2 ≤ pathCost π :=
  C11_optimal_of_segFacts segmentsFacts_holds raw s0 h0 hb ops flags hf hn

/-- the hypothesis `CEAt` of `C11_all_histories` holds for every buffer along every history -/
theorem ceAt_holds (raw : Cfg) (s0 : Parser) (h0 : newParser .OSAP raw = some s0)
    (hb : Int32OK s0) (ops : List POp) : CEAt (runOps s0 ops) :=
  (ceAt_all_histories segmentsFacts_holds raw s0 h0 hb ops).1

/-! ## non-vacuity -/

/-- `CEHyps` for the buffer `"abab"` with the window head at 2 (the instance `ex_ceHyps` of
    SapProps.lean, now obtained from the general theorem) -/
example : CEHyps exData 2 8 2 4 := ceHyps_holds _ _ _ _ _ (by decide)

/-- the hypotheses of `C11_optimal_unconditional` are met by a concrete accepted configuration and
    history (`Write("ababab")`, `Parse(nil)`, `Shrink`, `Write("abab")`) -/
example := C11_optimal_unconditional glueOsapCfg glueOsap0 glueOsap0_new glueOsap0_int32 glueOps 0 rfl
  glueOps_blockN

example : CEAt (runOps glueOsap0 glueOps) := ceAt_holds glueOsapCfg glueOsap0 glueOsap0_new
  glueOsap0_int32 glueOps

/-! ## axioms -/

#print axioms segmentsFacts_holds
#print axioms saok_gsapSort
#print axioms ceHyps_holds
#print axioms ceHyps_holds_maxMatch
#print axioms computeEdges_sound_holds
#print axioms computeEdges_complete_holds
#print axioms C11_optimal_unconditional
#print axioms ceAt_holds
#print axioms C12_longest_unconditional
#print axioms C12_literal_only_if_buffer

end LZ.Sap
