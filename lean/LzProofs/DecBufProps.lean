/-
  LzProofs.DecBufProps — properties C04, C05, C17 for the model of Go's `DecoderBuffer`
  (LzModel/DecBuf.lean).  All theorems hold for every growth function `g : Grow`.  The hypothesis
  `∀ c n, n ≤ g c n` is needed in exactly one theorem (`cap_invariant`, `len(Data) ≤ cap(Data)`):
  `cap` influences the behaviour only through `BufferSize := max BufferSize cap`, and the proofs
  only use that `BufferSize` never decreases and stays `≥ len(Data)`.

  Reading guide: `Abs b written delivered` (DecBufLemmas.lean) is the abstraction relation;
  `copyRef`/`expandSeqs`/`expand` (LzModel/Basic.lean) are the reference semantics.
-/
import LzProofs.DecBufLemmas
namespace LZ.DecBuf

/-! ## Part 3 definitions: histories -/

/-- the operations of `DecoderBuffer` -/
inductive DOp where
  | writeByte (c : Byte)
  | write (p : List Byte)
  | writeMatch (m o : Nat)
  | writeBlock (blk : Block)
  | read (n : Nat)
  | reset
deriving Repr

/-- what a call returns: error, `n`, `k`, `l` and (for `Read`) the bytes handed out -/
structure Obs where
  err : Err
  n : Int
  k : Nat
  l : Nat
  bytes : List Byte
deriving Repr

/-- one call on the model -/
def step (g : Grow) (b : DecBuf) : DOp → DecBuf × Obs
  | .writeByte c => ((b.writeByte g c).1, ⟨(b.writeByte g c).2, 0, 0, 0, []⟩)
  | .write p => ((b.write g p).1, ⟨(b.write g p).2.2, (b.write g p).2.1, 0, 0, []⟩)
  | .writeMatch m o => ((b.writeMatch g m o).1, ⟨(b.writeMatch g m o).2.2, (b.writeMatch g m o).2.1, 0, 0, []⟩)
  | .writeBlock blk =>
    ((b.writeBlock g blk).1,
      ⟨(b.writeBlock g blk).2.2.2.2, (b.writeBlock g blk).2.1, (b.writeBlock g blk).2.2.1,
        (b.writeBlock g blk).2.2.2.1, []⟩)
  | .read n => ((b.read n).1, ⟨.ok, (b.read n).2.length, 0, 0, (b.read n).2⟩)
  | .reset => (b.reset, ⟨.ok, 0, 0, 0, []⟩)

/-- run a history, recording every call with its results -/
def exec (g : Grow) (b : DecBuf) : List DOp → DecBuf × List (DOp × Obs)
  | [] => (b, [])
  | op :: ops => ((exec g (step g b op).1 ops).1, (op, (step g b op).2) :: (exec g (step g b op).1 ops).2)

/-- specification state: the append-only byte log since Init/Reset and the number of bytes
    delivered to the reader -/
structure Log where
  written : List Byte
  delivered : Nat
deriving Repr

/-- Specification step.  It is given the operation and *which part of it was accepted*
    (`err`, for a block also `k`), and computes the log using only `copyRef` / `expandSeqs`. -/
def Log.step (s : Log) : DOp → Obs → Log
  | .writeByte c, o => if o.err = .ok then ⟨s.written ++ [c], s.delivered⟩ else s
  | .write p, o => if o.err = .ok then ⟨s.written ++ p, s.delivered⟩ else s
  | .writeMatch m off, o =>
    if o.err = .ok then ⟨(copyRef s.written off m).getD s.written, s.delivered⟩ else s
  | .writeBlock blk, o =>
    match expandSeqs s.written blk.lits (blk.seqs.take o.k) with
    | some (w1, rest) => ⟨if o.err = .ok then w1 ++ rest else w1, s.delivered⟩
    | none => s
  | .read n, _ => ⟨s.written, s.delivered + min n (s.written.length - s.delivered)⟩
  | .reset, _ => ⟨[], 0⟩

/-- the bytes the specification expects a call to hand out -/
def Log.expect (s : Log) : DOp → List Byte
  | .read n => (s.written.drop s.delivered).take n
  | _ => []

def Log.run (s : Log) (tr : List (DOp × Obs)) : Log := tr.foldl (fun s x => s.step x.1 x.2) s

/-- all bytes handed out by `Read` since the last `Reset` -/
def handedOutStep (acc : List Byte) (x : DOp × Obs) : List Byte :=
  match x.1 with
  | .reset => []
  | _ => acc ++ x.2.bytes

def handedOut (acc : List Byte) (tr : List (DOp × Obs)) : List Byte := tr.foldl handedOutStep acc

/-- the sum of the byte counts reported by the write calls since the last `Reset`
    (`WriteByte` reports no count: 1 on success) -/
def reportedStep (acc : Int) (x : DOp × Obs) : Int :=
  match x.1 with
  | .reset => 0
  | .read _ => acc
  | .writeByte _ => if x.2.err = .ok then acc + 1 else acc
  | _ => acc + x.2.n

def reported (acc : Int) (tr : List (DOp × Obs)) : Int := tr.foldl reportedStep acc

/-! ## one step refines the specification step -/

theorem step_refines (g : Grow) {b : DecBuf} {s : Log} (h : Abs b s.written s.delivered) (op : DOp) :
    Abs (step g b op).1 (s.step op (step g b op).2).written (s.step op (step g b op).2).delivered ∧
    (step g b op).2.bytes = s.expect op ∧
    (op = .reset ∨
      (s.written <+: (s.step op (step g b op).2).written ∧
       (s.step op (step g b op).2).delivered = s.delivered + (step g b op).2.bytes.length)) := by
  cases op with
  | writeByte c =>
    rcases writeByte_cases g h c with ⟨b', hb, ha⟩ | ⟨b', hb, ha, _⟩
    · simp only [step, Log.step, hb, ↓reduceIte]
      exact ⟨ha, rfl, Or.inr ⟨List.prefix_append _ _, rfl⟩⟩
    · simp only [step, Log.step, hb]
      exact ⟨ha, rfl, Or.inr ⟨List.prefix_refl _, rfl⟩⟩
  | write p =>
    rcases write_cases g h p with ⟨b', hb, ha⟩ | ⟨b', hb, ha, _⟩
    · simp only [step, Log.step, hb, ↓reduceIte]
      exact ⟨ha, rfl, Or.inr ⟨List.prefix_append _ _, rfl⟩⟩
    · simp only [step, Log.step, hb]
      exact ⟨ha, rfl, Or.inr ⟨List.prefix_refl _, rfl⟩⟩
  | writeMatch m o =>
    rcases writeMatch_cases g h m o with ⟨_, hb⟩ | ⟨_, b', w', hb, hc, ha⟩ | ⟨_, b', hb, ha, _⟩ | ⟨_, b', hb, ha, _⟩
    · simp only [step, Log.step, hb]
      exact ⟨h, rfl, Or.inr ⟨List.prefix_refl _, rfl⟩⟩
    · simp only [step, Log.step, hb, ↓reduceIte, hc, Option.getD_some]
      exact ⟨ha, rfl, Or.inr ⟨copyRef_prefix hc, rfl⟩⟩
    · simp only [step, Log.step, hb]
      exact ⟨ha, rfl, Or.inr ⟨List.prefix_refl _, rfl⟩⟩
    · simp only [step, Log.step, hb]
      exact ⟨ha, rfl, Or.inr ⟨List.prefix_refl _, rfl⟩⟩
  | writeBlock blk =>
    generalize hr : writeBlock g b blk = r
    obtain ⟨b', n, k, l, e⟩ := r
    obtain ⟨w1, rest, hk, hx, hok, herr⟩ := writeBlock_spec g h blk hr
    simp only [step, Log.step, hr, hx]
    by_cases he : e = .ok
    · obtain ⟨_, _, ha, _, _⟩ := hok he
      simp only [he, ↓reduceIte]
      exact ⟨ha, rfl, Or.inr ⟨(expandSeqs_prefix hx).trans (List.prefix_append _ _), rfl⟩⟩
    · obtain ⟨_, ha, _, _⟩ := herr he
      simp only [he, ↓reduceIte]
      exact ⟨ha, rfl, Or.inr ⟨expandSeqs_prefix hx, rfl⟩⟩
  | read n =>
    obtain ⟨h1, h2, h3⟩ := read_abs h n
    simp only [step, Log.step, Log.expect]
    rw [h2] at h3
    exact ⟨h3, h1, Or.inr ⟨List.prefix_refl _, by rw [h2]⟩⟩
  | reset =>
    simp only [step, Log.step, Log.expect]
    exact ⟨reset_abs h.toAbsD, trivial, Or.inl trivial⟩

/-- the counts reported by one call add up to the growth of the log -/
theorem step_counts (g : Grow) {b : DecBuf} {s : Log} (h : Abs b s.written s.delivered) (op : DOp) :
    reportedStep s.written.length (op, (step g b op).2) = (s.step op (step g b op).2).written.length := by
  cases op with
  | writeByte c =>
    rcases writeByte_cases g h c with ⟨b', hb, ha⟩ | ⟨b', hb, ha, _⟩
    · simp [reportedStep, step, Log.step, hb]
    · simp [reportedStep, step, Log.step, hb]
  | write p =>
    rcases write_cases g h p with ⟨b', hb, ha⟩ | ⟨b', hb, ha, _⟩
    · simp [reportedStep, step, Log.step, hb]
    · simp [reportedStep, step, Log.step, hb]
  | writeMatch m o =>
    rcases writeMatch_cases g h m o with ⟨_, hb⟩ | ⟨_, b', w', hb, hc, ha⟩ | ⟨_, b', hb, ha, _⟩ | ⟨_, b', hb, ha, _⟩
    · simp [reportedStep, step, Log.step, hb]
    · simp [reportedStep, step, Log.step, hb, hc, copyRef_length hc]
    · simp [reportedStep, step, Log.step, hb]
    · simp [reportedStep, step, Log.step, hb]
  | writeBlock blk =>
    generalize hr : writeBlock g b blk = r
    obtain ⟨b', n, k, l, e⟩ := r
    obtain ⟨w1, rest, hk, hx, hok, herr⟩ := writeBlock_spec g h blk hr
    simp only [reportedStep, step, Log.step, hr, hx]
    by_cases he : e = .ok
    · obtain ⟨_, _, _, hn, _⟩ := hok he
      simp only [he, ↓reduceIte]; omega
    · obtain ⟨_, _, hn, _⟩ := herr he
      simp only [he, ↓reduceIte]; omega
  | read n => simp [reportedStep, Log.step]
  | reset => simp [reportedStep, Log.step]

/-- the invariant of a history: abstraction, handed-out bytes, reported counts -/
theorem exec_refines (g : Grow) (ops : List DOp) :
    ∀ (b : DecBuf) (s : Log) (acc : List Byte) (cnt : Int),
      Abs b s.written s.delivered → acc = s.written.take s.delivered → cnt = s.written.length →
      Abs (exec g b ops).1 (s.run (exec g b ops).2).written (s.run (exec g b ops).2).delivered ∧
      handedOut acc (exec g b ops).2 =
        (s.run (exec g b ops).2).written.take (s.run (exec g b ops).2).delivered ∧
      reported cnt (exec g b ops).2 = (s.run (exec g b ops).2).written.length := by
  induction ops with
  | nil => intro b s acc cnt h ha hc; exact ⟨h, ha, hc⟩
  | cons op ops ih =>
    intro b s acc cnt h ha hc
    obtain ⟨h1, h2, h3⟩ := step_refines g h op
    have h4 := step_counts g h op
    simp only [exec, Log.run, handedOut, reported, List.foldl_cons]
    refine ih _ _ _ _ h1 ?_ ?_
    · rcases h3 with rfl | ⟨hp, hd⟩
      · simp [handedOutStep, Log.step]
      · have hdl : s.delivered ≤ s.written.length := by
          have := h.deliv; have := h.r_le; have := h.len_le; omega
        rw [h2] at hd
        rw [hd, ha]
        cases op with
        | read n =>
          simp only [handedOutStep, h2, Log.expect, Log.step]
          rw [List.take_add]
          congr 1
          simp only [List.length_take, List.length_drop]
          rw [List.take_eq_take_iff]
          simp
        | reset => simp [handedOutStep, Log.step]
        | _ =>
          simp only [handedOutStep, h2, Log.expect, List.append_nil, List.length_nil, Nat.add_zero]
          exact (take_of_prefix hp hdl).symm
    · rw [hc]; exact h4

/-! # The properties -/

/-! ## 1. Doubling copy (C04, mechanism "doubling overlapped copy loop") -/

/-- **C04 (copy).** For a valid offset (`0 < o ≤ len(Data)`, or nothing to copy) the doubling loop
    plus the final partial copy appends exactly the byte-wise periodic copy of the reference
    expander, overlapping matches (`o < m`) included. -/
theorem C04_copyMatch_eq_copyRef (g : Grow) (b : DecBuf) (m o : Nat)
    (h : m = 0 ∨ (0 < o ∧ o ≤ b.data.length)) :
    copyRef b.data o m = some (copyMatch g b m o).data :=
  copyMatch_eq_copyRef g b m o h

/-- the copy touches neither `R`, `Off`, `WindowSize` nor `BufferSize` -/
theorem C04_copyMatch_ctl (g : Grow) (b : DecBuf) (m o : Nat) :
    (copyMatch g b m o).r = b.r ∧ (copyMatch g b m o).off = b.off ∧
    (copyMatch g b m o).ws = b.ws ∧ (copyMatch g b m o).bs = b.bs :=
  copyMatch_sameCtl g b m o

/-- **C05 (no slice panic in the copy).** If `o ≤ len(Data)` (and `o = 0` only with `m = 0`), every
    `Data[len-off:]` of the loop has `off ≤ len` (`copyLoopSafe`), and the final `Data[j:j+n]` has
    `j = len-off ≥ 0`, `j+n ≤ len`. -/
theorem C05_copy_in_bounds (g : Grow) (b : DecBuf) (m o : Nat)
    (ho : o ≤ b.data.length) (h0 : o = 0 → m = 0) : CopySafe g b m o :=
  copyMatch_safe g b m o ho h0

/-! ## 2. The abstraction `Abs b written delivered` and one lemma per operation -/

/-- `Init` with an accepted configuration establishes the abstraction with the empty log. -/
theorem init_establishes {ws bs : Int} {precap : Nat} {b : DecBuf} (h : init ws bs precap = some b) :
    Abs b [] 0 := init_abs h

/-- `Init` succeeds exactly for the accepted configurations -/
theorem init_isSome_iff (ws bs : Int) (precap : Nat) :
    (init ws bs precap).isSome ↔ (decCfg ws bs).isSome := by
  unfold init; split <;> simp [*]

/-- **WriteByte**: `ok` appends the byte to the log; otherwise `full` and the log is unchanged (a
    shrink may have happened, the abstraction is kept). No other result is possible. -/
theorem writeByte_refines (g : Grow) {b : DecBuf} {w : List Byte} {d : Nat} (h : Abs b w d) (c : Byte) :
    (∃ b', writeByte g b c = (b', .ok) ∧ Abs b' (w ++ [c]) d) ∨
    (∃ b', writeByte g b c = (b', .full) ∧ Abs b' w d ∧ b'.bs < b'.data.length + 1) :=
  writeByte_cases g h c

/-- **Write**: all or nothing; `n = len(p)` on `ok`, `n = 0` on `full`. -/
theorem write_refines (g : Grow) {b : DecBuf} {w : List Byte} {d : Nat} (h : Abs b w d) (p : List Byte) :
    (∃ b', write g b p = (b', p.length, .ok) ∧ Abs b' (w ++ p) d) ∨
    (∃ b', write g b p = (b', 0, .full) ∧ Abs b' w d ∧ b'.bs < b'.data.length + p.length) :=
  write_cases g h p

/-- **WriteMatch** (C04/C05/C17): rejected with `offset` exactly when `BadOffset`, state unchanged;
    otherwise `ok` with the log extended by the reference copy and `n = m`; or `full`/`matchLen`
    with nothing appended (`matchLen` iff the match can never fit: `m > bs' - ws` after the
    shrink). -/
theorem writeMatch_refines (g : Grow) {b : DecBuf} {w : List Byte} {d : Nat} (h : Abs b w d) (m o : Nat) :
    (BadOffset b m o ∧ writeMatch g b m o = (b, 0, .offset)) ∨
    (¬ BadOffset b m o ∧ ∃ b' w', writeMatch g b m o = (b', m, .ok) ∧
        copyRef w o m = some w' ∧ Abs b' w' d) ∨
    (¬ BadOffset b m o ∧ ∃ b', writeMatch g b m o = (b', 0, .full) ∧ Abs b' w d ∧
        m ≤ b'.bs - b'.ws ∧ m > b'.bs - b'.data.length) ∨
    (¬ BadOffset b m o ∧ ∃ b', writeMatch g b m o = (b', 0, .matchLen) ∧ Abs b' w d ∧
        m > b'.bs - b'.ws) :=
  writeMatch_cases g h m o

/-- `WriteMatch` returns `offset` exactly for a bad offset -/
theorem C05_writeMatch_offset_iff (g : Grow) {b : DecBuf} {w : List Byte} {d : Nat} (h : Abs b w d)
    (m o : Nat) :
    (writeMatch g b m o).2.2 = .offset ↔ ((o = 0 ∧ m > 0) ∨ o > min b.data.length b.ws) := by
  show _ ↔ BadOffset b m o
  rcases writeMatch_cases g h m o with ⟨hb, he⟩ | ⟨hb, _, _, he, _⟩ | ⟨hb, _, he, _⟩ | ⟨hb, _, he, _⟩ <;>
    simp [he, hb]

/-- in terms of the log: the admissible offsets are `1 … min(WindowSize, bytes written)` -/
theorem C04_window_offsets {b : DecBuf} {w : List Byte} {d : Nat} (h : Abs b w d) :
    min b.data.length b.ws = min w.length b.ws := by
  simpa using h.toAbsD.min_win 0

/-- **Read** hands out the next `min n unread` bytes of the log and advances `delivered`. -/
theorem read_refines {b : DecBuf} {w : List Byte} {d : Nat} (h : Abs b w d) (n : Nat) :
    (b.read n).2 = (w.drop d).take n ∧
    (b.read n).2.length = min n (w.length - d) ∧
    Abs (b.read n).1 w (d + (b.read n).2.length) :=
  read_abs h n

/-- **shrink** keeps the abstraction, never drops a byte at index `≥ R` (`delta ≤ R`) and keeps
    at least `min len(Data) WindowSize` bytes. -/
theorem shrink_refines {b : DecBuf} {w : List Byte} {d : Nat} (h : Abs b w d) (g : Nat) :
    Abs (b.shrink g).1 w d ∧
    (b.shrink g).1.data = b.data.drop (b.shrink g).2 ∧
    (b.shrink g).2 ≤ b.r ∧
    min b.data.length b.ws ≤ (b.shrink g).1.data.length :=
  ⟨h.shrink g, (shrink_props b g).1, (shrink_keeps b g).2.1, (shrink_keeps b g).1⟩

/-- **Reset** starts a new, empty log. -/
theorem reset_refines {b : DecBuf} {w : List Byte} {d : Nat} (h : Abs b w d) : Abs b.reset [] 0 :=
  reset_abs h.toAbsD

/-- the unread bytes are still in the buffer: `Data[R:]` is the undelivered part of the log -/
theorem C04_unread_kept {b : DecBuf} {w : List Byte} {d : Nat} (h : Abs b w d) :
    b.data.drop b.r = w.drop d ∧ d ≤ w.length := by
  have h1 := (read_abs h (w.length - d)).1
  have hd := h.deliv; have := h.r_le; have := h.len_le
  refine ⟨?_, by omega⟩
  have e : (b.read (w.length - d)).2 = b.data.drop b.r := by
    show (b.data.drop b.r).take (w.length - d) = _
    apply List.take_of_length_le; simp; omega
  rw [← e, h1]; apply List.take_of_length_le; simp

/-- the window is addressable: the last `min(WindowSize, |written|)` bytes of the log are the last
    bytes of `Data` -/
theorem C04_window_addressable {b : DecBuf} {w : List Byte} {d : Nat} (h : Abs b w d) :
    min b.ws w.length ≤ b.data.length ∧ b.data = w.drop (w.length - b.data.length) :=
  ⟨h.win, h.toAbsD.data_eq⟩

/-- **WriteBlock** (C04/C05/C17).  Let `(w1, rest)` be the reference expansion of the first `k`
    sequences over the log.  On `ok` all sequences were consumed and the remaining literals
    appended: the new log is `expand w blk`.  On an error nothing of sequence `k` (or of the
    trailing literals) was appended: the new log is `w1`, `l` literals were consumed.  In both
    cases `n` is exactly the growth of the log.  The error is classified by `SeqFail`. -/
theorem writeBlock_refines (g : Grow) {b : DecBuf} {w : List Byte} {d : Nat} (h : Abs b w d) (blk : Block)
    {b' : DecBuf} {n : Int} {k l : Nat} {e : Err} (hr : writeBlock g b blk = (b', n, k, l, e)) :
    ∃ w1 rest, k ≤ blk.seqs.length ∧
      expandSeqs w blk.lits (blk.seqs.take k) = some (w1, rest) ∧
      (e = .ok → k = blk.seqs.length ∧ l = blk.lits.length ∧ Abs b' (w1 ++ rest) d ∧
          n = ((w1 ++ rest).length : Int) - (w.length : Int) ∧ expand w blk = some (w1 ++ rest)) ∧
      (e ≠ .ok → l + rest.length = blk.lits.length ∧ Abs b' w1 d ∧
          n = (w1.length : Int) - (w.length : Int) ∧
          ((∃ hk : k < blk.seqs.length, SeqFail b' w1 rest blk.seqs[k] e) ∨
           (k = blk.seqs.length ∧ e = .full ∧ b'.bs < b'.data.length + rest.length))) :=
  writeBlock_spec g h blk hr

/-- **C05 (error kinds).**  For the failing sequence `s` on top of the log `w1` with remaining
    literals `rest`: the error is one of four; it is `litLen` iff `s.LitLen` exceeds the remaining
    literals, and `offset` iff (not that and) the offset is `0` with a non-empty match or larger
    than `min(|w1| + LitLen, WindowSize)`. -/
theorem C05_seqFail_kinds {b' : DecBuf} {w1 rest : List Byte} {s : Seq} {e : Err}
    (h : SeqFail b' w1 rest s e) :
    (e = .litLen ∨ e = .offset ∨ e = .matchLen ∨ e = .full) ∧
    (e = .litLen ↔ s.litLen > rest.length) ∧
    (e = .offset ↔ s.litLen ≤ rest.length ∧
        ((s.offset = 0 ∧ s.matchLen > 0) ∨ s.offset > min (w1.length + s.litLen) b'.ws)) ∧
    (e = .matchLen → s.litLen + s.matchLen > b'.bs - b'.ws) ∧
    (e = .full → s.litLen + s.matchLen ≤ b'.bs - b'.ws ∧
        s.litLen + s.matchLen > b'.bs - b'.data.length) := by
  unfold SeqFail SeqValid at h
  rcases h with ⟨rfl, h1⟩ | ⟨rfl, h1, h2⟩ | ⟨rfl, ⟨h1, h2⟩, h3⟩ | ⟨rfl, ⟨h1, h2⟩, h3, h4⟩
  · simp; omega
  · simp [h2]; omega
  · simp [h3]; omega
  · simp [h3, h4]; omega

/-- **C05 (atomic rejection by `WriteBlock`).** After an error the buffer represents precisely the
    reference expansion of the `k` sequences and `l` literal bytes reported as consumed. -/
theorem C05_writeBlock_atomic (g : Grow) {b : DecBuf} {w : List Byte} {d : Nat} (h : Abs b w d)
    (blk : Block) {b' : DecBuf} {n : Int} {k l : Nat} {e : Err}
    (hr : writeBlock g b blk = (b', n, k, l, e)) (he : e ≠ .ok) :
    ∃ w1, expandSeqs w (blk.lits.take l) (blk.seqs.take k) = some (w1, []) ∧ Abs b' w1 d ∧
      l ≤ blk.lits.length ∧ k ≤ blk.seqs.length := by
  obtain ⟨w1, rest, hk, hx, _, herr⟩ := writeBlock_spec g h blk hr
  obtain ⟨hl, ha, _, _⟩ := herr he
  refine ⟨w1, ?_, ha, by omega, hk⟩
  exact expandSeqs_take_lits hx (by omega)

/-- **C05 (rejection by `WriteBlock`, all in one).**  If `WriteBlock` returns an error, then with
    `(w1, rest)` the reference expansion of the `k` consumed sequences: the buffer represents
    exactly `w1`; and either all sequences were consumed and the trailing literals did not fit
    (`full`), or sequence `k` was refused, where the kind of error is decided by guards on the
    state *before* that sequence: `litLen` iff its `LitLen` exceeds the remaining literals,
    `offset` iff (otherwise) `Offset = 0 ∧ MatchLen > 0` or
    `Offset > min(|w1| + LitLen, WindowSize)`; the rest is `matchLen`/`full`. -/
theorem C05_writeBlock_reject (g : Grow) {b : DecBuf} {w : List Byte} {d : Nat} (h : Abs b w d)
    (blk : Block) {b' : DecBuf} {n : Int} {k l : Nat} {e : Err}
    (hr : writeBlock g b blk = (b', n, k, l, e)) (he : e ≠ .ok) :
    ∃ w1 rest, expandSeqs w blk.lits (blk.seqs.take k) = some (w1, rest) ∧ Abs b' w1 d ∧
      b'.ws = b.ws ∧ l + rest.length = blk.lits.length ∧
      ((k = blk.seqs.length ∧ e = .full) ∨
       ∃ hk : k < blk.seqs.length,
        (e = .litLen ∨ e = .offset ∨ e = .matchLen ∨ e = .full) ∧
        (e = .litLen ↔ blk.seqs[k].litLen > rest.length) ∧
        (e = .offset ↔ blk.seqs[k].litLen ≤ rest.length ∧
          ((blk.seqs[k].offset = 0 ∧ blk.seqs[k].matchLen > 0) ∨
            blk.seqs[k].offset > min (w1.length + blk.seqs[k].litLen) b.ws))) := by
  obtain ⟨w1, rest, hk, hx, _, herr⟩ := writeBlock_spec g h blk hr
  obtain ⟨hl, ha, _, hc⟩ := herr he
  have hws : b'.ws = b.ws := writeBlock_ws g b blk ▸ (by rw [hr])
  refine ⟨w1, rest, hx, ha, hws, hl, ?_⟩
  rcases hc with ⟨hk', hs⟩ | ⟨hk', hf, _⟩
  · right
    obtain ⟨k1, k2, k3, _, _⟩ := C05_seqFail_kinds hs
    rw [hws] at k3
    exact ⟨hk', k1, k2, k3⟩
  · left; exact ⟨hk', hf⟩

/-- the only results of `WriteBlock` are ok, litLen, offset, matchLen, full -/
theorem C05_writeBlock_errors (g : Grow) {b : DecBuf} {w : List Byte} {d : Nat} (h : Abs b w d)
    (blk : Block) :
    (writeBlock g b blk).2.2.2.2 = .ok ∨ (writeBlock g b blk).2.2.2.2 = .litLen ∨
    (writeBlock g b blk).2.2.2.2 = .offset ∨ (writeBlock g b blk).2.2.2.2 = .matchLen ∨
    (writeBlock g b blk).2.2.2.2 = .full := by
  generalize hr : writeBlock g b blk = r
  obtain ⟨b', n, k, l, e'⟩ := r
  obtain ⟨w1, rest, _, _, _, herr⟩ := writeBlock_spec g h blk hr
  show e' = _ ∨ _
  by_cases he : e' = .ok
  · exact Or.inl he
  · obtain ⟨_, _, _, hc⟩ := herr he
    rcases hc with ⟨_, hs⟩ | ⟨_, hf, _⟩
    · exact Or.inr (C05_seqFail_kinds hs).1
    · exact Or.inr (Or.inr (Or.inr (Or.inr hf)))

/-- **C05 (no slice panic in `WriteMatch`/`WriteBlock`).**  In every state satisfying the invariant,
    the copy of an accepted `WriteMatch` and all slices taken by the sequence loop are in bounds;
    `writeMatch_def` / `seqLoop_cons` tie the buffers named here to the ones the model uses. -/
theorem C05_no_slice_panic (g : Grow) {b : DecBuf} {w : List Byte} {d : Nat} (h : Abs b w d) :
    (∀ m o, ¬ BadOffset b m o → CopySafe g (room b m).1 m o) ∧
    (∀ seqs lits, seqLoopSafe g b seqs lits) :=
  ⟨fun m o hv => writeMatch_copySafe g h.toAbsD m o hv,
   fun seqs lits => seqLoop_safe g seqs b w d lits h.toAbsD⟩

/-- **C05 (never a panic).** From a state satisfying the invariant no call returns the model's
    `panic` marker: the possible results are ok, full, offset, matchLen, litLen. -/
theorem C05_never_panic (g : Grow) {b : DecBuf} {w : List Byte} {d : Nat} (h : Abs b w d) (op : DOp) :
    (step g b op).2.err = .ok ∨ (step g b op).2.err = .full ∨ (step g b op).2.err = .offset ∨
    (step g b op).2.err = .matchLen ∨ (step g b op).2.err = .litLen := by
  cases op with
  | writeByte c =>
    rcases writeByte_cases g h c with ⟨_, hb, _⟩ | ⟨_, hb, _⟩ <;> simp [step, hb]
  | write p =>
    rcases write_cases g h p with ⟨_, hb, _⟩ | ⟨_, hb, _⟩ <;> simp [step, hb]
  | writeMatch m o =>
    rcases writeMatch_cases g h m o with ⟨_, hb⟩ | ⟨_, _, _, hb, _⟩ | ⟨_, _, hb, _⟩ | ⟨_, _, hb, _⟩ <;>
      simp [step, hb]
  | writeBlock blk =>
    rcases C05_writeBlock_errors g h blk with he | he | he | he | he <;> simp [step, he]
  | read n => simp [step]
  | reset => simp [step]

/-! ## 3. History level -/

/-- **C04.** From any accepted `Init`, after every history of operations the buffer represents the
    specification log (`Abs`), and the bytes handed out by all `Read`s since the last `Reset` are
    exactly the first `delivered` bytes of the log — each byte once and in order. -/
theorem C04_refines (g : Grow) {ws bs : Int} {precap : Nat} {b0 : DecBuf}
    (hinit : init ws bs precap = some b0) (ops : List DOp) :
    let r := exec g b0 ops
    let s := Log.run ⟨[], 0⟩ r.2
    Abs r.1 s.written s.delivered ∧ handedOut [] r.2 = s.written.take s.delivered := by
  intro r s
  obtain ⟨h1, h2, _⟩ := exec_refines g ops b0 ⟨[], 0⟩ [] 0 (init_abs hinit) (by simp) (by simp)
  exact ⟨h1, h2⟩

/-- every single `Read` of a history returns the next bytes of the log (and every call's results
    are as the per-operation lemmas say): instance of `step_refines` at a reachable state -/
theorem C04_read_exact (g : Grow) {ws bs : Int} {precap : Nat} {b0 : DecBuf}
    (hinit : init ws bs precap = some b0) (ops : List DOp) (n : Nat) :
    let r := exec g b0 ops
    let s := Log.run ⟨[], 0⟩ r.2
    (step g r.1 (.read n)).2.bytes = (s.written.drop s.delivered).take n := by
  intro r s
  exact (step_refines g (C04_refines g hinit ops).1 (.read n)).2.1

/-- **C17.** `Off` is the number of bytes written since Init/Reset. -/
theorem C17_off_exact (g : Grow) {ws bs : Int} {precap : Nat} {b0 : DecBuf}
    (hinit : init ws bs precap = some b0) (ops : List DOp) :
    (exec g b0 ops).1.off = (Log.run ⟨[], 0⟩ (exec g b0 ops).2).written.length :=
  (C04_refines g hinit ops).1.off

/-- **C17.** The byte counts reported by the write calls since the last `Reset` add up to the length
    of the log (= `Off`), also across shrinks and early errors. -/
theorem C17_counts (g : Grow) {ws bs : Int} {precap : Nat} {b0 : DecBuf}
    (hinit : init ws bs precap = some b0) (ops : List DOp) :
    reported 0 (exec g b0 ops).2 = (Log.run ⟨[], 0⟩ (exec g b0 ops).2).written.length ∧
    reported 0 (exec g b0 ops).2 = (exec g b0 ops).1.off := by
  obtain ⟨h1, _, h3⟩ := exec_refines g ops b0 ⟨[], 0⟩ [] 0 (init_abs hinit) (by simp) (by simp)
  exact ⟨h3, by rw [h3, h1.off]⟩

/-- **C17 (one `WriteBlock`).** `n` is the number of bytes appended to the log, `k` the number of
    sequences whose expansion was appended, `l` the number of literal bytes appended — in every
    outcome.  (`sumLit`/`sumMatch` add up the `LitLen`/`MatchLen` fields.) -/
theorem C17_writeBlock_counts (g : Grow) {b : DecBuf} {w : List Byte} {d : Nat} (h : Abs b w d)
    (blk : Block) {b' : DecBuf} {n : Int} {k l : Nat} {e : Err}
    (hr : writeBlock g b blk = (b', n, k, l, e)) :
    ∃ w', Abs b' w' d ∧ n = (w'.length : Int) - (w.length : Int) ∧ 0 ≤ n ∧
      b'.off = b.off + n.toNat ∧
      n = l + sumMatch (blk.seqs.take k) ∧
      (e ≠ .ok → l = sumLit (blk.seqs.take k)) ∧
      (e = .ok → l = blk.lits.length ∧ k = blk.seqs.length) := by
  obtain ⟨w1, rest, hk, hx, hok, herr⟩ := writeBlock_spec g h blk hr
  obtain ⟨c1, c2, c3⟩ := expandSeqs_counts hx
  have hl1 : rest.length = blk.lits.length - sumLit (blk.seqs.take k) := by
    rw [c1, List.length_drop]
  have hoff := h.off
  by_cases he : e = .ok
  · obtain ⟨h1, h2, h3, h4, _⟩ := hok he
    have := h3.off
    simp only [List.length_append] at h4 this
    exact ⟨_, h3, by simp only [List.length_append]; omega, by omega, by omega, by omega,
      fun hh => absurd he hh, fun _ => ⟨h2, h1⟩⟩
  · obtain ⟨h1, h2, h3, _⟩ := herr he
    have := h2.off
    exact ⟨_, h2, h3, by omega, by omega, by omega, fun _ => by omega, fun hh => absurd hh he⟩

/-- `len(Data) ≤ cap(Data)` in every reachable state — the only statement that needs the growth
    function to return at least the requested length. -/
theorem cap_invariant {g : Grow} (hg : ∀ c n, n ≤ g c n) {ws bs : Int} {precap : Nat} {b0 : DecBuf}
    (hinit : init ws bs precap = some b0) (ops : List DOp) :
    (exec g b0 ops).1.data.length ≤ (exec g b0 ops).1.cap := by
  have h0 : CapOK b0 := by
    unfold init at hinit
    split at hinit
    · cases hinit
    · cases hinit; exact Nat.zero_le _
  suffices ∀ b, CapOK b → CapOK (exec g b ops).1 from this b0 h0
  induction ops with
  | nil => intro b h; exact h
  | cons op ops ih =>
    intro b h
    apply ih
    cases op with
    | writeByte c => exact writeByte_capOK hg h c
    | write p => exact write_capOK hg h p
    | writeMatch m o => exact writeMatch_capOK hg h m o
    | writeBlock blk => exact writeBlock_capOK hg h blk
    | read n => exact h
    | reset => exact Nat.zero_le _

/-! ## 4. Non-vacuity: concrete instances (evaluated by `simp`/`decide`/`rfl` in the kernel) -/

section Examples
set_option linter.unusedSimpArgs false

/-- a growth function: exactly the requested length -/
def gId : Grow := fun _ n => n
example : ∀ c n, n ≤ gId c n := fun _ n => Nat.le_refl n

/-- the smallest interesting accepted configuration: WindowSize 2, BufferSize 3 -/
def b23 : DecBuf := ⟨[], 0, 0, 2, 3, 0⟩

example : init 2 3 0 = some b23 := by rfl
example : Abs b23 [] 0 := init_establishes (ws := 2) (bs := 3) (precap := 0) (by rfl)
-- a non-initial state satisfying the abstraction: 2 bytes dropped, 1 of the 3 buffered bytes read
example : Abs ⟨[7, 7, 9], 1, 5, 2, 3, 3⟩ [7, 7, 7, 7, 9] 3 :=
  ⟨⟨⟨[7, 7], rfl⟩, by decide, by decide, by decide, by decide, by decide⟩, rfl⟩

-- reference: overlapping copy (offset 2 < length 7)
example : copyRef [1, 2, 3] 2 7 = some [1, 2, 3, 2, 3, 2, 3, 2, 3, 2] := by decide
-- the doubling loop on the same input (two doublings and a partial final chunk) ...
example : (copyMatch gId ⟨[1, 2, 3], 0, 3, 8, 16, 3⟩ 7 2).data = [1, 2, 3, 2, 3, 2, 3, 2, 3, 2] := by
  simp [copyMatch, copyLoop, append]
-- ... and the hypothesis of `C04_copyMatch_eq_copyRef` for it
example : copyRef [1, 2, 3] 2 7 = some (copyMatch gId ⟨[1, 2, 3], 0, 3, 8, 16, 3⟩ 7 2).data :=
  C04_copyMatch_eq_copyRef gId ⟨[1, 2, 3], 0, 3, 8, 16, 3⟩ 7 2 (Or.inr ⟨by decide, by decide⟩)

/-- a history on `(ws, bs) = (2, 3)`: a block with an overlapping match (offset 1, length 2) fills
    the buffer; after reading 2 bytes a second block forces two shrinks inside one call
    (`n = 2` is still exact), the reader gets the rest, a match with offset 3 > window is refused -/
def ops1 : List DOp :=
  [.writeBlock ⟨[⟨1, 2, 1, 0⟩], [7]⟩, .read 2, .writeBlock ⟨[⟨0, 1, 2, 0⟩], [9]⟩, .read 5,
   .writeMatch 1 3]

example : (exec gId b23 ops1).2.map (fun x => (x.2.err, x.2.n, x.2.k, x.2.l, x.2.bytes)) =
    [(.ok, 3, 1, 1, []), (.ok, 2, 0, 0, [7, 7]), (.ok, 2, 1, 1, []), (.ok, 3, 0, 0, [7, 7, 9]),
     (.offset, 0, 0, 0, [])] := by
  simp [ops1, exec, step, writeBlock, writeMatch, read, reset, seqLoop, b23, shrink, copyMatch,
    copyLoop, append, gId]

-- the final buffer: two bytes were dropped, everything is read, Off = 5
example : ((exec gId b23 ops1).1.data, (exec gId b23 ops1).1.r, (exec gId b23 ops1).1.off) =
    ([7, 7, 9], 3, 5) := by
  simp [ops1, exec, step, writeBlock, writeMatch, read, reset, seqLoop, b23, shrink, copyMatch,
    copyLoop, append, gId]

-- the specification log of that history
example : ((Log.run ⟨[], 0⟩ (exec gId b23 ops1).2).written,
           (Log.run ⟨[], 0⟩ (exec gId b23 ops1).2).delivered) = ([7, 7, 7, 7, 9], 5) := by
  simp [ops1, exec, step, writeBlock, writeMatch, read, reset, seqLoop, b23, shrink, copyMatch,
    copyLoop, append, gId, Log.run, Log.step, expandSeqs, copyRef]

-- the four rejections of `WriteBlock`, each atomic (k, l, n describe what was appended)
example : (writeBlock gId b23 ⟨[⟨1, 1, 1, 0⟩, ⟨0, 1, 5, 0⟩], [4, 5]⟩).2 = (2, 1, 1, .offset) := by
  simp [writeBlock, seqLoop, b23, shrink, copyMatch, copyLoop, append, gId]
example : (writeBlock gId b23 ⟨[⟨1, 1, 1, 0⟩, ⟨2, 0, 0, 0⟩], [4, 5]⟩).2 = (2, 1, 1, .litLen) := by
  simp [writeBlock, seqLoop, b23, shrink, copyMatch, copyLoop, append, gId]
example : (writeBlock gId b23 ⟨[⟨1, 1, 1, 0⟩, ⟨0, 2, 1, 0⟩], [4, 5]⟩).2 = (2, 1, 1, .matchLen) := by
  simp [writeBlock, seqLoop, b23, shrink, copyMatch, copyLoop, append, gId]
example : (writeBlock gId b23 ⟨[⟨1, 2, 1, 0⟩, ⟨0, 1, 1, 0⟩], [4, 5]⟩).2 = (3, 1, 1, .full) := by
  simp [writeBlock, seqLoop, b23, shrink, copyMatch, copyLoop, append, gId]

end Examples

end LZ.DecBuf

#print axioms LZ.DecBuf.C04_copyMatch_eq_copyRef
#print axioms LZ.DecBuf.C04_copyMatch_ctl
#print axioms LZ.DecBuf.C05_copy_in_bounds
#print axioms LZ.DecBuf.init_establishes
#print axioms LZ.DecBuf.init_isSome_iff
#print axioms LZ.DecBuf.writeByte_refines
#print axioms LZ.DecBuf.write_refines
#print axioms LZ.DecBuf.writeMatch_refines
#print axioms LZ.DecBuf.C05_writeMatch_offset_iff
#print axioms LZ.DecBuf.C04_window_offsets
#print axioms LZ.DecBuf.read_refines
#print axioms LZ.DecBuf.shrink_refines
#print axioms LZ.DecBuf.reset_refines
#print axioms LZ.DecBuf.C04_unread_kept
#print axioms LZ.DecBuf.C04_window_addressable
#print axioms LZ.DecBuf.writeBlock_refines
#print axioms LZ.DecBuf.C05_seqFail_kinds
#print axioms LZ.DecBuf.C05_writeBlock_atomic
#print axioms LZ.DecBuf.C05_writeBlock_errors
#print axioms LZ.DecBuf.C05_writeBlock_reject
#print axioms LZ.DecBuf.C05_never_panic
#print axioms LZ.DecBuf.C05_no_slice_panic
#print axioms LZ.DecBuf.step_refines
#print axioms LZ.DecBuf.C04_refines
#print axioms LZ.DecBuf.C04_read_exact
#print axioms LZ.DecBuf.C17_off_exact
#print axioms LZ.DecBuf.C17_counts
#print axioms LZ.DecBuf.C17_writeBlock_counts
#print axioms LZ.DecBuf.cap_invariant
