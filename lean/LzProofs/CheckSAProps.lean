/-
  LzProofs.CheckSAProps — the linear-time suffix array checker `checkSALin`
  (LzModel/CheckSA.lean, the transliteration of the harness function `checkSALinear`) accepts
  exactly the suffix arrays:

    checkSALin_iff       : checkSALin t.toArray sa.toArray = true ↔ IsSuffixArray t sa
    checkSALin_eq_saSpec : checkSALin t.toArray sa.toArray = true ↔ sa = saSpec t

  Soundness (accepted ⇒ sorted).  The first loop establishes that `sa` is a permutation of
  `0 … n-1` and that `R p := rank[p]` is its inverse (shifted by 2), with `R n = 1` below all
  other ranks.  The second loop checks for ADJACENT ranks the strict order of the keys
  `(t[p], R (p+1))` (`KeyLt`); this order is transitive, hence it holds for all pairs of ranks
  (`pairwise_of_adjacent`).  `lexLe_of_rank` then shows `R p < R q → t.drop p ≤ t.drop q` by
  induction on `n - p` (the length of the suffix at `p`): the first bytes decide, or they are
  equal and the induction hypothesis applies to `p+1`, `q+1`.

  Completeness (sorted ⇒ accepted) uses that in a suffix array the order of two suffixes
  decides the order of their ranks (`IsSuffixArray.rank_le_of_lexLe`).
-/
import LzModel.CheckSA
import LzProofs.SuffixProps
namespace LZ

/-! ### array access -/

theorem getD_set_self {r : Array Nat} {p v : Nat} (h : p < r.size) :
    (r.setIfInBounds p v).getD p 0 = v := by
  simp [Array.getD_eq_getD_getElem?, Array.getElem?_setIfInBounds_self_of_lt h]

theorem getD_set_ne {r : Array Nat} {p q v : Nat} (h : p ≠ q) :
    (r.setIfInBounds p v).getD q 0 = r.getD q 0 := by
  simp [Array.getD_eq_getD_getElem?, Array.getElem?_setIfInBounds_ne h]

/-! ### first loop: `rank` becomes the inverse permutation -/

/-- invariant of the first loop after `i` iterations -/
structure RankInv (n : Nat) (sa : Array Nat) (i : Nat) (rank : Array Nat) : Prop where
  size : rank.size = n + 1
  lt : ∀ j, j < i → sa.getD j 0 < n
  val : ∀ j, j < i → rank.getD (sa.getD j 0) 0 = j + 2
  zero : ∀ p, rank.getD p 0 ≠ 0 → ∃ j, j < i ∧ sa.getD j 0 = p

theorem RankInv.init (n : Nat) (sa : Array Nat) : RankInv n sa 0 (Array.replicate (n+1) 0) := by
  refine ⟨by simp, fun j hj => by omega, fun j hj => by omega, fun p hp => ?_⟩
  exfalso; apply hp
  simp only [Array.getD_eq_getD_getElem?, Array.getElem?_replicate]
  split <;> rfl

theorem RankInv.inj {n : Nat} {sa : Array Nat} {i : Nat} {rank : Array Nat}
    (h : RankInv n sa i rank) {j k : Nat} (hj : j < i) (hk : k < i)
    (e : sa.getD j 0 = sa.getD k 0) : j = k := by
  have h1 := h.val j hj
  have h2 := h.val k hk
  rw [e] at h1
  omega

theorem RankInv.step {n : Nat} {sa : Array Nat} {i : Nat} {rank : Array Nat}
    (h : RankInv n sa i rank) (hp : sa.getD i 0 < n) (hz : rank.getD (sa.getD i 0) 0 = 0) :
    RankInv n sa (i+1) (rank.setIfInBounds (sa.getD i 0) (i+2)) := by
  refine ⟨by simp [h.size], fun j hj => ?_, fun j hj => ?_, fun p hp' => ?_⟩
  · by_cases e : j = i
    · subst e; exact hp
    · exact h.lt j (by omega)
  · by_cases e : j = i
    · subst e; exact getD_set_self (by rw [h.size]; omega)
    · have hj' : j < i := by omega
      have hne : sa.getD i 0 ≠ sa.getD j 0 := by
        intro e'
        have := h.val j hj'
        rw [← e', hz] at this
        omega
      rw [getD_set_ne hne]
      exact h.val j hj'
  · by_cases e : sa.getD i 0 = p
    · exact ⟨i, by omega, e⟩
    · rw [getD_set_ne e] at hp'
      obtain ⟨j, hj, ej⟩ := h.zero p hp'
      exact ⟨j, by omega, ej⟩

/-- a successful first loop has established the invariant for all indices it has seen -/
theorem fillRank_some {n : Nat} {sa : Array Nat} : ∀ (fuel i : Nat) (rank r : Array Nat),
    RankInv n sa i rank → fillRank n sa fuel i rank = some r → RankInv n sa (i + fuel) r
  | 0, i, rank, r, h, e => by
    simp only [fillRank, Option.some.injEq] at e
    subst e; exact h
  | fuel+1, i, rank, r, h, e => by
    simp only [fillRank] at e
    split at e
    · rename_i hc
      simp only [Bool.and_eq_true, decide_eq_true_eq, beq_iff_eq] at hc
      have := fillRank_some fuel (i+1) _ r (h.step hc.1 hc.2) e
      have e' : i + (fuel + 1) = i + 1 + fuel := by omega
      rw [e']; exact this
    · exact absurd e (by simp)

/-- the first loop succeeds on the remaining indices if they are in range and new -/
theorem fillRank_isSome {n : Nat} {sa : Array Nat} : ∀ (fuel i : Nat) (rank : Array Nat),
    RankInv n sa i rank → (∀ j, j < i + fuel → sa.getD j 0 < n) →
    (∀ j k, j < k → k < i + fuel → sa.getD j 0 ≠ sa.getD k 0) →
    ∃ r, fillRank n sa fuel i rank = some r
  | 0, i, rank, _, _, _ => ⟨rank, rfl⟩
  | fuel+1, i, rank, h, hlt, hne => by
    have hp : sa.getD i 0 < n := hlt i (by omega)
    have hz : rank.getD (sa.getD i 0) 0 = 0 := by
      apply Classical.byContradiction
      intro hnz
      obtain ⟨j, hj, ej⟩ := h.zero _ hnz
      exact hne j i hj (by omega) ej
    have hc : (decide (sa.getD i 0 < n) && rank.getD (sa.getD i 0) 0 == 0) = true :=
      Bool.and_eq_true_iff.2 ⟨decide_eq_true hp, by rw [hz]; rfl⟩
    simp only [fillRank, hc, if_true]
    exact fillRank_isSome fuel (i+1) _ (h.step hp hz)
      (fun j hj => hlt j (by omega)) (fun j k hjk hk => hne j k hjk (by omega))

/-! ### second loop: adjacent keys `(t[p], rank[p+1])` are strictly increasing -/

/-- strict order of the keys `(t[a], R (a+1))` -/
def KeyLt (t : Array Byte) (R : Nat → Nat) (a b : Nat) : Prop :=
  t.getD a 0 < t.getD b 0 ∨ (t.getD a 0 = t.getD b 0 ∧ R (a+1) < R (b+1))

theorem KeyLt.trans {t : Array Byte} {R : Nat → Nat} (a b c : Nat)
    (h1 : KeyLt t R a b) (h2 : KeyLt t R b c) : KeyLt t R a c := by
  unfold KeyLt at *
  rcases h1 with h1 | ⟨e1, r1⟩
  · rcases h2 with h2 | ⟨e2, _⟩
    · exact Or.inl (UInt8.lt_trans h1 h2)
    · exact Or.inl (e2 ▸ h1)
  · rcases h2 with h2 | ⟨e2, r2⟩
    · exact Or.inl (e1 ▸ h2)
    · exact Or.inr ⟨e1.trans e2, Nat.lt_trans r1 r2⟩

theorem adjOK_iff (t : Array Byte) (sa rank : Array Nat) (i : Nat) :
    adjOK t sa rank i = true ↔
      KeyLt t (fun p => rank.getD p 0) (sa.getD (i-1) 0) (sa.getD i 0) := by
  unfold adjOK KeyLt
  simp only
  generalize t.getD (sa.getD (i-1) 0) 0 = ta
  generalize t.getD (sa.getD i 0) 0 = tb
  generalize rank.getD (sa.getD (i-1) 0 + 1) 0 = ra
  generalize rank.getD (sa.getD i 0 + 1) 0 = rb
  by_cases h1 : tb < ta
  · simp only [h1, if_true]
    constructor
    · intro h; exact absurd h (by simp)
    · rintro (h | ⟨h, _⟩)
      · exact absurd (UInt8.lt_trans h h1) (UInt8.lt_irrefl _)
      · subst h; exact absurd h1 (UInt8.lt_irrefl _)
  · simp only [h1, if_false]
    by_cases h2 : ta = tb
    · subst h2
      by_cases h3 : rb ≤ ra
      · simp [h3, UInt8.lt_irrefl] <;> omega
      · simp [h3, UInt8.lt_irrefl] <;> omega
    · have hlt : ta < tb := by
        rcases UInt8.lt_or_lt_of_ne h2 with h | h
        · exact h
        · exact absurd h h1
      simp [h2, hlt]

theorem checkAdj_iff (t : Array Byte) (sa rank : Array Nat) : ∀ (fuel i : Nat),
    checkAdj t sa rank fuel i = true ↔ ∀ k, i ≤ k → k < i + fuel → adjOK t sa rank k = true
  | 0, i => by
    simp only [checkAdj, true_iff]
    intro k h1 h2; omega
  | fuel+1, i => by
    simp only [checkAdj]
    constructor
    · intro h
      split at h
      · rename_i hi
        intro k h1 h2
        by_cases e : k = i
        · subst e; exact hi
        · exact (checkAdj_iff t sa rank fuel (i+1)).1 h k (by omega) (by omega)
      · exact absurd h (by simp)
    · intro h
      rw [if_pos (h i (Nat.le_refl _) (by omega))]
      exact (checkAdj_iff t sa rank fuel (i+1)).2 (fun k h1 h2 => h k (by omega) (by omega))

/-! ### rank order is lexicographic order -/

theorem getD_toArray_byte {t : List Byte} {p : Nat} (h : p < t.length) :
    t.toArray.getD p 0 = t[p] := by simp [h]

theorem getD_toArray_nat {sa : List Nat} {i : Nat} (h : i < sa.length) :
    sa.toArray.getD i 0 = sa[i] := by simp [h]

/-- the heart of the soundness proof: if `R` ranks the end position `n` below all positions and
    the order of the ranks of two positions implies the order of their keys
    `(t[p], R (p+1))`, then the order of the ranks implies the order of the suffixes -/
theorem lexLe_of_rank {t : List Byte} {R : Nat → Nat} (hRn : R t.length = 1)
    (hR2 : ∀ p, p < t.length → 2 ≤ R p)
    (hkey : ∀ p q, p < t.length → q < t.length → R p < R q → KeyLt t.toArray R p q) :
    ∀ (d p q : Nat), t.length - p = d → p ≤ t.length → q ≤ t.length → R p < R q →
      lexLe (t.drop p) (t.drop q) = true := by
  intro d
  induction d with
  | zero =>
    intro p q hd hp _ _
    rw [List.drop_of_length_le (by omega)]
    simp [lexLe]
  | succ d ih =>
    intro p q hd hp hq hlt
    have hp' : p < t.length := by omega
    have hq' : q < t.length := by
      rcases Nat.lt_or_ge q t.length with h | h
      · exact h
      · have : q = t.length := by omega
        subst this
        have := hR2 p hp'
        omega
    have hk := hkey p q hp' hq' hlt
    unfold KeyLt at hk
    rw [getD_toArray_byte hp', getD_toArray_byte hq'] at hk
    rw [List.drop_eq_getElem_cons hp', List.drop_eq_getElem_cons hq']
    simp only [lexLe, Bool.or_eq_true, Bool.and_eq_true, decide_eq_true_eq, beq_iff_eq]
    rcases hk with h | ⟨h, hr⟩
    · exact Or.inl h
    · exact Or.inr ⟨h, ih (p+1) (q+1) (by omega) (by omega) (by omega) hr⟩

/-! ### what an accepting run of the first loop provides -/

/-- the final rank function: `R n = 1`, `R sa[i] = i + 2` -/
theorem rank_final {n : Nat} {sa : List Nat} {rank : Array Nat}
    (inv : RankInv n sa.toArray sa.length rank) :
    (rank.setIfInBounds n 1).getD n 0 = 1 ∧
    ∀ i (hi : i < sa.length), sa[i] < n ∧ (rank.setIfInBounds n 1).getD sa[i] 0 = i + 2 := by
  refine ⟨getD_set_self (by rw [inv.size]; omega), fun i hi => ?_⟩
  have h1 := inv.lt i hi
  have h2 := inv.val i hi
  rw [getD_toArray_nat hi] at h1 h2
  refine ⟨h1, ?_⟩
  rw [getD_set_ne (by omega)]
  exact h2

/-- the first loop accepts only permutations of `0 … n-1` -/
theorem perm_of_rankInv {n : Nat} {sa : List Nat} {rank : Array Nat} (hlen : sa.length = n)
    (inv : RankInv n sa.toArray sa.length rank) : sa.Perm (List.range n) := by
  apply perm_of_nodup_subset_length
  · apply List.pairwise_iff_getElem.2
    intro i j hi hj hij e
    have := inv.inj hi hj (by rw [getD_toArray_nat hi, getD_toArray_nat hj]; exact e)
    omega
  · intro x hx
    obtain ⟨k, hk, e⟩ := List.getElem_of_mem hx
    have := inv.lt k hk
    rw [getD_toArray_nat hk, e] at this
    exact List.mem_range.2 this
  · simp [hlen]

/-! ### soundness -/

/-- **Soundness**: an array accepted by the linear checker is the suffix array. -/
theorem checkSALin_sound {t : List Byte} {sa : List Nat}
    (h : checkSALin t.toArray sa.toArray = true) : IsSuffixArray t sa := by
  unfold checkSALin at h
  simp only [List.size_toArray] at h
  split at h
  · exact absurd h (by simp)
  rename_i hlen
  have hlen : sa.length = t.length := by simpa using hlen
  split at h
  · exact absurd h (by simp)
  rename_i rank hfill
  have inv0 := fillRank_some t.length 0 _ rank (RankInv.init _ _) hfill
  rw [Nat.zero_add] at inv0
  have inv : RankInv t.length sa.toArray sa.length rank := by rw [hlen]; exact inv0
  obtain ⟨hRn, hRsa⟩ := rank_final inv
  have hperm : sa.Perm (List.range t.length) := perm_of_rankInv hlen inv
  refine ⟨hperm, ?_⟩
  generalize hR : (fun p => (rank.setIfInBounds t.length 1).getD p 0) = R at *
  have hRn : R t.length = 1 := by rw [← hR]; exact hRn
  have hRsa : ∀ i (hi : i < sa.length), sa[i] < t.length ∧ R sa[i] = i + 2 := by
    intro i hi; rw [← hR]; exact hRsa i hi
  -- the second loop: adjacent keys increase
  have hadj := (checkAdj_iff _ _ _ _ _).1 h
  have hpw : sa.Pairwise (KeyLt t.toArray R) := by
    apply pairwise_of_adjacent KeyLt.trans
    intro k hk
    have := (adjOK_iff _ _ _ _).1 (hadj (k+1) (by omega) (by omega))
    rw [hR, Nat.add_sub_cancel, getD_toArray_nat (by omega), getD_toArray_nat hk] at this
    exact this
  -- every position has a rank
  have hpos : ∀ p, p < t.length → ∃ i, ∃ hi : i < sa.length, sa[i] = p := by
    intro p hp
    have : p ∈ sa := hperm.mem_iff.2 (List.mem_range.2 hp)
    obtain ⟨i, hi, e⟩ := List.getElem_of_mem this
    exact ⟨i, hi, e⟩
  have hR2 : ∀ p, p < t.length → 2 ≤ R p := by
    intro p hp
    obtain ⟨i, hi, e⟩ := hpos p hp
    have := (hRsa i hi).2
    rw [e] at this
    omega
  have hkey : ∀ p q, p < t.length → q < t.length → R p < R q → KeyLt t.toArray R p q := by
    intro p q hp hq hlt
    obtain ⟨i, hi, ei⟩ := hpos p hp
    obtain ⟨j, hj, ej⟩ := hpos q hq
    have h1 := (hRsa i hi).2
    have h2 := (hRsa j hj).2
    rw [ei] at h1
    rw [ej] at h2
    have := List.pairwise_iff_getElem.1 hpw i j hi hj (by omega)
    rw [ei, ej] at this
    exact this
  apply List.pairwise_iff_getElem.2
  intro i j hi hj hij
  have h1 := hRsa i hi
  have h2 := hRsa j hj
  exact lexLe_of_rank hRn hR2 hkey _ _ _ rfl (Nat.le_of_lt h1.1) (Nat.le_of_lt h2.1)
    (by rw [h1.2, h2.2]; omega)

/-! ### completeness -/

/-- in a suffix array the order of two different suffixes (the empty one at `n` included)
    decides the order of their ranks -/
theorem rank_lt_of_lexLe {t : List Byte} {sa : List Nat} (h : IsSuffixArray t sa) {R : Nat → Nat}
    (hRn : R t.length = 1) (hRsa : ∀ i (hi : i < sa.length), R sa[i] = i + 2)
    {p q : Nat} (hp : p ≤ t.length) (hq : q ≤ t.length) (hne : p ≠ q)
    (hle : lexLe (t.drop p) (t.drop q) = true) : R p < R q := by
  have hpos : ∀ p, p < t.length → ∃ i, ∃ hi : i < sa.length, sa[i] = p := by
    intro p hp
    obtain ⟨i, hi, e⟩ := List.getElem_of_mem ((h.mem_iff p).2 hp)
    exact ⟨i, hi, e⟩
  rcases Nat.lt_or_ge q t.length with hq' | hq'
  · obtain ⟨j, hj, ej⟩ := hpos q hq'
    have h2 := hRsa j hj
    rw [ej] at h2
    rcases Nat.lt_or_ge p t.length with hp' | hp'
    · obtain ⟨i, hi, ei⟩ := hpos p hp'
      have h1 := hRsa i hi
      rw [ei] at h1
      have hij : i ≤ j := h.rank_le_of_lexLe hi hj (by rw [ei, ej]; exact hle)
      have : i ≠ j := by
        intro e; subst e
        exact hne (ei.symm.trans ej)
      omega
    · have : p = t.length := by omega
      subst this
      omega
  · have hq'' : q = t.length := by omega
    subst hq''
    have hp' : p < t.length := by omega
    rw [List.drop_eq_getElem_cons hp', List.drop_of_length_le (Nat.le_refl _)] at hle
    simp [lexLe] at hle

/-- **Completeness**: the linear checker accepts the suffix array. -/
theorem checkSALin_complete {t : List Byte} {sa : List Nat} (h : IsSuffixArray t sa) :
    checkSALin t.toArray sa.toArray = true := by
  have hlen := h.length_eq
  obtain ⟨rank, hfill⟩ := fillRank_isSome (n := t.length) (sa := sa.toArray) t.length 0 _
    (RankInv.init _ _)
    (fun j hj => by
      have hj' : j < sa.length := by omega
      rw [getD_toArray_nat hj']; exact h.getElem_lt j hj')
    (fun j k hjk hk e => by
      have hk' : k < sa.length := by omega
      have hj' : j < sa.length := by omega
      rw [getD_toArray_nat hj', getD_toArray_nat hk'] at e
      have := h.getElem_inj hj' hk' e
      omega)
  have inv0 := fillRank_some t.length 0 _ rank (RankInv.init _ _) hfill
  rw [Nat.zero_add] at inv0
  have inv : RankInv t.length sa.toArray sa.length rank := by rw [hlen]; exact inv0
  obtain ⟨hRn, hRsa⟩ := rank_final inv
  unfold checkSALin
  simp only [List.size_toArray, hlen, bne_self_eq_false, Bool.false_eq_true, if_false, hfill]
  apply (checkAdj_iff _ _ _ _ _).2
  intro k hk1 hk2
  apply (adjOK_iff _ _ _ _).2
  have hkl : k < sa.length := by omega
  have hkl' : k - 1 < sa.length := by omega
  rw [getD_toArray_nat hkl, getD_toArray_nat hkl']
  have ha := h.getElem_lt (k-1) hkl'
  have hb := h.getElem_lt k hkl
  have hne : sa[k-1] ≠ sa[k] := by
    intro e
    have := h.getElem_inj hkl' hkl e
    omega
  have hle := h.mono (a := k-1) (b := k) (by omega) hkl
  rw [List.drop_eq_getElem_cons ha, List.drop_eq_getElem_cons hb] at hle
  simp only [lexLe, Bool.or_eq_true, Bool.and_eq_true, decide_eq_true_eq, beq_iff_eq] at hle
  unfold KeyLt
  rw [getD_toArray_byte ha, getD_toArray_byte hb]
  rcases hle with h1 | ⟨h1, h2⟩
  · exact Or.inl h1
  · refine Or.inr ⟨h1, ?_⟩
    exact rank_lt_of_lexLe h (R := fun p => (rank.setIfInBounds t.length 1).getD p 0) hRn
      (fun i hi => (hRsa i hi).2) (by omega) (by omega) (by omega) h2

/-! ### the certification theorems -/

/-- The linear-time checker certifies exactly the suffix arrays. -/
theorem checkSALin_iff (t : List Byte) (sa : List Nat) :
    checkSALin t.toArray sa.toArray = true ↔ IsSuffixArray t sa :=
  ⟨checkSALin_sound, checkSALin_complete⟩

/-- Per-input certification of `suffix.Sort` for large inputs: the output is accepted by the
    linear checker iff it is `saSpec t`, the model of `suffix.Sort`. -/
theorem checkSALin_eq_saSpec (t : List Byte) (sa : List Nat) :
    checkSALin t.toArray sa.toArray = true ↔ sa = saSpec t :=
  (checkSALin_iff t sa).trans isSuffixArray_iff_eq_saSpec

/-- the linear checker and the quadratic checker `checkSA` agree -/
theorem checkSALin_eq_checkSA (t : List Byte) (sa : List Nat) :
    checkSALin t.toArray sa.toArray = checkSA t sa := by
  rw [Bool.eq_iff_iff, checkSALin_iff, checkSA_iff]

/-! ### non-vacuity -/

-- "abab"
example : checkSALin #[97,98,97,98] #[2,0,3,1] = true := by decide
example : checkSALin #[97,98,97,98] #[0,2,3,1] = false := by decide   -- suffixes out of order
example : checkSALin #[97,98,97,98] #[2,0,1,3] = false := by decide   -- suffixes out of order
example : checkSALin #[97,98,97,98] #[2,0,3,3] = false := by decide   -- not a permutation
example : checkSALin #[97,98,97,98] #[2,0,3,4] = false := by decide   -- out of range
example : checkSALin #[97,98,97,98] #[2,0,3] = false := by decide     -- length
example : checkSALin #[] #[] = true := by decide
-- "banana"
example : checkSALin #[98,97,110,97,110,97] #[5,3,1,0,4,2] = true := by decide
example : checkSALin #[98,97,110,97,110,97] #[5,1,3,0,4,2] = false := by decide
example : IsSuffixArray [97,98,97,98] [2,0,3,1] := (checkSALin_iff _ _).1 (by decide)
example : saSpec [98,97,110,97,110,97] = [5,3,1,0,4,2] :=
  ((checkSALin_eq_saSpec _ _).1 (by decide)).symm

#print axioms checkSALin_sound
#print axioms checkSALin_complete
#print axioms checkSALin_iff
#print axioms checkSALin_eq_saSpec
#print axioms checkSALin_eq_checkSA

end LZ
