/-
  LzProofs.SuffixAll — property C10 at full strength: every `0 ≤ minLen ≤ maxLen`, without the
  bound `maxLen ≤ MaxInt32` of the theorems in SuffixProps.lean.

  `Segments` (segments.go) no longer panics for limits above `MaxInt32`: it returns at once when
  `minLen > MaxInt32` and clamps `maxLen` to `MaxInt32` (model: `LZ.segments`).  The suffix array
  and the LCP table are `[]int32` in the Go code, so the text length fits an `int32`
  (`hlen : t.length ≤ 2147483647`); then every common-prefix length `c` has
  `min c maxLen = min c MaxInt32 = c` for `maxLen > MaxInt32`, and no two suffixes share more than
  `MaxInt32` bytes.  Each `_all` theorem is the corresponding theorem of SuffixProps.lean with the
  hypothesis `hmax` removed and `hlen` added, derived from it by

    `segmentsOf_clamp` : `segmentsOf t sa minLen maxLen = segmentsOf t sa minLen (min maxLen MaxInt32)`
                          (for `minLen ≤ MaxInt32`),
    `segmentsOf_big`   : `segmentsOf t sa minLen maxLen = some []` (for `minLen > MaxInt32`),
    `sufLcp_le`        : `sufLcp t sa a b ≤ t.length`.

  `hlen` is needed (and assumed) only where a conclusion mentions `min c maxLen` or a hypothesis
  `minLen ≤ c`: `C10_groups_complete_unique(_sym)_all`, `C10_positions_complete_unique_all`.
  `C10_no_panic_all`, `C10_groups_sound_all`, `C10_positions_sound_all`, `C10_groups_nodup_all`,
  `C10_groups_children_first_all` hold without it (so they are stated without it: stronger).
-/
import LzProofs.SuffixProps
namespace LZ

section GroupsAll
variable {t : List Byte} {sa : List Nat}

/-- no two suffixes share more bytes than the text has -/
theorem sufLcp_le (t : List Byte) (sa : List Nat) (a b : Nat) : sufLcp t sa a b ≤ t.length := by
  unfold sufLcp
  have h1 := lcpLen_le_left (t.drop (sa.getD a 0)) (t.drop (sa.getD b 0))
  rw [List.length_drop] at h1
  omega

/-- a `maxLen` above `MaxInt32` acts as `MaxInt32` -/
theorem segmentsOf_clamp (t : List Byte) (sa : List Nat) {minLen maxLen : Int}
    (hmm : minLen ≤ maxLen) (hmin' : minLen ≤ 2147483647) :
    segmentsOf t sa minLen maxLen = segmentsOf t sa minLen (min maxLen 2147483647) := by
  unfold segmentsOf segments
  by_cases hbig : maxLen > 2147483647
  · have e : min maxLen 2147483647 = 2147483647 := by omega
    rw [e]
    have h1 : ¬ maxLen < minLen := by omega
    have h2 : ¬ (2147483647 : Int) < minLen := by omega
    have h4 : ¬ (2147483647 : Int) > 2147483647 := by omega
    simp only [h1, h2, h4, hbig, if_true, if_false, false_or]
  · have e : min maxLen 2147483647 = maxLen := by omega
    rw [e]

/-- `minLen > MaxInt32`: nothing is reported, nothing panics -/
theorem segmentsOf_big (h : IsSuffixArray t sa) {minLen maxLen : Int}
    (hmin' : 2147483647 < minLen) : segmentsOf t sa minLen maxLen = some [] := by
  unfold segmentsOf
  rw [lcpKasai_eq h]
  unfold segments
  have h1 : ¬ sa.length ≠ (lcpSpec t sa).toArray.size := by rw [lcpSpec_size]; omega
  have h2 : ¬ minLen < 0 := by omega
  have h3 : maxLen < minLen ∨ sa.length = 0 ∨ minLen > 2147483647 := Or.inr (Or.inr hmin')
  simp only [h1, h2, h3, if_true, if_false]

/-- **C10, no panic, the exact result.** For every `0 ≤ minLen ≤ maxLen`. -/
theorem segmentsOf_some_all (h : IsSuffixArray t sa) {minLen maxLen : Int} (hmin : 0 ≤ minLen)
    (hmm : minLen ≤ maxLen) :
    segmentsOf t sa minLen maxLen =
      some (if sa.length = 0 ∨ 2147483647 < minLen then []
            else scanLCP (lcpSpec t sa).toArray minLen (min maxLen 2147483647)) := by
  by_cases hbig : minLen ≤ 2147483647
  · rw [segmentsOf_clamp t sa hmm hbig,
      segmentsOf_some h hmin (show minLen ≤ min maxLen 2147483647 by omega) (by omega)]
    have h1 : ¬ (2147483647 < minLen) := by omega
    simp only [h1, or_false]
  · rw [segmentsOf_big h (by omega)]
    have h1 : sa.length = 0 ∨ 2147483647 < minLen := Or.inr (by omega)
    simp only [h1, if_true]

/-- **C10, no panic.** For every `0 ≤ minLen ≤ maxLen` (no upper bound), `Segments` on the suffix
    array and the LCP table computed by `_lcp` returns normally. -/
theorem C10_no_panic_all (h : IsSuffixArray t sa) {minLen maxLen : Int} (hmin : 0 ≤ minLen)
    (hmm : minLen ≤ maxLen) : ∃ cbs, segmentsOf t sa minLen maxLen = some cbs :=
  ⟨_, segmentsOf_some_all h hmin hmm⟩

/-- the whole pipeline `Sort` (specification) → `InvertSA` → `_lcp` → `Segments` never panics -/
theorem segmentsOf_saSpec_some_all (t : List Byte) {minLen maxLen : Int} (hmin : 0 ≤ minLen)
    (hmm : minLen ≤ maxLen) :
    ∃ cbs, segmentsOf t (saSpec t) minLen maxLen = some cbs ∧ (t = [] → cbs = []) := by
  by_cases hbig : minLen ≤ 2147483647
  · rw [segmentsOf_clamp t (saSpec t) hmm hbig]
    exact segmentsOf_saSpec_some t hmin (show minLen ≤ min maxLen 2147483647 by omega) (by omega)
  · exact ⟨[], segmentsOf_big (saSpec_isSuffixArray t) (by omega), fun _ => rfl⟩

/-- **C10, soundness for suffixes**, every `0 ≤ minLen ≤ maxLen`. -/
theorem C10_groups_sound_all (h : IsSuffixArray t sa)
    {minLen maxLen : Int} (hmin : 0 ≤ minLen)
    (hmm : minLen ≤ maxLen) {cbs : List Callback}
    (hs : segmentsOf t sa minLen maxLen = some cbs) {m lo hi : Nat} (hcb : (m, lo, hi) ∈ cbs) :
    minLen ≤ (m : Int) ∧ (m : Int) ≤ maxLen ∧ lo < hi ∧ hi ≤ sa.length ∧
    (∀ a b, lo ≤ a → a < b → b < hi → m ≤ sufLcp t sa a b) ∧
    (∀ a r, lo ≤ a → a < hi → r < sa.length → (r < lo ∨ hi ≤ r) → sufLcp t sa a r < m) := by
  by_cases hbig : minLen ≤ 2147483647
  · rw [segmentsOf_clamp t sa hmm hbig] at hs
    obtain ⟨s1, s2, s3⟩ := C10_groups_sound h hmin
      (show minLen ≤ min maxLen 2147483647 by omega) (by omega) hs hcb
    exact ⟨s1, by omega, s3⟩
  · rw [segmentsOf_big h (by omega)] at hs
    have := Option.some.inj hs
    subst this
    exact absurd hcb (List.not_mem_nil)

/-- the clamped limit selects the same value: `min c maxLen = min c (min maxLen MaxInt32)` for
    every common-prefix length `c` -/
theorem min_clamp_toNat {c : Nat} (hc : c ≤ 2147483647) (maxLen : Int) :
    min c (min maxLen 2147483647).toNat = min c maxLen.toNat := by
  omega

/-- **C10, completeness and uniqueness for suffixes**, every `0 ≤ minLen ≤ maxLen`. -/
theorem C10_groups_complete_unique_all (h : IsSuffixArray t sa) (hlen : t.length ≤ 2147483647)
    {minLen maxLen : Int} (hmin : 0 ≤ minLen)
    (hmm : minLen ≤ maxLen) {cbs : List Callback}
    (hs : segmentsOf t sa minLen maxLen = some cbs) {a b : Nat} (hab : a < b) (hb : b < sa.length)
    (hc : minLen ≤ (sufLcp t sa a b : Int)) :
    ∃ cb : Callback, (cb ∈ cbs ∧ cb.1 = min (sufLcp t sa a b) maxLen.toNat ∧ cb.2.1 ≤ a ∧ b < cb.2.2) ∧
      ∀ cb' : Callback, (cb' ∈ cbs ∧ cb'.1 = min (sufLcp t sa a b) maxLen.toNat ∧ cb'.2.1 ≤ a ∧
        b < cb'.2.2) → cb' = cb := by
  have hle := sufLcp_le t sa a b
  have hbig : minLen ≤ 2147483647 := by omega
  rw [segmentsOf_clamp t sa hmm hbig] at hs
  have key := C10_groups_complete_unique h hmin
    (show minLen ≤ min maxLen 2147483647 by omega) (by omega) hs hab hb hc
  rw [min_clamp_toNat (by omega) maxLen] at key
  exact key

/-- … and it is issued at exactly one position of the callback list. -/
theorem C10_groups_nodup_all (h : IsSuffixArray t sa) {minLen maxLen : Int} (hmin : 0 ≤ minLen)
    (hmm : minLen ≤ maxLen) {cbs : List Callback}
    (hs : segmentsOf t sa minLen maxLen = some cbs) : cbs.Nodup := by
  by_cases hbig : minLen ≤ 2147483647
  · rw [segmentsOf_clamp t sa hmm hbig] at hs
    exact C10_groups_nodup h hmin (show minLen ≤ min maxLen 2147483647 by omega) (by omega) hs
  · rw [segmentsOf_big h (by omega)] at hs
    have := Option.some.inj hs
    subst this
    exact List.nodup_nil

/-- **C10, children first**, every `0 ≤ minLen ≤ maxLen`. -/
theorem C10_groups_children_first_all (h : IsSuffixArray t sa) {minLen maxLen : Int}
    (hmin : 0 ≤ minLen)
    (hmm : minLen ≤ maxLen) {cbs : List Callback}
    (hs : segmentsOf t sa minLen maxLen = some cbs) {m1 lo1 hi1 m2 lo2 hi2 : Nat}
    (h1 : (m1, lo1, hi1) ∈ cbs) (h2 : (m2, lo2, hi2) ∈ cbs)
    (hlo : lo2 ≤ lo1) (hhi : hi1 ≤ hi2) (hm : m2 < m1) :
    [(m1, lo1, hi1), (m2, lo2, hi2)].Sublist cbs := by
  by_cases hbig : minLen ≤ 2147483647
  · rw [segmentsOf_clamp t sa hmm hbig] at hs
    exact C10_groups_children_first h hmin (show minLen ≤ min maxLen 2147483647 by omega) (by omega)
      hs h1 h2 hlo hhi hm
  · rw [segmentsOf_big h (by omega)] at hs
    have := Option.some.inj hs
    subst this
    exact absurd h1 (List.not_mem_nil)

/-- symmetric form of `C10_groups_complete_unique_all` (any two different ranks) -/
theorem C10_groups_complete_unique_sym_all (h : IsSuffixArray t sa) (hlen : t.length ≤ 2147483647)
    {minLen maxLen : Int} (hmin : 0 ≤ minLen)
    (hmm : minLen ≤ maxLen) {cbs : List Callback}
    (hs : segmentsOf t sa minLen maxLen = some cbs) {a b : Nat} (hne : a ≠ b) (ha : a < sa.length)
    (hb : b < sa.length) (hc : minLen ≤ (sufLcp t sa a b : Int)) :
    ∃ cb : Callback, (cb ∈ cbs ∧ cb.1 = min (sufLcp t sa a b) maxLen.toNat ∧
        (cb.2.1 ≤ a ∧ a < cb.2.2) ∧ (cb.2.1 ≤ b ∧ b < cb.2.2)) ∧
      ∀ cb' : Callback, (cb' ∈ cbs ∧ cb'.1 = min (sufLcp t sa a b) maxLen.toNat ∧
        (cb'.2.1 ≤ a ∧ a < cb'.2.2) ∧ (cb'.2.1 ≤ b ∧ b < cb'.2.2)) → cb' = cb := by
  have hle := sufLcp_le t sa a b
  have hbig : minLen ≤ 2147483647 := by omega
  rw [segmentsOf_clamp t sa hmm hbig] at hs
  have key := C10_groups_complete_unique_sym h hmin
    (show minLen ≤ min maxLen 2147483647 by omega) (by omega) hs hne ha hb hc
  rw [min_clamp_toNat (by omega) maxLen] at key
  exact key

/-- **C10 in terms of text positions (completeness, uniqueness)**, every `0 ≤ minLen ≤ maxLen`. -/
theorem C10_positions_complete_unique_all (h : IsSuffixArray t sa) (hlen : t.length ≤ 2147483647)
    {minLen maxLen : Int} (hmin : 0 ≤ minLen)
    (hmm : minLen ≤ maxLen) {cbs : List Callback}
    (hs : segmentsOf t sa minLen maxLen = some cbs) {p q : Nat} (hp : p < t.length) (hq : q < t.length)
    (hpq : p ≠ q) (hc : minLen ≤ (lcpLen (t.drop p) (t.drop q) : Int)) :
    ∃ cb : Callback, (cb ∈ cbs ∧ cb.1 = min (lcpLen (t.drop p) (t.drop q)) maxLen.toNat ∧
        p ∈ segmentOf sa cb.2.1 cb.2.2 ∧ q ∈ segmentOf sa cb.2.1 cb.2.2) ∧
      ∀ cb' : Callback, (cb' ∈ cbs ∧ cb'.1 = min (lcpLen (t.drop p) (t.drop q)) maxLen.toNat ∧
        p ∈ segmentOf sa cb'.2.1 cb'.2.2 ∧ q ∈ segmentOf sa cb'.2.1 cb'.2.2) → cb' = cb := by
  have hle : lcpLen (t.drop p) (t.drop q) ≤ t.length := by
    have h1 := lcpLen_le_left (t.drop p) (t.drop q)
    rw [List.length_drop] at h1
    omega
  have hbig : minLen ≤ 2147483647 := by omega
  rw [segmentsOf_clamp t sa hmm hbig] at hs
  have key := C10_positions_complete_unique h hmin
    (show minLen ≤ min maxLen 2147483647 by omega) (by omega) hs hp hq hpq hc
  rw [min_clamp_toNat (by omega) maxLen] at key
  exact key

/-- **C10 in terms of text positions (soundness)**, every `0 ≤ minLen ≤ maxLen`. -/
theorem C10_positions_sound_all (h : IsSuffixArray t sa)
    {minLen maxLen : Int} (hmin : 0 ≤ minLen)
    (hmm : minLen ≤ maxLen) {cbs : List Callback}
    (hs : segmentsOf t sa minLen maxLen = some cbs) {m lo hi : Nat} (hcb : (m, lo, hi) ∈ cbs) :
    minLen ≤ (m : Int) ∧ (m : Int) ≤ maxLen ∧
    (segmentOf sa lo hi).Nodup ∧ (segmentOf sa lo hi).length = hi - lo ∧ 0 < hi - lo ∧
    (∀ p ∈ segmentOf sa lo hi, p < t.length ∧ m ≤ (t.drop p).length) ∧
    (∀ p ∈ segmentOf sa lo hi, ∀ q ∈ segmentOf sa lo hi, (t.drop p).take m = (t.drop q).take m) ∧
    (∀ p ∈ segmentOf sa lo hi, ∀ r, r < t.length → r ∉ segmentOf sa lo hi →
      lcpLen (t.drop p) (t.drop r) < m) := by
  by_cases hbig : minLen ≤ 2147483647
  · rw [segmentsOf_clamp t sa hmm hbig] at hs
    obtain ⟨s1, s2, s3⟩ := C10_positions_sound h hmin
      (show minLen ≤ min maxLen 2147483647 by omega) (by omega) hs hcb
    exact ⟨s1, by omega, s3⟩
  · rw [segmentsOf_big h (by omega)] at hs
    have := Option.some.inj hs
    subst this
    exact absurd hcb (List.not_mem_nil)

end GroupsAll

/-! ### non-vacuity: "abab", `minLen = 2`, `maxLen = 2^40` and `minLen = maxLen = 2^40` -/

theorem exAll_sa : IsSuffixArray [97,98,97,98] [2,0,3,1] :=
  (checkSA_iff _ _).1 (by decide)

theorem exAll_segs : segmentsOf [97,98,97,98] [2,0,3,1] 2 1099511627776 = some [(2,0,2)] := by
  have e : lcpKasai [97,98,97,98] #[2,0,3,1] (invertSA #[2,0,3,1]) = #[0,2,0,1] := by decide
  simp [segmentsOf, segments, e, scanLCP, scanFrom, popLoop, Int.min_def]

/-- all hypotheses of the `_all` theorems hold for a `maxLen` far above `MaxInt32`, and the group
    `"ab"` (ranks 0–1, positions 2 and 0) is reported with `m = 2 = min 2 maxLen` -/
example : IsSuffixArray [97,98,97,98] [2,0,3,1] ∧ ([97,98,97,98] : List Byte).length ≤ 2147483647 ∧
    (0 : Int) ≤ 2 ∧ (2 : Int) ≤ 1099511627776 ∧ ¬ ((1099511627776 : Int) ≤ 2147483647) ∧
    segmentsOf [97,98,97,98] [2,0,3,1] 2 1099511627776 = some [(2,0,2)] :=
  ⟨exAll_sa, by decide, by decide, by decide, by decide, exAll_segs⟩

/-- … and through the theorem: the two ranks of `"abab"`/`"ab"` share 2 bytes, so exactly one
    callback with `m = min 2 2^40 = 2` contains them -/
example : ∃ cb : Callback, cb ∈ [(2,0,2)] ∧ cb.1 = 2 ∧ cb.2.1 ≤ 0 ∧ 1 < cb.2.2 := by
  obtain ⟨cb, ⟨h1, h2, h3, h4⟩, _⟩ := C10_groups_complete_unique_all exAll_sa (by decide)
    (by decide) (by decide) exAll_segs (a := 0) (b := 1) (by decide) (by decide) (by decide)
  exact ⟨cb, h1, by rw [h2]; decide, h3, h4⟩

/-- `minLen` above `MaxInt32` as well: nothing is reported -/
example : segmentsOf [97,98,97,98] [2,0,3,1] 1099511627776 1099511627776 = some [] :=
  segmentsOf_big exAll_sa (by decide)

/-! ## axioms -/

#print axioms sufLcp_le
#print axioms segmentsOf_clamp
#print axioms segmentsOf_big
#print axioms segmentsOf_some_all
#print axioms segmentsOf_saSpec_some_all
#print axioms C10_no_panic_all
#print axioms C10_groups_sound_all
#print axioms C10_groups_complete_unique_all
#print axioms C10_groups_complete_unique_sym_all
#print axioms C10_groups_nodup_all
#print axioms C10_groups_children_first_all
#print axioms C10_positions_complete_unique_all
#print axioms C10_positions_sound_all
#print axioms exAll_segs

end LZ
