/-
  LzProofs.BytesLemmas — helpers for the word-at-a-time byte comparison (`LzModel.BytesW`).

  Part A  list facts about `lcpLen` / `lcsLen`
  Part B  `Nat` facts: little-endian value `leNat`, `ctz`, `bitLen`, xor
  Part C  the loads `le32`, `le64`, `getLE64`, `le64At` as `leNat`
  Part D  one word: trailing / leading zero bytes of the xor = common prefix / suffix
  Part E  the loops of `lcp`
  Part F  `lcs`
  Part G  the inlined match length of the hash parsers
-/
import LzModel.Basic
import LzModel.BytesW
namespace LZ.BytesW

/-! ## Part A: `lcpLen`, `lcsLen` -/

theorem lcpLen_nil_left (b : List Byte) : lcpLen [] b = 0 := by simp [lcpLen]
theorem lcpLen_nil_right (a : List Byte) : lcpLen a [] = 0 := by cases a <;> simp [lcpLen]

theorem lcpLen_cons (x y : Byte) (a b : List Byte) :
    lcpLen (x :: a) (y :: b) = if x = y then lcpLen a b + 1 else 0 := by simp [lcpLen]

theorem lcpLen_comm : ∀ a b : List Byte, lcpLen a b = lcpLen b a
  | [], b => by rw [lcpLen_nil_left, lcpLen_nil_right]
  | _ :: _, [] => by rw [lcpLen_nil_left, lcpLen_nil_right]
  | x :: a, y :: b => by
    rw [lcpLen_cons, lcpLen_cons, lcpLen_comm a b]
    by_cases h : x = y
    · subst h; simp
    · have : ¬ y = x := fun e => h e.symm
      simp [h, this]

theorem lcpLen_le_left : ∀ a b : List Byte, lcpLen a b ≤ a.length
  | [], b => by simp [lcpLen_nil_left]
  | _ :: _, [] => by simp [lcpLen_nil_right]
  | x :: a, y :: b => by
    rw [lcpLen_cons]; have := lcpLen_le_left a b
    split <;> simp <;> omega

theorem lcpLen_le_right (a b : List Byte) : lcpLen a b ≤ b.length := by
  rw [lcpLen_comm]; exact lcpLen_le_left b a

/-- characterisation of `lcpLen`: `j ≤ lcpLen a b` iff both lists have `j` bytes and the first `j`
    bytes agree -/
theorem le_lcpLen_iff : ∀ (j : Nat) (a b : List Byte),
    j ≤ lcpLen a b ↔ j ≤ a.length ∧ j ≤ b.length ∧ a.take j = b.take j
  | 0, a, b => by simp
  | j + 1, [], b => by simp [lcpLen_nil_left]
  | j + 1, _ :: _, [] => by simp [lcpLen_nil_right]
  | j + 1, x :: a, y :: b => by
    rw [lcpLen_cons]
    by_cases h : x = y
    · subst h
      simp only [if_true, Nat.add_le_add_iff_right, List.length_cons, List.take_succ_cons,
        List.cons.injEq, true_and]
      exact le_lcpLen_iff j a b
    · simp [h]

/-- `lcpLen` is determined by its characterisation -/
theorem eq_of_le_iff {m n : Nat} (h : ∀ j, j ≤ m ↔ j ≤ n) : m = n := by
  have h1 := (h m).1 (Nat.le_refl _)
  have h2 := (h n).2 (Nat.le_refl _)
  omega

theorem lcpLen_take (m : Nat) (a b : List Byte) :
    lcpLen (a.take m) (b.take m) = min m (lcpLen a b) := by
  apply eq_of_le_iff
  intro j
  rw [le_lcpLen_iff, Nat.le_min, le_lcpLen_iff]
  simp only [List.length_take, List.take_take, Nat.le_min]
  constructor
  · rintro ⟨⟨h1, h2⟩, ⟨_, h3⟩, h4⟩
    rw [Nat.min_eq_left h1] at h4
    exact ⟨h1, h2, h3, h4⟩
  · rintro ⟨h1, h2, h3, h4⟩
    rw [Nat.min_eq_left h1]
    exact ⟨⟨h1, h2⟩, ⟨h1, h3⟩, h4⟩

/-- splitting off equally long blocks -/
theorem lcpLen_append (a b p q : List Byte) (h : a.length = b.length) :
    lcpLen (a ++ p) (b ++ q) =
      if lcpLen a b < a.length then lcpLen a b else a.length + lcpLen p q := by
  induction a generalizing b with
  | nil =>
    cases b with
    | nil => simp
    | cons _ _ => simp at h
  | cons x a ih =>
    cases b with
    | nil => simp at h
    | cons y b =>
      simp only [List.length_cons, Nat.add_right_cancel_iff] at h
      simp only [List.cons_append, lcpLen_cons, List.length_cons]
      by_cases e : x = y
      · subst e
        simp only [if_true, ih b h, Nat.add_lt_add_iff_right]
        split <;> omega
      · simp [e]

/-- splitting both lists at `m` -/
theorem lcpLen_split (m : Nat) (p q : List Byte) (hp : m ≤ p.length) (hq : m ≤ q.length) :
    lcpLen p q =
      if lcpLen (p.take m) (q.take m) < m then lcpLen (p.take m) (q.take m)
      else m + lcpLen (p.drop m) (q.drop m) := by
  have := lcpLen_append (p.take m) (q.take m) (p.drop m) (q.drop m)
    (by simp only [List.length_take]; omega)
  rw [List.take_append_drop, List.take_append_drop] at this
  rw [this, List.length_take, Nat.min_eq_left hp]

theorem lcpLen_drop (m : Nat) (p q : List Byte) (h : m ≤ lcpLen p q) :
    lcpLen p q = m + lcpLen (p.drop m) (q.drop m) := by
  have hp := lcpLen_le_left p q
  have hq := lcpLen_le_right p q
  rw [lcpLen_split m p q (by omega) (by omega), lcpLen_take, Nat.min_eq_left h]
  simp

/-! ### common suffix -/

theorem lcsLen_comm (a b : List Byte) : lcsLen a b = lcsLen b a := by
  unfold lcsLen; exact lcpLen_comm _ _

theorem lcsLen_le_left (a b : List Byte) : lcsLen a b ≤ a.length := by
  have := lcpLen_le_left a.reverse b.reverse; simpa [lcsLen] using this

theorem lcsLen_le_right (a b : List Byte) : lcsLen a b ≤ b.length := by
  have := lcpLen_le_right a.reverse b.reverse; simpa [lcsLen] using this

/-- characterisation of `lcsLen`: the last `j` bytes agree -/
theorem le_lcsLen_iff (j : Nat) (a b : List Byte) :
    j ≤ lcsLen a b ↔
      j ≤ a.length ∧ j ≤ b.length ∧ a.drop (a.length - j) = b.drop (b.length - j) := by
  unfold lcsLen
  rw [le_lcpLen_iff, List.take_reverse, List.take_reverse, List.reverse_inj]
  simp

/-- splitting off equally long blocks at the end -/
theorem lcsLen_append (p q a b : List Byte) (h : a.length = b.length) :
    lcsLen (p ++ a) (q ++ b) =
      if lcsLen a b < a.length then lcsLen a b else a.length + lcsLen p q := by
  unfold lcsLen
  rw [List.reverse_append, List.reverse_append, lcpLen_append _ _ _ _ (by simpa using h)]
  simp

/-- only the last `min |a| |b|` bytes matter -/
theorem lcsLen_drop_left (a b : List Byte) (h : b.length ≤ a.length) :
    lcsLen (a.drop (a.length - b.length)) b = lcsLen a b := by
  apply eq_of_le_iff
  intro j
  rw [le_lcsLen_iff, le_lcsLen_iff]
  simp only [List.length_drop, List.drop_drop]
  constructor
  · rintro ⟨h1, h2, h3⟩
    refine ⟨by omega, h2, ?_⟩
    rw [← h3]; congr 1; omega
  · rintro ⟨h1, h2, h3⟩
    refine ⟨by omega, h2, ?_⟩
    rw [← h3]; congr 1; omega


/-! ## Part B/C: little-endian values, loads, bit counting -/

/-- little-endian value of a byte string -/
def leNat : List Byte → Nat
  | [] => 0
  | b :: bs => b.toNat + 256 * leNat bs

theorem or_shl (acc b k : Nat) (h : acc < 2 ^ k) : acc ||| b <<< k = acc + b * 2 ^ k := by
  rw [Nat.or_comm, ← Nat.shiftLeft_add_eq_or_of_lt h, Nat.shiftLeft_eq, Nat.add_comm]

theorem shl_mod (n k : Nat) (hn : n < 256) (hk : k ≤ 56) :
    n <<< k % 18446744073709551616 = n <<< k := by
  apply Nat.mod_eq_of_lt
  rw [Nat.shiftLeft_eq]
  calc n * 2 ^ k < 256 * 2 ^ k := Nat.mul_lt_mul_of_lt_of_le hn (Nat.le_refl _) (Nat.pow_pos (by decide))
    _ ≤ 256 * 2 ^ 56 := Nat.mul_le_mul_left _ (Nat.pow_le_pow_right (by decide) hk)
    _ = 18446744073709551616 := by decide

theorem toNat_le64v (b0 b1 b2 b3 b4 b5 b6 b7 : Byte) :
    (le64v b0 b1 b2 b3 b4 b5 b6 b7).toNat = leNat [b0, b1, b2, b3, b4, b5, b6, b7] := by
  have h0 := b0.toNat_lt; have h1 := b1.toNat_lt; have h2 := b2.toNat_lt; have h3 := b3.toNat_lt
  have h4 := b4.toNat_lt; have h5 := b5.toNat_lt; have h6 := b6.toNat_lt; have h7 := b7.toNat_lt
  simp [le64v, UInt64.toNat_or, UInt64.toNat_shiftLeft, UInt8.toNat_toUInt64, leNat]
  generalize b0.toNat = n0 at *; generalize b1.toNat = n1 at *
  generalize b2.toNat = n2 at *; generalize b3.toNat = n3 at *
  generalize b4.toNat = n4 at *; generalize b5.toNat = n5 at *
  generalize b6.toNat = n6 at *; generalize b7.toNat = n7 at *
  rw [shl_mod n1 8 (by omega) (by omega), shl_mod n2 16 (by omega) (by omega),
    shl_mod n3 24 (by omega) (by omega), shl_mod n4 32 (by omega) (by omega),
    shl_mod n5 40 (by omega) (by omega), shl_mod n6 48 (by omega) (by omega),
    shl_mod n7 56 (by omega) (by omega)]
  rw [or_shl n0 n1 8 (by omega)]
  rw [or_shl _ n2 16 (by omega)]
  rw [or_shl _ n3 24 (by omega)]
  rw [or_shl _ n4 32 (by omega)]
  rw [or_shl _ n5 40 (by omega)]
  rw [or_shl _ n6 48 (by omega)]
  rw [or_shl _ n7 56 (by omega)]
  omega

theorem shl_mod32 (n k : Nat) (hn : n < 256) (hk : k ≤ 24) :
    n <<< k % 4294967296 = n <<< k := by
  apply Nat.mod_eq_of_lt
  rw [Nat.shiftLeft_eq]
  calc n * 2 ^ k < 256 * 2 ^ k := Nat.mul_lt_mul_of_lt_of_le hn (Nat.le_refl _) (Nat.pow_pos (by decide))
    _ ≤ 256 * 2 ^ 24 := Nat.mul_le_mul_left _ (Nat.pow_le_pow_right (by decide) hk)
    _ = 4294967296 := by decide

theorem toNat_le32v (b0 b1 b2 b3 : Byte) :
    (le32v b0 b1 b2 b3).toNat = leNat [b0, b1, b2, b3] := by
  have h0 := b0.toNat_lt; have h1 := b1.toNat_lt; have h2 := b2.toNat_lt; have h3 := b3.toNat_lt
  simp [le32v, UInt32.toNat_or, UInt32.toNat_shiftLeft, UInt8.toNat_toUInt32, leNat]
  generalize b0.toNat = n0 at *; generalize b1.toNat = n1 at *
  generalize b2.toNat = n2 at *; generalize b3.toNat = n3 at *
  rw [shl_mod32 n1 8 (by omega) (by omega), shl_mod32 n2 16 (by omega) (by omega),
    shl_mod32 n3 24 (by omega) (by omega)]
  rw [or_shl n0 n1 8 (by omega)]
  rw [or_shl _ n2 16 (by omega)]
  rw [or_shl _ n3 24 (by omega)]
  omega

theorem leNat_lt : ∀ a : List Byte, leNat a < 256 ^ a.length
  | [] => by simp [leNat]
  | b :: a => by
    have := leNat_lt a
    have := b.toNat_lt
    simp only [leNat, List.length_cons, Nat.pow_succ]
    omega

theorem getLE64_toNat (p : List Byte) : (getLE64 p).toNat = leNat (p.take 8) := by
  match p with
  | [] => simp [getLE64, leNat]
  | [b0] => simp [getLE64, leNat]
  | [b0, b1] =>
    have h0 := b0.toNat_lt; have h1 := b1.toNat_lt
    simp [getLE64, leNat, UInt64.toNat_or, UInt64.toNat_shiftLeft]
    rw [shl_mod _ 8 (by omega) (by omega), or_shl _ _ 8 (by omega)]; omega
  | [b0, b1, b2] =>
    have h0 := b0.toNat_lt; have h1 := b1.toNat_lt; have h2 := b2.toNat_lt
    simp [getLE64, leNat, UInt64.toNat_or, UInt64.toNat_shiftLeft]
    rw [shl_mod _ 8 (by omega) (by omega), shl_mod _ 16 (by omega) (by omega),
      or_shl _ _ 8 (by omega), or_shl _ _ 16 (by omega)]; omega
  | [b0, b1, b2, b3] =>
    simp [getLE64, toNat_le32v]
  | [b0, b1, b2, b3, b4] =>
    have h := leNat_lt [b0, b1, b2, b3]
    have h4 := b4.toNat_lt
    simp [getLE64, toNat_le32v, UInt64.toNat_or, UInt64.toNat_shiftLeft] at h ⊢
    rw [shl_mod _ 32 (by omega) (by omega), or_shl _ _ 32 (by omega)]
    simp only [leNat]; omega
  | [b0, b1, b2, b3, b4, b5] =>
    have h := leNat_lt [b0, b1, b2, b3]
    have h4 := b4.toNat_lt; have h5 := b5.toNat_lt
    simp [getLE64, toNat_le32v, UInt64.toNat_or, UInt64.toNat_shiftLeft] at h ⊢
    rw [shl_mod _ 32 (by omega) (by omega), shl_mod _ 40 (by omega) (by omega),
      or_shl _ _ 32 (by omega), or_shl _ _ 40 (by omega)]
    simp only [leNat]; omega
  | [b0, b1, b2, b3, b4, b5, b6] =>
    have h := leNat_lt [b0, b1, b2, b3]
    have h4 := b4.toNat_lt; have h5 := b5.toNat_lt; have h6 := b6.toNat_lt
    simp [getLE64, toNat_le32v, UInt64.toNat_or, UInt64.toNat_shiftLeft] at h ⊢
    rw [shl_mod _ 32 (by omega) (by omega), shl_mod _ 40 (by omega) (by omega),
      shl_mod _ 48 (by omega) (by omega),
      or_shl _ _ 32 (by omega), or_shl _ _ 40 (by omega), or_shl _ _ 48 (by omega)]
    simp only [leNat]; omega
  | b0 :: b1 :: b2 :: b3 :: b4 :: b5 :: b6 :: b7 :: _ =>
    simp [getLE64, toNat_le64v]

theorem foldr_toNat : ∀ q : List Byte, q.length ≤ 8 →
    (q.foldr (fun (b : Byte) (acc : UInt64) => (acc <<< 8) ||| b.toUInt64) (0 : UInt64)).toNat = leNat q
  | [], _ => by simp [leNat]
  | b :: q, h => by
    have ih := foldr_toNat q (by simp at h; omega)
    have hlt := leNat_lt q
    have hb := b.toNat_lt
    have hpow : 256 ^ q.length ≤ 256 ^ 7 :=
      Nat.pow_le_pow_right (by decide) (by simp at h; omega)
    simp only [List.foldr_cons, UInt64.toNat_or, UInt64.toNat_shiftLeft, UInt8.toNat_toUInt64, ih,
      leNat]
    have e : (8 : UInt64).toNat % 64 = 8 := by decide
    rw [e, Nat.shiftLeft_eq, Nat.mod_eq_of_lt (by omega), ← Nat.shiftLeft_eq,
      ← Nat.shiftLeft_add_eq_or_of_lt (by omega : b.toNat < 2 ^ 8), Nat.shiftLeft_eq]
    omega

theorem le64At_toNat (p : List Byte) (i : Nat) :
    (le64At p i).toNat = leNat ((p.drop i).take 8) := by
  unfold le64At
  exact foldr_toNat _ (by simp only [List.length_take]; omega)


theorem le64_eq_some (p : List Byte) (h : 8 ≤ p.length) : le64 p = some (getLE64 p) := by
  match p, h with
  | b0 :: b1 :: b2 :: b3 :: b4 :: b5 :: b6 :: b7 :: _, _ => simp [le64, getLE64]

theorem le64_eq_none (p : List Byte) (h : p.length < 8) : le64 p = none := by
  match p, h with
  | [], _ | [_], _ | [_, _], _ | [_, _, _], _ | [_, _, _, _], _ | [_, _, _, _, _], _
  | [_, _, _, _, _, _], _ | [_, _, _, _, _, _, _], _ => simp [le64]
  | _ :: _ :: _ :: _ :: _ :: _ :: _ :: _ :: _, h => simp at h; omega

theorem leNat_append : ∀ a b : List Byte, leNat (a ++ b) = leNat a + 256 ^ a.length * leNat b
  | [], b => by simp [leNat]
  | x :: a, b => by
    simp only [List.cons_append, leNat, leNat_append a b, List.length_cons, Nat.pow_succ]
    rw [Nat.mul_add, Nat.mul_comm (256 ^ a.length) 256, Nat.mul_assoc]
    omega

theorem leNat_take (a : List Byte) (j : Nat) : leNat (a.take j) = leNat a % 256 ^ j := by
  by_cases h : j ≤ a.length
  · have e := leNat_append (a.take j) (a.drop j)
    rw [List.take_append_drop, List.length_take, Nat.min_eq_left h] at e
    have hlt := leNat_lt (a.take j)
    rw [List.length_take, Nat.min_eq_left h] at hlt
    rw [e, Nat.add_mul_mod_self_left, Nat.mod_eq_of_lt hlt]
  · have hlt := leNat_lt a
    have : 256 ^ a.length ≤ 256 ^ j := Nat.pow_le_pow_right (by decide) (by omega)
    rw [List.take_of_length_le (by omega), Nat.mod_eq_of_lt (by omega)]

theorem leNat_drop (a : List Byte) (j : Nat) : leNat (a.drop j) = leNat a / 256 ^ j := by
  by_cases h : j ≤ a.length
  · have e := leNat_append (a.take j) (a.drop j)
    rw [List.take_append_drop, List.length_take, Nat.min_eq_left h] at e
    have hlt := leNat_lt (a.take j)
    rw [List.length_take, Nat.min_eq_left h] at hlt
    have hpos : 0 < 256 ^ j := Nat.pow_pos (by decide)
    rw [e, Nat.add_mul_div_left _ _ hpos, Nat.div_eq_of_lt hlt, Nat.zero_add]
  · have hlt := leNat_lt a
    have : 256 ^ a.length ≤ 256 ^ j := Nat.pow_le_pow_right (by decide) (by omega)
    rw [List.drop_of_length_le (by omega), Nat.div_eq_of_lt (by omega)]; rfl

theorem leNat_inj : ∀ a b : List Byte, a.length = b.length → leNat a = leNat b → a = b
  | [], [], _, _ => rfl
  | [], _ :: _, h, _ => by simp at h
  | _ :: _, [], h, _ => by simp at h
  | x :: a, y :: b, h, e => by
    simp only [leNat] at e
    have hx := x.toNat_lt; have hy := y.toNat_lt
    have e1 : x.toNat = y.toNat := by omega
    have e2 : leNat a = leNat b := by omega
    rw [UInt8.toNat_inj.1 e1, leNat_inj a b (by simpa using h) e2]

theorem leNat_replicate_zero : ∀ n, leNat (List.replicate n (0 : Byte)) = 0
  | 0 => rfl
  | n + 1 => by simp [List.replicate_succ, leNat, leNat_replicate_zero n]

/-! ### bit counting -/

theorem ctz_spec : ∀ (w n k : Nat), k ≤ ctz w n ↔ k ≤ w ∧ n % 2 ^ k = 0
  | 0, n, k => by
    simp only [ctz, Nat.le_zero]
    constructor
    · rintro rfl; simp [Nat.mod_one]
    · exact fun h => h.1
  | w + 1, n, 0 => by simp [Nat.mod_one]
  | w + 1, n, k + 1 => by
    have hm : n % 2 ^ (k + 1) = n % 2 + 2 * (n / 2 % 2 ^ k) := by
      rw [Nat.pow_succ, Nat.mul_comm, Nat.mod_mul]
    simp only [ctz]
    split
    · omega
    · rw [Nat.add_le_add_iff_right, ctz_spec w (n / 2) k, hm]; omega

theorem bitLen_spec : ∀ (w n m : Nat), n < 2 ^ w → (bitLen w n ≤ m ↔ n < 2 ^ m)
  | 0, n, m, h => by
    have : 0 < 2 ^ m := Nat.pow_pos (by decide)
    simp only [bitLen]; simp at h; omega
  | w + 1, n, m, h => by
    simp only [bitLen]
    split
    · have : 0 < 2 ^ m := Nat.pow_pos (by decide)
      omega
    · cases m with
      | zero => simp; omega
      | succ m =>
        rw [Nat.add_le_add_iff_right, bitLen_spec w (n / 2) m (by rw [Nat.pow_succ] at h; omega),
          Nat.pow_succ]
        omega

theorem xor_eq_zero {a b : Nat} : a ^^^ b = 0 ↔ a = b := by
  constructor
  · intro h
    have : a ^^^ b ^^^ b = 0 ^^^ b := by rw [h]
    rwa [Nat.xor_assoc, Nat.xor_self, Nat.xor_zero, Nat.zero_xor] at this
  · rintro rfl; exact Nat.xor_self a

theorem ctz_le (w n : Nat) : ctz w n ≤ w := ((ctz_spec w n (ctz w n)).1 (Nat.le_refl _)).1

theorem tz64_spec (x : UInt64) (k : Nat) : k ≤ tz64 x ↔ k ≤ 64 ∧ x.toNat % 2 ^ k = 0 :=
  ctz_spec 64 x.toNat k

theorem tz32_spec (x : UInt32) (k : Nat) : k ≤ tz32 x ↔ k ≤ 32 ∧ x.toNat % 2 ^ k = 0 :=
  ctz_spec 32 x.toNat k

theorem lz64_spec (x : UInt64) (k : Nat) : k ≤ lz64 x ↔ k ≤ 64 ∧ x.toNat < 2 ^ (64 - k) := by
  have hx : x.toNat < 2 ^ 64 := x.toNat_lt
  have h64 := (bitLen_spec 64 x.toNat 64 hx).2 hx
  have := bitLen_spec 64 x.toNat (64 - k) hx
  unfold lz64
  omega

/-! ## Part D: one word -/

theorem two_pow_mul8 (j : Nat) : 2 ^ (j * 8) = 256 ^ j := by
  rw [Nat.mul_comm, Nat.pow_mul]

/-- the core: `tz(x ^ y) / 8` counts the common low bytes -/
theorem le_tz64_xor_iff (x y : UInt64) (j : Nat) :
    j ≤ tz64 (x ^^^ y) / 8 ↔ j ≤ 8 ∧ x.toNat % 256 ^ j = y.toNat % 256 ^ j := by
  rw [Nat.le_div_iff_mul_le (by decide), tz64_spec, UInt64.toNat_xor, Nat.xor_mod_two_pow,
    xor_eq_zero, two_pow_mul8]
  omega

theorem le_tz32_xor_iff (x y : UInt32) (j : Nat) :
    j ≤ tz32 (x ^^^ y) / 8 ↔ j ≤ 4 ∧ x.toNat % 256 ^ j = y.toNat % 256 ^ j := by
  rw [Nat.le_div_iff_mul_le (by decide), tz32_spec, UInt32.toNat_xor, Nat.xor_mod_two_pow,
    xor_eq_zero, two_pow_mul8]
  omega

/-- `lz(x ^ y) / 8` counts the common high bytes -/
theorem le_lz64_xor_iff (x y : UInt64) (j : Nat) :
    j ≤ lz64 (x ^^^ y) / 8 ↔ j ≤ 8 ∧ x.toNat / 256 ^ (8 - j) = y.toNat / 256 ^ (8 - j) := by
  rw [Nat.le_div_iff_mul_le (by decide), lz64_spec, UInt64.toNat_xor]
  constructor
  · rintro ⟨h1, h2⟩
    have e : 64 - j * 8 = (8 - j) * 8 := by omega
    rw [e, two_pow_mul8, ← Nat.div_eq_zero_iff_lt (Nat.pow_pos (by decide)),
      ← two_pow_mul8, Nat.xor_div_two_pow, xor_eq_zero, two_pow_mul8] at h2
    exact ⟨by omega, h2⟩
  · rintro ⟨h1, h2⟩
    have e : 64 - j * 8 = (8 - j) * 8 := by omega
    rw [e, two_pow_mul8, ← Nat.div_eq_zero_iff_lt (Nat.pow_pos (by decide)),
      ← two_pow_mul8, Nat.xor_div_two_pow, xor_eq_zero, two_pow_mul8]
    exact ⟨by omega, h2⟩

theorem take_eq_of_leNat {a b : List Byte} {j : Nat} (ha : j ≤ a.length) (hb : j ≤ b.length)
    (h : leNat a % 256 ^ j = leNat b % 256 ^ j) : a.take j = b.take j := by
  rw [← leNat_take, ← leNat_take] at h
  exact leNat_inj _ _ (by simp only [List.length_take]; omega) h

/-- general form for words holding the little-endian values of arbitrary byte strings
    (shorter than 8 bytes: zero-extended) -/
theorem tz64_xor_leNat (x y : UInt64) (a b : List Byte)
    (hx : x.toNat = leNat a) (hy : y.toNat = leNat b) :
    min (min a.length b.length) (tz64 (x ^^^ y) / 8) = min 8 (lcpLen a b) := by
  apply eq_of_le_iff
  intro j
  rw [Nat.le_min, Nat.le_min, Nat.le_min, le_tz64_xor_iff, le_lcpLen_iff, hx, hy]
  constructor
  · rintro ⟨⟨h1, h2⟩, h3, h4⟩
    exact ⟨h3, h1, h2, take_eq_of_leNat h1 h2 h4⟩
  · rintro ⟨h3, h1, h2, h4⟩
    refine ⟨⟨h1, h2⟩, h3, ?_⟩
    rw [← leNat_take, ← leNat_take, h4]

theorem tz32_xor_leNat (x y : UInt32) (a b : List Byte)
    (hx : x.toNat = leNat a) (hy : y.toNat = leNat b) :
    min (min a.length b.length) (tz32 (x ^^^ y) / 8) = min 4 (lcpLen a b) := by
  apply eq_of_le_iff
  intro j
  rw [Nat.le_min, Nat.le_min, Nat.le_min, le_tz32_xor_iff, le_lcpLen_iff, hx, hy]
  constructor
  · rintro ⟨⟨h1, h2⟩, h3, h4⟩
    exact ⟨h3, h1, h2, take_eq_of_leNat h1 h2 h4⟩
  · rintro ⟨h3, h1, h2, h4⟩
    refine ⟨⟨h1, h2⟩, h3, ?_⟩
    rw [← leNat_take, ← leNat_take, h4]

theorem tz64_div8_le (x : UInt64) : tz64 x / 8 ≤ 8 := by
  have := ctz_le 64 x.toNat; unfold tz64; omega

theorem tz32_div8_le (x : UInt32) : tz32 x / 8 ≤ 4 := by
  have := ctz_le 32 x.toNat; unfold tz32; omega

theorem lz64_div8_le (x : UInt64) : lz64 x / 8 ≤ 8 := by
  unfold lz64; omega

/-- words holding exactly 8 bytes: leading zero bytes of the xor = common suffix -/
theorem lz64_xor_leNat (x y : UInt64) (a b : List Byte)
    (hx : x.toNat = leNat a) (hy : y.toNat = leNat b) (ha : a.length = 8) (hb : b.length = 8) :
    lz64 (x ^^^ y) / 8 = lcsLen a b := by
  apply eq_of_le_iff
  intro j
  rw [le_lz64_xor_iff, le_lcsLen_iff, hx, hy, ← leNat_drop, ← leNat_drop, ha, hb]
  constructor
  · rintro ⟨h1, h2⟩
    exact ⟨h1, h1, leNat_inj _ _ (by simp only [List.length_drop]; omega) h2⟩
  · rintro ⟨h1, _, h2⟩
    exact ⟨h1, by rw [h2]⟩


/-! ## Part E: the loops of `lcp` -/

theorem le32_eq_some (p : List Byte) (h : 4 ≤ p.length) :
    ∃ x, le32 p = some x ∧ x.toNat = leNat (p.take 4) := by
  match p, h with
  | b0 :: b1 :: b2 :: b3 :: _, _ => exact ⟨_, rfl, by simp [toNat_le32v]⟩

theorem le64_eq_some' (p : List Byte) (h : 8 ≤ p.length) :
    ∃ x, le64 p = some x ∧ x.toNat = leNat (p.take 8) :=
  ⟨_, le64_eq_some p h, getLE64_toNat p⟩

theorem sliceFrom_eq_some (p : List Byte) (i : Nat) (h : i ≤ p.length) :
    sliceFrom p i = some (p.drop i) := by simp [sliceFrom, h]

/-- one 8-byte step: the word comparison gives the common prefix of the first 8 bytes -/
theorem tz64_xor_take8 (x y : UInt64) (p q : List Byte) (hp : 8 ≤ p.length) (hq : 8 ≤ q.length)
    (hx : x.toNat = leNat (p.take 8)) (hy : y.toNat = leNat (q.take 8)) :
    tz64 (x ^^^ y) / 8 = min 8 (lcpLen p q) := by
  have := tz64_xor_leNat x y _ _ hx hy
  have h8 := tz64_div8_le (x ^^^ y)
  rw [lcpLen_take] at this
  simp only [List.length_take] at this
  omega

theorem tz32_xor_take4 (x y : UInt32) (p q : List Byte) (hp : 4 ≤ p.length) (hq : 4 ≤ q.length)
    (hx : x.toNat = leNat (p.take 4)) (hy : y.toNat = leNat (q.take 4)) :
    tz32 (x ^^^ y) / 8 = min 4 (lcpLen p q) := by
  have := tz32_xor_leNat x y _ _ hx hy
  have h8 := tz32_div8_le (x ^^^ y)
  rw [lcpLen_take] at this
  simp only [List.length_take] at this
  omega

theorem lcpBytes_eq : ∀ (p q : List Byte) (n : Nat), q.length ≤ p.length →
    lcpBytes p q n = some (n + lcpLen p q)
  | p, [], n, _ => by simp [lcpBytes, lcpLen_nil_right]
  | [], _ :: _, _, h => by simp at h
  | a :: p, b :: q, n, h => by
    rw [lcpBytes, lcpLen_cons]
    by_cases e : a = b
    · subst e
      rw [if_neg (by simp), lcpBytes_eq p q (n + 1) (by simpa using h)]
      simp; omega
    · simp [e]

theorem lcpTail_eq (p q : List Byte) (n : Nat) (h : q.length ≤ p.length) :
    lcpTail p q n = some (n + lcpLen p q) := by
  unfold lcpTail
  split
  · next h4 =>
    obtain ⟨x, hx, hxv⟩ := le32_eq_some p (by omega)
    obtain ⟨y, hy, hyv⟩ := le32_eq_some q h4
    have hk := tz32_xor_take4 x y p q (by omega) h4 hxv hyv
    have hs := lcpLen_split 4 p q (by omega) h4
    rw [lcpLen_take, ← hk] at hs
    simp only [hx, hy, sliceFrom_eq_some p 4 (by omega), sliceFrom_eq_some q 4 h4,
      Nat.shiftRight_eq_div_pow, bind, Option.bind, pure]
    show (if tz32 (x ^^^ y) / 8 < 4 then _ else _) = _
    split
    · next hlt => rw [if_pos hlt] at hs; rw [hs]
    · next hlt =>
      rw [if_neg hlt] at hs
      rw [lcpBytes_eq _ _ _ (by simp only [List.length_drop]; omega), hs]
      have := tz32_div8_le (x ^^^ y)
      congr 1; omega
  · exact lcpBytes_eq p q n h

theorem lcpLoop_eq (p q : List Byte) (n : Nat) (h : q.length ≤ p.length) :
    lcpLoop p q n = some (n + lcpLen p q) := by
  induction hl : q.length using Nat.strongRecOn generalizing p q n with
  | _ l ih =>
    subst hl
    rw [lcpLoop]
    split
    · next h8 =>
      obtain ⟨x, hx, hxv⟩ := le64_eq_some' p (by omega)
      obtain ⟨y, hy, hyv⟩ := le64_eq_some' q h8
      have hk := tz64_xor_take8 x y p q (by omega) h8 hxv hyv
      have hs := lcpLen_split 8 p q (by omega) h8
      rw [lcpLen_take, ← hk] at hs
      simp only [hx, hy, sliceFrom_eq_some p 8 (by omega),
        Nat.shiftRight_eq_div_pow, bind, Option.bind, pure]
      show (if tz64 (x ^^^ y) / 8 < 8 then _ else _) = _
      split
      · next hlt => rw [if_pos hlt] at hs; rw [hs]
      · next hlt =>
        rw [if_neg hlt] at hs
        rw [ih (q.drop 8).length (by simp only [List.length_drop]; omega) _ _ _
          (by simp only [List.length_drop]; omega) rfl, hs]
        have := tz64_div8_le (x ^^^ y)
        congr 1; omega
    · exact lcpTail_eq p q n h


/-! ## Part F: `lcs` -/

theorem shl64_toNat (v : UInt64) (s : Nat) (hs : s < 64) :
    (shl64 v s).toNat = v.toNat * 2 ^ s % 2 ^ 64 := by
  unfold shl64
  rw [if_pos hs, UInt64.toNat_shiftLeft, UInt64.toNat_ofNat', Nat.shiftLeft_eq]
  have : s % 2 ^ 64 % 64 = s := by omega
  rw [this]

/-- `getLE64(q) << ((8-c)*8)`: the first `c` bytes of `q` moved to the top of the word -/
theorem shl64_getLE64_toNat (q : List Byte) (c : Nat) (hc0 : 0 < c) (hc8 : c < 8) :
    (shl64 (getLE64 q) ((8 - c) * 8)).toNat =
      leNat (List.replicate (8 - c) (0 : Byte) ++ q.take c) := by
  rw [shl64_toNat _ _ (by omega), getLE64_toNat, two_pow_mul8, leNat_append,
    leNat_replicate_zero, List.length_replicate, Nat.zero_add]
  have e : (2 : Nat) ^ 64 = 256 ^ c * 256 ^ (8 - c) := by
    rw [← Nat.pow_add]; have : c + (8 - c) = 8 := by omega
    rw [this]
  rw [e, Nat.mul_mod_mul_right, ← leNat_take, List.take_take, Nat.min_eq_left (by omega),
    Nat.mul_comm]

theorem lcsLen_self (a : List Byte) : lcsLen a a = a.length := by
  apply eq_of_le_iff; intro j; rw [le_lcsLen_iff]; simp

theorem lcsTail_eq (p q : List Byte) (i : Int) (n : Nat) (hlen : p.length = q.length)
    (hi0 : 0 ≤ i) (hi8 : i < 8) (hiq : i ≤ q.length) :
    lcsTail p q i n = some (n + lcsLen (p.take i.toNat) (q.take i.toNat)) := by
  unfold lcsTail
  obtain ⟨c, rfl⟩ := Int.eq_ofNat_of_zero_le hi0
  simp only [Int.toNat_natCast]
  split
  · next hpos =>
    have hs : ((8 : Int) - (c : Int)).toNat <<< 3 = (8 - c) * 8 := by
      rw [Nat.shiftLeft_eq]; omega
    have hx := shl64_getLE64_toNat q c (by omega) (by omega)
    have hy := shl64_getLE64_toNat p c (by omega) (by omega)
    have hk := lz64_xor_leNat _ _ _ _ hx hy
      (by simp only [List.length_append, List.length_replicate, List.length_take]; omega)
      (by simp only [List.length_append, List.length_replicate, List.length_take]; omega)
    rw [lcsLen_append _ _ _ _ (by simp only [List.length_take]; omega), lcsLen_self,
      List.length_replicate, List.length_take, Nat.min_eq_left (by omega),
      lcsLen_comm (q.take c)] at hk
    have hle := lcsLen_le_left (p.take c) (q.take c)
    rw [List.length_take] at hle
    simp only [hs, Nat.shiftRight_eq_div_pow]
    rw [show (2:Nat)^3 = 8 from rfl]
    generalize lz64 _ / 8 = k at hk ⊢
    generalize lcsLen (p.take c) (q.take c) = L at hk hle ⊢
    congr 2
    split at hk <;> split <;> omega
  · next hpos =>
    have : c = 0 := by omega
    subst this
    simp [lcsLen, lcpLen]

theorem lcsLoop_eq (p q : List Byte) (i : Int) (n : Nat) (hlen : p.length = q.length)
    (hlo : -8 ≤ i) (hhi : i + 8 ≤ q.length) :
    lcsLoop p q i n = some (n + lcsLen (p.take (i + 8).toNat) (q.take (i + 8).toNat)) := by
  induction hl : (i + 8).toNat using Nat.strongRecOn generalizing i n with
  | _ l ih =>
    subst hl
    rw [lcsLoop]
    split
    · next h0 =>
      obtain ⟨t, rfl⟩ := Int.eq_ofNat_of_zero_le h0
      have e1 : ((t : Int) + 8).toNat = t + 8 := by omega
      have e2 : ((t : Int) - 8 + 8).toNat = t := by omega
      simp only [Int.toNat_natCast, e1]
      have htq : t + 8 ≤ q.length := by omega
      obtain ⟨x, hx, hxv⟩ := le64_eq_some' (p.drop t) (by simp only [List.length_drop]; omega)
      obtain ⟨y, hy, hyv⟩ := le64_eq_some' (q.drop t) (by simp only [List.length_drop]; omega)
      have hk := lz64_xor_leNat x y _ _ hxv hyv
        (by simp only [List.length_take, List.length_drop]; omega)
        (by simp only [List.length_take, List.length_drop]; omega)
      have hp : p.take (t + 8) = p.take t ++ (p.drop t).take 8 := List.take_add
      have hq : q.take (t + 8) = q.take t ++ (q.drop t).take 8 := List.take_add
      have hs := lcsLen_append (p.take t) (q.take t) ((p.drop t).take 8) ((q.drop t).take 8)
        (by simp only [List.length_take, List.length_drop]; omega)
      rw [← hp, ← hq, ← hk, List.length_take, List.length_drop,
        Nat.min_eq_left (by omega)] at hs
      simp only [sliceFrom_eq_some p t (by omega), sliceFrom_eq_some q t (by omega), hx, hy,
        Nat.shiftRight_eq_div_pow, bind, Option.bind, pure]
      show (if lz64 (x ^^^ y) / 8 < 8 then _ else _) = _
      split
      · next hlt => rw [if_pos hlt] at hs; rw [hs]
      · next hlt =>
        rw [if_neg hlt] at hs
        rw [ih _ (by omega) ((t : Int) - 8) _ (by omega) (by omega) rfl, hs, e2]
        have := lz64_div8_le (x ^^^ y)
        congr 1; omega
    · next h0 =>
      rw [lcsTail_eq p q (i + 8) n hlen (by omega) (by omega) (by omega)]

theorem lcsMain_eq (p q : List Byte) (h : q.length ≤ p.length) :
    lcsMain p q = some (lcsLen p q) := by
  unfold lcsMain
  rw [sliceFrom_eq_some _ _ (by omega)]
  simp only [bind, Option.bind]
  rw [lcsLoop_eq _ q _ 0 (by simp only [List.length_drop]; omega) (by omega) (by omega)]
  have e : ((q.length : Int) - 8 + 8).toNat = q.length := by omega
  rw [e, List.take_of_length_le (by simp only [List.length_drop]; omega),
    List.take_of_length_le (Nat.le_refl _), lcsLen_drop_left _ _ h, Nat.zero_add]


/-! ## Part G: the inlined match length of the hash parsers -/

/-- a window that lies inside `p` does not see the memory behind `p` -/
theorem window_eq (p behind : List Byte) (e j t : Nat) (h1 : j + t ≤ p.length) (h2 : j + t ≤ e) :
    (((p ++ behind).take e).drop j).take t = (p.drop j).take t := by
  rw [List.take_drop, List.take_take, Nat.min_eq_left h2, List.take_append_of_le_length h1,
    ← List.take_drop]

theorem matchExtTail_eq (r q : List Byte) (k : Nat) (h : q.length ≤ r.length) (h8 : q.length < 8) :
    matchExtTail r q k = k + lcpLen r q := by
  unfold matchExtTail
  split
  · have hk := tz64_xor_leNat _ _ _ _ (getLE64_toNat r) (getLE64_toNat q)
    rw [lcpLen_take] at hk
    simp only [List.length_take] at hk
    have := lcpLen_le_right r q
    simp only [Nat.shiftRight_eq_div_pow]
    rw [show (2:Nat)^3 = 8 from rfl]
    generalize tz64 _ / 8 = b at hk ⊢
    split <;> omega
  · have : q = [] := List.eq_nil_of_length_eq_zero (by omega)
    subst this; rw [lcpLen_nil_right]; rfl

theorem matchExtLoop_eq (r q : List Byte) (k : Nat) (h : q.length ≤ r.length) :
    matchExtLoop r q k = some (k + lcpLen r q) := by
  induction hl : q.length using Nat.strongRecOn generalizing r q k with
  | _ l ih =>
    subst hl
    rw [matchExtLoop]
    split
    · next h8 =>
      obtain ⟨x, hx, hxv⟩ := le64_eq_some' r (by omega)
      obtain ⟨y, hy, hyv⟩ := le64_eq_some' q h8
      have hk := tz64_xor_take8 x y r q (by omega) h8 hxv hyv
      have hs := lcpLen_split 8 r q (by omega) h8
      rw [lcpLen_take, ← hk] at hs
      simp only [hx, hy, sliceFrom_eq_some r 8 (by omega),
        Nat.shiftRight_eq_div_pow, bind, Option.bind, pure]
      show (if tz64 (x ^^^ y) / 8 < 8 then _ else _) = _
      split
      · next hlt => rw [if_pos hlt] at hs; rw [hs]
      · next hlt =>
        rw [if_neg hlt] at hs
        rw [ih (q.drop 8).length (by simp only [List.length_drop]; omega) _ _ _
          (by simp only [List.length_drop]; omega) rfl, hs]
        have := tz64_div8_le (x ^^^ y)
        congr 1; omega
    · rw [matchExtTail_eq r q k h (by omega)]

/-- the first word, clamped to the block end: `min 8` of the true match length, whatever lies
    behind `p` -/
theorem matchLen8_eq (p behind : List Byte) (e i j : Nat) (hj : j ≤ i) (hi : i + 8 ≤ e)
    (hip : i ≤ p.length) (hcap : e ≤ (p ++ behind).length) :
    matchLen8 ((p ++ behind).take e) p i j = some (min 8 (lcpLen (p.drop j) (p.drop i))) := by
  unfold matchLen8
  have hlen : ((p ++ behind).take e).length = e := by rw [List.length_take]; omega
  obtain ⟨y, hy, hyv⟩ := le64_eq_some' (((p ++ behind).take e).drop i)
    (by rw [List.length_drop, hlen]; omega)
  obtain ⟨x, hx, hxv⟩ := le64_eq_some' (((p ++ behind).take e).drop j)
    (by rw [List.length_drop, hlen]; omega)
  have hk := tz64_xor_leNat x y _ _ hxv hyv
  have hb := tz64_div8_le (x ^^^ y)
  have ha : ((((p ++ behind).take e).drop j).take 8).length = 8 := by
    rw [List.length_take, List.length_drop, hlen]; omega
  have hb' : ((((p ++ behind).take e).drop i).take 8).length = 8 := by
    rw [List.length_take, List.length_drop, hlen]; omega
  have hl8 := lcpLen_le_left ((((p ++ behind).take e).drop j).take 8)
    ((((p ++ behind).take e).drop i).take 8)
  rw [ha] at hl8
  rw [ha, hb', Nat.min_self, Nat.min_eq_right hb, Nat.min_eq_right hl8] at hk
  simp only [sliceFrom_eq_some _ i (by omega : i ≤ ((p ++ behind).take e).length),
    sliceFrom_eq_some _ j (by omega : j ≤ ((p ++ behind).take e).length), hx, hy,
    Nat.shiftRight_eq_div_pow, bind, Option.bind, pure]
  rw [show (2:Nat)^3 = 8 from rfl, hk]
  congr 1
  -- both sides are characterised by the same `t ≤ …`
  have hmin : ∀ a b : Nat, (if a > b then b else a) = min a b := by intro a b; split <;> omega
  rw [hmin]
  apply eq_of_le_iff
  intro t
  rw [Nat.le_min, Nat.le_min, le_lcpLen_iff, le_lcpLen_iff]
  simp only [List.length_take, List.length_drop, hlen, List.take_take]
  constructor
  · rintro ⟨⟨h1, h2, h3⟩, h4⟩
    have ht8 : t ≤ 8 := by omega
    rw [Nat.min_eq_left ht8, window_eq p behind e j t (by omega) (by omega),
      window_eq p behind e i t (by omega) (by omega)] at h3
    exact ⟨ht8, by omega, by omega, h3⟩
  · rintro ⟨ht8, h1, h2, h3⟩
    refine ⟨⟨by omega, by omega, ?_⟩, by omega⟩
    rw [Nat.min_eq_left ht8, window_eq p behind e j t (by omega) (by omega),
      window_eq p behind e i t (by omega) (by omega)]
    exact h3

theorem matchExt_eq (p : List Byte) (i j : Nat) (hj : j ≤ i) :
    matchExt p i j (min 8 (lcpLen (p.drop j) (p.drop i))) =
      some (lcpLen (p.drop j) (p.drop i)) := by
  unfold matchExt
  have hr := lcpLen_le_right (p.drop j) (p.drop i)
  rw [List.length_drop] at hr
  split
  · next h8 =>
    have h8' : 8 ≤ lcpLen (p.drop j) (p.drop i) := by omega
    rw [sliceFrom_eq_some p (j + 8) (by omega), sliceFrom_eq_some p (i + 8) (by omega)]
    simp only [bind, Option.bind]
    rw [h8, matchExtLoop_eq _ _ _ (by simp only [List.length_drop]; omega),
      lcpLen_drop 8 _ _ h8', List.drop_drop, List.drop_drop]
  · next h8 =>
    congr 1; omega

theorem sliceTo_eq_some (p behind : List Byte) (n : Nat) (h : n ≤ (p ++ behind).length) :
    sliceTo p behind n = some ((p ++ behind).take n) := by
  unfold sliceTo; rw [if_pos h]

end LZ.BytesW
