/-
  LzProofs.GenPropsCfgGSAP — the parser configuration GSAPConfig (SetDefaults / Verify through the
  reflective helpers, which appear in the generated code as the field copies the extractor read
  from their source).  `ofGSAP` reads the generated struct as the model's union record `Cfg`
  (fields the kind does not have are zero), `toGSAP` is the inverse on `Cfg.restrict .GSAP`.
    G16 gen_setDefaults_GSAP   G17 gen_verify_GSAP (+ gen_verify_GSAP_errors)   G18 gen_accepted_GSAP
  Part of the split of the former LzProofs/GenProps.lean: "the hand-written model equals the
  code that `tools/extract -code` regenerates from the Go source".  The generated code is
  emitted per topic (LzModel/Generated/Code<Topic>.lean); this file only imports the topic it
  talks about, so a Go function the translator refuses takes down this file and nothing else.
  Every theorem quantifies over ALL inputs; Go `int`/`int64` are unbounded `Int` on both sides
  (overflow is out of scope), `uint32`/`uint64` wrap around.  All names live in `LZ.GenProps`.
  The proofs are written against the MEANING of the generated functions (unfold, split every
  `if`, decide linear arithmetic), not against the shape of the generated term, so that
  behaviour-preserving rewrites of the Go source (De Morgan, swapped arms, reordered defaults,
  `x+x` for `2*x`, …) do not break them.
-/
import LzModel.Generated.CodeCfgGSAP
import LzProofs.GenPropsCfgBuf

set_option linter.unusedSimpArgs false

namespace LZ.GenProps
open LZ

def ofGSAP (c : Gen.GSAPConfig) : Cfg :=
  { shrinkSize := c.ShrinkSize, bufferSize := c.BufferSize, windowSize := c.WindowSize,
    blockSize := c.BlockSize,
    minMatchLen := c.MinMatchLen }

def toGSAP (c : Cfg) : Gen.GSAPConfig :=
  { ShrinkSize := c.shrinkSize, BufferSize := c.bufferSize, WindowSize := c.windowSize,
    BlockSize := c.blockSize,
    MinMatchLen := c.minMatchLen }

theorem ofGSAP_toGSAP (c : Cfg) : ofGSAP (toGSAP c) = c.restrict .GSAP := by
  simp [ofGSAP, toGSAP, Cfg.restrict, Kind.fields]

theorem toGSAP_ofGSAP (c : Gen.GSAPConfig) : toGSAP (ofGSAP c) = c := rfl

theorem gen_setDefaults_GSAP (c : Gen.GSAPConfig) :
    ofGSAP (Gen.GSAPConfig_SetDefaults c) = setDefaults .GSAP (ofGSAP c) := by
  have e : setDefaults .GSAP (ofGSAP c) = { bufDefaults (ofGSAP c) with
      minMatchLen := if c.MinMatchLen = 0 then Facts.defMinMatchLen else c.MinMatchLen } := rfl
  rw [e]
  simp only [Gen.GSAPConfig_SetDefaults, gen_helper, gen_bufDefaults']
  repeat' split
  all_goals simp only [ofGSAP, Cfg.mk.injEq]
  all_goals repeat' apply And.intro
  all_goals gen_close

theorem gen_verify_GSAP (c : Gen.GSAPConfig) :
    Gen.GSAPConfig_Verify c = .ok ↔ verify .GSAP (ofGSAP c) = true := by
  have hb : bufVerify (ofGSAP c) = true ↔
      Gen.BufConfig_Verify ⟨c.ShrinkSize, c.BufferSize, c.WindowSize, c.BlockSize⟩ = .ok := by
    rw [gen_bufVerify]; rfl
  simp only [verify, Bool.and_eq_true, decide_eq_true_eq, hb]
  simp only [Gen.GSAPConfig_Verify, gen_helper, ofGSAP, Facts.maxInt32]
  gen_cases

/-- G17 which check of `GSAPConfig.Verify` fails (the three checks after the buffer check) -/
theorem gen_verify_GSAP_errors (c : Gen.GSAPConfig)
    (hb : Gen.BufConfig_Verify ⟨c.ShrinkSize, c.BufferSize, c.WindowSize, c.BlockSize⟩ = .ok) :
    (Gen.GSAPConfig_Verify c = .error 1 ↔ ¬(2 ≤ c.MinMatchLen)) ∧
    (Gen.GSAPConfig_Verify c = .error 2 ↔ 2 ≤ c.MinMatchLen ∧ ¬(c.MinMatchLen ≤ c.WindowSize)) ∧
    (Gen.GSAPConfig_Verify c = .error 3 ↔
      2 ≤ c.MinMatchLen ∧ c.MinMatchLen ≤ c.WindowSize ∧ ¬(c.WindowSize ≤ 2147483647)) := by
  simp only [Gen.GSAPConfig_Verify, gen_helper, hb]
  refine ⟨?_, ?_, ?_⟩
  all_goals repeat' split
  all_goals simp only [reduceCtorEq, Gen.Err.error.injEq, false_iff, true_iff, ne_eq, not_true_eq_false] at *
  all_goals omega

theorem gen_accepted_GSAP (c : Cfg) :
    accepted .GSAP c = true ↔ Gen.GSAPConfig_Verify (Gen.GSAPConfig_SetDefaults (toGSAP c)) = .ok := by
  rw [gen_verify_GSAP, gen_setDefaults_GSAP, ofGSAP_toGSAP]; rfl

end LZ.GenProps
