/-
  LzProofs.SuffixLemmas — `IsSuffixArray`, the specification `saSpec`, uniqueness,
  the linear checker `checkSA`, and `invertSA`.
-/
import LzProofs.Lex
namespace LZ

/-- `sa` is the suffix array of `t`: a permutation of the positions `0 … |t|-1` whose
    suffixes are in (pairwise) lexicographic order.  Because different suffixes of one text are
    different strings, the order is automatically strict (`IsSuffixArray.strict`). -/
def IsSuffixArray (t : List Byte) (sa : List Nat) : Prop :=
  sa.Perm (List.range t.length) ∧
  sa.Pairwise (fun i j => lexLe (t.drop i) (t.drop j) = true)

namespace IsSuffixArray
variable {t : List Byte} {sa : List Nat}

theorem length_eq (h : IsSuffixArray t sa) : sa.length = t.length := by
  simpa using h.1.length_eq

theorem mem_iff (h : IsSuffixArray t sa) (i : Nat) : i ∈ sa ↔ i < t.length := by
  simpa using h.1.mem_iff (a := i)

theorem nodup (h : IsSuffixArray t sa) : sa.Nodup :=
  (h.1.nodup_iff).2 List.nodup_range

theorem getElem_lt (h : IsSuffixArray t sa) (k : Nat) (hk : k < sa.length) : sa[k] < t.length :=
  (h.mem_iff _).1 (List.getElem_mem hk)

theorem getElem_inj (h : IsSuffixArray t sa) {a b : Nat} (ha : a < sa.length) (hb : b < sa.length)
    (e : sa[a] = sa[b]) : a = b :=
  (List.getElem_inj h.nodup).1 e

/-- ranks are ordered like their suffixes -/
theorem mono (h : IsSuffixArray t sa) {a b : Nat} (hab : a ≤ b) (hb : b < sa.length) :
    lexLe (t.drop (sa[a]'(by omega))) (t.drop sa[b]) = true := by
  by_cases e : a = b
  · subst e; exact lexLe_refl _
  · exact (List.pairwise_iff_getElem.1 h.2) a b (by omega) hb (by omega)

/-- … strictly -/
theorem strict (h : IsSuffixArray t sa) {a b : Nat} (hab : a < b) (hb : b < sa.length) :
    lexLe (t.drop sa[b]) (t.drop (sa[a]'(by omega))) = false := by
  have ha : a < sa.length := by omega
  apply not_lexLe_of_lexLe_ne (h.mono (Nat.le_of_lt hab) hb)
  apply drop_ne_of_ne (Nat.le_of_lt (h.getElem_lt a ha)) (Nat.le_of_lt (h.getElem_lt b hb))
  intro e
  have := h.getElem_inj ha hb e
  omega

/-- the order of two suffixes decides the order of their ranks -/
theorem rank_le_of_lexLe (h : IsSuffixArray t sa) {a b : Nat} (ha : a < sa.length)
    (hb : b < sa.length) (hle : lexLe (t.drop sa[a]) (t.drop sa[b]) = true) : a ≤ b := by
  rcases Nat.lt_or_ge b a with hlt | hge
  · have := h.strict hlt ha
    rw [this] at hle; exact absurd hle (by simp)
  · exact hge

end IsSuffixArray

/-! ### adjacent formulation and the linear checker -/

/-- pigeonhole: a duplicate-free list contained in a list of the same length is a permutation of it -/
theorem perm_of_nodup_subset_length : ∀ {l m : List Nat}, l.Nodup → (∀ x ∈ l, x ∈ m) →
    l.length = m.length → l.Perm m
  | [], m, _, _, hl => by
    have : m = [] := List.eq_nil_of_length_eq_zero hl.symm
    subst this; exact List.Perm.refl _
  | a :: l, m, hn, hs, hl => by
    have ham : a ∈ m := hs a List.mem_cons_self
    have hn' := List.nodup_cons.1 hn
    have ih := perm_of_nodup_subset_length (l := l) (m := m.erase a) hn'.2
      (fun x hx => by
        have hxm := hs x (List.mem_cons_of_mem _ hx)
        have hne : x ≠ a := fun e => hn'.1 (e ▸ hx)
        exact (List.mem_erase_of_ne hne).2 hxm)
      (by rw [List.length_erase_of_mem ham]; simp at hl; omega)
    exact (List.Perm.cons a ih).trans (List.perm_cons_erase ham).symm

theorem isPerm_iff (n : Nat) (sa : List Nat) : isPerm n sa = true ↔ sa.Perm (List.range n) := by
  simp only [isPerm, Bool.and_eq_true, beq_iff_eq, List.all_eq_true, List.mem_range,
    List.contains_iff_mem]
  constructor
  · rintro ⟨hl, hall⟩
    exact (perm_of_nodup_subset_length List.nodup_range (fun x hx => hall x (List.mem_range.1 hx))
      (by simp [hl])).symm
  · intro hp
    refine ⟨by simpa using hp.length_eq, fun i hi => ?_⟩
    exact hp.mem_iff.2 (List.mem_range.2 hi)

/-- adjacent entries are strictly increasing (as suffixes) -/
def AdjSorted (t : List Byte) (sa : List Nat) : Prop :=
  ∀ k (hk : k + 1 < sa.length),
    lexLe (t.drop (sa[k]'(by omega))) (t.drop sa[k+1]) = true ∧ sa[k]'(by omega) ≠ sa[k+1]

theorem sortedSuffixes_iff (t : List Byte) : ∀ sa : List Nat,
    sortedSuffixes t sa = true ↔ AdjSorted t sa
  | [] => by simp [sortedSuffixes, AdjSorted]
  | [a] => by simp [sortedSuffixes, AdjSorted]
  | a :: b :: rest => by
    have ih := sortedSuffixes_iff t (b :: rest)
    simp only [sortedSuffixes, Bool.and_eq_true, ih, AdjSorted, bne_iff_ne, ne_eq]
    constructor
    · rintro ⟨⟨h1, h2⟩, h3⟩ k hk
      cases k with
      | zero => exact ⟨h1, h2⟩
      | succ k => exact h3 k (by simpa using hk)
    · intro h
      refine ⟨h 0 (by simp), fun k hk => ?_⟩
      exact h (k+1) (by simpa using hk)

/-- a chain w.r.t. a transitive relation is pairwise related -/
theorem pairwise_of_adjacent {R : Nat → Nat → Prop} (tr : ∀ a b c, R a b → R b c → R a c) :
    ∀ (l : List Nat), (∀ k (hk : k + 1 < l.length), R (l[k]'(by omega)) l[k+1]) → l.Pairwise R
  | [], _ => List.Pairwise.nil
  | [a], _ => by simp
  | a :: b :: rest, h => by
    have ih := pairwise_of_adjacent tr (b :: rest) (fun k hk => h (k+1) (by simpa using hk))
    refine List.Pairwise.cons ?_ ih
    have hab : R a b := h 0 (by simp)
    intro x hx
    rcases List.mem_cons.1 hx with e | hx'
    · exact e ▸ hab
    · exact tr _ _ _ hab ((List.pairwise_cons.1 ih).1 x hx')

theorem isSuffixArray_iff_adjacent (t : List Byte) (sa : List Nat) :
    IsSuffixArray t sa ↔ sa.Perm (List.range t.length) ∧ AdjSorted t sa := by
  constructor
  · intro h
    refine ⟨h.1, fun k hk => ⟨h.mono (Nat.le_succ k) hk, fun e => ?_⟩⟩
    have := h.getElem_inj (by omega) hk e
    omega
  · rintro ⟨hp, hadj⟩
    refine ⟨hp, ?_⟩
    exact pairwise_of_adjacent (R := fun i j => lexLe (t.drop i) (t.drop j) = true)
      (fun a b c => lexLe_trans _ _ _) sa (fun k hk => (hadj k hk).1)

/-! ### `invertSA` -/

def invertStep (sa : Array Nat) (inv : Array Nat) (j : Nat) : Array Nat :=
  inv.setIfInBounds (sa.getD j 0) j

theorem invertSA_eq (sa : Array Nat) :
    invertSA sa = (List.range sa.size).foldl (invertStep sa) (Array.replicate sa.size 0) := rfl

theorem invertFold (sa : Array Nat)
    (hinj : ∀ (a b : Nat), a < sa.size → b < sa.size → sa[a]? = sa[b]? → a = b)
    (hlt : ∀ (a v : Nat), sa[a]? = some v → v < sa.size) :
    ∀ m, m ≤ sa.size →
      ((List.range m).foldl (invertStep sa) (Array.replicate sa.size 0)).size = sa.size ∧
      ∀ (j v : Nat), j < m → sa[j]? = some v →
        ((List.range m).foldl (invertStep sa) (Array.replicate sa.size 0))[v]? = some j := by
  intro m
  induction m with
  | zero => intro _; simp
  | succ m ih =>
    intro hm
    have ⟨ihs, ihv⟩ := ih (by omega)
    rw [List.range_succ, List.foldl_append]
    simp only [List.foldl_cons, List.foldl_nil]
    generalize (List.range m).foldl (invertStep sa) (Array.replicate sa.size 0) = inv at ihs ihv
    have hm' : m < sa.size := by omega
    have hsm : sa[m]? = some sa[m] := Array.getElem?_eq_getElem hm'
    have hd : sa.getD m 0 = sa[m] := by simp [hsm]
    constructor
    · simp [invertStep, ihs]
    · intro j v hj hv
      simp only [invertStep, hd]
      by_cases e : j = m
      · subst e
        rw [hsm] at hv
        cases hv
        rw [Array.getElem?_setIfInBounds_self_of_lt]
        rw [ihs]; exact hlt j _ hsm
      · have hne : sa[m] ≠ v := by
          intro e'
          apply e
          apply hinj j m (by omega) hm'
          rw [hv, hsm, e']
        rw [Array.getElem?_setIfInBounds_ne hne]
        exact ihv j v (by omega) hv

/-- a permutation of `0 … n-1` (as a list) -/
def IsPermOfRange (sa : List Nat) : Prop := sa.Perm (List.range sa.length)

theorem IsPermOfRange.lt {sa : List Nat} (hp : IsPermOfRange sa) {a v : Nat} (h : sa[a]? = some v) :
    v < sa.length := by
  have : v ∈ sa := List.mem_of_getElem? h
  simpa using hp.mem_iff.1 this

theorem IsPermOfRange.inj {sa : List Nat} (hp : IsPermOfRange sa) {a b : Nat} (ha : a < sa.length)
    (hb : b < sa.length) (h : sa[a]? = sa[b]?) : a = b := by
  have hn : sa.Nodup := hp.nodup_iff.2 List.nodup_range
  rw [List.getElem?_eq_getElem ha, List.getElem?_eq_getElem hb] at h
  exact (List.getElem_inj hn).1 (Option.some.inj h)

theorem IsPermOfRange.surj {sa : List Nat} (hp : IsPermOfRange sa) {i : Nat} (hi : i < sa.length) :
    ∃ k, k < sa.length ∧ sa[k]? = some i := by
  have : i ∈ sa := hp.mem_iff.2 (List.mem_range.2 hi)
  obtain ⟨k, hk, e⟩ := List.getElem_of_mem this
  exact ⟨k, hk, by rw [List.getElem?_eq_getElem hk, e]⟩

theorem invertSA_size (sa : Array Nat) : (invertSA sa).size = sa.size := by
  rw [invertSA_eq]
  have : ∀ (l : List Nat) (init : Array Nat), (l.foldl (invertStep sa) init).size = init.size := by
    intro l
    induction l with
    | nil => intro init; rfl
    | cons a l ih => intro init; simp [List.foldl_cons, ih, invertStep]
  rw [this]; simp

theorem invertSA_sa {sa : List Nat} (hp : IsPermOfRange sa) {j v : Nat} (h : sa[j]? = some v) :
    (invertSA sa.toArray)[v]? = some j := by
  have hj : j < sa.length := (List.getElem?_eq_some_iff.1 h).1
  have := (invertFold sa.toArray
    (fun a b ha hb e => hp.inj (by simpa using ha) (by simpa using hb) (by simpa using e))
    (fun a v e => by simpa using hp.lt (by simpa using e)) sa.length (by simp)).2 j v hj (by simpa using h)
  simpa [invertSA_eq] using this

theorem sa_invertSA {sa : List Nat} (hp : IsPermOfRange sa) {i : Nat} (hi : i < sa.length) :
    ∃ k, (invertSA sa.toArray)[i]? = some k ∧ k < sa.length ∧ sa[k]? = some i := by
  obtain ⟨k, hk, e⟩ := hp.surj hi
  exact ⟨k, invertSA_sa hp e, hk, e⟩

end LZ
