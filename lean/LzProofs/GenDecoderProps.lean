/-
  LzProofs.GenDecoderProps — the Decoder layer of decoder_buffer.go (`DecoderBuffer.WriteTo`, `(*Decoder).Flush`,
  `Reset`, `WriteByte`, `Write`, `WriteBlock`: the retry loops repaired for defect D12) as TRANSLATED by
  `tools/extract` (fifth part, code_iface.go; module LzModel/Generated/CodeDecoder.lean) equals the hand-written
  executable model (LzModel/DecBuf.lean: `Decoder.writeTo/flush/reset/writeByte/write/writeBlock`).

  The destination `io.Writer` is an interface value: in the translation it is an abstract state of type `io_Writer`
  (a type parameter) and `w.Write(p)` is the opaque state-passing parameter
      io_Writer_Write : io_Writer → Slice → Res (io_Writer × Int × Err).
  Here it is instantiated with the model's scripted writer: `io_Writer := LZ.Writer` (script of responses + bytes
  accepted so far), `io_Writer_Write := mWrite` (`Writer.write` on the bytes of the slice, never panics).  Every
  theorem quantifies over ALL writer scripts (short writes, errors at any call), all growth functions `g` with
  `GrowOK g`, all bytes / blocks (valid or not).

  Abstraction: `absD gd = { buf := ofDB gd.buf, w := gd.w }` (`ofDB` from GenBufPropsD), `Rep gd d := absD gd = d ∧
  DBWF gd.buf`; errors by the total map `genErr : LZ.Err → Gen.Err` (inverse of `GenBuf.errOf` where that is defined;
  `.shortWrite ↦ io_ErrShortWrite`, `.writer c ↦ Err.error (3001 + 2c)` — distinct from nil and all error variables).

  Hang marker / fuel.  The model's retry loops return `hangErr` in the branch in which the Go loop would spin
  forever; the translated loops are fuel-indexed.  The `*_loop_eq` lemmas show "translated loop = model recursion"
  under the hypothesis that the model's result is not `hangErr`; the final theorems discharge that hypothesis with
  `C06_*_no_hang` (DecoderProps.lean), so the ONLY hypothesis on the state is `DecBuf.Inv d.buf`
  (`r ≤ |data| ∧ ws < bs ∧ |data| ≤ bs`, established by Init, preserved by every operation).  Fuel: `WriteByte`
  explicit (`d.unflushed < fuel`); `Write`, `WriteBlock`: `∃ N, ∀ fuel ≥ N` with `N` depending on the MODEL state and
  input only (not on the representation `gd`) — fuel is an artefact of the translation of loops.

  Index:  gen_dbuf_writeTo  gen_decoder_flush  gen_decoder_reset  gen_decoder_init  gen_decoder_writeByte  gen_decoder_write
          gen_decoder_writeBlock
  Lemmas that follow the generated text (first to break when decoder_buffer.go changes): `writeByte_loop_step`,
  `write_loop_step`, `writeBlock_loop_step` (one iteration of each retry loop in terms of the model operations);
  `write_model_unfold`, `writeBlock_model_unfold` restate one step of the model recursion without `let`s.
-/
import LzModel.Generated.CodeDecoder
import LzProofs.GenBufPropsD
import LzProofs.GenBufPropsDCopy
import LzProofs.DecoderProps

set_option linter.unusedSimpArgs false
set_option linter.unusedVariables false

namespace LZ.GenDec
open LZ LZ.Gen LZ.GenBuf

/-! ## errors, the scripted writer as the opaque callee -/

/-- the generated error value that stands for a model error (total; the inverse of `GenBuf.errOf` where
    that is defined).  Errors of the writer script (`.writer c`) are arbitrary values that differ from
    `nil` and from every error variable. -/
def genErr : LZ.Err → Gen.Err
  | .ok => Gen.Err.ok
  | .empty => Gen.ErrEmptyBuffer
  | .full => Gen.ErrFullBuffer
  | .eof => Gen.io_EOF
  | .outOfBuffer => Gen.ErrOutOfBuffer
  | .endOfBuffer => Gen.ErrEndOfBuffer
  | .litLen => Gen.errLitLen
  | .matchLen => Gen.errMatchLen
  | .offset => Gen.errOffset
  | .shortWrite => Gen.io_ErrShortWrite
  | .oversize => Gen.Err.error 2901
  | .cfg => Gen.Err.error 2902
  | .panic => Gen.Err.error 2903
  | .reader c => Gen.Err.error (3000 + 2 * c)
  | .writer c => Gen.Err.error (3001 + 2 * c)

theorem genErr_ok_iff (e : LZ.Err) : genErr e = Gen.Err.ok ↔ e = .ok := by
  cases e <;> simp [genErr, Gen.ErrEmptyBuffer, Gen.ErrFullBuffer, Gen.io_EOF, Gen.ErrOutOfBuffer, Gen.ErrEndOfBuffer,
    Gen.errLitLen, Gen.errMatchLen, Gen.errOffset, Gen.io_ErrShortWrite]

theorem genErr_full_iff (e : LZ.Err) : genErr e = Gen.ErrFullBuffer ↔ e = .full := by
  cases e <;> simp [genErr, Gen.ErrEmptyBuffer, Gen.ErrFullBuffer, Gen.io_EOF, Gen.ErrOutOfBuffer, Gen.ErrEndOfBuffer,
    Gen.errLitLen, Gen.errMatchLen, Gen.errOffset, Gen.io_ErrShortWrite] <;> omega

theorem genErr_of_errOf {e : Gen.Err} {m : LZ.Err} (h : errOf e = some m) : e = genErr m := by
  unfold errOf at h
  repeat' split at h
  all_goals first
    | (injection h with h; subst h; subst_vars; rfl)
    | (exact absurd h (by simp))

/-- the scripted writer of the model (LzModel/DecBuf.lean: `Writer.write`) as the opaque callee
    `io_Writer_Write` of the translated code: state = the script, it never panics -/
def mWrite (w : Writer) (p : Slice) : Res (Writer × Int × Gen.Err) :=
  Res.ok ((w.write p.data).1, ((w.write p.data).2.1 : Int), genErr (w.write p.data).2.2)

/-- abstraction of a generated decoder -/
def absD (gd : Gen.Decoder Writer) : LZ.Decoder := { buf := ofDB gd.buf, w := gd.w }

/-- `gd` represents the model decoder `d` -/
def Rep (gd : Gen.Decoder Writer) (d : LZ.Decoder) : Prop := absD gd = d ∧ DBWF gd.buf

theorem writer_k_le (w : Writer) (p : List Byte) : (w.write p).2.1 ≤ p.length := by
  unfold Writer.write
  split
  · exact Nat.le_refl _
  · exact Nat.min_le_right _ _

/-- `DecoderBuffer.WriteTo(w)` -/
theorem gen_dbuf_writeTo (b : DecoderBuffer) (h : DBWF b) (hr : b.R ≤ b.Data.len) (w : Writer) :
    ∃ b', DecoderBuffer_WriteTo mWrite b w =
        Res.ok (b', (Decoder.writeTo ⟨ofDB b, w⟩).1.w, ((Decoder.writeTo ⟨ofDB b, w⟩).2.1 : Int),
          genErr (Decoder.writeTo ⟨ofDB b, w⟩).2.2) ∧
      ofDB b' = (Decoder.writeTo ⟨ofDB b, w⟩).1.buf ∧ DBWF b' := by
  obtain ⟨hd, hr0, ho0, hw0, hb0⟩ := h
  have hswf : b.Data.len ≤ b.Data.arr.length := hd
  obtain ⟨r, hrr⟩ : ∃ r : Nat, b.R = (r : Int) := ⟨b.R.toNat, by omega⟩
  have hrl : r ≤ b.Data.len := by omega
  unfold DecoderBuffer_WriteTo
  have hsl : Slice.slice b.Data b.R (Int.ofNat b.Data.len) = Res.ok { arr := b.Data.arr.drop r, len := b.Data.len - r } := by
    rw [hrr]; exact slice_ok b.Data r b.Data.len hrl hswf
  rw [hsl]
  simp only [bind_ok, mWrite]
  have hpd : ({ arr := b.Data.arr.drop r, len := b.Data.len - r } : Slice).data = (ofDB b).data.drop (ofDB b).r := by
    rw [slice_data b.Data hd r b.Data.len hrl (Nat.le_refl _)]
    simp only [ofDB, hrr, Int.toNat_natCast]
    rw [List.take_of_length_le]
    simp only [List.length_drop, data_length hd]; omega
  have hpl : ((ofDB b).data.drop (ofDB b).r).length = b.Data.len - r := by
    simp only [ofDB, hrr, Int.toNat_natCast, List.length_drop, data_length hd]
  rw [hpd]
  unfold Decoder.writeTo
  simp only []
  generalize hwr : w.write ((ofDB b).data.drop (ofDB b).r) = wr
  have hk := writer_k_le w ((ofDB b).data.drop (ofDB b).r)
  rw [hwr, hpl] at hk
  obtain ⟨w', k, e⟩ := wr
  simp only [] at hk ⊢
  refine ⟨{ b with R := b.R + (k : Int) }, ?_, ?_, ⟨hd, by show (0 : Int) ≤ b.R + (k : Int); omega, ho0, hw0, hb0⟩⟩
  · congr 1
    simp only [Prod.mk.injEq, true_and]
    simp only [genErr_ok_iff, hpl, Int.ofNat_eq_natCast]
    by_cases hc : e = Err.ok ∧ k < b.Data.len - r
    · have hc' : e = Err.ok ∧ (k : Int) < ((b.Data.len - r : Nat) : Int) := ⟨hc.1, by omega⟩
      simp only [hc, hc', and_self, if_true]; rfl
    · have hc' : ¬ (e = Err.ok ∧ (k : Int) < ((b.Data.len - r : Nat) : Int)) := by
        intro hh; exact hc ⟨hh.1, by omega⟩
      simp only [hc, hc', if_false]
  · simp only [ofDB, hrr]
    congr 1 <;> omega

theorem inv_r_le {b : DecoderBuffer} (h : DBWF b) (hinv : DecBuf.Inv (ofDB b)) : b.R ≤ b.Data.len := by
  have h1 := hinv.1
  have h2 := h.r
  simp only [ofDB, data_length h.data] at h1
  omega

theorem inv_len_le {b : DecoderBuffer} (h : DBWF b) (hinv : DecBuf.Inv (ofDB b)) :
    (b.Data.len : Int) ≤ b.DecoderConfig.BufferSize := by
  have h1 := hinv.2.2
  have h2 := h.bs
  simp only [ofDB, data_length h.data] at h1
  omega

/-- `WriteTo` on a represented decoder -/
theorem rep_writeTo {gd : Gen.Decoder Writer} {d : LZ.Decoder} (hrep : Rep gd d) (hinv : DecBuf.Inv d.buf) :
    ∃ gd' : Gen.Decoder Writer, DecoderBuffer_WriteTo mWrite gd.buf gd.w =
        Res.ok (gd'.buf, gd'.w, (d.writeTo.2.1 : Int), genErr d.writeTo.2.2) ∧ Rep gd' d.writeTo.1 := by
  obtain ⟨habs, hwf⟩ := hrep
  subst habs
  obtain ⟨b', e1, e2, e3⟩ := gen_dbuf_writeTo gd.buf hwf (inv_r_le hwf hinv) gd.w
  refine ⟨⟨b', (Decoder.writeTo ⟨ofDB gd.buf, gd.w⟩).1.w⟩, e1, ?_, e3⟩
  simp only [absD, e2]

/-- **`(*Decoder).Flush`**: translated = model, for every writer script -/
theorem gen_decoder_flush {gd : Gen.Decoder Writer} {d : LZ.Decoder} (hrep : Rep gd d) (hinv : DecBuf.Inv d.buf) :
    ∃ gd', Decoder_Flush mWrite gd = Res.ok (gd', genErr d.flush.2) ∧ Rep gd' d.flush.1 := by
  obtain ⟨gd', e1, e2⟩ := rep_writeTo hrep hinv
  refine ⟨gd', ?_, e2⟩
  unfold Decoder_Flush
  rw [e1]
  rfl

/-- **`(*Decoder).Reset`** -/
theorem gen_decoder_reset {gd : Gen.Decoder Writer} {d : LZ.Decoder} (hrep : Rep gd d) (w : Writer) :
    ∃ gd', Decoder_Reset gd w = Res.ok gd' ∧ Rep gd' (d.reset w) := by
  obtain ⟨habs, hwf⟩ := hrep
  subst habs
  obtain ⟨b', e1, e2, e3⟩ := gen_dbuf_reset gd.buf hwf
  refine ⟨⟨b', w⟩, ?_, ?_, e3⟩
  · unfold Decoder_Reset
    rw [e1]; rfl
  · simp only [absD, Decoder.reset, e2]

/-- **`(*Decoder).Init`**: `DecoderBuffer.Init` (D01) followed by `d.w = w`; on a rejected configuration the
    decoder is unchanged and the error is not nil -/
theorem gen_decoder_init (gd : Gen.Decoder Writer) (w : Writer) (cfg : Gen.DecoderConfig) :
    match DecBuf.init cfg.WindowSize cfg.BufferSize gd.buf.Data.cap with
    | some m => ∃ gd', Decoder_Init gd w cfg = Res.ok (gd', Gen.Err.ok) ∧ Rep gd' { buf := m, w := w }
    | none => ∃ e, Decoder_Init gd w cfg = Res.ok (gd, e) ∧ e ≠ Gen.Err.ok := by
  have h := gen_dbuf_init gd.buf cfg
  split at h
  · next m hm =>
    obtain ⟨b', e1, e2, e3⟩ := h
    simp only [hm]
    refine ⟨⟨b', w⟩, ?_, ?_, e3⟩
    · unfold Decoder_Init
      rw [e1]; rfl
    · simp only [absD, e2]
  · next hm =>
    obtain ⟨e, e1, e2⟩ := h
    simp only [hm]
    refine ⟨e, ?_, e2⟩
    unfold Decoder_Init
    rw [e1]
    simp only [bind_ok, e2, ne_eq, not_false_eq_true, if_true]

/-! ## WriteByte -/

/-- `DecoderBuffer.WriteByte` on a represented decoder -/
theorem rep_buf_writeByte (g : Grow) (hg : GrowOK g) {gd : Gen.Decoder Writer} {d : LZ.Decoder} (hrep : Rep gd d) (c : UInt8) :
    ∃ b', DecoderBuffer_WriteByte g gd.buf c = Res.ok (b', genErr (d.buf.writeByte g c).2) ∧
      Rep ⟨b', gd.w⟩ { d with buf := (d.buf.writeByte g c).1 } := by
  obtain ⟨habs, hwf⟩ := hrep
  subst habs
  obtain ⟨b', e, e1, e2, e3, e4⟩ := gen_dbuf_writeByte g hg gd.buf hwf c
  refine ⟨b', ?_, ?_, e4⟩
  · rw [e1, genErr_of_errOf e3]; rfl
  · simp only [absD, e2]

/-- one iteration of the retry loop of `WriteByte`, in terms of the model operations -/
theorem writeByte_loop_step (g : Grow) (hg : GrowOK g) {gd : Gen.Decoder Writer} {d : LZ.Decoder} (hrep : Rep gd d)
    (hinv : DecBuf.Inv d.buf) (c : UInt8) :
    let d1 : LZ.Decoder := { d with buf := (d.buf.writeByte g c).1 }
    let e := (d.buf.writeByte g c).2
    ∃ gd1 gd2, Rep gd1 d1 ∧ Rep gd2 d1.writeTo.1 ∧
      ∀ (f : Nat) (err ret : Gen.Err), Decoder_WriteByte_loop_1 g mWrite c (f + 1) gd err ret =
        if e ≠ .full then Res.ok (1, gd1, genErr e, genErr e)
        else if d1.writeTo.2.2 ≠ .ok then Res.ok (1, gd2, genErr d1.writeTo.2.2, genErr d1.writeTo.2.2)
        else Decoder_WriteByte_loop_1 g mWrite c f gd2 Gen.Err.ok ret := by
  intro d1 e
  obtain ⟨b', e1, e2⟩ := rep_buf_writeByte g hg hrep c
  have hinv1 : DecBuf.Inv d1.buf := (C06_buf_writeByte_inv g d.buf c hinv).1
  obtain ⟨gd2, f1, f2⟩ := rep_writeTo e2 hinv1
  refine ⟨⟨b', gd.w⟩, gd2, e2, f2, ?_⟩
  intro f err ret
  rw [Decoder_WriteByte_loop_1]
  rw [e1]
  simp only [bind_ok, ne_eq, genErr_full_iff]
  by_cases h1 : (d.buf.writeByte g c).2 = .full
  · simp only [e, h1, not_true_eq_false, if_false]
    simp only [] at f1
    rw [f1]
    simp only [bind_ok, genErr_ok_iff]
    by_cases h2 : d1.writeTo.2.2 = .ok
    · simp only [d1] at h2
      simp only [d1, h2, not_true_eq_false, if_false]; rfl
    · simp only [d1] at h2
      simp only [d1, h2, not_false_eq_true, if_true]
  · simp only [e, h1, not_false_eq_true, if_true]

/-- the retry loop of `WriteByte` = the model's recursion, for every fuel above the number of unflushed bytes,
    provided the model does not take its "would spin forever" branch (`hangErr`; excluded by C06) -/
theorem writeByte_loop_eq (g : Grow) (hg : GrowOK g) (c : UInt8) : ∀ (d : LZ.Decoder), DecBuf.Inv d.buf →
    (d.writeByte g c).2 ≠ hangErr → ∀ (gd : Gen.Decoder Writer), Rep gd d → ∀ (fuel : Nat), d.unflushed < fuel →
    ∀ (err ret : Gen.Err), ∃ gd' e', Decoder_WriteByte_loop_1 g mWrite c fuel gd err ret =
        Res.ok (1, gd', e', genErr (d.writeByte g c).2) ∧ Rep gd' (d.writeByte g c).1 := by
  intro d
  induction d using Decoder.writeByte.induct g c with
  | case1 x b e hwb he =>
    intro hinv hnh gd hrep fuel hf err ret
    obtain ⟨f, rfl⟩ : ∃ f, fuel = f + 1 := ⟨fuel - 1, by omega⟩
    obtain ⟨gd1, gd2, r1, r2, hstep⟩ := writeByte_loop_step g hg hrep hinv c
    rw [Decoder.writeByte]
    simp only [hwb] at hstep r1 r2 ⊢
    simp only [he, ne_eq, not_false_eq_true, if_true] at hstep ⊢
    exact ⟨gd1, _, hstep f err ret, r1⟩
  | case2 x b e hwb d1 he d' k e2 hwt he2 =>
    intro hinv hnh gd hrep fuel hf err ret
    obtain ⟨f, rfl⟩ : ∃ f, fuel = f + 1 := ⟨fuel - 1, by omega⟩
    obtain ⟨gd1, gd2, r1, r2, hstep⟩ := writeByte_loop_step g hg hrep hinv c
    rw [Decoder.writeByte]
    simp only [hwb] at hstep r1 r2 ⊢
    simp only [d1] at hwt
    simp only [he, hwt, ne_eq, not_false_eq_true, if_true, if_false, he2] at hstep r2 ⊢
    exact ⟨gd2, _, hstep f err ret, r2⟩
  | case3 x b e hwb d1 he d' k e2 hwt he2 hprog ih =>
    intro hinv hnh gd hrep fuel hf err ret
    obtain ⟨f, rfl⟩ : ∃ f, fuel = f + 1 := ⟨fuel - 1, by omega⟩
    obtain ⟨gd1, gd2, r1, r2, hstep⟩ := writeByte_loop_step g hg hrep hinv c
    have hinv1 : DecBuf.Inv d1.buf := by
      have := (C06_buf_writeByte_inv g x.buf c hinv).1
      simp only [hwb] at this; exact this
    have hinv2 : DecBuf.Inv d'.buf := by
      have := (C06_writeTo_inv d1 hinv1).1
      rw [hwt] at this; exact this
    rw [Decoder.writeByte] at hnh ⊢
    simp only [hwb] at hstep r1 r2 hnh ⊢
    simp only [d1] at hwt
    simp only [he, hwt, ne_eq, not_false_eq_true, if_true, if_false, he2, hprog, and_self, dite_true] at hstep r2 hnh ⊢
    rw [hstep]
    exact ih hinv2 hnh gd2 r2 f (by omega) _ _
  | case4 x b e hwb d1 he d' k e2 hwt he2 hprog =>
    intro hinv hnh
    exfalso
    apply hnh
    rw [Decoder.writeByte]
    simp only [hwb]
    simp only [d1] at hwt
    simp only [he, hwt, ne_eq, not_false_eq_true, if_true, if_false, he2, hprog, dite_false]

/-- **`(*Decoder).WriteByte`**: translated = model for every writer script, every growth function, every fuel
    above the number of unflushed bytes.  The only hypothesis on the state is `DecBuf.Inv` (C06: no hang). -/
theorem gen_decoder_writeByte (g : Grow) (hg : GrowOK g) {gd : Gen.Decoder Writer} {d : LZ.Decoder} (hrep : Rep gd d)
    (hinv : DecBuf.Inv d.buf) (c : UInt8) (fuel : Nat) (hf : d.unflushed < fuel) :
    ∃ gd', Decoder_WriteByte g fuel mWrite gd c = Res.ok (gd', genErr (d.writeByte g c).2) ∧
      Rep gd' (d.writeByte g c).1 := by
  obtain ⟨gd', e', h1, h2⟩ := writeByte_loop_eq g hg c d hinv (C06_writeByte_no_hang g d c hinv) gd hrep fuel hf
    Gen.Err.ok Gen.Err.ok
  refine ⟨gd', ?_, h2⟩
  unfold Decoder_WriteByte
  simp only []
  rw [h1]
  rfl

/-! ## Write -/

theorem dbuf_write_k (g : Grow) (b : DecBuf) (q : List Byte) :
    (b.write g q).2.1 ≤ q.length ∧ ((b.write g q).2.2 = .ok → (b.write g q).2.1 = q.length) := by
  unfold DecBuf.write
  simp only []
  repeat' split
  all_goals simp

/-- `DecoderBuffer.Write` on a represented decoder -/
theorem rep_buf_write (g : Grow) (hg : GrowOK g) {gd : Gen.Decoder Writer} {d : LZ.Decoder} (hrep : Rep gd d)
    (q : Slice) (hq : SWF q) :
    ∃ b', DecoderBuffer_Write g gd.buf q = Res.ok (b', ((d.buf.write g q.data).2.1 : Int), genErr (d.buf.write g q.data).2.2) ∧
      Rep ⟨b', gd.w⟩ { d with buf := (d.buf.write g q.data).1 } := by
  obtain ⟨habs, hwf⟩ := hrep
  subst habs
  obtain ⟨b', e, e1, e2, e3, e4⟩ := gen_dbuf_write g hg gd.buf hwf q hq
  refine ⟨b', ?_, ?_, e4⟩
  · rw [e1, genErr_of_errOf e3]; rfl
  · simp only [absD, e2]

/-- the chunk `q := p; if len(q) > m { q = q[:m] }` -/
theorem chunk_spec (ps : Slice) (hs : SWF ps) (m : Nat) :
    ∃ qs, (if (Int.ofNat ps.len) > (m : Int) then Res.bind (Slice.slice ps 0 (m : Int)) fun t_1 => Res.ok t_1
           else Res.ok ps) = Res.ok qs ∧ SWF qs ∧
      qs.data = (if ps.data.length > m then ps.data.take m else ps.data) := by
  have hl := data_length hs
  by_cases hc : ps.len > m
  · have hc' : (Int.ofNat ps.len) > (m : Int) := by show (ps.len : Int) > (m : Int); omega
    have hc2 : ps.data.length > m := by omega
    simp only [hc', hc2, if_true]
    have h0 : ((0 : Nat) : Int) = 0 := rfl
    rw [← h0, slice_ok ps 0 m (Nat.zero_le _) (by unfold SWF at hs; omega)]
    refine ⟨_, rfl, ?_, ?_⟩
    · unfold SWF at hs ⊢; simp only [List.drop_zero, Nat.sub_zero]; omega
    · simp only [Slice.data, List.drop_zero, Nat.sub_zero, List.take_take]
      congr 1; omega
  · have hc' : ¬ (Int.ofNat ps.len) > (m : Int) := by show ¬ (ps.len : Int) > (m : Int); omega
    have hc2 : ¬ ps.data.length > m := by omega
    simp only [hc', hc2, if_false]
    exact ⟨ps, rfl, hs, rfl⟩

theorem slice_from (ps : Slice) (hs : SWF ps) (k : Nat) (hk : k ≤ ps.len) :
    ∃ ps', Slice.slice ps (k : Int) (Int.ofNat ps.len) = Res.ok ps' ∧ SWF ps' ∧ ps'.data = ps.data.drop k := by
  have hswf : ps.len ≤ ps.arr.length := hs
  refine ⟨_, slice_ok ps k ps.len hk hswf, ?_, ?_⟩
  · unfold SWF; simp only [List.length_drop]; omega
  · rw [slice_data ps hs k ps.len hk (Nat.le_refl _)]
    rw [List.take_of_length_le]
    simp only [List.length_drop, data_length hs]; omega

/-- one iteration of the loop of `Write`, in terms of the model operations -/
theorem write_loop_step (g : Grow) (hg : GrowOK g) {gd : Gen.Decoder Writer} {d : LZ.Decoder} (hrep : Rep gd d)
    (hinv : DecBuf.Inv d.buf) (ps : Slice) (hs : SWF ps) (p : List Byte) (hps : ps.data = p) (hne : p.length ≠ 0)
    (q : List Byte) (hq : q = if p.length > d.buf.bs - d.buf.ws then p.take (d.buf.bs - d.buf.ws) else p)
    (d1 : LZ.Decoder) (hd1 : d1 = { d with buf := (d.buf.write g q).1 }) :
    ∃ gd1 gd2 ps', Rep gd1 d1 ∧ Rep gd2 d1.writeTo.1 ∧ SWF ps' ∧ ps'.data = p.drop (d.buf.write g q).2.1 ∧
      ∀ (f : Nat) (err0 : Gen.Err) (n r1 : Int) (r2 : Gen.Err), Decoder_Write_loop_1 g mWrite err0 (f + 1) gd n ps r1 r2 =
        if (d.buf.write g q).2.2 = .ok then Decoder_Write_loop_1 g mWrite err0 f gd1 (n + ((d.buf.write g q).2.1 : Int)) ps' r1 r2
        else if (d.buf.write g q).2.2 ≠ .full then
          Res.ok (1, gd1, n + ((d.buf.write g q).2.1 : Int), ps', n + ((d.buf.write g q).2.1 : Int), genErr (d.buf.write g q).2.2)
        else if d1.writeTo.2.2 ≠ .ok then
          Res.ok (1, gd2, n + ((d.buf.write g q).2.1 : Int), ps', n + ((d.buf.write g q).2.1 : Int), genErr d1.writeTo.2.2)
        else Decoder_Write_loop_1 g mWrite err0 f gd2 (n + ((d.buf.write g q).2.1 : Int)) ps' r1 r2 := by
  subst hps
  have hl := data_length hs
  have hwf := hrep.2
  have habs := hrep.1
  -- the chunk
  have hm : gd.buf.DecoderConfig.BufferSize - gd.buf.DecoderConfig.WindowSize = ((d.buf.bs - d.buf.ws : Nat) : Int) := by
    have h1 := hinv.2.1
    have hb := hwf.bs; have hw := hwf.ws
    simp only [← habs, absD, ofDB] at h1 ⊢
    omega
  obtain ⟨qs, hq1, hq2, hq3⟩ := chunk_spec ps hs (d.buf.bs - d.buf.ws)
  obtain ⟨b', e1, e2⟩ := rep_buf_write g hg hrep qs hq2
  rw [hq3, ← hq] at e1 e2
  rw [← hd1] at e2
  have hinv1 : DecBuf.Inv d1.buf := by rw [hd1]; exact (C06_buf_write_inv g d.buf q hinv).1
  obtain ⟨gd2, f1, f2⟩ := rep_writeTo e2 hinv1
  have hkq := (dbuf_write_k g d.buf q).1
  have hql : q.length ≤ ps.len := by
    rw [hq]; split
    · simp only [List.length_take]; omega
    · omega
  obtain ⟨ps', hp1, hp2, hp3⟩ := slice_from ps hs (d.buf.write g q).2.1 (by omega)
  refine ⟨⟨b', gd.w⟩, gd2, ps', e2, f2, hp2, hp3, ?_⟩
  intro f err0 n r1 r2
  rw [Decoder_Write_loop_1]
  have hpos : (Int.ofNat ps.len) > 0 := by show (ps.len : Int) > 0; omega
  simp only [hpos, if_true, hm]
  rw [hq1]
  simp only [bind_ok]
  rw [e1]
  simp only [bind_ok]
  rw [hp1]
  simp only [bind_ok, ne_eq, genErr_full_iff, genErr_ok_iff]
  by_cases h0 : (d.buf.write g q).2.2 = .ok
  · simp only [h0, if_true]
  · simp only [h0, if_false]
    by_cases h1 : (d.buf.write g q).2.2 = .full
    · simp only [h1, not_true_eq_false, if_false]
      simp only [] at f1
      rw [f1]
      simp only [bind_ok, genErr_ok_iff]
    · simp only [h1, not_false_eq_true, if_true]

/-- what `Decoder_Write` does with the result of its loop (exit code 1 = `return n, err` inside the loop,
    0 = the loop ended: `return n, nil`) -/
def writeFin (r : Nat × Gen.Decoder Writer × Int × Slice × Int × Gen.Err) : Res (Gen.Decoder Writer × Int × Gen.Err) :=
  if r.1 = 1 then Res.ok (r.2.1, r.2.2.2.2.1, r.2.2.2.2.2) else Res.ok (r.2.1, r.2.2.1, Gen.Err.ok)

theorem write_model_unfold (g : Grow) (d : LZ.Decoder) (p : List Byte) (acc : Nat) (hp : p.length ≠ 0) (q : List Byte)
    (hq : q = if p.length > d.buf.bs - d.buf.ws then p.take (d.buf.bs - d.buf.ws) else p) :
    d.write g p acc =
      if (d.buf.write g q).2.2 = .ok then
        if 0 < (d.buf.write g q).2.1 ∧ (d.buf.write g q).2.1 ≤ p.length then
          Decoder.write g { d with buf := (d.buf.write g q).1 } (p.drop (d.buf.write g q).2.1) (acc + (d.buf.write g q).2.1)
        else ({ d with buf := (d.buf.write g q).1 }, acc + (d.buf.write g q).2.1, hangErr)
      else if (d.buf.write g q).2.2 ≠ .full then
        ({ d with buf := (d.buf.write g q).1 }, acc + (d.buf.write g q).2.1, (d.buf.write g q).2.2)
      else if (Decoder.writeTo { d with buf := (d.buf.write g q).1 }).2.2 ≠ .ok then
        ((Decoder.writeTo { d with buf := (d.buf.write g q).1 }).1, acc + (d.buf.write g q).2.1,
          (Decoder.writeTo { d with buf := (d.buf.write g q).1 }).2.2)
      else if (Decoder.writeTo { d with buf := (d.buf.write g q).1 }).2.1 > 0 ∧
          (Decoder.writeTo { d with buf := (d.buf.write g q).1 }).1.unflushed < d.unflushed then
        Decoder.write g (Decoder.writeTo { d with buf := (d.buf.write g q).1 }).1 (p.drop (d.buf.write g q).2.1)
          (acc + (d.buf.write g q).2.1)
      else ((Decoder.writeTo { d with buf := (d.buf.write g q).1 }).1, acc + (d.buf.write g q).2.1, hangErr) := by
  rw [Decoder.write]
  subst hq
  have hp' : ¬ p.length = 0 := hp
  simp only [hp', dite_false, dite_eq_ite]
  repeat' split
  all_goals first | rfl | contradiction

/-- the loop of `Write` followed by `writeFin` = the model's recursion, for every sufficient fuel (the bound `N`
    depends on the model state only), provided the model does not take a "would spin forever" branch (C06) -/
theorem write_loop_eq (g : Grow) (hg : GrowOK g) : ∀ (d : LZ.Decoder) (p : List Byte) (acc : Nat), DecBuf.Inv d.buf →
    (d.write g p acc).2.2 ≠ hangErr → ∃ N, ∀ (gd : Gen.Decoder Writer), Rep gd d → ∀ (ps : Slice), SWF ps → ps.data = p →
    ∀ fuel, N ≤ fuel → ∀ (err0 : Gen.Err) (r1 : Int) (r2 : Gen.Err), ∃ gd',
      Res.bind (Decoder_Write_loop_1 g mWrite err0 fuel gd (acc : Int) ps r1 r2) writeFin =
        Res.ok (gd', ((d.write g p acc).2.1 : Int), genErr (d.write g p acc).2.2) ∧ Rep gd' (d.write g p acc).1 := by
  intro d p acc
  induction d, p, acc using Decoder.write.induct g with
  | case1 d p acc hp =>
    intro hinv hnh
    refine ⟨1, fun gd hrep ps hs hps fuel hf err0 r1 r2 => ?_⟩
    obtain ⟨f, rfl⟩ : ∃ f, fuel = f + 1 := ⟨fuel - 1, by omega⟩
    have hl := data_length hs
    have hnpos : ¬ (Int.ofNat ps.len) > 0 := by show ¬ (ps.len : Int) > 0; rw [hps] at hl; omega
    rw [Decoder_Write_loop_1, Decoder.write]
    simp only [hnpos, if_false, hp, dite_true]
    exact ⟨gd, rfl, hrep⟩
  | case2 d p acc hp m q b k d1 hk hw ih =>
    intro hinv hnh
    have hq : q = if p.length > d.buf.bs - d.buf.ws then p.take (d.buf.bs - d.buf.ws) else p := by
      simp only [q, m, dite_eq_ite]
    have hinv1 : DecBuf.Inv d1.buf := by
      have := (C06_buf_write_inv g d.buf q hinv).1
      rw [hw] at this; exact this
    rw [write_model_unfold g d p acc hp q hq] at hnh ⊢
    rw [hw] at hnh ⊢
    simp only [hk, and_self, if_true] at hnh ⊢
    obtain ⟨N, hN⟩ := ih hinv1 hnh
    refine ⟨N + 1, fun gd hrep ps hs hps fuel hf err0 r1 r2 => ?_⟩
    obtain ⟨gd1, gd2, ps', q1, q2, hs', hps', hstep⟩ :=
      write_loop_step g hg hrep hinv ps hs p hps hp q hq d1 (by simp only [d1, hw])
    rw [hw] at hps' hstep
    simp only [if_true] at hstep
    obtain ⟨f, rfl⟩ : ∃ f, fuel = f + 1 := ⟨fuel - 1, by omega⟩
    rw [hstep]
    have hcast : (acc : Int) + (k : Int) = ((acc + k : Nat) : Int) := by omega
    rw [hcast]
    exact hN gd1 q1 ps' hs' hps' f (by omega) err0 r1 r2
  | case3 d p acc hp m q b k hk hw =>
    intro hinv hnh
    exfalso; apply hnh
    have hq : q = if p.length > d.buf.bs - d.buf.ws then p.take (d.buf.bs - d.buf.ws) else p := by
      simp only [q, m, dite_eq_ite]
    rw [write_model_unfold g d p acc hp q hq, hw]
    simp only [hk, if_true, if_false]
  | case4 d p acc hp m q b k e hw he hnf =>
    intro hinv hnh
    have hq : q = if p.length > d.buf.bs - d.buf.ws then p.take (d.buf.bs - d.buf.ws) else p := by
      simp only [q, m, dite_eq_ite]
    refine ⟨1, fun gd hrep ps hs hps fuel hf err0 r1 r2 => ?_⟩
    obtain ⟨gd1, gd2, ps', q1, q2, hs', hps', hstep⟩ :=
      write_loop_step g hg hrep hinv ps hs p hps hp q hq { d with buf := (d.buf.write g q).1 } rfl
    rw [write_model_unfold g d p acc hp q hq]
    rw [hw] at hps' hstep q1 ⊢
    simp only [he, hnf, ne_eq, not_false_eq_true, if_true, if_false] at hstep ⊢
    obtain ⟨f, rfl⟩ : ∃ f, fuel = f + 1 := ⟨fuel - 1, by omega⟩
    rw [hstep]
    refine ⟨gd1, ?_, q1⟩
    simp only [bind_ok, writeFin, if_true]
    congr 2
  | case5 d p acc hp m q b k e hw d1 he hf d' fst e2 hwt he2 =>
    intro hinv hnh
    have hq : q = if p.length > d.buf.bs - d.buf.ws then p.take (d.buf.bs - d.buf.ws) else p := by
      simp only [q, m, dite_eq_ite]
    refine ⟨1, fun gd hrep ps hs hps fuel hfu err0 r1 r2 => ?_⟩
    obtain ⟨gd1, gd2, ps', q1, q2, hs', hps', hstep⟩ :=
      write_loop_step g hg hrep hinv ps hs p hps hp q hq d1 (by simp only [d1, hw])
    rw [write_model_unfold g d p acc hp q hq]
    rw [hw] at hps' hstep ⊢
    simp only [d1] at hwt
    simp only [d1, hwt] at q2 hstep
    simp only [he, hf, hwt, he2, ne_eq, not_false_eq_true, not_true_eq_false, if_true, if_false] at hstep ⊢
    obtain ⟨f, rfl⟩ : ∃ f, fuel = f + 1 := ⟨fuel - 1, by omega⟩
    rw [hstep]
    refine ⟨gd2, ?_, q2⟩
    simp only [bind_ok, writeFin, if_true]
    congr 2
  | case6 d p acc hp m q b k e hw d1 he hf d' fst e2 hwt he2 hprog ih =>
    intro hinv hnh
    have hq : q = if p.length > d.buf.bs - d.buf.ws then p.take (d.buf.bs - d.buf.ws) else p := by
      simp only [q, m, dite_eq_ite]
    have hinv1 : DecBuf.Inv d1.buf := by
      have := (C06_buf_write_inv g d.buf q hinv).1
      rw [hw] at this; exact this
    have hinv2 : DecBuf.Inv d'.buf := by
      have := (C06_writeTo_inv d1 hinv1).1
      rw [hwt] at this; exact this
    have hwt' := hwt
    simp only [d1] at hwt'
    rw [write_model_unfold g d p acc hp q hq] at hnh ⊢
    rw [hw] at hnh ⊢
    simp only [he, hf, hwt', he2, hprog, and_self, ne_eq, not_false_eq_true, not_true_eq_false, if_true, if_false] at hnh ⊢
    obtain ⟨N, hN⟩ := ih hinv2 hnh
    refine ⟨N + 1, fun gd hrep ps hs hps fuel hfu err0 r1 r2 => ?_⟩
    obtain ⟨gd1, gd2, ps', q1, q2, hs', hps', hstep⟩ :=
      write_loop_step g hg hrep hinv ps hs p hps hp q hq d1 (by simp only [d1, hw])
    rw [hw] at hps' hstep
    simp only [d1, hwt'] at q2 hstep
    simp only [he, hf, he2, ne_eq, not_false_eq_true, not_true_eq_false, if_true, if_false] at hstep
    obtain ⟨f, rfl⟩ : ∃ f, fuel = f + 1 := ⟨fuel - 1, by omega⟩
    rw [hstep]
    have hcast : (acc : Int) + (k : Int) = ((acc + k : Nat) : Int) := by omega
    rw [hcast]
    exact hN gd2 q2 ps' hs' hps' f (by omega) err0 r1 r2
  | case7 d p acc hp m q b k e hw d1 he hf d' fst e2 hwt he2 hprog =>
    intro hinv hnh
    exfalso; apply hnh
    have hq : q = if p.length > d.buf.bs - d.buf.ws then p.take (d.buf.bs - d.buf.ws) else p := by
      simp only [q, m, dite_eq_ite]
    rw [write_model_unfold g d p acc hp q hq, hw]
    simp only [d1] at hwt
    simp only [he, hf, hwt, he2, hprog, ne_eq, not_false_eq_true, not_true_eq_false, if_true, if_false]

/-- **`(*Decoder).Write`**: translated = model (`Decoder.write g d p 0`) for every writer script, every growth
    function and every sufficient fuel (`N` depends on the model state and the input only).  The only hypothesis
    on the state is `DecBuf.Inv` (C06: the model never reports a hang). -/
theorem gen_decoder_write (g : Grow) (hg : GrowOK g) (d : LZ.Decoder) (hinv : DecBuf.Inv d.buf) (p : List Byte) :
    ∃ N, ∀ (gd : Gen.Decoder Writer), Rep gd d → ∀ (ps : Slice), SWF ps → ps.data = p → ∀ fuel, N ≤ fuel →
      ∃ gd', Decoder_Write g fuel mWrite gd ps =
          Res.ok (gd', ((d.write g p 0).2.1 : Int), genErr (d.write g p 0).2.2) ∧
        Rep gd' (d.write g p 0).1 := by
  obtain ⟨N, hN⟩ := write_loop_eq g hg d p 0 hinv (C06_write_no_hang g d p hinv)
  refine ⟨N, fun gd hrep ps hs hps fuel hf => ?_⟩
  obtain ⟨gd', h1, h2⟩ := hN gd hrep ps hs hps fuel hf Gen.Err.ok 0 Gen.Err.ok
  refine ⟨gd', ?_, h2⟩
  rw [← h1]
  rfl

/-! ## WriteBlock -/

theorem writeBlock_model_unfold (g : Grow) (d : LZ.Decoder) (seqs : List LZ.Seq) (lits : List Byte) (n : Int) (k l : Nat)
    (R : DecBuf × Int × Nat × Nat × LZ.Err) (hR : R = d.buf.writeBlock g ⟨seqs, lits⟩)
    (W : LZ.Decoder × Nat × LZ.Err) (hW : W = Decoder.writeTo { d with buf := R.1 }) :
    d.writeBlock g seqs lits n k l =
      if R.2.2.2.2 ≠ .full then ({ d with buf := R.1 }, n + R.2.1, k + R.2.2.1, l + R.2.2.2.1, R.2.2.2.2)
      else if (seqs.drop R.2.2.1).length = 0 then
        ((Decoder.write g { d with buf := R.1 } (lits.drop R.2.2.2.1) 0).1,
          n + R.2.1 + ((Decoder.write g { d with buf := R.1 } (lits.drop R.2.2.2.1) 0).2.1 : Int), k + R.2.2.1,
          l + R.2.2.2.1 + (Decoder.write g { d with buf := R.1 } (lits.drop R.2.2.2.1) 0).2.1,
          (Decoder.write g { d with buf := R.1 } (lits.drop R.2.2.2.1) 0).2.2)
      else if W.2.2 ≠ .ok then (W.1, n + R.2.1, k + R.2.2.1, l + R.2.2.2.1, W.2.2)
      else if R.2.2.1 > 0 then
        Decoder.writeBlock g W.1 (seqs.drop R.2.2.1) (lits.drop R.2.2.2.1) (n + R.2.1) (k + R.2.2.1) (l + R.2.2.2.1)
      else if W.2.1 > 0 ∧ W.1.unflushed < d.unflushed then
        Decoder.writeBlock g W.1 (seqs.drop R.2.2.1) (lits.drop R.2.2.2.1) (n + R.2.1) (k + R.2.2.1) (l + R.2.2.2.1)
      else (W.1, n + R.2.1, k + R.2.2.1, l + R.2.2.2.1, hangErr) := by
  rw [Decoder.writeBlock]
  subst hR hW
  simp only [dite_eq_ite]
  repeat' split
  all_goals first | rfl | contradiction

/-- `DecoderBuffer.WriteBlock` on a represented decoder -/
theorem rep_buf_writeBlock (g : Grow) (hg : GrowOK g) {gd : Gen.Decoder Writer} {d : LZ.Decoder} (hrep : Rep gd d)
    (hinv : DecBuf.Inv d.buf) (blk : Block') (hl : SWF blk.Literals) (fuel : Nat) (hf : 4294967296 ≤ fuel) :
    ∃ b', DecoderBuffer_WriteBlock g fuel gd.buf blk =
        Res.ok (b', (d.buf.writeBlock g (ofBlock blk)).2.1, ((d.buf.writeBlock g (ofBlock blk)).2.2.1 : Int),
          ((d.buf.writeBlock g (ofBlock blk)).2.2.2.1 : Int), genErr (d.buf.writeBlock g (ofBlock blk)).2.2.2.2) ∧
      Rep ⟨b', gd.w⟩ { d with buf := (d.buf.writeBlock g (ofBlock blk)).1 } := by
  obtain ⟨habs, hwf⟩ := hrep
  subst habs
  have hml : ∀ s ∈ blk.Sequences, s.MatchLen.toNat < fuel := by
    intro s _
    have := s.MatchLen.toNat_lt
    omega
  obtain ⟨b', e, e1, e2, e3, e4, _⟩ := gen_dbuf_writeBlock g hg fuel gd.buf hwf (inv_len_le hwf hinv) blk hl hml
  refine ⟨b', ?_, ?_, e4⟩
  · rw [e1, genErr_of_errOf e3]; rfl
  · simp only [absD, e2]

theorem listSliceFrom_ok {α : Type} (s : List α) (k : Nat) (hk : k ≤ s.length) :
    listSliceFrom s (k : Int) = Res.ok (s.drop k) := by
  unfold listSliceFrom
  have : (0 : Int) ≤ (k : Int) ∧ (k : Int) ≤ Int.ofNat s.length := ⟨by omega, by show (k : Int) ≤ (s.length : Int); omega⟩
  simp only [this, and_self, if_true, Int.toNat_natCast]

/-- one iteration of the retry loop of `WriteBlock`, in terms of the model operations -/
theorem writeBlock_loop_step (g : Grow) (hg : GrowOK g) {gd : Gen.Decoder Writer} {d : LZ.Decoder} (hrep : Rep gd d)
    (hinv : DecBuf.Inv d.buf) (blk : Block') (hl : SWF blk.Literals)
    (R : DecBuf × Int × Nat × Nat × LZ.Err) (hR : R = d.buf.writeBlock g (ofBlock blk))
    (W : LZ.Decoder × Nat × LZ.Err) (hW : W = Decoder.writeTo { d with buf := R.1 })
    (f : Nat) (hf : 4294967296 ≤ f) :
    ∃ gd1 gd2 blk', Rep gd1 { d with buf := R.1 } ∧ Rep gd2 W.1 ∧ SWF blk'.Literals ∧
      ofBlock blk' = ⟨(ofBlock blk).seqs.drop R.2.2.1, (ofBlock blk).lits.drop R.2.2.2.1⟩ ∧
      ∀ (err0 : Gen.Err) (n k l r1 r2 r3 : Int) (r4 : Gen.Err),
        Decoder_WriteBlock_loop_1 g mWrite err0 (f + 1) gd n k l blk r1 r2 r3 r4 =
          if R.2.2.2.2 ≠ .full then
            Res.ok (1, gd1, n + R.2.1, k + (R.2.2.1 : Int), l + (R.2.2.2.1 : Int), blk,
              n + R.2.1, k + (R.2.2.1 : Int), l + (R.2.2.2.1 : Int), genErr R.2.2.2.2)
          else if ((ofBlock blk).seqs.drop R.2.2.1).length = 0 then
            Res.bind (Decoder_Write g f mWrite gd1 blk'.Literals) fun r_4 =>
              Res.ok (1, r_4.1, n + R.2.1, k + (R.2.2.1 : Int), l + (R.2.2.2.1 : Int), blk',
                n + R.2.1 + r_4.2.1, k + (R.2.2.1 : Int), l + (R.2.2.2.1 : Int) + r_4.2.1, r_4.2.2)
          else if W.2.2 ≠ .ok then
            Res.ok (1, gd2, n + R.2.1, k + (R.2.2.1 : Int), l + (R.2.2.2.1 : Int), blk',
              n + R.2.1, k + (R.2.2.1 : Int), l + (R.2.2.2.1 : Int), genErr W.2.2)
          else Decoder_WriteBlock_loop_1 g mWrite err0 f gd2 (n + R.2.1) (k + (R.2.2.1 : Int)) (l + (R.2.2.2.1 : Int)) blk'
            r1 r2 r3 r4 := by
  have hpost := DecBuf.wbuf_post g d.buf (ofBlock blk) hinv
  obtain ⟨hinv1, _, _, _, hkk, hll, _⟩ := hpost
  rw [← hR] at hinv1 hkk hll
  have hseql : (ofBlock blk).seqs.length = blk.Sequences.length := by simp only [ofBlock, List.length_map]
  have hlitl : (ofBlock blk).lits.length = blk.Literals.len := by simp only [ofBlock]; exact data_length hl
  rw [hseql] at hkk
  rw [hlitl] at hll
  obtain ⟨lits', hp1, hp2, hp3⟩ := slice_from blk.Literals hl R.2.2.2.1 hll
  obtain ⟨b', e1, e2⟩ := rep_buf_writeBlock g hg hrep hinv blk hl f hf
  rw [← hR] at e1 e2
  obtain ⟨gd2, f1, f2⟩ := rep_writeTo e2 hinv1
  rw [← hW] at f1 f2
  refine ⟨⟨b', gd.w⟩, gd2, { Sequences := blk.Sequences.drop R.2.2.1, Literals := lits' }, e2, f2, hp2, ?_, ?_⟩
  · simp only [ofBlock, hp3, List.map_drop]
  intro err0 n k l r1 r2 r3 r4
  rw [Decoder_WriteBlock_loop_1]
  rw [e1]
  simp only [bind_ok, ne_eq, genErr_full_iff]
  by_cases h1 : R.2.2.2.2 = .full
  · simp only [h1, not_true_eq_false, if_false]
    rw [listSliceFrom_ok _ _ hkk]
    simp only [bind_ok]
    rw [hp1]
    simp only [bind_ok, Int.ofNat_eq_natCast, List.length_drop, hseql]
    by_cases h2 : blk.Sequences.length - R.2.2.1 = 0
    · have h2' : ((blk.Sequences.length - R.2.2.1 : Nat) : Int) = 0 := by omega
      simp only [h2', if_true]
      simp only [h2, if_true]
    · have h2' : ¬ ((blk.Sequences.length - R.2.2.1 : Nat) : Int) = 0 := by omega
      simp only [h2', if_false]
      simp only [h2, if_false]
      simp only [] at f1
      rw [f1]
      simp only [bind_ok, genErr_ok_iff]
  · simp only [h1, not_false_eq_true, if_true]

/-- the retry loop of `WriteBlock` = the model's recursion, for every sufficient fuel (`N` depends on the model
    state and the block only), provided the model does not take a "would spin forever" branch (C06) -/
theorem writeBlock_loop_eq (g : Grow) (hg : GrowOK g) : ∀ (d : LZ.Decoder) (seqs : List LZ.Seq) (lits : List Byte)
    (n : Int) (k l : Nat), DecBuf.Inv d.buf → (d.writeBlock g seqs lits n k l).2.2.2.2 ≠ hangErr →
    ∃ N, ∀ (gd : Gen.Decoder Writer), Rep gd d → ∀ (blk : Block'), SWF blk.Literals → ofBlock blk = ⟨seqs, lits⟩ →
    ∀ fuel, N ≤ fuel → ∀ (err0 : Gen.Err) (r1 r2 r3 : Int) (r4 : Gen.Err), ∃ gd' c n' k' l' blk',
      Decoder_WriteBlock_loop_1 g mWrite err0 fuel gd n (k : Int) (l : Int) blk r1 r2 r3 r4 =
        Res.ok (c, gd', n', k', l', blk', (d.writeBlock g seqs lits n k l).2.1, ((d.writeBlock g seqs lits n k l).2.2.1 : Int),
          ((d.writeBlock g seqs lits n k l).2.2.2.1 : Int), genErr (d.writeBlock g seqs lits n k l).2.2.2.2) ∧
      Rep gd' (d.writeBlock g seqs lits n k l).1 := by
  intro d seqs lits n k l
  induction d, seqs, lits, n, k, l using Decoder.writeBlock.induct g with
  | case1 d seqs lits n k l b nn kk ll e hwb he =>
    intro hinv hnh
    refine ⟨4294967297, fun gd hrep blk hl hob fuel hfu err0 r1 r2 r3 r4 => ?_⟩
    obtain ⟨f, rfl⟩ : ∃ f, fuel = f + 1 := ⟨fuel - 1, by omega⟩
    obtain ⟨gd1, gd2, blk', q1, q2, hl', hob', hstep⟩ :=
      writeBlock_loop_step g hg hrep hinv blk hl _ rfl _ rfl f (by omega)
    rw [writeBlock_model_unfold g d seqs lits n k l _ rfl _ rfl]
    rw [hob] at hstep q1
    rw [hwb] at hstep q1 ⊢
    simp only [he, ne_eq, not_false_eq_true, if_true] at hstep ⊢
    rw [hstep]
    exact ⟨gd1, _, _, _, _, _, rfl, q1⟩
  | case2 d seqs lits n k l b nn kk ll e hwb d1 he seqs' lits' hs d' m e2 hw =>
    intro hinv hnh
    have hinv1 : DecBuf.Inv d1.buf := by
      have := (C06_buf_writeBlock_inv g d.buf ⟨seqs, lits⟩ hinv).1
      rw [hwb] at this; exact this
    obtain ⟨Nw, hNw⟩ := gen_decoder_write g hg d1 hinv1 lits'
    refine ⟨Nw + 4294967297, fun gd hrep blk hl hob fuel hfu err0 r1 r2 r3 r4 => ?_⟩
    obtain ⟨f, rfl⟩ : ∃ f, fuel = f + 1 := ⟨fuel - 1, by omega⟩
    obtain ⟨gd1, gd2, blk', q1, q2, hl', hob', hstep⟩ :=
      writeBlock_loop_step g hg hrep hinv blk hl _ rfl _ rfl f (by omega)
    rw [writeBlock_model_unfold g d seqs lits n k l _ rfl _ rfl]
    rw [hob] at hstep q1 hob'
    rw [hwb] at hstep q1 hob' ⊢
    simp only [seqs'] at hs
    simp only [d1, lits'] at hw hNw
    simp only [he, hs, hw, ne_eq, not_false_eq_true, not_true_eq_false, if_true, if_false] at hstep ⊢
    have hlit : blk'.Literals.data = lits.drop ll := by
      have := congrArg LZ.Block.lits hob'
      simpa only [ofBlock] using this
    obtain ⟨gd', w1, w2⟩ := hNw gd1 q1 blk'.Literals hl' hlit f (by omega)
    rw [hw] at w1 w2
    rw [hstep, w1]
    exact ⟨gd', _, _, _, _, _, rfl, w2⟩
  | case3 d seqs lits n k l b nn kk ll e hwb d1 he seqs' hs d' fst e2 hwt he2 =>
    intro hinv hnh
    refine ⟨4294967297, fun gd hrep blk hl hob fuel hfu err0 r1 r2 r3 r4 => ?_⟩
    obtain ⟨f, rfl⟩ : ∃ f, fuel = f + 1 := ⟨fuel - 1, by omega⟩
    obtain ⟨gd1, gd2, blk', q1, q2, hl', hob', hstep⟩ :=
      writeBlock_loop_step g hg hrep hinv blk hl _ rfl _ rfl f (by omega)
    rw [writeBlock_model_unfold g d seqs lits n k l _ rfl _ rfl]
    rw [hob] at hstep q2
    rw [hwb] at hstep q2 ⊢
    simp only [seqs'] at hs
    simp only [d1] at hwt
    simp only [he, hs, hwt, he2, ne_eq, not_false_eq_true, not_true_eq_false, if_true, if_false] at hstep q2 ⊢
    rw [hstep]
    exact ⟨gd2, _, _, _, _, _, rfl, q2⟩
  | case4 d seqs lits n k l b nn kk ll e hwb d1 n1 k1 l1 he seqs' lits' hs d' fst e2 hwt he2 hkk ih =>
    intro hinv hnh
    have hinv1 : DecBuf.Inv d1.buf := by
      have := (C06_buf_writeBlock_inv g d.buf ⟨seqs, lits⟩ hinv).1
      rw [hwb] at this; exact this
    have hinv2 : DecBuf.Inv d'.buf := by
      have := (C06_writeTo_inv d1 hinv1).1
      rw [hwt] at this; exact this
    have hwt' := hwt
    simp only [d1] at hwt'
    simp only [seqs'] at hs
    rw [writeBlock_model_unfold g d seqs lits n k l _ rfl _ rfl] at hnh ⊢
    rw [hwb] at hnh ⊢
    simp only [he, hs, hwt', he2, hkk, ne_eq, not_false_eq_true, not_true_eq_false, if_true, if_false] at hnh ⊢
    obtain ⟨N, hN⟩ := ih hinv2 hnh
    refine ⟨N + 4294967297, fun gd hrep blk hl hob fuel hfu err0 r1 r2 r3 r4 => ?_⟩
    obtain ⟨f, rfl⟩ : ∃ f, fuel = f + 1 := ⟨fuel - 1, by omega⟩
    obtain ⟨gd1, gd2, blk', q1, q2, hl', hob', hstep⟩ :=
      writeBlock_loop_step g hg hrep hinv blk hl _ rfl _ rfl f (by omega)
    rw [hob] at hstep q2 hob'
    rw [hwb] at hstep q2 hob'
    simp only [he, hs, hwt', he2, ne_eq, not_false_eq_true, not_true_eq_false, if_true, if_false] at hstep q2
    rw [hstep]
    exact hN gd2 q2 blk' hl' hob' f (by omega) err0 r1 r2 r3 r4
  | case5 d seqs lits n k l b nn kk ll e hwb d1 n1 k1 l1 he seqs' lits' hs d' fst e2 hwt he2 hkk hprog ih =>
    intro hinv hnh
    have hinv1 : DecBuf.Inv d1.buf := by
      have := (C06_buf_writeBlock_inv g d.buf ⟨seqs, lits⟩ hinv).1
      rw [hwb] at this; exact this
    have hinv2 : DecBuf.Inv d'.buf := by
      have := (C06_writeTo_inv d1 hinv1).1
      rw [hwt] at this; exact this
    have hwt' := hwt
    simp only [d1] at hwt'
    simp only [seqs'] at hs
    rw [writeBlock_model_unfold g d seqs lits n k l _ rfl _ rfl] at hnh ⊢
    rw [hwb] at hnh ⊢
    simp only [he, hs, hwt', he2, hkk, hprog, and_self, ne_eq, not_false_eq_true, not_true_eq_false, if_true, if_false] at hnh ⊢
    obtain ⟨N, hN⟩ := ih hinv2 hnh
    refine ⟨N + 4294967297, fun gd hrep blk hl hob fuel hfu err0 r1 r2 r3 r4 => ?_⟩
    obtain ⟨f, rfl⟩ : ∃ f, fuel = f + 1 := ⟨fuel - 1, by omega⟩
    obtain ⟨gd1, gd2, blk', q1, q2, hl', hob', hstep⟩ :=
      writeBlock_loop_step g hg hrep hinv blk hl _ rfl _ rfl f (by omega)
    rw [hob] at hstep q2 hob'
    rw [hwb] at hstep q2 hob'
    simp only [he, hs, hwt', he2, ne_eq, not_false_eq_true, not_true_eq_false, if_true, if_false] at hstep q2
    rw [hstep]
    exact hN gd2 q2 blk' hl' hob' f (by omega) err0 r1 r2 r3 r4
  | case6 d seqs lits n k l b nn kk ll e hwb d1 he seqs' hs d' fst e2 hwt he2 hkk hprog =>
    intro hinv hnh
    exfalso; apply hnh
    rw [writeBlock_model_unfold g d seqs lits n k l _ rfl _ rfl]
    rw [hwb]
    simp only [seqs'] at hs
    simp only [d1] at hwt
    simp only [he, hs, hwt, he2, hkk, hprog, ne_eq, not_false_eq_true, not_true_eq_false, if_true, if_false]

/-- **`(*Decoder).WriteBlock`**: translated = model (`Decoder.writeBlock g d seqs lits 0 0 0`) for every block
    (valid or not), every writer script, every growth function and every sufficient fuel (`N` depends on the
    model state and the block only).  The only hypothesis on the state is `DecBuf.Inv` (C06: no hang). -/
theorem gen_decoder_writeBlock (g : Grow) (hg : GrowOK g) (d : LZ.Decoder) (hinv : DecBuf.Inv d.buf)
    (seqs : List LZ.Seq) (lits : List Byte) :
    ∃ N, ∀ (gd : Gen.Decoder Writer), Rep gd d → ∀ (blk : Block'), SWF blk.Literals → ofBlock blk = ⟨seqs, lits⟩ →
    ∀ fuel, N ≤ fuel → ∃ gd', Decoder_WriteBlock g fuel mWrite gd blk =
        Res.ok (gd', (d.writeBlock g seqs lits 0 0 0).2.1, ((d.writeBlock g seqs lits 0 0 0).2.2.1 : Int),
          ((d.writeBlock g seqs lits 0 0 0).2.2.2.1 : Int), genErr (d.writeBlock g seqs lits 0 0 0).2.2.2.2) ∧
      Rep gd' (d.writeBlock g seqs lits 0 0 0).1 := by
  obtain ⟨N, hN⟩ := writeBlock_loop_eq g hg d seqs lits 0 0 0 hinv (C06_writeBlock_no_hang g d seqs lits hinv)
  refine ⟨N, fun gd hrep blk hl hob fuel hf => ?_⟩
  obtain ⟨gd', c, n', k', l', blk', h1, h2⟩ := hN gd hrep blk hl hob fuel hf Gen.Err.ok 0 0 0 Gen.Err.ok
  refine ⟨gd', ?_, h2⟩
  unfold Decoder_WriteBlock
  simp only []
  have h0 : ((0 : Nat) : Int) = 0 := rfl
  rw [h0] at h1
  rw [h1]
  rfl

end LZ.GenDec

/-! ### axiom audit (printed on every build) -/
#print axioms LZ.GenDec.gen_dbuf_writeTo
#print axioms LZ.GenDec.gen_decoder_flush
#print axioms LZ.GenDec.gen_decoder_reset
#print axioms LZ.GenDec.gen_decoder_init
#print axioms LZ.GenDec.gen_decoder_writeByte
#print axioms LZ.GenDec.gen_decoder_write
#print axioms LZ.GenDec.gen_decoder_writeBlock
