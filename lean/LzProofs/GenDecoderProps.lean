/-
  LzProofs.GenDecoderProps — the Decoder layer of decoder_buffer.go (`DecoderBuffer.WriteTo`, `(*Decoder).Flush`,
  `Reset`, `WriteByte`, `Write`, `WriteBlock`: the retry loops repaired for defect D12) as TRANSLATED by
  `tools/extract` (fifth part, code_iface.go; module LzModel/Generated/CodeDecoder.lean) equals the hand-written
  executable model (LzModel/DecBuf.lean: `Decoder.writeTo/flush/reset/writeByte/write/writeBlock`).

  The destination `io.Writer` is an interface value: in the translation it is an abstract state of type `io_Writer`
  (a type parameter) and `w.Write(p)` is the opaque state-passing parameter
      io_Writer_Write : io_Writer → Slice → Res (io_Writer × Int × Err).
  Here it is instantiated with the model's scripted writer: `io_Writer := LZ.Writer` (script of responses + bytes
  accepted so far), `io_Writer_Write := mWrite` (`Writer.write` on the bytes of the slice, never panics).  Every
  theorem quantifies over ALL writer scripts (short writes, errors at any call), all growth functions `g` with
  `GrowOK g`, all bytes / blocks (valid or not).

  Abstraction: `absD gd = { buf := ofDB gd.buf, w := gd.w }` (`ofDB` from GenBufPropsD), `Rep gd d := absD gd = d ∧
  DBWF gd.buf`; errors by the total map `genErr : LZ.Err → Gen.Err` (inverse of `GenBuf.errOf` where that is defined;
  `.shortWrite ↦ io_ErrShortWrite`, `.writer c ↦ Err.error (3001 + 2c)` — distinct from nil and all error variables).

  Hang marker / fuel.  The model's retry loops return `hangErr` in the branch in which the Go loop would spin
  forever; the translated loops are fuel-indexed.  The `*_loop_eq` lemmas show "translated loop = model recursion"
  under the hypothesis that the model's result is not `hangErr`; the final theorems discharge that hypothesis with
  `C06_*_no_hang` (DecoderProps.lean), so the ONLY hypothesis on the state is `DecBuf.Inv d.buf`
  (`r ≤ |data| ∧ ws < bs ∧ |data| ≤ bs`, established by Init, preserved by every operation).  Fuel: `WriteByte`
  explicit (`d.unflushed < fuel`); `Write`, `WriteBlock`: `∃ N, ∀ fuel ≥ N` with `N` depending on the MODEL state and
  input only (not on the representation `gd`) — fuel is an artefact of the translation of loops.

  Index:  gen_dbuf_writeTo  gen_decoder_flush  gen_decoder_reset  gen_decoder_init  gen_decoder_writeByte  gen_decoder_write
          gen_decoder_writeBlock
  Lemmas that follow the generated text (first to break when decoder_buffer.go changes): `writeByte_loop_step`,
  `write_loop_step`, `writeBlock_loop_step` (one iteration of each retry loop in terms of the model operations);
  `write_model_unfold`, `writeBlock_model_unfold` restate one step of the model recursion without `let`s.

  Shape independence (robustness round 2).  The loop functions are never applied positionally: `wbLoop`, `wLoop`,
  `wkLoop` call them BY NAME of the Go variables (`gcall%` / `gproj%` below) and return the result in a fixed order,
  so the order / number of the loop-state components and whether the named result `err` is captured, carried or
  absent do not matter; `decoder_writeByte_eq`, `decoder_write_eq`, `decoder_writeBlock_eq` connect the translated
  methods with these wrappers.  The step lemmas unfold the loop function, rewrite each callee by its specification
  (`d.buf.WriteTo(d.w)` or `d.Flush()`: `rep_flush`), decide arithmetic conditions by `omega` whatever their spelling
  (`rw [if_pos (by omega)]`, `slice_okI … (by omega)`), error comparisons by `simp` with `genErr_*_iff` (both operand
  orders), and leave the value of the carried `err` existential (`∃ err'`, closed by `loop_step_close`).
-/
import Lean
import LzProofs.GenCallByName
import LzModel.Generated.CodeDecoder
import LzProofs.GenBufPropsD
import LzProofs.GenBufPropsDCopy
import LzProofs.DecoderProps

set_option linter.unusedSimpArgs false
set_option linter.unusedVariables false

namespace LZ.GenDec
open LZ LZ.Gen LZ.GenBuf

/-! ## calling a generated loop function BY NAME

The translator emits one recursive function per Go loop; its explicit arguments are the read-only captured variables
(parameters before the colon), the fuel, and the loop STATE (the variables assigned in the loop) — the order and the
number of the state components follow the Go text (first assignment), the result is `(exit, state…)` in the same order.
A harmless rewrite (a local declared inside instead of outside the loop, two independent statements swapped, a named
result that is no longer shadowed) changes that order/arity.  So the lemmas below never apply a loop function
positionally: `gcall% f [x := e, …]` builds the application from the GO VARIABLE NAMES (read off the defining equation
of `f`: header binders and the pattern variables of the last `match` alternative), `gproj% f x r` is the component of
the result tuple `r` that belongs to the state variable `x`.  Names that `f` does not have are ignored (a variable that
is no longer captured), arguments that are not given are `_` (an error unless unification finds them).  Both are pure
notation: the elaborated term is an ordinary application / projection checked by the kernel. -/
-- (`gcall%` / `gproj%` live in LzProofs/GenCallByName.lean, shared with the OSAP modules)

/-- `Res.bind` is associative -/
theorem bind_assoc {α β γ : Type} (m : Res α) (f : α → Res β) (k : β → Res γ) :
    Res.bind (Res.bind m f) k = Res.bind m (fun a => Res.bind (f a) k) := by
  cases m <;> rfl

/-- two continuations that agree on the value of `m` -/
theorem bind_congr_ok {α β : Type} {m : Res α} {f k : α → Res β} (h : ∀ a, m = Res.ok a → f a = k a) :
    Res.bind m f = Res.bind m k := by
  cases m with
  | ok a => exact h a rfl
  | _ => rfl

theorem bind_eq_ok {α β : Type} {m : Res α} {f : α → Res β} {b : β} (h : Res.bind m f = Res.ok b) :
    ∃ a, m = Res.ok a ∧ f a = Res.ok b := by
  cases m with
  | ok a => exact ⟨a, rfl, h⟩
  | _ => exact absurd h (by simp [Res.bind])

/-- `s[a:b]` with `Int` bounds given up to (linear) equations: `rw [slice_okI s _ _ i j (by omega) (by omega) …]`
    rewrites the first slice expression of `s` whatever the spelling of its bounds -/
theorem slice_okI (s : Slice) (a b : Int) (i j : Nat) (ha : a = (i : Int)) (hb : b = (j : Int))
    (hij : i ≤ j) (hj : j ≤ s.arr.length) :
    Slice.slice s a b = Res.ok { arr := s.arr.drop i, len := j - i } := by
  subst ha hb; exact slice_ok s i j hij hj

/-! ## errors, the scripted writer as the opaque callee -/

/-- the generated error value that stands for a model error (total; the inverse of `GenBuf.errOf` where
    that is defined).  Errors of the writer script (`.writer c`) are arbitrary values that differ from
    `nil` and from every error variable. -/
def genErr : LZ.Err → Gen.Err
  | .ok => Gen.Err.ok
  | .empty => Gen.ErrEmptyBuffer
  | .full => Gen.ErrFullBuffer
  | .eof => Gen.io_EOF
  | .outOfBuffer => Gen.ErrOutOfBuffer
  | .endOfBuffer => Gen.ErrEndOfBuffer
  | .litLen => Gen.errLitLen
  | .matchLen => Gen.errMatchLen
  | .offset => Gen.errOffset
  | .shortWrite => Gen.io_ErrShortWrite
  | .oversize => Gen.Err.error 2901
  | .cfg => Gen.Err.error 2902
  | .panic => Gen.Err.error 2903
  | .reader c => Gen.Err.error (3000 + 2 * c)
  | .writer c => Gen.Err.error (3001 + 2 * c)

theorem genErr_ok_iff (e : LZ.Err) : genErr e = Gen.Err.ok ↔ e = .ok := by
  cases e <;> simp [genErr, Gen.ErrEmptyBuffer, Gen.ErrFullBuffer, Gen.io_EOF, Gen.ErrOutOfBuffer, Gen.ErrEndOfBuffer,
    Gen.errLitLen, Gen.errMatchLen, Gen.errOffset, Gen.io_ErrShortWrite]

theorem genErr_full_iff (e : LZ.Err) : genErr e = Gen.ErrFullBuffer ↔ e = .full := by
  cases e <;> simp [genErr, Gen.ErrEmptyBuffer, Gen.ErrFullBuffer, Gen.io_EOF, Gen.ErrOutOfBuffer, Gen.ErrEndOfBuffer,
    Gen.errLitLen, Gen.errMatchLen, Gen.errOffset, Gen.io_ErrShortWrite] <;> omega

theorem genErr_ok_iff' (e : LZ.Err) : Gen.Err.ok = genErr e ↔ e = .ok := by
  rw [eq_comm]; exact genErr_ok_iff e

theorem genErr_full_iff' (e : LZ.Err) : Gen.ErrFullBuffer = genErr e ↔ e = .full := by
  rw [eq_comm]; exact genErr_full_iff e

theorem genErr_of_errOf {e : Gen.Err} {m : LZ.Err} (h : errOf e = some m) : e = genErr m := by
  unfold errOf at h
  repeat' split at h
  all_goals first
    | (injection h with h; subst h; subst_vars; rfl)
    | (exact absurd h (by simp))

/-- the scripted writer of the model (LzModel/DecBuf.lean: `Writer.write`) as the opaque callee
    `io_Writer_Write` of the translated code: state = the script, it never panics -/
def mWrite (w : Writer) (p : Slice) : Res (Writer × Int × Gen.Err) :=
  Res.ok ((w.write p.data).1, ((w.write p.data).2.1 : Int), genErr (w.write p.data).2.2)

/-- abstraction of a generated decoder -/
def absD (gd : Gen.Decoder Writer) : LZ.Decoder := { buf := ofDB gd.buf, w := gd.w }

/-- `gd` represents the model decoder `d` -/
def Rep (gd : Gen.Decoder Writer) (d : LZ.Decoder) : Prop := absD gd = d ∧ DBWF gd.buf

theorem writer_k_le (w : Writer) (p : List Byte) : (w.write p).2.1 ≤ p.length := by
  unfold Writer.write
  split
  · exact Nat.le_refl _
  · exact Nat.min_le_right _ _

/-- `DecoderBuffer.WriteTo(w)` -/
theorem gen_dbuf_writeTo (b : DecoderBuffer) (h : DBWF b) (hr : b.R ≤ b.Data.len) (w : Writer) :
    ∃ b', DecoderBuffer_WriteTo mWrite b w =
        Res.ok (b', (Decoder.writeTo ⟨ofDB b, w⟩).1.w, ((Decoder.writeTo ⟨ofDB b, w⟩).2.1 : Int),
          genErr (Decoder.writeTo ⟨ofDB b, w⟩).2.2) ∧
      ofDB b' = (Decoder.writeTo ⟨ofDB b, w⟩).1.buf ∧ DBWF b' := by
  obtain ⟨hd, hr0, ho0, hw0, hb0⟩ := h
  have hswf : b.Data.len ≤ b.Data.arr.length := hd
  obtain ⟨r, hrr⟩ : ∃ r : Nat, b.R = (r : Int) := ⟨b.R.toNat, by omega⟩
  have hrl : r ≤ b.Data.len := by omega
  unfold DecoderBuffer_WriteTo
  simp only [Int.ofNat_eq_natCast]
  rw [slice_okI b.Data _ _ r b.Data.len (by omega) (by omega) hrl hswf]
  simp only [bind_ok, mWrite]
  have hpd : ({ arr := b.Data.arr.drop r, len := b.Data.len - r } : Slice).data = (ofDB b).data.drop (ofDB b).r := by
    rw [slice_data b.Data hd r b.Data.len hrl (Nat.le_refl _)]
    simp only [ofDB, hrr, Int.toNat_natCast]
    rw [List.take_of_length_le]
    simp only [List.length_drop, data_length hd]; omega
  have hpl : ((ofDB b).data.drop (ofDB b).r).length = b.Data.len - r := by
    simp only [ofDB, hrr, Int.toNat_natCast, List.length_drop, data_length hd]
  rw [hpd]
  unfold Decoder.writeTo
  simp only []
  generalize hwr : w.write ((ofDB b).data.drop (ofDB b).r) = wr
  have hk := writer_k_le w ((ofDB b).data.drop (ofDB b).r)
  rw [hwr, hpl] at hk
  obtain ⟨w', k, e⟩ := wr
  simp only [] at hk ⊢
  refine ⟨{ b with R := b.R + (k : Int) }, ?_, ?_, ⟨hd, by show (0 : Int) ≤ b.R + (k : Int); omega, ho0, hw0, hb0⟩⟩
  · congr 1
    simp only [Prod.mk.injEq, true_and]
    -- the error component: the test `err == nil && k < len(p)` in any spelling / order of the conjuncts
    by_cases he : e = Err.ok <;> by_cases hk' : k < b.Data.len - r <;>
      simp only [he, hk', hpl, genErr_ok_iff, genErr_ok_iff', Int.ofNat_lt, gt_iff_lt, and_self, and_true, true_and,
        and_false, false_and, if_true, if_false] <;> rfl
  · simp only [ofDB, hrr]
    congr 1 <;> omega

theorem inv_r_le {b : DecoderBuffer} (h : DBWF b) (hinv : DecBuf.Inv (ofDB b)) : b.R ≤ b.Data.len := by
  have h1 := hinv.1
  have h2 := h.r
  simp only [ofDB, data_length h.data] at h1
  omega

theorem inv_len_le {b : DecoderBuffer} (h : DBWF b) (hinv : DecBuf.Inv (ofDB b)) :
    (b.Data.len : Int) ≤ b.DecoderConfig.BufferSize := by
  have h1 := hinv.2.2
  have h2 := h.bs
  simp only [ofDB, data_length h.data] at h1
  omega

/-- `WriteTo` on a represented decoder -/
theorem rep_writeTo {gd : Gen.Decoder Writer} {d : LZ.Decoder} (hrep : Rep gd d) (hinv : DecBuf.Inv d.buf) :
    ∃ gd' : Gen.Decoder Writer, DecoderBuffer_WriteTo mWrite gd.buf gd.w =
        Res.ok (gd'.buf, gd'.w, (d.writeTo.2.1 : Int), genErr d.writeTo.2.2) ∧ Rep gd' d.writeTo.1 := by
  obtain ⟨habs, hwf⟩ := hrep
  subst habs
  obtain ⟨b', e1, e2, e3⟩ := gen_dbuf_writeTo gd.buf hwf (inv_r_le hwf hinv) gd.w
  refine ⟨⟨b', (Decoder.writeTo ⟨ofDB gd.buf, gd.w⟩).1.w⟩, e1, ?_, e3⟩
  simp only [absD, e2]

/-- **`(*Decoder).Flush`**: translated = model, for every writer script -/
theorem gen_decoder_flush {gd : Gen.Decoder Writer} {d : LZ.Decoder} (hrep : Rep gd d) (hinv : DecBuf.Inv d.buf) :
    ∃ gd', Decoder_Flush mWrite gd = Res.ok (gd', genErr d.flush.2) ∧ Rep gd' d.flush.1 := by
  obtain ⟨gd', e1, e2⟩ := rep_writeTo hrep hinv
  refine ⟨gd', ?_, e2⟩
  unfold Decoder_Flush
  rw [e1]
  rfl

/-- `d.buf.WriteTo(d.w)` and `d.Flush()` on a represented decoder: both spellings of the call give the same decoder -/
theorem rep_flush {gd : Gen.Decoder Writer} {d : LZ.Decoder} (hrep : Rep gd d) (hinv : DecBuf.Inv d.buf) :
    ∃ gd' : Gen.Decoder Writer, DecoderBuffer_WriteTo mWrite gd.buf gd.w =
        Res.ok (gd'.buf, gd'.w, (d.writeTo.2.1 : Int), genErr d.writeTo.2.2) ∧
      Decoder_Flush mWrite gd = Res.ok (gd', genErr d.writeTo.2.2) ∧ Rep gd' d.writeTo.1 := by
  obtain ⟨gd', e1, e2⟩ := rep_writeTo hrep hinv
  refine ⟨gd', e1, ?_, e2⟩
  unfold Decoder_Flush
  rw [e1]
  rfl

/-- **`(*Decoder).Reset`** -/
theorem gen_decoder_reset {gd : Gen.Decoder Writer} {d : LZ.Decoder} (hrep : Rep gd d) (w : Writer) :
    ∃ gd', Decoder_Reset gd w = Res.ok gd' ∧ Rep gd' (d.reset w) := by
  obtain ⟨habs, hwf⟩ := hrep
  subst habs
  obtain ⟨b', e1, e2, e3⟩ := gen_dbuf_reset gd.buf hwf
  refine ⟨⟨b', w⟩, ?_, ?_, e3⟩
  · unfold Decoder_Reset
    rw [e1]; rfl
  · simp only [absD, Decoder.reset, e2]

/-- **`(*Decoder).Init`**: `DecoderBuffer.Init` (D01) followed by `d.w = w`; on a rejected configuration the
    decoder is unchanged and the error is not nil -/
theorem gen_decoder_init (gd : Gen.Decoder Writer) (w : Writer) (cfg : Gen.DecoderConfig) :
    match DecBuf.init cfg.WindowSize cfg.BufferSize gd.buf.Data.cap with
    | some m => ∃ gd', Decoder_Init gd w cfg = Res.ok (gd', Gen.Err.ok) ∧ Rep gd' { buf := m, w := w }
    | none => ∃ e, Decoder_Init gd w cfg = Res.ok (gd, e) ∧ e ≠ Gen.Err.ok := by
  have h := gen_dbuf_init gd.buf cfg
  split at h
  · next m hm =>
    obtain ⟨b', e1, e2, e3⟩ := h
    simp only [hm]
    refine ⟨⟨b', w⟩, ?_, ?_, e3⟩
    · unfold Decoder_Init
      rw [e1]; rfl
    · simp only [absD, e2]
  · next hm =>
    obtain ⟨e, e1, e2⟩ := h
    simp only [hm]
    refine ⟨e, ?_, e2⟩
    unfold Decoder_Init
    rw [e1]
    simp only [bind_ok, e2, ne_eq, not_false_eq_true, if_true, if_false]

/-! ## WriteByte -/

/-- `DecoderBuffer.WriteByte` on a represented decoder -/
theorem rep_buf_writeByte (g : Grow) (hg : GrowOK g) {gd : Gen.Decoder Writer} {d : LZ.Decoder} (hrep : Rep gd d) (c : UInt8) :
    ∃ b', DecoderBuffer_WriteByte g gd.buf c = Res.ok (b', genErr (d.buf.writeByte g c).2) ∧
      Rep ⟨b', gd.w⟩ { d with buf := (d.buf.writeByte g c).1 } := by
  obtain ⟨habs, hwf⟩ := hrep
  subst habs
  obtain ⟨b', e, e1, e2, e3, e4⟩ := gen_dbuf_writeByte g hg gd.buf hwf c
  refine ⟨b', ?_, ?_, e4⟩
  · rw [e1, genErr_of_errOf e3]; rfl
  · simp only [absD, e2]

/-- closes `∃ err', lhs = rhs` at the end of a loop-step lemma: `err'` is whatever the recursive call carries (found by
    unification), or irrelevant -/
macro "loop_step_close" : tactic =>
  `(tactic| first | exact ⟨_, rfl⟩ | exact ⟨Gen.Err.ok, rfl⟩ | exact ⟨Gen.Err.ok, trivial⟩)

/-- the retry loop of `WriteByte`, called by name (`err` is ignored when the loop does not carry it), with the result
    in the fixed order (exit, d, ret_1) -/
def wbLoop (g : Grow) (c : UInt8) (fuel : Nat) (gd : Gen.Decoder Writer) (err ret : Gen.Err) :
    Res (Nat × Gen.Decoder Writer × Gen.Err) :=
  Res.bind (gcall% Decoder_WriteByte_loop_1 [grow := g, io_Writer_Write := mWrite, c := c, fuel := fuel, d := gd,
      err := err, ret_1 := ret])
    fun r => Res.ok (r.1, gproj% Decoder_WriteByte_loop_1 d r, gproj% Decoder_WriteByte_loop_1 ret_1 r)

/-- `Decoder_WriteByte` = its loop + `return ret_1` -/
theorem decoder_writeByte_eq (g : Grow) (fuel : Nat) (gd : Gen.Decoder Writer) (c : UInt8) :
    Decoder_WriteByte g fuel mWrite gd c =
      Res.bind (wbLoop g c fuel gd Gen.Err.ok Gen.Err.ok) fun r => Res.ok (r.2.1, r.2.2) := by
  unfold Decoder_WriteByte wbLoop
  simp only [bind_assoc, bind_ok]

/-- one iteration of the retry loop of `WriteByte`, in terms of the model operations -/
theorem writeByte_loop_step (g : Grow) (hg : GrowOK g) {gd : Gen.Decoder Writer} {d : LZ.Decoder} (hrep : Rep gd d)
    (hinv : DecBuf.Inv d.buf) (c : UInt8) :
    let d1 : LZ.Decoder := { d with buf := (d.buf.writeByte g c).1 }
    let e := (d.buf.writeByte g c).2
    ∃ gd1 gd2, Rep gd1 d1 ∧ Rep gd2 d1.writeTo.1 ∧
      ∀ (f : Nat) (err ret : Gen.Err), ∃ err', wbLoop g c (f + 1) gd err ret =
        if e ≠ .full then Res.ok (1, gd1, genErr e)
        else if d1.writeTo.2.2 ≠ .ok then Res.ok (1, gd2, genErr d1.writeTo.2.2)
        else wbLoop g c f gd2 err' ret := by
  intro d1 e
  obtain ⟨b', e1, e2⟩ := rep_buf_writeByte g hg hrep c
  have hinv1 : DecBuf.Inv d1.buf := (C06_buf_writeByte_inv g d.buf c hinv).1
  obtain ⟨gd2, f1, fl1, f2⟩ := rep_flush e2 hinv1
  refine ⟨⟨b', gd.w⟩, gd2, e2, f2, ?_⟩
  intro f err ret
  unfold wbLoop
  rw [Decoder_WriteByte_loop_1]
  rw [e1]
  simp only [bind_ok]
  by_cases h1 : (d.buf.writeByte g c).2 = .full
  · simp only [e, h1, ne_eq, genErr_full_iff, genErr_full_iff', genErr_ok_iff, genErr_ok_iff', not_true_eq_false,
      not_false_eq_true, if_true, if_false]
    simp only [] at f1
    first | rw [f1] | rw [fl1]
    simp only [bind_ok]
    by_cases h2 : d1.writeTo.2.2 = .ok
    · simp only [d1] at h2
      simp only [d1, h2, ne_eq, genErr_full_iff, genErr_full_iff', genErr_ok_iff, genErr_ok_iff', not_true_eq_false,
        not_false_eq_true, if_true, if_false, reduceCtorEq]
      loop_step_close
    · simp only [d1] at h2
      simp only [d1, h2, ne_eq, genErr_full_iff, genErr_full_iff', genErr_ok_iff, genErr_ok_iff', not_true_eq_false,
        not_false_eq_true, if_true, if_false, bind_ok]
      loop_step_close
  · simp only [e, h1, ne_eq, genErr_full_iff, genErr_full_iff', genErr_ok_iff, genErr_ok_iff', not_true_eq_false,
      not_false_eq_true, if_true, if_false, bind_ok]
    loop_step_close

/-- the retry loop of `WriteByte` = the model's recursion, for every fuel above the number of unflushed bytes,
    provided the model does not take its "would spin forever" branch (`hangErr`; excluded by C06) -/
theorem writeByte_loop_eq (g : Grow) (hg : GrowOK g) (c : UInt8) : ∀ (d : LZ.Decoder), DecBuf.Inv d.buf →
    (d.writeByte g c).2 ≠ hangErr → ∀ (gd : Gen.Decoder Writer), Rep gd d → ∀ (fuel : Nat), d.unflushed < fuel →
    ∀ (err ret : Gen.Err), ∃ gd', wbLoop g c fuel gd err ret =
        Res.ok (1, gd', genErr (d.writeByte g c).2) ∧ Rep gd' (d.writeByte g c).1 := by
  intro d
  induction d using Decoder.writeByte.induct g c with
  | case1 x b e hwb he =>
    intro hinv hnh gd hrep fuel hf err ret
    obtain ⟨f, rfl⟩ : ∃ f, fuel = f + 1 := ⟨fuel - 1, by omega⟩
    obtain ⟨gd1, gd2, r1, r2, hstep⟩ := writeByte_loop_step g hg hrep hinv c
    rw [Decoder.writeByte]
    simp only [hwb] at hstep r1 r2 ⊢
    simp only [he, ne_eq, not_false_eq_true, if_true] at ⊢
    obtain ⟨err', hs⟩ := hstep f err ret
    simp only [he, ne_eq, not_false_eq_true, if_true] at hs
    exact ⟨gd1, hs, r1⟩
  | case2 x b e hwb d1 he d' k e2 hwt he2 =>
    intro hinv hnh gd hrep fuel hf err ret
    obtain ⟨f, rfl⟩ : ∃ f, fuel = f + 1 := ⟨fuel - 1, by omega⟩
    obtain ⟨gd1, gd2, r1, r2, hstep⟩ := writeByte_loop_step g hg hrep hinv c
    rw [Decoder.writeByte]
    simp only [hwb] at hstep r1 r2 ⊢
    simp only [d1] at hwt
    simp only [he, hwt, ne_eq, not_false_eq_true, if_true, if_false, he2] at hstep r2 ⊢
    obtain ⟨err', hs⟩ := hstep f err ret
    exact ⟨gd2, hs, r2⟩
  | case3 x b e hwb d1 he d' k e2 hwt he2 hprog ih =>
    intro hinv hnh gd hrep fuel hf err ret
    obtain ⟨f, rfl⟩ : ∃ f, fuel = f + 1 := ⟨fuel - 1, by omega⟩
    obtain ⟨gd1, gd2, r1, r2, hstep⟩ := writeByte_loop_step g hg hrep hinv c
    have hinv1 : DecBuf.Inv d1.buf := by
      have := (C06_buf_writeByte_inv g x.buf c hinv).1
      simp only [hwb] at this; exact this
    have hinv2 : DecBuf.Inv d'.buf := by
      have := (C06_writeTo_inv d1 hinv1).1
      rw [hwt] at this; exact this
    rw [Decoder.writeByte] at hnh ⊢
    simp only [hwb] at hstep r1 r2 hnh ⊢
    simp only [d1] at hwt
    simp only [he, hwt, ne_eq, not_false_eq_true, if_true, if_false, he2, hprog, and_self, dite_true] at hstep r2 hnh ⊢
    obtain ⟨err', hs⟩ := hstep f err ret
    rw [hs]
    exact ih hinv2 hnh gd2 r2 f (by omega) _ _
  | case4 x b e hwb d1 he d' k e2 hwt he2 hprog =>
    intro hinv hnh
    exfalso
    apply hnh
    rw [Decoder.writeByte]
    simp only [hwb]
    simp only [d1] at hwt
    simp only [he, hwt, ne_eq, not_false_eq_true, if_true, if_false, he2, hprog, dite_false]

/-- **`(*Decoder).WriteByte`**: translated = model for every writer script, every growth function, every fuel
    above the number of unflushed bytes.  The only hypothesis on the state is `DecBuf.Inv` (C06: no hang). -/
theorem gen_decoder_writeByte (g : Grow) (hg : GrowOK g) {gd : Gen.Decoder Writer} {d : LZ.Decoder} (hrep : Rep gd d)
    (hinv : DecBuf.Inv d.buf) (c : UInt8) (fuel : Nat) (hf : d.unflushed < fuel) :
    ∃ gd', Decoder_WriteByte g fuel mWrite gd c = Res.ok (gd', genErr (d.writeByte g c).2) ∧
      Rep gd' (d.writeByte g c).1 := by
  obtain ⟨gd', h1, h2⟩ := writeByte_loop_eq g hg c d hinv (C06_writeByte_no_hang g d c hinv) gd hrep fuel hf
    Gen.Err.ok Gen.Err.ok
  refine ⟨gd', ?_, h2⟩
  rw [decoder_writeByte_eq, h1]
  rfl

/-! ## Write -/

theorem dbuf_write_k (g : Grow) (b : DecBuf) (q : List Byte) :
    (b.write g q).2.1 ≤ q.length ∧ ((b.write g q).2.2 = .ok → (b.write g q).2.1 = q.length) := by
  unfold DecBuf.write
  simp only []
  repeat' split
  all_goals simp

/-- `DecoderBuffer.Write` on a represented decoder -/
theorem rep_buf_write (g : Grow) (hg : GrowOK g) {gd : Gen.Decoder Writer} {d : LZ.Decoder} (hrep : Rep gd d)
    (q : Slice) (hq : SWF q) :
    ∃ b', DecoderBuffer_Write g gd.buf q = Res.ok (b', ((d.buf.write g q.data).2.1 : Int), genErr (d.buf.write g q.data).2.2) ∧
      Rep ⟨b', gd.w⟩ { d with buf := (d.buf.write g q.data).1 } := by
  obtain ⟨habs, hwf⟩ := hrep
  subst habs
  obtain ⟨b', e, e1, e2, e3, e4⟩ := gen_dbuf_write g hg gd.buf hwf q hq
  refine ⟨b', ?_, ?_, e4⟩
  · rw [e1, genErr_of_errOf e3]; rfl
  · simp only [absD, e2]

/-- the loop of `Write`, called by name (`err`: the named result, captured or carried by the loop or neither), with
    the result in the fixed order (exit, d, n, p, ret_1, ret_2) -/
def wLoop (g : Grow) (fuel : Nat) (gd : Gen.Decoder Writer) (n : Int) (ps : Slice) (err : Gen.Err) (r1 : Int)
    (r2 : Gen.Err) : Res (Nat × Gen.Decoder Writer × Int × Slice × Int × Gen.Err) :=
  Res.bind (gcall% Decoder_Write_loop_1 [grow := g, io_Writer_Write := mWrite, err := err, fuel := fuel, d := gd,
      n := n, p := ps, ret_1 := r1, ret_2 := r2])
    fun r => Res.ok (r.1, gproj% Decoder_Write_loop_1 d r, gproj% Decoder_Write_loop_1 n r,
      gproj% Decoder_Write_loop_1 p r, gproj% Decoder_Write_loop_1 ret_1 r, gproj% Decoder_Write_loop_1 ret_2 r)

/-- what `Decoder_Write` does with the result of its loop (exit code 1 = `return n, err` inside the loop,
    0 = the loop ended: `return n, nil`) -/
def writeFin (r : Nat × Gen.Decoder Writer × Int × Slice × Int × Gen.Err) : Res (Gen.Decoder Writer × Int × Gen.Err) :=
  if r.1 = 1 then Res.ok (r.2.1, r.2.2.2.2.1, r.2.2.2.2.2) else Res.ok (r.2.1, r.2.2.1, Gen.Err.ok)

/-- `Decoder_Write` = its loop + `writeFin` -/
theorem decoder_write_eq (g : Grow) (fuel : Nat) (gd : Gen.Decoder Writer) (ps : Slice) :
    Decoder_Write g fuel mWrite gd ps = Res.bind (wLoop g fuel gd 0 ps Gen.Err.ok 0 Gen.Err.ok) writeFin := by
  unfold Decoder_Write wLoop
  simp only [bind_assoc, bind_ok]
  apply bind_congr_ok
  intro r _
  unfold writeFin
  simp only []
  repeat' split
  all_goals first | rfl | omega

/-- the chunk `q := p; if len(q) > m { q = q[:m] }`, as a slice value -/
theorem chunk_spec (ps : Slice) (hs : SWF ps) (m : Nat) (hm : m < ps.len) :
    SWF ({ arr := ps.arr.drop 0, len := m - 0 } : Slice) ∧
      ({ arr := ps.arr.drop 0, len := m - 0 } : Slice).data = ps.data.take m := by
  constructor
  · unfold SWF at hs ⊢; simp only [List.drop_zero, Nat.sub_zero]; omega
  · simp only [Slice.data, List.drop_zero, Nat.sub_zero, List.take_take]
    congr 1; omega

theorem slice_from (ps : Slice) (hs : SWF ps) (k : Nat) (hk : k ≤ ps.len) :
    SWF ({ arr := ps.arr.drop k, len := ps.len - k } : Slice) ∧
      ({ arr := ps.arr.drop k, len := ps.len - k } : Slice).data = ps.data.drop k := by
  constructor
  · unfold SWF at hs ⊢; simp only [List.length_drop]; omega
  · rw [slice_data ps hs k ps.len hk (Nat.le_refl _)]
    rw [List.take_of_length_le]
    simp only [List.length_drop, data_length hs]; omega

/-- one iteration of the loop of `Write`, in terms of the model operations -/
theorem write_loop_step (g : Grow) (hg : GrowOK g) {gd : Gen.Decoder Writer} {d : LZ.Decoder} (hrep : Rep gd d)
    (hinv : DecBuf.Inv d.buf) (ps : Slice) (hs : SWF ps) (p : List Byte) (hps : ps.data = p) (hne : p.length ≠ 0)
    (q : List Byte) (hq : q = if p.length > d.buf.bs - d.buf.ws then p.take (d.buf.bs - d.buf.ws) else p)
    (d1 : LZ.Decoder) (hd1 : d1 = { d with buf := (d.buf.write g q).1 }) :
    ∃ gd1 gd2 ps', Rep gd1 d1 ∧ Rep gd2 d1.writeTo.1 ∧ SWF ps' ∧ ps'.data = p.drop (d.buf.write g q).2.1 ∧
      ∀ (f : Nat) (err0 : Gen.Err) (n r1 : Int) (r2 : Gen.Err), ∃ err', wLoop g (f + 1) gd n ps err0 r1 r2 =
        if (d.buf.write g q).2.2 = .ok then wLoop g f gd1 (n + ((d.buf.write g q).2.1 : Int)) ps' err' r1 r2
        else if (d.buf.write g q).2.2 ≠ .full then
          Res.ok (1, gd1, n + ((d.buf.write g q).2.1 : Int), ps', n + ((d.buf.write g q).2.1 : Int), genErr (d.buf.write g q).2.2)
        else if d1.writeTo.2.2 ≠ .ok then
          Res.ok (1, gd2, n + ((d.buf.write g q).2.1 : Int), ps', n + ((d.buf.write g q).2.1 : Int), genErr d1.writeTo.2.2)
        else wLoop g f gd2 (n + ((d.buf.write g q).2.1 : Int)) ps' err' r1 r2 := by
  subst hps
  have hl := data_length hs
  have hwf := hrep.2
  have habs := hrep.1
  have hswf : ps.len ≤ ps.arr.length := hs
  -- the configuration, for `omega`
  have hlt := hinv.2.1
  have hbs : gd.buf.DecoderConfig.BufferSize = (d.buf.bs : Int) := by
    have hb := hwf.bs
    simp only [← habs, absD, ofDB]; omega
  have hws : gd.buf.DecoderConfig.WindowSize = (d.buf.ws : Int) := by
    have hw := hwf.ws
    simp only [← habs, absD, ofDB]; omega
  -- the chunk, as a slice
  obtain ⟨qs, hqs, hq2, hq3⟩ : ∃ qs : Slice, (qs = if ps.len > d.buf.bs - d.buf.ws then
      { arr := ps.arr.drop 0, len := (d.buf.bs - d.buf.ws) - 0 } else ps) ∧ SWF qs ∧ qs.data = q := by
    refine ⟨_, rfl, ?_⟩
    rw [hq, hl]
    split
    · next hc => exact chunk_spec ps hs _ hc
    · exact ⟨hs, rfl⟩
  obtain ⟨b', e1, e2⟩ := rep_buf_write g hg hrep qs hq2
  rw [hq3] at e1 e2
  rw [← hd1] at e2
  have hinv1 : DecBuf.Inv d1.buf := by rw [hd1]; exact (C06_buf_write_inv g d.buf q hinv).1
  obtain ⟨gd2, f1, fl1, f2⟩ := rep_flush e2 hinv1
  have hkq := (dbuf_write_k g d.buf q).1
  have hql : q.length ≤ ps.len := by
    rw [hq]; split
    · simp only [List.length_take]; omega
    · omega
  obtain ⟨hp2, hp3⟩ := slice_from ps hs (d.buf.write g q).2.1 (by omega)
  refine ⟨⟨b', gd.w⟩, gd2, _, e2, f2, hp2, hp3, ?_⟩
  intro f err0 n r1 r2
  unfold wLoop
  rw [Decoder_Write_loop_1]
  simp only [Int.ofNat_eq_natCast]
  -- the loop condition `len(p) > 0`
  rw [if_pos (by omega)]
  -- the chunk: the `if` is decided by arithmetic, in any spelling
  have hchunk : ∀ {β : Type} (X : Res Slice) (K : Slice → Res β), X = Res.ok qs → Res.bind X K = K qs := by
    intro β X K hX; rw [hX]; rfl
  rw [bind_assoc, hchunk]
  rotate_left
  · by_cases hc : ps.len > d.buf.bs - d.buf.ws
    · rw [if_pos (by omega)]
      rw [slice_okI ps _ _ 0 (d.buf.bs - d.buf.ws) (by omega) (by omega) (by omega) (by omega)]
      simp only [bind_ok, hqs, hc, if_true]
    · rw [if_neg (by omega)]
      simp only [hqs, hc, if_false]
  rw [e1]
  simp only [bind_ok]
  rw [slice_okI ps _ _ (d.buf.write g q).2.1 ps.len (by omega) (by omega) (by omega) hswf]
  simp only [bind_ok]
  by_cases h0 : (d.buf.write g q).2.2 = .ok
  · simp only [h0, ne_eq, genErr_full_iff, genErr_full_iff', genErr_ok_iff, genErr_ok_iff', not_true_eq_false,
      not_false_eq_true, if_true, if_false, reduceCtorEq]
    loop_step_close
  · by_cases h1 : (d.buf.write g q).2.2 = .full
    · simp only [h1, ne_eq, genErr_full_iff, genErr_full_iff', genErr_ok_iff, genErr_ok_iff', not_true_eq_false,
        not_false_eq_true, if_true, if_false, reduceCtorEq]
      simp only [] at f1
      first | rw [f1] | rw [fl1]
      simp only [bind_ok]
      by_cases h2 : d1.writeTo.2.2 = .ok
      · simp only [h2, ne_eq, genErr_full_iff, genErr_full_iff', genErr_ok_iff, genErr_ok_iff', not_true_eq_false,
          not_false_eq_true, if_true, if_false, reduceCtorEq]
        loop_step_close
      · simp only [h2, ne_eq, genErr_full_iff, genErr_full_iff', genErr_ok_iff, genErr_ok_iff', not_true_eq_false,
          not_false_eq_true, if_true, if_false, bind_ok]
        loop_step_close
    · simp only [h0, h1, ne_eq, genErr_full_iff, genErr_full_iff', genErr_ok_iff, genErr_ok_iff', not_true_eq_false,
        not_false_eq_true, if_true, if_false, bind_ok]
      loop_step_close

theorem write_model_unfold (g : Grow) (d : LZ.Decoder) (p : List Byte) (acc : Nat) (hp : p.length ≠ 0) (q : List Byte)
    (hq : q = if p.length > d.buf.bs - d.buf.ws then p.take (d.buf.bs - d.buf.ws) else p) :
    d.write g p acc =
      if (d.buf.write g q).2.2 = .ok then
        if 0 < (d.buf.write g q).2.1 ∧ (d.buf.write g q).2.1 ≤ p.length then
          Decoder.write g { d with buf := (d.buf.write g q).1 } (p.drop (d.buf.write g q).2.1) (acc + (d.buf.write g q).2.1)
        else ({ d with buf := (d.buf.write g q).1 }, acc + (d.buf.write g q).2.1, hangErr)
      else if (d.buf.write g q).2.2 ≠ .full then
        ({ d with buf := (d.buf.write g q).1 }, acc + (d.buf.write g q).2.1, (d.buf.write g q).2.2)
      else if (Decoder.writeTo { d with buf := (d.buf.write g q).1 }).2.2 ≠ .ok then
        ((Decoder.writeTo { d with buf := (d.buf.write g q).1 }).1, acc + (d.buf.write g q).2.1,
          (Decoder.writeTo { d with buf := (d.buf.write g q).1 }).2.2)
      else if (Decoder.writeTo { d with buf := (d.buf.write g q).1 }).2.1 > 0 ∧
          (Decoder.writeTo { d with buf := (d.buf.write g q).1 }).1.unflushed < d.unflushed then
        Decoder.write g (Decoder.writeTo { d with buf := (d.buf.write g q).1 }).1 (p.drop (d.buf.write g q).2.1)
          (acc + (d.buf.write g q).2.1)
      else ((Decoder.writeTo { d with buf := (d.buf.write g q).1 }).1, acc + (d.buf.write g q).2.1, hangErr) := by
  rw [Decoder.write]
  subst hq
  have hp' : ¬ p.length = 0 := hp
  simp only [hp', dite_false, dite_eq_ite]
  repeat' split
  all_goals first | rfl | contradiction

/-- the loop of `Write` followed by `writeFin` = the model's recursion, for every sufficient fuel (the bound `N`
    depends on the model state only), provided the model does not take a "would spin forever" branch (C06) -/
theorem write_loop_eq (g : Grow) (hg : GrowOK g) : ∀ (d : LZ.Decoder) (p : List Byte) (acc : Nat), DecBuf.Inv d.buf →
    (d.write g p acc).2.2 ≠ hangErr → ∃ N, ∀ (gd : Gen.Decoder Writer), Rep gd d → ∀ (ps : Slice), SWF ps → ps.data = p →
    ∀ fuel, N ≤ fuel → ∀ (err0 : Gen.Err) (r1 : Int) (r2 : Gen.Err), ∃ gd',
      Res.bind (wLoop g fuel gd (acc : Int) ps err0 r1 r2) writeFin =
        Res.ok (gd', ((d.write g p acc).2.1 : Int), genErr (d.write g p acc).2.2) ∧ Rep gd' (d.write g p acc).1 := by
  intro d p acc
  induction d, p, acc using Decoder.write.induct g with
  | case1 d p acc hp =>
    intro hinv hnh
    refine ⟨1, fun gd hrep ps hs hps fuel hf err0 r1 r2 => ?_⟩
    obtain ⟨f, rfl⟩ : ∃ f, fuel = f + 1 := ⟨fuel - 1, by omega⟩
    have hl := data_length hs
    rw [hps] at hl
    unfold wLoop
    rw [Decoder_Write_loop_1, Decoder.write]
    simp only [Int.ofNat_eq_natCast]
    rw [if_neg (by omega)]
    simp only [hp, dite_true]
    exact ⟨gd, rfl, hrep⟩
  | case2 d p acc hp m q b k d1 hk hw ih =>
    intro hinv hnh
    have hq : q = if p.length > d.buf.bs - d.buf.ws then p.take (d.buf.bs - d.buf.ws) else p := by
      simp only [q, m, dite_eq_ite]
    have hinv1 : DecBuf.Inv d1.buf := by
      have := (C06_buf_write_inv g d.buf q hinv).1
      rw [hw] at this; exact this
    rw [write_model_unfold g d p acc hp q hq] at hnh ⊢
    rw [hw] at hnh ⊢
    simp only [hk, and_self, if_true] at hnh ⊢
    obtain ⟨N, hN⟩ := ih hinv1 hnh
    refine ⟨N + 1, fun gd hrep ps hs hps fuel hf err0 r1 r2 => ?_⟩
    obtain ⟨gd1, gd2, ps', q1, q2, hs', hps', hstep⟩ :=
      write_loop_step g hg hrep hinv ps hs p hps hp q hq d1 (by simp only [d1, hw])
    rw [hw] at hps' hstep
    simp only [if_true] at hstep
    obtain ⟨f, rfl⟩ : ∃ f, fuel = f + 1 := ⟨fuel - 1, by omega⟩
    obtain ⟨err', hs1⟩ := hstep f err0 (acc : Int) r1 r2
    rw [hs1]
    have hcast : (acc : Int) + (k : Int) = ((acc + k : Nat) : Int) := by omega
    rw [hcast]
    exact hN gd1 q1 ps' hs' hps' f (by omega) err' r1 r2
  | case3 d p acc hp m q b k hk hw =>
    intro hinv hnh
    exfalso; apply hnh
    have hq : q = if p.length > d.buf.bs - d.buf.ws then p.take (d.buf.bs - d.buf.ws) else p := by
      simp only [q, m, dite_eq_ite]
    rw [write_model_unfold g d p acc hp q hq, hw]
    simp only [hk, if_true, if_false]
  | case4 d p acc hp m q b k e hw he hnf =>
    intro hinv hnh
    have hq : q = if p.length > d.buf.bs - d.buf.ws then p.take (d.buf.bs - d.buf.ws) else p := by
      simp only [q, m, dite_eq_ite]
    refine ⟨1, fun gd hrep ps hs hps fuel hf err0 r1 r2 => ?_⟩
    obtain ⟨gd1, gd2, ps', q1, q2, hs', hps', hstep⟩ :=
      write_loop_step g hg hrep hinv ps hs p hps hp q hq { d with buf := (d.buf.write g q).1 } rfl
    rw [write_model_unfold g d p acc hp q hq]
    rw [hw] at hps' hstep q1 ⊢
    simp only [he, hnf, ne_eq, not_false_eq_true, if_true, if_false] at hstep ⊢
    obtain ⟨f, rfl⟩ : ∃ f, fuel = f + 1 := ⟨fuel - 1, by omega⟩
    obtain ⟨err', hs1⟩ := hstep f err0 (acc : Int) r1 r2
    rw [hs1]
    refine ⟨gd1, ?_, q1⟩
    simp only [bind_ok, writeFin, if_true]
    congr 2
  | case5 d p acc hp m q b k e hw d1 he hf d' fst e2 hwt he2 =>
    intro hinv hnh
    have hq : q = if p.length > d.buf.bs - d.buf.ws then p.take (d.buf.bs - d.buf.ws) else p := by
      simp only [q, m, dite_eq_ite]
    refine ⟨1, fun gd hrep ps hs hps fuel hfu err0 r1 r2 => ?_⟩
    obtain ⟨gd1, gd2, ps', q1, q2, hs', hps', hstep⟩ :=
      write_loop_step g hg hrep hinv ps hs p hps hp q hq d1 (by simp only [d1, hw])
    rw [write_model_unfold g d p acc hp q hq]
    rw [hw] at hps' hstep ⊢
    simp only [d1] at hwt
    simp only [d1, hwt] at q2 hstep
    simp only [he, hf, hwt, he2, ne_eq, not_false_eq_true, not_true_eq_false, if_true, if_false] at hstep ⊢
    obtain ⟨f, rfl⟩ : ∃ f, fuel = f + 1 := ⟨fuel - 1, by omega⟩
    obtain ⟨err', hs1⟩ := hstep f err0 (acc : Int) r1 r2
    rw [hs1]
    refine ⟨gd2, ?_, q2⟩
    simp only [bind_ok, writeFin, if_true]
    congr 2
  | case6 d p acc hp m q b k e hw d1 he hf d' fst e2 hwt he2 hprog ih =>
    intro hinv hnh
    have hq : q = if p.length > d.buf.bs - d.buf.ws then p.take (d.buf.bs - d.buf.ws) else p := by
      simp only [q, m, dite_eq_ite]
    have hinv1 : DecBuf.Inv d1.buf := by
      have := (C06_buf_write_inv g d.buf q hinv).1
      rw [hw] at this; exact this
    have hinv2 : DecBuf.Inv d'.buf := by
      have := (C06_writeTo_inv d1 hinv1).1
      rw [hwt] at this; exact this
    have hwt' := hwt
    simp only [d1] at hwt'
    rw [write_model_unfold g d p acc hp q hq] at hnh ⊢
    rw [hw] at hnh ⊢
    simp only [he, hf, hwt', he2, hprog, and_self, ne_eq, not_false_eq_true, not_true_eq_false, if_true, if_false] at hnh ⊢
    obtain ⟨N, hN⟩ := ih hinv2 hnh
    refine ⟨N + 1, fun gd hrep ps hs hps fuel hfu err0 r1 r2 => ?_⟩
    obtain ⟨gd1, gd2, ps', q1, q2, hs', hps', hstep⟩ :=
      write_loop_step g hg hrep hinv ps hs p hps hp q hq d1 (by simp only [d1, hw])
    rw [hw] at hps' hstep
    simp only [d1, hwt'] at q2 hstep
    simp only [he, hf, he2, ne_eq, not_false_eq_true, not_true_eq_false, if_true, if_false] at hstep
    obtain ⟨f, rfl⟩ : ∃ f, fuel = f + 1 := ⟨fuel - 1, by omega⟩
    obtain ⟨err', hs1⟩ := hstep f err0 (acc : Int) r1 r2
    rw [hs1]
    have hcast : (acc : Int) + (k : Int) = ((acc + k : Nat) : Int) := by omega
    rw [hcast]
    exact hN gd2 q2 ps' hs' hps' f (by omega) err' r1 r2
  | case7 d p acc hp m q b k e hw d1 he hf d' fst e2 hwt he2 hprog =>
    intro hinv hnh
    exfalso; apply hnh
    have hq : q = if p.length > d.buf.bs - d.buf.ws then p.take (d.buf.bs - d.buf.ws) else p := by
      simp only [q, m, dite_eq_ite]
    rw [write_model_unfold g d p acc hp q hq, hw]
    simp only [d1] at hwt
    simp only [he, hf, hwt, he2, hprog, ne_eq, not_false_eq_true, not_true_eq_false, if_true, if_false]

/-- **`(*Decoder).Write`**: translated = model (`Decoder.write g d p 0`) for every writer script, every growth
    function and every sufficient fuel (`N` depends on the model state and the input only).  The only hypothesis
    on the state is `DecBuf.Inv` (C06: the model never reports a hang). -/
theorem gen_decoder_write (g : Grow) (hg : GrowOK g) (d : LZ.Decoder) (hinv : DecBuf.Inv d.buf) (p : List Byte) :
    ∃ N, ∀ (gd : Gen.Decoder Writer), Rep gd d → ∀ (ps : Slice), SWF ps → ps.data = p → ∀ fuel, N ≤ fuel →
      ∃ gd', Decoder_Write g fuel mWrite gd ps =
          Res.ok (gd', ((d.write g p 0).2.1 : Int), genErr (d.write g p 0).2.2) ∧
        Rep gd' (d.write g p 0).1 := by
  obtain ⟨N, hN⟩ := write_loop_eq g hg d p 0 hinv (C06_write_no_hang g d p hinv)
  refine ⟨N, fun gd hrep ps hs hps fuel hf => ?_⟩
  obtain ⟨gd', h1, h2⟩ := hN gd hrep ps hs hps fuel hf Gen.Err.ok 0 Gen.Err.ok
  refine ⟨gd', ?_, h2⟩
  rw [decoder_write_eq]
  exact h1

/-! ## WriteBlock -/

theorem writeBlock_model_unfold (g : Grow) (d : LZ.Decoder) (seqs : List LZ.Seq) (lits : List Byte) (n : Int) (k l : Nat)
    (R : DecBuf × Int × Nat × Nat × LZ.Err) (hR : R = d.buf.writeBlock g ⟨seqs, lits⟩)
    (W : LZ.Decoder × Nat × LZ.Err) (hW : W = Decoder.writeTo { d with buf := R.1 }) :
    d.writeBlock g seqs lits n k l =
      if R.2.2.2.2 ≠ .full then ({ d with buf := R.1 }, n + R.2.1, k + R.2.2.1, l + R.2.2.2.1, R.2.2.2.2)
      else if (seqs.drop R.2.2.1).length = 0 then
        ((Decoder.write g { d with buf := R.1 } (lits.drop R.2.2.2.1) 0).1,
          n + R.2.1 + ((Decoder.write g { d with buf := R.1 } (lits.drop R.2.2.2.1) 0).2.1 : Int), k + R.2.2.1,
          l + R.2.2.2.1 + (Decoder.write g { d with buf := R.1 } (lits.drop R.2.2.2.1) 0).2.1,
          (Decoder.write g { d with buf := R.1 } (lits.drop R.2.2.2.1) 0).2.2)
      else if W.2.2 ≠ .ok then (W.1, n + R.2.1, k + R.2.2.1, l + R.2.2.2.1, W.2.2)
      else if R.2.2.1 > 0 then
        Decoder.writeBlock g W.1 (seqs.drop R.2.2.1) (lits.drop R.2.2.2.1) (n + R.2.1) (k + R.2.2.1) (l + R.2.2.2.1)
      else if W.2.1 > 0 ∧ W.1.unflushed < d.unflushed then
        Decoder.writeBlock g W.1 (seqs.drop R.2.2.1) (lits.drop R.2.2.2.1) (n + R.2.1) (k + R.2.2.1) (l + R.2.2.2.1)
      else (W.1, n + R.2.1, k + R.2.2.1, l + R.2.2.2.1, hangErr) := by
  rw [Decoder.writeBlock]
  subst hR hW
  simp only [dite_eq_ite]
  repeat' split
  all_goals first | rfl | contradiction

/-- `DecoderBuffer.WriteBlock` on a represented decoder -/
theorem rep_buf_writeBlock (g : Grow) (hg : GrowOK g) {gd : Gen.Decoder Writer} {d : LZ.Decoder} (hrep : Rep gd d)
    (hinv : DecBuf.Inv d.buf) (blk : Block') (hl : SWF blk.Literals) (fuel : Nat) (hf : 4294967296 ≤ fuel) :
    ∃ b', DecoderBuffer_WriteBlock g fuel gd.buf blk =
        Res.ok (b', (d.buf.writeBlock g (ofBlock blk)).2.1, ((d.buf.writeBlock g (ofBlock blk)).2.2.1 : Int),
          ((d.buf.writeBlock g (ofBlock blk)).2.2.2.1 : Int), genErr (d.buf.writeBlock g (ofBlock blk)).2.2.2.2) ∧
      Rep ⟨b', gd.w⟩ { d with buf := (d.buf.writeBlock g (ofBlock blk)).1 } := by
  obtain ⟨habs, hwf⟩ := hrep
  subst habs
  have hml : ∀ s ∈ blk.Sequences, s.MatchLen.toNat < fuel := by
    intro s _
    have := s.MatchLen.toNat_lt
    omega
  obtain ⟨b', e, e1, e2, e3, e4, _⟩ := gen_dbuf_writeBlock g hg fuel gd.buf hwf (inv_len_le hwf hinv) blk hl hml
  refine ⟨b', ?_, ?_, e4⟩
  · rw [e1, genErr_of_errOf e3]; rfl
  · simp only [absD, e2]

theorem listSliceFrom_ok {α : Type} (s : List α) (k : Nat) (hk : k ≤ s.length) :
    listSliceFrom s (k : Int) = Res.ok (s.drop k) := by
  unfold listSliceFrom
  have : (0 : Int) ≤ (k : Int) ∧ (k : Int) ≤ Int.ofNat s.length := ⟨by omega, by show (k : Int) ≤ (s.length : Int); omega⟩
  simp only [this, and_self, if_true, Int.toNat_natCast]

/-- the retry loop of `WriteBlock`, called by name (`err`: the named result, captured or carried by the loop or
    neither), with the result in the fixed order (exit, d, n, k, l, blk, ret_1, ret_2, ret_3, ret_4) -/
def wkLoop (g : Grow) (fuel : Nat) (gd : Gen.Decoder Writer) (n k l : Int) (blk : Block') (err : Gen.Err)
    (r1 r2 r3 : Int) (r4 : Gen.Err) :
    Res (Nat × Gen.Decoder Writer × Int × Int × Int × Block' × Int × Int × Int × Gen.Err) :=
  Res.bind (gcall% Decoder_WriteBlock_loop_1 [grow := g, io_Writer_Write := mWrite, err := err, fuel := fuel, d := gd,
      n := n, k := k, l := l, blk := blk, ret_1 := r1, ret_2 := r2, ret_3 := r3, ret_4 := r4])
    fun r => Res.ok (r.1, gproj% Decoder_WriteBlock_loop_1 d r, gproj% Decoder_WriteBlock_loop_1 n r,
      gproj% Decoder_WriteBlock_loop_1 k r, gproj% Decoder_WriteBlock_loop_1 l r,
      gproj% Decoder_WriteBlock_loop_1 blk r, gproj% Decoder_WriteBlock_loop_1 ret_1 r,
      gproj% Decoder_WriteBlock_loop_1 ret_2 r, gproj% Decoder_WriteBlock_loop_1 ret_3 r,
      gproj% Decoder_WriteBlock_loop_1 ret_4 r)

/-- `Decoder_WriteBlock` = its loop + `return ret_1, ret_2, ret_3, ret_4` -/
theorem decoder_writeBlock_eq (g : Grow) (fuel : Nat) (gd : Gen.Decoder Writer) (blk : Block') :
    Decoder_WriteBlock g fuel mWrite gd blk =
      Res.bind (wkLoop g fuel gd 0 0 0 blk Gen.Err.ok 0 0 0 Gen.Err.ok) fun r =>
        Res.ok (r.2.1, r.2.2.2.2.2.2.1, r.2.2.2.2.2.2.2.1, r.2.2.2.2.2.2.2.2.1, r.2.2.2.2.2.2.2.2.2) := by
  unfold Decoder_WriteBlock wkLoop
  simp only [bind_assoc, bind_ok]

/-- one iteration of the retry loop of `WriteBlock`, in terms of the model operations -/
theorem writeBlock_loop_step (g : Grow) (hg : GrowOK g) {gd : Gen.Decoder Writer} {d : LZ.Decoder} (hrep : Rep gd d)
    (hinv : DecBuf.Inv d.buf) (blk : Block') (hl : SWF blk.Literals)
    (R : DecBuf × Int × Nat × Nat × LZ.Err) (hR : R = d.buf.writeBlock g (ofBlock blk))
    (W : LZ.Decoder × Nat × LZ.Err) (hW : W = Decoder.writeTo { d with buf := R.1 })
    (f : Nat) (hf : 4294967296 ≤ f) :
    ∃ gd1 gd2 blk', Rep gd1 { d with buf := R.1 } ∧ Rep gd2 W.1 ∧ SWF blk'.Literals ∧
      ofBlock blk' = ⟨(ofBlock blk).seqs.drop R.2.2.1, (ofBlock blk).lits.drop R.2.2.2.1⟩ ∧
      ∀ (err0 : Gen.Err) (n k l r1 r2 r3 : Int) (r4 : Gen.Err), ∃ err',
        wkLoop g (f + 1) gd n k l blk err0 r1 r2 r3 r4 =
          if R.2.2.2.2 ≠ .full then
            Res.ok (1, gd1, n + R.2.1, k + (R.2.2.1 : Int), l + (R.2.2.2.1 : Int), blk,
              n + R.2.1, k + (R.2.2.1 : Int), l + (R.2.2.2.1 : Int), genErr R.2.2.2.2)
          else if ((ofBlock blk).seqs.drop R.2.2.1).length = 0 then
            Res.bind (Decoder_Write g f mWrite gd1 blk'.Literals) fun r_4 =>
              Res.ok (1, r_4.1, n + R.2.1, k + (R.2.2.1 : Int), l + (R.2.2.2.1 : Int), blk',
                n + R.2.1 + r_4.2.1, k + (R.2.2.1 : Int), l + (R.2.2.2.1 : Int) + r_4.2.1, r_4.2.2)
          else if W.2.2 ≠ .ok then
            Res.ok (1, gd2, n + R.2.1, k + (R.2.2.1 : Int), l + (R.2.2.2.1 : Int), blk',
              n + R.2.1, k + (R.2.2.1 : Int), l + (R.2.2.2.1 : Int), genErr W.2.2)
          else wkLoop g f gd2 (n + R.2.1) (k + (R.2.2.1 : Int)) (l + (R.2.2.2.1 : Int)) blk' err'
            r1 r2 r3 r4 := by
  have hpost := DecBuf.wbuf_post g d.buf (ofBlock blk) hinv
  obtain ⟨hinv1, _, _, _, hkk, hll, _⟩ := hpost
  rw [← hR] at hinv1 hkk hll
  have hseql : (ofBlock blk).seqs.length = blk.Sequences.length := by simp only [ofBlock, List.length_map]
  have hlitl : (ofBlock blk).lits.length = blk.Literals.len := by simp only [ofBlock]; exact data_length hl
  rw [hseql] at hkk
  rw [hlitl] at hll
  have hswf : blk.Literals.len ≤ blk.Literals.arr.length := hl
  obtain ⟨hp2, hp3⟩ := slice_from blk.Literals hl R.2.2.2.1 hll
  obtain ⟨b', e1, e2⟩ := rep_buf_writeBlock g hg hrep hinv blk hl f hf
  rw [← hR] at e1 e2
  obtain ⟨gd2, f1, fl1, f2⟩ := rep_flush e2 hinv1
  rw [← hW] at f1 fl1 f2
  refine ⟨⟨b', gd.w⟩, gd2, (⟨blk.Sequences.drop R.2.2.1,
    ⟨blk.Literals.arr.drop R.2.2.2.1, blk.Literals.len - R.2.2.2.1⟩⟩ : Block'), e2, f2, hp2, ?_, ?_⟩
  · simp only [ofBlock, hp3, List.map_drop]
  intro err0 n k l r1 r2 r3 r4
  unfold wkLoop
  rw [Decoder_WriteBlock_loop_1]
  rw [e1]
  simp only [bind_ok]
  by_cases h1 : R.2.2.2.2 = .full
  · simp only [h1, ne_eq, genErr_full_iff, genErr_full_iff', genErr_ok_iff, genErr_ok_iff', not_true_eq_false,
      not_false_eq_true, if_true, if_false, reduceCtorEq]
    rw [listSliceFrom_ok _ _ hkk]
    simp only [bind_ok, Int.ofNat_eq_natCast]
    rw [slice_okI blk.Literals _ _ R.2.2.2.1 blk.Literals.len (by omega) (by omega) (by omega) hswf]
    simp only [bind_ok, List.length_drop, hseql]
    by_cases h2 : blk.Sequences.length - R.2.2.1 = 0
    · -- `len(blk.Sequences) == 0` in any spelling
      simp (disch := omega) only [h2, if_pos, if_true, bind_assoc, bind_ok]
      loop_step_close
    · simp (disch := omega) only [h2, if_neg, if_false]
      simp only [] at f1 fl1
      first | rw [f1] | rw [fl1]
      simp only [bind_ok]
      by_cases h3 : W.2.2 = .ok
      · simp only [h3, ne_eq, genErr_full_iff, genErr_full_iff', genErr_ok_iff, genErr_ok_iff', not_true_eq_false,
          not_false_eq_true, if_true, if_false, reduceCtorEq]
        loop_step_close
      · simp only [h3, ne_eq, genErr_full_iff, genErr_full_iff', genErr_ok_iff, genErr_ok_iff', not_true_eq_false,
          not_false_eq_true, if_true, if_false, bind_ok]
        loop_step_close
  · simp only [h1, ne_eq, genErr_full_iff, genErr_full_iff', genErr_ok_iff, genErr_ok_iff', not_true_eq_false,
      not_false_eq_true, if_true, if_false, bind_ok]
    loop_step_close

/-- the retry loop of `WriteBlock` = the model's recursion, for every sufficient fuel (`N` depends on the model
    state and the block only), provided the model does not take a "would spin forever" branch (C06) -/
theorem writeBlock_loop_eq (g : Grow) (hg : GrowOK g) : ∀ (d : LZ.Decoder) (seqs : List LZ.Seq) (lits : List Byte)
    (n : Int) (k l : Nat), DecBuf.Inv d.buf → (d.writeBlock g seqs lits n k l).2.2.2.2 ≠ hangErr →
    ∃ N, ∀ (gd : Gen.Decoder Writer), Rep gd d → ∀ (blk : Block'), SWF blk.Literals → ofBlock blk = ⟨seqs, lits⟩ →
    ∀ fuel, N ≤ fuel → ∀ (err0 : Gen.Err) (r1 r2 r3 : Int) (r4 : Gen.Err), ∃ gd' c n' k' l' blk',
      wkLoop g fuel gd n (k : Int) (l : Int) blk err0 r1 r2 r3 r4 =
        Res.ok (c, gd', n', k', l', blk', (d.writeBlock g seqs lits n k l).2.1, ((d.writeBlock g seqs lits n k l).2.2.1 : Int),
          ((d.writeBlock g seqs lits n k l).2.2.2.1 : Int), genErr (d.writeBlock g seqs lits n k l).2.2.2.2) ∧
      Rep gd' (d.writeBlock g seqs lits n k l).1 := by
  intro d seqs lits n k l
  induction d, seqs, lits, n, k, l using Decoder.writeBlock.induct g with
  | case1 d seqs lits n k l b nn kk ll e hwb he =>
    intro hinv hnh
    refine ⟨4294967297, fun gd hrep blk hl hob fuel hfu err0 r1 r2 r3 r4 => ?_⟩
    obtain ⟨f, rfl⟩ : ∃ f, fuel = f + 1 := ⟨fuel - 1, by omega⟩
    obtain ⟨gd1, gd2, blk', q1, q2, hl', hob', hstep⟩ :=
      writeBlock_loop_step g hg hrep hinv blk hl _ rfl _ rfl f (by omega)
    rw [writeBlock_model_unfold g d seqs lits n k l _ rfl _ rfl]
    rw [hob] at hstep q1
    rw [hwb] at hstep q1 ⊢
    simp only [he, ne_eq, not_false_eq_true, if_true] at hstep ⊢
    obtain ⟨err', hs1⟩ := hstep err0 n (k : Int) (l : Int) r1 r2 r3 r4
    rw [hs1]
    exact ⟨gd1, _, _, _, _, _, rfl, q1⟩
  | case2 d seqs lits n k l b nn kk ll e hwb d1 he seqs' lits' hs d' m e2 hw =>
    intro hinv hnh
    have hinv1 : DecBuf.Inv d1.buf := by
      have := (C06_buf_writeBlock_inv g d.buf ⟨seqs, lits⟩ hinv).1
      rw [hwb] at this; exact this
    obtain ⟨Nw, hNw⟩ := gen_decoder_write g hg d1 hinv1 lits'
    refine ⟨Nw + 4294967297, fun gd hrep blk hl hob fuel hfu err0 r1 r2 r3 r4 => ?_⟩
    obtain ⟨f, rfl⟩ : ∃ f, fuel = f + 1 := ⟨fuel - 1, by omega⟩
    obtain ⟨gd1, gd2, blk', q1, q2, hl', hob', hstep⟩ :=
      writeBlock_loop_step g hg hrep hinv blk hl _ rfl _ rfl f (by omega)
    rw [writeBlock_model_unfold g d seqs lits n k l _ rfl _ rfl]
    rw [hob] at hstep q1 hob'
    rw [hwb] at hstep q1 hob' ⊢
    simp only [seqs'] at hs
    simp only [d1, lits'] at hw hNw
    simp only [he, hs, hw, ne_eq, not_false_eq_true, not_true_eq_false, if_true, if_false] at hstep ⊢
    have hlit : blk'.Literals.data = lits.drop ll := by
      have := congrArg LZ.Block.lits hob'
      simpa only [ofBlock] using this
    obtain ⟨gd', w1, w2⟩ := hNw gd1 q1 blk'.Literals hl' hlit f (by omega)
    rw [hw] at w1 w2
    obtain ⟨err', hs1⟩ := hstep err0 n (k : Int) (l : Int) r1 r2 r3 r4
    rw [hs1, w1]
    exact ⟨gd', _, _, _, _, _, rfl, w2⟩
  | case3 d seqs lits n k l b nn kk ll e hwb d1 he seqs' hs d' fst e2 hwt he2 =>
    intro hinv hnh
    refine ⟨4294967297, fun gd hrep blk hl hob fuel hfu err0 r1 r2 r3 r4 => ?_⟩
    obtain ⟨f, rfl⟩ : ∃ f, fuel = f + 1 := ⟨fuel - 1, by omega⟩
    obtain ⟨gd1, gd2, blk', q1, q2, hl', hob', hstep⟩ :=
      writeBlock_loop_step g hg hrep hinv blk hl _ rfl _ rfl f (by omega)
    rw [writeBlock_model_unfold g d seqs lits n k l _ rfl _ rfl]
    rw [hob] at hstep q2
    rw [hwb] at hstep q2 ⊢
    simp only [seqs'] at hs
    simp only [d1] at hwt
    simp only [he, hs, hwt, he2, ne_eq, not_false_eq_true, not_true_eq_false, if_true, if_false] at hstep q2 ⊢
    obtain ⟨err', hs1⟩ := hstep err0 n (k : Int) (l : Int) r1 r2 r3 r4
    rw [hs1]
    exact ⟨gd2, _, _, _, _, _, rfl, q2⟩
  | case4 d seqs lits n k l b nn kk ll e hwb d1 n1 k1 l1 he seqs' lits' hs d' fst e2 hwt he2 hkk ih =>
    intro hinv hnh
    have hinv1 : DecBuf.Inv d1.buf := by
      have := (C06_buf_writeBlock_inv g d.buf ⟨seqs, lits⟩ hinv).1
      rw [hwb] at this; exact this
    have hinv2 : DecBuf.Inv d'.buf := by
      have := (C06_writeTo_inv d1 hinv1).1
      rw [hwt] at this; exact this
    have hwt' := hwt
    simp only [d1] at hwt'
    simp only [seqs'] at hs
    rw [writeBlock_model_unfold g d seqs lits n k l _ rfl _ rfl] at hnh ⊢
    rw [hwb] at hnh ⊢
    simp only [he, hs, hwt', he2, hkk, ne_eq, not_false_eq_true, not_true_eq_false, if_true, if_false] at hnh ⊢
    obtain ⟨N, hN⟩ := ih hinv2 hnh
    refine ⟨N + 4294967297, fun gd hrep blk hl hob fuel hfu err0 r1 r2 r3 r4 => ?_⟩
    obtain ⟨f, rfl⟩ : ∃ f, fuel = f + 1 := ⟨fuel - 1, by omega⟩
    obtain ⟨gd1, gd2, blk', q1, q2, hl', hob', hstep⟩ :=
      writeBlock_loop_step g hg hrep hinv blk hl _ rfl _ rfl f (by omega)
    rw [hob] at hstep q2 hob'
    rw [hwb] at hstep q2 hob'
    simp only [he, hs, hwt', he2, ne_eq, not_false_eq_true, not_true_eq_false, if_true, if_false] at hstep q2
    obtain ⟨err', hs1⟩ := hstep err0 n (k : Int) (l : Int) r1 r2 r3 r4
    rw [hs1]
    exact hN gd2 q2 blk' hl' hob' f (by omega) err' r1 r2 r3 r4
  | case5 d seqs lits n k l b nn kk ll e hwb d1 n1 k1 l1 he seqs' lits' hs d' fst e2 hwt he2 hkk hprog ih =>
    intro hinv hnh
    have hinv1 : DecBuf.Inv d1.buf := by
      have := (C06_buf_writeBlock_inv g d.buf ⟨seqs, lits⟩ hinv).1
      rw [hwb] at this; exact this
    have hinv2 : DecBuf.Inv d'.buf := by
      have := (C06_writeTo_inv d1 hinv1).1
      rw [hwt] at this; exact this
    have hwt' := hwt
    simp only [d1] at hwt'
    simp only [seqs'] at hs
    rw [writeBlock_model_unfold g d seqs lits n k l _ rfl _ rfl] at hnh ⊢
    rw [hwb] at hnh ⊢
    simp only [he, hs, hwt', he2, hkk, hprog, and_self, ne_eq, not_false_eq_true, not_true_eq_false, if_true, if_false] at hnh ⊢
    obtain ⟨N, hN⟩ := ih hinv2 hnh
    refine ⟨N + 4294967297, fun gd hrep blk hl hob fuel hfu err0 r1 r2 r3 r4 => ?_⟩
    obtain ⟨f, rfl⟩ : ∃ f, fuel = f + 1 := ⟨fuel - 1, by omega⟩
    obtain ⟨gd1, gd2, blk', q1, q2, hl', hob', hstep⟩ :=
      writeBlock_loop_step g hg hrep hinv blk hl _ rfl _ rfl f (by omega)
    rw [hob] at hstep q2 hob'
    rw [hwb] at hstep q2 hob'
    simp only [he, hs, hwt', he2, ne_eq, not_false_eq_true, not_true_eq_false, if_true, if_false] at hstep q2
    obtain ⟨err', hs1⟩ := hstep err0 n (k : Int) (l : Int) r1 r2 r3 r4
    rw [hs1]
    exact hN gd2 q2 blk' hl' hob' f (by omega) err' r1 r2 r3 r4
  | case6 d seqs lits n k l b nn kk ll e hwb d1 he seqs' hs d' fst e2 hwt he2 hkk hprog =>
    intro hinv hnh
    exfalso; apply hnh
    rw [writeBlock_model_unfold g d seqs lits n k l _ rfl _ rfl]
    rw [hwb]
    simp only [seqs'] at hs
    simp only [d1] at hwt
    simp only [he, hs, hwt, he2, hkk, hprog, ne_eq, not_false_eq_true, not_true_eq_false, if_true, if_false]

/-- **`(*Decoder).WriteBlock`**: translated = model (`Decoder.writeBlock g d seqs lits 0 0 0`) for every block
    (valid or not), every writer script, every growth function and every sufficient fuel (`N` depends on the
    model state and the block only).  The only hypothesis on the state is `DecBuf.Inv` (C06: no hang). -/
theorem gen_decoder_writeBlock (g : Grow) (hg : GrowOK g) (d : LZ.Decoder) (hinv : DecBuf.Inv d.buf)
    (seqs : List LZ.Seq) (lits : List Byte) :
    ∃ N, ∀ (gd : Gen.Decoder Writer), Rep gd d → ∀ (blk : Block'), SWF blk.Literals → ofBlock blk = ⟨seqs, lits⟩ →
    ∀ fuel, N ≤ fuel → ∃ gd', Decoder_WriteBlock g fuel mWrite gd blk =
        Res.ok (gd', (d.writeBlock g seqs lits 0 0 0).2.1, ((d.writeBlock g seqs lits 0 0 0).2.2.1 : Int),
          ((d.writeBlock g seqs lits 0 0 0).2.2.2.1 : Int), genErr (d.writeBlock g seqs lits 0 0 0).2.2.2.2) ∧
      Rep gd' (d.writeBlock g seqs lits 0 0 0).1 := by
  obtain ⟨N, hN⟩ := writeBlock_loop_eq g hg d seqs lits 0 0 0 hinv (C06_writeBlock_no_hang g d seqs lits hinv)
  refine ⟨N, fun gd hrep blk hl hob fuel hf => ?_⟩
  obtain ⟨gd', c, n', k', l', blk', h1, h2⟩ := hN gd hrep blk hl hob fuel hf Gen.Err.ok 0 0 0 Gen.Err.ok
  refine ⟨gd', ?_, h2⟩
  have h0 : ((0 : Nat) : Int) = 0 := rfl
  rw [h0] at h1
  rw [decoder_writeBlock_eq, h1]
  rfl

end LZ.GenDec

/-! ### axiom audit (printed on every build) -/
#print axioms LZ.GenDec.gen_dbuf_writeTo
#print axioms LZ.GenDec.gen_decoder_flush
#print axioms LZ.GenDec.gen_decoder_reset
#print axioms LZ.GenDec.gen_decoder_init
#print axioms LZ.GenDec.gen_decoder_writeByte
#print axioms LZ.GenDec.gen_decoder_write
#print axioms LZ.GenDec.gen_decoder_writeBlock
