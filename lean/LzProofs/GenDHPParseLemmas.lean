/-
  LzProofs.GenDHPParseLemmas — helper lemmas for LzProofs/GenDHPParse.lean (translated dhp.go
  `(*doubleHashParser).Parse` versus `ProbeW.parseW` for kind `.DHP`): the instances of the shared loop lemmas
  (LzProofs/GenParseShared.lean) for the generated loops of dhp.go and of `doubleHashDictionary.processSegment`
  (hash.go), `processSegment` = `ProbeW.processSegment2W` incl. its panic, and the word-level finder
  `ProbeW.dhpProbeW` in a form without `do` (both loops; `back` general, so that bdhp.go can use it).
-/
import LzModel.Generated.CodeDHPParse
import LzProofs.GenParseShared
import LzProofs.GenHashPropsDict2
import LzProofs.GenPropsCfgDHP

set_option linter.unusedSimpArgs false
set_option linter.unusedVariables false

namespace LZ.GenDHPParse
open LZ LZ.Gen LZ.GenBuf LZ.GenHash LZ.GenHPParse LZ.GenParse

theorem resBind_assoc {α β γ : Type} (m : Res α) (g : α → Res β) (k : β → Res γ) :
    Res.bind (Res.bind m g) k = Res.bind m (fun a => Res.bind (g a) k) := by
  cases m <;> rfl

/-- the defining equation of a generated loop function against the loop body the shared lemmas are stated for
    (`reindex1`, `reindex2`, `loop2_of_eqn` of GenParseShared): `rfl`; or — when the body calls extracted helpers
    (`h.put(i, x)`) — after unfolding every `@[gen_helper]` and re-associating the binds; or — when a test is spelled
    otherwise (operands, negation, arms swapped) — split every test as it comes, contradictory combinations by `omega` -/
local macro "loop_eqn" f:term : tactic => `(tactic|
  (rw [$f:term]
   first
     | rfl
     | (simp only [gen_helper, resBind_assoc, bind_ok]; rfl)
     | ((try simp only [gen_helper, resBind_assoc, bind_ok]); (repeat' split) <;>
          first
            | rfl
            | (exfalso; omega)
            | (exfalso; simp only [Int.ofNat_eq_natCast] at *; omega))))

/-- a clamp computed by generated code (`if c < b { b = c }; if b < 0 { b = 0 }`, `min`/`max`, a helper, in any
    spelling) against its value: split every test as it comes, `omega` -/
local macro "clamp_tac" : tactic => `(tactic|
  ((try simp only [LZ.GenProps.gen_min, Int.min_def, Int.max_def, Int.ofNat_eq_natCast] at *); (repeat' split) <;> omega))

/-! ## the two tables inside the Go state -/

/-- a `doubleHashDictionary` with other tables -/
@[reducible] def setDD (f : Gen.doubleHashDictionary) (t1 t2 : GSlice hashEntry) : Gen.doubleHashDictionary :=
  { f with h1 := { f.h1 with table := t1 }, h2 := { f.h2 with table := t2 } }

/-- a `doubleHashParser` with other tables (the only thing the loops of `Parse` change besides `W`) -/
@[reducible] def setTT (s : Gen.doubleHashParser) (t1 t2 : GSlice hashEntry) : Gen.doubleHashParser :=
  { s with doubleHashDictionary := setDD s.doubleHashDictionary t1 t2 }

/-- the model dictionary the two Go `hash` values stand for -/
def ofHash2 (g1 g2 : Gen.hash) (t1 t2 : GSlice hashEntry) : Hash2 := ⟨ofHashT g1 t1, ofHashT g2 t2⟩

/-! ## `processSegment` of the double dictionary -/

theorem psegLoop1 (b2 : Int) (_p : Slice) (n fuel j : Nat) (a : Int) (f : Gen.doubleHashDictionary)
    (ha : a = (j : Int)) (hn : n = (b2 - a).toNat) (hf : n < fuel) (hr : n = 0 ∨ j + n + 7 ≤ _p.len)
    (c1 : TCtx f.h1.mask f.h1.shift f.h1.inputLen _p) (ht1 : TOK f.h1.shift f.h1.table)
    (c2 : TCtx f.h2.mask f.h2.shift f.h2.inputLen _p) (ht2 : TOK f.h2.shift f.h2.table) :
    ∃ t1 t2, TOK f.h1.shift t1 ∧ TOK f.h2.shift t2 ∧
      ProbeW.insertRangeW (ofHash f.h1) _p.data j n = some (ofHashT f.h1 t1) ∧
      ProbeW.insertRangeW (ofHash f.h2) _p.data j n = some (ofHashT f.h2 t2) ∧
      doubleHashDictionary_processSegment_loop_1 b2 _p fuel a f = Res.ok (((j + n : Nat) : Int), setDD f t1 t2) := by
  obtain ⟨s', tA, tB, h1, h2, h3, h4, h5, h6, h7, t1', t2', rfl⟩ :=
    reindex2 (doubleHashDictionary_processSegment_loop_1 b2 _p) b2 _p (fun f => f.h1) (fun f => f.h2)
      (fun f t => { f with h1 := { f.h1 with table := t } }) (fun f t => { f with h2 := { f.h2 with table := t } })
      (fun _ _ => rfl) (fun _ _ => rfl) (fun _ _ => rfl) (fun _ _ => rfl)
      (fun fuel j s => by loop_eqn doubleHashDictionary_processSegment_loop_1)
      (fun s s' => ∃ t1 t2, s' = setDD s t1 t2) (fun s => ⟨s.h1.table, s.h2.table, rfl⟩)
      (fun s s' t u ⟨t1, t2, h⟩ => ⟨t, u, by rw [h]⟩)
      n fuel j a f f ha hn hf hr ⟨f.h1.table, f.h2.table, rfl⟩ c1 ht1 c2 ht2
  have e6 : t1' = tA := congrArg Gen.hash.table h6
  have e7 : t2' = tB := congrArg Gen.hash.table h7
  subst e6 e7
  exact ⟨_, _, h1, h2, h3, h4, h5⟩

theorem psegLoop2 (b1 : Int) (_p : Slice) (n fuel j : Nat) (a : Int) (f : Gen.doubleHashDictionary)
    (ha : a = (j : Int)) (hn : n = (b1 - a).toNat) (hf : n < fuel) (hr : n = 0 ∨ j + n + 7 ≤ _p.len)
    (c1 : TCtx f.h1.mask f.h1.shift f.h1.inputLen _p) (ht1 : TOK f.h1.shift f.h1.table) :
    ∃ t1, TOK f.h1.shift t1 ∧
      ProbeW.insertRangeW (ofHash f.h1) _p.data j n = some (ofHashT f.h1 t1) ∧
      doubleHashDictionary_processSegment_loop_2 b1 _p fuel a f = Res.ok (((j + n : Nat) : Int), setDD f t1 f.h2.table) := by
  obtain ⟨s', tA, h1, h3, h5, h6, t1', rfl⟩ :=
    reindex1 (doubleHashDictionary_processSegment_loop_2 b1 _p) b1 _p (fun f => f.h1)
      (fun f _ t => { f with h1 := { f.h1 with table := t } })
      (fun _ _ _ => rfl)
      (fun fuel j s => by loop_eqn doubleHashDictionary_processSegment_loop_2)
      (fun s s' => ∃ t1, s' = setDD s t1 s.h2.table) (fun s => ⟨s.h1.table, rfl⟩)
      (fun s s' y t ⟨t1, h⟩ => ⟨t, by rw [h]⟩)
      n fuel j a f f ha hn hf hr ⟨f.h1.table, rfl⟩ c1 ht1
  have e6 : t1' = tA := congrArg Gen.hash.table h6
  subst e6
  exact ⟨_, h1, h3, h5⟩

/-- what `Parse` needs of one Go `hash` value: the representation invariant `HashWF` plus `hashBits ≤ 32` -/
structure HOK (g : Gen.hash) : Prop where
  il0 : 0 ≤ g.inputLen
  mask : g.mask = maskOf g.inputLen.toNat
  sh1 : 32 ≤ g.shift.toNat
  sh2 : g.shift.toNat ≤ 64
  tok : TOK g.shift g.table

theorem HOK.ctx {g : Gen.hash} (h : HOK g) (_p : Slice) (hp : SWF _p) (hs : _p.len < 4294967296 + 8) :
    TCtx g.mask g.shift g.inputLen _p := ⟨hp, h.mask, h.sh1, h.sh2, hs⟩

/-- **`processSegment(a, b)`** of the double dictionary (hash.go), translated, versus `ProbeW.processSegment2W`:
    same panic (the reslice `f.Data[:b1+7]`), same tables.  `InputLen1 ≤ InputLen2` (then `b2 ≤ b1`: the loads of
    the first loop stay inside `_p`). -/
theorem gen_processSegment2 (fuel : Nat) (f : Gen.doubleHashDictionary) (a b : Int)
    (hD : SWF f.ParserBuffer.Data) (w1 : HOK f.h1) (w2 : HOK f.h2) (h12 : f.h1.inputLen ≤ f.h2.inputLen)
    (hsmall : f.ParserBuffer.Data.len < 4294967296) (hfuel : f.ParserBuffer.Data.len + 2 ≤ fuel) :
    match ProbeW.processSegment2W (ofHash f.h1) (ofHash f.h2) f.ParserBuffer.Data.data
        (f.ParserBuffer.Data.arr.drop f.ParserBuffer.Data.len) a b with
    | none => doubleHashDictionary_processSegment fuel f a b = Res.panic
    | some hh => ∃ t1 t2, TOK f.h1.shift t1 ∧ TOK f.h2.shift t2 ∧ hh = (ofHashT f.h1 t1, ofHashT f.h2 t2) ∧
        doubleHashDictionary_processSegment fuel f a b = Res.ok (setDD f t1 t2) := by
  have hlen : f.ParserBuffer.Data.data.length = f.ParserBuffer.Data.len := data_length hD
  have hD' : f.ParserBuffer.Data.len ≤ f.ParserBuffer.Data.arr.length := hD
  have hi1 := w1.il0
  have hi2 := w2.il0
  -- the Go side: the body with every helper unfolded; its calls are picked out below by unification
  -- (`generalize … _ … = X at hG`), their arguments compared with the model's values by `clamp_tac`
  generalize hG : doubleHashDictionary_processSegment fuel f a b = G
  unfold doubleHashDictionary_processSegment at hG
  (try simp only [gen_helper] at hG)
  -- the model side: its three clamps as variables with their values
  unfold ProbeW.processSegment2W
  simp only [Option.bind_eq_bind, Option.pure_def]
  have hc1 : ((f.ParserBuffer.Data.data.length : Nat) : Int) - ((ofHash f.h1).inputLen : Nat) + 1 =
      ((f.ParserBuffer.Data.len : Nat) : Int) - f.h1.inputLen + 1 := by
    rw [hlen]; show _ - ((f.h1.inputLen.toNat : Nat) : Int) + 1 = _
    rw [Int.toNat_of_nonneg hi1]
  have hc2 : ((f.ParserBuffer.Data.data.length : Nat) : Int) - ((ofHash f.h2).inputLen : Nat) + 1 =
      ((f.ParserBuffer.Data.len : Nat) : Int) - f.h2.inputLen + 1 := by
    rw [hlen]; show _ - ((f.h2.inputLen.toNat : Nat) : Int) + 1 = _
    rw [Int.toNat_of_nonneg hi2]
  rw [hc1, hc2]
  generalize hb1d : (if ((f.ParserBuffer.Data.len : Nat) : Int) - f.h1.inputLen + 1 < b then
      ((f.ParserBuffer.Data.len : Nat) : Int) - f.h1.inputLen + 1 else b) = b1
  generalize hb2d : (if ((f.ParserBuffer.Data.len : Nat) : Int) - f.h2.inputLen + 1 < b then
      ((f.ParserBuffer.Data.len : Nat) : Int) - f.h2.inputLen + 1 else b) = b2
  generalize hc1d : (if b1 < 0 then 0 else b1) = c1
  generalize hc2d : (if b2 < 0 then 0 else b2) = c2
  generalize ha'd : (if a < 0 then 0 else a) = a'
  have hc1v : c1 = Max.max 0 (Min.min (((f.ParserBuffer.Data.len : Nat) : Int) - f.h1.inputLen + 1) b) := by
    rw [← hc1d, ← hb1d]; (repeat' split) <;> omega
  have hc2v : c2 = Max.max 0 (Min.min (((f.ParserBuffer.Data.len : Nat) : Int) - f.h2.inputLen + 1) b) := by
    rw [← hc2d, ← hb2d]; (repeat' split) <;> omega
  have ha'v : a' = Max.max 0 a := by rw [← ha'd]; split <;> omega
  clear hb1d hb2d hc1d hc2d ha'd b1 b2
  have hb1' : 0 ≤ c1 ∧ c1 ≤ (f.ParserBuffer.Data.len : Int) + 1 := by omega
  have hb2' : 0 ≤ c2 ∧ c2 ≤ c1 := by omega
  have ha' : 0 ≤ a' := by omega
  unfold BytesW.sliceTo
  rw [take_append_drop_data]
  -- `_p := f.Data[:b1+7]`
  generalize hS : Slice.slice f.ParserBuffer.Data 0 _ = S at hG
  by_cases hcap : c1.toNat + 7 ≤ f.ParserBuffer.Data.arr.length
  · rw [if_pos hcap, Option.bind_some]
    have hSv : S = Res.ok { arr := f.ParserBuffer.Data.arr.drop 0, len := c1.toNat + 7 - 0 } := by
      rw [← hS, ← slice_okI f.ParserBuffer.Data 0 (c1 + 7) 0 (c1.toNat + 7) rfl (by omega) (by omega) hcap]
      congr 1
      clamp_tac
    rw [hSv, bind_ok] at hG
    simp only [List.drop_zero, Nat.sub_zero] at hG
    have hswf : SWF ({ arr := f.ParserBuffer.Data.arr, len := c1.toNat + 7 } : Slice) := hcap
    have hsm : ({ arr := f.ParserBuffer.Data.arr, len := c1.toNat + 7 } : Slice).len < 4294967296 + 8 := by
      show c1.toNat + 7 < _; omega
    -- the first loop (both tables)
    obtain ⟨t1, t2, ht1, ht2, hr1, hr2, hl⟩ := psegLoop1 c2 { arr := f.ParserBuffer.Data.arr, len := c1.toNat + 7 }
      (c2.toNat - a'.toNat) fuel a'.toNat a' f (by omega) (by omega) (by omega)
      (by show _ ∨ _ ≤ c1.toNat + 7; omega) (w1.ctx _ hswf hsm) w1.tok (w2.ctx _ hswf hsm) w2.tok
    rw [data_mk] at hr1 hr2
    generalize hY : doubleHashDictionary_processSegment_loop_1 _ _ _ _ _ = Y at hG
    have hYv : Y = Res.ok (((a'.toNat + (c2.toNat - a'.toNat) : Nat) : Int), setDD f t1 t2) := by
      rw [← hl, ← hY]
      congr 1 <;> clamp_tac
    rw [hYv, bind_ok] at hG
    dsimp only at hG
    -- the second loop (the table of h1)
    obtain ⟨t1', ht1', hr1', hl'⟩ := psegLoop2 c1 { arr := f.ParserBuffer.Data.arr, len := c1.toNat + 7 }
      (c1.toNat - c2.toNat) fuel c2.toNat c2 (setDD f t1 t2) (by omega) (by omega) (by omega)
      (by show _ ∨ _ ≤ c1.toNat + 7; omega) (w1.ctx _ hswf hsm) ht1
    rw [data_mk] at hr1'
    generalize hZ : doubleHashDictionary_processSegment_loop_2 _ _ _ _ _ = Z at hG
    have hZv : Z = Res.ok (((c2.toNat + (c1.toNat - c2.toNat) : Nat) : Int),
        setDD (setDD f t1 t2) t1' (setDD f t1 t2).h2.table) := by
      rw [← hl', ← hZ]
      congr 1 <;> clamp_tac
    rw [hZv, bind_ok] at hG
    dsimp only at hG
    subst hG
    have e1 : ProbeW.insertRangeW (ofHashT f.h1 t1) (List.take (c1.toNat + 7) f.ParserBuffer.Data.arr) c2.toNat
        (c1.toNat - c2.toNat) = some (ofHashT f.h1 t1') := hr1'
    rw [hr1, Option.bind_some, e1, Option.bind_some, hr2, Option.bind_some]
    exact ⟨t1', t2, ht1', ht2, rfl, rfl⟩
  · rw [if_neg hcap]
    have hSv : S = Res.panic := by
      rw [← hS]
      apply slice_panic
      clamp_tac
    rw [hSv] at hG
    subst hG
    rfl

/-! ## the inner loops of `Parse` -/

theorem loop2_spec (grow : Nat → Nat → Nat) (x : UInt64) : Loop2Spec (doubleHashParser_Parse_loop_2 grow x) :=
  loop2_of_eqn _ (fun fuel k r q => by loop_eqn doubleHashParser_Parse_loop_2)

theorem loop6_spec (grow : Nat → Nat → Nat) (x : UInt64) : Loop2Spec (doubleHashParser_Parse_loop_6 grow x) :=
  loop2_of_eqn _ (fun fuel k r q => by loop_eqn doubleHashParser_Parse_loop_6)

/-! ### the extension loops seen from the code behind them

  The callers (`loop1_step`, `loop5_step` in GenDHPParseLoop) do not mention the loop functions, their parameter
  lists, their state tuples or exit codes: they apply `loop2_cont` / `loop6_cont` BY UNIFICATION to the term
  `Res.bind (loop … ) T` in the goal (`T` = whatever code follows the loop) and read the result of the loop through
  `ExtView` only.  A restructured extension loop (other state tuple, a flag instead of the exit code, another parameter
  list) needs a new `ExtView`, `loopN_spec` and `loopN_cont` — nothing else. -/

/-- how the code behind an extension loop reads the loop's result `res`: `done` = a mismatch was found inside the
    loop (the tail `if len(q) > 0 {…}` is skipped); `k`, `r`, `q` = the variables after the loop.  The interface
    (four conjuncts: test for `done`, `k`, `r`, `q`) is what the callers use. -/
def ExtView (res : Nat × Int × Slice × Slice) (done : Prop) (k : Int) (r q : Slice) : Prop :=
  (res.1 = 1 ↔ done) ∧ res.2.1 = k ∧ res.2.2.1 = r ∧ res.2.2.2 = q

/-- continuation form of `Loop2Spec`: the loop followed by ANY code `T` that computes `a` from every result the loop
    can have (`done`: the match length is `k`; otherwise it is `matchExtTail r q k`) -/
theorem ext_cont_of_spec {F : Nat → Int → Slice → Slice → Res (Nat × Int × Slice × Slice)} (hF : Loop2Spec F)
    {β : Type} {T : Nat × Int × Slice × Slice → Res β} {a : Res β} (m fuel kN kk : Nat) {k : Int} {r q : Slice}
    (hm : q.len < 8 * m) (hmf : m ≤ fuel) (hk : k = (kN : Int)) (hr : SWF r) (hq : SWF q) (hqr : q.len ≤ r.len)
    (hme : BytesW.matchExtLoop r.data q.data kN = some kk)
    (hT : ∀ (res : Nat × Int × Slice × Slice) (done : Prop) (kN' : Nat) (r' q' : Slice),
      ExtView res done (kN' : Int) r' q' → SWF r' → SWF q' → (done → kN' = kk) →
      (¬ done → BytesW.matchExtTail r'.data q'.data kN' = kk) → T res = a) :
    Res.bind (F fuel k r q) T = a := by
  obtain ⟨e, kN', r', q', hl, hr', hq', hdisj⟩ := hF m fuel kN k r q hm hmf hk hr hq hqr
  rw [hl, bind_ok]
  rw [hme] at hdisj
  rcases hdisj with ⟨he, hm'⟩ | ⟨he, hm'⟩
  · exact hT _ (e = 1) kN' r' q' ⟨Iff.rfl, rfl, rfl, rfl⟩ hr' hq' (fun _ => (Option.some.inj hm').symm)
      (fun h => absurd he h)
  · exact hT _ (e = 1) kN' r' q' ⟨Iff.rfl, rfl, rfl, rfl⟩ hr' hq' (fun h => absurd h he)
      (fun _ => (Option.some.inj hm').symm)

theorem loop2_cont {grow : Nat → Nat → Nat} {x : UInt64}
    {β : Type} {T : Nat × Int × Slice × Slice → Res β} {a : Res β} (m fuel kN kk : Nat) {k : Int} {r q : Slice}
    (hm : q.len < 8 * m) (hmf : m ≤ fuel) (hk : k = (kN : Int)) (hr : SWF r) (hq : SWF q) (hqr : q.len ≤ r.len)
    (hme : BytesW.matchExtLoop r.data q.data kN = some kk)
    (hT : ∀ (res : Nat × Int × Slice × Slice) (done : Prop) (kN' : Nat) (r' q' : Slice),
      ExtView res done (kN' : Int) r' q' → SWF r' → SWF q' → (done → kN' = kk) →
      (¬ done → BytesW.matchExtTail r'.data q'.data kN' = kk) → T res = a) :
    Res.bind (doubleHashParser_Parse_loop_2 grow x fuel k r q) T = a :=
  ext_cont_of_spec (loop2_spec grow x) m fuel kN kk hm hmf hk hr hq hqr hme hT

theorem loop6_cont {grow : Nat → Nat → Nat} {x : UInt64}
    {β : Type} {T : Nat × Int × Slice × Slice → Res β} {a : Res β} (m fuel kN kk : Nat) {k : Int} {r q : Slice}
    (hm : q.len < 8 * m) (hmf : m ≤ fuel) (hk : k = (kN : Int)) (hr : SWF r) (hq : SWF q) (hqr : q.len ≤ r.len)
    (hme : BytesW.matchExtLoop r.data q.data kN = some kk)
    (hT : ∀ (res : Nat × Int × Slice × Slice) (done : Prop) (kN' : Nat) (r' q' : Slice),
      ExtView res done (kN' : Int) r' q' → SWF r' → SWF q' → (done → kN' = kk) →
      (¬ done → BytesW.matchExtTail r'.data q'.data kN' = kk) → T res = a) :
    Res.bind (doubleHashParser_Parse_loop_6 grow x fuel k r q) T = a :=
  ext_cont_of_spec (loop6_spec grow x) m fuel kN kk hm hmf hk hr hq hqr hme hT

/-- loop_3 of `Parse` (`for j = i + 1; j < b; j++ { … }`: both tables) -/
theorem loop3_eq (grow : Nat → Nat → Nat) (b : Int) (y : UInt64) (_p : Slice) (x : UInt64) (h pos : UInt32)
    (n fuel j : Nat) (a : Int) (s : Gen.doubleHashParser)
    (ha : a = (j : Int)) (hn : n = (b - a).toNat) (hf : n < fuel) (hr : n = 0 ∨ j + n + 7 ≤ _p.len)
    (c1 : TCtx s.doubleHashDictionary.h1.mask s.doubleHashDictionary.h1.shift s.doubleHashDictionary.h1.inputLen _p)
    (ht1 : TOK s.doubleHashDictionary.h1.shift s.doubleHashDictionary.h1.table)
    (c2 : TCtx s.doubleHashDictionary.h2.mask s.doubleHashDictionary.h2.shift s.doubleHashDictionary.h2.inputLen _p)
    (ht2 : TOK s.doubleHashDictionary.h2.shift s.doubleHashDictionary.h2.table) :
    ∃ t1 t2, TOK s.doubleHashDictionary.h1.shift t1 ∧ TOK s.doubleHashDictionary.h2.shift t2 ∧
      ProbeW.insertRangeW (ofHash s.doubleHashDictionary.h1) _p.data j n = some (ofHashT s.doubleHashDictionary.h1 t1) ∧
      ProbeW.insertRangeW (ofHash s.doubleHashDictionary.h2) _p.data j n = some (ofHashT s.doubleHashDictionary.h2 t2) ∧
      doubleHashParser_Parse_loop_3 grow b y _p x h pos fuel a s = Res.ok (((j + n : Nat) : Int), setTT s t1 t2) := by
  obtain ⟨s', tA, tB, h1, h2, h3, h4, h5, h6, h7, t1', t2', rfl⟩ :=
    reindex2 (doubleHashParser_Parse_loop_3 grow b y _p x h pos) b _p
      (fun s => s.doubleHashDictionary.h2) (fun s => s.doubleHashDictionary.h1)
      (fun s t => { s with doubleHashDictionary := { s.doubleHashDictionary with h2 := { s.doubleHashDictionary.h2 with table := t } } })
      (fun s t => { s with doubleHashDictionary := { s.doubleHashDictionary with h1 := { s.doubleHashDictionary.h1 with table := t } } })
      (fun _ _ => rfl) (fun _ _ => rfl) (fun _ _ => rfl) (fun _ _ => rfl)
      (fun fuel j s => by loop_eqn doubleHashParser_Parse_loop_3)
      (fun s s' => ∃ t1 t2, s' = setTT s t1 t2)
      (fun s => ⟨s.doubleHashDictionary.h1.table, s.doubleHashDictionary.h2.table, rfl⟩)
      (fun s s' t u ⟨t1, t2, h⟩ => ⟨u, t, by rw [h]⟩)
      n fuel j a s s ha hn hf hr ⟨s.doubleHashDictionary.h1.table, s.doubleHashDictionary.h2.table, rfl⟩ c2 ht2 c1 ht1
  have e6 : t2' = tA := congrArg Gen.hash.table h6
  have e7 : t1' = tB := congrArg Gen.hash.table h7
  subst e6 e7
  exact ⟨_, _, h2, h1, h4, h3, h5⟩

/-- a re-indexing loop of `Parse` on the table of h1 alone (loop_4, loop_7) -/
theorem loopH1_eq (F : Nat → Int → Gen.doubleHashParser → Res (Int × Gen.doubleHashParser)) (b : Int) (_p : Slice)
    (heq : ∀ fuel j s, F (fuel + 1) j s =
      if j < b then
        Res.bind (Slice.slice _p j (Int.ofNat _p.len)) fun t_1 =>
        Res.bind (LZ.Gen._getLE64 t_1) fun r_2 =>
        Res.bind (storeKey s.doubleHashDictionary.h1 s.doubleHashDictionary.h1.table r_2 j) fun t_3 =>
        F fuel (j + 1) (setTT s t_3 s.doubleHashDictionary.h2.table)
      else Res.ok (j, s))
    (n fuel j : Nat) (a : Int) (s : Gen.doubleHashParser)
    (ha : a = (j : Int)) (hn : n = (b - a).toNat) (hf : n < fuel) (hr : n = 0 ∨ j + n + 7 ≤ _p.len)
    (c1 : TCtx s.doubleHashDictionary.h1.mask s.doubleHashDictionary.h1.shift s.doubleHashDictionary.h1.inputLen _p)
    (ht1 : TOK s.doubleHashDictionary.h1.shift s.doubleHashDictionary.h1.table) :
    ∃ t1, TOK s.doubleHashDictionary.h1.shift t1 ∧
      ProbeW.insertRangeW (ofHash s.doubleHashDictionary.h1) _p.data j n = some (ofHashT s.doubleHashDictionary.h1 t1) ∧
      F fuel a s = Res.ok (((j + n : Nat) : Int), setTT s t1 s.doubleHashDictionary.h2.table) := by
  obtain ⟨s', tA, h1, h3, h5, h6, t1', rfl⟩ :=
    reindex1 F b _p (fun s => s.doubleHashDictionary.h1)
      (fun s _ t => setTT s t s.doubleHashDictionary.h2.table)
      (fun _ _ _ => rfl) heq
      (fun s s' => ∃ t1, s' = setTT s t1 s.doubleHashDictionary.h2.table)
      (fun s => ⟨s.doubleHashDictionary.h1.table, rfl⟩)
      (fun s s' y t ⟨t1, h⟩ => ⟨t, by rw [h]⟩)
      n fuel j a s s ha hn hf hr ⟨s.doubleHashDictionary.h1.table, rfl⟩ c1 ht1
  have e6 : t1' = tA := congrArg Gen.hash.table h6
  subst e6
  exact ⟨_, h1, h3, h5⟩

theorem loop4_heq (grow : Nat → Nat → Nat) (b : Int) (x : UInt64) (_p : Slice) (h pos : UInt32) (fuel : Nat) (j : Int)
    (s : Gen.doubleHashParser) :
    doubleHashParser_Parse_loop_4 grow b x _p h pos (fuel + 1) j s =
      if j < b then
        Res.bind (Slice.slice _p j (Int.ofNat _p.len)) fun t_1 =>
        Res.bind (LZ.Gen._getLE64 t_1) fun r_2 =>
        Res.bind (storeKey s.doubleHashDictionary.h1 s.doubleHashDictionary.h1.table r_2 j) fun t_3 =>
        doubleHashParser_Parse_loop_4 grow b x _p h pos fuel (j + 1) (setTT s t_3 s.doubleHashDictionary.h2.table)
      else Res.ok (j, s) := by
  loop_eqn doubleHashParser_Parse_loop_4

theorem loop7_heq (grow : Nat → Nat → Nat) (b : Int) (x : UInt64) (_p : Slice) (h : UInt32) (fuel : Nat) (j : Int)
    (s : Gen.doubleHashParser) :
    doubleHashParser_Parse_loop_7 grow b x _p h (fuel + 1) j s =
      if j < b then
        Res.bind (Slice.slice _p j (Int.ofNat _p.len)) fun t_1 =>
        Res.bind (LZ.Gen._getLE64 t_1) fun r_2 =>
        Res.bind (storeKey s.doubleHashDictionary.h1 s.doubleHashDictionary.h1.table r_2 j) fun t_3 =>
        doubleHashParser_Parse_loop_7 grow b x _p h fuel (j + 1) (setTT s t_3 s.doubleHashDictionary.h2.table)
      else Res.ok (j, s) := by
  loop_eqn doubleHashParser_Parse_loop_7

/-! ## the word-level finder `ProbeW.dhpProbeW` without `do` -/

/-- first loop (`i < e2`), after a candidate `ent` has been chosen; `T1`, `T2` = the tables after the insertion
    of position `i` -/
def tailM1 (ws mm e1 e2 : Nat) (back : Bool) (behind pd _pd : List Byte) (i li : Nat) (T1 T2 : HashT)
    (ent : Nat × Nat) : Option (Hash2 × Option (Nat × Nat × Nat)) :=
  if ¬ (ent.1 < i ∧ i - ent.1 ≤ ws) then some (⟨T1, T2⟩, none)
  else
    (BytesW.matchLenInline pd behind e1 mm i ent.1).bind fun r =>
    match r with
    | none => some (⟨T1, T2⟩, none)
    | some k =>
      (if back then ProbeW.backExtW pd behind i li ent.1 else some 0).bind fun m =>
      (ProbeW.insertRangeW T1 _pd (i - m + 1) (Min.min (i - m + (k + m)) e1 - (i - m + 1))).bind fun t1' =>
      (if back then some T2
        else ProbeW.insertRangeW T2 _pd (i - m + 1) (Min.min (i - m + (k + m)) e2 - (i - m + 1))).bind fun t2' =>
      some (⟨t1', t2'⟩, some (i - m, k + m, i - ent.1))

theorem dhpProbeW_nf1 (ws mm e1 e2 : Nat) (back : Bool) (behind : List Byte) (d : Hash2) (pd : List Byte) (i li : Nat)
    (_pd : List Byte) (y : UInt64) (hi2 : i < e2)
    (h1 : BytesW.sliceTo pd behind (e1 + 7) = some _pd)
    (hy : (BytesW.sliceFrom _pd i).bind BytesW.le64 = some y)
    (x2 : UInt64) (hx2 : x2 = y &&& maskOf d.h2.inputLen)
    (ent2 : Nat × Nat) (he2 : ent2 = d.h2.tbl.getD (LZ.hashValue x2 d.h2.hashBits) (0, 0))
    (T2 : HashT) (hT2 : T2 = { d.h2 with tbl := d.h2.tbl.setIfInBounds (LZ.hashValue x2 d.h2.hashBits) (i, lo32 x2) })
    (x1 : UInt64) (hx1 : x1 = y &&& maskOf d.h1.inputLen)
    (ent1 : Nat × Nat) (he1 : ent1 = d.h1.tbl.getD (LZ.hashValue x1 d.h1.hashBits) (0, 0))
    (T1 : HashT) (hT1 : T1 = { d.h1 with tbl := d.h1.tbl.setIfInBounds (LZ.hashValue x1 d.h1.hashBits) (i, lo32 x1) }) :
    ProbeW.dhpProbeW ws mm e1 e2 back behind d pd i li =
      if lo32 x2 ≠ ent2.2 then
        (if lo32 x1 ≠ ent1.2 then some (⟨T1, T2⟩, none)
         else tailM1 ws mm e1 e2 back behind pd _pd i li T1 T2 ent1)
      else tailM1 ws mm e1 e2 back behind pd _pd i li T1 T2 ent2 := by
  unfold ProbeW.dhpProbeW ProbeW.loadKey tailM1
  simp only [Option.bind_eq_bind, Option.pure_def] at hy ⊢
  rw [h1, Option.bind_some, if_pos hi2]
  cases hsi : BytesW.sliceFrom _pd i with
  | none => rw [hsi] at hy; cases hy
  | some l =>
    rw [hsi, Option.bind_some] at hy
    simp only [Option.bind_some, hy]
    rw [← hx2, ← hx1, ← he2, ← he1, ← hT2, ← hT1]
    by_cases hv2 : lo32 x2 ≠ ent2.2
    · by_cases hv1 : lo32 x1 ≠ ent1.2
      · simp only [if_pos hv2, if_pos hv1]
      · simp only [if_pos hv2, if_neg hv1]
        by_cases hw : ¬(ent1.1 < i ∧ i - ent1.1 ≤ ws)
        · simp only [if_pos hw]
        · simp only [if_neg hw]
          cases BytesW.matchLenInline pd behind e1 mm i ent1.1 with
          | none => rfl
          | some r =>
            cases r with
            | none => rfl
            | some k => cases back <;> simp
    · simp only [if_neg hv2]
      by_cases hw : ¬(ent2.1 < i ∧ i - ent2.1 ≤ ws)
      · simp only [if_pos hw]
      · simp only [if_neg hw]
        cases BytesW.matchLenInline pd behind e1 mm i ent2.1 with
        | none => rfl
        | some r =>
          cases r with
          | none => rfl
          | some k => cases back <;> simp

/-- second loop (`e2 ≤ i`), after the value test; `T1` = the table of h1 after the insertion of position `i` -/
def tailM2 (ws mm e1 : Nat) (back : Bool) (behind pd _pd : List Byte) (i li : Nat) (T1 : HashT) (d : Hash2)
    (ent : Nat × Nat) : Option (Hash2 × Option (Nat × Nat × Nat)) :=
  if ¬ (ent.1 < i ∧ i - ent.1 ≤ ws) then some (⟨T1, d.h2⟩, none)
  else
    (BytesW.matchLenInline pd behind e1 mm i ent.1).bind fun r =>
    match r with
    | none => some (⟨T1, d.h2⟩, none)
    | some k =>
      (if back then ProbeW.backExtW pd behind i li ent.1 else some 0).bind fun m =>
      (ProbeW.insertRangeW T1 _pd ent.1 (Min.min (i - m + (k + m)) e1 - ent.1)).bind fun t1' =>
      some (⟨t1', d.h2⟩, some (i - m, k + m, i - ent.1))

theorem dhpProbeW_nf2 (ws mm e1 e2 : Nat) (back : Bool) (behind : List Byte) (d : Hash2) (pd : List Byte) (i li : Nat)
    (_pd : List Byte) (y : UInt64) (hi2 : ¬ i < e2)
    (h1 : BytesW.sliceTo pd behind (e1 + 7) = some _pd)
    (hy : (BytesW.sliceFrom _pd i).bind BytesW.le64 = some y)
    (x1 : UInt64) (hx1 : x1 = y &&& maskOf d.h1.inputLen)
    (ent1 : Nat × Nat) (he1 : ent1 = d.h1.tbl.getD (LZ.hashValue x1 d.h1.hashBits) (0, 0))
    (T1 : HashT) (hT1 : T1 = { d.h1 with tbl := d.h1.tbl.setIfInBounds (LZ.hashValue x1 d.h1.hashBits) (i, lo32 x1) }) :
    ProbeW.dhpProbeW ws mm e1 e2 back behind d pd i li =
      if lo32 x1 ≠ ent1.2 then some (⟨T1, d.h2⟩, none)
      else tailM2 ws mm e1 back behind pd _pd i li T1 d ent1 := by
  unfold ProbeW.dhpProbeW ProbeW.loadKey tailM2
  simp only [Option.bind_eq_bind, Option.pure_def] at hy ⊢
  rw [h1, Option.bind_some, if_neg hi2]
  cases hsi : BytesW.sliceFrom _pd i with
  | none => rw [hsi] at hy; cases hy
  | some l =>
    rw [hsi, Option.bind_some] at hy
    simp only [Option.bind_some, hy]
    rw [← hx1, ← he1, ← hT1]
    by_cases hv1 : lo32 x1 ≠ ent1.2
    · simp only [if_pos hv1]
    · simp only [if_neg hv1]
      by_cases hw : ¬(ent1.1 < i ∧ i - ent1.1 ≤ ws)
      · simp only [if_pos hw]
      · simp only [if_neg hw]
        cases BytesW.matchLenInline pd behind e1 mm i ent1.1 with
        | none => rfl
        | some r =>
          cases r with
          | none => rfl
          | some k => cases back <;> simp

end LZ.GenDHPParse
