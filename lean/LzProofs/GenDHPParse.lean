/-
  LzProofs.GenDHPParse — the mechanical translation of dhp.go `(*doubleHashParser).Parse`
  (LzModel/Generated/CodeDHPParse.lean, topic DHPParse of tools/extract/code_parse.go; with
  `doubleHashDictionary.processSegment` — its local pointer aliases `h1, h2 := &f.h1, &f.h2` eliminated at source
  level, tools/extract/code_ptralias.go —, `_getLE64`, `_getLE32`, `getLE64`: nothing opaque) versus the word-level
  model `LZ.ProbeW.parseW` for kind `.DHP` (LzProofs/ProbeW.lean: `processSegment2W`, `dhpProbeW`) and, through
  `ProbeW.parseW_reachable`, the LIST-LEVEL model `Parser.parse`.  No sorry, no axioms of its own.

  Abstraction: `ofDHPs s : Parser` (`ofDDict`, GenHashPropsDict2), `staleOfD s` = the bytes of the backing array
  behind `len(s.Data)`, `seqRep`, `parseErr` (GenHPParse).

    gen_dhp_parse        for every Go state with `ParseOKD s`, every `blk`, `flags ≥ 0`, `grow`, and
                         `fuel ≥ 2·len(s.Data) + 3`: `parseW (ofDHPs s) (staleOfD s) flags = none` ⇒ `Res.panic`;
                         `= some (s', n, e, b)` ⇒ `Res.ok (t, blk', n, parseErr e)` with `ofDHPs t = s'`, same
                         stale bytes, sequences, literals, and `ParseOKD t`.
    gen_dhp_parse_model  on reachable states: no panic, the result of the list-level `Parser.parse`.
    gen_dhp_parse_empty  the straight-line prefix (`n = 0`), every fuel.

  `ParseOKD s`: `DDictWF`; the values `DHPConfig` duplicates agree with the copies the model reads; `0 ≤ BlockSize`;
  `W ≤ len(Data)`; `1 ≤ inputLen1 ≤ inputLen2` (`Verify` demands `<`; with `inputLen1 > inputLen2` the loads of the
  first loop leave `_p = s.Data[:e1+7]`: ProbeW.lean, subtlety 3); `hashBits ≤ 32` for both tables;
  `len(Data) < 2^32`.  The two Go loops (`i < e2`: both tables; `e2 ≤ i < e1`: the table of the short hash, whose
  re-indexing loop starts at the MATCH position `j`, not at `i + 1` — dhp.go:318 `for ; j < b; j++`, modelled as such
  in `dhpProbeW`) are ONE `greedyLoopW` of the model (`loops_eq`).
  There is no init theorem for `doubleHashParser.init` yet (GenHashPropsDict2), hence no `gen_dhp_init_parseOK`.
-/
import LzProofs.GenDHPParseLoop
import LzProofs.GenHPParse

set_option linter.unusedSimpArgs false
set_option linter.unusedVariables false

namespace LZ.GenDHPParse
open LZ LZ.Gen LZ.GenBuf LZ.GenHash LZ.GenProps LZ.GenHPParse LZ.GenParse

/-- the model parser state a Go `doubleHashParser` stands for -/
def ofDHPs (s : Gen.doubleHashParser) : Parser := ofDDict .DHP (ofDHP s.DHPConfig) s.doubleHashDictionary

/-- `n` of `Parse`: `min (len(s.Data) - s.W) s.BlockSize` in Go `int` arithmetic -/
def blockND (s : Gen.doubleHashParser) : Int :=
  if s.DHPConfig.BlockSize < (Int.ofNat s.doubleHashDictionary.ParserBuffer.Data.len) - s.doubleHashDictionary.ParserBuffer.W then
    s.DHPConfig.BlockSize
  else
    (Int.ofNat s.doubleHashDictionary.ParserBuffer.Data.len) - s.doubleHashDictionary.ParserBuffer.W

/-- the bytes between `len(s.Data)` and `cap(s.Data)`: the `stale` argument of `ProbeW.parseW` -/
def staleOfD (s : Gen.doubleHashParser) : List UInt8 :=
  s.doubleHashDictionary.ParserBuffer.Data.arr.drop s.doubleHashDictionary.ParserBuffer.Data.len

theorem staleOfD_length (s : Gen.doubleHashParser)
    (h : s.doubleHashDictionary.ParserBuffer.Data.len ≤ s.doubleHashDictionary.ParserBuffer.Data.arr.length) :
    s.doubleHashDictionary.ParserBuffer.Data.data.length + (staleOfD s).length
      = s.doubleHashDictionary.ParserBuffer.Data.cap := by
  unfold staleOfD Slice.data Slice.cap
  rw [List.length_take, List.length_drop]
  omega

/-! the clamp `n = min(len(s.Data) - s.W, s.BlockSize)` in its spellings (after `gt_iff_lt`, `ge_iff_le`, `Int.not_lt`,
    `Int.not_le`, `gen_min`, `Int.min_def`): every one is `blockND s` -/

theorem blockND_lt (s : Gen.doubleHashParser) :
    (if s.DHPConfig.BlockSize < (Int.ofNat s.doubleHashDictionary.ParserBuffer.Data.len) - s.doubleHashDictionary.ParserBuffer.W
      then s.DHPConfig.BlockSize
      else (Int.ofNat s.doubleHashDictionary.ParserBuffer.Data.len) - s.doubleHashDictionary.ParserBuffer.W) = blockND s := rfl

theorem blockND_le (s : Gen.doubleHashParser) :
    (if s.DHPConfig.BlockSize ≤ (Int.ofNat s.doubleHashDictionary.ParserBuffer.Data.len) - s.doubleHashDictionary.ParserBuffer.W
      then s.DHPConfig.BlockSize
      else (Int.ofNat s.doubleHashDictionary.ParserBuffer.Data.len) - s.doubleHashDictionary.ParserBuffer.W) = blockND s := by
  unfold blockND; split <;> split <;> omega

theorem blockND_lt' (s : Gen.doubleHashParser) :
    (if (Int.ofNat s.doubleHashDictionary.ParserBuffer.Data.len) - s.doubleHashDictionary.ParserBuffer.W < s.DHPConfig.BlockSize
      then (Int.ofNat s.doubleHashDictionary.ParserBuffer.Data.len) - s.doubleHashDictionary.ParserBuffer.W
      else s.DHPConfig.BlockSize) = blockND s := by
  unfold blockND; split <;> split <;> omega

theorem blockND_le' (s : Gen.doubleHashParser) :
    (if (Int.ofNat s.doubleHashDictionary.ParserBuffer.Data.len) - s.doubleHashDictionary.ParserBuffer.W ≤ s.DHPConfig.BlockSize
      then (Int.ofNat s.doubleHashDictionary.ParserBuffer.Data.len) - s.doubleHashDictionary.ParserBuffer.W
      else s.DHPConfig.BlockSize) = blockND s := by
  unfold blockND; split <;> split <;> omega

/-- the straight-line prefix of `Parse`: nothing to parse ⇒ `(0, ErrEmptyBuffer)`, the block is emptied, the parser
    is unchanged; no panic, for every `grow` and `fuel` -/
theorem gen_dhp_parse_empty (grow : Nat → Nat → Nat) (fuel : Nat) (s : Gen.doubleHashParser) (blk : Gen.Block')
    (flags : Int) (h : blockND s = 0) :
    doubleHashParser_Parse grow fuel s blk flags = Res.ok (s, resetBlk blk, (0 : Int), ErrEmptyBuffer) := by
  have bind_ok : ∀ {α β : Type} (a : α) (f : α → Res β), Res.bind (Res.ok a) f = f a := fun _ _ => rfl
  have hs : Slice.slice blk.Literals 0 (0 : Int) = Res.ok { arr := blk.Literals.arr, len := 0 } := by
    unfold Slice.slice
    simp [Slice.cap]
  unfold doubleHashParser_Parse doubleHashParser_Parse_nilable; simp only [Bool.false_eq_true]
  -- shape-independent in the spelling of the clamp: every spelling of `n` is rewritten to `blockND s`, then to 0
  simp only [gen_min, Int.min_def, gt_iff_lt, ge_iff_le, Int.not_lt, Int.not_le,
    blockND_lt, blockND_le, blockND_lt', blockND_le']
  simp only [h, hs, bind_ok, if_true, if_false, resetBlk]

/-! ## the whole `Parse` -/

/-- the hypotheses of `gen_dhp_parse` on the Go state (see the header) -/
structure ParseOKD (s : Gen.doubleHashParser) : Prop where
  wf : DDictWF s.doubleHashDictionary
  cws : s.DHPConfig.WindowSize.toNat = s.doubleHashDictionary.ParserBuffer.BufConfig.WindowSize.toNat
  cbs : s.DHPConfig.BlockSize.toNat = s.doubleHashDictionary.ParserBuffer.BufConfig.BlockSize.toNat
  cil : s.DHPConfig.InputLen1.toNat = s.doubleHashDictionary.h1.inputLen.toNat
  bs0 : 0 ≤ s.DHPConfig.BlockSize
  w : s.doubleHashDictionary.ParserBuffer.W ≤ s.doubleHashDictionary.ParserBuffer.Data.len
  il1 : 1 ≤ s.doubleHashDictionary.h1.inputLen
  il12 : s.doubleHashDictionary.h1.inputLen ≤ s.doubleHashDictionary.h2.inputLen
  sh1 : 32 ≤ s.doubleHashDictionary.h1.shift.toNat
  sh2 : 32 ≤ s.doubleHashDictionary.h2.shift.toNat
  small : s.doubleHashDictionary.ParserBuffer.Data.len < 4294967296

theorem parseW_double_nf (s : Parser) (stale : List Byte) (flags : Nat) (d : Hash2) (hd : s.dict = .double d)
    (hn : s.blockN ≠ 0) :
    ProbeW.parseW s stale flags =
      (ProbeW.processSegment2W d.h1 d.h2 s.buf.data stale ((s.buf.w : Int) - d.h2.inputLen + 1) s.buf.w).bind fun hh =>
      (ProbeW.resliceMargin (s.buf.data.take (s.buf.w + s.blockN)) (s.buf.data.drop (s.buf.w + s.blockN) ++ stale)
        hh.1.inputLen).bind fun _ =>
      (ProbeW.runGreedyW (ProbeW.dhpProbeW s.buf.cfg.windowSize s.minMatch
          ((s.buf.data.take (s.buf.w + s.blockN)).length + 1 - hh.1.inputLen)
          ((s.buf.data.take (s.buf.w + s.blockN)).length + 1 - hh.2.inputLen) (s.kind == .BDHP)
          (s.buf.data.drop (s.buf.w + s.blockN) ++ stale)) ⟨hh.1, hh.2⟩ (s.buf.data.take (s.buf.w + s.blockN)) s.buf.w
          ((s.buf.data.take (s.buf.w + s.blockN)).length + 1 - hh.1.inputLen) flags).bind fun r =>
      some ({ s with buf := { s.buf with w := r.2.1 }, dict := .double r.1 }, r.2.1 - s.buf.w, .ok, r.2.2.1) := by
  unfold ProbeW.parseW
  simp only [hn, if_false, hd]
  rfl

/-- the Go state after `Parse`: new `W`, new tables -/
@[reducible] def withWTD (s : Gen.doubleHashParser) (w : Int) (t1 t2 : GSlice hashEntry) : Gen.doubleHashParser :=
  { doubleHashDictionary :=
      { ParserBuffer := { s.doubleHashDictionary.ParserBuffer with W := w },
        h1 := { s.doubleHashDictionary.h1 with table := t1 },
        h2 := { s.doubleHashDictionary.h2 with table := t2 } },
    DHPConfig := s.DHPConfig }

set_option maxHeartbeats 1000000 in
theorem gen_dhp_parse (grow : Nat → Nat → Nat) (fuel : Nat) (s : Gen.doubleHashParser) (blk : Gen.Block') (flags : Int)
    (h : ParseOKD s) (hfl : 0 ≤ flags) (hfuel : 2 * s.doubleHashDictionary.ParserBuffer.Data.len + 3 ≤ fuel) :
    match ProbeW.parseW (ofDHPs s) (staleOfD s) flags.toNat with
    | none => doubleHashParser_Parse grow fuel s blk flags = Res.panic
    | some (s', n, e, b) =>
      ∃ t blk', doubleHashParser_Parse grow fuel s blk flags = Res.ok (t, blk', (n : Int), parseErr e) ∧
        ofDHPs t = s' ∧ staleOfD t = staleOfD s ∧ (e = .ok ∨ e = .empty) ∧
        blk'.Sequences = b.seqs.map seqRep ∧ blk'.Literals.data = b.lits ∧ SWF blk'.Literals ∧ ParseOKD t := by
  have hP := h
  obtain ⟨⟨hpb, hw1, hw2⟩, cws, cbs, cil, hbs0, hW, hil1, hil12, hsh1, hsh2, hsmall⟩ := h
  obtain ⟨hgwf1, hil01, hmask1, hs641, htl1⟩ := hw1
  obtain ⟨hgwf2, hil02, hmask2, hs642, htl2⟩ := hw2
  have w1 : HOK s.doubleHashDictionary.h1 := ⟨hil01, hmask1, hsh1, hs641, ⟨hgwf1, htl1⟩⟩
  have w2 : HOK s.doubleHashDictionary.h2 := ⟨hil02, hmask2, hsh2, hs642, ⟨hgwf2, htl2⟩⟩
  have hD : SWF s.doubleHashDictionary.ParserBuffer.Data := hpb.data
  have hD' : s.doubleHashDictionary.ParserBuffer.Data.len ≤ s.doubleHashDictionary.ParserBuffer.Data.arr.length := hD
  have hW0 := hpb.w
  have hdl : s.doubleHashDictionary.ParserBuffer.Data.data.length = s.doubleHashDictionary.ParserBuffer.Data.len := data_length hD
  have hbN : (ofDHPs s).blockN = Min.min (s.doubleHashDictionary.ParserBuffer.Data.len - s.doubleHashDictionary.ParserBuffer.W.toNat)
      s.DHPConfig.BlockSize.toNat := by
    show Min.min (s.doubleHashDictionary.ParserBuffer.Data.data.length - _) s.doubleHashDictionary.ParserBuffer.BufConfig.BlockSize.toNat = _
    rw [hdl, cbs]
    rfl
  -- the clamp: `blockND s` (every spelling of the Go text is rewritten to it, see `blockND_lt` …) is the model's `blockN`
  have hnG : blockND s = (((ofDHPs s).blockN : Nat) : Int) := by
    rw [hbN]; unfold blockND
    simp only [Int.ofNat_eq_natCast]
    split <;> omega
  by_cases hn : (ofDHPs s).blockN = 0
  · have hg : blockND s = 0 := by rw [hnG, hn]; rfl
    rw [gen_dhp_parse_empty grow fuel s blk flags hg]
    unfold ProbeW.parseW
    simp only [hn, if_true]
    exact ⟨s, resetBlk blk, rfl, rfl, rfl, by simp, rfl, rfl, Nat.zero_le _, hP⟩
  -- the model side, without `do`
  rw [parseW_double_nf (ofDHPs s) (staleOfD s) flags.toNat
    ⟨ofHash s.doubleHashDictionary.h1, ofHash s.doubleHashDictionary.h2⟩ rfl hn]
  have hargs : ProbeW.processSegment2W (ofHash s.doubleHashDictionary.h1) (ofHash s.doubleHashDictionary.h2)
      (ofDHPs s).buf.data (staleOfD s)
      (((ofDHPs s).buf.w : Int) - ((ofHash s.doubleHashDictionary.h2).inputLen : Int) + 1) ((ofDHPs s).buf.w : Int) =
      ProbeW.processSegment2W (ofHash s.doubleHashDictionary.h1) (ofHash s.doubleHashDictionary.h2)
        s.doubleHashDictionary.ParserBuffer.Data.data
        (s.doubleHashDictionary.ParserBuffer.Data.arr.drop s.doubleHashDictionary.ParserBuffer.Data.len)
        ((s.doubleHashDictionary.ParserBuffer.W - s.doubleHashDictionary.h2.inputLen) + 1) s.doubleHashDictionary.ParserBuffer.W := by
    have e1 : (((ofDHPs s).buf.w : Nat) : Int) = s.doubleHashDictionary.ParserBuffer.W := by
      show ((s.doubleHashDictionary.ParserBuffer.W.toNat : Nat) : Int) = _; omega
    have e2 : (((ofHash s.doubleHashDictionary.h2).inputLen : Nat) : Int) = s.doubleHashDictionary.h2.inputLen := by
      show ((s.doubleHashDictionary.h2.inputLen.toNat : Nat) : Int) = _; omega
    rw [e1, e2]; rfl
  rw [hargs]
  have hps := gen_processSegment2 fuel s.doubleHashDictionary
    ((s.doubleHashDictionary.ParserBuffer.W - s.doubleHashDictionary.h2.inputLen) + 1)
    s.doubleHashDictionary.ParserBuffer.W hD w1 w2 hil12 hsmall (by omega)
  -- the Go side up to `processSegment`
  have hs0 : Slice.slice blk.Literals 0 (0 : Int) = Res.ok { arr := blk.Literals.arr, len := 0 } := by
    unfold Slice.slice
    simp [Slice.cap]
  generalize hG : doubleHashParser_Parse grow fuel s blk flags = G
  unfold doubleHashParser_Parse doubleHashParser_Parse_nilable at hG; simp only [Bool.false_eq_true] at hG
  simp only [if_false] at hG
  simp only [gen_min, Int.min_def, gt_iff_lt, ge_iff_le, Int.not_lt, Int.not_le,
    blockND_lt, blockND_le, blockND_lt', blockND_le', hnG] at hG
  rw [hs0, bind_ok, if_neg (by omega)] at hG
  cases hp1 : ProbeW.processSegment2W (ofHash s.doubleHashDictionary.h1) (ofHash s.doubleHashDictionary.h2)
        s.doubleHashDictionary.ParserBuffer.Data.data
        (s.doubleHashDictionary.ParserBuffer.Data.arr.drop s.doubleHashDictionary.ParserBuffer.Data.len)
        ((s.doubleHashDictionary.ParserBuffer.W - s.doubleHashDictionary.h2.inputLen) + 1) s.doubleHashDictionary.ParserBuffer.W with
  | none =>
    rw [hp1] at hps
    simp only [] at hps
    rw [hps] at hG
    exact hG.symm
  | some hh =>
    rw [hp1] at hps
    obtain ⟨t01, t02, ht01, ht02, rfl, hps⟩ := hps
    rw [hps, bind_ok] at hG
    rw [Option.bind_some]
    dsimp only at hG
    -- names for the natural numbers
    obtain ⟨Wn, hWn⟩ : ∃ Wn : Nat, s.doubleHashDictionary.ParserBuffer.W = (Wn : Int) :=
      ⟨s.doubleHashDictionary.ParserBuffer.W.toNat, by omega⟩
    have hwn : (ofDHPs s).buf.w = Wn := by
      show s.doubleHashDictionary.ParserBuffer.W.toNat = Wn; omega
    generalize hnN : (ofDHPs s).blockN = nN at hG hn hbN ⊢
    rw [hwn]
    have hWn' : s.doubleHashDictionary.ParserBuffer.W.toNat = Wn := by omega
    rw [hWn'] at hbN
    have hLlen : Wn + nN ≤ s.doubleHashDictionary.ParserBuffer.Data.len := by omega
    have hpm : List.take (Wn + nN) (ofDHPs s).buf.data = s.doubleHashDictionary.ParserBuffer.Data.arr.take (Wn + nN) := by
      show (s.doubleHashDictionary.ParserBuffer.Data.arr.take _).take _ = _
      rw [List.take_take, Nat.min_eq_left hLlen]
    have hbeh : List.drop (Wn + nN) (ofDHPs s).buf.data ++ staleOfD s =
        s.doubleHashDictionary.ParserBuffer.Data.arr.drop (Wn + nN) := behind_eq _ _ _ hLlen
    have hws : (ofDHPs s).buf.cfg.windowSize = s.DHPConfig.WindowSize.toNat := by rw [cws]; rfl
    have hmmM : (ofDHPs s).minMatch = Min.min 3 s.doubleHashDictionary.h1.inputLen.toNat := by
      show Min.min 3 s.DHPConfig.InputLen1.toNat = _; rw [cil]
    have hkind : ((ofDHPs s).kind == Kind.BDHP) = false := rfl
    have hpl : (s.doubleHashDictionary.ParserBuffer.Data.arr.take (Wn + nN)).length = Wn + nN := by
      rw [List.length_take]; omega
    rw [hpm, hbeh, hws, hmmM, hkind, hpl]
    simp only [ofHashT_inputLen]
    -- p := s.Data[:s.W+n]
    rw [hWn, slice_okI s.doubleHashDictionary.ParserBuffer.Data 0 ((Wn : Int) + (nN : Int)) 0 (Wn + nN) rfl (by omega)
      (Nat.zero_le _) (by omega), bind_ok] at hG
    simp only [List.drop_zero, Nat.sub_zero] at hG
    generalize hA : s.doubleHashDictionary.ParserBuffer.Data.arr = A at hG hD' hpl ⊢
    obtain ⟨il1, hil1n⟩ : ∃ il1 : Nat, s.doubleHashDictionary.h1.inputLen = (il1 : Int) :=
      ⟨s.doubleHashDictionary.h1.inputLen.toNat, by omega⟩
    obtain ⟨il2, hil2n⟩ : ∃ il2 : Nat, s.doubleHashDictionary.h2.inputLen = (il2 : Int) :=
      ⟨s.doubleHashDictionary.h2.inputLen.toNat, by omega⟩
    have hil1' : s.doubleHashDictionary.h1.inputLen.toNat = il1 := by omega
    have hil2' : s.doubleHashDictionary.h2.inputLen.toNat = il2 := by omega
    rw [hil1', hil2'] at *
    rw [hil1n, hil2n] at hG
    -- the margin reslice `_p := s.Data[:e1+7]`
    have hrm : ∀ il : Nat, ProbeW.resliceMargin (List.take (Wn + nN) A) (List.drop (Wn + nN) A) il =
        if ((Wn + nN : Nat) : Int) - (il : Int) + 1 + 7 < 0 ∨ (A.length : Int) < ((Wn + nN : Nat) : Int) - (il : Int) + 1 + 7
        then none else some () := by
      intro il; unfold ProbeW.resliceMargin
      rw [List.take_append_drop, hpl]
    rw [hrm]
    by_cases hmar : ((Wn + nN : Nat) : Int) - (il1 : Int) + 1 + 7 < 0 ∨
        (A.length : Int) < ((Wn + nN : Nat) : Int) - (il1 : Int) + 1 + 7
    · rw [if_pos hmar]
      rw [slice_panic _ _ _ (by
        rw [hA]; show _ ∨ ((Wn + nN : Nat) : Int) - _ + 1 + 7 < 0 ∨ (A.length : Int) < ((Wn + nN : Nat) : Int) - _ + 1 + 7
        omega)] at hG
      exact hG.symm
    rw [if_neg hmar, Option.bind_some]
    have hcapE : ((Int.ofNat (Wn + nN) - (il1 : Int) + 1 + 7).toNat) ≤ s.doubleHashDictionary.ParserBuffer.Data.arr.length := by
      rw [hA]; show (((Wn + nN : Nat) : Int) - _ + 1 + 7).toNat ≤ _; omega
    rw [slice_okI s.doubleHashDictionary.ParserBuffer.Data 0 (Int.ofNat (Wn + nN) - (il1 : Int) + 1 + 7) 0
      ((Int.ofNat (Wn + nN) - (il1 : Int) + 1 + 7).toNat) rfl
      (by show ((Wn + nN : Nat) : Int) - _ + 1 + 7 = (((((Wn + nN : Nat) : Int) - _ + 1 + 7).toNat : Nat) : Int); omega)
      (Nat.zero_le _) hcapE, bind_ok] at hG
    simp only [List.drop_zero, Nat.sub_zero] at hG
    rw [hA] at hG
    have w1' : HOK (setTT s t01 t02).doubleHashDictionary.h1 := ⟨hil01, hmask1, hsh1, hs641, ht01⟩
    have w2' : HOK (setTT s t01 t02).doubleHashDictionary.h2 := ⟨hil02, hmask2, hsh2, hs642, ht02⟩
    have hi12 : il1 ≤ il2 := by omega
    have hi1 : 1 ≤ il1 := by omega
    -- the two greedy loops
    have hloop : ∃ (st1 st' : LoopSt Hash2) (s1 : Gen.doubleHashParser) (blk1 : Block') (t1 t2 : GSlice hashEntry)
          (blk' : Block'),
        ProbeW.greedyLoopW (ProbeW.dhpProbeW s.DHPConfig.WindowSize.toNat (Min.min 3 il1) (Wn + nN + 1 - il1)
            (Wn + nN + 1 - il2) false (A.drop (Wn + nN))) (A.take (Wn + nN)) (Wn + nN + 1 - il1)
          { dict := ⟨ofHashT s.doubleHashDictionary.h1 t01, ofHashT s.doubleHashDictionary.h2 t02⟩,
            i := Wn, litIndex := Wn, seqs := [], lits := [] } = some st' ∧
        doubleHashParser_Parse_loop_1 grow (Int.ofNat (Wn + nN) - (il2 : Int) + 1)
          { arr := A, len := (Int.ofNat (Wn + nN) - (il1 : Int) + 1 + 7).toNat } { arr := A, len := Wn + nN }
          (if (il1 : Int) < 3 then (il1 : Int) else 3) (Int.ofNat (Wn + nN) - (il1 : Int) + 1) fuel (Wn : Int)
          { doubleHashDictionary := setDD s.doubleHashDictionary t01 t02, DHPConfig := s.DHPConfig }
          { Sequences := [], Literals := { arr := blk.Literals.arr, len := 0 } } (Wn : Int) =
          Res.ok ((st1.i : Int), s1, blk1, (st1.litIndex : Int)) ∧
        doubleHashParser_Parse_loop_5 grow (Int.ofNat (Wn + nN) - (il1 : Int) + 1)
          { arr := A, len := (Int.ofNat (Wn + nN) - (il1 : Int) + 1 + 7).toNat } { arr := A, len := Wn + nN }
          (if (il1 : Int) < 3 then (il1 : Int) else 3) fuel (st1.i : Int) s1 blk1 (st1.litIndex : Int) =
          Res.ok ((st'.i : Int), setTT s t1 t2, blk', (st'.litIndex : Int)) ∧
        TOK s.doubleHashDictionary.h1.shift t1 ∧ TOK s.doubleHashDictionary.h2.shift t2 ∧
        st'.dict = ⟨ofHashT s.doubleHashDictionary.h1 t1, ofHashT s.doubleHashDictionary.h2 t2⟩ ∧
        blk'.Sequences = st'.seqs.map seqRep ∧ blk'.Literals.data = st'.lits ∧ SWF blk'.Literals ∧
        Wn ≤ st'.litIndex ∧ st'.litIndex ≤ Wn + nN := by
      have hmmI : (if (il1 : Int) < 3 then (il1 : Int) else 3) = ((Min.min 3 il1 : Nat) : Int) := by
        split <;> omega
      by_cases h0 : (Wn : Int) < Int.ofNat (Wn + nN) - (il1 : Int) + 1
      · have h0' : (Wn : Int) < ((Wn + nN : Nat) : Int) - (il1 : Int) + 1 := h0
        have hEI : Int.ofNat (Wn + nN) - (il1 : Int) + 1 = ((Wn + nN + 1 - il1 : Nat) : Int) := by
          show ((Wn + nN : Nat) : Int) - _ + 1 = _; omega
        have hE7 : (Int.ofNat (Wn + nN) - (il1 : Int) + 1 + 7).toNat = Wn + nN + 1 - il1 + 7 := by
          rw [hEI]; omega
        have hE2N : Wn + nN + 1 - il2 = (Int.ofNat (Wn + nN) - (il2 : Int) + 1).toNat := by
          show _ = (((Wn + nN : Nat) : Int) - _ + 1).toNat; omega
        rw [hE7, hE2N]
        have hmar' : ¬ ((A.length : Int) < ((Wn + nN : Nat) : Int) - (il1 : Int) + 1 + 7) := fun hc => hmar (Or.inr hc)
        obtain ⟨st1, st', s1, blk1, t1, t2, blk', h1, h2, h3, h4, h5, h6, h7, h8, h9, h10, h11⟩ :=
          loops_eq grow (Int.ofNat (Wn + nN) - (il1 : Int) + 1) (Int.ofNat (Wn + nN) - (il2 : Int) + 1)
            (if (il1 : Int) < 3 then (il1 : Int) else 3) A (Wn + nN) (Wn + nN + 1 - il1) (Min.min 3 il1)
            s.DHPConfig.WindowSize.toNat hEI
            (by show ((Wn + nN : Nat) : Int) - _ + 1 ≤ ((Wn + nN : Nat) : Int) - _ + 1; omega) hmmI
            (by omega) (by omega) (by omega) (by omega) (by omega) (by omega)
            fuel Wn (setTT s t01 t02) { Sequences := [], Literals := { arr := blk.Literals.arr, len := 0 } }
            w1' w2' rfl (by omega) (by omega) rfl rfl (Nat.zero_le _)
        exact ⟨st1, st', s1, blk1, t1, t2, blk', h1, h2, h3, h4, h5, h6, h7, h8, h9, h10, h11⟩
      · have h0' : ¬ (Wn : Int) < ((Wn + nN : Nat) : Int) - (il1 : Int) + 1 := h0
        obtain ⟨f, rfl⟩ : ∃ f, fuel = f + 1 := ⟨fuel - 1, by omega⟩
        refine ⟨{ dict := ⟨ofHashT s.doubleHashDictionary.h1 t01, ofHashT s.doubleHashDictionary.h2 t02⟩, i := Wn, litIndex := Wn, seqs := [], lits := [] },
          { dict := ⟨ofHashT s.doubleHashDictionary.h1 t01, ofHashT s.doubleHashDictionary.h2 t02⟩, i := Wn, litIndex := Wn, seqs := [], lits := [] },
          setTT s t01 t02, { Sequences := [], Literals := { arr := blk.Literals.arr, len := 0 } }, t01, t02,
          { Sequences := [], Literals := { arr := blk.Literals.arr, len := 0 } },
          ProbeW.greedyLoopW_done _ _ _ _ (by show ¬ Wn < Wn + nN + 1 - il1; omega), ?_, ?_, ht01, ht02, rfl, rfl,
          rfl, Nat.zero_le _, Nat.le_refl _, by show Wn ≤ Wn + nN; omega⟩
        · rw [doubleHashParser_Parse_loop_1, if_neg (by
            show ¬ (Wn : Int) < ((Wn + nN : Nat) : Int) - (il2 : Int) + 1; omega)]
        · rw [doubleHashParser_Parse_loop_5, if_neg h0]
    obtain ⟨st1, st', s1, blk1, t1', t2', blk', hgl, hl1, hl5, ht1', ht2', hdict', hseq', hlit', hswf', hli1, hli2⟩ := hloop
    rw [hl1, bind_ok] at hG
    dsimp only at hG
    rw [hl5, bind_ok] at hG
    dsimp only at hG
    unfold ProbeW.runGreedyW
    simp only [Option.bind_eq_bind, Option.pure_def]
    rw [hgl, Option.bind_some, Option.bind_some]
    dsimp only
    have hPt : ∀ w' : Nat, w' ≤ Wn + nN → ParseOKD (withWTD s (w' : Int) t1' t2') := by
      intro w' hw'
      exact ⟨⟨⟨hD, by show (0 : Int) ≤ (w' : Int); omega, hpb.off, hpb.ss, hpb.bs⟩,
          ⟨ht1'.1, hil01, hmask1, hs641, ht1'.2⟩, ⟨ht2'.1, hil02, hmask2, hs642, ht2'.2⟩⟩,
        cws, cbs, cil, hbs0,
        by show (w' : Int) ≤ ((s.doubleHashDictionary.ParserBuffer.Data.len : Nat) : Int); omega,
        by show (1 : Int) ≤ s.doubleHashDictionary.h1.inputLen; omega,
        by show s.doubleHashDictionary.h1.inputLen ≤ s.doubleHashDictionary.h2.inputLen; omega, hsh1, hsh2, hsmall⟩
    have hslen : blk'.Sequences.length = st'.seqs.length := by rw [hseq', List.length_map]
    unfold finishBlock
    by_cases hfin : flags.toNat % 2 = 1 ∧ st'.seqs ≠ []
    · rw [if_pos hfin]
      have hne : st'.seqs.length ≠ 0 := fun hc => hfin.2 (List.eq_nil_of_length_eq_zero hc)
      rw [if_pos ⟨(iand_one flags hfl).mpr hfin.1, by show 0 < (blk'.Sequences.length : Int); omega⟩, bind_ok] at hG
      dsimp only at hG
      refine ⟨withWTD s (st'.litIndex : Int) t1' t2', blk', hG.symm.trans ?_, ?_, rfl, Or.inl rfl, hseq', hlit', hswf',
        hPt _ hli2⟩
      · rw [hWn]
        have : ((st'.litIndex : Nat) : Int) - (Wn : Int) = ((st'.litIndex - Wn : Nat) : Int) := by omega
        rw [this]; rfl
      · rw [hdict']; rfl
    · rw [if_neg hfin]
      have hcond : ¬ (iand flags 1 ≠ 0 ∧ 0 < Int.ofNat blk'.Sequences.length) := by
        intro ⟨h1, h2⟩
        apply hfin
        refine ⟨(iand_one flags hfl).mp h1, ?_⟩
        intro hc
        have h2' : 0 < (blk'.Sequences.length : Int) := h2
        rw [hslen, hc] at h2'
        exact absurd h2' (by decide)
      rw [if_neg hcond, slice_okI _ _ (Int.ofNat (Wn + nN)) st'.litIndex (Wn + nN) rfl rfl hli2
        (by show Wn + nN ≤ A.length; omega), bind_ok, bind_ok] at hG
      dsimp only at hG
      refine ⟨withWTD s ((Wn + nN : Nat) : Int) t1' t2',
        { Sequences := blk'.Sequences,
          Literals := Slice.append grow blk'.Literals ((A.drop st'.litIndex).take (Wn + nN - st'.litIndex)) },
        hG.symm.trans ?_, ?_, rfl, Or.inl rfl, hseq', ?_,
        swf_append grow _ hswf' _, hPt _ (Nat.le_refl _)⟩
      · rw [hWn, hpl]
        have : Int.ofNat (Wn + nN) - (Wn : Int) = ((Wn + nN - Wn : Nat) : Int) := by
          show ((Wn + nN : Nat) : Int) - _ = _; omega
        rw [this]; rfl
      · rw [hdict', hpl]; rfl
      · rw [(append_spec grow blk'.Literals hswf' _).1, hlit']
        show _ ++ (A.drop st'.litIndex).take (Wn + nN - st'.litIndex) = _ ++ (A.take (Wn + nN)).drop st'.litIndex
        rw [List.drop_take]

/-- **Go text → list-level model** (reachable states: `NewParser`, then any history of `Write`, `ReadFrom`, `Parse`,
    `Parse(nil)`, `Shrink`, `Reset`): no panic, the result of `Parser.parse`. -/
theorem gen_dhp_parse_model (grow : Nat → Nat → Nat) (fuel : Nat) (s : Gen.doubleHashParser) (blk : Gen.Block') (flags : Int)
    (h : ParseOKD s) (hfl : 0 ≤ flags) (hfuel : 2 * s.doubleHashDictionary.ParserBuffer.Data.len + 3 ≤ fuel)
    (raw : Cfg) (s0 : Parser) (h0 : newParser .DHP raw = some s0) (ops : List POp)
    (hreach : ofDHPs s = (runOps (s0, Ghost.init) ops).1) :
    ∃ t blk', doubleHashParser_Parse grow fuel s blk flags =
        Res.ok (t, blk', (((ofDHPs s).parse flags.toNat).2.1 : Int), parseErr ((ofDHPs s).parse flags.toNat).2.2.1) ∧
      ofDHPs t = ((ofDHPs s).parse flags.toNat).1 ∧ staleOfD t = staleOfD s ∧
      blk'.Sequences = ((ofDHPs s).parse flags.toNat).2.2.2.seqs.map seqRep ∧
      blk'.Literals.data = ((ofDHPs s).parse flags.toNat).2.2.2.lits ∧ SWF blk'.Literals ∧ ParseOKD t := by
  have hb : ProbeW.Backing (ofDHPs s) (staleOfD s) := staleOfD_length s h.wf.1.data
  have hW := ProbeW.parseW_reachable .DHP (Or.inr (Or.inr (Or.inl rfl))) raw s0 h0 ops (staleOfD s) flags.toNat
    (by rw [← hreach]; exact hb)
  rw [← hreach] at hW
  have hm := gen_dhp_parse grow fuel s blk flags h hfl hfuel
  rw [hW] at hm
  obtain ⟨t, blk', h1, h2, h3, _, h5, h6, h7, h8⟩ := hm
  exact ⟨t, blk', h1, h2, h3, h5, h6, h7, h8⟩

end LZ.GenDHPParse

#print axioms LZ.GenDHPParse.gen_dhp_parse_empty
#print axioms LZ.GenDHPParse.gen_dhp_parse
#print axioms LZ.GenDHPParse.gen_dhp_parse_model
