/-
  LzProofs.ParseEval — a fuel-based (structurally recursive) copy of the greedy loop, proved
  equal to the model's well-founded `greedyLoop`, so that concrete parses can be evaluated
  inside the kernel (`decide`) for the non-vacuity examples.
-/
import LzProofs.ParseParser
namespace LZ

def greedyLoopF {δ} (F : Finder δ) (p : List Byte) (stop : Nat) : Nat → LoopSt δ → LoopSt δ
  | 0, st => st
  | fuel+1, st =>
    if st.i < stop then
      match F.probe st.dict p st.i st.litIndex with
      | (d, none) => greedyLoopF F p stop fuel { st with dict := d, i := st.i + 1 }
      | (d, some (s, k, o)) =>
        if s + k > st.i then
          let q := (p.drop st.litIndex).take (s - st.litIndex)
          greedyLoopF F p stop fuel
            { dict := d, i := s + k, litIndex := s + k,
              seqs := st.seqs ++ [{ litLen := q.length, matchLen := k, offset := o }],
              lits := st.lits ++ q }
        else { st with dict := d, i := stop }
    else st

theorem greedyLoop_eq_fuel {δ} (F : Finder δ) (p : List Byte) (stop : Nat) :
    ∀ (st : LoopSt δ) (fuel : Nat), stop - st.i ≤ fuel →
      greedyLoop F p stop st = greedyLoopF F p stop fuel st := by
  intro st
  induction st using greedyLoop.induct F p stop with
  | case1 st h d hp ih =>
    intro fuel hf
    cases fuel with
    | zero => omega
    | succ fuel =>
      rw [greedyLoop]; simp only [h, dite_true, greedyLoopF, if_true]
      rw [hp]
      exact ih fuel (by simp only; omega)
  | case2 st h d s k o hp hk q ih =>
    intro fuel hf
    cases fuel with
    | zero => omega
    | succ fuel =>
      rw [greedyLoop]; simp only [h, dite_true, greedyLoopF, if_true]
      rw [hp]
      simp only [hk, dite_true, if_true]
      exact ih fuel (by simp only; omega)
  | case3 st h d s k o hp hk =>
    intro fuel hf
    cases fuel with
    | zero => omega
    | succ fuel =>
      rw [greedyLoop]; simp only [h, dite_true, greedyLoopF, if_true]
      rw [hp]
      simp only [hk, dite_false, if_false]
  | case4 st h =>
    intro fuel hf
    rw [greedyLoop]; simp only [h, dite_false]
    cases fuel with
    | zero => rfl
    | succ fuel => simp only [greedyLoopF, h, if_false]

theorem runGreedy_eq_fuel {δ} (F : Finder δ) (d : δ) (p : List Byte) (w stop flags : Nat) :
    Parser.runGreedy F d p w stop flags =
      (let st := greedyLoopF F p stop (stop - w)
        { dict := d, i := w, litIndex := w, seqs := [], lits := [] }
       ((st.dict, (finishBlock p flags st).1, (finishBlock p flags st).2, st.litIndex))) := by
  unfold Parser.runGreedy
  rw [greedyLoop_eq_fuel F p stop _ (stop - w) (Nat.le_refl _)]

end LZ
