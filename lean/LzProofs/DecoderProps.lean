/-
  LzProofs.DecoderProps — properties C06 (every Decoder call terminates: the retry loops never
  spin) and C18 (exactly-once delivery to a failing / short-writing writer) for the model
  `LzModel.DecBuf` of decoder_buffer.go.

  Conventions
  * `g : Grow` is the Go runtime's slice growth function; every theorem holds for all `g`.
  * `DecBuf.Inv b  :=  b.r ≤ |b.data| ∧ b.ws < b.bs ∧ |b.data| ≤ b.bs`   (established by `Init`).
  * `hangErr` is the marker the model returns in the branch in which the Go loop would spin
    (an iteration that neither consumes input nor flushes a byte).  C06 = "never returned".
  * `Decoder.log d := d.w.got ++ d.buf.pending` with `pending = data[r:]`: everything the decoder has
    accepted from its caller since the writer was installed: already handed to the writer
    (`got`) or still buffered.  `got` is by construction a prefix of `log`.
  * `Decoder.Hist d`: the window `data[:r]` is the tail of `got` (so `data` is a suffix of `log`).
  * `Expands hist lits seqs k l out`: `out` is the reference expansion (`expandSeqs`) over `hist`
    of the first `k` sequences and `l` literal bytes of the block.
  * `WBSpec g` (hypothesis `hWB`): `DecBuf.writeBlock` appends exactly the reference expansion of
    the `k` sequences / `l` literals it reports (content of C04/C05, proved in the DecBuf topic).
-/
import LzProofs.DecoderLemmas
namespace LZ
open DecBuf Decoder

/-! ## A. buffer level: invariant, geometry, "full" only if flushing helps -/

/-- `Init` establishes the invariant for every accepted configuration (and every pre-allocated
    capacity), also for `BufferSize < 2*WindowSize`. -/
theorem C06_init_inv {ws bs : Int} {precap : Nat} {b : DecBuf}
    (h : DecBuf.init ws bs precap = some b) : DecBuf.Inv b := DecBuf.init_inv h

theorem C06_reset_inv {b : DecBuf} (h : DecBuf.Inv b) : DecBuf.Inv b.reset := DecBuf.reset_inv h

/-- `shrink` keeps the invariant, `WindowSize`, never lowers `BufferSize`, never drops a byte at or
    after `R` (`pending` unchanged). -/
theorem C06_shrink_inv (b : DecBuf) (n : Nat) (h : DecBuf.Inv b) :
    DecBuf.Inv (b.shrink n).1 ∧ (b.shrink n).1.ws = b.ws ∧ b.bs ≤ (b.shrink n).1.bs ∧
    (b.shrink n).1.pending = b.pending :=
  ⟨(shrink_spec b n h).1, (shrink_spec b n h).2.1, (shrink_spec b n h).2.2.1, shrink_pending b n h⟩

theorem C06_buf_writeByte_inv (g : Grow) (b : DecBuf) (c : Byte) (h : DecBuf.Inv b) :
    DecBuf.Inv (b.writeByte g c).1 ∧ (b.writeByte g c).1.ws = b.ws ∧ b.bs ≤ (b.writeByte g c).1.bs ∧
    ((b.writeByte g c).2 = .ok ∨ (b.writeByte g c).2 = .full) := by
  obtain ⟨h1, h2, h3, h4⟩ := DecBuf.writeByte_spec g b c h
  exact ⟨h1, h2, h3, h4.elim (fun h => Or.inl h.1) (fun h => Or.inr h.1)⟩

theorem C06_buf_write_inv (g : Grow) (b : DecBuf) (p : List Byte) (h : DecBuf.Inv b) :
    DecBuf.Inv (b.write g p).1 ∧ (b.write g p).1.ws = b.ws ∧ b.bs ≤ (b.write g p).1.bs ∧
    ((b.write g p).2.2 = .ok ∨ (b.write g p).2.2 = .full) := by
  obtain ⟨h1, h2, h3, h4⟩ := DecBuf.write_spec g b p h
  exact ⟨h1, h2, h3, h4.elim (fun h => Or.inl h.1) (fun h => Or.inr h.1)⟩

theorem C06_buf_writeBlock_inv (g : Grow) (b : DecBuf) (blk : Block) (h : DecBuf.Inv b) :
    DecBuf.Inv (b.writeBlock g blk).1 ∧ (b.writeBlock g blk).1.ws = b.ws ∧
    b.bs ≤ (b.writeBlock g blk).1.bs ∧ BufErr (b.writeBlock g blk).2.2.2.2 := by
  obtain ⟨h1, h2, h3, h4, _⟩ := DecBuf.wbuf_post g b blk h
  exact ⟨h1, h2, h3, h4⟩

theorem C06_buf_read_inv (b : DecBuf) (n : Nat) (h : DecBuf.Inv b) :
    DecBuf.Inv (b.read n).1 ∧ (b.read n).1.ws = b.ws ∧ (b.read n).1.bs = b.bs := DecBuf.read_inv b n h

/-- `WriteMatch` keeps the invariant; on a flushed buffer it never reports `ErrFullBuffer`. -/
theorem C06_buf_writeMatch_inv (g : Grow) (b : DecBuf) (m o : Nat) (h : DecBuf.Inv b) :
    DecBuf.Inv (b.writeMatch g m o).1 ∧ (b.writeMatch g m o).1.ws = b.ws ∧
    b.bs ≤ (b.writeMatch g m o).1.bs ∧ BufErr (b.writeMatch g m o).2.2 ∧
    (b.r = b.data.length → (b.writeMatch g m o).2.2 ≠ .full) := DecBuf.writeMatch_inv g b m o h

theorem C06_writeTo_inv (d : Decoder) (h : DecBuf.Inv d.buf) :
    DecBuf.Inv d.writeTo.1.buf ∧ d.writeTo.1.buf.ws = d.buf.ws ∧ d.writeTo.1.buf.bs = d.buf.bs := by
  obtain ⟨h1, h2, h3, _⟩ := writeTo_spec d h
  exact ⟨h1, h2, h3⟩

/-- Once everything is flushed (`R = len(Data)`), `WriteByte` cannot report a full buffer. -/
theorem C06_buf_writeByte_fits_when_flushed (g : Grow) (b : DecBuf) (c : Byte) (h : DecBuf.Inv b)
    (hr : b.r = b.data.length) : (b.writeByte g c).2 = .ok := by
  obtain ⟨_, _, _, h4⟩ := DecBuf.writeByte_spec g b c h
  rcases h4 with h4 | h4
  · exact h4.1
  · exact absurd hr h4.2.2.2

/-- Once everything is flushed, a slice of at most `BufferSize - WindowSize` bytes always fits. -/
theorem C06_buf_write_fits_when_flushed (g : Grow) (b : DecBuf) (q : List Byte) (h : DecBuf.Inv b)
    (hr : b.r = b.data.length) (hq : q.length ≤ b.bs - b.ws) : (b.write g q).2.2 = .ok := by
  obtain ⟨_, _, _, h4⟩ := DecBuf.write_spec g b q h
  rcases h4 with h4 | h4
  · exact h4.1
  · exact absurd ⟨hr, hq⟩ h4.2.2.2.2

/-- `WriteBlock` on a flushed buffer reports `ErrFullBuffer` only after it has consumed at least
    one sequence, or for the trailing literal run (all sequences consumed): a sequence that does
    not fit into a flushed buffer is classified `errMatchLen`, never `ErrFullBuffer`. -/
theorem C06_buf_writeBlock_full_progress (g : Grow) (b : DecBuf) (blk : Block) (h : DecBuf.Inv b)
    (hr : b.r = b.data.length) (hf : (b.writeBlock g blk).2.2.2.2 = .full) :
    0 < (b.writeBlock g blk).2.2.1 ∨ (b.writeBlock g blk).2.2.1 = blk.seqs.length :=
  (DecBuf.wbuf_post g b blk h).2.2.2.2.2.2.2.1 hf hr

/-! ## B. C06: the retry loops of `Decoder` never spin -/

/-- **C06, `Decoder.WriteByte`.** -/
theorem C06_writeByte_no_hang (g : Grow) (d : Decoder) (c : Byte) (h : DecBuf.Inv d.buf) :
    (d.writeByte g c).2 ≠ hangErr := by
  obtain ⟨_, _, _, h4, _⟩ := Decoder.writeByte_spec g d c h
  rcases h4 with h4 | h4
  · rw [h4]; simp [hangErr]
  · exact hangErr_not_WErr h4

/-- **C06, `Decoder.Write`**, for every slice length (smaller, equal, larger than
    `BufferSize - WindowSize`, larger than `BufferSize`), every fill state, every writer script. -/
theorem C06_write_no_hang (g : Grow) (d : Decoder) (p : List Byte) (h : DecBuf.Inv d.buf) :
    (d.write g p 0).2.2 ≠ hangErr := by
  obtain ⟨_, _, _, h4, _⟩ := Decoder.write_spec g d p 0 h
  rcases h4 with h4 | h4
  · rw [h4]; simp [hangErr]
  · exact hangErr_not_WErr h4

/-- **C06, `Decoder.WriteBlock`**, for every block (valid or not, sequences of any size). -/
theorem C06_writeBlock_no_hang (g : Grow) (d : Decoder) (seqs : List Seq) (lits : List Byte)
    (h : DecBuf.Inv d.buf) : (d.writeBlock g seqs lits 0 0 0).2.2.2.2 ≠ hangErr := by
  obtain ⟨_, _, _, h4, _⟩ := writeBlock_post g _ _ d seqs lits 0 0 0 rfl rfl h
  rcases h4 with h4 | h4
  · exact hangErr_not_BufErr h4
  · exact hangErr_not_WErr h4

/-- The errors a Decoder call can return: `ok`, an error of the writer (its own error or
    `ErrShortWrite`), or — `WriteBlock` only — a block error of the buffer. -/
theorem C06_result_errors (g : Grow) (d : Decoder) (h : DecBuf.Inv d.buf) :
    (∀ c, (d.writeByte g c).2 = .ok ∨ WErr (d.writeByte g c).2) ∧
    (∀ p, (d.write g p 0).2.2 = .ok ∨ WErr (d.write g p 0).2.2) ∧
    (∀ seqs lits, BufErr (d.writeBlock g seqs lits 0 0 0).2.2.2.2 ∨
        WErr (d.writeBlock g seqs lits 0 0 0).2.2.2.2) :=
  ⟨fun c => (Decoder.writeByte_spec g d c h).2.2.2.1,
   fun p => (Decoder.write_spec g d p 0 h).2.2.2.1,
   fun seqs lits => (writeBlock_post g _ _ d seqs lits 0 0 0 rfl rfl h).2.2.2.1⟩

/-- The invariant is kept by the Decoder calls (so the theorems apply to every history). -/
theorem C06_decoder_inv (g : Grow) (d : Decoder) (h : DecBuf.Inv d.buf) :
    (∀ c, DecBuf.Inv (d.writeByte g c).1.buf) ∧ (∀ p, DecBuf.Inv (d.write g p 0).1.buf) ∧
    (∀ seqs lits, DecBuf.Inv (d.writeBlock g seqs lits 0 0 0).1.buf) ∧ DecBuf.Inv d.flush.1.buf :=
  ⟨fun c => (Decoder.writeByte_spec g d c h).1, fun p => (Decoder.write_spec g d p 0 h).1,
   fun seqs lits => (writeBlock_post g _ _ d seqs lits 0 0 0 rfl rfl h).1, (writeTo_spec d h).1⟩

/-- **C06, work bound for `Write`**: the number of writer calls (scripted responses consumed) is at
    most `⌈len(p) / (BufferSize - WindowSize)⌉`. -/
theorem C06_write_work_bound (g : Grow) (d : Decoder) (p : List Byte) (h : DecBuf.Inv d.buf) :
    d.w.resps.length - (d.write g p 0).1.w.resps.length
      ≤ (p.length + (d.buf.bs - d.buf.ws - 1)) / (d.buf.bs - d.buf.ws) :=
  (write_calls g d p 0 h (d.buf.bs - d.buf.ws) (by unfold DecBuf.Inv at h; omega) (Nat.le_refl _)).1

/-! ## C. C18: exactly-once delivery -/

/-- **C18 (i)** `WriteTo` appends to the writer exactly the `k` bytes by which it advances `R`, also
    when the writer fails or writes short; the rest stays pending; `log` is unchanged. -/
theorem C18_writeTo_exact (d : Decoder) (h : DecBuf.Inv d.buf) :
    d.writeTo.1.w.got = d.w.got ++ d.buf.pending.take d.writeTo.2.1 ∧
    d.writeTo.1.buf.r = d.buf.r + d.writeTo.2.1 ∧
    d.writeTo.1.buf.data = d.buf.data ∧
    d.writeTo.1.buf.pending = d.buf.pending.drop d.writeTo.2.1 ∧
    d.writeTo.1.log = d.log ∧
    (d.writeTo.2.2 = .ok → d.writeTo.1.buf.pending = []) := by
  obtain ⟨_, _, _, _, h5, h6, h7, h8, _, h10, _⟩ := writeTo_spec d h
  refine ⟨h7, h5, h6, h8, writeTo_log d h, fun he => ?_⟩
  rw [h8, h10 he, List.drop_length]

/-- **C18 (ii)** the writer's error is the error the Decoder call returns: every non-zero error
    code among the scripted responses consumed by the call is the returned error
    (`Surfaced rs rs' e := ∃ used, rs = used ++ rs' ∧ ∀ r ∈ used, r.2 ≠ 0 → e = .writer r.2`). -/
theorem C18_error_surfaced (g : Grow) (d : Decoder) (h : DecBuf.Inv d.buf) :
    Surfaced d.w.resps d.writeTo.1.w.resps d.writeTo.2.2 ∧
    (∀ c, Surfaced d.w.resps (d.writeByte g c).1.w.resps (d.writeByte g c).2) ∧
    (∀ p, Surfaced d.w.resps (d.write g p 0).1.w.resps (d.write g p 0).2.2) ∧
    (∀ seqs lits, Surfaced d.w.resps (d.writeBlock g seqs lits 0 0 0).1.w.resps
        (d.writeBlock g seqs lits 0 0 0).2.2.2.2) :=
  ⟨(writeTo_spec d h).2.2.2.2.2.2.2.2.2.2.1,
   fun c => (Decoder.writeByte_spec g d c h).2.2.2.2.2.2.1,
   fun p => (Decoder.write_spec g d p 0 h).2.2.2.2.2.2.1,
   fun seqs lits => (writeBlock_post g _ _ d seqs lits 0 0 0 rfl rfl h).2.2.2.2.2.1⟩

/-- **C18 (iii), `WriteByte`**: the byte is appended to the log iff the call returns `ok`; the
    writer only ever receives more bytes (`got` grows by appending). -/
theorem C18_writeByte_log (g : Grow) (d : Decoder) (c : Byte) (h : DecBuf.Inv d.buf) :
    (d.writeByte g c).1.log = d.log ++ (if (d.writeByte g c).2 = .ok then [c] else []) ∧
    ∃ y, (d.writeByte g c).1.w.got = d.w.got ++ y :=
  ⟨(Decoder.writeByte_spec g d c h).2.2.2.2.1, (Decoder.writeByte_spec g d c h).2.2.2.2.2.1⟩

/-- **C18 (iii), `Write`**: the returned `n` counts exactly the bytes of `p` appended to the log
    (`p[:n]`), whatever the writer did; `n = len(p)` on success.  So re-submitting `p[n:]` after an
    error continues the log without loss or duplication. -/
theorem C18_write_log (g : Grow) (d : Decoder) (p : List Byte) (h : DecBuf.Inv d.buf) :
    (d.write g p 0).2.1 ≤ p.length ∧
    (d.write g p 0).1.log = d.log ++ p.take (d.write g p 0).2.1 ∧
    ((d.write g p 0).2.2 = .ok → (d.write g p 0).2.1 = p.length) ∧
    ∃ y, (d.write g p 0).1.w.got = d.w.got ++ y := by
  obtain ⟨_, _, _, _, ⟨n, h1, h2, h3, h4⟩, h5, _⟩ := Decoder.write_spec g d p 0 h
  rw [Nat.zero_add] at h1
  rw [h1]
  exact ⟨h2, h3, h4, h5⟩

/-- **C18 (iii), `WriteBlock`** (no assumption on the content of the block): the log only grows by
    appending `z`, `n = len(z)`, `k ≤ len(seqs)`, `l ≤ len(lits)`, full counts on success. -/
theorem C18_writeBlock_log (g : Grow) (d : Decoder) (seqs : List Seq) (lits : List Byte)
    (h : DecBuf.Inv d.buf) :
    ∃ z, (d.writeBlock g seqs lits 0 0 0).1.log = d.log ++ z ∧
      (d.writeBlock g seqs lits 0 0 0).2.1 = (z.length : Int) ∧
      (d.writeBlock g seqs lits 0 0 0).2.2.1 ≤ seqs.length ∧
      (d.writeBlock g seqs lits 0 0 0).2.2.2.1 ≤ lits.length ∧
      ((d.writeBlock g seqs lits 0 0 0).2.2.2.2 = .ok →
        (d.writeBlock g seqs lits 0 0 0).2.2.1 = seqs.length ∧
        (d.writeBlock g seqs lits 0 0 0).2.2.2.1 = lits.length) ∧
      ∃ y, (d.writeBlock g seqs lits 0 0 0).1.w.got = d.w.got ++ y := by
  obtain ⟨_, _, _, _, hy, _, _, _, _, kk, ll, z, q1, q2, q3, q4, q5, q6, q7, _⟩ :=
    writeBlock_post g _ _ d seqs lits 0 0 0 rfl rfl h
  rw [Nat.zero_add] at q1 q2
  rw [q1, q2]
  exact ⟨z, q7, by rw [q3]; omega, q4, q5, q6, hy⟩

/-- **C18 (iii), `WriteBlock`, content** (under `hWB`): whatever the writer did and whatever error
    is returned, the log after the call is the reference expansion of the first `k` sequences and
    `l` literals over the log before the call. -/
theorem C18_writeBlock_expands (g : Grow) (hWB : WBSpec g) (d : Decoder) (seqs : List Seq)
    (lits : List Byte) (h : DecBuf.Inv d.buf) (hh : Hist d) :
    Expands d.log lits seqs (d.writeBlock g seqs lits 0 0 0).2.2.1
      (d.writeBlock g seqs lits 0 0 0).2.2.2.1 (d.writeBlock g seqs lits 0 0 0).1.log ∧
    Hist (d.writeBlock g seqs lits 0 0 0).1 := by
  obtain ⟨_, _, _, _, _, _, _, _, h9, kk, ll, z, q1, q2, q3, q4, q5, q6, q7, q8⟩ :=
    writeBlock_post g _ _ d seqs lits 0 0 0 rfl rfl h
  rw [Nat.zero_add] at q1 q2
  rw [q1, q2, q7]
  exact ⟨q8 hWB hh, h9 hh⟩

/-- **C18, prefix property**: if the block is valid on top of the log (its reference expansion is
    `full`), then at return of `WriteBlock` — with or without error — what the writer has accepted
    is a prefix of `full`. -/
theorem C18_got_prefix_of_expansion (g : Grow) (hWB : WBSpec g) (d : Decoder) (seqs : List Seq)
    (lits : List Byte) (full : List Byte) (h : DecBuf.Inv d.buf) (hh : Hist d)
    (hf : expand d.log ⟨seqs, lits⟩ = some full) :
    ∃ t, (d.writeBlock g seqs lits 0 0 0).1.w.got ++ t = full := by
  obtain ⟨t, ht⟩ := (C18_writeBlock_expands g hWB d seqs lits h hh).1.prefix_full hf
  exact ⟨(d.writeBlock g seqs lits 0 0 0).1.buf.pending ++ t, by
    rw [← List.append_assoc]; exact ht⟩

/-- `Hist` holds after `Reset` with a fresh writer and is kept by every call. -/
theorem C18_hist_invariant (g : Grow) (d : Decoder) (h : DecBuf.Inv d.buf) (hh : Hist d) :
    (∀ c, Hist (d.writeByte g c).1) ∧ (∀ p, Hist (d.write g p 0).1) ∧
    (∀ seqs lits, Hist (d.writeBlock g seqs lits 0 0 0).1) ∧ Hist d.flush.1 :=
  ⟨fun c => writeByte_hist g d c h hh, fun p => write_hist g d p 0 h hh,
   fun seqs lits => (writeBlock_post g _ _ d seqs lits 0 0 0 rfl rfl h).2.2.2.2.2.2.2.2.1 hh,
   Hist.writeTo h hh⟩

theorem C18_reset_hist (d : Decoder) (w : Writer) (hw : w.got = []) :
    Hist (d.reset w) ∧ (d.reset w).log = [] := reset_hist d w hw

/-- **C18 (iv), `Write`: exactly once.**  The caller submits `p`, re-submits the unconsumed
    remainder `p[n:]` after every writer fault, and finally flushes until `Flush` succeeds
    (`retryWrite`, one unit of fuel per scripted response plus one).  Then the protocol succeeds and
    the writer has received the old log followed by `p` — exactly once — and nothing is pending. -/
theorem C18_retry_exactly_once (g : Grow) (d : Decoder) (p : List Byte) (h : DecBuf.Inv d.buf) :
    ∃ d', retryWrite g (d.w.resps.length + 1) d p = some d' ∧
      d'.w.got = d.log ++ p ∧ d'.buf.pending = [] := by
  obtain ⟨d', h1, h2, h3, _⟩ := retryWrite_spec g (d.w.resps.length + 1) d p h (by omega)
  exact ⟨d', h1, h2, h3⟩

/-- **C18 (iv), `WriteBlock`: the retry protocol always finishes** in success or with an error
    of the buffer (invalid block / sequence too large), never by running out of fuel. -/
theorem C18_retryBlock_terminates (g : Grow) (d : Decoder) (seqs : List Seq) (lits : List Byte)
    (h : DecBuf.Inv d.buf) :
    ∃ d' e, retryBlock g (d.w.resps.length + 1) d seqs lits = some (d', e) ∧ BufErr e :=
  retryBlock_terminates g _ d seqs lits h (by omega)

/-- **C18 (iv), `WriteBlock`: exactly once** (under `hWB`).  If the caller retries the unconsumed
    remainder `(seqs[k:], lits[l:])` after every writer fault and finally flushes, then on success
    the writer has received the old log followed by the full reference expansion of the block. -/
theorem C18_retryBlock_exactly_once (g : Grow) (hWB : WBSpec g) (fuel : Nat) (d d' : Decoder)
    (seqs : List Seq) (lits : List Byte) (h : DecBuf.Inv d.buf) (hh : Hist d)
    (hr : retryBlock g fuel d seqs lits = some (d', .ok)) :
    expand d.log ⟨seqs, lits⟩ = some d'.w.got ∧ d'.buf.pending = [] := by
  obtain ⟨h1, h2, _⟩ := retryBlock_spec g hWB fuel d seqs lits d' h hh hr
  exact ⟨h1, h2⟩

/-! ## D. non-vacuity: concrete runs with a faulting writer -/

namespace DecoderEx

def gId : Grow := fun _ n => n

/-- WindowSize 2, BufferSize 3 (so `BufferSize - WindowSize = 1` and `BufferSize < 2*WindowSize`).
    The writer takes 1 byte at its first call (short write), fails with error 7 taking nothing at
    its second call, and takes everything afterwards. -/
def d0 : Decoder := { buf := ⟨[], 0, 0, 2, 3, 0⟩, w := ⟨[(1, 0), (0, 7)], []⟩ }
def dA : Decoder := { buf := ⟨[1, 2, 3], 1, 3, 2, 3, 3⟩, w := ⟨[(0, 7)], [1]⟩ }
def dB : Decoder := { buf := ⟨[2, 3, 4], 0, 4, 2, 3, 3⟩, w := ⟨[(0, 7)], [1]⟩ }
def dC : Decoder := { buf := ⟨[2, 3, 4], 0, 4, 2, 3, 3⟩, w := ⟨[], [1]⟩ }
def dD : Decoder := { buf := ⟨[2, 3, 4], 3, 4, 2, 3, 3⟩, w := ⟨[], [1, 2, 3, 4]⟩ }

example : DecBuf.init 2 3 0 = some d0.buf := by rfl
example : DecBuf.Inv d0.buf := by unfold DecBuf.Inv; decide
example : Hist d0 := ⟨[], rfl⟩

set_option maxRecDepth 4000 in
/-- a 4-byte `Write` (4 × the attainable free space) goes through in pieces: three bytes are
    buffered, then the flush needed for the fourth is cut short by the writer -/
theorem ex_s1 : d0.write gId [1, 2, 3, 4] 0 = (dA, 3, Err.shortWrite) := by
  simp [Decoder.write, d0, dA, gId, DecBuf.write, DecBuf.shrink, DecBuf.append, Decoder.writeTo,
    Writer.write]

set_option maxRecDepth 4000 in
theorem ex_s2 : dA.write gId [4] 0 = (dB, 1, Err.ok) := by
  simp [Decoder.write, dA, dB, DecBuf.write, DecBuf.shrink, DecBuf.append]

theorem ex_s3 : dB.flush = (dC, Err.writer 7) := by
  simp [Decoder.flush, Decoder.writeTo, Writer.write, dB, dC]

theorem ex_s4 : dC.write gId [] 0 = (dC, 0, Err.ok) := by
  simp [Decoder.write]

theorem ex_s5 : dC.flush = (dD, Err.ok) := by
  simp [Decoder.flush, Decoder.writeTo, Writer.write, dC, dD]

/-- the caller's retry protocol delivers the four bytes exactly once, although the first writer
    call is short and the second fails -/
example : retryWrite gId 3 d0 [1, 2, 3, 4] = some dD ∧ dD.w.got = d0.log ++ [1, 2, 3, 4] := by
  refine ⟨?_, rfl⟩
  simp [retryWrite, ex_s1, ex_s2, ex_s3, ex_s4, ex_s5]


/-- the hypothesis `Inv` (here: `WindowSize < BufferSize`, enforced by `DecoderConfig.Verify`) is
    needed: with `WindowSize = BufferSize = 1` the chunk size is 0 and the loop of `Write` spins -/
example : ((⟨⟨[], 0, 0, 1, 1, 0⟩, ⟨[], []⟩⟩ : Decoder).write gId [1] 0).2.2 = hangErr := by
  simp [Decoder.write, DecBuf.write, DecBuf.append]

example : DecBuf.init 1 1 0 = none := by rfl

/-! ### a block written through a faulting writer (WindowSize 2, BufferSize 5) -/

def d1 : Decoder := { buf := ⟨[], 0, 0, 2, 5, 0⟩, w := ⟨[(1, 0), (0, 7), (5, 0)], []⟩ }
def dE : Decoder := { buf := ⟨[1, 2, 2], 1, 3, 2, 5, 3⟩, w := ⟨[(0, 7), (5, 0)], [1]⟩ }
def dF : Decoder := { buf := ⟨[2, 2, 3, 2, 3], 0, 6, 2, 5, 5⟩, w := ⟨[(5, 0)], [1]⟩ }
def dG : Decoder := { buf := ⟨[3, 3, 3, 4, 5], 0, 11, 2, 5, 5⟩, w := ⟨[], [1, 2, 2, 3, 2, 3]⟩ }
def dH : Decoder :=
  { buf := ⟨[3, 3, 3, 4, 5], 5, 11, 2, 5, 5⟩, w := ⟨[], [1, 2, 2, 3, 2, 3, 3, 3, 3, 4, 5]⟩ }
def s1 : Seq := ⟨2, 1, 1, 0⟩
def s2 : Seq := ⟨1, 2, 2, 0⟩
def s3 : Seq := ⟨0, 3, 1, 0⟩

example : DecBuf.Inv d1.buf ∧ Hist d1 := ⟨by unfold DecBuf.Inv; decide, [], rfl⟩

set_option maxRecDepth 8000 in
/-- first call: one sequence (3 bytes) written, then the flush is cut short: `k = 1`, `l = 2` -/
theorem ex_b1 : d1.writeBlock gId [s1, s2, s3] [1, 2, 3, 4, 5] 0 0 0 = (dE, 3, 1, 2, Err.shortWrite) := by
  simp [Decoder.writeBlock, DecBuf.writeBlock, DecBuf.seqLoop, DecBuf.copyMatch, DecBuf.copyLoop, d1, dE,
    s1, s2, s3, gId, DecBuf.shrink, DecBuf.append, Decoder.writeTo, Writer.write]

set_option maxRecDepth 8000 in
/-- the caller re-submits `(seqs[1:], lits[2:])`: one more sequence, then the writer's error 7 -/
theorem ex_b2 : dE.writeBlock gId [s2, s3] [3, 4, 5] 0 0 0 = (dF, 3, 1, 1, Err.writer 7) := by
  simp [Decoder.writeBlock, DecBuf.writeBlock, DecBuf.seqLoop, DecBuf.copyMatch, DecBuf.copyLoop, dE, dF,
    s2, s3, gId, DecBuf.shrink, DecBuf.append, Decoder.writeTo, Writer.write]

set_option maxRecDepth 8000 in
theorem ex_b3 : dF.writeBlock gId [s3] [4, 5] 0 0 0 = (dG, 5, 1, 2, Err.ok) := by
  simp [Decoder.writeBlock, DecBuf.writeBlock, DecBuf.seqLoop, DecBuf.copyMatch, DecBuf.copyLoop, dF, dG,
    s3, DecBuf.shrink, DecBuf.append, Decoder.writeTo, Writer.write, Decoder.unflushed]

theorem ex_b4 : dG.flush = (dH, Err.ok) := by
  simp [Decoder.flush, Decoder.writeTo, Writer.write, dG, dH]

/-- the retry protocol ends with the writer holding exactly the reference expansion of the block -/
example : retryBlock gId 4 d1 [s1, s2, s3] [1, 2, 3, 4, 5] = some (dH, Err.ok) ∧
    expand d1.log ⟨[s1, s2, s3], [1, 2, 3, 4, 5]⟩ = some dH.w.got := by
  refine ⟨?_, by decide⟩
  simp [retryBlock, retryWrite, ex_b1, ex_b2, ex_b3, ex_b4, isWriterFault, Decoder.write]

end DecoderEx

end LZ

#print axioms LZ.C06_init_inv
#print axioms LZ.C06_reset_inv
#print axioms LZ.C06_shrink_inv
#print axioms LZ.C06_buf_writeByte_inv
#print axioms LZ.C06_buf_write_inv
#print axioms LZ.C06_buf_writeBlock_inv
#print axioms LZ.C06_writeTo_inv
#print axioms LZ.C06_buf_read_inv
#print axioms LZ.C06_buf_writeMatch_inv
#print axioms LZ.C06_buf_writeByte_fits_when_flushed
#print axioms LZ.C06_buf_write_fits_when_flushed
#print axioms LZ.C06_buf_writeBlock_full_progress
#print axioms LZ.C06_writeByte_no_hang
#print axioms LZ.C06_write_no_hang
#print axioms LZ.C06_writeBlock_no_hang
#print axioms LZ.C06_result_errors
#print axioms LZ.C06_decoder_inv
#print axioms LZ.C06_write_work_bound
#print axioms LZ.C18_writeTo_exact
#print axioms LZ.C18_error_surfaced
#print axioms LZ.C18_writeByte_log
#print axioms LZ.C18_write_log
#print axioms LZ.C18_writeBlock_log
#print axioms LZ.C18_writeBlock_expands
#print axioms LZ.C18_got_prefix_of_expansion
#print axioms LZ.C18_hist_invariant
#print axioms LZ.C18_reset_hist
#print axioms LZ.C18_retry_exactly_once
#print axioms LZ.C18_retryBlock_terminates
#print axioms LZ.C18_retryBlock_exactly_once
