/-
  LzProofs.GenBUPParseLemmas — lemmas for "translated `(*bucketParser).Parse` (bup.go; topic BUPParse,
  LzModel/Generated/CodeBUPParse.lean) = `ProbeW.parseW` for kind BUP": the bucket table.

    BOK                     the table invariant (lengths `2^hashBits`, `2^hashBits·bucketSize`; every ring index is
                            `< bucketSize`; `1 ≤ bucketSize ≤ 256`) — with it no table access of `add` / `bucket` panics
    gen_add                 `bucketHash.add` (translated, with the pointer alias `pi := &bh.indexes[h]` eliminated at source
                            level)                                                                  = `BucketT.add`
    binsert_step            `x := _getLE64(_p[j:]) & mask; s.add(hashValue(x, shift), uint32(j), uint32(x))` = `ProbeW.binsertW`
    loop3_eq, psegLoop_eq   the re-indexing loop of `Parse` and the loop of `processSegment`         = `ProbeW.binsertRangeW`
    gen_processSegmentB     `bucketDictionary.processSegment` incl. the panic of `f.Data[:b+7]`     = `ProbeW.processSegmentBW`
    scan_eq                 the bucket scan `for _, e := range s.bucket(h) { … }` (the view inlined at source level,
                            loop_2) with `lcp` under `LcpSpec`                                      = `ProbeW.bupScanW`
  No sorry, no axioms of its own.
-/
import LzModel.Generated.CodeBUPParse
import LzProofs.GenHashPropsDict2
import LzProofs.GenParseShared
import LzProofs.GenCallByName

set_option linter.unusedSimpArgs false
set_option linter.unusedVariables false

namespace LZ.GenBUPParse
open LZ LZ.Gen LZ.GenBuf LZ.GenHash LZ.GenHPParse LZ.GenParse

/-- the specification of the opaque callee `lcp` (bytes.go): the length of the common prefix — what
    `BytesW.lcpW?_eq` proves of the word-level model of `lcp` -/
def LcpSpec (lcp : Slice → Slice → Int) : Prop := ∀ p q, lcp p q = (lcpLen p.data q.data : Int)

/-- the invariant of the bucket table -/
structure BOK (g : Gen.bucketHash) : Prop where
  gwf : GWF g.buckets
  swf : SWF g.indexes
  bs1 : 1 ≤ g.bucketSize
  bs2 : g.bucketSize ≤ 256
  ilen : g.indexes.len = 2 ^ (64 - g.shift.toNat)
  blen : g.buckets.len = 2 ^ (64 - g.shift.toNat) * g.bucketSize.toNat
  ring : ∀ h, h < g.indexes.len → (g.indexes.arr.getD h 0).toNat < g.bucketSize.toNat

/-- the scalar fields of the table are never written -/
def SameCfg (g g' : Gen.bucketHash) : Prop :=
  g'.mask = g.mask ∧ g'.shift = g.shift ∧ g'.inputLen = g.inputLen ∧ g'.bucketSize = g.bucketSize

theorem SameCfg.refl (g : Gen.bucketHash) : SameCfg g g := ⟨rfl, rfl, rfl, rfl⟩

theorem SameCfg.trans {a b c : Gen.bucketHash} (h1 : SameCfg a b) (h2 : SameCfg b c) : SameCfg a c :=
  ⟨h2.1.trans h1.1, h2.2.1.trans h1.2.1, h2.2.2.1.trans h1.2.2.1, h2.2.2.2.trans h1.2.2.2⟩

theorem slot_lt (h n b i : Nat) (hh : h < n) (hi : i < b) : h * b + i < n * b := by
  have h1 : (h + 1) * b ≤ n * b := Nat.mul_le_mul_right b hh
  have h2 : (h + 1) * b = h * b + b := Nat.succ_mul h b
  omega

theorem toNat_ofInt8 (n : Nat) (a : Int) (ha : a = (n : Int)) (h : n < 256) : (UInt8.ofInt a).toNat = n := by
  subst ha
  unfold UInt8.ofInt
  simp only [UInt8.toNat_ofNat', Nat.reducePow, Int.reducePow] at *
  omega

theorem bindex_ok (s : Slice) (k : Int) (i : Nat) (hk : k = (i : Int)) (hi : i < s.len) :
    Slice.index s k = Res.ok (s.arr.getD i 0) := by
  subst hk
  unfold Slice.index
  have : (0 : Int) ≤ (i : Int) ∧ (i : Int) < Int.ofNat s.len := by
    refine ⟨by omega, ?_⟩; show (i : Int) < (s.len : Int); omega
  simp only [this, and_self, if_true, Int.toNat_natCast]

theorem ofBucket_set (g : Gen.bucketHash) (k : Nat) (e : bucketEntry) (h : Nat) (v : UInt8) :
    ofBucket { g with buckets := { g.buckets with arr := g.buckets.arr.set k e },
                      indexes := { g.indexes with arr := g.indexes.arr.set h v } } =
      { ofBucket g with buckets := (ofBucket g).buckets.setIfInBounds k (ofBEntry e),
                        indexes := (ofBucket g).indexes.setIfInBounds h v.toNat } := by
  unfold ofBucket
  simp only [GSlice.data, Slice.data, List.take_set, List.map_set, List.setIfInBounds_toArray]

theorem ofBucket_index (g : Gen.bucketHash) (hs : SWF g.indexes) (h : Nat) (hh : h < g.indexes.len) :
    (ofBucket g).indexes.getD h 0 = (g.indexes.arr.getD h 0).toNat := by
  have h' : h < g.indexes.arr.length := by unfold SWF at hs; omega
  simp [ofBucket, Slice.data, List.getElem?_take, hh, h', List.getD_eq_getElem?_getD]

/-- **`bucketHash.add`** -/
theorem gen_add (g : Gen.bucketHash) (hb : BOK g) (h pos val : UInt32) (hh : h.toNat < g.indexes.len) :
    ∃ g', bucketHash_add g h pos val = Res.ok g' ∧
      ofBucket g' = (ofBucket g).add h.toNat pos.toNat val.toNat ∧ BOK g' ∧ SameCfg g g' := by
  obtain ⟨hgwf, hswf, hbs1, hbs2, hil, hbl, hring⟩ := hb
  obtain ⟨bsN, hbsN⟩ : ∃ n : Nat, g.bucketSize = (n : Int) := ⟨g.bucketSize.toNat, by omega⟩
  have hbsN' : g.bucketSize.toNat = bsN := by omega
  have hi := hring h.toNat hh
  rw [hbsN'] at hi hbl
  generalize hiv : (g.indexes.arr.getD h.toNat 0).toNat = i at hi
  have hk : h.toNat * bsN + i < g.buckets.len := by
    rw [hbl, ← hil]; exact slot_lt _ _ _ _ hh hi
  have hkI : ((Int.ofNat h.toNat) * g.bucketSize) + Int.ofNat i = ((h.toNat * bsN + i : Nat) : Int) := by
    rw [hbsN]
    show ((h.toNat : Nat) : Int) * (bsN : Int) + (i : Int) = _
    rw [Int.natCast_add, Int.natCast_mul]
  have hwrap : (if (Int.ofNat i) + 1 ≥ g.bucketSize then (0 : Int) else (Int.ofNat i) + 1) =
      (((if i + 1 ≥ bsN then 0 else i + 1 : Nat)) : Int) := by
    rw [hbsN]
    show (if (i : Int) + 1 ≥ (bsN : Int) then (0 : Int) else (i : Int) + 1) = _
    split <;> split <;> omega
  have hwlt : (if i + 1 ≥ bsN then 0 else i + 1) < bsN := by split <;> omega
  unfold bucketHash_add
  rw [bindex_ok g.indexes (Int.ofNat h.toNat) h.toNat rfl hh, bind_ok, bind_ok]
  simp only [hiv]
  rw [hkI, gset_ok g.buckets _ _ rfl hk, bind_ok]
  rw [hwrap, bset_ok g.indexes (Int.ofNat h.toNat) h.toNat rfl hh, bind_ok]
  refine ⟨_, rfl, ?_, ?_, ⟨rfl, rfl, rfl, rfl⟩⟩
  · rw [ofBucket_set]
    unfold BucketT.add
    simp only []
    rw [ofBucket_index g hswf _ hh, hiv]
    have e1 : (ofBucket g).bucketSize = bsN := hbsN'
    rw [e1, toNat_ofInt8 _ _ rfl (by omega)]
    rfl
  · refine ⟨?_, ?_, hbs1, hbs2, hil, hbl.trans (by rw [hbsN']), ?_⟩
    · show g.buckets.len ≤ (g.buckets.arr.set _ _).length
      rw [List.length_set]; exact hgwf
    · show g.indexes.len ≤ (g.indexes.arr.set _ _).length
      rw [List.length_set]; exact hswf
    · intro h2 hh2
      show ((g.indexes.arr.set h.toNat _).getD h2 0).toNat < g.bucketSize.toNat
      rw [hbsN']
      by_cases he : h2 = h.toNat
      · subst he
        have hl : h.toNat < g.indexes.arr.length := by unfold SWF at hswf; omega
        rw [List.getD_eq_getElem?_getD, List.getElem?_set_self hl, Option.getD_some,
          toNat_ofInt8 _ _ rfl (by omega)]
        exact hwlt
      · rw [List.getD_eq_getElem?_getD, List.getElem?_set_ne (fun hc => he hc.symm), ← List.getD_eq_getElem?_getD]
        have := hring h2 hh2
        rw [hbsN'] at this; exact this

/-- what the loops need to know about the fixed part of the table and the resliced buffer `_p` -/
structure BCtx (g : Gen.bucketHash) (_p : Slice) : Prop where
  swf : SWF _p
  il0 : 0 ≤ g.inputLen
  mask : g.mask = maskOf g.inputLen.toNat
  sh1 : 32 ≤ g.shift.toNat
  sh2 : g.shift.toNat ≤ 64
  small : _p.len < 4294967296 + 8

theorem BCtx.of_same {g g' : Gen.bucketHash} {_p : Slice} (c : BCtx g _p) (h : SameCfg g g') : BCtx g' _p := by
  obtain ⟨h1, h2, h3, h4⟩ := h
  exact ⟨c.swf, by rw [h3]; exact c.il0, by rw [h1, h3]; exact c.mask, by rw [h2]; exact c.sh1,
    by rw [h2]; exact c.sh2, c.small⟩

theorem ofBucket_inputLen (g : Gen.bucketHash) : (ofBucket g).inputLen = g.inputLen.toNat := rfl
theorem ofBucket_hashBits (g : Gen.bucketHash) : (ofBucket g).hashBits = 64 - g.shift.toNat := rfl
theorem ofBucket_bucketSize (g : Gen.bucketHash) : (ofBucket g).bucketSize = g.bucketSize.toNat := rfl

/-- one insertion: `x := _getLE64(_p[j:]) & mask; add(hashValue(x, shift), uint32(j), uint32(x))` -/
theorem binsert_step (g : Gen.bucketHash) (_p : Slice) (c : BCtx g _p) (hb : BOK g) (a : Int) (j : Nat)
    (ha : a = (j : Int)) (hj : j + 8 ≤ _p.len) :
    ∃ y g', (BytesW.sliceFrom _p.data j).bind BytesW.le64 = some y ∧
      (∀ {β : Type} (F : UInt64 → Res β),
        Res.bind (Slice.slice _p a (Int.ofNat _p.len)) (fun u => Res.bind (Gen._getLE64 u) F) = F y) ∧
      bucketHash_add g (Gen.hashValue (y &&& g.mask) g.shift) (UInt32.ofInt a) (y &&& g.mask).toUInt32 = Res.ok g' ∧
      BOK g' ∧ SameCfg g g' ∧ ProbeW.binsertW (ofBucket g) _p.data j = some (ofBucket g') := by
  obtain ⟨y, hy, hF⟩ := gen_load_ok _p c.swf a j ha hj
  obtain ⟨hv, hlt⟩ := gen_hashValue_shift (y &&& g.mask) g.shift c.sh1 c.sh2
  have hs := c.small
  obtain ⟨g', h1, h2, h3, h4⟩ := gen_add g hb (Gen.hashValue (y &&& g.mask) g.shift) (UInt32.ofInt a)
    (y &&& g.mask).toUInt32 (by rw [hv, hb.ilen]; exact hlt)
  refine ⟨y, g', hy, hF, h1, h3, h4, ?_⟩
  unfold ProbeW.binsertW ProbeW.loadKey
  simp only [Option.bind_eq_bind, Option.pure_def] at hy ⊢
  cases hsf : BytesW.sliceFrom _p.data j with
  | none => rw [hsf] at hy; cases hy
  | some l =>
    rw [hsf, Option.bind_some] at hy
    simp only [Option.bind_some, hy]
    rw [h2, hv]
    simp only [ofBucket_inputLen, ofBucket_hashBits, c.mask, lo32_eq, toNat_ofInt32 j a ha (by omega)]

/-- the re-indexing loop of `Parse` (`for j := i + 1; j < b; j++ { … s.add(…) }`) -/
theorem loop3_eq (grow : Nat → Nat → Nat) (lcp : Slice → Slice → Int) (b : Int) (x : UInt64) (_p : Slice) (h : UInt32) :
    ∀ (n fuel j : Nat) (a : Int) (s : Gen.bucketParser), a = (j : Int) → n = (b - a).toNat → n < fuel →
      (n = 0 ∨ j + n + 7 ≤ _p.len) →
      BCtx s.bucketDictionary.bucketHash _p → BOK s.bucketDictionary.bucketHash →
      ∃ jj g', BOK g' ∧ SameCfg s.bucketDictionary.bucketHash g' ∧
        ProbeW.binsertRangeW (ofBucket s.bucketDictionary.bucketHash) _p.data j n = some (ofBucket g') ∧
        (ghead% bucketParser_Parse_loop_3 [grow := grow, lcp := lcp, b := b, x := x, _p := _p, h := h]) fuel a s =
          Res.ok (jj, { s with bucketDictionary := { s.bucketDictionary with bucketHash := g' } }) := by
  intro n
  induction n with
  | zero =>
    intro fuel j a s ha hb hf _ c ht
    obtain ⟨f, rfl⟩ : ∃ f, fuel = f + 1 := ⟨fuel - 1, by omega⟩
    refine ⟨a, s.bucketDictionary.bucketHash, ht, SameCfg.refl _, rfl, ?_⟩
    rw [bucketParser_Parse_loop_3, if_neg (by omega)]
  | succ n ih =>
    intro fuel j a s ha hb hf hn c ht
    obtain ⟨f, rfl⟩ : ∃ f, fuel = f + 1 := ⟨fuel - 1, by omega⟩
    obtain ⟨y, g1, hy, hF, hadd, ht1, hsc, hins⟩ := binsert_step s.bucketDictionary.bucketHash _p c ht a j ha (by omega)
    rw [bucketParser_Parse_loop_3, if_pos (by omega), hF]
    dsimp only
    rw [hadd, bind_ok]
    obtain ⟨jj, g2, ht2, hsc2, hr, hl⟩ := ih f (j + 1) (a + 1)
      { s with bucketDictionary := { s.bucketDictionary with bucketHash := g1 } }
      (by omega) (by omega) (by omega) (by omega) (c.of_same hsc) ht1
    refine ⟨jj, g2, ht2, hsc.trans hsc2, ?_, hl⟩
    unfold ProbeW.binsertRangeW
    simp only [Option.bind_eq_bind]
    rw [hins, Option.bind_some]
    exact hr

/-- the loop of `processSegment` (`for i := a; i < b; i++ { … f.add(…) }`) -/
theorem psegLoop_eq (b : Int) (_p : Slice) :
    ∀ (n fuel j : Nat) (a : Int) (f : Gen.bucketDictionary), a = (j : Int) → n = (b - a).toNat → n < fuel →
      (n = 0 ∨ j + n + 7 ≤ _p.len) →
      BCtx f.bucketHash _p → BOK f.bucketHash →
      ∃ jj g', BOK g' ∧ SameCfg f.bucketHash g' ∧
        ProbeW.binsertRangeW (ofBucket f.bucketHash) _p.data j n = some (ofBucket g') ∧
        bucketDictionary_processSegment_loop_1 b _p fuel a f = Res.ok (jj, { f with bucketHash := g' }) := by
  intro n
  induction n with
  | zero =>
    intro fuel j a f ha hb hf _ c ht
    obtain ⟨fu, rfl⟩ : ∃ fu, fuel = fu + 1 := ⟨fuel - 1, by omega⟩
    refine ⟨a, f.bucketHash, ht, SameCfg.refl _, rfl, ?_⟩
    rw [bucketDictionary_processSegment_loop_1, if_neg (by omega)]
  | succ n ih =>
    intro fuel j a f ha hb hf hn c ht
    obtain ⟨fu, rfl⟩ : ∃ fu, fuel = fu + 1 := ⟨fuel - 1, by omega⟩
    obtain ⟨y, g1, hy, hF, hadd, ht1, hsc, hins⟩ := binsert_step f.bucketHash _p c ht a j ha (by omega)
    rw [bucketDictionary_processSegment_loop_1, if_pos (by omega), hF]
    dsimp only
    rw [hadd, bind_ok]
    obtain ⟨jj, g2, ht2, hsc2, hr, hl⟩ := ih fu (j + 1) (a + 1) { f with bucketHash := g1 }
      (by omega) (by omega) (by omega) (by omega) (c.of_same hsc) ht1
    refine ⟨jj, g2, ht2, hsc.trans hsc2, ?_, hl⟩
    unfold ProbeW.binsertRangeW
    simp only [Option.bind_eq_bind]
    rw [hins, Option.bind_some]
    exact hr

/-- **`processSegment(a, b)`** of bucket_hash.go, translated, versus `ProbeW.processSegmentBW` on the elements of
    `f.Data` and the stale bytes behind them: same panic (the reslice `f.Data[:b+7]`), same table -/
theorem gen_processSegmentB (fuel : Nat) (f : Gen.bucketDictionary) (a b : Int)
    (hD : SWF f.ParserBuffer.Data) (hil : 0 ≤ f.bucketHash.inputLen)
    (hmask : f.bucketHash.mask = maskOf f.bucketHash.inputLen.toNat) (sh1 : 32 ≤ f.bucketHash.shift.toNat)
    (sh2 : f.bucketHash.shift.toNat ≤ 64) (ht : BOK f.bucketHash)
    (hsmall : f.ParserBuffer.Data.len < 4294967296) (hfuel : f.ParserBuffer.Data.len + 2 ≤ fuel) :
    match ProbeW.processSegmentBW (ofBucket f.bucketHash) f.ParserBuffer.Data.data
        (f.ParserBuffer.Data.arr.drop f.ParserBuffer.Data.len) a b with
    | none => bucketDictionary_processSegment fuel f a b = Res.panic
    | some bk' => ∃ g', BOK g' ∧ SameCfg f.bucketHash g' ∧ bk' = ofBucket g' ∧
        bucketDictionary_processSegment fuel f a b = Res.ok { f with bucketHash := g' } := by
  have hlen : f.ParserBuffer.Data.data.length = f.ParserBuffer.Data.len := data_length hD
  have hD' : f.ParserBuffer.Data.len ≤ f.ParserBuffer.Data.arr.length := hD
  unfold ProbeW.processSegmentBW bucketDictionary_processSegment
  simp only [Option.bind_eq_bind]
  have hc : ((f.ParserBuffer.Data.data.length : Nat) : Int) - ((ofBucket f.bucketHash).inputLen : Nat) + 1 =
      ((Int.ofNat f.ParserBuffer.Data.len) - f.bucketHash.inputLen) + 1 := by
    rw [hlen]; show _ - ((f.bucketHash.inputLen.toNat : Nat) : Int) + 1 = _
    rw [Int.toNat_of_nonneg hil]; rfl
  rw [hc]
  have hb' : (if ((Int.ofNat f.ParserBuffer.Data.len) - f.bucketHash.inputLen) + 1 < b then
      ((Int.ofNat f.ParserBuffer.Data.len) - f.bucketHash.inputLen) + 1 else b) ≤ (f.ParserBuffer.Data.len : Int) + 1 := by
    split
    · show (f.ParserBuffer.Data.len : Int) - _ + 1 ≤ _; omega
    · rename_i h; have : b ≤ (f.ParserBuffer.Data.len : Int) - f.bucketHash.inputLen + 1 := Int.not_lt.mp h
      omega
  generalize (if ((Int.ofNat f.ParserBuffer.Data.len) - f.bucketHash.inputLen) + 1 < b then
      ((Int.ofNat f.ParserBuffer.Data.len) - f.bucketHash.inputLen) + 1 else b) = b' at hb' ⊢
  have ha' : 0 ≤ (if a < 0 then 0 else a) := by split <;> omega
  generalize (if a < 0 then 0 else a) = a' at ha' ⊢
  by_cases hb0 : b' ≤ 0
  · simp only [if_pos hb0]
    exact ⟨f.bucketHash, ht, SameCfg.refl _, rfl, rfl⟩
  simp only [if_neg hb0]
  unfold BytesW.sliceTo
  rw [take_append_drop_data]
  by_cases hcap : b'.toNat + 7 ≤ f.ParserBuffer.Data.arr.length
  · rw [if_pos hcap, Option.bind_some]
    rw [slice_okI f.ParserBuffer.Data 0 (b' + 7) 0 (b'.toNat + 7) rfl (by omega) (by omega) hcap, bind_ok]
    simp only [List.drop_zero, Nat.sub_zero]
    have c : BCtx f.bucketHash { arr := f.ParserBuffer.Data.arr, len := b'.toNat + 7 } :=
      ⟨hcap, hil, hmask, sh1, sh2, by show b'.toNat + 7 < _; omega⟩
    obtain ⟨jj, g', ht', hsc, hr, hl⟩ := psegLoop_eq b' { arr := f.ParserBuffer.Data.arr, len := b'.toNat + 7 }
      (b'.toNat - a'.toNat) fuel a'.toNat a' f (by omega) (by omega) (by omega)
      (by show _ ∨ _ ≤ b'.toNat + 7; omega) c ht
    rw [data_mk] at hr
    rw [hr, hl, bind_ok]
    exact ⟨g', ht', hsc, rfl, rfl⟩
  · rw [if_neg hcap]
    rw [slice_panic _ _ _ (by right; right; omega)]
    rfl

/-! ## the bucket scan -/

/-- the Go outcome a model outcome of the scan stands for (`none` = panic) -/
def scanRes : Option (Nat × Nat) → Res (Int × Int)
  | none => Res.panic
  | some r => Res.ok ((r.1 : Int), (r.2 : Int))

/-- the part of one scan step behind the byte check -/
def scanTail (bk : BucketT) (p : List Byte) (i ws v base : Nat) (rest : List Nat) (o k j : Nat) : Option (Nat × Nat) :=
  (BytesW.sliceFrom p j).bind fun x =>
  (BytesW.sliceFrom p i).bind fun y =>
  (BytesW.lcpW? x y).bind fun ke =>
  if ke < k ∨ (ke = k ∧ i - j ≥ o) then ProbeW.bupScanW bk p i ws v base rest o k
  else ProbeW.bupScanW bk p i ws v base rest (i - j) ke

theorem bupScanW_cons (bk : BucketT) (p : List Byte) (i ws v base s : Nat) (rest : List Nat) (o k : Nat) :
    ProbeW.bupScanW bk p i ws v base (s :: rest) o k =
      if v ≠ (bk.buckets.getD (base + s) (0, 0)).2 then ProbeW.bupScanW bk p i ws v base rest o k
      else
        if ¬ ((bk.buckets.getD (base + s) (0, 0)).1 < i ∧ i - (bk.buckets.getD (base + s) (0, 0)).1 ≤ ws) then
          ProbeW.bupScanW bk p i ws v base rest o k
        else
          if k > 0 then
            (ProbeW.index p ((bk.buckets.getD (base + s) (0, 0)).1 + k - 1)).bind fun a =>
            (ProbeW.index p (i + k - 1)).bind fun b =>
            if (a != b) = true then ProbeW.bupScanW bk p i ws v base rest o k
            else scanTail bk p i ws v base rest o k (bk.buckets.getD (base + s) (0, 0)).1
          else scanTail bk p i ws v base rest o k (bk.buckets.getD (base + s) (0, 0)).1 := by
  rw [ProbeW.bupScanW]
  simp only [Option.bind_eq_bind, Option.pure_def, Option.bind_some, Bool.false_eq_true, if_false, scanTail]

/-- the text behind the two slices of the bucket scan against the canonical decision: split every `if` (of the text and of
    the canonical form), the consistent leaves are `rfl`, the others contradictory by omega -/
macro "tail_close" : tactic =>
  `(tactic| ((repeat' split) <;> first | rfl | (exfalso; omega) | (simp_all; done)))

/-- **the bucket scan** `for _, e := range s.bucket(h) { … }` (loop_2; the view `{arr := V, len := bsN}` is the
    sub-slice `bh.buckets[h·bucketSize : (h+1)·bucketSize]`) is `ProbeW.bupScanW` over the slots `idx, …, bsN-1`:
    same panic (`p[j+k-1]`, `p[i+k-1]` out of range), same `(o, k)` -/
theorem scan_eq (grow : Nat → Nat → Nat) (fuel : Nat) (lcp : Slice → Slice → Int) (hlcp : LcpSpec lcp)
    (bk : BucketT) (V : List bucketEntry) (bsN base : Nat) (hVl : bsN ≤ V.length)
    (hV : ∀ t, t < bsN → bk.buckets.getD (base + t) (0, 0) = ofBEntry ((V[t]?).getD { pos := 0, val := 0 }))
    (v : UInt32) (ia : Int) (iN : Nat) (hia : ia = (iN : Int)) (s : Gen.bucketParser)
    (hws : 0 ≤ s.BUPConfig.WindowSize) (A : List UInt8) (L : Nat) (hLA : L ≤ A.length) (hi : iN ≤ L) :
    ∀ (n idx o k : Nat), idx + n = bsN →
      bucketParser_Parse_loop_2 grow fuel lcp { arr := V, len := bsN } v ia s { arr := A, len := L } n (idx : Int)
          (o : Int) (k : Int) =
        scanRes (ProbeW.bupScanW bk (A.take L) iN s.BUPConfig.WindowSize.toNat v.toNat base (List.range' idx n) o k) := by
  intro n
  induction n with
  | zero =>
    intro idx o k _
    rw [bucketParser_Parse_loop_2]
    rfl
  | succ n ih =>
    intro idx o k hn
    have hpl : (A.take L).length = L := by rw [List.length_take]; omega
    rw [bucketParser_Parse_loop_2, List.range'_succ, bupScanW_cons]
    rw [gindex_ok _ { arr := V, len := bsN } (idx : Int) idx rfl (by show idx < bsN; omega), bind_ok]
    have hV' := hV idx (by omega)
    generalize (V[idx]?).getD { pos := 0, val := 0 } = e at hV' ⊢
    have hV'' : bk.buckets.getD (base + idx) (0, 0) = (e.pos.toNat, e.val.toNat) := hV'
    rw [hV'']
    have hnext := fun o' k' => ih (idx + 1) o' k' (by omega)
    have hcast : ((idx : Int) + 1) = ((idx + 1 : Nat) : Int) := by omega
    simp only []
    rw [hcast]
    by_cases hv : v = e.val
    · have hv1 : ¬ (v ≠ e.val) := fun hc => hc hv
      have hv2 : ¬ (v.toNat ≠ e.val.toNat) := fun hc => hc (by rw [hv])
      have hv1' : ¬ (e.val ≠ v) := fun hc => hc hv.symm
      -- the value test of the Go text with the operands either way round, `!=` with `continue` or `==` with the arms swapped
      first | rw [if_neg hv1] | rw [if_neg hv1'] | rw [if_pos hv] | rw [if_pos hv.symm]
      rw [if_neg hv2]
      -- the window test of the Go text, whatever its spelling: split it, derive the model's test
      split
      case isFalse hgo =>
        simp only [Int.ofNat_eq_natCast, hia] at hgo
        have hwin : e.pos.toNat < iN ∧ iN - e.pos.toNat ≤ s.BUPConfig.WindowSize.toNat := by omega
        have hw2 : ¬ ¬ (e.pos.toNat < iN ∧ iN - e.pos.toNat ≤ s.BUPConfig.WindowSize.toNat) := fun hc => hc hwin
        rw [if_neg hw2]
        generalize e.pos.toNat = j at hwin hw2 ⊢
        obtain ⟨hji, hjw⟩ := hwin
        -- the part behind the byte check (the same text in both arms of `if k > 0`)
        -- stated for ANY text `F t_4 t_5` behind the two slices that agrees with the canonical decision (`continue` with
        -- `(o, k)` when `ke < k ∨ (ke = k ∧ oe ≥ o)`, else with `(oe, ke)`): the Go text may spell the test negated with
        -- the assignment in the then-arm (a join tuple), with swapped operands, …; `tail_close` proves the agreement
        have tail : ∀ F : Slice → Slice → Res (Int × Int),
            (∀ t_4 t_5, F t_4 t_5 =
              if (lcp t_4 t_5 < (k : Int)) ∨ ((lcp t_4 t_5 = (k : Int)) ∧ (ia - Int.ofNat j ≥ (o : Int))) then
                bucketParser_Parse_loop_2 grow fuel lcp { arr := V, len := bsN } v ia s { arr := A, len := L } n
                  ((idx + 1 : Nat) : Int) (o : Int) (k : Int)
              else
                bucketParser_Parse_loop_2 grow fuel lcp { arr := V, len := bsN } v ia s { arr := A, len := L } n
                  ((idx + 1 : Nat) : Int) (ia - Int.ofNat j) (lcp t_4 t_5)) →
            (Res.bind (Slice.slice { arr := A, len := L } (Int.ofNat j) (Int.ofNat L)) fun t_4 =>
              Res.bind (Slice.slice { arr := A, len := L } ia (Int.ofNat L)) fun t_5 => F t_4 t_5) =
            scanRes (scanTail bk (A.take L) iN s.BUPConfig.WindowSize.toNat v.toNat base (List.range' (idx + 1) n) o k j) := by
          intro F hF
          simp only [hF]
          unfold scanTail
          rw [slice_okI { arr := A, len := L } (Int.ofNat j) (Int.ofNat L) j L rfl rfl (by omega) hLA, bind_ok,
            slice_okI { arr := A, len := L } ia (Int.ofNat L) iN L hia rfl hi hLA, bind_ok]
          rw [hlcp { arr := List.drop j A, len := L - j } { arr := List.drop iN A, len := L - iN }, data_drop, data_drop,
            BytesW.sliceFrom_eq_some _ _ (by rw [hpl]; omega), BytesW.sliceFrom_eq_some _ _ (by rw [hpl]; omega)]
          simp only [Option.bind_some, BytesW.lcpW?_eq]
          generalize lcpLen ((A.take L).drop j) ((A.take L).drop iN) = ke
          have hoe : ia - Int.ofNat j = ((iN - j : Nat) : Int) := by
            rw [hia]; show (iN : Int) - (j : Int) = _; omega
          rw [hoe]
          by_cases hc : ke < k ∨ (ke = k ∧ iN - j ≥ o)
          · rw [if_pos hc, if_pos (by omega)]
            exact hnext o k
          · rw [if_neg hc, if_neg (by omega)]
            exact hnext (iN - j) ke
        by_cases hk : k > 0
        · rw [if_pos (by omega : (k : Int) > 0), if_pos hk]
          unfold ProbeW.index
          by_cases h1 : j + k - 1 < L
          · have e1 : (Int.ofNat j + (k : Int)) - 1 = ((j + k - 1 : Nat) : Int) := by
              show (j : Int) + (k : Int) - 1 = _; omega
            rw [e1, bindex_ok _ _ (j + k - 1) rfl (by show j + k - 1 < L; exact h1), bind_ok]
            by_cases h2 : iN + k - 1 < L
            · have e2 : (ia + (k : Int)) - 1 = ((iN + k - 1 : Nat) : Int) := by rw [hia]; omega
              rw [e2, bindex_ok _ _ (iN + k - 1) rfl (by show iN + k - 1 < L; exact h2), bind_ok]
              have g1 : (A.take L)[j + k - 1]? = some (A.getD (j + k - 1) 0) := by
                rw [List.getElem?_take, if_pos h1, List.getD_eq_getElem?_getD]
                rw [List.getElem?_eq_getElem (by omega)]; rfl
              have g2 : (A.take L)[iN + k - 1]? = some (A.getD (iN + k - 1) 0) := by
                rw [List.getElem?_take, if_pos h2, List.getD_eq_getElem?_getD]
                rw [List.getElem?_eq_getElem (by omega)]; rfl
              rw [g1, g2]
              simp only [Option.bind_some]
              by_cases hd : A.getD (j + k - 1) 0 = A.getD (iN + k - 1) 0
              · have hd1 : ¬ (A.getD (j + k - 1) 0 ≠ A.getD (iN + k - 1) 0) := fun hc => hc hd
                have hd2 : ¬ ((A.getD (j + k - 1) 0 != A.getD (iN + k - 1) 0) = true) := fun hc => (bne_iff_ne.mp hc) hd
                rw [if_neg hd1, if_neg hd2]
                exact tail _ (fun t_4 t_5 => by tail_close)
              · have hd2 : (A.getD (j + k - 1) 0 != A.getD (iN + k - 1) 0) = true := bne_iff_ne.mpr hd
                rw [if_pos hd, if_pos hd2]
                exact hnext o k
            · have g2 : (A.take L)[iN + k - 1]? = none := by
                rw [List.getElem?_take, if_neg h2]
              have g1 : (A.take L)[j + k - 1]? = some (A.getD (j + k - 1) 0) := by
                rw [List.getElem?_take, if_pos h1, List.getD_eq_getElem?_getD]
                rw [List.getElem?_eq_getElem (by omega)]; rfl
              rw [g1, g2]
              simp only [Option.bind_some, Option.bind_none]
              unfold Slice.index
              rw [if_neg (by
                rw [hia]
                show ¬ ((0 : Int) ≤ (iN : Int) + (k : Int) - 1 ∧ (iN : Int) + (k : Int) - 1 < (L : Int))
                omega)]
              rfl
          · have g1 : (A.take L)[j + k - 1]? = none := by
              rw [List.getElem?_take, if_neg h1]
            rw [g1]
            simp only [Option.bind_none]
            unfold Slice.index
            rw [if_neg (by
              show ¬ ((0 : Int) ≤ (j : Int) + (k : Int) - 1 ∧ (j : Int) + (k : Int) - 1 < (L : Int))
              omega)]
            rfl
        · rw [if_neg (by omega : ¬ (k : Int) > 0), if_neg hk]
          exact tail _ (fun t_4 t_5 => by tail_close)
      case isTrue hgo =>
        simp only [Int.ofNat_eq_natCast, hia] at hgo
        have hwin : ¬ (e.pos.toNat < iN ∧ iN - e.pos.toNat ≤ s.BUPConfig.WindowSize.toNat) := by omega
        rw [if_pos hwin]
        exact hnext o k
    · have hv2 : v.toNat ≠ e.val.toNat := fun hc => hv (UInt32.toNat_inj.mp hc)
      have hv' : e.val ≠ v := fun hc => hv hc.symm
      first | rw [if_pos hv] | rw [if_pos hv'] | rw [if_neg hv] | rw [if_neg (fun hc => hv' hc)]
      rw [if_pos hv2]
      exact hnext o k

end LZ.GenBUPParse

#print axioms LZ.GenBUPParse.gen_add
#print axioms LZ.GenBUPParse.gen_processSegmentB
#print axioms LZ.GenBUPParse.scan_eq
