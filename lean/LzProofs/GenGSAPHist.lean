/-
  LzProofs.GenGSAPHist — `ParseOKG` (GenGSAPParse), INCLUDING the index invariant `SaIdx`, as an INVARIANT of the
  translated operations of the greedy suffix-array parser GSAP, operation by operation.  No sorry, no axioms of its own.

  Subject: the functions `tools/extract` regenerates from the Go text
      gsap.go             (*gsap).init / Parse / Reset / Shrink / sort   Gen.gsap_init / gsap_Parse / gsap_Reset / gsap_Shrink
                                                                          (CodeGSAPInit, CodeGSAPParse)
      parser_buffer.go    ParserBuffer.Write / ReadFrom                   Gen.ParserBuffer_Write (CodePBuf),
                                                                          Gen.ParserBuffer_ReadFrom (CodePBufReadFrom)
  `Write` and `ReadFrom` of a `*gsap` are the PROMOTED methods of the embedded `ParserBuffer` (gsap.go declares `init`,
  `Parse`, `Reset`, `Shrink`, `sort`, `ParserConfig`): `gsap_Write`, `gsap_ReadFrom` below are the translated function on
  the embedded field followed by a record update (three lines each, no logic).  `ReadFrom` is run against the scripted
  reader (`GenBuf.mRead`, `GenHPHist.rfGo`).  `Parse(nil)` is excluded by the topic assumption `blk != nil`.

  OPAQUE callees of the translation and their specification hypotheses, stated ONCE: `GsapSpecs lcp SS BI`
      lcp  : LcpSpec lcp        (`lcp` of bytes.go = `lcpLen`)
      sort : SortSpec SS        (`suffix.Sort(t, sa)` leaves `saSpec t` as int32 values)
      ins  : InsertSpec BI      (`(*bitset).insert` = `BitsetW.insert`)

  Invariant `HistOKG bc t` on the GENERATED state `t : Gen.gsap`: `ParseOKG t` (hence `SaIdx t` unless `len(sa) = 0`), the
  buffer configuration is `bc`, `len(Data) ≤ BufferSize`, the capacity invariant `CapOK` (only `ReadFrom` needs it).
  `BCOKG bc`: `BufferSize ≤ MaxInt32`, `WindowSize ≤ 2^32 - 8` (what `GSAPConfig.Verify` enforces).
  Model side: the model state is `ofGSAPs t g` for a rank array `g` standing for the same set as the Go bitset
  (`GSim g (ofGW t)`, GsapBits); `g` is threaded through the per-operation lemmas next to `t`.

  Results (each for every growth policy of `append`, every state with `HistOKG`):
    gen_gsap_init_parseOK  `gsap.init` on `new(gsap)`, every accepted configuration: the model's fresh parser, `ParseOKG`
    hist_init     … and `HistOKG`, `BCOKG`, `GSim GsapD.empty (ofGW s0)`
    hist_write    `gsap_Write`  = `Parser.write`, keeps `HistOKG` (`SaIdx` survives: `W` fixed, `len(Data)` grows)
    hist_readFrom `gsap_ReadFrom` (translated `ReadFrom`, scripted reader) = `Parser.readFrom`
    hist_shrink   `gsap_Shrink` = `Parser.shrink` (delta = 0: nothing changes; delta > 0: `sa` dropped)
    hist_reset    `gsap_Reset`  = `Parser.reset`  (error: nothing changes; success: `sa` dropped)
    hist_parse    `gsap_Parse`  = `Parser.parse` on states whose model state is REACHABLE (`gen_gsap_parse_model`); the block
                  returned ABSTRACTS (`ofBlock`) to the model's block
  The history-level statements are in LzProofs/GenGSAPHistRun.lean.
-/
import LzProofs.GenGSAPParse
import LzProofs.GenGSAPInit
import LzProofs.GenHPHistRF2

set_option linter.unusedSimpArgs false
set_option linter.unusedVariables false

namespace LZ.GenGSAPHist
open LZ LZ.Gen LZ.GenBuf LZ.GenHash LZ.GenSuffix LZ.GenBitset LZ.GsapBits LZ.GenHPParse LZ.GenParse LZ.GenBUPParse
  LZ.GenProps LZ.GenGSAP
open LZ.GenHPHist (mwrite_eq mreadFrom_eq capOK_shrink mparse_frame ofSeq_seqRep genErr RFun RFSpec rfGo rfGo_spec
  errOfCode_ne_panic)

/-! ## the opaque callees, once -/

/-- the three specification hypotheses on the opaque callees of the translated `gsap.go` -/
structure GsapSpecs (lcp : Slice → Slice → Int) (SS : Slice → GSlice Int32 → Res (GSlice Int32))
    (BI : Gen.bitset → List Int → Res Gen.bitset) : Prop where
  lcp : LcpSpec lcp
  sort : SortSpec SS
  ins : InsertSpec BI

/-! ## the promoted methods -/

/-- `s.Write(p)` for `s *gsap`: `ParserBuffer.Write` on the embedded buffer -/
def gsap_Write (grow : Nat → Nat → Nat) (s : Gen.gsap) (p : Slice) : Res (Gen.gsap × Int × Gen.Err) :=
  Res.bind (ParserBuffer_Write grow s.ParserBuffer p) fun r =>
  Res.ok ({ s with ParserBuffer := r.1 }, r.2.1, r.2.2)

/-- `s.ReadFrom(r)` for `s *gsap`: `ParserBuffer.ReadFrom` on the embedded buffer (`RF` = a rendering of it against the
    scripted reader; `GenHPHist.rfGo extra` is the translated function) -/
def gsap_ReadFrom (RF : RFun) (s : Gen.gsap) (r : Reader) : Res (Gen.gsap × Reader × Int × Gen.Err) :=
  Res.bind (RF s.ParserBuffer r) fun x =>
  Res.ok ({ s with ParserBuffer := x.1 }, x.2.1, x.2.2.1, x.2.2.2)

/-! ## the invariant -/

/-- what `GSAPConfig.Verify` enforces and the proofs below use -/
structure BCOKG (bc : BufCfg) : Prop where
  bmax : bc.bufferSize ≤ 2147483647
  wmax : bc.windowSize ≤ 4294967288

/-- the invariant of a history of translated operations on a Go `gsap` -/
structure HistOKG (bc : BufCfg) (t : Gen.gsap) : Prop where
  pok : ParseOKG t
  cfg : ofCfg t.ParserBuffer.BufConfig = bc
  len : t.ParserBuffer.Data.len ≤ bc.bufferSize
  cap : (ofPB t.ParserBuffer).CapOK

/-- `HistOKG` implies the hypothesis bundle of `gen_gsap_parse`, incl. the index invariant -/
theorem HistOKG.parseOK {bc : BufCfg} {t : Gen.gsap} (h : HistOKG bc t) : ParseOKG t := h.pok

theorem HistOKG.saIdx {bc : BufCfg} {t : Gen.gsap} (h : HistOKG bc t) : t.sa.len = 0 ∨ SaIdx t := h.pok.idx

theorem HistOKG.dataLen {bc : BufCfg} {t : Gen.gsap} (h : HistOKG bc t) :
    (ofPB t.ParserBuffer).data.length = t.ParserBuffer.Data.len := data_length h.pok.pb.data

theorem HistOKG.hw {bc : BufCfg} {t : Gen.gsap} (h : HistOKG bc t) :
    (ofPB t.ParserBuffer).w ≤ (ofPB t.ParserBuffer).data.length := by
  rw [h.dataLen]
  have h1 := h.pok.w
  have h2 := h.pok.pb.w
  show t.ParserBuffer.W.toNat ≤ _
  omega

theorem HistOKG.mlen {bc : BufCfg} {t : Gen.gsap} (h : HistOKG bc t) :
    (ofPB t.ParserBuffer).data.length ≤ (ofPB t.ParserBuffer).cfg.bufferSize := by
  rw [h.dataLen]
  show _ ≤ (ofCfg t.ParserBuffer.BufConfig).bufferSize
  rw [h.cfg]; exact h.len

/-- `HistOKG` after an operation that replaced the buffer and (possibly) the dictionary: what has to be known -/
theorem histOK_update {bc : BufCfg} (hbc : BCOKG bc) {t : Gen.gsap} (h : HistOKG bc t) (t' : Gen.gsap)
    (hcf : t'.GSAPConfig = t.GSAPConfig) (hpb : PBWF t'.ParserBuffer)
    (hcfg : (ofPB t'.ParserBuffer).cfg = bc)
    (hw : (ofPB t'.ParserBuffer).w ≤ (ofPB t'.ParserBuffer).data.length)
    (hlen : (ofPB t'.ParserBuffer).data.length ≤ bc.bufferSize)
    (hcap : (ofPB t'.ParserBuffer).CapOK)
    (hsa : GWF t'.sa) (hisa : GWF t'.isa) (hbits : BSWF t'.bits)
    (hidx : t'.sa.len = 0 ∨ SaIdx t') :
    HistOKG bc t' := by
  have hdl : (ofPB t'.ParserBuffer).data.length = t'.ParserBuffer.Data.len := data_length hpb.data
  rw [hdl] at hw hlen
  have hc : ofCfg t'.ParserBuffer.BufConfig = ofCfg t.ParserBuffer.BufConfig := hcfg.trans h.cfg.symm
  have hws : t'.ParserBuffer.BufConfig.WindowSize.toNat = t.ParserBuffer.BufConfig.WindowSize.toNat :=
    congrArg BufCfg.windowSize hc
  have hbs : t'.ParserBuffer.BufConfig.BlockSize.toNat = t.ParserBuffer.BufConfig.BlockSize.toNat :=
    congrArg BufCfg.blockSize hc
  have hW0 := hpb.w
  have hw' : t'.ParserBuffer.W.toNat ≤ t'.ParserBuffer.Data.len := hw
  have := hbc.bmax
  refine ⟨⟨hpb, hsa, hisa, hbits, ?_, ?_, ?_, ?_, ?_, ?_, ?_, hidx⟩, hcfg, hlen, hcap⟩
  · rw [hcf, hws]; exact h.pok.cws
  · rw [hcf, hbs]; exact h.pok.cbs
  · rw [hcf]; exact h.pok.bs0
  · rw [hcf]; exact h.pok.ws0
  · rw [hcf]; exact h.pok.mm1
  · omega
  · omega

/-- `SaIdx` only reads `W`, `len(Data)` of the buffer; it survives when `W` stays and `len(Data)` does not decrease -/
theorem saIdx_buf {t : Gen.gsap} (b' : Gen.ParserBuffer) (h : t.sa.len = 0 ∨ SaIdx t)
    (hW : b'.W.toNat = t.ParserBuffer.W.toNat) (hl : t.ParserBuffer.Data.len ≤ b'.Data.len) :
    ({ t with ParserBuffer := b' } : Gen.gsap).sa.len = 0 ∨ SaIdx { t with ParserBuffer := b' } := by
  rcases h with h | h
  · exact Or.inl h
  · right
    refine ⟨h.lisa, Nat.le_trans h.le hl, h.nsa, h.nisa, h.rk, ?_, h.span⟩
    intro r hr
    have := h.mark r hr
    exact ⟨this.1, by show _ < b'.W.toNat; rw [hW]; exact this.2⟩

/-! ## Write -/

theorem hist_write {bc : BufCfg} (hbc : BCOKG bc) (grow : Nat → Nat → Nat) (t : Gen.gsap) (h : HistOKG bc t)
    (g : GsapD) (p : Slice) (hp : SWF p) :
    ∃ t' n e, gsap_Write grow t p = Res.ok (t', n, e) ∧ HistOKG bc t' ∧
      ofGSAPs t' g = ((ofGSAPs t g).write p.data).1 ∧ ofGW t' = ofGW t ∧
      n = (((ofGSAPs t g).write p.data).2.1 : Int) ∧
      errOf e = some ((ofGSAPs t g).write p.data).2.2 ∧
      (((ofGSAPs t g).write p.data).2.2 = .ok ∨ ((ofGSAPs t g).write p.data).2.2 = .full) := by
  have hA := gen_pbuf_write grow t.ParserBuffer h.pok.pb p hp
  obtain ⟨c, hc, hcm⟩ := PBuf.write_spec (ofPB t.ParserBuffer) p.data h.mlen
  obtain ⟨a1, a2, a3, a4, a5, a6⟩ := PBuf.write_frame (ofPB t.ParserBuffer) p.data
  have herr : (PBuf.write (ofPB t.ParserBuffer) p.data).2.2 = .ok ∨
      (PBuf.write (ofPB t.ParserBuffer) p.data).2.2 = .full := by
    rw [hc]; simp only []; split
    · right; rfl
    · left; rfl
  rw [mwrite_eq]
  simp only []
  show ∃ t' n e, gsap_Write grow t p = Res.ok (t', n, e) ∧ HistOKG bc t' ∧
      ofGSAPs t' g = { ofGSAPs t g with buf := (PBuf.write (ofPB t.ParserBuffer) p.data).1 } ∧ ofGW t' = ofGW t ∧
      n = ((PBuf.write (ofPB t.ParserBuffer) p.data).2.1 : Int) ∧
      errOf e = some (PBuf.write (ofPB t.ParserBuffer) p.data).2.2 ∧ _
  unfold gsap_Write
  cases hr : ParserBuffer_Write grow t.ParserBuffer p with
  | ok v =>
    obtain ⟨b', n, e⟩ := v
    rw [hr] at hA
    obtain ⟨_, hof, hn, he, hwf⟩ := hA
    have hmw := h.hw
    have hdl' : (ofPB b').data.length = b'.Data.len := data_length hwf.data
    have hdl := h.dataLen
    have hlen' : (ofPB b').data.length =
        (ofPB t.ParserBuffer).data.length + (p.data.take (PBuf.write (ofPB t.ParserBuffer) p.data).2.1).length := by
      rw [hof, a1, List.length_append]
    refine ⟨{ t with ParserBuffer := b' }, n, e, rfl, ?_, ?_, rfl, hn, he, herr⟩
    · refine histOK_update hbc h _ rfl hwf ?_ ?_ ?_ ?_ h.pok.wsa h.pok.wisa h.pok.wbits ?_
      · show (ofPB b').cfg = bc
        rw [hof, a5]; exact h.cfg
      · show (ofPB b').w ≤ (ofPB b').data.length
        rw [hlen', hof, a3]; omega
      · show (ofPB b').data.length ≤ bc.bufferSize
        rw [hof, hc]
        simp only [List.length_append, List.length_take]
        have h1 := h.mlen
        have h2 : (ofPB t.ParserBuffer).cfg.bufferSize = bc.bufferSize := by rw [h.cfg.symm]; rfl
        omega
      · show (ofPB b').CapOK
        rw [hof]; exact a6 h.cap
      · refine saIdx_buf b' h.pok.idx ?_ ?_
        · have : (ofPB b').w = (ofPB t.ParserBuffer).w := by rw [hof, a3]
          exact this
        · omega
    · show ({ kind := .GSAP, cfg := ofGSAP t.GSAPConfig, buf := ofPB b', dict := .gsap g } : Parser) = _
      rw [hof]; rfl
  | panic =>
    rw [hr] at hA
    have hA' : (PBuf.write (ofPB t.ParserBuffer) p.data).2.2 = .panic := hA
    rcases herr with h1 | h1 <;> rw [h1] at hA' <;> cases hA'
  | fuel =>
    rw [hr] at hA
    exact absurd hA (by intro hc; exact hc)

/-! ## ReadFrom -/

theorem hist_readFrom {bc : BufCfg} (hbc : BCOKG bc) (RF : RFun) (hRF : RFSpec RF) (t : Gen.gsap) (h : HistOKG bc t)
    (g : GsapD) (r : Reader) :
    ∃ t', gsap_ReadFrom RF t r = Res.ok (t', ((ofGSAPs t g).readFrom r).2.1, (((ofGSAPs t g).readFrom r).2.2.1 : Int),
        genErr ((ofGSAPs t g).readFrom r).2.2.2) ∧ HistOKG bc t' ∧
      ofGSAPs t' g = ((ofGSAPs t g).readFrom r).1 ∧ ofGW t' = ofGW t := by
  rw [mreadFrom_eq]
  simp only []
  show ∃ t', gsap_ReadFrom RF t r = Res.ok (t', (PBuf.readFrom (ofPB t.ParserBuffer) r).2.1,
      ((PBuf.readFrom (ofPB t.ParserBuffer) r).2.2.1 : Int),
      genErr (PBuf.readFrom (ofPB t.ParserBuffer) r).2.2.2) ∧ HistOKG bc t' ∧
      ofGSAPs t' g = { ofGSAPs t g with buf := (PBuf.readFrom (ofPB t.ParserBuffer) r).1 } ∧ ofGW t' = ofGW t
  have hml := h.mlen
  have hmw := h.hw
  obtain ⟨c, pre, hb, -, hn1, hn2, hm, -, -, hcase⟩ :=
    PBuf.readFrom_master hml (r := r) (b' := (PBuf.readFrom (ofPB t.ParserBuffer) r).1)
      (r' := (PBuf.readFrom (ofPB t.ParserBuffer) r).2.1)
      (n := (PBuf.readFrom (ofPB t.ParserBuffer) r).2.2.1)
      (e := (PBuf.readFrom (ofPB t.ParserBuffer) r).2.2.2) rfl
  have hnp : (PBuf.readFrom (ofPB t.ParserBuffer) r).2.2.2 ≠ .panic := by
    rcases hcase with ⟨h1, -⟩ | ⟨h1, -⟩ | ⟨mx, ec, -, -, h1⟩
    · rw [h1]; intro hc; cases hc
    · rw [h1]; intro hc; cases hc
    · rw [h1]; exact errOfCode_ne_panic ec
  obtain ⟨b', hrf, hof, hwf⟩ := hRF t.ParserBuffer r h.pok.pb h.cap hml hnp
  unfold gsap_ReadFrom
  rw [hrf]
  have hcfgE : (ofPB t.ParserBuffer).cfg.bufferSize = bc.bufferSize := by rw [← h.cfg]; rfl
  have hdl' : (ofPB b').data.length = b'.Data.len := data_length hwf.data
  have hdl := h.dataLen
  have hlen' : (ofPB b').data.length =
      (ofPB t.ParserBuffer).data.length + (r.payload.take (PBuf.readFrom (ofPB t.ParserBuffer) r).2.2.1).length := by
    rw [hof, hb]; simp only [List.length_append]
  refine ⟨{ t with ParserBuffer := b' }, rfl, ?_, ?_, rfl⟩
  · refine histOK_update hbc h _ rfl hwf ?_ ?_ ?_ ?_ h.pok.wsa h.pok.wisa h.pok.wbits ?_
    · show (ofPB b').cfg = bc
      rw [hof, hb]; exact h.cfg
    · show (ofPB b').w ≤ (ofPB b').data.length
      rw [hlen', hof, hb]
      show (ofPB t.ParserBuffer).w ≤ _
      omega
    · show (ofPB b').data.length ≤ bc.bufferSize
      rw [hlen']; simp only [List.length_take]; omega
    · show (ofPB b').CapOK
      rw [hof, hb]
      have hc := h.cap
      unfold PBuf.CapOK at hc ⊢
      rcases hm hc with ⟨h1, h2⟩ | h2
      · left; simp only; rw [h1, h2]; rfl
      · right; simp only [List.length_append, List.length_take]; omega
    · refine saIdx_buf b' h.pok.idx ?_ ?_
      · have : (ofPB b').w = (ofPB t.ParserBuffer).w := by rw [hof, hb]
        exact this
      · omega
  · show ({ kind := .GSAP, cfg := ofGSAP t.GSAPConfig, buf := ofPB b', dict := .gsap g } : Parser) = _
    rw [hof]; rfl

/-! ## Shrink, Reset: model side -/

theorem mshrink_gsap (m : Parser) (g : GsapD) (hd : m.dict = .gsap g) :
    m.shrink = if m.buf.shrink.2 = 0 then (m, 0)
      else ({ m with buf := m.buf.shrink.1, dict := .gsap GsapD.empty }, m.buf.shrink.2) := by
  unfold Parser.shrink
  generalize m.buf.shrink = x
  obtain ⟨b, d⟩ := x
  simp only [hd]

theorem mreset_gsap (m : Parser) (g : GsapD) (hd : m.dict = .gsap g) (data : List Byte) (ce : Nat) :
    m.reset data ce = if (m.buf.reset data ce).2 = .ok
      then ({ m with buf := (m.buf.reset data ce).1, dict := .gsap GsapD.empty }, (m.buf.reset data ce).2)
      else (m, (m.buf.reset data ce).2) := by
  unfold Parser.reset
  generalize m.buf.reset data ce = x
  obtain ⟨b, e⟩ := x
  simp only [Parser.clearDict, hd]

/-- `SaIdx` reads `sa`, `isa`, `bits`, `W`, `len(Data)` only -/
theorem saIdx_frame {t t' : Gen.gsap} (h : t.sa.len = 0 ∨ SaIdx t) (hsa : t'.sa = t.sa) (hisa : t'.isa = t.isa)
    (hbits : t'.bits = t.bits) (hW : t'.ParserBuffer.W.toNat = t.ParserBuffer.W.toNat)
    (hl : t.ParserBuffer.Data.len ≤ t'.ParserBuffer.Data.len) : t'.sa.len = 0 ∨ SaIdx t' := by
  obtain ⟨pb', sa', isa', bits', cfg'⟩ := t'
  simp only at hsa hisa hbits hW hl
  subst hsa hisa hbits
  rcases h with h | h
  · exact Or.inl h
  · right
    refine ⟨h.lisa, Nat.le_trans h.le hl, h.nsa, h.nisa, h.rk, ?_, h.span⟩
    intro r hr
    have := h.mark r hr
    exact ⟨this.1, by show _ < pb'.W.toNat; rw [hW]; exact this.2⟩

/-! ## Shrink -/

theorem hist_shrink {bc : BufCfg} (hbc : BCOKG bc) (t : Gen.gsap) (h : HistOKG bc t) (g : GsapD)
    (hG : GSim g (ofGW t)) :
    ∃ t' g', gsap_Shrink t = Res.ok (t', ((ofGSAPs t g).shrink.2 : Int)) ∧ HistOKG bc t' ∧
      ofGSAPs t' g' = (ofGSAPs t g).shrink.1 ∧ GSim g' (ofGW t') := by
  have hW := h.pok.w
  have hss := h.pok.pb.ss
  obtain ⟨s', hs, hof, hwf, hcf, hbits, hpos, hzero⟩ := gen_gsap_shrink t h.pok.pb h.pok.wbits (by omega)
  obtain ⟨a1, a2, a3, a4, a5, a6⟩ := PBuf.shrink_frame (ofPB t.ParserBuffer)
  have hmw := h.hw
  have hml : (ofPB t.ParserBuffer).data.length ≤ bc.bufferSize := by
    have := h.mlen
    have h2 : (ofPB t.ParserBuffer).cfg.bufferSize = bc.bufferSize := by rw [← h.cfg]; rfl
    omega
  rw [mshrink_gsap (ofGSAPs t g) g rfl]
  show ∃ t' g', gsap_Shrink t = Res.ok (t', ((if (PBuf.shrink (ofPB t.ParserBuffer)).2 = 0 then (ofGSAPs t g, 0)
      else ({ ofGSAPs t g with buf := (PBuf.shrink (ofPB t.ParserBuffer)).1, dict := .gsap GsapD.empty },
        (PBuf.shrink (ofPB t.ParserBuffer)).2)).2 : Int)) ∧ HistOKG bc t' ∧
      ofGSAPs t' g' = (if (PBuf.shrink (ofPB t.ParserBuffer)).2 = 0 then (ofGSAPs t g, 0)
      else ({ ofGSAPs t g with buf := (PBuf.shrink (ofPB t.ParserBuffer)).1, dict := .gsap GsapD.empty },
        (PBuf.shrink (ofPB t.ParserBuffer)).2)).1 ∧ GSim g' (ofGW t')
  by_cases hd : (PBuf.shrink (ofPB t.ParserBuffer)).2 = 0
  · obtain ⟨e1, e2, e3⟩ := hzero hd
    have hb : ofPB s'.ParserBuffer = ofPB t.ParserBuffer := by rw [hof]; exact a6 hd
    have hdl' : (ofPB s'.ParserBuffer).data.length = s'.ParserBuffer.Data.len := data_length hwf.data
    have hdl := h.dataLen
    rw [if_pos hd]
    refine ⟨s', g, by rw [hs, hd], ?_, ?_, ?_⟩
    · refine histOK_update hbc h s' hcf hwf ?_ ?_ ?_ ?_ (by rw [e1]; exact h.pok.wsa) (by rw [e2]; exact h.pok.wisa)
        hbits ?_
      · rw [hb]; exact h.cfg
      · rw [hb]; exact hmw
      · rw [hb]; exact hml
      · rw [hb]; exact h.cap
      · refine saIdx_frame h.pok.idx e1 e2 e3 ?_ ?_
        · exact congrArg PBuf.w hb
        · have hdd : (ofPB s'.ParserBuffer).data.length = (ofPB t.ParserBuffer).data.length := by rw [hb]
          omega
    · show ({ kind := .GSAP, cfg := ofGSAP s'.GSAPConfig, buf := ofPB s'.ParserBuffer, dict := .gsap g } : Parser) = _
      rw [hb, hcf]; rfl
    · have : ofGW s' = ofGW t := by unfold ofGW; rw [e1, e2, e3]
      rw [this]; exact hG
  · obtain ⟨e0, e1, e2, e3, e4⟩ := hpos (by omega)
    rw [if_neg hd]
    refine ⟨s', GsapD.empty, hs, ?_, ?_, ?_⟩
    · refine histOK_update hbc h s' hcf hwf ?_ ?_ ?_ ?_ e3 e4 hbits (Or.inl e1)
      · rw [hof, a4]; exact h.cfg
      · rw [hof, a1, List.length_drop]; omega
      · rw [hof, a1, List.length_drop]; omega
      · rw [hof]; exact capOK_shrink _ h.cap
    · show ({ kind := .GSAP, cfg := ofGSAP s'.GSAPConfig, buf := ofPB s'.ParserBuffer, dict := .gsap GsapD.empty } : Parser) = _
      rw [hof, hcf]; rfl
    · rw [e0]; exact hG.reset

/-! ## Reset -/

theorem hist_reset {bc : BufCfg} (hbc : BCOKG bc) (t : Gen.gsap) (h : HistOKG bc t) (g : GsapD)
    (hG : GSim g (ofGW t)) (data : Slice) (hdat : SWF data) :
    ∃ t' e g', gsap_Reset t data = Res.ok (t', e) ∧ HistOKG bc t' ∧
      ofGSAPs t' g' = ((ofGSAPs t g).reset data.data (data.cap - data.len)).1 ∧ GSim g' (ofGW t') ∧
      errOfReset e = some ((ofGSAPs t g).reset data.data (data.cap - data.len)).2 := by
  obtain ⟨s', e, hs, hof, herr, hwf, hcf, hbits, hok, hbad⟩ := gen_gsap_reset t h.pok.pb h.pok.wbits data hdat
  have hmw := h.hw
  have hml : (ofPB t.ParserBuffer).data.length ≤ bc.bufferSize := by
    have := h.mlen
    have h2 : (ofPB t.ParserBuffer).cfg.bufferSize = bc.bufferSize := by rw [← h.cfg]; rfl
    omega
  rw [mreset_gsap (ofGSAPs t g) g rfl]
  have hiff := GenHash.errOfReset_ok_iff e _ herr
  rcases PBuf.reset_frame (ofPB t.ParserBuffer) data.data (data.cap - data.len) with
    ⟨b0, b1, b2, b3, b4, b5⟩ | ⟨b0, b1⟩
  · -- success
    have he : e = Gen.Err.ok := hiff.mpr b0
    obtain ⟨e0, e1, e2, e3, e4⟩ := hok he
    have b0' : ((ofGSAPs t g).buf.reset data.data (data.cap - data.len)).2 = .ok := b0
    rw [if_pos b0']
    refine ⟨s', e, GsapD.empty, hs, ?_, ?_, ?_, herr⟩
    · refine histOK_update hbc h s' hcf hwf ?_ ?_ ?_ ?_ e3 e4 hbits (Or.inl e1)
      · rw [hof, b4]; exact h.cfg
      · rw [hof, b2]; exact Nat.zero_le _
      · rw [hof, b1]
        have hno : ¬ (ofPB t.ParserBuffer).cfg.bufferSize < data.data.length := by
          intro hc
          have := (PBuf.reset_err_iff _ data.data (data.cap - data.len)).mpr hc
          rw [b0] at this; cases this
        have hcc : (ofPB t.ParserBuffer).cfg.bufferSize = bc.bufferSize := by rw [← h.cfg]; rfl
        omega
      · rw [hof]; exact b5
    · show ({ kind := .GSAP, cfg := ofGSAP s'.GSAPConfig, buf := ofPB s'.ParserBuffer, dict := .gsap GsapD.empty } : Parser) = _
      rw [hof, hcf]; rfl
    · rw [e0]; exact hG.reset
  · -- error: nothing changes
    have he : e ≠ Gen.Err.ok := fun hc => b0 (hiff.mp hc)
    obtain ⟨e1, e2, e3⟩ := hbad he
    have hb : ofPB s'.ParserBuffer = ofPB t.ParserBuffer := by rw [hof]; exact b1
    have hdl' : (ofPB s'.ParserBuffer).data.length = s'.ParserBuffer.Data.len := data_length hwf.data
    have hdl := h.dataLen
    have b0' : ¬ ((ofGSAPs t g).buf.reset data.data (data.cap - data.len)).2 = .ok := b0
    rw [if_neg b0']
    refine ⟨s', e, g, hs, ?_, ?_, ?_, herr⟩
    · refine histOK_update hbc h s' hcf hwf ?_ ?_ ?_ ?_ (by rw [e1]; exact h.pok.wsa) (by rw [e2]; exact h.pok.wisa)
        hbits ?_
      · rw [hb]; exact h.cfg
      · rw [hb]; exact hmw
      · rw [hb]; exact hml
      · rw [hb]; exact h.cap
      · refine saIdx_frame h.pok.idx e1 e2 e3 ?_ ?_
        · exact congrArg PBuf.w hb
        · have hdd : (ofPB s'.ParserBuffer).data.length = (ofPB t.ParserBuffer).data.length := by rw [hb]
          omega
    · show ({ kind := .GSAP, cfg := ofGSAP s'.GSAPConfig, buf := ofPB s'.ParserBuffer, dict := .gsap g } : Parser) = _
      rw [hb, hcf]; rfl
    · have : ofGW s' = ofGW t := by unfold ofGW; rw [e1, e2, e3]
      rw [this]; exact hG

/-! ## Parse -/

theorem mparse_err (s : Parser) (flags : Nat) (hw : s.buf.w ≤ s.buf.data.length) (hmm : 1 ≤ s.minMatch)
    (hcap : s.buf.CapOK) (hnot : ∀ o, s.dict ≠ .osap o) :
    (s.parse flags).2.2.1 = .ok ∨ (s.parse flags).2.2.1 = .empty := by
  by_cases hn : s.blockN = 0
  · rw [Parser.parse_empty s flags hn]; exact Or.inr rfl
  · obtain ⟨s', n, blk, hp, -, -⟩ :=
      Parser.parse_greedy_ok s flags hw hn hmm (Parser.marginOK_of_cap s hcap hn) hnot
    rw [hp]; exact Or.inl rfl

/-- `Parse` on a Go state with `HistOKG` whose model state (with a rank array `g` standing for the Go bitset) is
    REACHABLE from `NewParser`: `gen_gsap_parse_model` applies; all its hypotheses follow from `HistOKG` and the three
    specifications. -/
theorem hist_parse {bc : BufCfg} (hbc : BCOKG bc) (grow : Nat → Nat → Nat) (fuel : Nat)
    {lcp : Slice → Slice → Int} {SS : Slice → GSlice Int32 → Res (GSlice Int32)}
    {BI : Gen.bitset → List Int → Res Gen.bitset} (sp : GsapSpecs lcp SS BI)
    (t : Gen.gsap) (h : HistOKG bc t) (g : GsapD) (hG : GSim g (ofGW t))
    (raw : Cfg) (p0 : Parser) (h0 : newParser .GSAP raw = some p0) (mops : List POp)
    (hreach : ofGSAPs t g = (runOps (p0, Ghost.init) mops).1)
    (blk : Gen.Block') (flags : Int) (hfl : 0 ≤ flags)
    (hfuel : 2 * t.ParserBuffer.Data.len + 5 ≤ fuel) :
    ∃ t' blk' g', gsap_Parse grow fuel lcp SS BI t blk flags =
        Res.ok (t', blk', (((ofGSAPs t g).parse flags.toNat).2.1 : Int),
          parseErr ((ofGSAPs t g).parse flags.toNat).2.2.1) ∧
      HistOKG bc t' ∧ ofGSAPs t' g' = ((ofGSAPs t g).parse flags.toNat).1 ∧ GSim g' (ofGW t') ∧
      ofBlock blk' = ((ofGSAPs t g).parse flags.toNat).2.2.2 ∧ SWF blk'.Literals ∧
      (((ofGSAPs t g).parse flags.toNat).2.2.1 = .ok ∨ ((ofGSAPs t g).parse flags.toNat).2.2.1 = .empty) := by
  have hmm : (ofGSAPs t g).minMatch = t.GSAPConfig.MinMatchLen.toNat := rfl
  have hmm1 : 1 ≤ (ofGSAPs t g).minMatch := by rw [hmm]; have := h.pok.mm1; omega
  have hnot : ∀ o, (ofGSAPs t g).dict ≠ .osap o := by intro o ho; cases ho
  have hmw : (ofGSAPs t g).buf.w ≤ (ofGSAPs t g).buf.data.length := h.hw
  have hcap : (ofGSAPs t g).buf.CapOK := h.cap
  have hbm := hbc.bmax
  have hwm := hbc.wmax
  have hcfgE : (ofPB t.ParserBuffer).cfg = bc := h.cfg
  obtain ⟨f1, f2, f3, f4⟩ := mparse_frame (ofGSAPs t g) flags.toNat hmw hmm1 hcap hnot 4294967288
    (by have := h.mlen; rw [hcfgE] at this; show (ofPB t.ParserBuffer).data.length ≤ _; omega)
    (by show (ofPB t.ParserBuffer).cfg.windowSize ≤ _; rw [hcfgE]; exact hwm)
  have herr := mparse_err (ofGSAPs t g) flags.toNat hmw hmm1 hcap hnot
  obtain ⟨t', blk', g', h1, h2, h3, h5, h6, h7, h8⟩ :=
    gen_gsap_parse_model grow fuel lcp sp.lcp SS sp.sort BI sp.ins t blk flags g h.pok hfl hfuel hG raw p0 h0 mops hreach
  generalize (ofGSAPs t g).parse flags.toNat = R at h1 h2 h5 h6 f1 f2 f3 f4 herr ⊢
  obtain ⟨s', n, e, b⟩ := R
  simp only at h1 h2 h5 h6 f1 f2 f3 f4 herr ⊢
  have hbuf : ofPB t'.ParserBuffer = { ofPB t.ParserBuffer with w := (ofPB t.ParserBuffer).w + n } := by
    have := congrArg Parser.buf h2
    rw [f1] at this
    exact this.symm
  have hcfgP : ofGSAP t'.GSAPConfig = ofGSAP t.GSAPConfig := by
    have := congrArg Parser.cfg h2
    rw [f2] at this
    exact this.symm
  have hCF : t'.GSAPConfig = t.GSAPConfig := by
    have := congrArg toGSAP hcfgP
    rw [toGSAP_ofGSAP, toGSAP_ofGSAP] at this; exact this
  refine ⟨t', blk', g', h1, ?_, h2.symm, h3, ?_, h7, herr⟩
  · refine ⟨h8, ?_, ?_, ?_⟩
    · have : (ofPB t'.ParserBuffer).cfg = (ofPB t.ParserBuffer).cfg := by rw [hbuf]
      exact this.trans h.cfg
    · have e1 : (ofPB t'.ParserBuffer).data = (ofPB t.ParserBuffer).data := by rw [hbuf]
      have e2 := congrArg List.length e1
      have d1 : (ofPB t'.ParserBuffer).data.length = t'.ParserBuffer.Data.len := data_length h8.pb.data
      have d2 := h.dataLen
      have := h.len
      omega
    · have hc := h.cap
      unfold PBuf.CapOK at hc ⊢
      rw [hbuf]; exact hc
  · have hmap : List.map (ofSeq ∘ seqRep) b.seqs = b.seqs := by
      conv => rhs; rw [← List.map_id b.seqs]
      apply List.map_congr_left
      intro q hq
      obtain ⟨g1, g2, g3, g4⟩ := f4 q hq
      exact ofSeq_seqRep q (by omega) (by omega) (by omega) g4
    unfold ofBlock
    rw [h5, h6, List.map_map, hmap]

/-! ## init -/

/-- what `GSAPConfig.Verify() == nil` says -/
theorem verify_facts (c : Gen.GSAPConfig) (h : GSAPConfig_Verify c = Gen.Err.ok) :
    BufConfig_Verify ⟨c.ShrinkSize, c.BufferSize, c.WindowSize, c.BlockSize⟩ = Gen.Err.ok ∧ 2 ≤ c.MinMatchLen ∧
      c.MinMatchLen ≤ c.WindowSize ∧ c.WindowSize ≤ 2147483647 ∧ c.BufferSize ≤ 2147483647 := by
  -- through the tie `gen_verify_GSAP` and the model's `verify`: the text of `GSAPConfig.Verify` is not looked at here
  have hv := (gen_verify_GSAP c).mp h
  simp only [verify, Bool.and_eq_true, decide_eq_true_eq] at hv
  obtain ⟨⟨⟨⟨hb, hm2⟩, hmw⟩, hw⟩, hbuf⟩ := hv
  exact ⟨(gen_bufVerify _).mpr hb, hm2, hmw, hw, hbuf⟩

/-- the buffer part of `GSAPConfig.SetDefaults` is `BufConfig.SetDefaults` of the buffer part -/
theorem sd_buf (cfg : Gen.GSAPConfig) :
    (⟨(GSAPConfig_SetDefaults cfg).ShrinkSize, (GSAPConfig_SetDefaults cfg).BufferSize,
      (GSAPConfig_SetDefaults cfg).WindowSize, (GSAPConfig_SetDefaults cfg).BlockSize⟩ : Gen.BufConfig) =
    BufConfig_SetDefaults ⟨cfg.ShrinkSize, cfg.BufferSize, cfg.WindowSize, cfg.BlockSize⟩ := by
  simp only [GSAPConfig_SetDefaults]
  split <;> rfl

theorem bswf_default : BSWF (default : Gen.gsap).bits := by
  unfold BSWF GWF; exact ⟨Nat.le_refl _, Int.le_refl _⟩

/-- `gsap.init(cfg)` on `new(gsap)`, configuration accepted -/
theorem init_ok (cfg : Gen.GSAPConfig) (hv : GSAPConfig_Verify (GSAPConfig_SetDefaults cfg) = Gen.Err.ok) :
    ∃ s', gsap_init default cfg = Res.ok (s', Gen.Err.ok) ∧
      ofPB s'.ParserBuffer = PBuf.init (ofGSAP (GSAPConfig_SetDefaults cfg)).bufCfg ∧ PBWF s'.ParserBuffer ∧
      s'.GSAPConfig = GSAPConfig_SetDefaults cfg ∧ s'.sa.len = 0 ∧ GWF s'.sa ∧ GWF s'.isa ∧ BSWF s'.bits ∧
      GSim GsapD.empty (ofGW s') := by
  obtain ⟨hvb, -⟩ := verify_facts _ hv
  rw [sd_buf] at hvb
  obtain ⟨-, hgood⟩ := gen_gsap_init default bswf_default cfg
  obtain ⟨b', hof, hwf, -, hok⟩ := hgood hvb
  obtain ⟨s', h1, h2, h3, h4, h5, h6, h7, h8, h9⟩ := hok hv
  refine ⟨s', h1, ?_, by rw [h2]; exact hwf, h3, h5, h7, h8, h9, ?_⟩
  · rw [h2, hof, ← sd_buf]; rfl
  · rw [h4]; exact ⟨rfl, rfl, BitsSim.clear_empty (winv_of_bswf bswf_default)⟩

/-- `gsap.init(cfg)` on `new(gsap)`, configuration rejected: an error is returned -/
theorem init_bad (cfg : Gen.GSAPConfig) (hv : GSAPConfig_Verify (GSAPConfig_SetDefaults cfg) ≠ Gen.Err.ok) :
    ∃ s' e, gsap_init default cfg = Res.ok (s', e) ∧ e ≠ Gen.Err.ok := by
  obtain ⟨hbad, hgood⟩ := gen_gsap_init default bswf_default cfg
  by_cases hvb : BufConfig_Verify (BufConfig_SetDefaults ⟨cfg.ShrinkSize, cfg.BufferSize, cfg.WindowSize, cfg.BlockSize⟩)
      = Gen.Err.ok
  · obtain ⟨b', -, -, hne, -⟩ := hgood hvb
    exact ⟨_, _, hne hv, hv⟩
  · exact ⟨_, _, hbad hvb, hvb⟩

/-- the model's `NewParser` for GSAP in terms of the translated `SetDefaults` / `Verify` -/
theorem newParser_gsap (raw : Cfg) :
    newParser .GSAP raw =
      if GSAPConfig_Verify (GSAPConfig_SetDefaults (toGSAP raw)) = Gen.Err.ok then
        some { kind := .GSAP, cfg := ofGSAP (GSAPConfig_SetDefaults (toGSAP raw)),
               buf := PBuf.init (ofGSAP (GSAPConfig_SetDefaults (toGSAP raw))).bufCfg, dict := .gsap GsapD.empty }
      else none := by
  have hc : setDefaults .GSAP (raw.restrict .GSAP) = ofGSAP (GSAPConfig_SetDefaults (toGSAP raw)) := by
    rw [gen_setDefaults_GSAP, ofGSAP_toGSAP]
  have hv := gen_verify_GSAP (GSAPConfig_SetDefaults (toGSAP raw))
  unfold newParser
  simp only [hc]
  by_cases hok : GSAPConfig_Verify (GSAPConfig_SetDefaults (toGSAP raw)) = Gen.Err.ok
  · rw [if_pos hok, if_pos (hv.mp hok)]; rfl
  · rw [if_neg hok, if_neg (fun c => hok (hv.mpr c))]

/-- the invariants of a freshly initialised Go `gsap` -/
theorem init_parseOK_aux (c' : Gen.GSAPConfig) (hv : GSAPConfig_Verify c' = Gen.Err.ok) (s' : Gen.gsap)
    (hof : ofPB s'.ParserBuffer = PBuf.init (ofGSAP c').bufCfg) (hwf : PBWF s'.ParserBuffer)
    (hcf : s'.GSAPConfig = c') (hsa : s'.sa.len = 0) (wsa : GWF s'.sa) (wisa : GWF s'.isa) (wbits : BSWF s'.bits) :
    ParseOKG s' ∧ BCOKG (ofGSAP c').bufCfg ∧ HistOKG (ofGSAP c').bufCfg s' := by
  obtain ⟨hvb, m2, mw, wmax, bmax⟩ := verify_facts _ hv
  have hbv := (gen_bufVerify _).mp hvb
  rw [bufVerify_iff] at hbv
  obtain ⟨⟨b1, b2⟩, ⟨s1, s2⟩, ⟨w1, w2⟩, ⟨l1, l2⟩⟩ := hbv
  simp only [ofBuf] at b1 b2 s1 s2 w1 w2 l1 l2
  have hws : s'.ParserBuffer.BufConfig.WindowSize.toNat = c'.WindowSize.toNat :=
    congrArg (fun b => b.cfg.windowSize) hof
  have hbl : s'.ParserBuffer.BufConfig.BlockSize.toNat = c'.BlockSize.toNat :=
    congrArg (fun b => b.cfg.blockSize) hof
  have hw : s'.ParserBuffer.W.toNat = 0 := congrArg PBuf.w hof
  have hd : s'.ParserBuffer.Data.data = [] := congrArg PBuf.data hof
  have hlen : s'.ParserBuffer.Data.len = 0 := by
    have := data_length hwf.data
    rw [hd] at this; exact this.symm
  have hw0 := hwf.w
  have hP : ParseOKG s' :=
    ⟨hwf, wsa, wisa, wbits, by rw [hcf, hws], by rw [hcf, hbl], by rw [hcf]; omega, by rw [hcf]; omega,
      by rw [hcf]; omega, by rw [hlen]; omega, by rw [hlen]; omega, Or.inl hsa⟩
  refine ⟨hP, ⟨?_, ?_⟩, hP, ?_, ?_, ?_⟩
  · show c'.BufferSize.toNat ≤ _; omega
  · show c'.WindowSize.toNat ≤ _; omega
  · exact congrArg PBuf.cfg hof
  · rw [hlen]; exact Nat.zero_le _
  · left; exact congrArg PBuf.data hof

/-- **`gen_gsap_init_parseOK`**: for EVERY configuration the model's `NewParser` accepts, the translated `gsap.init` on
    `new(gsap)` returns `nil`, the Go state abstracts to the model's fresh parser (with the empty rank array, which
    stands for the cleared Go bitset), and the bundle `ParseOKG` holds. -/
theorem gen_gsap_init_parseOK (raw : Cfg) (p : Parser) (hp : newParser .GSAP raw = some p) :
    ∃ s', gsap_init default (toGSAP raw) = Res.ok (s', Gen.Err.ok) ∧ ofGSAPs s' GsapD.empty = p ∧
      GSim GsapD.empty (ofGW s') ∧ ParseOKG s' := by
  rw [newParser_gsap] at hp
  by_cases hv : GSAPConfig_Verify (GSAPConfig_SetDefaults (toGSAP raw)) = Gen.Err.ok
  · rw [if_pos hv] at hp
    simp only [Option.some.injEq] at hp
    obtain ⟨s', h1, h2, h3, h4, h5, h6, h7, h8, h9⟩ := init_ok (toGSAP raw) hv
    refine ⟨s', h1, ?_, h9, (init_parseOK_aux _ hv s' h2 h3 h4 h5 h6 h7 h8).1⟩
    rw [← hp]
    show ({ kind := .GSAP, cfg := ofGSAP s'.GSAPConfig, buf := ofPB s'.ParserBuffer, dict := .gsap GsapD.empty } : Parser) = _
    rw [h2, h4]
  · rw [if_neg hv] at hp; cases hp

/-- `gsap.init(cfg)` on `new(gsap)`: if it returns `nil`, the configuration is one the model's `NewParser` accepts, the
    Go state abstracts to the model's fresh parser, and `HistOKG` holds for its buffer configuration -/
theorem hist_init (cfg : Gen.GSAPConfig) (s0 : Gen.gsap)
    (hinit : gsap_init default cfg = Res.ok (s0, Gen.Err.ok)) :
    ∃ p, newParser .GSAP (ofGSAP cfg) = some p ∧ ofGSAPs s0 GsapD.empty = p ∧ GSim GsapD.empty (ofGW s0) ∧
      BCOKG p.buf.cfg ∧ HistOKG p.buf.cfg s0 := by
  by_cases hv : GSAPConfig_Verify (GSAPConfig_SetDefaults cfg) = Gen.Err.ok
  · obtain ⟨s', h1, h2, h3, h4, h5, h6, h7, h8, h9⟩ := init_ok cfg hv
    rw [hinit] at h1
    injection h1 with h1
    injection h1 with h1 _
    subst h1
    obtain ⟨a1, a2, a3⟩ := init_parseOK_aux _ hv s0 h2 h3 h4 h5 h6 h7 h8
    refine ⟨_, ?_, rfl, h9, ?_, ?_⟩
    · rw [newParser_gsap, toGSAP_ofGSAP, if_pos hv]
      show _ = some ({ kind := .GSAP, cfg := ofGSAP s0.GSAPConfig, buf := ofPB s0.ParserBuffer, dict := .gsap GsapD.empty } : Parser)
      rw [h2, h4]
    · show BCOKG (ofPB s0.ParserBuffer).cfg
      rw [h2]; exact a2
    · show HistOKG (ofPB s0.ParserBuffer).cfg s0
      rw [h2]; exact a3
  · obtain ⟨s', e, h1, h2⟩ := init_bad cfg hv
    rw [hinit] at h1
    injection h1 with h1
    injection h1 with _ h1
    exact absurd h1.symm h2

end LZ.GenGSAPHist

#print axioms LZ.GenGSAPHist.hist_write
#print axioms LZ.GenGSAPHist.hist_readFrom
#print axioms LZ.GenGSAPHist.hist_shrink
#print axioms LZ.GenGSAPHist.hist_reset
#print axioms LZ.GenGSAPHist.hist_parse
#print axioms LZ.GenGSAPHist.gen_gsap_init_parseOK
#print axioms LZ.GenGSAPHist.hist_init
