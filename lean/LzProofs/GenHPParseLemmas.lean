/-
  LzProofs.GenHPParseLemmas — helper lemmas for LzProofs/GenHPParse.lean (translated hp.go `Parse`
  versus `ProbeW.parseW`): slice expressions and `_getLE64` loads on slice VALUES versus the list-level
  Go accesses of LzModel/BytesW.lean, the table abstraction `ofHashT` under `table[h] = e` / `table[h]`,
  the re-indexing loops (`processSegment` loop, loop_3 of Parse) versus `ProbeW.insertRangeW`, the
  match extension loop (loop_2 of Parse) versus `BytesW.matchExtLoop`.
  Loop lemmas are stated over the generated loop functions and proved from their defining equations.
-/
import LzProofs.GenHPParseLemmasBytes
import LzProofs.ProbeW
import LzProofs.GenHashPropsDict
import LzProofs.GenPropsHash

set_option linter.unusedSimpArgs false
set_option linter.unusedVariables false

namespace LZ.GenHPParse
open LZ LZ.Gen LZ.GenBuf LZ.GenHash

/-- `omega` after normalising the `Int.ofNat n` of the generated text to `↑n` -/
macro "int_omega" : tactic => `(tactic| ((try simp only [Int.ofNat_eq_natCast] at *); omega))

/-- continuation style: `Res.bind a f = r` from `a = Res.ok v` and `f v = r` -/
theorem bind_trans {α β : Type} {a : Res α} {v : α} {f : α → Res β} {r : Res β}
    (h1 : a = Res.ok v) (h2 : f v = r) : Res.bind a f = r := by rw [h1]; exact h2

/-! ## clamps: every spelling of `if x ⋚ y then … else …` that computes a minimum or maximum, as `min` / `max`
    (`>`/`≥` are `<`/`≤` with the operands exchanged; simp sees through that) -/

theorem ite_lt_min (x y : Int) : (if x < y then x else y) = Min.min x y := by split <;> omega
theorem ite_le_min (x y : Int) : (if x ≤ y then x else y) = Min.min x y := by split <;> omega
theorem ite_lt_max (x y : Int) : (if x < y then y else x) = Max.max x y := by split <;> omega
theorem ite_le_max (x y : Int) : (if x ≤ y then y else x) = Max.max x y := by split <;> omega

/-! ## slice expressions -/

theorem slice_okI (s : Slice) (a b : Int) (i j : Nat) (ha : a = (i : Int)) (hb : b = (j : Int))
    (hij : i ≤ j) (hj : j ≤ s.arr.length) :
    Slice.slice s a b = Res.ok { arr := s.arr.drop i, len := j - i } := by
  subst ha hb; exact slice_ok s i j hij hj

theorem data_mk (arr : List UInt8) (len : Nat) : ({ arr := arr, len := len } : Slice).data = arr.take len := rfl

theorem data_drop (arr : List UInt8) (len i : Nat) :
    ({ arr := arr.drop i, len := len - i } : Slice).data = (arr.take len).drop i := by
  simp only [Slice.data, List.drop_take]

theorem swf_drop (arr : List UInt8) (len i : Nat) (h : len ≤ arr.length) :
    SWF { arr := arr.drop i, len := len - i } := by
  unfold SWF; simp only [List.length_drop]; omega

/-- `_getLE64(_p[a:])` for a position with 8 bytes inside `_p`: no panic; the value is the one of the
    list-level access `le64 (sliceFrom _p a)` -/
theorem gen_load_ok (_p : Slice) (h : SWF _p) (a : Int) (i : Nat) (ha : a = (i : Int)) (hi : i + 8 ≤ _p.len) :
    ∃ y, (BytesW.sliceFrom _p.data i).bind BytesW.le64 = some y ∧
      ∀ {β : Type} (F : UInt64 → Res β),
        Res.bind (Slice.slice _p a (Int.ofNat _p.len)) (fun t => Res.bind (Gen._getLE64 t) F) = F y := by
  have hlen : _p.data.length = _p.len := data_length h
  have h' : _p.len ≤ _p.arr.length := h
  have h8 : 8 ≤ (_p.data.drop i).length := by rw [List.length_drop, hlen]; omega
  refine ⟨BytesW.getLE64 (_p.data.drop i), ?_, ?_⟩
  · rw [BytesW.sliceFrom_eq_some _ _ (by omega)]
    exact BytesW.le64_eq_some _ h8
  · intro β F
    rw [slice_okI _p a (Int.ofNat _p.len) i _p.len ha rfl (by omega) h', bind_ok,
      gen_le64 _ (swf_drop _ _ _ h'), data_drop]
    show Res.bind (ofOpt (BytesW.le64 (_p.data.drop i))) F = _
    rw [BytesW.le64_eq_some _ h8]
    rfl

/-! ## the table -/

/-- the parser state with another table (the only thing the loops of `Parse` change besides `W`) -/
@[reducible] def setT (s : Gen.hashParser) (t : GSlice hashEntry) : Gen.hashParser :=
  { s with hashDictionary := { s.hashDictionary with hash := { s.hashDictionary.hash with table := t } } }

/-- the model table a Go `hash` with table `t` stands for -/
def ofHashT (g : Gen.hash) (t : GSlice hashEntry) : HashT := ofHash { g with table := t }

theorem ofHashT_self (g : Gen.hash) : ofHashT g g.table = ofHash g := rfl

theorem ofHashT_inputLen (g : Gen.hash) (t : GSlice hashEntry) : (ofHashT g t).inputLen = g.inputLen.toNat := rfl
theorem ofHashT_hashBits (g : Gen.hash) (t : GSlice hashEntry) : (ofHashT g t).hashBits = 64 - g.shift.toNat := rfl

/-- `t[idx] = e` on the table value -/
@[reducible] def tset (t : GSlice hashEntry) (idx : Nat) (e : hashEntry) : GSlice hashEntry :=
  { t with arr := t.arr.set idx e }

theorem ofHashT_set (g : Gen.hash) (t : GSlice hashEntry) (idx : Nat) (e : hashEntry) :
    ofHashT g (tset t idx e) =
      { ofHashT g t with tbl := (ofHashT g t).tbl.setIfInBounds idx (ofEntry e) } := by
  unfold ofHashT ofHash
  simp only [GSlice.data, List.take_set, List.map_set, List.setIfInBounds_toArray]

theorem ofHashT_get (g : Gen.hash) (t : GSlice hashEntry) (ht : GWF t) (idx : Nat) (hidx : idx < t.len) :
    (ofHashT g t).tbl.getD idx (0, 0) = ofEntry ((t.arr[idx]?).getD zeroE) := by
  unfold ofHashT ofHash
  have h' : idx < t.arr.length := by unfold GWF at ht; omega
  simp [GSlice.data, List.getElem?_take, hidx, h']

theorem gwf_set (t : GSlice hashEntry) (ht : GWF t) (idx : Nat) (e : hashEntry) :
    GWF ({ t with arr := t.arr.set idx e } : GSlice hashEntry) := by
  unfold GWF at *; simpa using ht

/-- `hashValue(x, shift)` of the translation is the model's `hashValue x hashBits` and lies inside a table
    of `2^hashBits` entries, for `32 ≤ shift ≤ 64` (`hashBits ≤ 32`; `Verify` enforces `≤ 24`) -/
theorem gen_hashValue_shift (x : UInt64) (shift : UInt64) (h1 : 32 ≤ shift.toNat) (h2 : shift.toNat ≤ 64) :
    (Gen.hashValue x shift).toNat = LZ.hashValue x (64 - shift.toNat) ∧
      LZ.hashValue x (64 - shift.toNat) < 2 ^ (64 - shift.toNat) := by
  have e : shift = 64 - UInt64.ofNat (64 - shift.toNat) := by
    rw [GenProps.shift_eq _ (by omega)]
    apply UInt64.toNat_inj.mp
    simp only [UInt64.toNat_ofNat']
    rw [Nat.mod_eq_of_lt (by omega)]; omega
  refine ⟨?_, GenProps.hashValue_lt x _ (by omega)⟩
  conv => lhs; rw [e]
  exact GenProps.gen_hashValue x (64 - shift.toNat) (by omega)

theorem toNat_ofInt32 (n : Nat) (a : Int) (ha : a = (n : Int)) (h : n < 4294967296) : (UInt32.ofInt a).toNat = n := by
  subst ha; exact toNat_ofInt32_small n (by omega)


/-! ## one table insertion: `x := _getLE64(_p[j:]) & mask; table[hashValue(x, shift)] = hashEntry{uint32(j), uint32(x)}` -/

/-- what the loops need to know about the fixed part of the Go `hash` value and the resliced buffer `_p`
    (stated over the three scalar fields so that it does not mention the table) -/
structure TCtx (mask shift : UInt64) (inputLen : Int) (_p : Slice) : Prop where
  swf : SWF _p
  mask : mask = maskOf inputLen.toNat
  sh1 : 32 ≤ shift.toNat
  sh2 : shift.toNat ≤ 64
  small : _p.len < 4294967296 + 8

/-- the table invariant: `len ≤ cap`, `len = 2^hashBits` -/
def TOK (shift : UInt64) (t : GSlice hashEntry) : Prop := GWF t ∧ t.len = 2 ^ (64 - shift.toNat)

theorem lo32_eq (x : UInt64) : x.toUInt32.toNat = lo32 x := by
  rw [UInt64.toNat_toUInt32]; rfl

theorem insert_step (g : Gen.hash) (_p : Slice) (c : TCtx g.mask g.shift g.inputLen _p)
    (t : GSlice hashEntry) (ht : TOK g.shift t) (a : Int) (j : Nat) (ha : a = (j : Int)) (hj : j + 8 ≤ _p.len) :
    ∃ y t', (BytesW.sliceFrom _p.data j).bind BytesW.le64 = some y ∧
      (∀ {β : Type} (F : UInt64 → Res β),
        Res.bind (Slice.slice _p a (Int.ofNat _p.len)) (fun u => Res.bind (Gen._getLE64 u) F) = F y) ∧
      GSlice.set t (Int.ofNat (Gen.hashValue (y &&& g.mask) g.shift).toNat)
        ({ pos := UInt32.ofInt a, value := (y &&& g.mask).toUInt32 } : hashEntry) = Res.ok t' ∧
      TOK g.shift t' ∧ ProbeW.insertW (ofHashT g t) _p.data j = some (ofHashT g t') := by
  obtain ⟨y, hy, hF⟩ := gen_load_ok _p c.swf a j ha hj
  obtain ⟨hv, hlt⟩ := gen_hashValue_shift (y &&& g.mask) g.shift c.sh1 c.sh2
  have hs := c.small
  refine ⟨y, _, hy, hF, gset_ok t _ _ rfl (by rw [hv, ht.2]; exact hlt) _, ⟨gwf_set t ht.1 _ _, ht.2⟩, ?_⟩
  unfold ProbeW.insertW ProbeW.loadKey
  simp only [Option.bind_eq_bind, Option.pure_def] at hy ⊢
  cases hsf : BytesW.sliceFrom _p.data j with
  | none => rw [hsf] at hy; cases hy
  | some l =>
    rw [hsf, Option.bind_some] at hy
    simp only [Option.bind_some, hy]
    rw [ofHashT_set, hv]
    simp only [ofHashT_inputLen, ofHashT_hashBits, c.mask, ofEntry, lo32_eq,
      toNat_ofInt32 j a ha (by omega)]

/-! ## the re-indexing loops versus `insertRangeW` -/

/-! The generated loop functions that the main loop of `hashParser.Parse` calls are NAMED HERE AND NOWHERE ELSE in
    the proofs (`rehashLoop`: `for j = i + 1; j < b; j++ { … }`, `extLoop`: `for len(q) >= 8 { … goto match … }`).
    The lemmas about them (`loop3_eq`, `loop2_eq`) and the two lines of `loop1_step` that instantiate these lemmas
    are the only things that depend on which generated function is which; when the translator renumbers the loop
    functions, this line is the only one to change. -/
open LZ.Gen renaming hashParser_Parse_loop_3 → rehashLoop, hashParser_Parse_loop_2 → extLoop

/-- the re-indexing loop of `Parse` (`for j = i + 1; j < b; j++ { … }`): spec of the generated loop function,
    for every bound `b` with `n = b - a` iterations and whatever the two dead parameters `x`, `h` are -/
theorem loop3_eq (grow : Nat → Nat → Nat) (_p : Slice) :
    ∀ (n fuel j : Nat) (s : Gen.hashParser), n < fuel →
      (n = 0 ∨ j + n + 7 ≤ _p.len) →
      TCtx s.hashDictionary.hash.mask s.hashDictionary.hash.shift s.hashDictionary.hash.inputLen _p →
      TOK s.hashDictionary.hash.shift s.hashDictionary.hash.table →
      ∃ t', TOK s.hashDictionary.hash.shift t' ∧
        ProbeW.insertRangeW (ofHash s.hashDictionary.hash) _p.data j n = some (ofHashT s.hashDictionary.hash t') ∧
        ∀ (a b : Int) (x : UInt64) (h : UInt32), a = (j : Int) → n = (b - a).toNat →
          rehashLoop grow b x _p h fuel a s = Res.ok (((j + n : Nat) : Int), setT s t') := by
  intro n
  induction n with
  | zero =>
    intro fuel j s hf _ c ht
    obtain ⟨f, rfl⟩ : ∃ f, fuel = f + 1 := ⟨fuel - 1, by omega⟩
    refine ⟨s.hashDictionary.hash.table, ht, rfl, ?_⟩
    intro a b x h ha hb
    rw [rehashLoop]
    split
    all_goals first
      | (exfalso; omega)
      | (rw [ha]; rfl)
  | succ n ih =>
    intro fuel j s hf hn c ht
    obtain ⟨f, rfl⟩ : ∃ f, fuel = f + 1 := ⟨fuel - 1, by omega⟩
    obtain ⟨y, t1, hy, hF, hset, ht1, hins⟩ := insert_step s.hashDictionary.hash _p c _ ht (j : Int) j rfl (by omega)
    obtain ⟨t2, ht2, hr, hl⟩ := ih f (j + 1) (setT s t1) (by omega) (by omega) c ht1
    refine ⟨t2, ht2, ?_, ?_⟩
    · unfold ProbeW.insertRangeW
      simp only [Option.bind_eq_bind]
      rw [show ofHash s.hashDictionary.hash = ofHashT s.hashDictionary.hash s.hashDictionary.hash.table from rfl,
        hins, Option.bind_some]
      exact hr
    · intro a b x h ha hb
      subst ha
      have hl' := hl ((j : Int) + 1) b x h (by omega) (by omega)
      rw [show j + 1 + n = j + (n + 1) by omega] at hl'
      rw [rehashLoop]
      split
      all_goals first
        | (exfalso; omega)
        | (rw [hF]; dsimp only; rw [hset, bind_ok]; exact hl')

/-- the table of a `hashDictionary` replaced -/
@[reducible] def setD (f : Gen.hashDictionary) (t : GSlice hashEntry) : Gen.hashDictionary :=
  { f with hash := { f.hash with table := t } }

/-- the loop of `processSegment` (`for i := a; i < b; i++ { … }`), for every bound `b` with `n = b - a` iterations -/
theorem psegLoop_eq (_p : Slice) :
    ∀ (n fuel j : Nat) (f : Gen.hashDictionary), n < fuel →
      (n = 0 ∨ j + n + 7 ≤ _p.len) →
      TCtx f.hash.mask f.hash.shift f.hash.inputLen _p →
      TOK f.hash.shift f.hash.table →
      ∃ t', TOK f.hash.shift t' ∧
        ProbeW.insertRangeW (ofHash f.hash) _p.data j n = some (ofHashT f.hash t') ∧
        ∀ (a b : Int), a = (j : Int) → n = (b - a).toNat →
          hashDictionary_processSegment_loop_1 b _p fuel a f = Res.ok (((j + n : Nat) : Int), setD f t') := by
  intro n
  induction n with
  | zero =>
    intro fuel j f hf _ c ht
    obtain ⟨fu, rfl⟩ : ∃ fu, fuel = fu + 1 := ⟨fuel - 1, by omega⟩
    refine ⟨f.hash.table, ht, rfl, ?_⟩
    intro a b ha hb
    rw [hashDictionary_processSegment_loop_1]
    split
    all_goals first
      | (exfalso; omega)
      | (rw [ha]; rfl)
  | succ n ih =>
    intro fuel j f hf hn c ht
    obtain ⟨fu, rfl⟩ : ∃ fu, fuel = fu + 1 := ⟨fuel - 1, by omega⟩
    obtain ⟨y, t1, hy, hF, hset, ht1, hins⟩ := insert_step f.hash _p c _ ht (j : Int) j rfl (by omega)
    obtain ⟨t2, ht2, hr, hl⟩ := ih fu (j + 1) (setD f t1) (by omega) (by omega) c ht1
    refine ⟨t2, ht2, ?_, ?_⟩
    · unfold ProbeW.insertRangeW
      simp only [Option.bind_eq_bind]
      rw [show ofHash f.hash = ofHashT f.hash f.hash.table from rfl, hins, Option.bind_some]
      exact hr
    · intro a b ha hb
      subst ha
      have hl' := hl ((j : Int) + 1) b (by omega) (by omega)
      rw [show j + 1 + n = j + (n + 1) by omega] at hl'
      rw [hashDictionary_processSegment_loop_1]
      split
      all_goals first
        | (exfalso; omega)
        | (rw [hF]; dsimp only; rw [hset, bind_ok]; exact hl')


theorem take_append_drop_data (d : Slice) : d.data ++ d.arr.drop d.len = d.arr := by
  unfold Slice.data; exact List.take_append_drop _ _

/-- **`processSegment(a, b)`** of hash.go, translated, versus `ProbeW.processSegment1W` on the elements of
    `f.Data` and the stale bytes behind them: same panic (the reslice `f.Data[:b+7]`), same table -/
theorem gen_processSegment (fuel : Nat) (f : Gen.hashDictionary) (a b : Int)
    (hD : SWF f.ParserBuffer.Data) (hil : 0 ≤ f.hash.inputLen)
    (hmask : f.hash.mask = maskOf f.hash.inputLen.toNat) (sh1 : 32 ≤ f.hash.shift.toNat)
    (sh2 : f.hash.shift.toNat ≤ 64) (ht : TOK f.hash.shift f.hash.table)
    (hsmall : f.ParserBuffer.Data.len < 4294967296) (hfuel : f.ParserBuffer.Data.len + 2 ≤ fuel) :
    match ProbeW.processSegment1W (ofHash f.hash) f.ParserBuffer.Data.data
        (f.ParserBuffer.Data.arr.drop f.ParserBuffer.Data.len) a b with
    | none => hashDictionary_processSegment fuel f a b = Res.panic
    | some h' => ∃ t', TOK f.hash.shift t' ∧ h' = ofHashT f.hash t' ∧
        hashDictionary_processSegment fuel f a b = Res.ok (setD f t') := by
  have hlen : f.ParserBuffer.Data.data.length = f.ParserBuffer.Data.len := data_length hD
  have hD' : f.ParserBuffer.Data.len ≤ f.ParserBuffer.Data.arr.length := hD
  -- the model side first (the Go function stays folded): its `a'`, `b'` as integers characterised for omega
  unfold ProbeW.processSegment1W
  simp only [Option.bind_eq_bind]
  have hil' : (((ofHash f.hash).inputLen : Nat) : Int) = f.hash.inputLen := by
    show ((f.hash.inputLen.toNat : Nat) : Int) = _; omega
  rw [hlen, hil']
  obtain ⟨a', hae, ha'⟩ : ∃ a' : Int, (if a < 0 then 0 else a) = a' ∧ ((a < 0 ∧ a' = 0) ∨ (¬ a < 0 ∧ a' = a)) :=
    ⟨_, rfl, by split <;> omega⟩
  obtain ⟨b', hbe, hb'⟩ : ∃ b' : Int,
      (if (f.ParserBuffer.Data.len : Int) - f.hash.inputLen + 1 < b then (f.ParserBuffer.Data.len : Int) - f.hash.inputLen + 1 else b) = b' ∧
      (((f.ParserBuffer.Data.len : Int) - f.hash.inputLen + 1 < b ∧ b' = (f.ParserBuffer.Data.len : Int) - f.hash.inputLen + 1) ∨
       (¬ (f.ParserBuffer.Data.len : Int) - f.hash.inputLen + 1 < b ∧ b' = b)) :=
    ⟨_, rfl, by split <;> omega⟩
  rw [hae, hbe]
  clear hae hbe
  -- the Go side: unfold, split the `if`s as they come, every leaf is either contradictory or one of three cases
  by_cases hb0 : b' ≤ 0
  · rw [if_pos hb0]
    dsimp only
    refine ⟨f.hash.table, ht, rfl, ?_⟩
    unfold hashDictionary_processSegment
    dsimp only
    try simp only [gen_helper, LZ.GenProps.gen_min]
    repeat' split
    all_goals first
      | rfl
      | (exfalso; int_omega)
  rw [if_neg hb0]
  unfold BytesW.sliceTo
  rw [take_append_drop_data]
  -- whatever the spelling of the two clamps: in every leaf of the unfolded Go text the bounds are `a'`, `b'` (omega)
  by_cases hcap : b'.toNat + 7 ≤ f.ParserBuffer.Data.arr.length
  · rw [if_pos hcap, Option.bind_some]
    have c : TCtx f.hash.mask f.hash.shift f.hash.inputLen
        { arr := f.ParserBuffer.Data.arr, len := b'.toNat + 7 } :=
      ⟨hcap, hmask, sh1, sh2, by show b'.toNat + 7 < _; omega⟩
    obtain ⟨t', ht', hr, hl⟩ := psegLoop_eq { arr := f.ParserBuffer.Data.arr, len := b'.toNat + 7 }
      (b'.toNat - a'.toNat) fuel a'.toNat f (by omega)
      (by show _ ∨ _ ≤ b'.toNat + 7; omega) c ht
    rw [data_mk] at hr
    rw [hr]
    refine ⟨t', ht', rfl, ?_⟩
    unfold hashDictionary_processSegment
    dsimp only
    try simp only [gen_helper, LZ.GenProps.gen_min]
    repeat' split
    all_goals first
      | (exfalso; int_omega)
      | (refine bind_trans (slice_okI f.ParserBuffer.Data 0 _ 0 (b'.toNat + 7) rfl (by int_omega) (by omega) hcap) ?_
         simp only [List.drop_zero, Nat.sub_zero]
         exact bind_trans (hl _ _ (by int_omega) (by int_omega)) rfl)
  · rw [if_neg hcap]
    show hashDictionary_processSegment fuel f a b = Res.panic
    unfold hashDictionary_processSegment
    dsimp only
    try simp only [gen_helper, LZ.GenProps.gen_min]
    repeat' split
    all_goals first
      | (exfalso; int_omega)
      | (rw [slice_panic _ _ _ (by right; right; int_omega)]; rfl)


/-! ## the match extension loop (loop_2 of `Parse`, with `goto match` as exit code 1) -/

theorem matchExtLoop_lt (r q : List Byte) (k : Nat) (h : q.length < 8) :
    BytesW.matchExtLoop r q k = some (BytesW.matchExtTail r q k) := by
  rw [BytesW.matchExtLoop, dif_neg (by omega)]

theorem matchExtLoop_ge (r q : List Byte) (k : Nat) (h8 : 8 ≤ q.length) (hr : q.length ≤ r.length) :
    BytesW.matchExtLoop r q k =
      if BytesW.tz64 (BytesW.getLE64 r ^^^ BytesW.getLE64 q) >>> 3 < 8 then
        some (k + BytesW.tz64 (BytesW.getLE64 r ^^^ BytesW.getLE64 q) >>> 3)
      else BytesW.matchExtLoop (r.drop 8) (q.drop 8)
        (k + BytesW.tz64 (BytesW.getLE64 r ^^^ BytesW.getLE64 q) >>> 3) := by
  rw [BytesW.matchExtLoop, dif_pos h8]
  simp only [BytesW.le64_eq_some r (by omega), BytesW.le64_eq_some q h8,
    BytesW.sliceFrom_eq_some r 8 (by omega), bind, Option.bind, pure]

theorem data_drop' (r : Slice) (i : Nat) :
    ({ arr := r.arr.drop i, len := r.len - i } : Slice).data = r.data.drop i := data_drop r.arr r.len i

/-- the match extension loop `for len(q) >= 8 { … goto match … }`: spec of the generated loop function (`extLoop`),
    whatever its two dead parameters are -/
theorem loop2_eq :
    ∀ (m fuel kN : Nat) (k : Int) (r q : Slice), q.len < 8 * m → m ≤ fuel → k = (kN : Int) →
      SWF r → SWF q → q.len ≤ r.len →
      ∃ (e kN' : Nat) (r' q' : Slice),
        (∀ (grow : Nat → Nat → Nat) (x : UInt64), extLoop grow x fuel k r q = Res.ok (e, (kN' : Int), r', q')) ∧
        SWF r' ∧ SWF q' ∧
        ((e = 1 ∧ BytesW.matchExtLoop r.data q.data kN = some kN') ∨
         (e ≠ 1 ∧ BytesW.matchExtLoop r.data q.data kN = some (BytesW.matchExtTail r'.data q'.data kN'))) := by
  intro m
  induction m with
  | zero => intro fuel kN k r q h; omega
  | succ m ih =>
    intro fuel kN k r q hm hf hk hr hq hqr
    obtain ⟨f, rfl⟩ : ∃ f, fuel = f + 1 := ⟨fuel - 1, by omega⟩
    have hrl : r.data.length = r.len := data_length hr
    have hql : q.data.length = q.len := data_length hq
    have hr' : r.len ≤ r.arr.length := hr
    have hq' : q.len ≤ q.arr.length := hq
    subst hk
    by_cases h8 : 8 ≤ q.len
    · -- the two words, on both sides
      have e1 : Gen._getLE64 r = Res.ok (BytesW.getLE64 r.data) := by
        rw [gen_le64 r hr, BytesW.le64_eq_some _ (by omega)]; rfl
      have e2 : Gen._getLE64 q = Res.ok (BytesW.getLE64 q.data) := by
        rw [gen_le64 q hq, BytesW.le64_eq_some _ (by omega)]; rfl
      rw [matchExtLoop_ge _ _ _ (by omega) (by omega)]
      obtain ⟨b, hbdef⟩ : ∃ b, b = BytesW.tz64 (BytesW.getLE64 r.data ^^^ BytesW.getLE64 q.data) >>> 3 := ⟨_, rfl⟩
      rw [← hbdef]
      by_cases hb : b < 8
      · rw [if_pos hb]
        refine ⟨1, kN + b, r, q, ?_, hr, hq, Or.inl ⟨rfl, rfl⟩⟩
        intro grow x
        rw [extLoop]
        split
        all_goals first
          | (exfalso; int_omega)
          | (rw [e1, bind_ok, e2, bind_ok]
             simp only [tz_shr, ← hbdef]
             split
             all_goals first
               | (exfalso; int_omega)
               | rfl)
      · rw [if_neg hb]
        obtain ⟨e, kN', r', q', hl, h1, h2, h3⟩ := ih f (kN + b) ((kN : Int) + (b : Int))
          { arr := r.arr.drop 8, len := r.len - 8 } { arr := q.arr.drop 8, len := q.len - 8 }
          (by show q.len - 8 < _; omega) (by omega) rfl (swf_drop _ _ _ hr') (swf_drop _ _ _ hq')
          (by show q.len - 8 ≤ r.len - 8; omega)
        rw [data_drop', data_drop'] at h3
        refine ⟨e, kN', r', q', ?_, h1, h2, h3⟩
        intro grow x
        rw [extLoop]
        split
        all_goals first
          | (exfalso; int_omega)
          | (rw [e1, bind_ok, e2, bind_ok]
             simp only [tz_shr, ← hbdef]
             split
             all_goals first
               | (exfalso; int_omega)
               | (refine bind_trans (slice_okI r 8 _ 8 r.len rfl rfl (by omega) hr') ?_
                  refine bind_trans (slice_okI q 8 _ 8 q.len rfl rfl (by omega) hq') ?_
                  exact hl grow x))
    · rw [matchExtLoop_lt _ _ _ (by omega)]
      refine ⟨0, kN, r, q, ?_, hr, hq, Or.inr ⟨by decide, rfl⟩⟩
      intro grow x
      rw [extLoop]
      split
      all_goals first
        | (exfalso; int_omega)
        | rfl

/-- the value of `BytesW.matchExtTail` for a non-empty `q`, with the clamp as a `min` (for omega) -/
theorem tail_min (r q : List Byte) (kN : Nat) (hq : q.length > 0) :
    ((BytesW.matchExtTail r q kN : Nat) : Int) =
      (kN : Int) + ((Min.min (BytesW.tz64 (BytesW.getLE64 r ^^^ BytesW.getLE64 q) >>> 3) q.length : Nat) : Int) := by
  unfold BytesW.matchExtTail
  rw [if_pos hq]
  simp only []
  split <;> omega

/-- `getLE64(r)^getLE64(q)` tail of the match extension, as an equation between the Go `int` value and
    `BytesW.matchExtTail` (the `if len(q) > 0` is decided by the caller) -/
theorem tail_val (r q : List Byte) (kN : Nat) (hq : q.length > 0) :
    ((kN : Int) + (if ((BytesW.tz64 (BytesW.getLE64 r ^^^ BytesW.getLE64 q) >>> 3 : Nat) : Int) > (q.length : Int)
        then (q.length : Int) else ((BytesW.tz64 (BytesW.getLE64 r ^^^ BytesW.getLE64 q) >>> 3 : Nat) : Int))) =
      ((BytesW.matchExtTail r q kN : Nat) : Int) := by
  unfold BytesW.matchExtTail
  rw [if_pos hq]
  simp only []
  split <;> split <;> omega

end LZ.GenHPParse

#print axioms LZ.GenHPParse.gen_load_ok
#print axioms LZ.GenHPParse.insert_step
#print axioms LZ.GenHPParse.loop3_eq
#print axioms LZ.GenHPParse.psegLoop_eq
#print axioms LZ.GenHPParse.gen_processSegment
#print axioms LZ.GenHPParse.loop2_eq
