/-
  LzProofs.GenBUPParse — the translated `(*bucketParser).Parse` of bup.go (topic BUPParse of tools/extract,
  code_lend.go; LzModel/Generated/CodeBUPParse.lean) equals the word-level model `ProbeW.parseW` for kind BUP
  (`processSegmentBW`, `bupProbeW`, `bupScanW`): panic iff `parseW = none`; same `n`, error, sequences, literals,
  new state; stale bytes unchanged; explicit fuel `len(Data) + 3`; the invariant bundle `ParseOKU` is preserved.

  Translated: `Parse` with `bucketDictionary.processSegment`, `bucketHash.add` (pointer alias eliminated at source
  level), `bucketHash.bucket` as a block-scoped READ-ONLY VIEW inlined at its range statement, `_getLE64`, `hashValue`.
  OPAQUE: `lcp` (bytes.go) under `LcpSpec lcp := ∀ p q, lcp p q = lcpLen p.data q.data` (what `BytesW.lcpW?_eq` proves
  of the word-level `lcp`) — as `lcs` for BHP / BDHP.  Topic assumption `blk != nil`.

    gen_bup_parse        translated Parse = ProbeW.parseW (kind BUP)
    gen_bup_parse_model  … = the list-level `Parser.parse` on reachable states, no panic
    gen_bup_parse_empty  nothing to parse ⇒ (0, ErrEmptyBuffer), every fuel
  No sorry, no axioms of its own.
-/
import LzProofs.GenBUPParseLoop
import LzProofs.GenHPParse
import LzProofs.GenPropsCfgBUP

set_option linter.unusedSimpArgs false
set_option linter.unusedVariables false

namespace LZ.GenBUPParse
open LZ LZ.Gen LZ.GenBuf LZ.GenHash LZ.GenHPParse LZ.GenParse LZ.GenProps

/-- the model parser state a Go `bucketParser` stands for -/
def ofBUPs (s : Gen.bucketParser) : Parser := ofBDict (ofBUP s.BUPConfig) s.bucketDictionary

/-- `n` of `Parse`: `min (len(s.Data) - s.W) s.BlockSize` in Go `int` arithmetic -/
def blockNU (s : Gen.bucketParser) : Int :=
  if (Int.ofNat s.bucketDictionary.ParserBuffer.Data.len) - s.bucketDictionary.ParserBuffer.W > s.BUPConfig.BlockSize then
    s.BUPConfig.BlockSize
  else
    (Int.ofNat s.bucketDictionary.ParserBuffer.Data.len) - s.bucketDictionary.ParserBuffer.W

/-- the bytes between `len(s.Data)` and `cap(s.Data)`: the `stale` argument of `ProbeW.parseW` -/
def staleOfU (s : Gen.bucketParser) : List UInt8 :=
  s.bucketDictionary.ParserBuffer.Data.arr.drop s.bucketDictionary.ParserBuffer.Data.len

theorem staleOfU_length (s : Gen.bucketParser)
    (h : s.bucketDictionary.ParserBuffer.Data.len ≤ s.bucketDictionary.ParserBuffer.Data.arr.length) :
    s.bucketDictionary.ParserBuffer.Data.data.length + (staleOfU s).length
      = s.bucketDictionary.ParserBuffer.Data.cap := by
  unfold staleOfU Slice.data Slice.cap
  rw [List.length_take, List.length_drop]
  omega

/-- nothing to parse ⇒ `(0, ErrEmptyBuffer)`, the block is emptied, the parser is unchanged; every `grow`, `fuel` -/
theorem gen_bup_parse_empty (grow : Nat → Nat → Nat) (fuel : Nat) (lcp : Slice → Slice → Int) (s : Gen.bucketParser)
    (blk : Gen.Block') (flags : Int) (h : blockNU s = 0) :
    bucketParser_Parse grow fuel lcp s blk flags = Res.ok (s, resetBlk blk, (0 : Int), ErrEmptyBuffer) := by
  have bind_ok : ∀ {α β : Type} (a : α) (f : α → Res β), Res.bind (Res.ok a) f = f a := fun _ _ => rfl
  have hs : Slice.slice blk.Literals 0 (0 : Int) = Res.ok { arr := blk.Literals.arr, len := 0 } := by
    unfold Slice.slice
    simp [Slice.cap]
  unfold blockNU at h
  unfold bucketParser_Parse bucketParser_Parse_nilable; simp only [Bool.false_eq_true]
  by_cases hgt : (Int.ofNat s.bucketDictionary.ParserBuffer.Data.len) - s.bucketDictionary.ParserBuffer.W > s.BUPConfig.BlockSize
  · have hB : s.BUPConfig.BlockSize = 0 := by simpa only [hgt, if_true] using h
    have hge : (Int.ofNat s.bucketDictionary.ParserBuffer.Data.len) - s.bucketDictionary.ParserBuffer.W ≥ s.BUPConfig.BlockSize := by
      omega
    simp only [hgt, hge, if_true, if_false, hs, bind_ok, resetBlk]
    simp only [hB, if_true]
  · have hL : (Int.ofNat s.bucketDictionary.ParserBuffer.Data.len) - s.bucketDictionary.ParserBuffer.W = 0 := by
      simpa only [hgt, if_false] using h
    by_cases hge : (Int.ofNat s.bucketDictionary.ParserBuffer.Data.len) - s.bucketDictionary.ParserBuffer.W ≥ s.BUPConfig.BlockSize
    · have hB : s.BUPConfig.BlockSize = 0 := by omega
      simp only [hgt, hge, if_true, if_false, hs, bind_ok, resetBlk]
      simp only [hB, hL, if_true]
    · simp only [hgt, hge, if_true, if_false, hs, bind_ok, resetBlk]
      simp only [hL, if_true]

/-- the hypotheses of `gen_bup_parse` on the Go state: the representation invariant `BDictWF`, the table invariant
    `BOK` (lengths `2^hashBits`, `2^hashBits·bucketSize`, ring indexes `< bucketSize`, `1 ≤ bucketSize ≤ 256`), the
    fields `BUPConfig` duplicates agree with the copies the model reads, `0 ≤ BlockSize`, `0 ≤ WindowSize`,
    `W ≤ len(Data)`, `1 ≤ inputLen`, the mask, `32 ≤ shift ≤ 64` (`hashBits ≤ 32`) and `len(Data) < 2^32`.  All hold
    after every API history (`Verify`: `2 ≤ InputLen ≤ 8`, `HashBits ≤ 23`, `1 ≤ BucketSize ≤ 128`,
    `BufferSize ≤ 2^32 - 8`); `Parse` preserves the bundle. -/
structure ParseOKU (s : Gen.bucketParser) : Prop where
  wf : BDictWF s.bucketDictionary
  bok : BOK s.bucketDictionary.bucketHash
  cws : s.BUPConfig.WindowSize.toNat = s.bucketDictionary.ParserBuffer.BufConfig.WindowSize.toNat
  cbs : s.BUPConfig.BlockSize.toNat = s.bucketDictionary.ParserBuffer.BufConfig.BlockSize.toNat
  cil : s.BUPConfig.InputLen.toNat = s.bucketDictionary.bucketHash.inputLen.toNat
  bs0 : 0 ≤ s.BUPConfig.BlockSize
  ws0 : 0 ≤ s.BUPConfig.WindowSize
  w : s.bucketDictionary.ParserBuffer.W ≤ s.bucketDictionary.ParserBuffer.Data.len
  il1 : 1 ≤ s.bucketDictionary.bucketHash.inputLen
  mask : s.bucketDictionary.bucketHash.mask = maskOf s.bucketDictionary.bucketHash.inputLen.toNat
  sh : 32 ≤ s.bucketDictionary.bucketHash.shift.toNat
  sh2 : s.bucketDictionary.bucketHash.shift.toNat ≤ 64
  small : s.bucketDictionary.ParserBuffer.Data.len < 4294967296

theorem parseW_bucket_nf (s : Parser) (stale : List Byte) (flags : Nat) (bk : BucketT) (hd : s.dict = .bucket bk)
    (hn : s.blockN ≠ 0) :
    ProbeW.parseW s stale flags =
      (ProbeW.processSegmentBW bk s.buf.data stale ((s.buf.w : Int) - bk.inputLen + 1) s.buf.w).bind fun bk' =>
      (ProbeW.resliceMargin (s.buf.data.take (s.buf.w + s.blockN)) (s.buf.data.drop (s.buf.w + s.blockN) ++ stale)
        bk'.inputLen).bind fun _ =>
      (ProbeW.runGreedyW (ProbeW.bupProbeW s.buf.cfg.windowSize s.minMatch
          ((s.buf.data.take (s.buf.w + s.blockN)).length + 1 - bk'.inputLen)
          (s.buf.data.drop (s.buf.w + s.blockN) ++ stale)) bk' (s.buf.data.take (s.buf.w + s.blockN)) s.buf.w
          ((s.buf.data.take (s.buf.w + s.blockN)).length + 1 - bk'.inputLen) flags).bind fun r =>
      some ({ s with buf := { s.buf with w := r.2.1 }, dict := .bucket r.1 }, r.2.1 - s.buf.w, .ok, r.2.2.1) := by
  unfold ProbeW.parseW
  simp only [hn, if_false, hd]
  rfl

/-- the Go state after `Parse`: new `W`, new table -/
@[reducible] def withWB (s : Gen.bucketParser) (w : Int) (g : Gen.bucketHash) : Gen.bucketParser :=
  { bucketDictionary :=
      { ParserBuffer := { s.bucketDictionary.ParserBuffer with W := w }, bucketHash := g },
    BUPConfig := s.BUPConfig }

set_option maxHeartbeats 1000000 in
theorem gen_bup_parse (grow : Nat → Nat → Nat) (fuel : Nat) (lcp : Slice → Slice → Int) (hlcp : LcpSpec lcp)
    (s : Gen.bucketParser) (blk : Gen.Block') (flags : Int)
    (h : ParseOKU s) (hfl : 0 ≤ flags) (hfuel : s.bucketDictionary.ParserBuffer.Data.len + 3 ≤ fuel) :
    match ProbeW.parseW (ofBUPs s) (staleOfU s) flags.toNat with
    | none => bucketParser_Parse grow fuel lcp s blk flags = Res.panic
    | some (s', n, e, b) =>
      ∃ t blk', bucketParser_Parse grow fuel lcp s blk flags = Res.ok (t, blk', (n : Int), parseErr e) ∧
        ofBUPs t = s' ∧ staleOfU t = staleOfU s ∧ (e = .ok ∨ e = .empty) ∧
        blk'.Sequences = b.seqs.map seqRep ∧ blk'.Literals.data = b.lits ∧ SWF blk'.Literals ∧ ParseOKU t := by
  have hP := h
  obtain ⟨⟨hpb, hbw⟩, hbok, cws, cbs, cil, hbs0, hws0, hW, hil1, hmask, hsh, hsh2, hsmall⟩ := h
  have hil0 : 0 ≤ s.bucketDictionary.bucketHash.inputLen := by omega
  have hD : SWF s.bucketDictionary.ParserBuffer.Data := hpb.data
  have hD' : s.bucketDictionary.ParserBuffer.Data.len ≤ s.bucketDictionary.ParserBuffer.Data.arr.length := hD
  have hW0 := hpb.w
  have hdl : s.bucketDictionary.ParserBuffer.Data.data.length = s.bucketDictionary.ParserBuffer.Data.len := data_length hD
  have hbN : (ofBUPs s).blockN = Min.min (s.bucketDictionary.ParserBuffer.Data.len - s.bucketDictionary.ParserBuffer.W.toNat)
      s.BUPConfig.BlockSize.toNat := by
    show Min.min (s.bucketDictionary.ParserBuffer.Data.data.length - _) s.bucketDictionary.ParserBuffer.BufConfig.BlockSize.toNat = _
    rw [hdl, cbs]
    rfl
  have hnG : (if (Int.ofNat s.bucketDictionary.ParserBuffer.Data.len) - s.bucketDictionary.ParserBuffer.W > s.BUPConfig.BlockSize
      then s.BUPConfig.BlockSize
      else (Int.ofNat s.bucketDictionary.ParserBuffer.Data.len) - s.bucketDictionary.ParserBuffer.W) =
      (((ofBUPs s).blockN : Nat) : Int) := by
    rw [hbN]
    show (if (s.bucketDictionary.ParserBuffer.Data.len : Int) - _ > _ then _ else (s.bucketDictionary.ParserBuffer.Data.len : Int) - _) = _
    split <;> omega
  -- the same clamp spelled `n >= s.BlockSize` (a harmless rewrite of the Go text)
  have hnG' : (if (Int.ofNat s.bucketDictionary.ParserBuffer.Data.len) - s.bucketDictionary.ParserBuffer.W ≥ s.BUPConfig.BlockSize
      then s.BUPConfig.BlockSize
      else (Int.ofNat s.bucketDictionary.ParserBuffer.Data.len) - s.bucketDictionary.ParserBuffer.W) =
      (((ofBUPs s).blockN : Nat) : Int) := by
    rw [hbN]
    show (if (s.bucketDictionary.ParserBuffer.Data.len : Int) - _ ≥ _ then _ else (s.bucketDictionary.ParserBuffer.Data.len : Int) - _) = _
    split <;> omega
  by_cases hn : (ofBUPs s).blockN = 0
  · have hg : blockNU s = 0 := by unfold blockNU; rw [hnG, hn]; rfl
    rw [gen_bup_parse_empty grow fuel lcp s blk flags hg]
    unfold ProbeW.parseW
    simp only [hn, if_true]
    exact ⟨s, resetBlk blk, rfl, rfl, rfl, by simp, rfl, rfl, Nat.zero_le _, hP⟩
  -- the model side, without `do`
  rw [parseW_bucket_nf (ofBUPs s) (staleOfU s) flags.toNat (ofBucket s.bucketDictionary.bucketHash) rfl hn]
  have hargs : ProbeW.processSegmentBW (ofBucket s.bucketDictionary.bucketHash) (ofBUPs s).buf.data (staleOfU s)
      (((ofBUPs s).buf.w : Int) - ((ofBucket s.bucketDictionary.bucketHash).inputLen : Int) + 1) ((ofBUPs s).buf.w : Int) =
      ProbeW.processSegmentBW (ofBucket s.bucketDictionary.bucketHash) s.bucketDictionary.ParserBuffer.Data.data
        (s.bucketDictionary.ParserBuffer.Data.arr.drop s.bucketDictionary.ParserBuffer.Data.len)
        ((s.bucketDictionary.ParserBuffer.W - s.bucketDictionary.bucketHash.inputLen) + 1) s.bucketDictionary.ParserBuffer.W := by
    have e1 : (((ofBUPs s).buf.w : Nat) : Int) = s.bucketDictionary.ParserBuffer.W := by
      show ((s.bucketDictionary.ParserBuffer.W.toNat : Nat) : Int) = _; omega
    have e2 : (((ofBucket s.bucketDictionary.bucketHash).inputLen : Nat) : Int) = s.bucketDictionary.bucketHash.inputLen := by
      show ((s.bucketDictionary.bucketHash.inputLen.toNat : Nat) : Int) = _; omega
    rw [e1, e2]; rfl
  rw [hargs]
  have hps := gen_processSegmentB fuel s.bucketDictionary ((s.bucketDictionary.ParserBuffer.W - s.bucketDictionary.bucketHash.inputLen) + 1)
    s.bucketDictionary.ParserBuffer.W hD hil0 hmask hsh hsh2 hbok hsmall (by omega)
  -- the Go side up to `processSegment`
  have hs0 : Slice.slice blk.Literals 0 (0 : Int) = Res.ok { arr := blk.Literals.arr, len := 0 } := by
    unfold Slice.slice
    simp [Slice.cap]
  generalize hG : bucketParser_Parse grow fuel lcp s blk flags = G
  unfold bucketParser_Parse bucketParser_Parse_nilable at hG; simp only [Bool.false_eq_true] at hG
  simp only [if_false] at hG
  simp only [hnG, hnG'] at hG
  rw [hs0, bind_ok, if_neg (by omega)] at hG
  cases hp1 : ProbeW.processSegmentBW (ofBucket s.bucketDictionary.bucketHash) s.bucketDictionary.ParserBuffer.Data.data
        (s.bucketDictionary.ParserBuffer.Data.arr.drop s.bucketDictionary.ParserBuffer.Data.len)
        ((s.bucketDictionary.ParserBuffer.W - s.bucketDictionary.bucketHash.inputLen) + 1) s.bucketDictionary.ParserBuffer.W with
  | none =>
    rw [hp1] at hps
    simp only [] at hps
    rw [hps] at hG
    exact hG.symm
  | some bk' =>
    rw [hp1] at hps
    obtain ⟨g0, hb0, hsc0, rfl, hps⟩ := hps
    rw [hps, bind_ok] at hG
    rw [Option.bind_some]
    dsimp only at hG
    obtain ⟨hm0, hsh0, hil0', hbs0'⟩ := hsc0
    rw [hil0'] at hG
    -- names for the natural numbers
    obtain ⟨Wn, hWn⟩ : ∃ Wn : Nat, s.bucketDictionary.ParserBuffer.W = (Wn : Int) :=
      ⟨s.bucketDictionary.ParserBuffer.W.toNat, by omega⟩
    have hwn : (ofBUPs s).buf.w = Wn := by
      show s.bucketDictionary.ParserBuffer.W.toNat = Wn; omega
    generalize hnN : (ofBUPs s).blockN = nN at hG hn hbN ⊢
    rw [hwn]
    have hWn' : s.bucketDictionary.ParserBuffer.W.toNat = Wn := by omega
    rw [hWn'] at hbN
    have hLlen : Wn + nN ≤ s.bucketDictionary.ParserBuffer.Data.len := by omega
    have hpm : List.take (Wn + nN) (ofBUPs s).buf.data = s.bucketDictionary.ParserBuffer.Data.arr.take (Wn + nN) := by
      show (s.bucketDictionary.ParserBuffer.Data.arr.take _).take _ = _
      rw [List.take_take, Nat.min_eq_left hLlen]
    have hbeh : List.drop (Wn + nN) (ofBUPs s).buf.data ++ staleOfU s =
        s.bucketDictionary.ParserBuffer.Data.arr.drop (Wn + nN) := behind_eq _ _ _ hLlen
    have hws : (ofBUPs s).buf.cfg.windowSize = s.BUPConfig.WindowSize.toNat := by rw [cws]; rfl
    have hmmM : (ofBUPs s).minMatch = Min.min 3 s.bucketDictionary.bucketHash.inputLen.toNat := by
      show Min.min 3 s.BUPConfig.InputLen.toNat = _; rw [cil]
    have hpl : (s.bucketDictionary.ParserBuffer.Data.arr.take (Wn + nN)).length = Wn + nN := by
      rw [List.length_take]; omega
    rw [hpm, hbeh, hws, hmmM, hpl]
    have hilg : (ofBucket g0).inputLen = s.bucketDictionary.bucketHash.inputLen.toNat := by
      rw [ofBucket_inputLen, hil0']
    simp only [hilg]
    -- p := s.Data[:s.W+n]
    rw [hWn, slice_okI s.bucketDictionary.ParserBuffer.Data 0 ((Wn : Int) + (nN : Int)) 0 (Wn + nN) rfl (by omega)
      (Nat.zero_le _) (by omega), bind_ok] at hG
    simp only [List.drop_zero, Nat.sub_zero] at hG
    generalize hA : s.bucketDictionary.ParserBuffer.Data.arr = A at hG hD' hpl ⊢
    obtain ⟨iln, hiln⟩ : ∃ iln : Nat, s.bucketDictionary.bucketHash.inputLen = (iln : Int) :=
      ⟨s.bucketDictionary.bucketHash.inputLen.toNat, by omega⟩
    have hiln' : s.bucketDictionary.bucketHash.inputLen.toNat = iln := by omega
    rw [hiln'] at *
    rw [hiln] at hG
    -- `minMatchLen`: the clamp in any spelling (`3` first or `inputLen` first, either comparison) is `min 3 inputLen`
    have hmA : Min.min (iln : Int) 3 = ((Min.min 3 iln : Nat) : Int) := by omega
    have hmB : Min.min 3 (iln : Int) = ((Min.min 3 iln : Nat) : Int) := by omega
    simp only [gt_iff_lt, ge_iff_le, ite_lt_min, ite_le_min, hmA, hmB] at hG
    -- the margin reslice `_p := s.Data[:inputEnd+7]`
    have hrm : ∀ il : Nat, ProbeW.resliceMargin (List.take (Wn + nN) A) (List.drop (Wn + nN) A) il =
        if ((Wn + nN : Nat) : Int) - (il : Int) + 1 + 7 < 0 ∨ (A.length : Int) < ((Wn + nN : Nat) : Int) - (il : Int) + 1 + 7
        then none else some () := by
      intro il; unfold ProbeW.resliceMargin
      rw [List.take_append_drop, hpl]
    rw [hrm]
    by_cases hmar : ((Wn + nN : Nat) : Int) - (iln : Int) + 1 + 7 < 0 ∨
        (A.length : Int) < ((Wn + nN : Nat) : Int) - (iln : Int) + 1 + 7
    · rw [if_pos hmar]
      rw [slice_panic _ _ _ (by
        rw [hA]; show _ ∨ ((Wn + nN : Nat) : Int) - _ + 1 + 7 < 0 ∨ (A.length : Int) < ((Wn + nN : Nat) : Int) - _ + 1 + 7
        omega)] at hG
      exact hG.symm
    rw [if_neg hmar, Option.bind_some]
    have hcapE : ((Int.ofNat (Wn + nN) - (iln : Int) + 1 + 7).toNat) ≤ s.bucketDictionary.ParserBuffer.Data.arr.length := by
      rw [hA]; show (((Wn + nN : Nat) : Int) - _ + 1 + 7).toNat ≤ _; omega
    rw [slice_okI s.bucketDictionary.ParserBuffer.Data 0 (Int.ofNat (Wn + nN) - (iln : Int) + 1 + 7) 0
      ((Int.ofNat (Wn + nN) - (iln : Int) + 1 + 7).toNat) rfl
      (by show ((Wn + nN : Nat) : Int) - _ + 1 + 7 = (((((Wn + nN : Nat) : Int) - _ + 1 + 7).toNat : Nat) : Int); omega)
      (Nat.zero_le _) hcapE, bind_ok] at hG
    simp only [List.drop_zero, Nat.sub_zero] at hG
    rw [hA] at hG
    -- the greedy loop
    have hloop : ∃ (st' : LoopSt BucketT) (g' : Gen.bucketHash) (blk' : Block'),
        ProbeW.greedyLoopW (ProbeW.bupProbeW s.BUPConfig.WindowSize.toNat (Min.min 3 iln) (Wn + nN + 1 - iln)
            (A.drop (Wn + nN))) (A.take (Wn + nN)) (Wn + nN + 1 - iln)
          { dict := ofBucket g0, i := Wn, litIndex := Wn, seqs := [], lits := [] } = some st' ∧
        -- the loop function applied and its state tuple built BY GO VARIABLE NAME (LzProofs/GenCallByName.lean)
        (gcall% bucketParser_Parse_loop_1 [grow := grow, lcp := lcp, inputEnd := Int.ofNat (Wn + nN) - (iln : Int) + 1,
          _p := ({ arr := A, len := (Int.ofNat (Wn + nN) - (iln : Int) + 1 + 7).toNat } : Slice),
          p := ({ arr := A, len := Wn + nN } : Slice),
          minMatchLen := ((Min.min 3 iln : Nat) : Int), fuel := fuel, i := (Wn : Int),
          s := { bucketDictionary := { ParserBuffer := s.bucketDictionary.ParserBuffer, bucketHash := g0 },
                 BUPConfig := s.BUPConfig },
          blk := { Sequences := [], Literals := { arr := blk.Literals.arr, len := 0 } }, litIndex := (Wn : Int)]) =
          Res.ok (gstate% bucketParser_Parse_loop_1 [i := (st'.i : Int),
            s := { bucketDictionary := { ParserBuffer := s.bucketDictionary.ParserBuffer, bucketHash := g' },
                   BUPConfig := s.BUPConfig }, blk := blk', litIndex := (st'.litIndex : Int)]) ∧
        BOK g' ∧ SameCfg g0 g' ∧ st'.dict = ofBucket g' ∧
        blk'.Sequences = st'.seqs.map seqRep ∧ blk'.Literals.data = st'.lits ∧ SWF blk'.Literals ∧
        Wn ≤ st'.litIndex ∧ st'.litIndex ≤ Wn + nN := by
      have hmmI : (((Min.min 3 iln : Nat) : Int)) = ((Min.min 3 iln : Nat) : Int) := rfl
      by_cases h0 : (Wn : Int) < Int.ofNat (Wn + nN) - (iln : Int) + 1
      · have h0' : (Wn : Int) < ((Wn + nN : Nat) : Int) - (iln : Int) + 1 := h0
        have hEI : Int.ofNat (Wn + nN) - (iln : Int) + 1 = ((Wn + nN + 1 - iln : Nat) : Int) := by
          show ((Wn + nN : Nat) : Int) - _ + 1 = _; omega
        have hE7 : (Int.ofNat (Wn + nN) - (iln : Int) + 1 + 7).toNat = Wn + nN + 1 - iln + 7 := by
          rw [hEI]; omega
        rw [hE7]
        have hmar' : ¬ ((A.length : Int) < ((Wn + nN : Nat) : Int) - (iln : Int) + 1 + 7) := fun hc => hmar (Or.inr hc)
        have hc0 : BCtx g0 { arr := A, len := Wn + nN + 1 - iln + 7 } :=
          ⟨by show Wn + nN + 1 - iln + 7 ≤ A.length; omega, by rw [hil0']; omega, by rw [hm0, hil0']; exact hmask,
            by rw [hsh0]; exact hsh, by rw [hsh0]; exact hsh2, by show Wn + nN + 1 - iln + 7 < _; omega⟩
        obtain ⟨st', g', blk', k1, k2, k3, k4, k5, k6, k7, k8, k9, k10⟩ :=
          loops_eq grow lcp hlcp _ _ A (Wn + nN) (Wn + nN + 1 - iln) (Min.min 3 iln) s.BUPConfig.WindowSize.toNat hEI hmmI
            (by omega) (by omega) (by omega) (by omega) fuel Wn
            { bucketDictionary := { ParserBuffer := s.bucketDictionary.ParserBuffer, bucketHash := g0 },
              BUPConfig := s.BUPConfig }
            { Sequences := [], Literals := { arr := blk.Literals.arr, len := 0 } }
            hc0 hb0 rfl hws0 (by omega) (by omega) rfl rfl (Nat.zero_le _)
        exact ⟨st', g', blk', k1, k2, k3, k4, k5, k6, k7, k8, k9, k10⟩
      · have h0' : ¬ (Wn : Int) < ((Wn + nN : Nat) : Int) - (iln : Int) + 1 := h0
        obtain ⟨f, rfl⟩ : ∃ f, fuel = f + 1 := ⟨fuel - 1, by omega⟩
        refine ⟨_, g0, { Sequences := [], Literals := { arr := blk.Literals.arr, len := 0 } },
          ProbeW.greedyLoopW_done _ _ _ _ (by show ¬ Wn < Wn + nN + 1 - iln; omega), ?_, hb0, SameCfg.refl _, rfl, rfl,
          rfl, Nat.zero_le _, Nat.le_refl _, by show Wn ≤ Wn + nN; omega⟩
        rw [bucketParser_Parse_loop_1, if_neg h0]
    obtain ⟨st', g', blk', hgl, hl1, hb', hsc', hdict', hseq', hlit', hswf', hli1, hli2⟩ := hloop
    rw [hl1, bind_ok] at hG
    dsimp only at hG
    unfold ProbeW.runGreedyW
    simp only [Option.bind_eq_bind, Option.pure_def]
    rw [hgl, Option.bind_some, Option.bind_some]
    dsimp only
    obtain ⟨hm1, hsh1', hil1', hbs1'⟩ := hsc'
    have hPt : ∀ w' : Nat, w' ≤ Wn + nN → ParseOKU (withWB s (w' : Int) g') := by
      intro w' hw'
      exact ⟨⟨⟨hD, by show (0 : Int) ≤ (w' : Int); omega, hpb.off, hpb.ss, hpb.bs⟩, ⟨hb'.gwf, hb'.swf⟩⟩, hb',
        cws, cbs, by show _ = g'.inputLen.toNat; rw [hil1', hil0']; exact cil, hbs0, hws0,
        by show (w' : Int) ≤ ((s.bucketDictionary.ParserBuffer.Data.len : Nat) : Int); omega,
        by show 1 ≤ g'.inputLen; rw [hil1', hil0']; exact hil1,
        by show g'.mask = maskOf g'.inputLen.toNat; rw [hm1, hm0, hil1', hil0']; exact hmask,
        by show 32 ≤ g'.shift.toNat; rw [hsh1', hsh0]; exact hsh,
        by show g'.shift.toNat ≤ 64; rw [hsh1', hsh0]; exact hsh2, hsmall⟩
    have hslen : blk'.Sequences.length = st'.seqs.length := by rw [hseq', List.length_map]
    unfold finishBlock
    by_cases hfin : flags.toNat % 2 = 1 ∧ st'.seqs ≠ []
    · rw [if_pos hfin]
      have hne : st'.seqs.length ≠ 0 := fun hc => hfin.2 (List.eq_nil_of_length_eq_zero hc)
      have hcnd : iand flags 1 ≠ 0 ∧ Int.ofNat blk'.Sequences.length > 0 :=
        ⟨(iand_one flags hfl).mpr hfin.1, by show (blk'.Sequences.length : Int) > 0; omega⟩
      -- the test of the epilogue in any spelling (De Morgan with swapped arms, `== 0` / `<= 0` for `> 0`)
      first | rw [if_pos (by int_omega)] at hG | rw [if_neg (by int_omega)] at hG
      rw [bind_ok] at hG
      dsimp only at hG
      refine ⟨withWB s (st'.litIndex : Int) g', blk', hG.symm.trans ?_, ?_, rfl, Or.inl rfl, hseq', hlit', hswf', hPt _ hli2⟩
      · rw [hWn]
        have : ((st'.litIndex : Nat) : Int) - (Wn : Int) = ((st'.litIndex - Wn : Nat) : Int) := by omega
        rw [this]; rfl
      · rw [hdict']; rfl
    · rw [if_neg hfin]
      have hcond : ¬ (iand flags 1 ≠ 0 ∧ Int.ofNat blk'.Sequences.length > 0) := by
        intro ⟨h1, h2⟩
        apply hfin
        refine ⟨(iand_one flags hfl).mp h1, ?_⟩
        intro hc
        have h2' : (blk'.Sequences.length : Int) > 0 := h2
        rw [hslen, hc] at h2'
        exact absurd h2' (by decide)
      first | rw [if_neg (by int_omega)] at hG | rw [if_pos (by int_omega)] at hG
      rw [slice_okI _ _ (Int.ofNat (Wn + nN)) st'.litIndex (Wn + nN) rfl rfl hli2
        (by show Wn + nN ≤ A.length; omega), bind_ok, bind_ok] at hG
      dsimp only at hG
      refine ⟨withWB s ((Wn + nN : Nat) : Int) g',
        { Sequences := blk'.Sequences,
          Literals := Slice.append grow blk'.Literals ((A.drop st'.litIndex).take (Wn + nN - st'.litIndex)) },
        hG.symm.trans ?_, ?_, rfl, Or.inl rfl, hseq', ?_,
        swf_append grow _ hswf' _, hPt _ (Nat.le_refl _)⟩
      · rw [hWn, hpl]
        have : Int.ofNat (Wn + nN) - (Wn : Int) = ((Wn + nN - Wn : Nat) : Int) := by
          show ((Wn + nN : Nat) : Int) - _ = _; omega
        rw [this]; rfl
      · rw [hdict', hpl]; rfl
      · rw [(append_spec grow blk'.Literals hswf' _).1, hlit']
        show _ ++ (A.drop st'.litIndex).take (Wn + nN - st'.litIndex) = _ ++ (A.take (Wn + nN)).drop st'.litIndex
        rw [List.drop_take]

/-- **Go text → list-level model.**  For a Go state that abstracts to a state reachable through the API the translated
    `Parse` does not panic and returns the representation of the LIST-LEVEL model `Parser.parse` — the function on
    which C01/C02/C03/C19 are proved. -/
theorem gen_bup_parse_model (grow : Nat → Nat → Nat) (fuel : Nat) (lcp : Slice → Slice → Int) (hlcp : LcpSpec lcp)
    (s : Gen.bucketParser) (blk : Gen.Block') (flags : Int)
    (h : ParseOKU s) (hfl : 0 ≤ flags) (hfuel : s.bucketDictionary.ParserBuffer.Data.len + 3 ≤ fuel)
    (raw : Cfg) (s0 : Parser) (h0 : newParser .BUP raw = some s0) (ops : List POp)
    (hreach : ofBUPs s = (runOps (s0, Ghost.init) ops).1) :
    ∃ t blk', bucketParser_Parse grow fuel lcp s blk flags =
        Res.ok (t, blk', (((ofBUPs s).parse flags.toNat).2.1 : Int), parseErr ((ofBUPs s).parse flags.toNat).2.2.1) ∧
      ofBUPs t = ((ofBUPs s).parse flags.toNat).1 ∧ staleOfU t = staleOfU s ∧
      blk'.Sequences = ((ofBUPs s).parse flags.toNat).2.2.2.seqs.map seqRep ∧
      blk'.Literals.data = ((ofBUPs s).parse flags.toNat).2.2.2.lits ∧ SWF blk'.Literals ∧ ParseOKU t := by
  have hb : ProbeW.Backing (ofBUPs s) (staleOfU s) := staleOfU_length s h.wf.1.data
  have hW := ProbeW.parseW_reachable .BUP (Or.inr (Or.inr (Or.inr (Or.inr rfl)))) raw s0 h0 ops (staleOfU s) flags.toNat
    (by rw [← hreach]; exact hb)
  rw [← hreach] at hW
  have hm := gen_bup_parse grow fuel lcp hlcp s blk flags h hfl hfuel
  rw [hW] at hm
  obtain ⟨t, blk', h1, h2, h3, _, h5, h6, h7, h8⟩ := hm
  exact ⟨t, blk', h1, h2, h3, h5, h6, h7, h8⟩

end LZ.GenBUPParse

#print axioms LZ.GenBUPParse.gen_bup_parse_empty
#print axioms LZ.GenBUPParse.gen_bup_parse
#print axioms LZ.GenBUPParse.gen_bup_parse_model
