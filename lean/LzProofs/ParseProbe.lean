/-
  LzProofs.ParseProbe — the match finders of HP/BHP, DHP/BDHP, BUP and GSAP satisfy the
  probe contract for ARBITRARY dictionary states: every candidate taken from a hash
  table, bucket or suffix-array neighbour is compared with the real bytes before it is
  reported, so validity never depends on the contents of the search structure.
-/
import LzProofs.ParseLemmas
import LzModel.Sap
namespace LZ

/-- Contract of a match finder on the block prefix `p` (window size `ws`, minimum match
    length `mm`): every reported match `(s, k, o)` starts between the first uncovered byte
    `li` and the probed position `i`, covers `i`, is a genuine match inside `p`, has an
    offset within the window and at least the minimum length. -/
def ProbeOK {δ} (F : Finder δ) (p : List Byte) (ws mm : Nat) : Prop :=
  ∀ d i li d' s k o, li ≤ i → F.probe d p i li = (d', some (s, k, o)) →
    li ≤ s ∧ s ≤ i ∧ i < s + k ∧ MatchOK p s k o ∧ o ≤ ws ∧ mm ≤ k

/-- C19, right: a reported match ends at the end of `p` or at a differing byte -/
def ProbeRightMax {δ} (F : Finder δ) (p : List Byte) : Prop :=
  ∀ d i li d' s k o, li ≤ i → F.probe d p i li = (d', some (s, k, o)) →
    s + k = p.length ∨ p[s + k]? ≠ p[s + k - o]?

/-- C19, left (backward-extending finders): the match starts at the first uncovered byte
    (no literal in front of it), or its source starts at the buffer start (`s = o`), or the
    byte in front of the match differs from the byte in front of the source -/
def ProbeLeftMax {δ} (F : Finder δ) (p : List Byte) : Prop :=
  ∀ d i li d' s k o, li ≤ i → F.probe d p i li = (d', some (s, k, o)) →
    s = li ∨ s = o ∨ p[s - 1]? ≠ p[s - 1 - o]?

/-- all facts about a verified hash candidate `j` for position `i`, optionally extended
    backwards -/
theorem cand_ok (p : List Byte) (ws mm i li j : Nat) (back : Bool)
    (hmm : 1 ≤ mm) (hli : li ≤ i) (hji : j < i) (hws : i - j ≤ ws)
    (hk : mm ≤ lcpLen (p.drop j) (p.drop i)) :
    let k := lcpLen (p.drop j) (p.drop i)
    let m := if back then backExt p i li j else 0
    (li ≤ i - m ∧ i - m ≤ i ∧ i < i - m + (k + m) ∧ MatchOK p (i - m) (k + m) (i - j) ∧
      i - j ≤ ws ∧ mm ≤ k + m) ∧
    (i - m + (k + m) = p.length ∨ p[i - m + (k + m)]? ≠ p[i - m + (k + m) - (i - j)]?) ∧
    (back = true → (i - m = li ∨ i - m = i - j ∨ p[i - m - 1]? ≠ p[i - m - 1 - (i - j)]?)) := by
  intro k m
  have hkr := lcpLen_le_right (p.drop j) (p.drop i)
  simp only [List.length_drop] at hkr
  have hip : i < p.length := by omega
  have hmle : m ≤ i - li ∧ m ≤ j := by
    show (if back then backExt p i li j else 0) ≤ i - li ∧ (if back then backExt p i li j else 0) ≤ j
    split
    · exact backExt_le p i li j (by omega)
    · simp
  have hM : MatchOK p (i - m) (k + m) (i - j) := by
    have h0 := lcpLen_drop_matchOK p j i hji (by omega)
    show MatchOK p (i - (if back then backExt p i li j else 0))
      (k + (if back then backExt p i li j else 0)) (i - j)
    split
    · exact backExt_matchOK p i li j k hji (by omega) h0
    · simpa using h0
  refine ⟨⟨by omega, by omega, by omega, hM, hws, by omega⟩, ?_, ?_⟩
  · have e1 : i - m + (k + m) = i + k := by omega
    rw [e1]
    rcases lcpLen_drop_maximal p j i hji with h | h | h
    · left; exact h
    · omega
    · right
      have e2 : i + k - (i - j) = j + k := by omega
      rw [e2]; exact h
  · intro hb
    have hm : m = backExt p i li j := by
      show (if back then backExt p i li j else 0) = _
      simp [hb]
    rw [hm]
    by_cases h0 : j - backExt p i li j = 0
    · right; left; omega
    rcases backExt_maximal p i li j hji (by omega) hli with h | h | h
    · left; exact h
    · exact absurd h h0
    · right; right
      have e : i - backExt p i li j - 1 - (i - j) = j - backExt p i li j - 1 := by omega
      rw [e]; exact h

/-- the shape of every reported match: a candidate `j` verified with `lcpLen`, optionally
    extended backwards -/
def CandForm (p : List Byte) (ws mm : Nat) (back : Bool) (i li s k o : Nat) : Prop :=
  ∃ j, j < i ∧ i - j ≤ ws ∧ mm ≤ lcpLen (p.drop j) (p.drop i) ∧
    s = i - (if back then backExt p i li j else 0) ∧
    k = lcpLen (p.drop j) (p.drop i) + (if back then backExt p i li j else 0) ∧
    o = i - j

theorem CandForm.ok {p : List Byte} {ws mm : Nat} {back : Bool} {i li s k o : Nat}
    (h : CandForm p ws mm back i li s k o) (hmm : 1 ≤ mm) (hli : li ≤ i) :
    (li ≤ s ∧ s ≤ i ∧ i < s + k ∧ MatchOK p s k o ∧ o ≤ ws ∧ mm ≤ k) ∧
    (s + k = p.length ∨ p[s + k]? ≠ p[s + k - o]?) ∧
    (back = true → (s = li ∨ s = o ∨ p[s - 1]? ≠ p[s - 1 - o]?)) := by
  obtain ⟨j, h1, h2, h3, rfl, rfl, rfl⟩ := h
  exact cand_ok p ws mm i li j back hmm hli h1 h2 h3

/-- what a probe of the single-hash finder returns, whatever the table contains -/
theorem hpProbe_some (ws mm inputEnd : Nat) (back : Bool) (h : HashT) (p : List Byte) (i li : Nat)
    (d' : HashT) (s k o : Nat)
    (hp : hpProbe ws mm inputEnd back h p i li = (d', some (s, k, o))) :
    CandForm p ws mm back i li s k o := by
  unfold hpProbe at hp
  simp only [] at hp
  split at hp
  · simp at hp
  split at hp
  · simp at hp
  split at hp
  · simp at hp
  rename_i h1 h2 h3
  simp only [Prod.mk.injEq, Option.some.injEq] at hp
  obtain ⟨-, hs, hk, ho⟩ := hp
  refine ⟨_, ?_, ?_, ?_, hs.symm, hk.symm, ho.symm⟩
  · have := Decidable.not_not.mp h2; exact this.1
  · have := Decidable.not_not.mp h2; exact this.2
  · omega

theorem dhpProbe_some (ws mm e1 e2 : Nat) (back : Bool) (d : Hash2) (p : List Byte) (i li : Nat)
    (d' : Hash2) (s k o : Nat)
    (hp : dhpProbe ws mm e1 e2 back d p i li = (d', some (s, k, o))) :
    CandForm p ws mm back i li s k o := by
  unfold dhpProbe at hp
  simp only [] at hp
  split at hp
  · split at hp
    · simp at hp
    split at hp
    · simp at hp
    split at hp
    · simp at hp
    rename_i h1 h2 h3
    simp only [Prod.mk.injEq, Option.some.injEq] at hp
    obtain ⟨-, hs, hk, ho⟩ := hp
    refine ⟨_, ?_, ?_, ?_, hs.symm, hk.symm, ho.symm⟩
    · have := Decidable.not_not.mp h2; exact this.1
    · have := Decidable.not_not.mp h2; exact this.2
    · omega
  · split at hp
    · simp at hp
    split at hp
    · simp at hp
    split at hp
    · simp at hp
    rename_i h1 h2 h3
    simp only [Prod.mk.injEq, Option.some.injEq] at hp
    obtain ⟨-, hs, hk, ho⟩ := hp
    refine ⟨_, ?_, ?_, ?_, hs.symm, hk.symm, ho.symm⟩
    · have := Decidable.not_not.mp h2; exact this.1
    · have := Decidable.not_not.mp h2; exact this.2
    · omega

/-! ### BUP -/

/-- the running best candidate of the bucket scan: nothing yet, or a verified candidate -/
def BupScanInv (p : List Byte) (i ws o k : Nat) : Prop :=
  (o = 0 ∧ k = 0) ∨ ∃ j, j < i ∧ i - j ≤ ws ∧ o = i - j ∧ k = lcpLen (p.drop j) (p.drop i)

theorem bupScan_inv (bk : BucketT) (p : List Byte) (i ws v base : Nat) :
    ∀ (slots : List Nat) (o k : Nat), BupScanInv p i ws o k →
      BupScanInv p i ws (bupScan bk p i ws v base slots o k).1 (bupScan bk p i ws v base slots o k).2 := by
  intro slots
  induction slots with
  | nil => intro o k h; simpa [bupScan] using h
  | cons s rest ih =>
    intro o k h
    unfold bupScan
    simp only []
    split
    · exact ih o k h
    · split
      · exact ih o k h
      · rename_i hw
        split
        · exact ih o k h
        · split
          · exact ih o k h
          · apply ih
            right
            have hw' := Decidable.not_not.mp hw
            exact ⟨_, hw'.1, hw'.2, rfl, rfl⟩

theorem bupProbe_some (ws mm inputEnd : Nat) (bk : BucketT) (p : List Byte) (i li : Nat)
    (hmm : 1 ≤ mm) (d' : BucketT) (s k o : Nat)
    (hp : bupProbe ws mm inputEnd bk p i li = (d', some (s, k, o))) :
    CandForm p ws mm false i li s k o := by
  unfold bupProbe at hp
  simp only [] at hp
  have hinv := bupScan_inv bk p i ws (lo32 (bk.key p i))
    (hashValue (bk.key p i) bk.hashBits * bk.bucketSize) (List.range bk.bucketSize) 0 0
    (Or.inl ⟨rfl, rfl⟩)
  generalize bupScan bk p i ws (lo32 (bk.key p i))
    (hashValue (bk.key p i) bk.hashBits * bk.bucketSize) (List.range bk.bucketSize) 0 0 = r at hp hinv
  obtain ⟨o', k'⟩ := r
  simp only [] at hp hinv
  split at hp
  · simp at hp
  rename_i hk
  simp only [Prod.mk.injEq, Option.some.injEq] at hp
  obtain ⟨-, hs, hk2, ho⟩ := hp
  subst hs hk2 ho
  rcases hinv with ⟨-, h0⟩ | ⟨j, h1, h2, h3, h4⟩
  · omega
  · exact ⟨j, h1, h2, by omega, by simp, by simpa using h4, h3⟩

/-! ### GSAP -/

/-- candidate from the rank predecessor -/
def gsapCand1 (g : GsapD) (p : List Byte) (i : Nat) (bits : Array Bool) (j : Nat) : Nat × Nat :=
  match memberBefore bits j with
  | some k1 => (g.sa.getD k1 0, lcpLen (p.drop (g.sa.getD k1 0)) (p.drop i))
  | none => (0, 0)

/-- candidate after also looking at the rank successor -/
def gsapCand2 (g : GsapD) (p : List Byte) (i : Nat) (bits : Array Bool) (j : Nat) (A : Nat × Nat) :
    Nat × Nat :=
  match memberAfter bits j with
  | some k2 =>
    if lcpLen (p.drop (g.sa.getD k2 0)) (p.drop i) > A.2 ∨
        (lcpLen (p.drop (g.sa.getD k2 0)) (p.drop i) = A.2 ∧ g.sa.getD k2 0 > A.1) then
      (g.sa.getD k2 0, lcpLen (p.drop (g.sa.getD k2 0)) (p.drop i))
    else A
  | none => A

theorem gsapProbe_eq (ws mm : Nat) (g : GsapD) (p : List Byte) (i li : Nat) :
    gsapProbe ws mm g p i li =
      (let j := g.isa.getD i 0
       let bits := g.bits.setIfInBounds j true
       let B := gsapCand2 g p i bits j (gsapCand1 g p i bits j)
       if B.2 < mm then ({ g with bits := bits }, none)
       else if ¬ (B.1 < i ∧ i - B.1 < ws) then ({ g with bits := bits }, none)
       else ({ g with bits := insertRanks g.isa bits (i + 1) (B.2 - 1) }, some (i, B.2, i - B.1))) := by
  rfl

theorem gsapCand_inv (g : GsapD) (p : List Byte) (i : Nat) (bits : Array Bool) (j : Nat) :
    (gsapCand2 g p i bits j (gsapCand1 g p i bits j)).2 = 0 ∨
    (gsapCand2 g p i bits j (gsapCand1 g p i bits j)).2 =
      lcpLen (p.drop (gsapCand2 g p i bits j (gsapCand1 g p i bits j)).1) (p.drop i) := by
  have hA : (gsapCand1 g p i bits j).2 = 0 ∨
      (gsapCand1 g p i bits j).2 = lcpLen (p.drop (gsapCand1 g p i bits j).1) (p.drop i) := by
    unfold gsapCand1; split <;> simp
  unfold gsapCand2
  split
  · split
    · right; rfl
    · exact hA
  · exact hA

theorem gsapProbe_some (ws mm : Nat) (g : GsapD) (p : List Byte) (i li : Nat)
    (hmm : 1 ≤ mm) (d' : GsapD) (s k o : Nat)
    (hp : gsapProbe ws mm g p i li = (d', some (s, k, o))) :
    CandForm p ws mm false i li s k o := by
  rw [gsapProbe_eq] at hp
  simp only [] at hp
  have hBinv := gsapCand_inv g p i (g.bits.setIfInBounds (g.isa.getD i 0) true) (g.isa.getD i 0)
  generalize gsapCand2 g p i (g.bits.setIfInBounds (g.isa.getD i 0) true) (g.isa.getD i 0)
    (gsapCand1 g p i (g.bits.setIfInBounds (g.isa.getD i 0) true) (g.isa.getD i 0)) = B at hp hBinv
  obtain ⟨f, m⟩ := B
  simp only [] at hp hBinv
  split at hp
  · simp at hp
  split at hp
  · simp at hp
  rename_i h1 h2
  simp only [Prod.mk.injEq, Option.some.injEq] at hp
  obtain ⟨-, hs, hk, ho⟩ := hp
  subst hs hk ho
  have h2' := Decidable.not_not.mp h2
  rcases hBinv with h0 | h0
  · omega
  · exact ⟨f, h2'.1, by omega, by omega, by simp, by simpa using h0, rfl⟩

/-! ### the contract for the four finders -/

/-- a finder all of whose matches are verified candidates -/
def Verifying {δ} (F : Finder δ) (p : List Byte) (ws mm : Nat) (back : Bool) : Prop :=
  ∀ d i li d' s k o, F.probe d p i li = (d', some (s, k, o)) → CandForm p ws mm back i li s k o

theorem Verifying.probeOK {δ} {F : Finder δ} {p : List Byte} {ws mm : Nat} {back : Bool}
    (h : Verifying F p ws mm back) (hmm : 1 ≤ mm) : ProbeOK F p ws mm :=
  fun d i li d' s k o hli hp => ((h d i li d' s k o hp).ok hmm hli).1

theorem Verifying.rightMax {δ} {F : Finder δ} {p : List Byte} {ws mm : Nat} {back : Bool}
    (h : Verifying F p ws mm back) (hmm : 1 ≤ mm) : ProbeRightMax F p :=
  fun d i li d' s k o hli hp => ((h d i li d' s k o hp).ok hmm hli).2.1

theorem Verifying.leftMax {δ} {F : Finder δ} {p : List Byte} {ws mm : Nat}
    (h : Verifying F p ws mm true) (hmm : 1 ≤ mm) : ProbeLeftMax F p :=
  fun d i li d' s k o hli hp => ((h d i li d' s k o hp).ok hmm hli).2.2 rfl

theorem hpProbe_verifying (ws mm inputEnd : Nat) (back : Bool) (p : List Byte) :
    Verifying ⟨hpProbe ws mm inputEnd back⟩ p ws mm back :=
  fun d i li d' s k o hp => hpProbe_some ws mm inputEnd back d p i li d' s k o hp

theorem dhpProbe_verifying (ws mm e1 e2 : Nat) (back : Bool) (p : List Byte) :
    Verifying ⟨dhpProbe ws mm e1 e2 back⟩ p ws mm back :=
  fun d i li d' s k o hp => dhpProbe_some ws mm e1 e2 back d p i li d' s k o hp

theorem bupProbe_verifying (ws mm inputEnd : Nat) (hmm : 1 ≤ mm) (p : List Byte) :
    Verifying ⟨bupProbe ws mm inputEnd⟩ p ws mm false :=
  fun d i li d' s k o hp => bupProbe_some ws mm inputEnd d p i li hmm d' s k o hp

theorem gsapProbe_verifying (ws mm : Nat) (hmm : 1 ≤ mm) (p : List Byte) :
    Verifying ⟨gsapProbe ws mm⟩ p ws mm false :=
  fun d i li d' s k o hp => gsapProbe_some ws mm d p i li hmm d' s k o hp

/-- GSAP only uses offsets strictly below the window size -/
theorem gsapProbe_offset_lt (ws mm : Nat) (g : GsapD) (p : List Byte) (i li : Nat)
    (d' : GsapD) (s k o : Nat) (hp : gsapProbe ws mm g p i li = (d', some (s, k, o))) : o < ws := by
  rw [gsapProbe_eq] at hp
  simp only [] at hp
  split at hp
  · simp at hp
  split at hp
  · simp at hp
  rename_i h1 h2
  simp only [Prod.mk.injEq, Option.some.injEq] at hp
  obtain ⟨-, hs, hk, ho⟩ := hp
  have h2' := Decidable.not_not.mp h2
  omega

end LZ
