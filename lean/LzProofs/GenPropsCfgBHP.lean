/-
  LzProofs.GenPropsCfgBHP — the parser configuration BHPConfig (SetDefaults / Verify through the
  reflective helpers, which appear in the generated code as the field copies the extractor read
  from their source).  `ofBHP` reads the generated struct as the model's union record `Cfg`
  (fields the kind does not have are zero), `toBHP` is the inverse on `Cfg.restrict .BHP`.
    G16 gen_setDefaults_BHP   G17 gen_verify_BHP   G18 gen_accepted_BHP
  Part of the split of the former LzProofs/GenProps.lean: "the hand-written model equals the
  code that `tools/extract -code` regenerates from the Go source".  The generated code is
  emitted per topic (LzModel/Generated/Code<Topic>.lean); this file only imports the topic it
  talks about, so a Go function the translator refuses takes down this file and nothing else.
  Every theorem quantifies over ALL inputs; Go `int`/`int64` are unbounded `Int` on both sides
  (overflow is out of scope), `uint32`/`uint64` wrap around.  All names live in `LZ.GenProps`.
  The proofs are written against the MEANING of the generated functions (unfold, split every
  `if`, decide linear arithmetic), not against the shape of the generated term, so that
  behaviour-preserving rewrites of the Go source (De Morgan, swapped arms, reordered defaults,
  `x+x` for `2*x`, …) do not break them.
-/
import LzModel.Generated.CodeCfgBHP
import LzProofs.GenPropsCfgBuf
import LzProofs.GenPropsCfgHash

set_option linter.unusedSimpArgs false

namespace LZ.GenProps
open LZ

def ofBHP (c : Gen.BHPConfig) : Cfg :=
  { shrinkSize := c.ShrinkSize, bufferSize := c.BufferSize, windowSize := c.WindowSize,
    blockSize := c.BlockSize,
    inputLen := c.InputLen, hashBits := c.HashBits }

def toBHP (c : Cfg) : Gen.BHPConfig :=
  { ShrinkSize := c.shrinkSize, BufferSize := c.bufferSize, WindowSize := c.windowSize,
    BlockSize := c.blockSize,
    InputLen := c.inputLen, HashBits := c.hashBits }

theorem ofBHP_toBHP (c : Cfg) : ofBHP (toBHP c) = c.restrict .BHP := by
  simp [ofBHP, toBHP, Cfg.restrict, Kind.fields]

theorem toBHP_ofBHP (c : Gen.BHPConfig) : toBHP (ofBHP c) = c := rfl

theorem gen_setDefaults_BHP (c : Gen.BHPConfig) :
    ofBHP (Gen.BHPConfig_SetDefaults c) = setDefaults .BHP (ofBHP c) := by
  simp only [Gen.BHPConfig_SetDefaults, gen_helper, gen_bufDefaults', gen_hashDefaults']
  rfl

theorem gen_verify_BHP (c : Gen.BHPConfig) :
    Gen.BHPConfig_Verify c = .ok ↔ verify .BHP (ofBHP c) = true := by
  -- the model side: (buffer check) && (hash check) …
  have e : verify .BHP (ofBHP c) = (bufVerify (ofBHP c) &&
      hashVerify c.InputLen c.HashBits Facts.maxHashBits) := by
    simp only [verify, ofBHP]
  -- … and what the two helper checks of the generated code mean (G09, G11)
  have hb : Gen.BufConfig_Verify ⟨c.ShrinkSize, c.BufferSize, c.WindowSize, c.BlockSize⟩ = .ok ↔ bufVerify (ofBHP c) = true := gen_bufVerify _
  have hh := gen_hashVerify ⟨c.InputLen, c.HashBits⟩
  dsimp only at hh
  rw [e, Bool.and_eq_true, ← hb, ← hh]
  -- the rest is propositional in the two results, whatever the shape of the generated function
  simp only [Gen.BHPConfig_Verify, gen_helper]
  gen_cases

theorem gen_accepted_BHP (c : Cfg) :
    accepted .BHP c = true ↔ Gen.BHPConfig_Verify (Gen.BHPConfig_SetDefaults (toBHP c)) = .ok := by
  rw [gen_verify_BHP, gen_setDefaults_BHP, ofBHP_toBHP]; rfl

end LZ.GenProps
