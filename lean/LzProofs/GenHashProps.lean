/-
  LzProofs.GenHashProps — the hash table of the hash parsers: the executable model
  (`LZ.HashT`, LzModel/Hash.lean) equals the mechanical translation of hash.go
  (`LZ.Gen.hash_init`, `hash_reset`, `hash_shiftOffsets`; LzModel/Generated/CodeHashTab.lean,
  regenerated from the repository on every check).

  Abstraction (from the Go state to the model state):
      ofHash g = { tbl      := the `len` elements of g.table as pairs (pos, value) of naturals,
                   inputLen := g.inputLen,
                   hashBits := 64 - g.shift }
  Invariant `HashWF g`: len(table) ≤ cap(table), 0 ≤ inputLen, mask = 1<<(8·inputLen) - 1
  (`maskOf`, the mask the model computes from inputLen where the Go code stores it), shift ≤ 64,
  len(table) = 2^hashBits.

      H01 gen_hash_init          init on valid arguments: ofHash = HashT.new inputLen hashBits, HashWF
          gen_hash_init_err      init on invalid arguments: state unchanged, error = the error
                                 hashConfig.Verify reports for the same values
      H02 gen_hash_reset         ofHash (reset g) = (ofHash g).clear
      H03 gen_hash_shiftOffsets  ofHash (shiftOffsets g δ) = (ofHash g).shiftOffsets δ

  None of the functions panics on a state satisfying the invariant (the result is `Res.ok`).
  The zeroing loops / `clear` calls of `init` and `reset` arrive as `GSlice.clear` (lemmas
  `gclear_*`, GenHashPropsBase); `shift_loop_eq` states what the translated `range` loop of
  `shiftOffsets` computes (`mapLoop`, GenHashPropsBase) and is the only lemma that follows the text
  of a generated definition.
-/
import LzModel.Generated.CodeHashTab
import LzModel.Generated.CodeCfgHash
import LzModel.Hash
import LzProofs.GenHashPropsBase
import LzProofs.GenPropsInts

set_option linter.unusedSimpArgs false
set_option linter.unusedVariables false

namespace LZ.GenHash
open LZ LZ.Gen LZ.GenBuf

/-- the zero value of `hashEntry` -/
def zeroE : hashEntry := { pos := 0, value := 0 }

def ofEntry (e : hashEntry) : Nat × Nat := (e.pos.toNat, e.value.toNat)

/-- the model state a Go `hash` value stands for -/
def ofHash (g : Gen.hash) : HashT :=
  { tbl := (g.table.data.map ofEntry).toArray, inputLen := g.inputLen.toNat, hashBits := 64 - g.shift.toNat }

/-- representation invariant of a Go `hash` value (established by `init`) -/
def HashWF (g : Gen.hash) : Prop :=
  GWF g.table ∧ 0 ≤ g.inputLen ∧ g.mask = maskOf g.inputLen.toNat ∧ g.shift.toNat ≤ 64 ∧
    g.table.len = 2 ^ (64 - g.shift.toNat)

@[simp] theorem ofEntry_zero : ofEntry zeroE = (0, 0) := rfl

/-- the same with the zero value written as the translator writes it -/
theorem ofEntry_zero' : ofEntry { pos := 0, value := 0 } = (0, 0) := rfl

theorem hashT_ext (a b : HashT) (h1 : a.tbl.toList = b.tbl.toList) (h2 : a.inputLen = b.inputLen)
    (h3 : a.hashBits = b.hashBits) : a = b := by
  cases a; cases b
  simp only [HashT.mk.injEq]
  exact ⟨Array.toList_inj.mp h1, h2, h3⟩

/-! ## the loops -/

/-- what `shiftOffsets` does to one entry -/
def shiftF (delta : UInt32) (e : hashEntry) : hashEntry :=
  if e.pos < delta then zeroE else { e with pos := e.pos - delta }

/-- the model's per-entry function of `HashT.shiftOffsets` -/
def shiftM (delta : Nat) (e : Nat × Nat) : Nat × Nat :=
  if e.1 < delta then (0, 0) else (e.1 - delta, e.2)

theorem ofEntry_shiftF (delta : UInt32) (e : hashEntry) : ofEntry (shiftF delta e) = shiftM delta.toNat (ofEntry e) := by
  unfold shiftF shiftM ofEntry
  by_cases h : e.pos < delta
  · have h' : e.pos.toNat < delta.toNat := UInt32.lt_iff_toNat_lt.mp h
    simp only [h, h', if_true]; rfl
  · have h' : ¬ e.pos.toNat < delta.toNat := fun c => h (UInt32.lt_iff_toNat_lt.mpr c)
    have hle : delta ≤ e.pos := UInt32.le_iff_toNat_le.mpr (by omega)
    simp only [h, h', if_false, UInt32.toNat_sub_of_le _ _ hle]

theorem shift_loop_eq (delta : UInt32) (n : Nat) : ∀ (i : Nat) (k : Int) (g : Gen.hash), k = (i : Int) →
    i + n ≤ g.table.len →
    hash_shiftOffsets_loop_1 delta n k g =
      Res.ok { g with table := { g.table with arr := mapLoop (shiftF delta) zeroE n i g.table.arr } } := by
  induction n with
  | zero => intro i k g _ _; rfl
  | succ n ih =>
    intro i k g hk hlen
    simp only [hash_shiftOffsets_loop_1]
    rw [gindex_ok _ _ _ i hk (by omega)]
    simp only [bind_ok]
    -- both ways of writing the test (`e.pos < delta` / `e.pos >= delta` with swapped arms) are decided;
    -- then whatever reads and writes of `h.table[i]` the taken arm consists of are executed
    by_cases hc : ((g.table.arr[i]?).getD { pos := 0, value := 0 }).pos < delta
    · have hc' : ¬ delta ≤ ((g.table.arr[i]?).getD { pos := 0, value := 0 }).pos := UInt32.not_le.mpr hc
      simp only [hc, hc', ge_iff_le, if_true, if_false]
      repeat (first | rw [gindex_ok _ _ _ i hk (by omega)] | rw [gset_ok _ _ i hk (by omega)] | simp only [bind_ok])
      rw [ih (i + 1) (k + 1) _ (by omega) (by show i + 1 + n ≤ g.table.len; omega)]
      simp only [mapLoop, shiftF, zeroE, hc, if_true]
    · have hc' : delta ≤ ((g.table.arr[i]?).getD { pos := 0, value := 0 }).pos := UInt32.not_lt.mp hc
      simp only [hc, hc', ge_iff_le, if_true, if_false]
      repeat (first | rw [gindex_ok _ _ _ i hk (by omega)] | rw [gset_ok _ _ i hk (by omega)] | simp only [bind_ok])
      rw [ih (i + 1) (k + 1) _ (by omega) (by show i + 1 + n ≤ g.table.len; omega)]
      simp only [mapLoop, shiftF, zeroE, hc, if_false]

/-! ## H02 reset -/

theorem data_mapLoop {g : Gen.hash} (hw : GWF g.table) (f : hashEntry → hashEntry) :
    ({ g.table with arr := mapLoop f zeroE g.table.len 0 g.table.arr } : GSlice hashEntry).data = g.table.data.map f := by
  unfold GSlice.data
  exact mapLoop_take f zeroE g.table.len g.table.arr hw

/-- H02 `reset` -/
theorem gen_hash_reset (g : Gen.hash) (h : HashWF g) :
    ∃ g', hash_reset g = Res.ok g' ∧ ofHash g' = (ofHash g).clear ∧ HashWF g' := by
  obtain ⟨hw, hil, hm, hs, hl⟩ := h
  unfold hash_reset
  (try simp only [gen_helper, bind_ok])
  refine ⟨_, rfl, ?_, ?_⟩
  · apply hashT_ext
    · simp only [ofHash, HashT.clear, gclear_data _ _ hw, List.map_replicate, ofEntry_zero', Array.toList_replicate,
        List.size_toArray, List.length_map, gdata_length hw]
    · rfl
    · rfl
  · exact ⟨gclear_wf _ _ hw, hil, hm, hs, hl⟩

/-! ## H03 shiftOffsets -/

/-- H03 `shiftOffsets` -/
theorem gen_hash_shiftOffsets (g : Gen.hash) (delta : UInt32) (h : HashWF g) :
    ∃ g', hash_shiftOffsets g delta = Res.ok g' ∧ ofHash g' = (ofHash g).shiftOffsets delta.toNat ∧ HashWF g' := by
  obtain ⟨hw, hil, hm, hs, hl⟩ := h
  unfold hash_shiftOffsets HashT.shiftOffsets
  by_cases hd : delta = 0
  · subst hd
    simp only [if_true]
    exact ⟨g, rfl, rfl, hw, hil, hm, hs, hl⟩
  · have hd' : ¬ delta.toNat = 0 := fun c => hd (UInt32.toNat_inj.mp c)
    simp only [hd, hd', if_false]
    rw [shift_loop_eq delta g.table.len 0 0 g rfl (by omega)]
    simp only [bind_ok]
    refine ⟨_, rfl, ?_, ?_⟩
    · apply hashT_ext
      · simp only [ofHash, data_mapLoop hw, List.map_map, Array.toList_map]
        apply List.map_congr_left
        intro e _
        exact ofEntry_shiftF delta e
      · rfl
      · rfl
    · exact ⟨by simpa [GWF, mapLoop_length] using hw, hil, hm, hs, hl⟩

/-! ## H01 init -/

/-- the arguments `init` accepts -/
def InitOK (il hb : Int) : Prop := 2 ≤ il ∧ il ≤ 8 ∧ 0 ≤ hb ∧ hb ≤ 24 ∧ hb ≤ 8 * il

theorem mask_eq (il : Int) (h1 : 2 ≤ il) (h2 : il ≤ 8) :
    (shlU64 (1 : UInt64) ((UInt64.ofInt il) * 8).toNat) - 1 = maskOf il.toNat := by
  have key : ∀ k : Fin 9, 2 ≤ k.val →
      (shlU64 (1 : UInt64) ((UInt64.ofInt (k.val : Int)) * 8).toNat) - 1 = maskOf k.val := by decide
  have := key ⟨il.toNat, by omega⟩ (by show 2 ≤ il.toNat; omega)
  have e : ((il.toNat : Nat) : Int) = il := by omega
  simpa only [e] using this

theorem shift_eq (hb : Int) (h1 : 0 ≤ hb) (h2 : hb ≤ 24) : (64 - (UInt64.ofInt hb)).toNat = 64 - hb.toNat := by
  have key : ∀ k : Fin 25, (64 - (UInt64.ofInt (k.val : Int))).toNat = 64 - k.val := by decide
  have := key ⟨hb.toNat, by omega⟩
  have e : ((hb.toNat : Nat) : Int) = hb := by omega
  simpa only [e] using this

theorem pow_cast (k : Nat) : (1 : Int) * (2 : Int) ^ k = ((2 ^ k : Nat) : Int) := by
  rw [Int.natCast_pow]; simp

/-- H01 `init` on arguments it rejects: the receiver is unchanged, the error is the one
    `hashConfig.Verify` reports for the same values (`gen_hashConfig_verify`, GenPropsCfgHash, relates
    that to the model's `hashVerify`) -/
theorem gen_hash_init_err (g : Gen.hash) (il hb : Int) (h : ¬ InitOK il hb) :
    hash_init g il hb = Res.ok (g, hashConfig_Verify { InputLen := il, HashBits := hb }) ∧
      hashConfig_Verify { InputLen := il, HashBits := hb } ≠ Gen.Err.ok := by
  unfold InitOK at h
  unfold hash_init hashConfig_Verify
  simp only [gen_helper, LZ.GenProps.gen_min]
  -- every combination of outcomes of the range checks (however they are written) of the two
  -- functions: contradictory, or both report the same error
  (repeat' split) <;> first
    | (exfalso; omega)
    | (refine ⟨?_, ?_⟩ <;> first | rfl | trivial | decide)

/-- H01 `init` on valid arguments; `cap(table)` decides whether the old array is re-used and
    cleared or a new one is made — the abstract state is the same -/
theorem gen_hash_init (g : Gen.hash) (il hb : Int) (hw : GWF g.table) (h : InitOK il hb) :
    ∃ g', hash_init g il hb = Res.ok (g', Gen.Err.ok) ∧ ofHash g' = HashT.new il.toNat hb.toNat ∧ HashWF g' := by
  obtain ⟨h1, h2, h3, h4, h5⟩ := h
  unfold hash_init
  simp only [gen_helper, LZ.GenProps.gen_min]
  -- the two range checks pass, however they are written
  rw [if_neg]
  case hnc => (repeat' split) <;> omega
  rw [if_neg]
  case hnc => (repeat' split) <;> omega
  rw [shiftCount_ok hb h3]
  simp only [bind_ok, pow_cast]
  have hsh := shift_eq hb h3 h4
  have hmk := mask_eq il h1 h2
  have hbits : 64 - (64 - hb.toNat) = hb.toNat := by omega
  have hpos : (0 : Int) ≤ ((2 ^ hb.toNat : Nat) : Int) := Int.natCast_nonneg _
  -- the test `n ≤ cap(table)` (or its negation with the arms swapped); in each arm: either the
  -- `make` arm or the re-slice-and-clear arm
  split
  all_goals first
    | -- `make([]hashEntry, n)` or with any capacity ≥ n
      rw [gmake_eq _ _ _ (by omega)]
      simp only [bind_ok, Int.toNat_natCast]
      refine ⟨_, rfl, ?_, ?_⟩
      · apply hashT_ext
        · simp only [ofHash, HashT.new, GSlice.data, List.take_replicate, List.map_replicate,
            Array.toList_replicate]
          congr 1
          omega
        · rfl
        · simp only [ofHash, HashT.new, hsh, hbits]
      · refine ⟨?_, (by show 0 ≤ il; omega), ?_, ?_, ?_⟩
        · simp only [GWF, List.length_replicate]; omega
        · simpa using hmk
        · simp only [hsh]; omega
        · simp only [hsh, hbits]
    | -- `table[:n]`, cleared
      rename_i hcap
      have hc' : 2 ^ hb.toNat ≤ g.table.arr.length := by
        simp only [GSlice.cap, Int.ofNat_eq_natCast] at hcap
        omega
      rw [gslice_ok g.table 0 _ 0 (2 ^ hb.toNat) rfl rfl (Nat.zero_le _) hc']
      simp only [bind_ok, List.drop_zero, Nat.sub_zero]
      have hw' : GWF ({ arr := g.table.arr, len := 2 ^ hb.toNat } : GSlice hashEntry) := hc'
      refine ⟨_, rfl, ?_, ?_⟩
      · apply hashT_ext
        · simp only [ofHash, HashT.new, gclear_data _ _ hw', List.map_replicate, ofEntry_zero',
            Array.toList_replicate]
        · rfl
        · simp only [ofHash, HashT.new, hsh, hbits]
      · refine ⟨gclear_wf _ _ hw', (by show 0 ≤ il; omega), ?_, ?_, ?_⟩
        · simpa using hmk
        · simp only [hsh]; omega
        · simp only [hsh, hbits, gclear_len]

end LZ.GenHash

#print axioms LZ.GenHash.gen_hash_init
#print axioms LZ.GenHash.gen_hash_init_err
#print axioms LZ.GenHash.gen_hash_reset
#print axioms LZ.GenHash.gen_hash_shiftOffsets
