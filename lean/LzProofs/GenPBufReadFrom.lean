/-
  LzProofs.GenPBufReadFrom — the translated `(*ParserBuffer).ReadFrom` (parser_buffer.go; topic PBufReadFrom,
  LzModel/Generated/CodePBufReadFrom.lean) equals the model's `PBuf.readFrom` (LzModel/PBuf.lean).

  The translation (tools/extract/code_lend.go) has `io.Reader` as an abstract state `io_Reader` and `r.Read(p)` as the
  opaque state-passing parameter `io_Reader_Read : io_Reader → Slice → Res (io_Reader × Slice × Int × Err)`; the window
  `p := b.Data[len(b.Data):end]` is LENT to the callee and written back (`Slice.writeBack`).  Here the callee is
  instantiated with the model's scripted reader (`LZ.Reader`, `Reader.read`): `mRead`.

    gen_pbuf_readFrom_agree   for EVERY buffer with `PBWF`, every script, fuel ≥ script length + 1:
                              Go panics iff the model reports `.panic`; otherwise same buffer (under `ofPB`), same
                              reader, same `n`, same error (`rfErr`), `PBWF` preserved
    gen_pbuf_readFrom         the same under `len ≤ BufferSize` and the capacity invariant `CapOK`: no panic
  `(0, nil)` answers are passed through and the loop continues (LzProofs/ReaderNil.lean); an exhausted script answers
  `(0, io.EOF)`.  No sorry, no axioms of its own.
-/
import LzModel.Generated.CodePBufReadFrom
import LzProofs.GenBufPropsP
import LzProofs.PBufLemmas
import LzProofs.ParseBuf
import LzProofs.GenPropsInts

set_option linter.unusedSimpArgs false
set_option linter.unusedVariables false

namespace LZ.GenBuf
open LZ LZ.Gen

/-- model error ↦ Go error value on the errors `ReadFrom` can return: `ErrFullBuffer`, `io.EOF`, the reader's own
    error `c ≥ 2` as a fresh code (the table of `GenHPHist.genErr`) -/
def rfErr : LZ.Err → Gen.Err
  | .ok => Gen.Err.ok
  | .full => Gen.ErrFullBuffer
  | .eof => Gen.io_EOF
  | .reader c => Gen.Err.error (3000 + 2 * c)
  | _ => Gen.Err.error 2903

theorem rfErr_errOfCode_ne (c : Nat) (h : c ≠ 0) : rfErr (errOfCode c) ≠ Gen.Err.ok := by
  unfold errOfCode
  split
  · exact absurd rfl h
  · intro hc; cases hc
  · intro hc; cases hc

theorem rfErr_errOfCode_zero : rfErr (errOfCode 0) = Gen.Err.ok := rfl

/-- `r.Read(p)` of the scripted reader: the bytes of the answer are written to the front of `p`; the rest of the array
    of `p` is untouched; `n` = number of bytes, error = the code of the answer (`(0, io.EOF)` on an exhausted script) -/
def mRead (r : Reader) (p : Slice) : Res (Reader × Slice × Int × Gen.Err) :=
  Res.ok ((r.read p.len).1,
    { arr := (r.read p.len).2.1 ++ p.arr.drop (r.read p.len).2.1.length, len := p.len },
    ((r.read p.len).2.1.length : Int), rfErr (errOfCode (r.read p.len).2.2))

theorem read_nil (p : List Byte) (sz : Nat) : Reader.read ⟨p, []⟩ sz = (⟨p, []⟩, [], 1) := rfl

theorem read_cons (p : List Byte) (mx ec : Nat) (rest : List (Nat × Nat)) (sz : Nat) :
    Reader.read ⟨p, (mx, ec) :: rest⟩ sz = (⟨p.drop (min3 mx sz p.length), rest⟩, p.take (min3 mx sz p.length), ec) := rfl

theorem read_length_le (r : Reader) (sz : Nat) : (r.read sz).2.1.length ≤ sz := by
  obtain ⟨p, rs⟩ := r
  cases rs with
  | nil => simp [read_nil]
  | cons x rest =>
    obtain ⟨mx, ec⟩ := x
    rw [read_cons]
    simp only [List.length_take, min3]
    omega

/-- the lent window: slice, call, write-back, re-slice — in terms of the list of bytes the reader delivered -/
theorem lend_read (s : Slice) (hs : SWF s) (e : Nat) (he1 : s.len ≤ e) (he2 : e ≤ s.arr.length) (r : Reader) :
    ∃ p p' s', Slice.slice s (Int.ofNat s.len) (e : Int) = Res.ok p ∧ p.len = e - s.len ∧
      mRead r p = Res.ok ((r.read (e - s.len)).1, p', ((r.read (e - s.len)).2.1.length : Int),
        rfErr (errOfCode (r.read (e - s.len)).2.2)) ∧
      Slice.slice (Slice.writeBack s p') 0 (Int.ofNat (Slice.writeBack s p').len + ((r.read (e - s.len)).2.1.length : Int))
        = Res.ok s' ∧
      s'.data = s.data ++ (r.read (e - s.len)).2.1 ∧ s'.arr.length = s.arr.length ∧
      s'.len = s.len + (r.read (e - s.len)).2.1.length := by
  have hs' : s.len ≤ s.arr.length := hs
  have hle := read_length_le r (e - s.len)
  refine ⟨Slice.mk (s.arr.drop s.len) (e - s.len),
    Slice.mk ((r.read (e - s.len)).2.1 ++ (s.arr.drop s.len).drop (r.read (e - s.len)).2.1.length) (e - s.len),
    Slice.mk ((Slice.writeBack s (Slice.mk ((r.read (e - s.len)).2.1 ++
        (s.arr.drop s.len).drop (r.read (e - s.len)).2.1.length) (e - s.len))).arr.drop 0)
      (s.len + (r.read (e - s.len)).2.1.length - 0),
    ?_, rfl, rfl, ?_, ?_, ?_, ?_⟩
  · exact slice_ok s s.len e he1 he2
  · have h0 : ((0 : Nat) : Int) = 0 := rfl
    have hcast : Int.ofNat (Slice.writeBack s
        { arr := (r.read (e - s.len)).2.1 ++ (s.arr.drop s.len).drop (r.read (e - s.len)).2.1.length, len := e - s.len }).len +
        ((r.read (e - s.len)).2.1.length : Int) = ((s.len + (r.read (e - s.len)).2.1.length : Nat) : Int) := by
      show ((s.len : Nat) : Int) + _ = _
      omega
    rw [hcast, ← h0]
    apply slice_ok
    · omega
    · simp only [Slice.writeBack, List.length_append, List.length_take, List.length_drop]
      omega
  · simp only [Slice.writeBack, Slice.data, List.length_append, List.length_drop, List.drop_zero, Nat.sub_zero]
    have h1 : s.arr.length - ((r.read (e - s.len)).2.1.length + (s.arr.length - s.len - (r.read (e - s.len)).2.1.length)) = s.len := by
      omega
    rw [h1, ← List.append_assoc]
    rw [List.take_append_of_le_length (by simp only [List.length_append, List.length_take]; omega)]
    rw [List.take_of_length_le (by simp only [List.length_append, List.length_take]; omega)]
  · simp only [Slice.writeBack, List.length_append, List.length_take, List.length_drop, List.drop_zero]
    omega
  · simp only [Nat.sub_zero]

theorem gen_min_nat (a b : Nat) : Gen.min (a : Int) (b : Int) = ((Nat.min a b : Nat) : Int) := by
  rw [LZ.GenProps.gen_min]
  have : Nat.min a b = if a ≤ b then a else b := natmin_le a b
  rw [this]
  split <;> omega

/-- the result of `ReadFrom` agrees with the model's; a model `.panic` stands for a Go panic -/
def RLAgree (x : Res (Gen.Err × ParserBuffer × Reader)) (b : ParserBuffer) (m : PBuf × Reader × LZ.Err) : Prop :=
  match x with
  | .ok (e, b', r') => m.2.2 ≠ .panic ∧ ofPB b' = m.1 ∧ r' = m.2.1 ∧ e = rfErr m.2.2 ∧ PBWF b' ∧ b.Data.len ≤ b'.Data.len
  | .panic => m.2.2 = .panic
  | .fuel => False

/-- one unfolding of the model loop with the script made explicit -/
theorem readLoop_nil (b : PBuf) (p : List Byte) :
    PBuf.readLoop b ⟨p, []⟩ =
      if b.data.length ≥ b.cfg.bufferSize then (b, ⟨p, []⟩, .full)
      else
        match (if Min.min (b.data.length + Facts.chunkSize) b.cfg.bufferSize + Facts.margin > b.cap
            then b.grow (Min.min (b.data.length + Facts.chunkSize) b.cfg.bufferSize) else some b) with
        | none => (b, ⟨p, []⟩, .panic)
        | some b' =>
          if b'.cap < Facts.margin ∨ Min.min (b'.cap - Facts.margin) b'.cfg.bufferSize < b'.data.length then (b', ⟨p, []⟩, .panic)
          else (b', ⟨p, []⟩, .eof) := by
  rw [PBuf.readLoop]
  by_cases h0 : b.data.length ≥ b.cfg.bufferSize
  · simp only [h0, if_true]
  · simp only [h0, if_false]
    generalize (if Min.min (b.data.length + Facts.chunkSize) b.cfg.bufferSize + Facts.margin > b.cap
            then b.grow (Min.min (b.data.length + Facts.chunkSize) b.cfg.bufferSize) else some b) = o
    cases o with
    | none => rfl
    | some b' =>
      simp only []

theorem readLoop_cons (b : PBuf) (p : List Byte) (mx ec : Nat) (rest : List (Nat × Nat)) :
    PBuf.readLoop b ⟨p, (mx, ec) :: rest⟩ =
      if b.data.length ≥ b.cfg.bufferSize then (b, ⟨p, (mx, ec) :: rest⟩, .full)
      else
        match (if Min.min (b.data.length + Facts.chunkSize) b.cfg.bufferSize + Facts.margin > b.cap
            then b.grow (Min.min (b.data.length + Facts.chunkSize) b.cfg.bufferSize) else some b) with
        | none => (b, ⟨p, (mx, ec) :: rest⟩, .panic)
        | some b' =>
          if b'.cap < Facts.margin ∨ Min.min (b'.cap - Facts.margin) b'.cfg.bufferSize < b'.data.length
          then (b', ⟨p, (mx, ec) :: rest⟩, .panic)
          else
            if ec ≠ 0 then
              ({ b' with data := b'.data ++ p.take (min3 mx (Min.min (b'.cap - Facts.margin) b'.cfg.bufferSize - b'.data.length) p.length) },
                ⟨p.drop (min3 mx (Min.min (b'.cap - Facts.margin) b'.cfg.bufferSize - b'.data.length) p.length), rest⟩, errOfCode ec)
            else PBuf.readLoop
              { b' with data := b'.data ++ p.take (min3 mx (Min.min (b'.cap - Facts.margin) b'.cfg.bufferSize - b'.data.length) p.length) }
              ⟨p.drop (min3 mx (Min.min (b'.cap - Facts.margin) b'.cfg.bufferSize - b'.data.length) p.length), rest⟩ := by
  rw [PBuf.readLoop]
  by_cases h0 : b.data.length ≥ b.cfg.bufferSize
  · simp only [h0, if_true]
  · simp only [h0, if_false]
    generalize (if Min.min (b.data.length + Facts.chunkSize) b.cfg.bufferSize + Facts.margin > b.cap
            then b.grow (Min.min (b.data.length + Facts.chunkSize) b.cfg.bufferSize) else some b) = o
    cases o with
    | none => rfl
    | some b' =>
      simp only []

/-- the `grow` idiom of the loop: `if t+7 > cap(b.Data) { b.grow(t) }` -/
theorem gen_ensure (b : ParserBuffer) (h : PBWF b) (T : Nat) (f : ParserBuffer → Res ParserBuffer)
    (hf : ∀ x, f x = Res.ok x) :
    match (if T + Facts.margin > (ofPB b).cap then (ofPB b).grow T else some (ofPB b)) with
    | some m => ∃ b', (if ((T : Int) + 7) > (Int.ofNat b.Data.cap) then Res.bind (ParserBuffer_grow b (T : Int)) f
          else Res.ok b) = Res.ok b' ∧ ofPB b' = m ∧ PBWF b' ∧ m.data = (ofPB b).data
    | none => (if ((T : Int) + 7) > (Int.ofNat b.Data.cap) then Res.bind (ParserBuffer_grow b (T : Int)) f
          else Res.ok b) = Res.panic := by
  have hcap : (ofPB b).cap = b.Data.cap := rfl
  have hm : Facts.margin = 7 := PBuf.margin_eq
  by_cases hc : T + Facts.margin > (ofPB b).cap
  · have hc' : ((T : Int) + 7) > (Int.ofNat b.Data.cap) := by
      show ((T : Int) + 7) > ((b.Data.cap : Nat) : Int)
      omega
    simp only [hc, hc', if_true]
    have hg := gen_pbuf_grow b h T
    split at hg
    · obtain ⟨b', h1, h2, h3⟩ := hg
      rename_i m hm'
      simp only [hm']
      refine ⟨b', by rw [h1]; simp only [bind_ok, hf], h2, h3, ?_⟩
      rw [model_grow_unfold] at hm'
      split at hm'
      · cases hm'; rfl
      · split at hm'
        · cases hm'; rfl
        · cases hm'
    · rename_i hm'
      simp only [hm']
      rw [hg]; rfl
  · have hc' : ¬ ((T : Int) + 7) > (Int.ofNat b.Data.cap) := by
      show ¬ ((T : Int) + 7) > ((b.Data.cap : Nat) : Int)
      omega
    simp only [hc, hc', if_false]
    exact ⟨b, rfl, rfl, h, by first | rfl | trivial⟩

theorem bind_ok_right {α : Type} (x : Res α) : Res.bind x (fun a => Res.ok a) = x := by
  cases x <;> rfl

/-- the model loop, one iteration, in terms of `Reader.read` (both shapes of the script) -/
theorem readLoop_read (b : PBuf) (r : Reader) :
    PBuf.readLoop b r =
      if b.data.length ≥ b.cfg.bufferSize then (b, r, .full)
      else
        match (if Min.min (b.data.length + Facts.chunkSize) b.cfg.bufferSize + Facts.margin > b.cap
            then b.grow (Min.min (b.data.length + Facts.chunkSize) b.cfg.bufferSize) else some b) with
        | none => (b, r, .panic)
        | some b' =>
          if b'.cap < Facts.margin ∨ Min.min (b'.cap - Facts.margin) b'.cfg.bufferSize < b'.data.length
          then (b', r, .panic)
          else
            if (r.read (Min.min (b'.cap - Facts.margin) b'.cfg.bufferSize - b'.data.length)).2.2 ≠ 0 then
              ({ b' with data := b'.data ++ (r.read (Min.min (b'.cap - Facts.margin) b'.cfg.bufferSize - b'.data.length)).2.1 },
                (r.read (Min.min (b'.cap - Facts.margin) b'.cfg.bufferSize - b'.data.length)).1,
                errOfCode (r.read (Min.min (b'.cap - Facts.margin) b'.cfg.bufferSize - b'.data.length)).2.2)
            else PBuf.readLoop
              { b' with data := b'.data ++ (r.read (Min.min (b'.cap - Facts.margin) b'.cfg.bufferSize - b'.data.length)).2.1 }
              (r.read (Min.min (b'.cap - Facts.margin) b'.cfg.bufferSize - b'.data.length)).1 := by
  obtain ⟨p, rs⟩ := r
  cases rs with
  | nil =>
    rw [readLoop_nil]
    simp only [read_nil, List.append_nil]
    split
    · rfl
    · split
      · rfl
      · split
        · rfl
        · rfl
  | cons x rest =>
    obtain ⟨mx, ec⟩ := x
    rw [readLoop_cons]
    simp only [read_cons]
    rfl

theorem read_code_zero (r : Reader) (sz : Nat) (h : (r.read sz).2.2 = 0) :
    (r.read sz).1.resps.length + 1 = r.resps.length := by
  obtain ⟨p, rs⟩ := r
  cases rs with
  | nil => simp [read_nil] at h
  | cons x rest =>
    obtain ⟨mx, ec⟩ := x
    simp [read_cons]

theorem RLAgree_mono {x : Res (Gen.Err × ParserBuffer × Reader)} {b b2 : ParserBuffer} {m : PBuf × Reader × LZ.Err}
    (hl : b.Data.len ≤ b2.Data.len) (h : RLAgree x b2 m) : RLAgree x b m := by
  unfold RLAgree at *
  split
  · rename_i e b' r'
    simp only [] at h
    obtain ⟨h1, h2, h3, h4, h5, h6⟩ := h
    exact ⟨h1, h2, h3, h4, h5, by omega⟩
  · exact h
  · exact h

theorem loop_step (r : Reader) (b : ParserBuffer) (err0 : Gen.Err) (fuel : Nat) (h : PBWF b)
    (IH : ∀ (b2 : ParserBuffer) (err : Gen.Err) (r' : Reader), r'.resps.length + 1 = r.resps.length → PBWF b2 →
      RLAgree (ParserBuffer_ReadFrom_loop_1 mRead fuel err b2 r') b2 (PBuf.readLoop (ofPB b2) r')) :
    RLAgree (ParserBuffer_ReadFrom_loop_1 mRead (fuel + 1) err0 b r) b (PBuf.readLoop (ofPB b) r) := by
  rw [ParserBuffer_ReadFrom_loop_1]
  generalize hM : PBuf.readLoop (ofPB b) r = M
  rw [readLoop_read] at hM
  have hswf : b.Data.len ≤ b.Data.arr.length := h.data
  have hlen : (ofPB b).data.length = b.Data.len := data_length h.data
  obtain ⟨B, hB⟩ : ∃ B : Nat, b.BufConfig.BufferSize = (B : Int) := ⟨b.BufConfig.BufferSize.toNat, by have := h.bs; omega⟩
  have hbs : (ofPB b).cfg.bufferSize = B := by simp only [ofPB, ofCfg]; omega
  -- the buffer-full test of the Go text, whatever its spelling
  split
  · rename_i hgo
    simp only [Int.ofNat_eq_natCast] at hgo
    have hfull : (ofPB b).data.length ≥ (ofPB b).cfg.bufferSize := by omega
    simp only [hfull, if_true] at hM
    subst hM
    exact ⟨(by intro hc; cases hc), rfl, rfl, rfl, h, Nat.le_refl _⟩
  · rename_i hgo
    simp only [Int.ofNat_eq_natCast] at hgo
    have hfull : ¬ (ofPB b).data.length ≥ (ofPB b).cfg.bufferSize := by omega
    simp only [hfull, if_false] at hM
    subst hM
    simp only []
    have hT : Gen.min (Int.ofNat b.Data.len + 32768) b.BufConfig.BufferSize =
        ((Min.min ((ofPB b).data.length + Facts.chunkSize) (ofPB b).cfg.bufferSize : Nat) : Int) := by
      rw [hlen, hbs, hB]
      have : Int.ofNat b.Data.len + 32768 = ((b.Data.len + Facts.chunkSize : Nat) : Int) := by
        show ((b.Data.len : Nat) : Int) + 32768 = _
        have : Facts.chunkSize = 32768 := by decide
        omega
      rw [this]
      exact gen_min_nat _ _
    rw [hT]
    simp only [bind_ok_right]
    have hE := gen_ensure b h (Min.min ((ofPB b).data.length + Facts.chunkSize) (ofPB b).cfg.bufferSize) (fun x => Res.ok x)
      (fun x => rfl)
    simp only [bind_ok_right] at hE
    revert hE
    generalize (if Min.min ((ofPB b).data.length + Facts.chunkSize) (ofPB b).cfg.bufferSize + Facts.margin > (ofPB b).cap
      then (ofPB b).grow (Min.min ((ofPB b).data.length + Facts.chunkSize) (ofPB b).cfg.bufferSize) else some (ofPB b)) = o
    intro hE
    cases o with
    | none =>
      simp only [] at hE
      rw [hE]
      rfl
    | some m =>
      simp only [] at hE
      obtain ⟨b1, hE1, hE2, hE3, hE4⟩ := hE
      rw [hE1]
      simp only [bind_ok]
      subst hE2
      have hswf1 : b1.Data.len ≤ b1.Data.arr.length := hE3.data
      have hlen1 : (ofPB b1).data.length = b1.Data.len := data_length hE3.data
      have hL : b.Data.len = b1.Data.len := by rw [← hlen, ← hlen1, hE4]
      obtain ⟨B1, hB1⟩ : ∃ B : Nat, b1.BufConfig.BufferSize = (B : Int) :=
        ⟨b1.BufConfig.BufferSize.toNat, by have := hE3.bs; omega⟩
      have hbs1 : (ofPB b1).cfg.bufferSize = B1 := by simp only [ofPB, ofCfg]; omega
      have hcap1 : (ofPB b1).cap = b1.Data.arr.length := rfl
      have hm : Facts.margin = 7 := PBuf.margin_eq
      have hcapI : Int.ofNat b1.Data.cap = (b1.Data.arr.length : Int) := rfl
      have hlenI : Int.ofNat b1.Data.len = (b1.Data.len : Int) := rfl
      rw [hlen1, hbs1, hcap1, hm, hB1, hcapI, hlenI]
      by_cases hbad : b1.Data.arr.length < 7 ∨ Min.min (b1.Data.arr.length - 7) B1 < b1.Data.len
      · simp only [hbad, if_true]
        rw [slice_panic]
        · rfl
        · -- the clamp of `end`, whatever its spelling
          first
          | omega
          | (split <;> omega)
          | (rw [LZ.GenProps.gen_min]; omega)
      · simp only [hbad, if_false]
        obtain ⟨p, p', s', h1, h2, h3, h4, h5, h6, h7⟩ :=
          lend_read b1.Data hE3.data (Min.min (b1.Data.arr.length - 7) B1) (by omega) (by omega) r
        have hsl : ∀ e' : Int, e' = ((Min.min (b1.Data.arr.length - 7) B1 : Nat) : Int) →
            Slice.slice b1.Data (b1.Data.len : Int) e' = Res.ok p := by
          intro e' he; rw [he]; exact h1
        rw [hsl]
        rotate_left
        · -- the clamp of `end`, whatever its spelling
          first
          | omega
          | (split <;> omega)
          | (rw [LZ.GenProps.gen_min]; omega)
        simp only [bind_ok]
        rw [h3]
        simp only [bind_ok]
        rw [h4]
        simp only [bind_ok]
        generalize hx : r.read (Min.min (b1.Data.arr.length - 7) B1 - b1.Data.len) = x at h3 h4 h5 h6 h7 ⊢
        have hof : ofPB { Data := s', W := b1.W, Off := b1.Off, BufConfig := b1.BufConfig } =
            { data := (ofPB b1).data ++ x.2.1, w := (ofPB b1).w, off := (ofPB b1).off, cap := b1.Data.arr.length,
              cfg := (ofPB b1).cfg } := by
          simp only [ofPB, h5, Slice.cap, h6]
        have hwf2 : PBWF { Data := s', W := b1.W, Off := b1.Off, BufConfig := b1.BufConfig } := by
          refine ⟨?_, hE3.w, hE3.off, hE3.ss, hE3.bs⟩
          show s'.len ≤ s'.arr.length
          have := read_length_le r (Min.min (b1.Data.arr.length - 7) B1 - b1.Data.len)
          rw [hx] at this
          omega
        by_cases hcode : x.2.2 = 0
        · have hne : ¬ (x.2.2 ≠ 0) := by omega
          have hgo : ¬ (rfErr (errOfCode x.2.2) ≠ Gen.Err.ok) := by rw [hcode]; exact fun hh => hh rfl
          simp only [hne, hgo, if_false]
          rw [← hof]
          refine RLAgree_mono (by show b.Data.len ≤ s'.len; omega) (IH _ _ _ ?_ hwf2)
          have := read_code_zero r (Min.min (b1.Data.arr.length - 7) B1 - b1.Data.len) (by rw [hx]; exact hcode)
          rw [hx] at this
          exact this
        · have hgo : rfErr (errOfCode x.2.2) ≠ Gen.Err.ok := rfErr_errOfCode_ne _ hcode
          simp only [hcode, hgo, ne_eq, not_false_eq_true, if_true]
          refine ⟨?_, hof, rfl, rfl, hwf2, ?_⟩
          · show errOfCode x.2.2 ≠ .panic
            unfold errOfCode
            split <;> intro hc <;> cases hc
          · show b.Data.len ≤ s'.len
            omega

theorem readLoop_agree : ∀ (n : Nat) (r : Reader) (b : ParserBuffer) (err0 : Gen.Err) (fuel : Nat),
    r.resps.length = n → PBWF b → n + 1 ≤ fuel →
    RLAgree (ParserBuffer_ReadFrom_loop_1 mRead fuel err0 b r) b (PBuf.readLoop (ofPB b) r) := by
  intro n
  induction n with
  | zero =>
    intro r b err0 fuel hn h hf
    obtain ⟨fuel, rfl⟩ : ∃ f, fuel = f + 1 := ⟨fuel - 1, by omega⟩
    exact loop_step r b err0 fuel h (fun b2 err r' hr _ => by omega)
  | succ n ih =>
    intro r b err0 fuel hn h hf
    obtain ⟨fuel, rfl⟩ : ∃ f, fuel = f + 1 := ⟨fuel - 1, by omega⟩
    exact loop_step r b err0 fuel h (fun b2 err r' hr h2 => ih r' b2 err fuel (by omega) h2 (by omega))

/-- agreement of the results of `ReadFrom`; a model `.panic` stands for a Go panic -/
def RFAgree (x : Res (ParserBuffer × Reader × Int × Gen.Err)) (m : PBuf × Reader × Nat × LZ.Err) : Prop :=
  match x with
  | .ok (b', r', n, e) => m.2.2.2 ≠ .panic ∧ ofPB b' = m.1 ∧ r' = m.2.1 ∧ n = (m.2.2.1 : Int) ∧ e = rfErr m.2.2.2 ∧ PBWF b'
  | .panic => m.2.2.2 = .panic
  | .fuel => False

/-- **`ReadFrom` of the Go text = `PBuf.readFrom`**, for every buffer, every reader script (short reads, `(0, nil)`
    answers, errors at any call, exhausted script = `io.EOF`), explicit fuel: one more than the script length. -/
theorem gen_pbuf_readFrom_agree (b : ParserBuffer) (h : PBWF b) (r : Reader) (fuel : Nat) (hf : r.resps.length + 1 ≤ fuel) :
    RFAgree (ParserBuffer_ReadFrom fuel mRead b r) (PBuf.readFrom (ofPB b) r) := by
  have hl := readLoop_agree r.resps.length r b Gen.Err.ok fuel rfl h hf
  unfold ParserBuffer_ReadFrom PBuf.readFrom
  simp only []
  revert hl
  generalize ParserBuffer_ReadFrom_loop_1 mRead fuel Gen.Err.ok b r = X
  generalize PBuf.readLoop (ofPB b) r = M
  intro hl
  obtain ⟨m1, m2, m3⟩ := M
  cases X with
  | ok v =>
    obtain ⟨e, b', r'⟩ := v
    obtain ⟨h1, h2, h3, h4, h5, h6⟩ := hl
    simp only [bind_ok]
    refine ⟨h1, h2, h3, ?_, h4, h5⟩
    simp only [] at h2
    have : m1.data.length = b'.Data.len := by rw [← h2]; exact data_length h5.data
    have h0 : (ofPB b).data.length = b.Data.len := data_length h.data
    show Int.ofNat b'.Data.len - Int.ofNat b.Data.len = ((m1.data.length - (ofPB b).data.length : Nat) : Int)
    rw [this, h0]
    show ((b'.Data.len : Nat) : Int) - ((b.Data.len : Nat) : Int) = _
    omega
  | panic => exact hl
  | fuel => exact hl

/-- the capacity invariant of the history theorems: empty, or 7 spare bytes -/
theorem gen_pbuf_readFrom (b : ParserBuffer) (h : PBWF b) (hcap : (ofPB b).CapOK)
    (hlen : (ofPB b).data.length ≤ (ofPB b).cfg.bufferSize) (r : Reader) (fuel : Nat) (hf : r.resps.length + 1 ≤ fuel) :
    ∃ b', ParserBuffer_ReadFrom fuel mRead b r = Res.ok (b', (PBuf.readFrom (ofPB b) r).2.1,
        ((PBuf.readFrom (ofPB b) r).2.2.1 : Int), rfErr (PBuf.readFrom (ofPB b) r).2.2.2) ∧
      ofPB b' = (PBuf.readFrom (ofPB b) r).1 ∧ PBWF b' := by
  have hnp : (PBuf.readFrom (ofPB b) r).2.2.2 ≠ .panic := by
    obtain ⟨c, pre, hb, -, hn1, hn2, hm, -, -, hcase⟩ :=
      PBuf.readFrom_master hlen (r := r) (b' := (PBuf.readFrom (ofPB b) r).1)
        (r' := (PBuf.readFrom (ofPB b) r).2.1) (n := (PBuf.readFrom (ofPB b) r).2.2.1)
        (e := (PBuf.readFrom (ofPB b) r).2.2.2) rfl
    rcases hcase with ⟨h1, -⟩ | ⟨h1, -⟩ | ⟨mx, ec, -, -, h1⟩
    · rw [h1]; intro hc; cases hc
    · rw [h1]; intro hc; cases hc
    · rw [h1]; unfold errOfCode; split <;> intro hc <;> cases hc
  have ha := gen_pbuf_readFrom_agree b h r fuel hf
  revert ha
  generalize ParserBuffer_ReadFrom fuel mRead b r = X
  intro ha
  cases X with
  | ok v =>
    obtain ⟨b', r', n, e⟩ := v
    obtain ⟨h1, h2, h3, h4, h5, h6⟩ := ha
    subst h3; subst h4; subst h5
    exact ⟨b', rfl, h2, h6⟩
  | panic => exact absurd ha hnp
  | fuel => exact ha.elim

end LZ.GenBuf

#print axioms LZ.GenBuf.gen_pbuf_readFrom_agree
#print axioms LZ.GenBuf.gen_pbuf_readFrom
