/-
  LzProofs.GenPBufReadFrom — the translated `(*ParserBuffer).ReadFrom` (parser_buffer.go; topic PBufReadFrom,
  LzModel/Generated/CodePBufReadFrom.lean) equals the model's `PBuf.readFrom` (LzModel/PBuf.lean).

  The translation (tools/extract/code_lend.go) has `io.Reader` as an abstract state `io_Reader` and `r.Read(p)` as the
  opaque state-passing parameter `io_Reader_Read : io_Reader → Slice → Res (io_Reader × Slice × Int × Err)`; the window
  `p := b.Data[len(b.Data):end]` is LENT to the callee and written back (`Slice.writeBack`).  Here the callee is
  instantiated with the model's scripted reader (`LZ.Reader`, `Reader.read`): `mRead`.

    gen_pbuf_readFrom_agree   for EVERY buffer with `PBWF`, every script, fuel ≥ script length + 1:
                              Go panics iff the model reports `.panic`; otherwise same buffer (under `ofPB`), same
                              reader, same `n`, same error (`rfErr`), `PBWF` preserved
    gen_pbuf_readFrom         the same under `len ≤ BufferSize` and the capacity invariant `CapOK`: no panic
  `(0, nil)` answers are passed through and the loop continues (LzProofs/ReaderNil.lean); an exhausted script answers
  `(0, io.EOF)`.  No sorry, no axioms of its own.

  Shape independence.  No statement of this file mentions the loop function `ParserBuffer_ReadFrom_loop_1` (its argument
  list, state tuple and exit codes change when the Go loop is restructured, e.g. `for { if full { err = …; break } … }`
  ↦ `for !full { … return … }; return …`).  `gen_pbuf_readFrom_agree` unfolds `ParserBuffer_ReadFrom`, generalises the
  start length and proves the WHOLE block `Res.bind (loop …) tail` by induction on the fuel inside the one proof: the
  loop function is unfolded by its defining equation only, every `if` of the Go text is decided by `omega` from the
  model's case split (`decide_ite`: any spelling, either arm), `t`, the `grow` idiom, the clamp of `end` and the two
  slice bounds are taken from the goal by unification (`generalize` of the first `if` of a type / `∀ e', e' = … →`
  lemmas whose side condition is `omega` / `split <;> omega`), the exit code of a returning loop is evaluated by `simp`.
  What the proof does depend on: the state of the loop other than `b`, `r` is re-entered unchanged after a `nil` error
  (`err = nil` is rewritten), the order window — read — write-back — re-slice — error test, and the lemmas about them
  (`lend_read`, `gen_ensure`, `readLoop_read`).
-/
import LzModel.Generated.CodePBufReadFrom
import LzProofs.GenBufPropsP
import LzProofs.PBufLemmas
import LzProofs.ParseBuf
import LzProofs.GenPropsInts

set_option linter.unusedSimpArgs false
set_option linter.unusedVariables false

namespace LZ.GenBuf
open LZ LZ.Gen

/-- model error ↦ Go error value on the errors `ReadFrom` can return: `ErrFullBuffer`, `io.EOF`, the reader's own
    error `c ≥ 2` as a fresh code (the table of `GenHPHist.genErr`) -/
def rfErr : LZ.Err → Gen.Err
  | .ok => Gen.Err.ok
  | .full => Gen.ErrFullBuffer
  | .eof => Gen.io_EOF
  | .reader c => Gen.Err.error (3000 + 2 * c)
  | _ => Gen.Err.error 2903

theorem rfErr_errOfCode_ne (c : Nat) (h : c ≠ 0) : rfErr (errOfCode c) ≠ Gen.Err.ok := by
  unfold errOfCode
  split
  · exact absurd rfl h
  · intro hc; cases hc
  · intro hc; cases hc

theorem rfErr_errOfCode_zero : rfErr (errOfCode 0) = Gen.Err.ok := rfl

/-- `r.Read(p)` of the scripted reader: the bytes of the answer are written to the front of `p`; the rest of the array
    of `p` is untouched; `n` = number of bytes, error = the code of the answer (`(0, io.EOF)` on an exhausted script) -/
def mRead (r : Reader) (p : Slice) : Res (Reader × Slice × Int × Gen.Err) :=
  Res.ok ((r.read p.len).1,
    { arr := (r.read p.len).2.1 ++ p.arr.drop (r.read p.len).2.1.length, len := p.len },
    ((r.read p.len).2.1.length : Int), rfErr (errOfCode (r.read p.len).2.2))

theorem read_nil (p : List Byte) (sz : Nat) : Reader.read ⟨p, []⟩ sz = (⟨p, []⟩, [], 1) := rfl

theorem read_cons (p : List Byte) (mx ec : Nat) (rest : List (Nat × Nat)) (sz : Nat) :
    Reader.read ⟨p, (mx, ec) :: rest⟩ sz = (⟨p.drop (min3 mx sz p.length), rest⟩, p.take (min3 mx sz p.length), ec) := rfl

theorem read_length_le (r : Reader) (sz : Nat) : (r.read sz).2.1.length ≤ sz := by
  obtain ⟨p, rs⟩ := r
  cases rs with
  | nil => simp [read_nil]
  | cons x rest =>
    obtain ⟨mx, ec⟩ := x
    rw [read_cons]
    simp only [List.length_take, min3]
    omega

/-- the lent window: slice, call, write-back, re-slice — in terms of the list of bytes the reader delivered -/
theorem lend_read (s : Slice) (hs : SWF s) (e : Nat) (he1 : s.len ≤ e) (he2 : e ≤ s.arr.length) (r : Reader) :
    ∃ p p' s', Slice.slice s (s.len : Int) (e : Int) = Res.ok p ∧ p.len = e - s.len ∧
      mRead r p = Res.ok ((r.read (e - s.len)).1, p', ((r.read (e - s.len)).2.1.length : Int),
        rfErr (errOfCode (r.read (e - s.len)).2.2)) ∧
      Slice.slice (Slice.writeBack s p') 0 (((Slice.writeBack s p').len : Int) + ((r.read (e - s.len)).2.1.length : Int))
        = Res.ok s' ∧
      s'.data = s.data ++ (r.read (e - s.len)).2.1 ∧ s'.arr.length = s.arr.length ∧
      s'.len = s.len + (r.read (e - s.len)).2.1.length := by
  have hs' : s.len ≤ s.arr.length := hs
  have hle := read_length_le r (e - s.len)
  refine ⟨Slice.mk (s.arr.drop s.len) (e - s.len),
    Slice.mk ((r.read (e - s.len)).2.1 ++ (s.arr.drop s.len).drop (r.read (e - s.len)).2.1.length) (e - s.len),
    Slice.mk ((Slice.writeBack s (Slice.mk ((r.read (e - s.len)).2.1 ++
        (s.arr.drop s.len).drop (r.read (e - s.len)).2.1.length) (e - s.len))).arr.drop 0)
      (s.len + (r.read (e - s.len)).2.1.length - 0),
    ?_, rfl, rfl, ?_, ?_, ?_, ?_⟩
  · exact slice_ok s s.len e he1 he2
  · have h0 : ((0 : Nat) : Int) = 0 := rfl
    have hcast : ((Slice.writeBack s
        { arr := (r.read (e - s.len)).2.1 ++ (s.arr.drop s.len).drop (r.read (e - s.len)).2.1.length, len := e - s.len }).len : Int) +
        ((r.read (e - s.len)).2.1.length : Int) = ((s.len + (r.read (e - s.len)).2.1.length : Nat) : Int) := by
      show ((s.len : Nat) : Int) + _ = _
      omega
    rw [hcast, ← h0]
    apply slice_ok
    · omega
    · simp only [Slice.writeBack, List.length_append, List.length_take, List.length_drop]
      omega
  · simp only [Slice.writeBack, Slice.data, List.length_append, List.length_drop, List.drop_zero, Nat.sub_zero]
    have h1 : s.arr.length - ((r.read (e - s.len)).2.1.length + (s.arr.length - s.len - (r.read (e - s.len)).2.1.length)) = s.len := by
      omega
    rw [h1, ← List.append_assoc]
    rw [List.take_append_of_le_length (by simp only [List.length_append, List.length_take]; omega)]
    rw [List.take_of_length_le (by simp only [List.length_append, List.length_take]; omega)]
  · simp only [Slice.writeBack, List.length_append, List.length_take, List.length_drop, List.drop_zero]
    omega
  · simp only [Nat.sub_zero]

/-- one unfolding of the model loop with the script made explicit -/
theorem readLoop_nil (b : PBuf) (p : List Byte) :
    PBuf.readLoop b ⟨p, []⟩ =
      if b.data.length ≥ b.cfg.bufferSize then (b, ⟨p, []⟩, .full)
      else
        match (if Min.min (b.data.length + Facts.chunkSize) b.cfg.bufferSize + Facts.margin > b.cap
            then b.grow (Min.min (b.data.length + Facts.chunkSize) b.cfg.bufferSize) else some b) with
        | none => (b, ⟨p, []⟩, .panic)
        | some b' =>
          if b'.cap < Facts.margin ∨ Min.min (b'.cap - Facts.margin) b'.cfg.bufferSize < b'.data.length then (b', ⟨p, []⟩, .panic)
          else (b', ⟨p, []⟩, .eof) := by
  rw [PBuf.readLoop]
  by_cases h0 : b.data.length ≥ b.cfg.bufferSize
  · simp only [h0, if_true]
  · simp only [h0, if_false]
    generalize (if Min.min (b.data.length + Facts.chunkSize) b.cfg.bufferSize + Facts.margin > b.cap
            then b.grow (Min.min (b.data.length + Facts.chunkSize) b.cfg.bufferSize) else some b) = o
    cases o with
    | none => rfl
    | some b' =>
      simp only []

theorem readLoop_cons (b : PBuf) (p : List Byte) (mx ec : Nat) (rest : List (Nat × Nat)) :
    PBuf.readLoop b ⟨p, (mx, ec) :: rest⟩ =
      if b.data.length ≥ b.cfg.bufferSize then (b, ⟨p, (mx, ec) :: rest⟩, .full)
      else
        match (if Min.min (b.data.length + Facts.chunkSize) b.cfg.bufferSize + Facts.margin > b.cap
            then b.grow (Min.min (b.data.length + Facts.chunkSize) b.cfg.bufferSize) else some b) with
        | none => (b, ⟨p, (mx, ec) :: rest⟩, .panic)
        | some b' =>
          if b'.cap < Facts.margin ∨ Min.min (b'.cap - Facts.margin) b'.cfg.bufferSize < b'.data.length
          then (b', ⟨p, (mx, ec) :: rest⟩, .panic)
          else
            if ec ≠ 0 then
              ({ b' with data := b'.data ++ p.take (min3 mx (Min.min (b'.cap - Facts.margin) b'.cfg.bufferSize - b'.data.length) p.length) },
                ⟨p.drop (min3 mx (Min.min (b'.cap - Facts.margin) b'.cfg.bufferSize - b'.data.length) p.length), rest⟩, errOfCode ec)
            else PBuf.readLoop
              { b' with data := b'.data ++ p.take (min3 mx (Min.min (b'.cap - Facts.margin) b'.cfg.bufferSize - b'.data.length) p.length) }
              ⟨p.drop (min3 mx (Min.min (b'.cap - Facts.margin) b'.cfg.bufferSize - b'.data.length) p.length), rest⟩ := by
  rw [PBuf.readLoop]
  by_cases h0 : b.data.length ≥ b.cfg.bufferSize
  · simp only [h0, if_true]
  · simp only [h0, if_false]
    generalize (if Min.min (b.data.length + Facts.chunkSize) b.cfg.bufferSize + Facts.margin > b.cap
            then b.grow (Min.min (b.data.length + Facts.chunkSize) b.cfg.bufferSize) else some b) = o
    cases o with
    | none => rfl
    | some b' =>
      simp only []

theorem bind_ok_right {α : Type} (x : Res α) : Res.bind x (fun a => Res.ok a) = x := by
  cases x <;> rfl

/-- the model loop, one iteration, in terms of `Reader.read` (both shapes of the script) -/
theorem readLoop_read (b : PBuf) (r : Reader) :
    PBuf.readLoop b r =
      if b.data.length ≥ b.cfg.bufferSize then (b, r, .full)
      else
        match (if Min.min (b.data.length + Facts.chunkSize) b.cfg.bufferSize + Facts.margin > b.cap
            then b.grow (Min.min (b.data.length + Facts.chunkSize) b.cfg.bufferSize) else some b) with
        | none => (b, r, .panic)
        | some b' =>
          if b'.cap < Facts.margin ∨ Min.min (b'.cap - Facts.margin) b'.cfg.bufferSize < b'.data.length
          then (b', r, .panic)
          else
            if (r.read (Min.min (b'.cap - Facts.margin) b'.cfg.bufferSize - b'.data.length)).2.2 ≠ 0 then
              ({ b' with data := b'.data ++ (r.read (Min.min (b'.cap - Facts.margin) b'.cfg.bufferSize - b'.data.length)).2.1 },
                (r.read (Min.min (b'.cap - Facts.margin) b'.cfg.bufferSize - b'.data.length)).1,
                errOfCode (r.read (Min.min (b'.cap - Facts.margin) b'.cfg.bufferSize - b'.data.length)).2.2)
            else PBuf.readLoop
              { b' with data := b'.data ++ (r.read (Min.min (b'.cap - Facts.margin) b'.cfg.bufferSize - b'.data.length)).2.1 }
              (r.read (Min.min (b'.cap - Facts.margin) b'.cfg.bufferSize - b'.data.length)).1 := by
  obtain ⟨p, rs⟩ := r
  cases rs with
  | nil =>
    rw [readLoop_nil]
    simp only [read_nil, List.append_nil]
    split
    · rfl
    · split
      · rfl
      · split
        · rfl
        · rfl
  | cons x rest =>
    obtain ⟨mx, ec⟩ := x
    rw [readLoop_cons]
    simp only [read_cons]
    rfl

theorem read_code_zero (r : Reader) (sz : Nat) (h : (r.read sz).2.2 = 0) :
    (r.read sz).1.resps.length + 1 = r.resps.length := by
  obtain ⟨p, rs⟩ := r
  cases rs with
  | nil => simp [read_nil] at h
  | cons x rest =>
    obtain ⟨mx, ec⟩ := x
    simp [read_cons]

/-- agreement of the results of `ReadFrom`; a model `.panic` stands for a Go panic -/
def RFAgree (x : Res (ParserBuffer × Reader × Int × Gen.Err)) (m : PBuf × Reader × Nat × LZ.Err) : Prop :=
  match x with
  | .ok (b', r', n, e) => m.2.2.2 ≠ .panic ∧ ofPB b' = m.1 ∧ r' = m.2.1 ∧ n = (m.2.2.1 : Int) ∧ e = rfErr m.2.2.2 ∧ PBWF b'
  | .panic => m.2.2.2 = .panic
  | .fuel => False


/-- the model side of `RFAgree` with the loop made explicit -/
theorem readFrom_eq (b : PBuf) (r : Reader) :
    PBuf.readFrom b r = ((PBuf.readLoop b r).1, (PBuf.readLoop b r).2.1,
      (PBuf.readLoop b r).1.data.length - b.data.length, (PBuf.readLoop b r).2.2) := rfl

/-- `RFAgree` with the start length a parameter `N0` (the induction over the loop generalises it: `b` changes from
    iteration to iteration, the start length does not) and the model LOOP on the right -/
def RFAgreeN (N0 : Nat) (x : Res (ParserBuffer × Reader × Int × Gen.Err)) (m : PBuf × Reader × LZ.Err) : Prop :=
  match x with
  | .ok (b', r', n, e) => m.2.2 ≠ .panic ∧ ofPB b' = m.1 ∧ r' = m.2.1 ∧ n = ((m.1.data.length - N0 : Nat) : Int) ∧
      e = rfErr m.2.2 ∧ PBWF b'
  | .panic => m.2.2 = .panic
  | .fuel => False

theorem RFAgree_of_N (x : Res (ParserBuffer × Reader × Int × Gen.Err)) (b : PBuf) (r : Reader)
    (h : RFAgreeN b.data.length x (PBuf.readLoop b r)) : RFAgree x (PBuf.readFrom b r) := by
  rw [readFrom_eq]
  cases x with
  | ok v => obtain ⟨b', r', n, e⟩ := v; exact h
  | panic => exact h
  | fuel => exact h

/-- a successful return of the Go text: what has to be shown about its four components (`n` as the DIFFERENCE of the
    lengths, computed in `Int`) -/
theorem RFAgreeN_ok {N0 : Nat} {b' : ParserBuffer} {r' : Reader} {n : Int} {e : Gen.Err} {m : PBuf × Reader × LZ.Err}
    (h1 : m.2.2 ≠ .panic) (h2 : ofPB b' = m.1) (h3 : r' = m.2.1) (h6 : PBWF b') (hN : N0 ≤ b'.Data.len)
    (h4 : n = (b'.Data.len : Int) - (N0 : Int)) (h5 : e = rfErr m.2.2) :
    RFAgreeN N0 (Res.ok (b', r', n, e)) m := by
  refine ⟨h1, h2, h3, ?_, h5, h6⟩
  have : m.1.data.length = b'.Data.len := by rw [← h2]; exact data_length h6.data
  rw [this, h4]
  omega

/-- the `grow` idiom of the loop, `if t+7 > cap(b.Data) { b.grow(t) }`, as ANY term `x` that is `b.grow(t)` when
    `t + 7 > cap` and `b` otherwise (the caller shows the two implications from the Go text by deciding its test) -/
theorem gen_ensure (b : ParserBuffer) (h : PBWF b) (T : Nat) (x : Res ParserBuffer)
    (hpos : T + 7 > b.Data.arr.length → x = ParserBuffer_grow b (T : Int))
    (hneg : ¬ T + 7 > b.Data.arr.length → x = Res.ok b) :
    match (if T + Facts.margin > (ofPB b).cap then (ofPB b).grow T else some (ofPB b)) with
    | some m => ∃ b', x = Res.ok b' ∧ ofPB b' = m ∧ PBWF b' ∧ m.data = (ofPB b).data
    | none => x = Res.panic := by
  have hcap : (ofPB b).cap = b.Data.arr.length := rfl
  have hm : Facts.margin = 7 := PBuf.margin_eq
  rw [hcap, hm]
  by_cases hc : T + 7 > b.Data.arr.length
  · simp only [hc, if_true]
    rw [hpos hc]
    have hg := gen_pbuf_grow b h T
    split at hg
    · obtain ⟨b', h1, h2, h3⟩ := hg
      rename_i m hm'
      simp only [hm']
      refine ⟨b', h1, h2, h3, ?_⟩
      rw [model_grow_unfold] at hm'
      split at hm'
      · cases hm'; rfl
      · split at hm'
        · cases hm'; rfl
        · cases hm'
    · rename_i hm'
      simp only [hm']
      exact hg
  · simp only [hc, if_false]
    exact ⟨b, hneg hc, rfl, h, by first | rfl | trivial⟩

/-- decide the FIRST `if` of the goal from the hypotheses, whatever the spelling of its test and whichever arm is taken -/
macro "decide_ite" : tactic =>
  `(tactic| first | rw [if_pos (by omega)] | rw [if_neg (by omega)])

/-- **`ReadFrom` of the Go text = `PBuf.readFrom`**, for every buffer, every reader script (short reads, `(0, nil)`
    answers, errors at any call, exhausted script = `io.EOF`), explicit fuel: one more than the script length.

    The proof does not mention the argument list, the state tuple or the exit codes of the loop function: the function
    is unfolded, the start length is generalised (`N0 ≤ len`), and the WHOLE block `Res.bind (loop …) tail` is treated by
    induction on the fuel, using only the defining equation of the loop function; each `if` of the Go text is decided
    from the model's case split by `omega`, the pieces `t`, `grow`, `end`, window, read, re-slice are related to the
    model by lemmas that take the spelled terms by unification. -/
theorem gen_pbuf_readFrom_agree (b : ParserBuffer) (h : PBWF b) (r : Reader) (fuel : Nat) (hf : r.resps.length + 1 ≤ fuel) :
    RFAgree (ParserBuffer_ReadFrom fuel mRead b r) (PBuf.readFrom (ofPB b) r) := by
  apply RFAgree_of_N
  rw [show (ofPB b).data.length = b.Data.len from data_length h.data]
  unfold ParserBuffer_ReadFrom
  simp only [Int.ofNat_eq_natCast]
  -- the start length: from now on a constant `N0 ≤ len(b.Data)`
  generalize hN : b.Data.len = N0
  have hle : N0 ≤ b.Data.len := by omega
  clear hN
  induction fuel generalizing b r with
  | zero => omega
  | succ fuel IH =>
    rw [ParserBuffer_ReadFrom_loop_1]
    simp only [Int.ofNat_eq_natCast, LZ.GenProps.gen_min, Int.min_def, Slice.cap]
    generalize hM : PBuf.readLoop (ofPB b) r = M
    rw [readLoop_read] at hM
    have hswf : b.Data.len ≤ b.Data.arr.length := h.data
    have hlen : (ofPB b).data.length = b.Data.len := data_length h.data
    obtain ⟨B, hB⟩ : ∃ B : Nat, b.BufConfig.BufferSize = (B : Int) := ⟨b.BufConfig.BufferSize.toNat, by have := h.bs; omega⟩
    have hbs : (ofPB b).cfg.bufferSize = B := by simp only [ofPB, ofCfg]; omega
    have hchunk : Facts.chunkSize = 32768 := by decide
    by_cases hfull : (ofPB b).data.length ≥ (ofPB b).cfg.bufferSize
    · -- the buffer is full
      simp only [hfull, if_true] at hM
      subst hM
      decide_ite
      simp only [bind_ok, Nat.reduceEqDiff, if_true, if_false]
      exact RFAgreeN_ok (by intro hc; cases hc) rfl rfl h hle rfl rfl
    · simp only [hfull, if_false] at hM
      subst hM
      decide_ite
      -- `t`: the clamp in whatever spelling (helper `min`, `if` either way round)
      generalize ht : (@ite Int _ (_) _ _) = t
      have htT : t = ((Min.min ((ofPB b).data.length + Facts.chunkSize) (ofPB b).cfg.bufferSize : Nat) : Int) := by
        rw [← ht, hlen, hbs]; split <;> omega
      clear ht
      subst htT
      -- the `grow` idiom
      generalize hx : (@ite (Res ParserBuffer) _ (_) _ _) = x
      have hE := gen_ensure b h (Min.min ((ofPB b).data.length + Facts.chunkSize) (ofPB b).cfg.bufferSize) x
        (fun hc => by rw [← hx]; decide_ite <;> try simp only [bind_ok_right])
        (fun hc => by rw [← hx]; decide_ite <;> try simp only [bind_ok_right])
      clear hx
      revert hE
      generalize (if Min.min ((ofPB b).data.length + Facts.chunkSize) (ofPB b).cfg.bufferSize + Facts.margin > (ofPB b).cap
        then (ofPB b).grow (Min.min ((ofPB b).data.length + Facts.chunkSize) (ofPB b).cfg.bufferSize) else some (ofPB b)) = o
      intro hE
      cases o with
      | none =>
        simp only [] at hE
        subst hE
        exact rfl
      | some m =>
        simp only [] at hE
        obtain ⟨b1, hE1, hE2, hE3, hE4⟩ := hE
        subst hE1
        simp only [bind_ok]
        subst hE2
        have hswf1 : b1.Data.len ≤ b1.Data.arr.length := hE3.data
        have hlen1 : (ofPB b1).data.length = b1.Data.len := data_length hE3.data
        have hL : b.Data.len = b1.Data.len := by rw [← hlen, ← hlen1, hE4]
        obtain ⟨B1, hB1⟩ : ∃ B : Nat, b1.BufConfig.BufferSize = (B : Int) :=
          ⟨b1.BufConfig.BufferSize.toNat, by have := hE3.bs; omega⟩
        have hbs1 : (ofPB b1).cfg.bufferSize = B1 := by simp only [ofPB, ofCfg]; omega
        have hcap1 : (ofPB b1).cap = b1.Data.arr.length := rfl
        have hm : Facts.margin = 7 := PBuf.margin_eq
        rw [hlen1, hbs1, hcap1, hm]
        by_cases hbad : b1.Data.arr.length < 7 ∨ Min.min (b1.Data.arr.length - 7) B1 < b1.Data.len
        · simp only [hbad, if_true]
          rw [slice_panic]
          · exact rfl
          · -- the clamp of `end`, whatever its spelling
            first
            | omega
            | (split <;> omega)
        · simp only [hbad, if_false]
          obtain ⟨p, p', s', h1, h2, h3, h4, h5, h6, h7⟩ :=
            lend_read b1.Data hE3.data (Min.min (b1.Data.arr.length - 7) B1) (by omega) (by omega) r
          have hsl : ∀ e' : Int, e' = ((Min.min (b1.Data.arr.length - 7) B1 : Nat) : Int) →
              Slice.slice b1.Data (b1.Data.len : Int) e' = Res.ok p := by
            intro e' he; rw [he]; exact h1
          rw [hsl]
          rotate_left
          · -- the clamp of `end`, whatever its spelling
            first
            | omega
            | (split <;> omega)
          simp only [bind_ok]
          rw [h3]
          simp only [bind_ok]
          have hsl2 : ∀ e' : Int, e' = ((Slice.writeBack b1.Data p').len : Int) +
                ((r.read (Min.min (b1.Data.arr.length - 7) B1 - b1.Data.len)).2.1.length : Int) →
              Slice.slice (Slice.writeBack b1.Data p') 0 e' = Res.ok s' := by
            intro e' he; rw [he]; exact h4
          rw [hsl2 _ (by omega)]
          simp only [bind_ok]
          generalize hx : r.read (Min.min (b1.Data.arr.length - 7) B1 - b1.Data.len) = x at h3 h4 h5 h6 h7 ⊢
          have hof : ofPB { Data := s', W := b1.W, Off := b1.Off, BufConfig := b1.BufConfig } =
              { data := (ofPB b1).data ++ x.2.1, w := (ofPB b1).w, off := (ofPB b1).off, cap := b1.Data.arr.length,
                cfg := (ofPB b1).cfg } := by
            simp only [ofPB, h5, Slice.cap, h6]
          have hwf2 : PBWF { Data := s', W := b1.W, Off := b1.Off, BufConfig := b1.BufConfig } := by
            refine ⟨?_, hE3.w, hE3.off, hE3.ss, hE3.bs⟩
            show s'.len ≤ s'.arr.length
            have := read_length_le r (Min.min (b1.Data.arr.length - 7) B1 - b1.Data.len)
            rw [hx] at this
            omega
          by_cases hcode : x.2.2 = 0
          · -- a nil error: the loop continues, in the state it was entered with except for `b` and `r`
            have hne : ¬ (x.2.2 ≠ 0) := by omega
            have hgo : rfErr (errOfCode x.2.2) = Gen.Err.ok := by rw [hcode]; exact rfErr_errOfCode_zero
            simp only [hne, hgo, ne_eq, not_true_eq_false, if_false, if_true]
            rw [← hof]
            apply IH
            · exact hwf2
            · have := read_code_zero r (Min.min (b1.Data.arr.length - 7) B1 - b1.Data.len) (by rw [hx]; exact hcode)
              rw [hx] at this
              omega
            · show N0 ≤ s'.len
              omega
          · have hgo : rfErr (errOfCode x.2.2) ≠ Gen.Err.ok := rfErr_errOfCode_ne _ hcode
            -- the error test with the operands either way round (`err != nil`, `nil == err`), either arm first
            have hgo' : ¬ (Gen.Err.ok = rfErr (errOfCode x.2.2)) := fun hc => hgo hc.symm
            simp only [hcode, hgo, hgo', ne_eq, not_false_eq_true, if_true, bind_ok, Nat.reduceEqDiff, if_false]
            refine RFAgreeN_ok ?_ hof rfl hwf2 ?_ rfl rfl
            · show errOfCode x.2.2 ≠ .panic
              unfold errOfCode
              split <;> intro hc <;> cases hc
            · show N0 ≤ s'.len
              omega


/-- the capacity invariant of the history theorems: empty, or 7 spare bytes -/
theorem gen_pbuf_readFrom (b : ParserBuffer) (h : PBWF b) (hcap : (ofPB b).CapOK)
    (hlen : (ofPB b).data.length ≤ (ofPB b).cfg.bufferSize) (r : Reader) (fuel : Nat) (hf : r.resps.length + 1 ≤ fuel) :
    ∃ b', ParserBuffer_ReadFrom fuel mRead b r = Res.ok (b', (PBuf.readFrom (ofPB b) r).2.1,
        ((PBuf.readFrom (ofPB b) r).2.2.1 : Int), rfErr (PBuf.readFrom (ofPB b) r).2.2.2) ∧
      ofPB b' = (PBuf.readFrom (ofPB b) r).1 ∧ PBWF b' := by
  have hnp : (PBuf.readFrom (ofPB b) r).2.2.2 ≠ .panic := by
    obtain ⟨c, pre, hb, -, hn1, hn2, hm, -, -, hcase⟩ :=
      PBuf.readFrom_master hlen (r := r) (b' := (PBuf.readFrom (ofPB b) r).1)
        (r' := (PBuf.readFrom (ofPB b) r).2.1) (n := (PBuf.readFrom (ofPB b) r).2.2.1)
        (e := (PBuf.readFrom (ofPB b) r).2.2.2) rfl
    rcases hcase with ⟨h1, -⟩ | ⟨h1, -⟩ | ⟨mx, ec, -, -, h1⟩
    · rw [h1]; intro hc; cases hc
    · rw [h1]; intro hc; cases hc
    · rw [h1]; unfold errOfCode; split <;> intro hc <;> cases hc
  have ha := gen_pbuf_readFrom_agree b h r fuel hf
  revert ha
  generalize ParserBuffer_ReadFrom fuel mRead b r = X
  intro ha
  cases X with
  | ok v =>
    obtain ⟨b', r', n, e⟩ := v
    obtain ⟨h1, h2, h3, h4, h5, h6⟩ := ha
    subst h3; subst h4; subst h5
    exact ⟨b', rfl, h2, h6⟩
  | panic => exact absurd ha hnp
  | fuel => exact ha.elim

end LZ.GenBuf

#print axioms LZ.GenBuf.gen_pbuf_readFrom_agree
#print axioms LZ.GenBuf.gen_pbuf_readFrom
