/-
  LzProofs.SapProps — the property theorems for C11 (OSAP emits a minimum-cost parse) and
  C12 (GSAP takes the longest available match), assembled from
    SapLemmas  (`xzCost_mono_offset`, `xzCost_one_zero`, `xzCost_zero_offset`),
    DpProps    (`dp_optimal`, `shortestPath_cost`, `shortestPath_len`; D10 counter-witness),
    OsapProps  (`cost_pathToSeqs`, `osap_block_cost`, `dp_optimal_lz`, `C11_optimal_partial`,
                `C11_emitted_is_parse`),
    EdgesProps (`computeEdges_sound`, `computeEdges_complete`, `computeEdges_countOK` from the
                suffix-array facts `CEHyps`/`SegHyps`),
    GsapProps  (`memberBefore_spec`, `memberAfter_spec`, `insertRanks_spec`, `neighbour_max`,
                `lcpLen_take`, `gsapProbe_longest`, `gsapProbe_none`, `gsapProbe_literal_only_if`),
    GsapLoop   (`gsap_loop`, `C12_longest_partial`, `C12_longest_fresh`, `parse_gsap_inv`;
                D6 counter-witness).
  Here: `C11_optimal`, `C11_optimal_fresh`, `C11_optimal_hist`, `parse_osap_hist`,
  `C12_longest_hist`, `parse_gsap_hist`, `C12_literal_only_if`, the bridges `SAOK_of_list`,
  `SegHyps_of_C10`, `CEHyps_of`, and the non-vacuity instance `ex_ceHyps`.
  `SapHist.lean` lifts both to all histories (`C11_all_histories`, `C12_all_histories`).
  Named hypotheses that remain: `SAOK` and `CEHyps` (theorems of the suffix-array topic).
-/
import LzProofs.EdgesProps
import LzProofs.GsapLoop
namespace LZ.Sap

theorem computeEdges_start (data : List Byte) (w ws minMatch maxMatch : Nat) :
    (computeEdges data w ws minMatch maxMatch).start = w := by
  by_cases hne : data.length = 0
  · rw [computeEdges_none _ _ _ _ _ (Or.inl hne)]
  · cases hseg : ceSegs data w ws minMatch maxMatch with
    | none => rw [computeEdges_none _ _ _ _ _ (Or.inr hseg)]
    | some cbs => rw [computeEdges_some _ _ _ _ _ hne hseg]

/-- **C11.**  Let the edges in use be those `computeEdges` produced for the buffer contents
    `data0` at window head `w0` (either just now, or at an earlier `Parse` of the same fill:
    `data0` agrees with the present buffer on the block and everything before it), and let the
    suffix-array facts `CEHyps` hold for that computation.  Then the block OSAP emits with
    flags 0
    * is itself an LZ77 parse of the block bytes (lengths in `[MinMatchLen, MaxMatchLen]`,
      offsets `≤ WindowSize`, sources in the buffer), and
    * costs no more than any such parse. -/
theorem C11_optimal (s : Parser) (o : OsapD) (hd : s.dict = .osap o) (flags : Nat)
    (hn : s.blockN ≠ 0) (hf : flags % 2 = 0)
    (data0 : List Byte) (w0 : Nat)
    (hedges : osapEdges s o =
      computeEdges data0 w0 s.buf.cfg.windowSize s.minMatch s.cfg.maxMatchLen.toNat)
    (hce : CEHyps data0 w0 s.buf.cfg.windowSize s.minMatch s.cfg.maxMatchLen.toNat)
    (hw0 : w0 ≤ s.buf.w) (hlen : s.buf.w + s.blockN ≤ data0.length)
    (hpre : data0.take (s.buf.w + s.blockN) = s.buf.data.take (s.buf.w + s.blockN)) :
    LzParse (s.buf.data.take (s.buf.w + s.blockN)) s.buf.w s.buf.cfg.windowSize
        s.minMatch s.cfg.maxMatchLen.toNat s.blockN (osapPath s o) ∧
    blockCost (s.parse flags).2.2.2 =
      (if (osapEdges s o).nEdges = 0 then 9 * s.blockN else pathCost (osapPath s o)) ∧
    ∀ π, LzParse (s.buf.data.take (s.buf.w + s.blockN)) s.buf.w s.buf.cfg.windowSize
        s.minMatch s.cfg.maxMatchLen.toNat s.blockN π →
      blockCost (s.parse flags).2.2.2 ≤ pathCost π := by
  have hsound := computeEdges_sound hce hw0 hlen
  have hcompl := computeEdges_complete hce hw0 hlen
  have hstart : (osapEdges s o).start = w0 := by rw [hedges]; exact computeEdges_start _ _ _ _ _
  rw [hpre, ← hedges] at hsound hcompl
  rw [← hstart] at hsound hcompl
  refine ⟨C11_emitted_is_parse s o hsound, osap_block_cost s o hd flags hn hf, ?_⟩
  apply C11_optimal_partial s o hd flags hn hf _ hcompl
  rw [hedges]; exact computeEdges_countOK _ _ _ _ _

/-- C11 for a block parsed right after the edges were (re)computed -/
theorem C11_optimal_fresh (s : Parser) (o : OsapD) (hd : s.dict = .osap o) (flags : Nat)
    (hn : s.blockN ≠ 0) (hf : flags % 2 = 0)
    (hre : s.buf.w + s.blockN > o.start + o.edges.size)
    (hce : CEHyps s.buf.data s.buf.w s.buf.cfg.windowSize s.minMatch s.cfg.maxMatchLen.toNat) :
    LzParse (s.buf.data.take (s.buf.w + s.blockN)) s.buf.w s.buf.cfg.windowSize
        s.minMatch s.cfg.maxMatchLen.toNat s.blockN (osapPath s o) ∧
    ∀ π, LzParse (s.buf.data.take (s.buf.w + s.blockN)) s.buf.w s.buf.cfg.windowSize
        s.minMatch s.cfg.maxMatchLen.toNat s.blockN π →
      blockCost (s.parse flags).2.2.2 ≤ pathCost π := by
  have h := C11_optimal s o hd flags hn hf s.buf.data s.buf.w
    (by unfold osapEdges; rw [if_pos hre]) hce (Nat.le_refl _) (blockN_le s hn) rfl
  exact ⟨h.1, h.2.2⟩

/-! ## C11 along a history -/

theorem parse_osap_eq (s : Parser) (o : OsapD) (hd : s.dict = .osap o) (flags : Nat)
    (hn : s.blockN ≠ 0) :
    s.parse flags =
      (if (osapEdges s o).nEdges = 0 then
        ({ s with buf := { s.buf with w := s.buf.w + s.blockN }, dict := .osap (osapEdges s o) }, s.blockN, .ok,
          ⟨[], (s.buf.data.drop s.buf.w).take s.blockN⟩)
      else
        let p := s.buf.data.take (s.buf.w + s.blockN)
        let r := pathToSeqs p (osapPath s o) s.buf.w s.buf.w [] []
        let wb : Nat × Block := if flags % 2 = 1 ∧ r.1 ≠ [] then (r.2.2.2, ⟨r.1, r.2.1⟩)
          else (p.length, ⟨r.1, r.2.1 ++ p.drop r.2.2.2⟩)
        ({ s with buf := { s.buf with w := wb.1 }, dict := .osap (osapEdges s o) }, wb.1 - s.buf.w, .ok, wb.2)) := by
  unfold Parser.parse
  simp only [hn, if_false, hd, ne_eq, not_true_eq_false, false_and]
  rfl

theorem pathToSeqs_li_ge (p : List Byte) : ∀ (π : List Edge) (i li : Nat) (seqs : List Seq) (lits : List Byte),
    li ≤ i → li ≤ (pathToSeqs p π i li seqs lits).2.2.2
  | [], i, li, seqs, lits, h => by simp [pathToSeqs]
  | (m, o) :: r, i, li, seqs, lits, h => by
    by_cases ho : o = 0
    · subst ho
      have hstep : pathToSeqs p ((m, 0) :: r) i li seqs lits = pathToSeqs p r (i + m) li seqs lits := by
        simp [pathToSeqs]
      rw [hstep]; exact pathToSeqs_li_ge p r (i + m) li seqs lits (by omega)
    · have hstep : pathToSeqs p ((m, o) :: r) i li seqs lits =
          pathToSeqs p r (i + m) (i + m)
            (seqs ++ [{ litLen := ((p.drop li).take (i - li)).length, matchLen := m, offset := o }])
            (lits ++ (p.drop li).take (i - li)) := by
        simp [pathToSeqs, ho]
      rw [hstep]
      have := pathToSeqs_li_ge p r (i + m) (i + m)
        (seqs ++ [{ litLen := ((p.drop li).take (i - li)).length, matchLen := m, offset := o }])
        (lits ++ (p.drop li).take (i - li)) (Nat.le_refl _)
      omega

/-- The state invariant of OSAP along a history: the stored edges are either absent (fresh
    parser, after `Reset`/`Shrink`) or were computed by `computeEdges` for a prefix `data0` of the
    present buffer at a window head `w0 ≤ W` (and the suffix-array facts held for that
    computation). -/
def OsapHist (s : Parser) (o : OsapD) : Prop :=
  (o.edges.size = 0 ∧ o.start = 0) ∨
  ∃ data0 w0, o = computeEdges data0 w0 s.buf.cfg.windowSize s.minMatch s.cfg.maxMatchLen.toNat ∧
    CEHyps data0 w0 s.buf.cfg.windowSize s.minMatch s.cfg.maxMatchLen.toNat ∧
    w0 ≤ s.buf.w ∧ data0 <+: s.buf.data

theorem computeEdges_size (data : List Byte) (w ws minMatch maxMatch : Nat)
    (h : CEHyps data w ws minMatch maxMatch) :
    (computeEdges data w ws minMatch maxMatch).edges.size = data.length - w := by
  by_cases hne : data.length = 0
  · rw [computeEdges_none _ _ _ _ _ (Or.inl hne)]; simp
  · cases hseg : ceSegs data w ws minMatch maxMatch with
    | none => rw [computeEdges_none _ _ _ _ _ (Or.inr hseg)]; simp
    | some cbs =>
      rcases computeEdges_cases h with ⟨hlt, _⟩ | ⟨cbs', st, H, hI, e⟩ | h0
      · have : cbs = [] := ceSegs_lt (by omega) hseg
        subst this
        rw [computeEdges_some _ _ _ _ _ hne hseg]; simp
      · rw [e]; exact hI.size
      · exact absurd h0 hne

/-- what `osapEdges` is under the history invariant -/
theorem osapEdges_hist (s : Parser) (o : OsapD) (hn : s.blockN ≠ 0) (hist : OsapHist s o)
    (hce : CEHyps s.buf.data s.buf.w s.buf.cfg.windowSize s.minMatch s.cfg.maxMatchLen.toNat) :
    ∃ data0 w0, osapEdges s o =
        computeEdges data0 w0 s.buf.cfg.windowSize s.minMatch s.cfg.maxMatchLen.toNat ∧
      CEHyps data0 w0 s.buf.cfg.windowSize s.minMatch s.cfg.maxMatchLen.toNat ∧
      w0 ≤ s.buf.w ∧ s.buf.w + s.blockN ≤ data0.length ∧ data0 <+: s.buf.data := by
  have hle := blockN_le s hn
  by_cases hre : s.buf.w + s.blockN > o.start + o.edges.size
  · exact ⟨s.buf.data, s.buf.w, by unfold osapEdges; rw [if_pos hre], hce, Nat.le_refl _, hle,
      List.prefix_refl _⟩
  · rcases hist with ⟨h1, h2⟩ | ⟨data0, w0, e, hc, h1, h2⟩
    · omega
    · refine ⟨data0, w0, by unfold osapEdges; rw [if_neg hre]; exact e, hc, h1, ?_, h2⟩
      rw [e, computeEdges_start, computeEdges_size _ _ _ _ _ hc] at hre
      omega

/-- **C11 along a history** (hypothesis: the suffix-array facts `CEHyps` for the present buffer;
    those for the buffer the stored edges came from are part of `OsapHist`) -/
theorem C11_optimal_hist (s : Parser) (o : OsapD) (hd : s.dict = .osap o) (flags : Nat)
    (hn : s.blockN ≠ 0) (hf : flags % 2 = 0) (hist : OsapHist s o)
    (hce : CEHyps s.buf.data s.buf.w s.buf.cfg.windowSize s.minMatch s.cfg.maxMatchLen.toNat) :
    LzParse (s.buf.data.take (s.buf.w + s.blockN)) s.buf.w s.buf.cfg.windowSize
        s.minMatch s.cfg.maxMatchLen.toNat s.blockN (osapPath s o) ∧
    ∀ π, LzParse (s.buf.data.take (s.buf.w + s.blockN)) s.buf.w s.buf.cfg.windowSize
        s.minMatch s.cfg.maxMatchLen.toNat s.blockN π →
      blockCost (s.parse flags).2.2.2 ≤ pathCost π := by
  obtain ⟨data0, w0, e, hc, h1, h2, h3⟩ := osapEdges_hist s o hn hist hce
  have hpre : data0.take (s.buf.w + s.blockN) = s.buf.data.take (s.buf.w + s.blockN) := by
    obtain ⟨r, hr⟩ := h3
    rw [← hr, List.take_append_of_le_length h2]
  have h := C11_optimal s o hd flags hn hf data0 w0 e hc h1 h2 hpre
  exact ⟨h.1, h.2.2⟩

/-- `Parse(&blk, flags)` keeps the history invariant (any flags) -/
theorem parse_osap_hist (s : Parser) (o : OsapD) (hd : s.dict = .osap o) (flags : Nat)
    (hn : s.blockN ≠ 0) (hist : OsapHist s o)
    (hce : CEHyps s.buf.data s.buf.w s.buf.cfg.windowSize s.minMatch s.cfg.maxMatchLen.toNat) :
    (s.parse flags).1.dict = .osap (osapEdges s o) ∧ OsapHist (s.parse flags).1 (osapEdges s o) := by
  obtain ⟨data0, w0, e, hc, h1, h2, h3⟩ := osapEdges_hist s o hn hist hce
  rw [parse_osap_eq s o hd flags hn]
  have hle := blockN_le s hn
  split
  · exact ⟨rfl, Or.inr ⟨data0, w0, e, hc, Nat.le_trans h1 (Nat.le_add_right _ _), h3⟩⟩
  · refine ⟨rfl, Or.inr ⟨data0, w0, e, hc, ?_, h3⟩⟩
    simp only
    split
    · have := pathToSeqs_li_ge (s.buf.data.take (s.buf.w + s.blockN)) (osapPath s o) s.buf.w s.buf.w [] []
        (Nat.le_refl _)
      exact Nat.le_trans h1 this
    · simp only [List.length_take]; omega

/-! ## non-vacuity: a concrete buffer satisfying `CEHyps` -/

def exData : List Byte := [97, 98, 97, 98]

theorem ex_t : ceT exData 2 8 = exData := rfl
theorem ex_sa : saSpec exData = [2, 0, 3, 1] := by
  simp [exData, saSpec, List.range, List.range.loop, List.mergeSort, List.MergeSort.Internal.splitInTwo, lexLe]
theorem ex_lcp : ceLcp exData 2 8 = #[0, 2, 0, 1] := by
  unfold ceLcp; rw [ex_t, ex_sa]; decide
theorem ex_maxlcp : ceMaxLcp exData 2 8 = 2 := by
  unfold ceMaxLcp; rw [ex_lcp]; rfl
theorem ex_maxlen : ceMaxLen exData 2 8 4 = 2 := by
  unfold ceMaxLen; rw [ex_maxlcp]; rfl
theorem ex_segs : ceSegs exData 2 8 2 4 = some [(2, 0, 2)] := by
  unfold ceSegs; rw [ex_lcp, ex_maxlen, ex_t, ex_sa]
  simp [segments32, segments, scanLCP, scanFrom, popLoop, Int.min_def]

theorem ex_segHyps : SegHyps exData [2, 0, 3, 1] 2 2 [(2, 0, 2)] := by
  refine ⟨by decide, ?_, ?_, ?_, by simp⟩
  · intro m lo hi h
    simp only [List.mem_singleton, Prod.mk.injEq] at h
    obtain ⟨rfl, rfl, rfl⟩ := h
    refine ⟨by omega, by omega, by omega, by simp, ?_, ?_⟩
    · intro a b _ h1 h2
      have ha : a = 0 := by omega
      have hb : b = 1 := by omega
      subst ha hb; decide
    · intro a r _ h1 h2 h3
      simp only [List.length_cons, List.length_nil] at h2
      have ha : a = 0 ∨ a = 1 := by omega
      have hr : r = 2 ∨ r = 3 := by omega
      rcases ha with rfl | rfl <;> rcases hr with rfl | rfl <;> decide
  · intro a b h1 h2 h3
    simp only [List.length_cons, List.length_nil] at h2
    have hb : b = 1 ∨ b = 2 ∨ b = 3 := by omega
    rcases hb with rfl | rfl | rfl
    · have ha : a = 0 := by omega
      subst ha
      exact ⟨0, 2, by decide, by omega, by omega⟩
    · have ha : a = 0 ∨ a = 1 := by omega
      rcases ha with rfl | rfl <;> exact absurd h3 (by decide)
    · have ha : a = 0 ∨ a = 1 ∨ a = 2 := by omega
      rcases ha with rfl | rfl | rfl <;> exact absurd h3 (by decide)
  · intro m1 lo1 hi1 m2 lo2 hi2 h1 h2 _ _ h
    simp only [List.mem_singleton, Prod.mk.injEq] at h1 h2
    omega

/-- non-vacuity of `CEHyps`: the buffer `"abab"` with the window head at 2 -/
theorem ex_ceHyps : CEHyps exData 2 8 2 4 := by
  refine ⟨by rw [ex_t, ex_sa]; decide, ?_, ?_⟩
  · intro a b h1 h2
    rw [ex_t, ex_sa] at h2 ⊢
    rw [ex_maxlcp]
    simp only [List.length_cons, List.length_nil] at h2
    have hb : b = 1 ∨ b = 2 ∨ b = 3 := by omega
    rcases hb with rfl | rfl | rfl
    · have ha : a = 0 := by omega
      subst ha; decide
    · have ha : a = 0 ∨ a = 1 := by omega
      rcases ha with rfl | rfl <;> decide
    · have ha : a = 0 ∨ a = 1 ∨ a = 2 := by omega
      rcases ha with rfl | rfl | rfl <;> decide
  · intro _
    refine ⟨_, ex_segs, ?_⟩
    rw [ex_t, ex_sa, ex_maxlen]; exact ex_segHyps

/-- … and what `computeEdges` stores there: position 2 (`"ab"`) has the edge `(2, 2)` -/
example : (computeEdges exData 2 8 2 4).edges = #[[(2, 2)], []] ∧
    (computeEdges exData 2 8 2 4).nEdges = 1 := by
  rw [computeEdges_some exData 2 8 2 4 (by decide) ex_segs, ex_t, ex_sa]
  have hl : exData.length - 2 = 2 := rfl
  simp [edgeStep, sortedSeg, List.mergeSort, edgeCallback, hl, Array.replicate_succ]

/-- the optimal parse of the block `"ab"` at position 2 is the single match `(2, 2)`: 8 bits
    instead of 18 for two literals -/
example : shortestPath 2 2 #[[(2, 2)], []] 0 = [(2, 2)] ∧ pathCost [(2, 2)] = 8 := by
  constructor
  · rw [shortestPath_eq, dFinal]
    have : d0 2 = #[⟨0, 0, 0⟩, ⟨1, 0, 9⟩, ⟨1, 0, 18⟩] := by
      apply Array.ext'
      simp [d0, xzCost, List.range, List.range.loop]
    rw [this]; decide
  · decide

/-- C12, literal clause at one position (alias of `gsapProbe_literal_only_if`) -/
theorem C12_literal_only_if {t : List Byte} {g : GsapD} {i e : Nat} (ws minMatch li : Nat)
    (hs : SAOK t g.sa g.isa) (hb : BitsOK g.sa g.bits t.length i) (hi : i < t.length) (hw : i < ws)
    (h : (gsapProbe ws minMatch g (t.take e) i li).2 = none) :
    ∀ f, f < i → lcpLen ((t.take e).drop f) ((t.take e).drop i) < minMatch :=
  gsapProbe_literal_only_if ws minMatch li hs hb hi hw h

/-! ## C12 along a history -/

/-- The state invariant of GSAP along a history without `Parse(nil)`: the suffix array is
    either absent (fresh parser, after `Reset`/`Shrink`, after a truncated block) or it is the
    suffix array of a prefix `t` of the present buffer, and `bits` marks exactly the ranks of the
    positions in front of `W`. -/
def GsapHist (s : Parser) (g : GsapD) : Prop :=
  g.sa.size = 0 ∨
  ∃ t, t <+: s.buf.data ∧ SAOK t g.sa g.isa ∧ BitsOK g.sa g.bits t.length s.buf.w

theorem gsapG_hist (s : Parser) (g : GsapD) (hn : s.blockN ≠ 0) (hist : GsapHist s g)
    (hsa : ∀ data w, SAOK data (gsapSort data w).sa (gsapSort data w).isa) :
    ∃ t, t <+: s.buf.data ∧ s.buf.w + s.blockN ≤ t.length ∧
      SAOK t (gsapG s g).sa (gsapG s g).isa ∧
      BitsOK (gsapG s g).sa (gsapG s g).bits t.length s.buf.w := by
  have hle := blockN_le' s hn
  by_cases hre : s.buf.w + s.blockN > g.sa.size
  · have hg : gsapG s g = gsapSort s.buf.data s.buf.w := by unfold gsapG; rw [if_pos hre]
    refine ⟨s.buf.data, List.prefix_refl _, hle, ?_, ?_⟩
    · rw [hg]; exact hsa _ _
    · rw [hg]; exact gsapSort_bitsOK _ _ (by omega) (hsa _ _)
  · have hg : gsapG s g = g := by unfold gsapG; rw [if_neg hre]
    rcases hist with h0 | ⟨t, h1, h2, h3⟩
    · omega
    · refine ⟨t, h1, ?_, by rw [hg]; exact h2, by rw [hg]; exact h3⟩
      have := h2.size_sa; omega

/-- **C12 along a history** (hypothesis: the suffix-array facts `SAOK` for `gsapSort`) -/
theorem C12_longest_hist (s : Parser) (g : GsapD) (hd : s.dict = .gsap g) (flags : Nat)
    (hn : s.blockN ≠ 0) (hmm : 1 ≤ s.minMatch) (hist : GsapHist s g)
    (hsa : ∀ data w, SAOK data (gsapSort data w).sa (gsapSort data w).isa) :
    GreedySpec (s.buf.data.take (s.buf.w + s.blockN)) s.buf.cfg.windowSize s.minMatch
      (s.buf.w + s.blockN ≤ s.buf.cfg.windowSize) s.buf.w (s.parse flags).2.2.2.seqs ∧
    (s.buf.w + s.blockN ≤ s.buf.cfg.windowSize →
      ∀ q, endPos s.buf.w (s.parse flags).2.2.2.seqs ≤ q → q < s.buf.w + s.blockN →
        lpm (s.buf.data.take (s.buf.w + s.blockN)) q < s.minMatch) := by
  obtain ⟨t, h1, h2, h3, h4⟩ := gsapG_hist s g hn hist hsa
  have hpre : s.buf.data.take (s.buf.w + s.blockN) = t.take (s.buf.w + s.blockN) := by
    obtain ⟨r, hr⟩ := h1
    rw [← hr, List.take_append_of_le_length h2]
  exact C12_longest_partial s g hd flags hn hmm t hpre h2 h3 h4

/-- `Parse(&blk, flags)` keeps the history invariant (any flags) -/
theorem parse_gsap_hist (s : Parser) (g : GsapD) (hd : s.dict = .gsap g) (flags : Nat)
    (hn : s.blockN ≠ 0) (hmm : 1 ≤ s.minMatch) (hist : GsapHist s g)
    (hsa : ∀ data w, SAOK data (gsapSort data w).sa (gsapSort data w).isa) :
    ∃ g2, (s.parse flags).1.dict = .gsap g2 ∧ GsapHist (s.parse flags).1 g2 := by
  obtain ⟨t, h1, h2, h3, h4⟩ := gsapG_hist s g hn hist hsa
  have hpre : s.buf.data.take (s.buf.w + s.blockN) = t.take (s.buf.w + s.blockN) := by
    obtain ⟨r, hr⟩ := h1
    rw [← hr, List.take_append_of_le_length h2]
  obtain ⟨hdata, g2, e, hcase⟩ := parse_gsap_inv s g hd flags hn hmm t hpre h2 h3 h4
  refine ⟨g2, e, ?_⟩
  rcases hcase with h0 | ⟨a, b, c⟩
  · left; rw [h0]; rfl
  · right
    refine ⟨t, by rw [hdata]; exact h1, by rw [a, b]; exact h3, c⟩

/-! ## bridges: discharging `SAOK`, `SegHyps`, `CEHyps` from the suffix-array theorems -/

theorem sufList_toArray (t : List Byte) (saL : List Nat) :
    sufList t saL.toArray = saL.map (fun i => t.drop i) := by
  apply List.ext_getElem
  · simp [sufList]
  · intro r h1 h2
    simp only [sufList, List.getElem_map, List.getElem_range]
    simp only [sufList, List.length_map, List.length_range, List.size_toArray] at h1
    simp [Array.getD_eq_getD_getElem?, List.getElem?_eq_getElem h1]

/-- `SAOK` for `sa = saL.toArray`, `isa = invertSA sa` from the list-level facts
    (`saSpec_isSuffixArray`, `invertSA_get_sa`, `sa_get_invertSA` of the suffix-array topic) -/
theorem SAOK_of_list (t : List Byte) (saL : List Nat)
    (hperm : saL.Perm (List.range t.length))
    (hsorted : saL.Pairwise (fun i j => lexLe (t.drop i) (t.drop j) = true))
    (hinv1 : ∀ j (hj : j < saL.length), (invertSA saL.toArray)[saL[j]]? = some j)
    (hinv2 : ∀ i, i < saL.length →
      ∃ k, (invertSA saL.toArray)[i]? = some k ∧ k < saL.length ∧ saL[k]? = some i) :
    SAOK t saL.toArray (invertSA saL.toArray) := by
  have hlen : saL.length = t.length := by simpa using hperm.length_eq
  refine ⟨by simp [hlen], ?_, ?_, ?_⟩
  · intro r hr
    have hr' : r < saL.length := by omega
    have e : saL.toArray.getD r 0 = saL[r] := by
      simp [Array.getD_eq_getD_getElem?, List.getElem?_eq_getElem hr']
    rw [e, Array.getD_eq_getD_getElem?, hinv1 r hr']; rfl
  · intro i hi
    obtain ⟨k, h1, h2, h3⟩ := hinv2 i (by omega)
    have e1 : (invertSA saL.toArray).getD i 0 = k := by
      rw [Array.getD_eq_getD_getElem?, h1]; rfl
    rw [e1]
    refine ⟨by omega, ?_⟩
    simp [Array.getD_eq_getD_getElem?, h3]
  · unfold LexSorted
    rw [sufList_toArray, List.pairwise_map]
    exact hsorted

theorem le_foldl_max : ∀ (l : List Nat) (init : Nat),
    init ≤ l.foldl max init ∧ ∀ v, v ∈ l → v ≤ l.foldl max init
  | [], init => ⟨Nat.le_refl _, fun v h => by simp at h⟩
  | x :: l, init => by
    simp only [List.foldl_cons]
    obtain ⟨a, b⟩ := le_foldl_max l (max init x)
    refine ⟨by omega, ?_⟩
    intro v hv
    rcases List.mem_cons.1 hv with h | h
    · subst h; omega
    · exact b v h

theorem getD_le_foldl_max (arr : Array Nat) (x : Nat) : arr.getD x 0 ≤ arr.foldl max 0 := by
  rw [← Array.foldl_toList]
  by_cases hx : x < arr.size
  · have : arr.getD x 0 ∈ arr.toList := by
      simp [Array.getD_eq_getD_getElem?, Array.getElem?_eq_getElem hx]
    exact (le_foldl_max arr.toList 0).2 _ this
  · simp [Array.getD_eq_getD_getElem?, Array.getElem?_eq_none (Nat.le_of_not_lt hx)]

/-- `SegHyps` from statements of the shape of `C10_groups_sound`, `C10_groups_complete_unique`,
    `C10_groups_children_first`, `C10_groups_nodup` (with `minLen`, `maxLen` cast to `Int`) -/
theorem SegHyps_of_C10 {t : List Byte} {saL : List Nat} {minLen maxLen : Nat} {cbs : List Callback}
    (hperm : saL.Perm (List.range t.length))
    (hsound : ∀ {m lo hi : Nat}, (m, lo, hi) ∈ cbs →
      (minLen : Int) ≤ (m : Int) ∧ (m : Int) ≤ (maxLen : Int) ∧ lo < hi ∧ hi ≤ saL.length ∧
      (∀ a b, lo ≤ a → a < b → b < hi → m ≤ sufL t saL a b) ∧
      (∀ a r, lo ≤ a → a < hi → r < saL.length → (r < lo ∨ hi ≤ r) → sufL t saL a r < m))
    (hcompl : ∀ {a b : Nat}, a < b → b < saL.length → (minLen : Int) ≤ (sufL t saL a b : Int) →
      ∃ cb : Callback, (cb ∈ cbs ∧ cb.1 = min (sufL t saL a b) ((maxLen : Int)).toNat ∧
        cb.2.1 ≤ a ∧ b < cb.2.2) ∧
        ∀ cb' : Callback, (cb' ∈ cbs ∧ cb'.1 = min (sufL t saL a b) ((maxLen : Int)).toNat ∧
          cb'.2.1 ≤ a ∧ b < cb'.2.2) → cb' = cb)
    (hcf : ∀ {m1 lo1 hi1 m2 lo2 hi2 : Nat}, (m1, lo1, hi1) ∈ cbs → (m2, lo2, hi2) ∈ cbs →
      lo2 ≤ lo1 → hi1 ≤ hi2 → m2 < m1 → [(m1, lo1, hi1), (m2, lo2, hi2)].Sublist cbs)
    (hnodup : cbs.Nodup) : SegHyps t saL minLen maxLen cbs := by
  refine ⟨hperm, ?_, ?_, fun _ _ _ _ _ _ h1 h2 => hcf h1 h2, hnodup⟩
  · intro m lo hi h
    obtain ⟨a, b, c⟩ := hsound h
    exact ⟨by omega, by omega, c⟩
  · intro a b hab hb hmin
    obtain ⟨⟨m, lo, hi⟩, ⟨h1, h2, h3, h4⟩, _⟩ := hcompl hab hb (by omega)
    simp only [Int.toNat_natCast] at h2
    simp only at h2 h3 h4
    exact ⟨lo, hi, by rw [← h2]; exact h1, h3, h4⟩

/-- `CEHyps` with (H2) in the form "the common prefix of the suffixes at ranks `a < b` is at most
    the table entry `lcp[b]`" (a consequence of `kasai_correct` and `lcp_range_min`) -/
theorem CEHyps_of (data : List Byte) (w ws minMatch maxMatch : Nat)
    (hperm : (saSpec (ceT data w ws)).Perm (List.range (ceT data w ws).length))
    (hle : ∀ a b, a < b → b < (saSpec (ceT data w ws)).length →
      sufL (ceT data w ws) (saSpec (ceT data w ws)) a b ≤ (ceLcp data w ws).getD b 0)
    (hsegs : minMatch ≤ ceMaxLen data w ws maxMatch →
      ∃ cbs, ceSegs data w ws minMatch maxMatch = some cbs ∧
        SegHyps (ceT data w ws) (saSpec (ceT data w ws)) minMatch (ceMaxLen data w ws maxMatch) cbs) :
    CEHyps data w ws minMatch maxMatch :=
  ⟨hperm, fun a b h1 h2 => Nat.le_trans (hle a b h1 h2) (getD_le_foldl_max _ _), hsegs⟩

/-! ## axioms -/

#print axioms xzCost_mono_offset
#print axioms xzCost_one_zero
#print axioms xzCost_zero_offset
#print axioms dp_optimal
#print axioms shortestPath_cost
#print axioms cost_pathToSeqs
#print axioms osap_block_cost
#print axioms dp_optimal_lz
#print axioms C11_optimal_partial
#print axioms C11_emitted_is_parse
#print axioms computeEdges_countOK
#print axioms computeEdges_sound
#print axioms computeEdges_complete
#print axioms C11_optimal
#print axioms C11_optimal_fresh
#print axioms C11_optimal_hist
#print axioms parse_osap_hist
#print axioms ex_ceHyps
#print axioms SAOK_of_list
#print axioms SegHyps_of_C10
#print axioms CEHyps_of
#print axioms memberBefore_spec
#print axioms memberAfter_spec
#print axioms memberBefore_some
#print axioms memberBefore_none
#print axioms memberAfter_some
#print axioms memberAfter_none
#print axioms insertRanks_spec
#print axioms sandwich
#print axioms lcpLen_take
#print axioms neighbour_max
#print axioms gsapProbe_longest
#print axioms gsapProbe_none
#print axioms gsapProbe_literal_only_if
#print axioms gsap_loop
#print axioms C12_longest_partial
#print axioms C12_longest_fresh
#print axioms parse_gsap_inv
#print axioms C12_longest_hist
#print axioms parse_gsap_hist

end LZ.Sap
