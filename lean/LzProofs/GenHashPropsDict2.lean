/-
  LzProofs.GenHashPropsDict2 — `Reset` and `Shrink` of the double hash parsers (DHP, BDHP:
  both embed `doubleHashDictionary`) and `Reset` of the bucket parser (BUP: `bucketDictionary`):
  the model (`Parser.reset`, `Parser.shrink`; LzModel/Parser.lean) equals the mechanical
  translation of hash.go `doubleHashDictionary.Reset / Shrink` (CodeDHashDict.lean) and
  bucket_hash.go `bucketDictionary.Reset` (CodeBucketDict.lean).

      P04 gen_dhp_reset    doubleHashDictionary.Reset(data) vs Parser.reset (dict = .double)
      P05 gen_dhp_shrink   doubleHashDictionary.Shrink()    vs Parser.shrink
      P06 gen_bup_reset    bucketDictionary.Reset(data)     vs Parser.reset (dict = .bucket)
  `doubleHashDictionary.init` and the `init` methods of backwardHashParser, doubleHashParser and
  bdhp are translated as well (CodeDHashDict, CodeBHPInit, CodeDHPInit, CodeBDHPInit) but have
  no theorem yet; they have the shape of `gen_hp_init` (GenHashPropsDict).
-/
import LzModel.Generated.CodeDHashDict
import LzModel.Generated.CodeBucketDict
import LzProofs.GenHashPropsDict
import LzProofs.GenHashPropsBucket

set_option linter.unusedSimpArgs false
set_option linter.unusedVariables false

namespace LZ.GenHash
open LZ LZ.Gen LZ.GenBuf LZ.GenProps

def DDictWF (f : Gen.doubleHashDictionary) : Prop := PBWF f.ParserBuffer ∧ HashWF f.h1 ∧ HashWF f.h2

/-- the model parser state (kind DHP or BDHP) a Go `doubleHashDictionary` stands for -/
def ofDDict (k : Kind) (c : Cfg) (f : Gen.doubleHashDictionary) : Parser :=
  { kind := k, cfg := c, buf := ofPB f.ParserBuffer, dict := .double { h1 := ofHash f.h1, h2 := ofHash f.h2 } }

/-- P04 `Reset(data)` of the double hash parsers -/
theorem gen_dhp_reset (k : Kind) (c : Cfg) (f : Gen.doubleHashDictionary) (h : DDictWF f) (data : Slice) (hdat : SWF data) :
    ∃ f' e, doubleHashDictionary_Reset f data = Res.ok (f', e) ∧
      ofDDict k c f' = (Parser.reset (ofDDict k c f) data.data (data.cap - data.len)).1 ∧
      errOfReset e = some (Parser.reset (ofDDict k c f) data.data (data.cap - data.len)).2 ∧ DDictWF f' := by
  obtain ⟨hpb, hh1, hh2⟩ := h
  obtain ⟨b', e, hb, hof, herr, hwf⟩ := gen_pbuf_reset f.ParserBuffer hpb data hdat
  have hiff := errOfReset_ok_iff e _ herr
  unfold doubleHashDictionary_Reset
  rw [hb]
  simp only [bind_ok]
  rcases hr : PBuf.reset (ofPB f.ParserBuffer) data.data (data.cap - data.len) with ⟨rb, re⟩
  rw [hr] at hof herr hiff
  have hpr : Parser.reset (ofDDict k c f) data.data (data.cap - data.len) =
      if re = .ok then ({ ofDDict k c f with buf := rb, dict := .double ⟨(ofHash f.h1).clear, (ofHash f.h2).clear⟩ }, re)
      else (ofDDict k c f, re) := by
    simp only [Parser.reset, ofDDict, hr, Parser.clearDict]
  rw [hpr]
  by_cases he : e = Gen.Err.ok
  · have hre : re = .ok := hiff.mp he
    obtain ⟨g1, hg1, hofg1, hwg1⟩ := gen_hash_reset f.h1 hh1
    obtain ⟨g2, hg2, hofg2, hwg2⟩ := gen_hash_reset f.h2 hh2
    simp only [he, ne_eq, not_true_eq_false, if_false, hg1, hg2, bind_ok, hre, if_true]
    refine ⟨_, _, rfl, ?_, ?_, ⟨hwf, hwg1, hwg2⟩⟩
    · simp only [ofDDict, hof, hofg1, hofg2]
    · rfl
  · have hre : re ≠ .ok := fun c => he (hiff.mpr c)
    simp only [he, ne_eq, not_false_eq_true, if_true, hre, if_false]
    refine ⟨_, _, rfl, ?_, herr, ⟨hwf, hh1, hh2⟩⟩
    have : rb = ofPB f.ParserBuffer := by
      have := pbuf_reset_err (ofPB f.ParserBuffer) data.data (data.cap - data.len) (by rw [hr]; exact hre)
      rw [hr] at this; exact this
    simp only [ofDDict, hof, this]

/-- P05 `Shrink()` of the double hash parsers (hypotheses as in `gen_hp_shrink`) -/
theorem gen_dhp_shrink (k : Kind) (c : Cfg) (f : Gen.doubleHashDictionary) (h : DDictWF f)
    (hw : f.ParserBuffer.W - f.ParserBuffer.BufConfig.ShrinkSize ≤ f.ParserBuffer.Data.len)
    (hW : f.ParserBuffer.W < 4294967296) :
    ∃ f', doubleHashDictionary_Shrink f = Res.ok (f', ((Parser.shrink (ofDDict k c f)).2 : Int)) ∧
      ofDDict k c f' = (Parser.shrink (ofDDict k c f)).1 ∧ DDictWF f' := by
  obtain ⟨hpb, hh1, hh2⟩ := h
  obtain ⟨b', hb, hof, hwf⟩ := gen_pbuf_shrink f.ParserBuffer hpb hw
  unfold doubleHashDictionary_Shrink
  rw [hb]
  simp only [bind_ok]
  rcases hr : PBuf.shrink (ofPB f.ParserBuffer) with ⟨rb, d⟩
  rw [hr] at hof
  have hdlt : d < 2 ^ 32 := by
    have : d = (PBuf.shrink (ofPB f.ParserBuffer)).2 := by rw [hr]
    rw [this]; unfold PBuf.shrink
    have hw0 := hpb.w
    split
    · simp
    · simp only [ofPB]; omega
  have hps : Parser.shrink (ofDDict k c f) =
      if d = 0 then (ofDDict k c f, 0)
      else ({ ofDDict k c f with buf := rb, dict := .double ⟨(ofHash f.h1).shiftOffsets d, (ofHash f.h2).shiftOffsets d⟩ }, d) := by
    simp only [Parser.shrink, ofDDict, hr]
  rw [hps]
  -- the test `delta > 0` (or `delta <= 0` with an early return): one arm is contradictory
  by_cases hd : d = 0
  · subst hd
    have hrb : rb = ofPB f.ParserBuffer := by
      have e : rb = (PBuf.shrink (ofPB f.ParserBuffer)).1 := by rw [hr]
      have e2 : (PBuf.shrink (ofPB f.ParserBuffer)).2 = 0 := by rw [hr]
      rw [e]; unfold PBuf.shrink at e2 ⊢
      split
      · rfl
      · rename_i hn; rw [if_neg hn] at e2; simp only at e2; omega
    simp only [if_true]
    split
    all_goals first
      | (exfalso; omega)
      | ((try simp only [bind_ok])
         refine ⟨_, rfl, ?_, ⟨hwf, hh1, hh2⟩⟩
         simp only [ofDDict, hof, hrb])
  · obtain ⟨g1, hg1, hofg1, hwg1⟩ := gen_hash_shiftOffsets f.h1 (UInt32.ofInt (d : Int)) hh1
    obtain ⟨g2, hg2, hofg2, hwg2⟩ := gen_hash_shiftOffsets f.h2 (UInt32.ofInt (d : Int)) hh2
    simp only [hd, if_false]
    split
    all_goals first
      | (exfalso; omega)
      | (simp only [hg1, hg2, bind_ok]
         refine ⟨_, rfl, ?_, ⟨hwf, hwg1, hwg2⟩⟩
         simp only [ofDDict, hof, hofg1, hofg2, toNat_ofInt32_small d hdlt])

/-! ## the bucket parser -/

def BDictWF (f : Gen.bucketDictionary) : Prop := PBWF f.ParserBuffer ∧ BucketWF f.bucketHash

/-- the model parser state (kind BUP) a Go `bucketDictionary` stands for -/
def ofBDict (c : Cfg) (f : Gen.bucketDictionary) : Parser :=
  { kind := .BUP, cfg := c, buf := ofPB f.ParserBuffer, dict := .bucket (ofBucket f.bucketHash) }

/-- P06 `Reset(data)` of the bucket parser -/
theorem gen_bup_reset (c : Cfg) (f : Gen.bucketDictionary) (h : BDictWF f) (data : Slice) (hdat : SWF data) :
    ∃ f' e, bucketDictionary_Reset f data = Res.ok (f', e) ∧
      ofBDict c f' = (Parser.reset (ofBDict c f) data.data (data.cap - data.len)).1 ∧
      errOfReset e = some (Parser.reset (ofBDict c f) data.data (data.cap - data.len)).2 ∧ BDictWF f' := by
  obtain ⟨hpb, hh⟩ := h
  obtain ⟨b', e, hb, hof, herr, hwf⟩ := gen_pbuf_reset f.ParserBuffer hpb data hdat
  have hiff := errOfReset_ok_iff e _ herr
  unfold bucketDictionary_Reset
  rw [hb]
  simp only [bind_ok]
  rcases hr : PBuf.reset (ofPB f.ParserBuffer) data.data (data.cap - data.len) with ⟨rb, re⟩
  rw [hr] at hof herr hiff
  have hpr : Parser.reset (ofBDict c f) data.data (data.cap - data.len) =
      if re = .ok then ({ ofBDict c f with buf := rb, dict := .bucket (ofBucket f.bucketHash).clear }, re)
      else (ofBDict c f, re) := by
    simp only [Parser.reset, ofBDict, hr, Parser.clearDict]
  rw [hpr]
  by_cases he : e = Gen.Err.ok
  · have hre : re = .ok := hiff.mp he
    obtain ⟨g', hg, hofg, hwg⟩ := gen_bucketHash_reset f.bucketHash hh
    simp only [he, ne_eq, not_true_eq_false, if_false, hg, bind_ok, hre, if_true]
    refine ⟨_, _, rfl, ?_, ?_, ⟨hwf, hwg⟩⟩
    · simp only [ofBDict, hof, hofg]
    · rfl
  · have hre : re ≠ .ok := fun c => he (hiff.mpr c)
    simp only [he, ne_eq, not_false_eq_true, if_true, hre, if_false]
    refine ⟨_, _, rfl, ?_, herr, ⟨hwf, hh⟩⟩
    have : rb = ofPB f.ParserBuffer := by
      have := pbuf_reset_err (ofPB f.ParserBuffer) data.data (data.cap - data.len) (by rw [hr]; exact hre)
      rw [hr] at this; exact this
    simp only [ofBDict, hof, this]

end LZ.GenHash

#print axioms LZ.GenHash.gen_dhp_reset
#print axioms LZ.GenHash.gen_dhp_shrink
#print axioms LZ.GenHash.gen_bup_reset
