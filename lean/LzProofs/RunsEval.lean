/-
  LzProofs.RunsEval — a kernel-evaluable copy `Parser.parseF` of `Parser.parse` (the well-founded
  `greedyLoop` replaced by the fuel-based `greedyLoopF` of LzProofs/ParseEval.lean), proved equal to
  `Parser.parse`.  With it, histories that CONTAIN `Parse` calls can be evaluated inside the kernel
  (`decide`) — used by the witnesses of LzProofs/RunsBdhp.lean and LzProofs/RunsGsap.lean.
-/
import LzProofs.Runs
namespace LZ
open PBuf

namespace Parser

/-- `runGreedy` with the fuel-based loop -/
def runGreedyF {δ} (F : Finder δ) (d : δ) (p : List Byte) (w stop flags : Nat) : δ × Nat × Block × Nat :=
  let st := greedyLoopF F p stop (stop - w) { dict := d, i := w, litIndex := w, seqs := [], lits := [] }
  let (w', blk) := finishBlock p flags st
  (st.dict, w', blk, st.litIndex)

theorem runGreedy_eq_F {δ} (F : Finder δ) (d : δ) (p : List Byte) (w stop flags : Nat) :
    runGreedy F d p w stop flags = runGreedyF F d p w stop flags := by
  unfold runGreedy runGreedyF
  rw [greedyLoop_eq_fuel F p stop _ (stop - w) (Nat.le_refl _)]

/-- verbatim copy of `Parser.parse` (LzModel/Parser.lean) with `runGreedyF` for `runGreedy` -/
def parseF (s : Parser) (flags : Nat) : Parser × Nat × Err × Block :=
  let n := s.blockN
  if n = 0 then (s, 0, .empty, ⟨[], []⟩)
  else
    let w := s.buf.w
    let data := s.buf.data
    let p := data.take (w + n)
    let ws := s.buf.cfg.windowSize
    let mm := s.minMatch
    let il : Nat := match s.dict with
      | .single h => h.inputLen | .double d => d.h1.inputLen | .bucket bk => bk.inputLen
      | _ => 0
    if il ≠ 0 ∧ (s.buf.cap : Int) < (p.length : Int) - il + 1 + Facts.margin then
      (s, 0, .panic, ⟨[], []⟩)
    else
    match s.dict with
    | .single h =>
      let h := processSegment1 h data ((w : Int) - h.inputLen + 1) w
      let inputEnd := p.length + 1 - h.inputLen
      let (h', w', blk, _) := runGreedyF ⟨hpProbe ws mm inputEnd (s.kind == .BHP)⟩ h p w inputEnd flags
      ({ s with buf := { s.buf with w := w' }, dict := .single h' }, w' - w, .ok, blk)
    | .double d =>
      let (h1, h2) := processSegment2 d.h1 d.h2 data ((w : Int) - d.h2.inputLen + 1) w
      let e1 := p.length + 1 - h1.inputLen
      let e2 := p.length + 1 - h2.inputLen
      let (d', w', blk, _) := runGreedyF ⟨dhpProbe ws mm e1 e2 (s.kind == .BDHP)⟩ ⟨h1, h2⟩ p w e1 flags
      ({ s with buf := { s.buf with w := w' }, dict := .double d' }, w' - w, .ok, blk)
    | .bucket bk =>
      let bk := processSegmentB bk data ((w : Int) - bk.inputLen + 1) w
      let inputEnd := p.length + 1 - bk.inputLen
      let (bk', w', blk, _) := runGreedyF ⟨bupProbe ws mm inputEnd⟩ bk p w inputEnd flags
      ({ s with buf := { s.buf with w := w' }, dict := .bucket bk' }, w' - w, .ok, blk)
    | .gsap g =>
      let g := if w + n > g.sa.size then gsapSort data w else g
      let (g', w', blk, li) := runGreedyF ⟨gsapProbe ws mm⟩ g p w p.length flags
      let g' := if flags % 2 = 1 ∧ blk.seqs ≠ [] ∧ li < p.length then { g' with sa := #[] } else g'
      ({ s with buf := { s.buf with w := w' }, dict := .gsap g' }, w' - w, .ok, blk)
    | .osap o =>
      let o := if w + n > o.start + o.edges.size then
          computeEdges data w ws mm s.cfg.maxMatchLen.toNat
        else o
      if o.nEdges = 0 then
        ({ s with buf := { s.buf with w := w + n }, dict := .osap o }, n, .ok,
         ⟨[], (data.drop w).take n⟩)
      else
        let path := shortestPath mm n o.edges (w - o.start)
        let (seqs, lits, _, li) := pathToSeqs p path w w [] []
        let (w', blk) :=
          if flags % 2 = 1 ∧ seqs ≠ [] then (li, (⟨seqs, lits⟩ : Block))
          else (p.length, ⟨seqs, lits ++ p.drop li⟩)
        ({ s with buf := { s.buf with w := w' }, dict := .osap o }, w' - w, .ok, blk)

theorem parse_eq_parseF (s : Parser) (flags : Nat) : s.parse flags = s.parseF flags := by
  unfold parse parseF
  simp only [runGreedy_eq_F]
  rfl

end Parser

/-- `stepP` with `parseF` -/
def stepPF (s : Parser) : POp → Parser
  | .write p => (s.write p).1
  | .readFrom r => (s.readFrom r).1
  | .parse flags => (s.parseF flags).1
  | .parseNil => s.parseNil.1
  | .shrink => s.shrink.1
  | .reset data capExtra => (s.reset data capExtra).1

theorem stepP_eq_F (s : Parser) (op : POp) : stepP s op = stepPF s op := by
  cases op <;> simp only [stepP, stepPF, Parser.parse_eq_parseF]

/-- the parser state after a history, in kernel-evaluable form -/
theorem runOps_fst_F (s0 : Parser) (ops : List POp) :
    (runOps (s0, Ghost.init) ops).1 = ops.foldl stepPF s0 := by
  rw [runOps_fst]
  show ops.foldl stepP s0 = _
  have : stepP = stepPF := by funext s op; exact stepP_eq_F s op
  rw [this]

end LZ
