/-
  LzProofs.SafeProps — property C16, clause 2: "A parser obtained [from an accepted configuration]
  never panics, never loops without progress and never reports an error other than the documented
  ones (ErrEmptyBuffer, ErrFullBuffer, Reset's oversize error, io.EOF from a wrapped parser, the
  reader's own error) in any sequence of Write, ReadFrom, Parse, Shrink, Reset and wrapped Parse
  calls on any input."

  In the model `Err.panic` is the value returned where the Go code would panic (slice bounds in
  `Write`/`ReadFrom`/`grow`, the 7-byte margin of `Parse`, `panic("unexpected ErrFullBuffer")` in
  wrap.go).  TERMINATION is definitional: every function of the model is a total Lean function
  (the loops are structural or well-founded recursions accepted by the kernel — `PBuf.readLoop` and
  `Wrapped.parse` on the reader's remaining responses, `greedyLoop` on the distance to the block
  end), so "never loops without progress" needs no theorem here; the progress facts themselves are
  C03 (`Parse` consumes ≥ 1 byte) and C08 (`Wrapped.parse_post_aux`).

    C16_safe            all SEVEN kinds (OSAP included, no hypothesis on its edge table), every
                        accepted raw configuration, every list of operations, every step:
                        the error is as documented for that operation — never `.panic`
    C16_safe_trace      the same as a statement about the whole trace of errors
    C16_safe_wrapped    the six greedy kinds, operations interleaved with wrapped `Parse` calls on
                        arbitrary readers: additionally a wrapped call returns `nil` or what the
                        reader said, never `.panic` / `ErrFullBuffer` / `ErrEmptyBuffer`
    C16_index_safety    `hashValue x hashBits < 2 ^ hashBits` (all `hashBits`), bucket slot
                        `h * bucketSize + i < 2 ^ hashBits * bucketSize`; table sizes are kept by
                        every table operation of the single hash parsers.  The history-level
                        statement (all hash kinds, ring indexes of the bucket table included) is
                        `C16_tables_reachable` / `C16_table_access` in LzProofs/SafeTables.lean.
-/
import LzProofs.WrapInst
import LzProofs.ParseProps
namespace LZ
open PBuf

/-! ## per-step output of a history (`POp`, `runOps` of LzProofs/ParseHist.lean) -/

/-- the parser after one operation (the first component of `step`, which does not depend on the
    ghost state) -/
def stepP (s : Parser) : POp → Parser
  | .write p => (s.write p).1
  | .readFrom r => (s.readFrom r).1
  | .parse flags => (s.parse flags).1
  | .parseNil => s.parseNil.1
  | .shrink => s.shrink.1
  | .reset data capExtra => (s.reset data capExtra).1

/-- the error the operation returns (`Shrink` has no error result) -/
def opErr (s : Parser) : POp → Err
  | .write p => (s.write p).2.2
  | .readFrom r => (s.readFrom r).2.2.2
  | .parse flags => (s.parse flags).2.2.1
  | .parseNil => s.parseNil.2.2
  | .shrink => .ok
  | .reset data capExtra => (s.reset data capExtra).2

theorem step_fst (sg : Parser × Ghost) (op : POp) : (step sg op).1 = stepP sg.1 op := by
  cases op <;> simp only [step, stepP]
  all_goals (split <;> rfl)

/-- the errors of all steps of a history -/
def errTrace (s : Parser) : List POp → List Err
  | [] => []
  | op :: ops => opErr s op :: errTrace (stepP s op) ops

/-- the documented errors -/
def Documented (e : Err) : Prop :=
  e = .ok ∨ e = .empty ∨ e = .full ∨ e = .oversize ∨ e = .eof ∨ ∃ c, e = .reader c

/-- what an operation may return: `Write` nil/ErrFullBuffer; `ReadFrom` ErrFullBuffer or exactly
    what the scripted reader said on its last read (`ReaderSaid`: io.EOF or its error code);
    `Parse`/`Parse(nil)` nil/ErrEmptyBuffer; `Reset` nil/oversize. -/
def ErrOK (s : Parser) : POp → Err → Prop
  | .write _, e => e = .ok ∨ e = .full
  | .readFrom r, e => e = .full ∨ ReaderSaid r (s.readFrom r).2.1 e
  | .parse _, e => e = .ok ∨ e = .empty
  | .parseNil, e => e = .ok ∨ e = .empty
  | .shrink, e => e = .ok
  | .reset _ _, e => e = .ok ∨ e = .oversize

theorem errOfCode_documented (c : Nat) (h : c ≠ 0) : Documented (errOfCode c) := by
  unfold errOfCode
  split
  · exact absurd rfl h
  · exact Or.inr (Or.inr (Or.inr (Or.inr (Or.inl rfl))))
  · exact Or.inr (Or.inr (Or.inr (Or.inr (Or.inr ⟨_, rfl⟩))))

theorem ReaderSaid.documented {r r' : Reader} {e : Err} (h : ReaderSaid r r' e) : Documented e := by
  rcases h with ⟨h, _⟩ | ⟨j, mx, ec, _, hec, h⟩
  · exact Or.inr (Or.inr (Or.inr (Or.inr (Or.inl h))))
  · rw [h]; exact errOfCode_documented _ hec

theorem Documented.ne_panic {e : Err} (h : Documented e) :
    e ≠ .panic ∧ e ≠ .cfg ∧ e ≠ .outOfBuffer ∧ e ≠ .endOfBuffer ∧ e ≠ .litLen ∧ e ≠ .matchLen ∧
    e ≠ .offset ∧ e ≠ .shortWrite ∧ ∀ c, e ≠ .writer c := by
  rcases h with h | h | h | h | h | ⟨c, h⟩ <;> subst h <;> simp

/-- an admissible error is a documented one, in particular not a panic -/
theorem ErrOK.documented {s : Parser} {op : POp} {e : Err} (h : ErrOK s op e) : Documented e := by
  cases op with
  | write p => rcases h with h | h <;> subst h <;> simp [Documented]
  | readFrom r =>
    rcases h with h | h
    · subst h; simp [Documented]
    · exact h.documented
  | parse flags => rcases h with h | h <;> subst h <;> simp [Documented]
  | parseNil => rcases h with h | h <;> subst h <;> simp [Documented]
  | shrink => have h : e = .ok := h; subst h; simp [Documented]
  | reset d c => rcases h with h | h <;> subst h <;> simp [Documented]

/-! ## the invariant: at most `BufferSize` bytes, 7 spare bytes behind non-empty data -/

/-- `PInv`/`BufOK` without the parse position: all that "no panic" needs -/
def Room (b : PBuf) : Prop :=
  b.data.length ≤ b.cfg.bufferSize ∧ (b.data = [] ∨ b.data.length + Facts.margin ≤ b.cap)

theorem room_init (cfg : BufCfg) : Room (PBuf.init cfg) := ⟨Nat.zero_le _, Or.inl rfl⟩

theorem room_stepP (s : Parser) (op : POp) (h : Room s.buf) : Room (stepP s op).buf := by
  obtain ⟨h1, h2⟩ := h
  cases op with
  | write p =>
    obtain ⟨c, hw, hc⟩ := write_spec s.buf p h1
    show Room (s.buf.write p).1
    rw [hw]
    refine ⟨?_, Or.inr ?_⟩
    · simp only [List.length_append, List.length_take]; omega
    · simp only [List.length_append, List.length_take]; omega
  | readFrom r =>
    obtain ⟨c, pre, hb, _, hn1, hn2, hm, _⟩ :=
      readFrom_master h1 (r := r) (b' := (s.buf.readFrom r).1) (r' := (s.buf.readFrom r).2.1)
        (n := (s.buf.readFrom r).2.2.1) (e := (s.buf.readFrom r).2.2.2) rfl
    show Room (s.buf.readFrom r).1
    rw [hb]
    refine ⟨?_, ?_⟩
    · simp only [List.length_append, List.length_take]; omega
    · rcases hm h2 with ⟨a1, a2⟩ | a
      · left; simp only [a1, a2, List.take_zero, List.append_nil]
      · right; simp only [List.length_append, List.length_take]; omega
  | parse flags =>
    show Room (s.parse flags).1.buf
    rw [Parser.parse_frame]; exact ⟨h1, h2⟩
  | parseNil =>
    show Room s.parseNil.1.buf
    rw [Parser.parseNil_buf]; exact ⟨h1, h2⟩
  | shrink =>
    show Room s.shrink.1.buf
    rw [Parser.shrink_buf, PBuf.shrink_spec]
    refine ⟨?_, ?_⟩
    · simp only [List.length_drop]; omega
    · simp only [List.length_drop]
      rcases h2 with h2 | h2
      · left; simp [h2]
      · right; omega
  | reset data capExtra =>
    show Room (s.reset data capExtra).1.buf
    rcases reset_eq s data capExtra with ⟨_, hs⟩ | ⟨_, _, _, hb, hbe, _⟩
    · rw [hs]; exact ⟨h1, h2⟩
    · rw [hb]
      have hle : data.length ≤ s.buf.cfg.bufferSize := by
        by_cases hle : data.length ≤ s.buf.cfg.bufferSize
        · exact hle
        · have := reset_oversize s.buf data capExtra (by omega)
          rw [this] at hbe
          cases hbe
      obtain ⟨c, hc, hm⟩ := reset_spec s.buf data capExtra hle
      rw [hc]
      exact ⟨hle, hm⟩

/-- every operation returns an admissible error on a state satisfying `Room` -/
theorem errOK_of_room (s : Parser) (op : POp) (h : Room s.buf) : ErrOK s op (opErr s op) := by
  obtain ⟨h1, h2⟩ := h
  cases op with
  | write p =>
    obtain ⟨c, hw, _⟩ := write_spec s.buf p h1
    show (s.buf.write p).2.2 = .ok ∨ (s.buf.write p).2.2 = .full
    rw [hw]
    simp only []
    split
    · exact Or.inr rfl
    · exact Or.inl rfl
  | readFrom r =>
    obtain ⟨c, pre, _, _, _, _, _, _, _, hcase⟩ :=
      readFrom_master h1 (r := r) (b' := (s.buf.readFrom r).1) (r' := (s.buf.readFrom r).2.1)
        (n := (s.buf.readFrom r).2.2.1) (e := (s.buf.readFrom r).2.2.2) rfl
    show (s.buf.readFrom r).2.2.2 = .full ∨ ReaderSaid r (s.buf.readFrom r).2.1 (s.buf.readFrom r).2.2.2
    rcases hcase with ⟨a1, _⟩ | ⟨a1, _, a3, _⟩ | ⟨mx, ec, a1, hec, a2⟩
    · exact Or.inl a1
    · exact Or.inr (Or.inl ⟨a1, a3⟩)
    · refine Or.inr (Or.inr ⟨pre.length, mx, ec, ?_, hec, a2⟩)
      rw [a1, List.drop_left]
  | parse flags =>
    show (s.parse flags).2.2.1 = .ok ∨ (s.parse flags).2.2.1 = .empty
    by_cases hn : s.blockN = 0
    · right; rw [Parser.parse_of_blockN_zero s flags hn]
    · left
      have hw : s.buf.w ≤ s.buf.data.length := by
        unfold Parser.blockN at hn; omega
      exact Parser.parse_ok s flags ⟨hw, h1, h2⟩ hn
  | parseNil =>
    show s.parseNil.2.2 = .ok ∨ s.parseNil.2.2 = .empty
    by_cases hn : s.blockN = 0
    · right; rw [Parser.parseNil_empty s hn]
    · left
      obtain ⟨s', hp, _⟩ := Parser.parseNil_ok s hn
      rw [hp]
  | shrink => rfl
  | reset data capExtra =>
    show (s.reset data capExtra).2 = .ok ∨ (s.reset data capExtra).2 = .oversize
    by_cases hle : data.length ≤ s.buf.cfg.bufferSize
    · left
      obtain ⟨c, hc, _⟩ := reset_spec s.buf data capExtra hle
      unfold Parser.reset
      simp only [hc, ↓reduceIte]
    · right
      have := reset_oversize s.buf data capExtra (by omega)
      unfold Parser.reset
      simp [this]

theorem runOps_fst (sg : Parser × Ghost) (ops : List POp) :
    (runOps sg ops).1 = ops.foldl stepP sg.1 := by
  induction ops generalizing sg with
  | nil => rfl
  | cons op ops ih =>
    show (runOps (step sg op) ops).1 = _
    rw [ih, step_fst]
    rfl

theorem room_foldl (ops : List POp) : ∀ (s : Parser), Room s.buf → Room (ops.foldl stepP s).buf := by
  induction ops with
  | nil => intro s h; exact h
  | cons op ops ih => intro s h; exact ih _ (room_stepP s op h)

theorem newParser_room {k : Kind} {raw : Cfg} {s0 : Parser} (h0 : newParser k raw = some s0) :
    Room s0.buf := by
  unfold newParser at h0
  simp only [] at h0
  split at h0
  · cases h0; exact room_init _
  · cases h0

/-! ## C16, clause 2 -/

/-- **C16 (no panic, only documented errors), every step of every history, all seven parsers.**
    `k` any kind (HP, BHP, DHP, BDHP, BUP, GSAP, OSAP — no hypothesis about OSAP's edge table),
    `raw` any configuration accepted by `NewParser`, `ops` any list of `Write p`, `ReadFrom r`
    (any scripted reader), `Parse flags`, `Parse(nil)`, `Shrink`, `Reset data` (any capacity).
    For the `i`-th operation, executed in the state reached by the first `i`:
      Write      → nil or ErrFullBuffer
      ReadFrom   → ErrFullBuffer, or what the reader said (io.EOF / its scripted error code)
      Parse, Parse(nil) → nil or ErrEmptyBuffer
      Reset      → nil or the oversize error
    in particular (`ErrOK.documented`, `Documented.ne_panic`) never `.panic`. -/
theorem C16_safe (k : Kind) (raw : Cfg) (s0 : Parser) (h0 : newParser k raw = some s0)
    (ops : List POp) (i : Nat) (hi : i < ops.length) :
    let s := (runOps (s0, Ghost.init) (ops.take i)).1
    ErrOK s ops[i] (opErr s ops[i]) ∧ opErr s ops[i] ≠ .panic := by
  intro s
  have hr : Room s.buf := by
    show Room (runOps (s0, Ghost.init) (ops.take i)).1.buf
    rw [runOps_fst]
    exact room_foldl _ _ (newParser_room h0)
  have := errOK_of_room s ops[i] hr
  exact ⟨this, this.documented.ne_panic.1⟩

/-- the trace of a history from a state satisfying `Room`: all errors documented -/
theorem errTrace_documented (ops : List POp) : ∀ (s : Parser), Room s.buf →
    ∀ e ∈ errTrace s ops, Documented e := by
  induction ops with
  | nil => intro s _ e he; cases he
  | cons op ops ih =>
    intro s h e he
    rcases List.mem_cons.mp he with he | he
    · rw [he]; exact (errOK_of_room s op h).documented
    · exact ih _ (room_stepP s op h) e he

/-- **C16 as a statement about the whole trace**: every error returned in a history from
    `NewParser` is `nil`, ErrEmptyBuffer, ErrFullBuffer, the oversize error, io.EOF or a reader
    error — never a panic, never any other error value. -/
theorem C16_safe_trace (k : Kind) (raw : Cfg) (s0 : Parser) (h0 : newParser k raw = some s0)
    (ops : List POp) : ∀ e ∈ errTrace s0 ops, Documented e ∧ e ≠ .panic :=
  fun e he =>
    have h := errTrace_documented ops s0 (newParser_room h0) e he
    ⟨h, h.ne_panic.1⟩

/-! ## with wrapped `Parse` calls (six greedy parsers) -/

/-- operations of a history that may also call `Wrap(r, parser).Parse(&blk, flags)` -/
inductive SOp where
  | base (op : POp)
  | wrap (r : Reader) (flags : Nat)

def stepS (s : Parser) : SOp → Parser
  | .base op => stepP s op
  | .wrap r flags => (Wrapped.parse ⟨r, s⟩ flags).1.s

def opErrS (s : Parser) : SOp → Err
  | .base op => opErr s op
  | .wrap r flags => (Wrapped.parse ⟨r, s⟩ flags).2.2.1

/-- admissible results: as `ErrOK`; a wrapped `Parse` returns `nil` or what the reader said
    (io.EOF or its error) -/
def ErrOKS (s : Parser) : SOp → Err → Prop
  | .base op, e => ErrOK s op e
  | .wrap r flags, e => e = .ok ∨ ReaderSaid r (Wrapped.parse ⟨r, s⟩ flags).1.r e

theorem ErrOKS.documented {s : Parser} {op : SOp} {e : Err} (h : ErrOKS s op e) : Documented e := by
  cases op with
  | base op => exact ErrOK.documented h
  | wrap r flags =>
    rcases h with h | h
    · exact Or.inl h
    · exact h.documented

/-- invariant of the greedy parsers: buffer invariant, static well-formedness, and
    `ShrinkSize < BufferSize` (what `Wrap` relies on) -/
def SafeW (s : Parser) : Prop :=
  BufOK s.buf ∧ s.GreedyWF ∧ s.buf.cfg.shrinkSize < s.buf.cfg.bufferSize

theorem SafeW.room {s : Parser} (h : SafeW s) : Room s.buf := ⟨h.1.2.1, h.1.2.2⟩

theorem safeW_stepP (s : Parser) (op : POp) (h : SafeW s) : SafeW (stepP s op) := by
  obtain ⟨hb, hg, hc⟩ := h
  obtain ⟨fed, hp⟩ := (bufOK_iff _).1 hb
  cases op with
  | write p =>
    refine ⟨bufOK_of_pinv (pinv_write hp p), hg.write p, ?_⟩
    show (s.buf.write p).1.cfg.shrinkSize < (s.buf.write p).1.cfg.bufferSize
    rw [(write_frame s.buf p).2.2.2.2.1]; exact hc
  | readFrom r =>
    refine ⟨bufOK_of_pinv (pinv_readFrom hp r), hg.readFrom r, ?_⟩
    show (s.buf.readFrom r).1.cfg.shrinkSize < (s.buf.readFrom r).1.cfg.bufferSize
    rw [(readFrom_frame s.buf r).2.2.2.2.1]; exact hc
  | parse flags =>
    show SafeW (s.parse flags).1
    rcases Parser.parse_cases parseSpec_greedy s flags hg hb with ⟨_, he⟩ | ⟨_, _, _, hbuf, hle, hI⟩
    · rw [he]; exact ⟨hb, hg, hc⟩
    · refine ⟨?_, hI, by rw [hbuf]; exact hc⟩
      rw [hbuf]
      exact ⟨hle, hb.2.1, hb.2.2⟩
  | parseNil =>
    show SafeW s.parseNil.1
    refine ⟨?_, hg.parseNil, by rw [Parser.parseNil_buf]; exact hc⟩
    rw [Parser.parseNil_buf]
    have := s.blockN_le
    have := hb.1
    exact ⟨by simp only; omega, hb.2.1, hb.2.2⟩
  | shrink =>
    show SafeW s.shrink.1
    refine ⟨?_, hg.shrink, ?_⟩
    · rw [Parser.shrink_buf]; exact bufOK_of_pinv (pinv_shrink hp)
    · rw [Parser.shrink_buf, (shrink_frame s.buf).2.2.2.1]; exact hc
  | reset data capExtra =>
    show SafeW (s.reset data capExtra).1
    rcases reset_eq s data capExtra with ⟨_, hs⟩ | ⟨_, _, _, hbf, hbe, _⟩
    · rw [hs]; exact ⟨hb, hg, hc⟩
    · have hle : data.length ≤ s.buf.cfg.bufferSize := by
        by_cases hle : data.length ≤ s.buf.cfg.bufferSize
        · exact hle
        · have := reset_oversize s.buf data capExtra (by omega)
          rw [this] at hbe
          cases hbe
      refine ⟨?_, hg.reset data capExtra, ?_⟩
      · rw [hbf]; exact bufOK_of_pinv (pinv_reset s.buf data capExtra hle)
      · rw [hbf]
        rcases reset_frame s.buf data capExtra with ⟨_, _, _, _, b4, _⟩ | ⟨b0, _⟩
        · rw [b4]; exact hc
        · exact absurd hbe b0

theorem safeW_stepS (s : Parser) (op : SOp) (h : SafeW s) :
    SafeW (stepS s op) ∧ ErrOKS s op (opErrS s op) ∧
    (∀ r flags, op = .wrap r flags →
      opErrS s op ≠ .panic ∧ opErrS s op ≠ .full ∧ opErrS s op ≠ .empty) := by
  cases op with
  | base op =>
    exact ⟨safeW_stepP s op h, errOK_of_room s op h.room, fun _ _ hh => by cases hh⟩
  | wrap r flags =>
    obtain ⟨hb, hg, hc⟩ := h
    obtain ⟨fed, hp⟩ := (bufOK_iff _).1 hb
    have hw : WInv Parser.GreedyWF ⟨r, s⟩ fed := ⟨hg, hp, hc⟩
    obtain ⟨q, h1, _, _, _, h5⟩ := C08_wrap_step_greedy ⟨r, s⟩ flags fed hw
    refine ⟨⟨bufOK_of_pinv h1.view, h1.inv, h1.cfg⟩, ?_, ?_⟩
    · show _ = Err.ok ∨ ReaderSaid r _ _
      rcases h5 with ⟨a, _⟩ | ⟨_, _, a⟩
      · exact Or.inl a
      · exact Or.inr a
    · intro _ _ _
      exact C08_wrap_no_panic_greedy ⟨r, s⟩ flags fed hw

theorem safeW_foldl (ops : List SOp) : ∀ (s : Parser), SafeW s → SafeW (ops.foldl stepS s) := by
  induction ops with
  | nil => intro s h; exact h
  | cons op ops ih => intro s h; exact ih _ (safeW_stepS s op h).1

/-- `BufConfig.Verify`: `ShrinkSize < BufferSize` for every parser `NewParser` returns -/
theorem newParser_shrink_lt {k : Kind} {raw : Cfg} {s0 : Parser} (h0 : newParser k raw = some s0) :
    s0.buf.cfg.shrinkSize < s0.buf.cfg.bufferSize ∧ s0.buf.data.length ≤ s0.buf.cfg.bufferSize := by
  unfold newParser at h0
  simp only [] at h0
  split at h0
  · rename_i hv
    cases h0
    have hb := verify_buf k _ hv
    simp only [bufVerify, Bool.decide_and, Bool.and_eq_true, decide_eq_true_eq] at hb
    simp only [PBuf.init, Cfg.bufCfg, List.length_nil]
    omega
  · cases h0

/-- a fresh greedy parser satisfies the invariant -/
theorem newParser_safeW {k : Kind} {raw : Cfg} {s0 : Parser} (h0 : newParser k raw = some s0)
    (hk : k ≠ .OSAP) : SafeW s0 := by
  obtain ⟨hi, hmm, hbs⟩ := newParser_inv k raw s0 h0
  obtain ⟨hc, hl⟩ := newParser_shrink_lt h0
  refine ⟨⟨hi.hw, hl, hi.cap⟩, ⟨?_, hbs, ?_⟩, hc⟩
  · rw [minMatch_eq, hi.kind]; exact hmm
  · have hD := hi.dict
    intro o ho
    unfold DictOK at hD
    rw [ho] at hD
    exact hk hD.1

/-- **C16 with wrapped `Parse` calls (HP, BHP, DHP, BDHP, BUP, GSAP).**  Any accepted
    configuration, any list of operations `Write | ReadFrom | Parse | Parse(nil) | Shrink | Reset |
    Wrap(r, ·).Parse(flags)` (every wrapped call with its own arbitrary scripted reader; the
    parser carries on in the state the wrapped call left).  For the `i`-th operation in the state
    reached by the first `i`: the error is admissible (`ErrOKS`), hence documented and not a
    panic; a wrapped call returns `nil` or what its reader said — never `.panic` (in particular
    not wrap.go's `panic("unexpected ErrFullBuffer")`), never ErrFullBuffer, never
    ErrEmptyBuffer.
    (OSAP is excluded here only because progress of its `Parse` — needed by `Wrap` — is proved in
    the parser topic relative to the soundness of its edge table; `C16_safe` covers OSAP without
    wrapped calls.) -/
theorem C16_safe_wrapped (k : Kind) (hk : k ≠ .OSAP) (raw : Cfg) (s0 : Parser)
    (h0 : newParser k raw = some s0) (ops : List SOp) (i : Nat) (hi : i < ops.length) :
    let s := (ops.take i).foldl stepS s0
    ErrOKS s ops[i] (opErrS s ops[i]) ∧ Documented (opErrS s ops[i]) ∧ opErrS s ops[i] ≠ .panic ∧
    (∀ r flags, ops[i] = .wrap r flags →
      opErrS s ops[i] ≠ .full ∧ opErrS s ops[i] ≠ .empty) := by
  intro s
  have hs : SafeW s := safeW_foldl _ _ (newParser_safeW h0 hk)
  obtain ⟨_, h2, h3⟩ := safeW_stepS s ops[i] hs
  exact ⟨h2, h2.documented, h2.documented.ne_panic.1, fun r flags hh => (h3 r flags hh).2⟩

/-! ## C16: table indices are in range -/

/-- the hash of any value lies in `[0, 2^hashBits)`, for every `hashBits` (for `hashBits ≥ 64`
    the shift amount of the uint64 shift is `0 mod 64`) -/
theorem hashValue_lt (x : UInt64) (hb : Nat) : hashValue x hb < 2 ^ hb := by
  unfold hashValue
  split
  · exact Nat.pow_pos (by decide)
  · rw [UInt64.toNat_shiftRight, Nat.shiftRight_eq_div_pow, UInt64.toNat_ofNat']
    have hx := UInt64.toNat_lt (x * prime64)
    generalize (x * prime64).toNat = v at hx
    by_cases h64 : hb < 64
    · have e : (64 - hb) % 2 ^ 64 % 64 = 64 - hb := by omega
      rw [e, Nat.div_lt_iff_lt_mul (Nat.pow_pos (by decide)), ← Nat.pow_add]
      have : hb + (64 - hb) = 64 := by omega
      rw [this]; exact hx
    · have e : (64 - hb) % 2 ^ 64 % 64 = 0 := by
        have : 64 - hb = 0 := by omega
        rw [this]
      rw [e, Nat.pow_zero, Nat.div_one]
      exact Nat.lt_of_lt_of_le hx (Nat.pow_le_pow_right (by decide) (by omega))

/-- a single hash table has exactly `2^hashBits` entries -/
def HashT.SizeOK (h : HashT) : Prop := h.tbl.size = 2 ^ h.hashBits

theorem HashT.sizeOK_new (il hb : Nat) : (HashT.new il hb).SizeOK := by
  simp [HashT.SizeOK, HashT.new]

theorem HashT.sizeOK_clear {h : HashT} (hs : h.SizeOK) : h.clear.SizeOK := by
  simpa [HashT.SizeOK, HashT.clear] using hs

theorem HashT.sizeOK_insert {h : HashT} (hs : h.SizeOK) (p : List Byte) (i : Nat) :
    (h.insert p i).SizeOK := by
  simpa [HashT.SizeOK, HashT.insert] using hs

theorem HashT.insert_hashBits (h : HashT) (p : List Byte) (i : Nat) :
    (h.insert p i).hashBits = h.hashBits := rfl

theorem HashT.sizeOK_insertRange (p : List Byte) : ∀ (n a : Nat) (h : HashT), h.SizeOK →
    (h.insertRange p a n).SizeOK := by
  intro n
  induction n with
  | zero => intro a h hs; exact hs
  | succ n ih => intro a h hs; exact ih _ _ (HashT.sizeOK_insert hs p a)

theorem HashT.sizeOK_shiftOffsets {h : HashT} (hs : h.SizeOK) (delta : Nat) :
    (h.shiftOffsets delta).SizeOK := by
  unfold HashT.shiftOffsets
  split
  · exact hs
  · simpa [HashT.SizeOK] using hs

theorem sizeOK_processSegment1 {h : HashT} (hs : h.SizeOK) (data : List Byte) (a b : Int) :
    (processSegment1 h data a b).SizeOK := by
  unfold processSegment1
  simp only []
  repeat' split
  all_goals first | exact hs | exact HashT.sizeOK_insertRange _ _ _ _ hs

/-- the probe of HP/BHP keeps the table size -/
theorem sizeOK_hpProbe (ws mm ie : Nat) (back : Bool) {h : HashT} (hs : h.SizeOK) (p : List Byte)
    (i li : Nat) : (hpProbe ws mm ie back h p i li).1.SizeOK := by
  have h1 : ({ h with tbl := h.tbl.setIfInBounds (hashValue (h.key p i) h.hashBits) (i, lo32 (h.key p i)) } : HashT).SizeOK := by
    simpa [HashT.SizeOK] using hs
  unfold hpProbe
  simp only []
  split
  · exact h1
  · split
    · exact h1
    · split
      · exact h1
      · exact HashT.sizeOK_insertRange _ _ _ _ h1

/-- **C16, index safety.**
    (1) `hashValue x hashBits < 2 ^ hashBits`, hence `< tbl.size` for every table with `SizeOK`
        (fresh tables have it; insert / insertRange / shiftOffsets / clear / processSegment and the
        HP/BHP probe keep it): `h.tbl[hashValue …]` of hash.go never indexes out of range;
    (2) for a bucket table with `2^hashBits * bucketSize` slots, slot `i < bucketSize` of bucket
        `h = hashValue …` is `h * bucketSize + i < buckets.size`. -/
theorem C16_index_safety :
    (∀ (x : UInt64) (hb : Nat), hashValue x hb < 2 ^ hb) ∧
    (∀ (h : HashT) (x : UInt64), h.SizeOK → hashValue x h.hashBits < h.tbl.size) ∧
    (∀ (b : BucketT) (x : UInt64) (i : Nat), b.buckets.size = 2 ^ b.hashBits * b.bucketSize →
      i < b.bucketSize → hashValue x b.hashBits * b.bucketSize + i < b.buckets.size) ∧
    (∀ il hb bs, (BucketT.new il hb bs).buckets.size = 2 ^ hb * bs ∧
      (BucketT.new il hb bs).indexes.size = 2 ^ hb) := by
  refine ⟨hashValue_lt, ?_, ?_, ?_⟩
  · intro h x hs
    rw [hs]; exact hashValue_lt x _
  · intro b x i hs hi
    rw [hs]
    have h1 := hashValue_lt x b.hashBits
    calc hashValue x b.hashBits * b.bucketSize + i
        < hashValue x b.hashBits * b.bucketSize + b.bucketSize := by omega
      _ = (hashValue x b.hashBits + 1) * b.bucketSize := by rw [Nat.add_mul, Nat.one_mul]
      _ ≤ 2 ^ b.hashBits * b.bucketSize := Nat.mul_le_mul_right _ h1
  · intro il hb bs
    simp [BucketT.new]

/-! ## non-vacuity -/

section Examples

/-- a reader that delivers 2 bytes, then fails with code 5 -/
def rdFail : Reader := ⟨[1, 2, 3], [(2, 0), (1, 5)]⟩

/-- a history touching every operation, for the accepted HP configuration `exCfg` -/
def exOps : List POp :=
  [.parse 0, .write [97, 98, 99, 97, 98, 99, 97], .parse 1, .parseNil, .readFrom rdFail, .shrink,
   .reset (List.replicate 100 0) 0, .reset [1, 2, 3] 9, .parse 0]

example : ∃ s0, newParser .HP exCfg = some s0 ∧
    ∀ e ∈ errTrace s0 exOps, Documented e ∧ e ≠ .panic := by
  have h : (newParser .HP exCfg).isSome = true := by decide
  obtain ⟨s0, hs⟩ := Option.isSome_iff_exists.mp h
  exact ⟨s0, hs, C16_safe_trace .HP exCfg s0 hs exOps⟩

/-- `C16_safe` at a single step: the failing `ReadFrom` (step 4) returns what the reader said -/
example : ∃ s0, newParser .HP exCfg = some s0 ∧
    ErrOK (runOps (s0, Ghost.init) (exOps.take 4)).1 (.readFrom rdFail)
      (opErr (runOps (s0, Ghost.init) (exOps.take 4)).1 (.readFrom rdFail)) := by
  have h : (newParser .HP exCfg).isSome = true := by decide
  obtain ⟨s0, hs⟩ := Option.isSome_iff_exists.mp h
  exact ⟨s0, hs, (C16_safe .HP exCfg s0 hs exOps 4 (by decide)).1⟩

/-- a history with wrapped `Parse` calls (failing reader, empty reader) for BHP -/
def exSOps : List SOp :=
  [.base (.write [1, 2, 3, 1, 2, 3, 1]), .wrap rdFail 0, .wrap rdFail 1, .base .shrink,
   .wrap ⟨[], []⟩ 0, .base (.parse 0)]

example : ∃ s0, newParser .BHP exCfg = some s0 ∧ ∀ i (hi : i < exSOps.length),
    opErrS ((exSOps.take i).foldl stepS s0) exSOps[i] ≠ .panic := by
  have h : (newParser .BHP exCfg).isSome = true := by decide
  obtain ⟨s0, hs⟩ := Option.isSome_iff_exists.mp h
  exact ⟨s0, hs, fun i hi => (C16_safe_wrapped .BHP (by decide) exCfg s0 hs exSOps i hi).2.2.1⟩

/-- OSAP is covered by `C16_safe` too -/
example : (newParser .OSAP { exCfg with minMatchLen := 3, maxMatchLen := 20 }).isSome = true := by decide

/-- a state that violates the invariant: 4 bytes buffered in a slice of capacity 4 -/
def exNoMargin : Parser :=
  { kind := .HP, cfg := exCfg,
    buf := { data := [1, 2, 3, 4], w := 0, off := 0, cap := 4, cfg := ⟨1, 8, 4, 4⟩ },
    dict := .single (HashT.new 3 4) }

/-- the invariant is needed: without the 7-byte margin the model's `Parse` returns `.panic` (the Go
    code would slice `Data[:inputEnd+7]` beyond the capacity) -/
example : ¬ Room exNoMargin.buf ∧ (exNoMargin.parse 0).2.2.1 = .panic := by
  refine ⟨?_, by decide⟩
  intro ⟨_, h⟩
  rcases h with h | h
  · cases h
  · revert h; decide

example : hashValue 0xFFFFFFFFFFFFFFFF 4 < 16 := hashValue_lt _ 4

end Examples

end LZ

#print axioms LZ.C16_safe
#print axioms LZ.C16_safe_trace
#print axioms LZ.C16_safe_wrapped
#print axioms LZ.hashValue_lt
#print axioms LZ.C16_index_safety
#print axioms LZ.sizeOK_hpProbe
#print axioms LZ.sizeOK_processSegment1
#print axioms LZ.newParser_safeW
