/-
  LzProofs.GenBHPHistEx — non-vacuity of LzProofs/GenBHPHistRun.lean: a concrete history executed on the TRANSLATED
  functions of the backward hash parser (`GenBHPHist.runG`), checked by kernel evaluation, and the instance of
  `C01_go_text_bhp` for it.  `lcs` is instantiated with the specification itself (`exLcs`, `LcsSpec` by `rfl`).
  History: Write("xabcdyabcdabcd"); Parse(&blk, 0); Shrink(); Parse(&blk, 0) [empty].
-/
import LzProofs.GenBHPHistRun
import LzProofs.GenHPHistEx

namespace LZ.GenBHPHist
open LZ LZ.Gen LZ.GenBuf LZ.GenHash LZ.GenHPParse LZ.GenBHPParse LZ.GenProps
open LZ.GenHPHist (GOp GRes GOp.WF ghostRun sliceOf exGrow)

def exCfg : Gen.BHPConfig :=
  { ShrinkSize := 8, BufferSize := 32, WindowSize := 16, BlockSize := 16, InputLen := 3, HashBits := 4 }

def exLcs : Slice → Slice → Int := fun p q => ((lcsLen p.data q.data : Nat) : Int)

theorem exLcs_spec : LcsSpec exLcs := fun _ _ => rfl

/-- "xabcdyabcdabcd" -/
def exA : List UInt8 := [120, 97, 98, 99, 100, 121, 97, 98, 99, 100, 97, 98, 99, 100]

def exOps : List GOp := [ .write (sliceOf exA), .parse default 0, .shrink, .parse default 0 ]

def exS0 : Gen.backwardHashParser :=
  match backwardHashParser_init default exCfg with
  | .ok (s, _) => s
  | _ => default

theorem exInit : backwardHashParser_init default exCfg = Res.ok (exS0, Gen.Err.ok) := by decide +kernel

theorem exWF : ∀ op ∈ exOps, op.WF := by
  intro op hop
  simp only [exOps, List.mem_cons, List.not_mem_nil, or_false] at hop
  rcases hop with rfl | rfl | rfl | rfl <;>
    first | trivial | exact Nat.le_refl _ | (show (0 : Int) ≤ _; decide)

def exResults : List GRes :=
  [ .write 14 Gen.Err.ok,
    .parse { Sequences := [{ LitLen := 6, MatchLen := 4, Offset := 5, Aux := 0 },
                           { LitLen := 0, MatchLen := 4, Offset := 4, Aux := 0 }],
             Literals := { arr := [120, 97, 98, 99, 100, 121], len := 6 } } 14 Gen.Err.ok,
    .shrink 6,
    .parse { Sequences := [], Literals := { arr := [], len := 0 } } 0 Gen.ErrEmptyBuffer ]

/-- the run on the translated functions, evaluated by the kernel -/
theorem exRun : (match runG exGrow 70 exLcs exS0 exOps with | .ok r => some r.2 | _ => none) = some exResults := by
  decide +kernel

theorem exGhost :
    (ghostRun Ghost.init exOps exResults).fed = exA ∧ (ghostRun Ghost.init exOps exResults).consumed = 14 ∧
    decode [] (ghostRun Ghost.init exOps exResults).log = some exA := by decide +kernel

example := C01_go_text_bhp exCfg exS0 exInit exGrow 70 exLcs exLcs_spec (by decide +kernel) exOps exWF
example := gen_bhp_history exCfg exS0 exInit exGrow 70 exLcs exLcs_spec (by decide +kernel) exOps exWF

end LZ.GenBHPHist

#print axioms LZ.GenBHPHist.exInit
#print axioms LZ.GenBHPHist.exRun
#print axioms LZ.GenBHPHist.exGhost
