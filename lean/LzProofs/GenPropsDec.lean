/-
  LzProofs.GenPropsDec — decoder_buffer.go: DecoderConfig.
    G20 gen_decDefaults  G21 gen_decVerify  G22 gen_decCfg
  Part of the split of the former LzProofs/GenProps.lean: "the hand-written model equals the
  code that `tools/extract -code` regenerates from the Go source".  The generated code is
  emitted per topic (LzModel/Generated/Code<Topic>.lean); this file only imports the topic it
  talks about, so a Go function the translator refuses takes down this file and nothing else.
  Every theorem quantifies over ALL inputs; Go `int`/`int64` are unbounded `Int` on both sides
  (overflow is out of scope), `uint32`/`uint64` wrap around.  All names live in `LZ.GenProps`.
  The proofs are written against the MEANING of the generated functions (unfold, split every
  `if`, decide linear arithmetic), not against the shape of the generated term, so that
  behaviour-preserving rewrites of the Go source (De Morgan, swapped arms, reordered defaults,
  `x+x` for `2*x`, …) do not break them.
-/
import LzModel.Generated.CodeDec
import LzProofs.GenPropsBase

set_option linter.unusedSimpArgs false

namespace LZ.GenProps
open LZ

/-! ## decoder_buffer.go: DecoderConfig -/

/-- G20 -/
theorem gen_decDefaults (ws bs : Int) :
    Gen.DecoderConfig_SetDefaults ⟨ws, bs⟩ =
      ⟨if ws = 0 then Facts.decDefWindowSize else ws,
       if bs = 0 then Facts.decBufFactor * (if ws = 0 then Facts.decDefWindowSize else ws) else bs⟩ := by
  simp only [Gen.DecoderConfig_SetDefaults, gen_helper, Facts.decDefWindowSize, Facts.decBufFactor]
  repeat' split
  all_goals simp_all
  all_goals omega

/-- G21 -/
theorem gen_decVerify (c : Gen.DecoderConfig) :
    Gen.DecoderConfig_Verify c = .ok ↔
      (1 ≤ c.BufferSize ∧ c.BufferSize ≤ Facts.maxUint32) ∧ (0 ≤ c.WindowSize ∧ c.WindowSize < c.BufferSize) := by
  simp only [Gen.DecoderConfig_Verify, gen_helper, Facts.maxUint32]
  repeat' split
  all_goals simp only [reduceCtorEq, false_iff, true_iff]
  all_goals omega

/-- G22 the model's `decCfg` (defaults, then verification) is the generated pair of functions -/
theorem gen_decCfg (ws bs : Int) :
    decCfg ws bs =
      (let c := Gen.DecoderConfig_SetDefaults ⟨ws, bs⟩
       if Gen.DecoderConfig_Verify c = .ok then some (c.WindowSize.toNat, c.BufferSize.toNat) else none) := by
  simp only [gen_decDefaults, gen_decVerify]
  rfl

end LZ.GenProps
