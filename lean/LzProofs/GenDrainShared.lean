/-
  LzProofs.GenDrainShared — the parser-independent pieces of the drain statement C14 ("repeated `Parse(nil)` drains the
  buffer") about the Go text, re-stated polymorphically in the call / result types.  LzProofs/GenHPDrain.lean has them for the
  types `GOpN` / `GResN` of LZ.GenHPHist (used as they are by OSAP, BHP, GSAP, whose histories are over those types); the
  histories of DHP, BDHP and BUP have their OWN `GOpN` / `GResN` (LzProofs/Gen{DHP,BDHP,BUP}HistNil.lean), so the pieces are
  given here for ANY call type `Op` with a constructor `mkOp ghost flags` and ANY result type `R` with a constructor
  `mk ghost n err`.  Nothing here mentions a Go parser state.  No sorry, no axioms of its own.

    nilOps mkOp fl          the calls `Parse(nil, flags_k)` (ghost value `fl[k].1`, flags `fl[k].2`)
    modelNilRes mk s fl     what the model returns for them from `s`
    drainRes mk bs u k fl   the results expected from call number `k` on: ghost handed back, `n = min(bs, u − k·bs)`, the
                            error `nil` if `k < ⌈u / bs⌉` and `ErrEmptyBuffer` otherwise
    nSum nOf rs             the sum of `nOf r` over `rs` (`nOf (mk b n e) = n`)
    resultsAgree_nil        a results-agreement predicate that unfolds like `ResultsAgreeN` forces `rs = modelNilRes mk s fl`
    runOps_nilOps           the model state after the calls is `nilIter |fl|`
    modelNilRes_drain       `modelNilRes mk (nilIter k s) fl = drainRes mk bs u k fl`   (`C14_drains`, ParseProps)
    nSum_drainRes           `Σ n = min(u − k·bs, |fl|·bs)`
    drain_buf               the buffer after `m` calls, in the Go quantities: `len(Data)` unchanged,
                            `W' = min(len(Data), W + m·bs)`; for `m ≥ ⌈u / bs⌉`: `min(u, m·bs) = u` and `W' = len(Data)`
                            (no result type involved: used by all five instances)
-/
import LzProofs.GenHPDrain

set_option linter.unusedSimpArgs false
set_option linter.unusedVariables false

namespace LZ.GenDrain
open LZ LZ.Gen LZ.GenHPParse LZ.GenProps LZ.GenNil

section
variable {Op R : Type}

/-- the calls `Parse(nil, flags)`, one per entry (ghost value, flags) -/
def nilOps (mkOp : Gen.Block' → Int → Op) (fl : List (Gen.Block' × Int)) : List Op := fl.map fun x => mkOp x.1 x.2

/-- what the model returns for the calls `nilOps fl` from `s` -/
def modelNilRes (mk : Gen.Block' → Int → Gen.Err → R) : Parser → List (Gen.Block' × Int) → List R
  | _, [] => []
  | s, x :: xs => mk x.1 ((s.parseNil.2.1 : Nat) : Int) (parseErr s.parseNil.2.2) :: modelNilRes mk s.parseNil.1 xs

/-- the results of draining: call number `k` (counted from the state with `u` unparsed bytes) returns
    `n = min(bs, u − k·bs)` and `nil`, or `ErrEmptyBuffer` from call `⌈u / bs⌉` on -/
def drainRes (mk : Gen.Block' → Int → Gen.Err → R) (bs u : Nat) : Nat → List (Gen.Block' × Int) → List R
  | _, [] => []
  | k, x :: xs =>
    mk x.1 ((Min.min bs (u - k * bs) : Nat) : Int)
      (if k < (u + bs - 1) / bs then Gen.Err.ok else Gen.ErrEmptyBuffer) :: drainRes mk bs u (k + 1) xs

/-- the sum of `nOf r` over a result list (`nOf` = the `n` of a `Parse(nil)` result, `0` for the other results) -/
def nSum (nOf : R → Int) : List R → Int
  | [] => 0
  | r :: rs => nOf r + nSum nOf rs

theorem step_parseNil_fst (sg : Parser × Ghost) : (step sg .parseNil).1 = (sg.1.parseNil).1 := by
  simp only [step]; split <;> rfl

/-- a results-agreement predicate `RA` that unfolds on `nilOps` like `ResultsAgreeN` (no results for no calls; for a call
    `mkOp b f` the first result is `mk b n e` with the model's `n` / error and the rest agrees from the next model state)
    determines the results: they are `modelNilRes` -/
theorem resultsAgree_nil (mkOp : Gen.Block' → Int → Op) (mk : Gen.Block' → Int → Gen.Err → R)
    (RA : Parser × Ghost → List Op → List R → Prop)
    (hnil : ∀ sg rs, RA sg [] rs → rs = [])
    (hcons : ∀ sg b f ops rs, RA sg (mkOp b f :: ops) rs →
      ∃ rs', rs = mk b ((sg.1.parseNil.2.1 : Nat) : Int) (parseErr sg.1.parseNil.2.2) :: rs' ∧
        RA (step sg .parseNil) ops rs') :
    ∀ (fl : List (Gen.Block' × Int)) (sg : Parser × Ghost) (rs : List R),
      RA sg (nilOps mkOp fl) rs → rs = modelNilRes mk sg.1 fl := by
  intro fl
  induction fl with
  | nil => intro sg rs h; exact hnil sg rs h
  | cons x xs ih =>
    intro sg rs h
    obtain ⟨rs', e, h2⟩ := hcons sg x.1 x.2 (nilOps mkOp xs) rs h
    have hrs := ih _ _ h2
    rw [step_parseNil_fst] at hrs
    rw [e, hrs]; rfl

theorem runOps_nilOps (mkOp : Gen.Block' → Int → Op) (abs : Op → POp) (habs : ∀ b f, abs (mkOp b f) = .parseNil) :
    ∀ (fl : List (Gen.Block' × Int)) (sg : Parser × Ghost),
      (runOps sg ((nilOps mkOp fl).map abs)).1 = Parser.nilIter fl.length sg.1 := by
  intro fl
  induction fl with
  | nil => intro sg; rfl
  | cons x xs ih =>
    intro sg
    show (runOps (step sg (abs (mkOp x.1 x.2))) ((nilOps mkOp xs).map abs)).1 = Parser.nilIter (xs.length + 1) sg.1
    rw [habs, ih, step_parseNil_fst]; rfl

/-- the model's results of repeated `Parse(nil)` ARE the drain results (`C14_drains`) -/
theorem modelNilRes_drain (mk : Gen.Block' → Int → Gen.Err → R) (s : Parser) (hw : s.buf.w ≤ s.buf.data.length)
    (hbs : 1 ≤ s.buf.cfg.blockSize) :
    ∀ (fl : List (Gen.Block' × Int)) (k : Nat),
      modelNilRes mk (Parser.nilIter k s) fl = drainRes mk s.buf.cfg.blockSize (s.buf.data.length - s.buf.w) k fl := by
  obtain ⟨d1, d2⟩ := C14_drains s hw hbs
  simp only at d1 d2
  intro fl
  induction fl with
  | nil => intro k; rfl
  | cons x xs ih =>
    intro k
    show mk x.1 _ _ :: modelNilRes mk (Parser.nilIter k s).parseNil.1 xs = mk x.1 _ _ :: _
    rw [← LZ.GenHPHist.nilIter_succ', ih (k + 1)]
    by_cases hk : k < (s.buf.data.length - s.buf.w + s.buf.cfg.blockSize - 1) / s.buf.cfg.blockSize
    · obtain ⟨s', hs⟩ := d1 k hk
      rw [hs, if_pos hk]; rfl
    · have hk' : ¬ k * s.buf.cfg.blockSize < s.buf.data.length - s.buf.w :=
        fun hc => hk ((Parser.ceilDiv_lt_iff k (s.buf.data.length - s.buf.w) s.buf.cfg.blockSize hbs).mpr hc)
      rw [(d2 k (by omega)).1, if_neg hk]
      have : Min.min s.buf.cfg.blockSize (s.buf.data.length - s.buf.w - k * s.buf.cfg.blockSize) = 0 := by omega
      rw [this]; rfl

theorem nSum_drainRes (mk : Gen.Block' → Int → Gen.Err → R) (nOf : R → Int) (hn : ∀ b n e, nOf (mk b n e) = n)
    (bs u : Nat) : ∀ (fl : List (Gen.Block' × Int)) (k : Nat),
    nSum nOf (drainRes mk bs u k fl) = ((Min.min (u - k * bs) (fl.length * bs) : Nat) : Int) := by
  intro fl
  induction fl with
  | nil => intro k; simp [drainRes, nSum]
  | cons x xs ih =>
    intro k
    show nOf (mk x.1 _ _) + nSum nOf (drainRes mk bs u (k + 1) xs) = _
    rw [hn, ih (k + 1), List.length_cons, Nat.succ_mul, Nat.succ_mul]
    generalize k * bs = a
    generalize xs.length * bs = c
    omega

end

/-- the buffer after `m` calls `Parse(nil)` in the Go quantities: `s` / `s'` the model states before / after
    (`s' = nilIter m s`), `D` / `D'` the Go `len(Data)`, `W` / `W'` the Go `W` (an `int`, `0 ≤ W'`).  `len(Data)` is unchanged,
    `W' = min(len(Data), W + m·bs)`; once `m ≥ ⌈u / bs⌉` (`u = len(Data) − W`): `min(u, m·bs) = u` and `W' = len(Data)`. -/
theorem drain_buf (s s' : Parser) (m : Nat) (hw : s.buf.w ≤ s.buf.data.length) (hbs : 1 ≤ s.buf.cfg.blockSize)
    (hst : s' = Parser.nilIter m s) (D D' : Nat) (W W' : Int)
    (hD : s.buf.data.length = D) (hD' : s'.buf.data.length = D')
    (hW : s.buf.w = W.toNat) (hW' : s'.buf.w = W'.toNat) (hW0' : 0 ≤ W') :
    D' = D ∧ W' = ((Min.min D (W.toNat + m * s.buf.cfg.blockSize) : Nat) : Int) ∧
      ((D - W.toNat + s.buf.cfg.blockSize - 1) / s.buf.cfg.blockSize ≤ m →
        Min.min (D - W.toNat) (m * s.buf.cfg.blockSize) = D - W.toNat ∧ W' = (D : Int)) := by
  have hbuf := Parser.nilIter_buf m s hw
  rw [← hst] at hbuf
  have h1 : s'.buf.w = Min.min D (W.toNat + m * s.buf.cfg.blockSize) := by
    have := congrArg PBuf.w hbuf
    rw [hD, hW] at this
    exact this
  have h2 : D' = D := by
    have := congrArg (fun b => b.data.length) hbuf
    simp only at this
    rw [hD', hD] at this
    exact this
  have hWfin : W' = ((Min.min D (W.toNat + m * s.buf.cfg.blockSize) : Nat) : Int) := by
    rw [← h1, hW']; omega
  refine ⟨h2, hWfin, ?_⟩
  intro hr
  have hWD : W.toNat ≤ D := by rw [← hW, ← hD]; exact hw
  generalize s.buf.cfg.blockSize = bs at *
  have hle : D - W.toNat ≤ m * bs := by
    have h1 : (D - W.toNat + bs - 1) / bs < m + 1 := by omega
    rw [Nat.div_lt_iff_lt_mul (by omega), Nat.succ_mul] at h1
    omega
  refine ⟨by omega, ?_⟩
  rw [hWfin]
  have : Min.min D (W.toNat + m * bs) = D := by omega
  rw [this]

end LZ.GenDrain

#print axioms LZ.GenDrain.resultsAgree_nil
#print axioms LZ.GenDrain.runOps_nilOps
#print axioms LZ.GenDrain.modelNilRes_drain
#print axioms LZ.GenDrain.nSum_drainRes
#print axioms LZ.GenDrain.drain_buf
