/-
  LzProofs.RunsBucket — property C19, last sentence (the "run clause"), for BUP: a proven upper
  bound.

  BUP does NOT satisfy "at most one literal byte": a run block that starts exactly where the run
  starts can take the longest candidate of its bucket (an older run at a far offset) that ends fewer
  than `InputLen` bytes before the block end; those bytes cannot be hashed any more and stay
  literals (`bup_two_literals` below is a kernel-checked instance with 2 literals).  What holds for
  EVERY state with well-formed tables (in particular every reachable state) is

      blk.lits.length ≤ max 1 (InputLen - 1).

    C19_run_bup_partial              one `Parse` call on a state satisfying `BucketOK`
    bucketOK_stepP                   every operation keeps the invariant
    C19_run_bup_partial_reachable    the history-level statement

  The invariant `BucketOK` is purely structural (table sizes, ring indexes in range, `InputLen` of
  the table = `InputLen` of the configuration); nothing about the CONTENTS of the buckets is needed:
  whatever the first probe of the block does, from the second probed position on the bucket of the
  run key contains the entry the previous probe (or the re-indexing after the previous match)
  added, the scan prefers longer matches, and that entry offers a match up to the block end.
-/
import LzProofs.Runs
namespace LZ
open Parser PBuf

/-! ## keys of the bucket table -/

theorem BucketT.key_eq_hash (bk : BucketT) (p : List Byte) (i : Nat) :
    bk.key p i = (⟨#[], bk.inputLen, bk.hashBits⟩ : HashT).key p i := rfl

/-- all positions whose `inputLen` bytes are the byte `b` have the same key -/
theorem bkey_run (bk : BucketT) (p : List Byte) (b : Byte) (i j : Nat)
    (hi : ∀ t, t < bk.inputLen → p[i + t]? = some b) (hj : ∀ t, t < bk.inputLen → p[j + t]? = some b) :
    bk.key p i = bk.key p j := by
  rw [BucketT.key_eq_hash, BucketT.key_eq_hash]
  exact key_run _ p b i j hi hj

theorem bkey_take (bk : BucketT) (p : List Byte) (n i : Nat) (hi : i + bk.inputLen ≤ n) :
    bk.key (p.take n) i = bk.key p i := by
  rw [BucketT.key_eq_hash, BucketT.key_eq_hash]
  exact key_take _ p n i hi

/-! ## a bucket holds an entry -/

/-- bucket `h` holds the entry `en` in one of its `bucketSize` slots -/
def BucketT.Has (bk : BucketT) (h : Nat) (en : Nat × Nat) : Prop :=
  ∃ s, s < bk.bucketSize ∧ bk.buckets.getD (h * bk.bucketSize + s) (0, 0) = en

theorem BucketT.has_add {bk : BucketT} (hok : bk.OK) (h pos val : Nat) (hh : h < 2 ^ bk.hashBits) :
    (bk.add h pos val).Has h (pos, val) := by
  obtain ⟨h1, h2, h3, h4⟩ := hok
  refine ⟨bk.indexes.getD h 0, h4 h, ?_⟩
  show (bk.buckets.setIfInBounds (h * bk.bucketSize + bk.indexes.getD h 0) (pos, val)).getD
    (h * bk.bucketSize + bk.indexes.getD h 0) (0, 0) = (pos, val)
  have hlt : h * bk.bucketSize + bk.indexes.getD h 0 < bk.buckets.size := by
    rw [h1]
    have := h4 h
    calc h * bk.bucketSize + bk.indexes.getD h 0
        < h * bk.bucketSize + bk.bucketSize := by omega
      _ = (h + 1) * bk.bucketSize := by rw [Nat.add_mul, Nat.one_mul]
      _ ≤ 2 ^ bk.hashBits * bk.bucketSize := Nat.mul_le_mul_right _ hh
  rw [Array.getD_eq_getD_getElem?, Array.getElem?_setIfInBounds, if_pos rfl, if_pos hlt]
  rfl

theorem BucketT.has_insert {bk : BucketT} (hok : bk.OK) (p : List Byte) (i : Nat) :
    (bk.insert p i).Has (hashValue (bk.key p i) bk.hashBits) (i, lo32 (bk.key p i)) :=
  BucketT.has_add hok _ _ _ (hashValue_lt _ _)

theorem BucketT.insert_key (bk : BucketT) (p : List Byte) (i : Nat) (p' : List Byte) (j : Nat) :
    (bk.insert p i).key p' j = bk.key p' j := rfl

theorem BucketT.insert_hashBits (bk : BucketT) (p : List Byte) (i : Nat) :
    (bk.insert p i).hashBits = bk.hashBits := rfl

theorem BucketT.insert_inputLen (bk : BucketT) (p : List Byte) (i : Nat) :
    (bk.insert p i).inputLen = bk.inputLen := rfl

theorem BucketT.insertRange_inputLen (p : List Byte) : ∀ (n a : Nat) (bk : BucketT),
    (bk.insertRange p a n).inputLen = bk.inputLen := by
  intro n
  induction n with
  | zero => intro a bk; rfl
  | succ n ih => intro a bk; exact ih _ _

theorem BucketT.insertRange_succ (bk : BucketT) (p : List Byte) (a n : Nat) :
    bk.insertRange p a (n + 1) = (bk.insert p a).insertRange p (a + 1) n := rfl

/-- after inserting `n + 1` consecutive positions the last one is in the bucket of its key -/
theorem BucketT.has_insertRange (p : List Byte) : ∀ (n a : Nat) (bk : BucketT), bk.OK →
    (bk.insertRange p a (n + 1)).Has (hashValue (bk.key p (a + n)) bk.hashBits)
      (a + n, lo32 (bk.key p (a + n))) := by
  intro n
  induction n with
  | zero =>
    intro a bk hok
    exact BucketT.has_insert hok p a
  | succ n ih =>
    intro a bk hok
    rw [BucketT.insertRange_succ]
    have := ih (a + 1) (bk.insert p a) (BucketT.ok_insert hok p a)
    rw [BucketT.insert_key, BucketT.insert_hashBits] at this
    have e : a + 1 + n = a + (n + 1) := by omega
    rw [e] at this
    exact this

/-! ## the scan prefers longer matches -/

/-- the result of the scan is at least as long as the running best and as every valid candidate in
    the scanned slots -/
theorem bupScan_ge (bk : BucketT) (p : List Byte) (i ws v base : Nat) :
    ∀ (slots : List Nat) (o k : Nat),
      k ≤ (bupScan bk p i ws v base slots o k).2 ∧
      ∀ s, s ∈ slots → v = (bk.buckets.getD (base + s) (0, 0)).2 →
        (bk.buckets.getD (base + s) (0, 0)).1 < i → i - (bk.buckets.getD (base + s) (0, 0)).1 ≤ ws →
        lcpLen (p.drop (bk.buckets.getD (base + s) (0, 0)).1) (p.drop i) ≤
          (bupScan bk p i ws v base slots o k).2 := by
  intro slots
  induction slots with
  | nil =>
    intro o k
    exact ⟨Nat.le_refl _, fun s hs => by simp at hs⟩
  | cons s rest ih =>
    intro o k
    unfold bupScan
    simp only []
    split
    · -- value mismatch
      rename_i hv
      refine ⟨(ih o k).1, ?_⟩
      intro s' hs' h1 h2 h3
      rcases List.mem_cons.1 hs' with h | h
      · subst h; exact absurd h1 hv
      · exact (ih o k).2 s' h h1 h2 h3
    · split
      · -- outside the window
        rename_i hv hw
        refine ⟨(ih o k).1, ?_⟩
        intro s' hs' h1 h2 h3
        rcases List.mem_cons.1 hs' with h | h
        · subst h; exact absurd ⟨h2, h3⟩ hw
        · exact (ih o k).2 s' h h1 h2 h3
      · split
        · -- quick reject: the byte at `k - 1` differs, the candidate is shorter than `k`
          rename_i hv hw hq
          refine ⟨(ih o k).1, ?_⟩
          intro s' hs' h1 h2 h3
          rcases List.mem_cons.1 hs' with h | h
          · subst h
            have hlt : lcpLen (p.drop (bk.buckets.getD (base + s') (0, 0)).1) (p.drop i) < k := by
              apply Decidable.byContradiction
              intro hge
              have := lcpLen_getElem? (p.drop (bk.buckets.getD (base + s') (0, 0)).1) (p.drop i) (k - 1)
                (by omega)
              simp only [List.getElem?_drop] at this
              apply hq.2
              have e1 : (bk.buckets.getD (base + s') (0, 0)).1 + k - 1 =
                  (bk.buckets.getD (base + s') (0, 0)).1 + (k - 1) := by omega
              have e2 : i + k - 1 = i + (k - 1) := by omega
              rw [e1, e2]; exact this
            have := (ih o k).1
            omega
          · exact (ih o k).2 s' h h1 h2 h3
        · split
          · -- not better
            rename_i hv hw hq hb
            refine ⟨(ih o k).1, ?_⟩
            intro s' hs' h1 h2 h3
            rcases List.mem_cons.1 hs' with h | h
            · subst h
              have := (ih o k).1
              omega
            · exact (ih o k).2 s' h h1 h2 h3
          · -- better: the candidate becomes the running best
            rename_i hv hw hq hb
            have hi2 := ih (i - (bk.buckets.getD (base + s) (0, 0)).1)
              (lcpLen (p.drop (bk.buckets.getD (base + s) (0, 0)).1) (p.drop i))
            refine ⟨by have := hi2.1; omega, ?_⟩
            intro s' hs' h1 h2 h3
            rcases List.mem_cons.1 hs' with h | h
            · subst h; exact hi2.1
            · exact hi2.2 s' h h1 h2 h3

/-- the best candidate of the bucket of position `i` -/
def bupBest (bk : BucketT) (p : List Byte) (i ws : Nat) : Nat × Nat :=
  bupScan bk p i ws (lo32 (bk.key p i)) (hashValue (bk.key p i) bk.hashBits * bk.bucketSize)
    (List.range bk.bucketSize) 0 0

/-- `bupProbe` in closed form -/
theorem bupProbe_eq (ws mm ie : Nat) (bk : BucketT) (p : List Byte) (i li : Nat) :
    bupProbe ws mm ie bk p i li =
      if (bupBest bk p i ws).2 < mm then (bk.insert p i, none)
      else ((bk.insert p i).insertRange p (i + 1) (min (i + (bupBest bk p i ws).2) ie - (i + 1)),
            some (i, (bupBest bk p i ws).2, (bupBest bk p i ws).1)) := by
  unfold bupProbe bupBest BucketT.insert
  rfl

/-- the best candidate is never longer than what is left of `p` -/
theorem bupBest_le (bk : BucketT) (p : List Byte) (i ws : Nat) : (bupBest bk p i ws).2 ≤ p.length - i := by
  have := bupScan_inv bk p i ws (lo32 (bk.key p i))
    (hashValue (bk.key p i) bk.hashBits * bk.bucketSize) (List.range bk.bucketSize) 0 0
    (Or.inl ⟨rfl, rfl⟩)
  rcases this with ⟨-, h0⟩ | ⟨j, -, -, -, h4⟩
  · unfold bupBest; omega
  · unfold bupBest
    rw [h4]
    have := lcpLen_le_right (p.drop j) (p.drop i)
    simpa using this

/-- if the bucket of the key of `i` holds a valid candidate `j`, the best candidate is at least as
    long as the match `j` offers -/
theorem bupBest_ge (bk : BucketT) (p : List Byte) (i ws j : Nat)
    (hh : bk.Has (hashValue (bk.key p i) bk.hashBits) (j, lo32 (bk.key p i)))
    (hj : j < i) (hw : i - j ≤ ws) :
    lcpLen (p.drop j) (p.drop i) ≤ (bupBest bk p i ws).2 := by
  obtain ⟨s, hs, he⟩ := hh
  have := (bupScan_ge bk p i ws (lo32 (bk.key p i))
    (hashValue (bk.key p i) bk.hashBits * bk.bucketSize) (List.range bk.bucketSize) 0 0).2 s
    (List.mem_range.2 hs)
  rw [he] at this
  exact this rfl hj hw

theorem BucketT.insertRange_hashBits (p : List Byte) : ∀ (n a : Nat) (bk : BucketT),
    (bk.insertRange p a n).hashBits = bk.hashBits := by
  intro n
  induction n with
  | zero => intro a bk; rfl
  | succ n ih => intro a bk; exact ih _ _

theorem BucketT.insertRange_key (p : List Byte) (n a : Nat) (bk : BucketT) (p' : List Byte) (j : Nat) :
    (bk.insertRange p a n).key p' j = bk.key p' j := by
  unfold BucketT.key
  rw [BucketT.insertRange_inputLen]

theorem bupProbe_inputLen (ws mm ie : Nat) (bk : BucketT) (p : List Byte) (i li : Nat) :
    (bupProbe ws mm ie bk p i li).1.inputLen = bk.inputLen := by
  rw [bupProbe_eq]
  split
  · rfl
  · exact BucketT.insertRange_inputLen _ _ _ _

theorem processSegmentB_inputLen (bk : BucketT) (data : List Byte) (a e : Int) :
    (processSegmentB bk data a e).inputLen = bk.inputLen := by
  unfold processSegmentB
  simp only []
  repeat' split
  all_goals first | rfl | exact BucketT.insertRange_inputLen _ _ _ _

theorem BucketT.shiftOffsets_inputLen (bk : BucketT) (delta : Nat) :
    (bk.shiftOffsets delta).inputLen = bk.inputLen := by
  unfold BucketT.shiftOffsets; split <;> rfl

/-! ## block level -/

/-- the last step: the bucket of the key of the current position `i` (inside the run, behind its
    first byte, still hashable) holds `i - 1`; the probe reports a match that reaches the block end -/
theorem bup_final_step (ws mm ie il : Nat) (p : List Byte) (w n : Nat) (b : Byte)
    (hR : RunBlock p w n b) (hil1 : 1 ≤ il) (hie : ie = p.length + 1 - il) (hws : 1 ≤ ws)
    (hmm : mm ≤ il) (st : LoopSt BucketT)
    (hi1 : w + 1 ≤ st.i) (hi2 : st.i + il ≤ w + n) (hli : st.litIndex ≤ st.i)
    (hhas : st.dict.Has (hashValue (st.dict.key p st.i) st.dict.hashBits)
      (st.i - 1, lo32 (st.dict.key p st.i))) :
    (greedyLoop ⟨bupProbe ws mm ie⟩ p ie st).litIndex = p.length ∧
    (greedyLoop ⟨bupProbe ws mm ie⟩ p ie st).lits.length ≤ st.lits.length + (st.i - st.litIndex) := by
  have hlen := hR.len
  have hlcp : lcpLen (p.drop (st.i - 1)) (p.drop st.i) = p.length - st.i :=
    lcpLen_run p b (st.i - 1) st.i (by omega) (by omega) (fun t h1 h2 => hR.at t (by omega) h2)
  have hge := bupBest_ge st.dict p st.i ws (st.i - 1) hhas (by omega) (by omega)
  have hle := bupBest_le st.dict p st.i ws
  rw [hlcp] at hge
  have hpe := bupProbe_eq ws mm ie st.dict p st.i st.litIndex
  rw [if_neg (by omega)] at hpe
  generalize bupBest st.dict p st.i ws = r at hpe hge hle
  have hlt : st.i < ie := by omega
  rw [greedyLoop_some _ _ _ _ _ _ _ _ hlt hpe (by omega), greedyLoop_done _ _ _ _ (by simp only; omega)]
  refine ⟨by simp only; omega, ?_⟩
  simp only [List.length_append, List.length_take, List.length_drop]
  omega

/-- the greedy loop of BUP on a run block, from ANY well-formed bucket table: the literals emitted
    plus the bytes behind the last match are at most `max 1 (inputLen - 1)` -/
theorem bup_run_loop (ws mm : Nat) (bk : BucketT) (p : List Byte) (w n : Nat) (b : Byte)
    (hR : RunBlock p w n b) (hok : bk.OK) (hil1 : 1 ≤ bk.inputLen) (hil8 : bk.inputLen ≤ 8)
    (hws : 1 ≤ ws) (hmm1 : 1 ≤ mm) (hmm : mm ≤ bk.inputLen) :
    (greedyLoop ⟨bupProbe ws mm (p.length + 1 - bk.inputLen)⟩ p (p.length + 1 - bk.inputLen)
      { dict := bk, i := w, litIndex := w, seqs := [], lits := [] }).lits.length +
    (p.length - (greedyLoop ⟨bupProbe ws mm (p.length + 1 - bk.inputLen)⟩ p (p.length + 1 - bk.inputLen)
      { dict := bk, i := w, litIndex := w, seqs := [], lits := [] }).litIndex) ≤
      max 1 (bk.inputLen - 1) := by
  have hlen := hR.len
  have hn := hR.n32
  have hkey : ∀ q, w ≤ q → q + bk.inputLen ≤ w + n → bk.key p q = bk.key p w := by
    intro q h1 h2
    exact bkey_run bk p b q w (fun t ht => hR.at _ (by omega) (by omega))
      (fun t ht => hR.at _ (by omega) (by omega))
  generalize hie : p.length + 1 - bk.inputLen = ie
  have hlt : w < ie := by omega
  have hpe := bupProbe_eq ws mm ie bk p w w
  have hle := bupBest_le bk p w ws
  by_cases hc : (bupBest bk p w ws).2 < mm
  · -- no match at `w`: one literal, then the match with the entry of `w`
    rw [if_pos hc] at hpe
    rw [greedyLoop_none _ _ _ _ _ hlt hpe]
    dsimp only
    have hfin := bup_final_step ws mm ie bk.inputLen p w n b hR hil1 hie.symm hws hmm
      { dict := bk.insert p w, i := w + 1, litIndex := w, seqs := [], lits := [] }
      (by simp only; omega) (by simp only; omega) (by simp only; omega)
      (by
        simp only
        rw [BucketT.insert_key, BucketT.insert_hashBits, hkey (w + 1) (by omega) (by omega),
          Nat.add_sub_cancel]
        exact BucketT.has_insert hok p w)
    have h1 := hfin.1
    have h2 := hfin.2
    dsimp only at h2
    simp only [List.length_nil] at h2
    omega
  · -- a match from an older entry
    rw [if_neg hc] at hpe
    generalize hk : (bupBest bk p w ws).2 = k at hpe hc hle
    generalize (bupBest bk p w ws).1 = o at hpe
    by_cases hend : w + k < ie
    · -- the match ends where positions can still be hashed: the next probe reaches the block end
      have hmin : min (w + k) ie - (w + 1) = k - 1 := by omega
      rw [hmin] at hpe
      have hd' : (bk.insert p w).insertRange p (w + 1) (k - 1) = bk.insertRange p w (k - 1 + 1) :=
        (BucketT.insertRange_succ bk p w (k - 1)).symm
      rw [hd'] at hpe
      rw [greedyLoop_some _ _ _ _ _ _ _ _ hlt hpe (by simp only; omega)]
      dsimp only
      have hfin := bup_final_step ws mm ie bk.inputLen p w n b hR hil1 hie.symm hws hmm
        { dict := bk.insertRange p w (k - 1 + 1), i := w + k, litIndex := w + k,
          seqs := [] ++ [{ litLen := ((p.drop w).take (w - w)).length, matchLen := k, offset := o }],
          lits := [] ++ (p.drop w).take (w - w) }
        (by simp only; omega) (by simp only; omega) (Nat.le_refl _)
        (by
          simp only
          rw [BucketT.insertRange_key, BucketT.insertRange_hashBits, hkey (w + k) (by omega) (by omega)]
          have := BucketT.has_insertRange p (k - 1) w bk hok
          rw [hkey (w + (k - 1)) (by omega) (by omega)] at this
          have e : w + (k - 1) = w + k - 1 := by omega
          rw [e] at this
          exact this)
      have h1 := hfin.1
      have h2 : (greedyLoop ⟨bupProbe ws mm ie⟩ p ie
          { dict := bk.insertRange p w (k - 1 + 1), i := w + k, litIndex := w + k,
            seqs := [] ++ [{ litLen := ((p.drop w).take (w - w)).length, matchLen := k, offset := o }],
            lits := [] ++ (p.drop w).take (w - w) }).lits.length ≤ 0 := by
        have := hfin.2
        simpa using this
      omega
    · -- the match ends behind the last hashable position: fewer than `inputLen` bytes are left
      rw [greedyLoop_some _ _ _ _ _ _ _ _ hlt hpe (by simp only; omega),
        greedyLoop_done _ _ _ _ (by simp only; omega)]
      simp only [List.nil_append, Nat.sub_self, List.take_zero, List.length_nil]
      omega

/-- **block level, BUP**: `runGreedy` on a run block without `NoTrailingLiterals` emits at most
    `max 1 (inputLen - 1)` literals -/
theorem bup_run_block (ws mm : Nat) (bk : BucketT) (p : List Byte) (w n : Nat) (b : Byte)
    (flags : Nat) (hf : flags % 2 = 0)
    (hR : RunBlock p w n b) (hok : bk.OK) (hil1 : 1 ≤ bk.inputLen) (hil8 : bk.inputLen ≤ 8)
    (hws : 1 ≤ ws) (hmm1 : 1 ≤ mm) (hmm : mm ≤ bk.inputLen) :
    (Parser.runGreedy ⟨bupProbe ws mm (p.length + 1 - bk.inputLen)⟩ bk p w
      (p.length + 1 - bk.inputLen) flags).2.2.1.lits.length ≤ max 1 (bk.inputLen - 1) := by
  have h := bup_run_loop ws mm bk p w n b hR hok hil1 hil8 hws hmm1 hmm
  unfold Parser.runGreedy
  simp only []
  unfold finishBlock
  rw [if_neg (by omega)]
  simp only [List.length_append, List.length_drop]
  exact h

/-! ## the state invariant -/

/-- The state has a well-formed bucket table (`2^hashBits * bucketSize` slots, `2^hashBits` ring
    indexes, each `< bucketSize`, `bucketSize ≥ 1`) whose `InputLen` is the one of the configuration.
    Nothing is said about the contents of the buckets. -/
def BucketOK (s : Parser) : Prop :=
  ∃ bk, s.dict = .bucket bk ∧ bk.OK ∧ bk.inputLen = s.cfg.inputLen.toNat

/-! ## one `Parse` call -/

/-- **C19, run clause, BUP, one call: the proven bound.**  `s` is a BUP state with a well-formed
    bucket table (`BucketOK`; every reachable BUP state is one, `reachable_bucketOK`),
    `1 ≤ InputLen ≤ 8`, window size `≥ 1`.  If `Parse(&blk, flags)` without `NoTrailingLiterals`
    returns a block of `n ≥ 32` bytes that all equal `b`, the block has at most
    `max 1 (InputLen - 1)` literals.  (The bound `1` of the other hash parsers does not hold:
    `bup_two_literals`.) -/
theorem C19_run_bup_partial (s : Parser) (hk : s.kind = .BUP) (hF : BucketOK s)
    (hw : s.buf.w ≤ s.buf.data.length) (hil1 : 1 ≤ s.cfg.inputLen.toNat)
    (hil8 : s.cfg.inputLen.toNat ≤ 8) (hws : 1 ≤ s.buf.cfg.windowSize)
    (flags : Nat) (s' : Parser) (n : Nat) (blk : Block) (b : Byte)
    (hp : s.parse flags = (s', n, .ok, blk)) (hf : flags % 2 = 0) (hn : 32 ≤ n)
    (hrun : ∀ t, t < n → s.buf.data[s.buf.w + t]? = some b) :
    blk.lits.length ≤ max 1 (s.cfg.inputLen.toNat - 1) := by
  obtain ⟨bk, hd, hok, hil⟩ := hF
  have hn0 : s.blockN ≠ 0 := by
    intro h0
    rw [parse_empty s flags h0] at hp
    simp at hp
  have hm : s.MarginOK := by
    apply Classical.byContradiction
    intro hm
    have := parse_panic_of_not_margin s flags hn0 hm
    rw [hp] at this
    simp at this
  have hl := s.blockPrefix_length hw
  have hN := s.blockN_le
  rw [parse_bucket s flags bk hd hn0 hm] at hp
  simp only [Prod.mk.injEq] at hp
  obtain ⟨-, hn', -, hblk⟩ := hp
  rw [runGreedy_w_even _ _ _ _ _ _ hf] at hn'
  have hnN : n = s.blockN := by omega
  have hil' := processSegmentB_inputLen bk s.buf.data ((s.buf.w : Int) - bk.inputLen + 1) s.buf.w
  have hR : RunBlock s.blockPrefix s.buf.w n b := by
    refine ⟨by omega, hn, ?_⟩
    intro t ht
    unfold blockPrefix
    rw [List.getElem?_take, if_pos (by omega)]
    exact hrun t ht
  have hmm : s.minMatch = min 3 s.cfg.inputLen.toNat := by
    unfold Parser.minMatch; rw [hk]
  rw [← hblk]
  refine Nat.le_trans (bup_run_block s.buf.cfg.windowSize s.minMatch _ s.blockPrefix s.buf.w n b flags hf hR
    (ok_processSegmentB hok _ _ _) (by rw [hil', hil]; exact hil1) (by rw [hil', hil]; exact hil8) hws
    (by rw [hmm]; omega) (by rw [hil', hil, hmm]; omega)) ?_
  rw [hil', hil]
  exact Nat.le_refl _

/-! ## every operation keeps the invariant -/

theorem bucketOK_parse (s : Parser) (flags : Nat) (hroom : Room s.buf) (h : BucketOK s) :
    BucketOK (s.parse flags).1 := by
  by_cases hn : s.blockN = 0
  · rw [parse_empty s flags hn]; exact h
  obtain ⟨bk, hd, hok, hil⟩ := h
  rw [parse_bucket s flags bk hd hn (marginOK_of_cap s hroom.2 hn)]
  simp only []
  have := runGreedy_dict ⟨bupProbe s.buf.cfg.windowSize s.minMatch
      (s.blockPrefix.length + 1 -
        (processSegmentB bk s.buf.data ((s.buf.w : Int) - bk.inputLen + 1) s.buf.w).inputLen)⟩
    (fun d => d.OK ∧ d.inputLen = bk.inputLen)
    (fun d p i li hd' => ⟨ok_bupProbe _ _ _ hd'.1 p i li, by
      show (bupProbe _ _ _ d p i li).1.inputLen = _
      rw [bupProbe_inputLen]; exact hd'.2⟩)
    (processSegmentB bk s.buf.data ((s.buf.w : Int) - bk.inputLen + 1) s.buf.w) s.blockPrefix s.buf.w
    (s.blockPrefix.length + 1 -
        (processSegmentB bk s.buf.data ((s.buf.w : Int) - bk.inputLen + 1) s.buf.w).inputLen) flags
    ⟨ok_processSegmentB hok _ _ _, processSegmentB_inputLen _ _ _ _⟩
  exact ⟨_, rfl, this.1, by rw [this.2]; exact hil⟩

theorem bucketOK_parseNil (s : Parser) (h : BucketOK s) : BucketOK s.parseNil.1 := by
  obtain ⟨bk, hd, hok, hil⟩ := h
  unfold parseNil
  simp only []
  split
  · exact ⟨bk, hd, hok, hil⟩
  · simp only [hd]
    exact ⟨_, rfl, ok_processSegmentB hok _ _ _, by rw [processSegmentB_inputLen]; exact hil⟩

theorem bucketOK_shrink (s : Parser) (h : BucketOK s) : BucketOK s.shrink.1 := by
  obtain ⟨bk, hd, hok, hil⟩ := h
  unfold Parser.shrink
  simp only []
  split
  · exact ⟨bk, hd, hok, hil⟩
  · simp only [hd]
    exact ⟨_, rfl, BucketT.ok_shiftOffsets hok _, by rw [BucketT.shiftOffsets_inputLen]; exact hil⟩

theorem bucketOK_reset (s : Parser) (data : List Byte) (capExtra : Nat) (h : BucketOK s) :
    BucketOK (s.reset data capExtra).1 := by
  obtain ⟨bk, hd, hok, hil⟩ := h
  unfold Parser.reset
  simp only []
  split
  · simp only [clearDict, hd]
    exact ⟨_, rfl, BucketT.ok_clear hok, hil⟩
  · exact ⟨bk, hd, hok, hil⟩

/-- every operation of a history keeps `BucketOK` -/
theorem bucketOK_stepP (s : Parser) (op : POp) (hroom : Room s.buf) (h : BucketOK s) :
    BucketOK (stepP s op) := by
  cases op with
  | write p => exact h
  | readFrom r => exact h
  | parse flags => exact bucketOK_parse s flags hroom h
  | parseNil => exact bucketOK_parseNil s h
  | shrink => exact bucketOK_shrink s h
  | reset data capExtra => exact bucketOK_reset s data capExtra h

/-! ## history level -/

/-- a fresh BUP parser satisfies the invariant, and `2 ≤ InputLen ≤ 8` -/
theorem newParser_bucketOK {raw : Cfg} {s0 : Parser} (h0 : newParser .BUP raw = some s0) :
    BucketOK s0 ∧ 2 ≤ s0.cfg.inputLen.toNat ∧ s0.cfg.inputLen.toNat ≤ 8 := by
  have ht := newParser_tablesOK h0
  unfold newParser at h0
  simp only [] at h0
  split at h0
  · rename_i hv
    cases h0
    have e1 : Facts.minInputLen = 2 := rfl
    have e2 : Facts.maxInputLen = 8 := rfl
    simp only [verify, hashVerify, Bool.and_eq_true, decide_eq_true_eq, Bool.decide_and] at hv
    have hil : 2 ≤ (setDefaults .BUP (raw.restrict .BUP)).inputLen.toNat ∧
        (setDefaults .BUP (raw.restrict .BUP)).inputLen.toNat ≤ 8 := by omega
    exact ⟨⟨_, rfl, ht, rfl⟩, hil.1, hil.2⟩
  · cases h0

/-- the invariant of BUP histories: the history invariant `Inv`, `Room` and `BucketOK` -/
theorem runOps_bucketOK {c : Cfg} {bc : BufCfg} (hS : Static .BUP c bc) (ops : List POp) :
    ∀ (sg : Parser × Ghost), Inv .BUP c bc sg → Room sg.1.buf → BucketOK sg.1 →
      Inv .BUP c bc (runOps sg ops) ∧ Room (runOps sg ops).1.buf ∧ BucketOK (runOps sg ops).1 := by
  induction ops with
  | nil => intro sg h1 h2 h3; exact ⟨h1, h2, h3⟩
  | cons op ops ih =>
    intro sg h1 h2 h3
    apply ih (step sg op) (step_inv hS sg h1 op)
    · rw [step_fst]; exact room_stepP sg.1 op h2
    · rw [step_fst]; exact bucketOK_stepP sg.1 op h2 h3

/-- every state of a BUP history satisfies the hypotheses of `C19_run_bup_partial` -/
theorem reachable_bucketOK (raw : Cfg) (s0 : Parser) (h0 : newParser .BUP raw = some s0)
    (ops : List POp) :
    let s := (runOps (s0, Ghost.init) ops).1
    s.kind = .BUP ∧ BucketOK s ∧ s.buf.w ≤ s.buf.data.length ∧ s.cfg = s0.cfg ∧
      2 ≤ s.cfg.inputLen.toNat ∧ s.cfg.inputLen.toNat ≤ 8 ∧ 1 ≤ s.buf.cfg.windowSize := by
  intro s
  obtain ⟨hi, hmm, hbs⟩ := newParser_inv .BUP raw s0 h0
  obtain ⟨b1, b2, b3⟩ := newParser_bucketOK h0
  obtain ⟨a1, a2, a3⟩ := runOps_bucketOK ⟨hmm, hbs, histHyp_of_ne .BUP s0 (by decide)⟩ ops
    (s0, Ghost.init) hi (newParser_room h0) b1
  refine ⟨a1.kind, a3, a1.hw, a1.cfg, by rw [a1.cfg]; exact b2, by rw [a1.cfg]; exact b3, ?_⟩
  rw [a1.bcfg]; exact newParser_windowSize h0

/-- **C19, run clause, history level, BUP: the proven bound.**  For every accepted BUP
    configuration, every history of `Write`, `ReadFrom`, `Parse` (any flags), `Parse(nil)`, `Shrink`,
    `Reset`: if the next `Parse(&blk, flags)` without `NoTrailingLiterals` returns a block of
    `n ≥ 32` bytes, all equal to one byte `b`, the block carries at most `max 1 (InputLen - 1)` literal
    bytes (`InputLen` of the configuration `ParserConfig()` reports; `2 ≤ InputLen ≤ 8`, so the bound
    is `1` for `InputLen = 2` and `InputLen - 1` otherwise). -/
theorem C19_run_bup_partial_reachable (raw : Cfg) (s0 : Parser) (h0 : newParser .BUP raw = some s0)
    (ops : List POp) (flags : Nat) (s' : Parser) (n : Nat) (blk : Block) (b : Byte) :
    let s := (runOps (s0, Ghost.init) ops).1
    s.parse flags = (s', n, .ok, blk) → flags % 2 = 0 → 32 ≤ n →
    (∀ t, t < n → s.buf.data[s.buf.w + t]? = some b) →
    blk.lits.length ≤ max 1 (s0.cfg.inputLen.toNat - 1) := by
  intro s hp hf hn hrun
  obtain ⟨a0, a1, a2, a3, a4, a5, a6⟩ := reachable_bucketOK raw s0 h0 ops
  have := C19_run_bup_partial s a0 a1 a2 (Nat.le_of_succ_le a4) a5 a6 flags s' n blk b hp hf hn hrun
  rw [a3] at this
  exact this

/-! ## non-vacuity, and a kernel-checked witness that the bound `1` fails -/

section Examples

/-- all hypotheses of `C19_run_bup_partial_reachable` are satisfiable (configuration `runCfg` of
    LzProofs/Runs.lean: InputLen 3, 16 buckets, BucketSize 10 by default): after writing 40 equal
    bytes the first `Parse` returns a block of `n = 32 = BlockSize` equal bytes -/
example : ∃ s' blk,
    let s := (runOps (runS0 .BUP, Ghost.init) runOpsEx).1
    newParser .BUP runCfg = some (runS0 .BUP) ∧
    s.parse 0 = (s', 32, .ok, blk) ∧ (∀ t, t < 32 → s.buf.data[s.buf.w + t]? = some 97) ∧
    blk.lits.length ≤ max 1 ((runS0 .BUP).cfg.inputLen.toNat - 1) ∧
    max 1 ((runS0 .BUP).cfg.inputLen.toNat - 1) = 2 := by
  have hv : verify .BUP (setDefaults .BUP (runCfg.restrict .BUP)) = true := by decide
  have hdata : (runOps (runS0 .BUP, Ghost.init) runOpsEx).1.buf.data = List.replicate 40 97 := by decide
  have hw : (runOps (runS0 .BUP, Ghost.init) runOpsEx).1.buf.w = 0 := by decide
  have hbs : (runOps (runS0 .BUP, Ghost.init) runOpsEx).1.buf.cfg.blockSize = 32 := by decide
  have hst := reachable_stateOK .BUP runCfg (runS0 .BUP) (runS0_new .BUP hv) (by decide) runOpsEx
  obtain ⟨s', n, blk, hp, -, -, -, -, -, -, -, -, -, -, -, hfull, -⟩ :=
    C01_C02_C03_parse _ 0 hst.1 hst.2 (by rw [hw, hdata]; decide)
  have hn : n = 32 := by
    rw [hfull (Or.inl rfl), hdata, hw, hbs]; decide
  subst hn
  have hrun : ∀ t, t < 32 → (runOps (runS0 .BUP, Ghost.init) runOpsEx).1.buf.data[
      (runOps (runS0 .BUP, Ghost.init) runOpsEx).1.buf.w + t]? = some 97 := by
    intro t ht
    rw [hdata, hw, Nat.zero_add, List.getElem?_replicate, if_pos (by omega)]
  exact ⟨s', blk, runS0_new .BUP hv, hp, hrun,
    C19_run_bup_partial_reachable runCfg _ (runS0_new .BUP hv) runOpsEx 0 s' 32 blk 97 hp rfl
      (Nat.le_refl _) hrun, by decide⟩

/-- WindowSize 64 = BufferSize, BlockSize 32, InputLen 3, 2 buckets of 32 slots -/
def bupCfg : Cfg :=
  { windowSize := 64, bufferSize := 64, blockSize := 32, shrinkSize := 16, inputLen := 3, hashBits := 1,
    bucketSize := 32 }

/-- the parser `NewParser` returns for `bupCfg` -/
def bupS0 : Parser :=
  { kind := .BUP, cfg := setDefaults .BUP (bupCfg.restrict .BUP),
    buf := PBuf.init (setDefaults .BUP (bupCfg.restrict .BUP)).bufCfg,
    dict := freshDict .BUP (setDefaults .BUP (bupCfg.restrict .BUP)) }

theorem bupS0_new : newParser .BUP bupCfg = some bupS0 := by
  unfold newParser
  simp only []
  rw [if_pos (by decide)]
  rfl

/-- the history: `Write(a^30 b)`, `Parse(nil)`, `Write(a^32)` -/
def bupOps : List POp :=
  [.write (List.replicate 30 97 ++ [98]), .parseNil, .write (List.replicate 32 97)]

set_option maxRecDepth 100000 in
/-- **The bound `≤ 1` of HP/BHP/DHP is violated by BUP** (kernel-checked, `decide`): in the state
    reached by the history `bupOps` from `NewParser(bupCfg)` (InputLen 3) the next `Parse` returns the
    block `[31, 63)` of 32 bytes `a`; it is parsed as ONE match of length 30 with offset 31 (the old
    run `a^30` at position 0, the longest candidate of the bucket) followed by TWO literals — the
    last `InputLen - 1` bytes cannot be hashed.  `C19_run_bup_partial` is sharp here. -/
theorem bup_two_literals :
    let s := (runOps (bupS0, Ghost.init) bupOps).1
    newParser .BUP bupCfg = some bupS0 ∧
    (s.parse 0).2.1 = 32 ∧ (s.parse 0).2.2.1 = .ok ∧
    (∀ t, t < 32 → s.buf.data[s.buf.w + t]? = some 97) ∧
    (s.parse 0).2.2.2.seqs = [⟨0, 30, 31, 0⟩] ∧ (s.parse 0).2.2.2.lits = [97, 97] ∧
    (s.parse 0).2.2.2.lits.length = max 1 (s.cfg.inputLen.toNat - 1) := by
  intro s
  have hdata : s.buf.w = 31 ∧ s.buf.data = List.replicate 30 97 ++ [98] ++ List.replicate 32 97 := by
    decide
  have hpar : (s.parse 0).2.1 = 32 ∧ (s.parse 0).2.2.1 = .ok ∧
      (s.parse 0).2.2.2.seqs = [⟨0, 30, 31, 0⟩] ∧ (s.parse 0).2.2.2.lits = [97, 97] := by
    unfold Parser.parse
    simp only [runGreedy_eq_fuel]
    decide
  refine ⟨bupS0_new, hpar.1, hpar.2.1, ?_, hpar.2.2.1, hpar.2.2.2, ?_⟩
  · intro t ht
    rw [hdata.1, hdata.2, List.getElem?_append_right (by simp), List.getElem?_replicate,
      if_pos (by simp; omega)]
  · rw [hpar.2.2.2]; decide

end Examples

end LZ

