/-
  LzProofs.GenDHPHist — port of LzProofs/GenHPHist.lean to the double hash parser DHP: `ParseOKD` (GenDHPParse) as an
  INVARIANT of the translated operations, operation by operation.  No sorry, no axioms of its own.

  Subject: the functions `tools/extract` regenerates from the Go text
      dhp.go              doubleHashParser.init / Parse           Gen.doubleHashParser_init / _Parse (CodeDHPInit, CodeDHPParse)
      hash.go             doubleHashDictionary.Reset / Shrink     Gen.doubleHashDictionary_Reset / _Shrink (CodeDHashDict)
      parser_buffer.go    ParserBuffer.Write                      Gen.ParserBuffer_Write     (CodePBuf)
  `Write`, `Reset`, `Shrink` of a `*doubleHashParser` are the PROMOTED methods of the embedded `doubleHashDictionary` /
  `ParserBuffer` (dhp.go declares only `init`, `Parse`, `ParserConfig`); `dhp_Write`, `dhp_Reset`, `dhp_Shrink` below
  are the translated function on the embedded field followed by a record update, as for HP.
  `ParserBuffer.ReadFrom` is NOT translated and `Parse(nil)` is excluded by the topic assumption `blk != nil`.

  Invariant `HistOKD bc t` on the GENERATED state `t : Gen.doubleHashParser`: `ParseOKD t`, the buffer configuration is
  `bc`, `len(Data) ≤ BufferSize`, `CapOK`, `inputLen2 ≤ 8` (on the table of the long hash: `ParseOKD` does not tie
  `DHPConfig.InputLen2` to it, and nothing reads that field after `init`).

    hist_write / hist_shrink / hist_reset / hist_parse / hist_init    as in GenHPHist; `hist_parse` needs
                 `fuel ≥ 2·len(Data) + 3` (`gen_dhp_parse`)
  The parser-independent lemmas (`BCOK`, `mwrite_eq`, `capOK_shrink`, `mparse_frame`, `ofSeq_seqRep`, …) are those of
  GenHPHist; new model-side frame facts for `.double` dictionaries: `mshrink_dict2`, `mreset_dict2`, `mparse_dict2`
  (the input lengths / hash bits of both tables are constant) — stated on `Parser`, shared with BDHP.
-/
import LzProofs.GenHPHist
import LzProofs.GenDHPInit
import LzProofs.RunsBdhp

set_option linter.unusedSimpArgs false
set_option linter.unusedVariables false

namespace LZ.GenDHPHist
open LZ LZ.Gen LZ.GenBuf LZ.GenHash LZ.GenHPParse LZ.GenDHPParse LZ.GenProps LZ.GenDHPInit
open LZ.GenHPHist (BCOK mwrite_eq capOK_shrink mem_le_sum seqsAll_mem ofSeq_seqRep mparse_frame)

/-! ## the promoted methods -/

/-- `s.Write(p)` for `s *doubleHashParser`: `ParserBuffer.Write` on the embedded buffer -/
def dhp_Write (grow : Nat → Nat → Nat) (s : Gen.doubleHashParser) (p : Slice) : Res (Gen.doubleHashParser × Int × Gen.Err) :=
  Res.bind (ParserBuffer_Write grow s.doubleHashDictionary.ParserBuffer p) fun r =>
  Res.ok ({ s with doubleHashDictionary := { s.doubleHashDictionary with ParserBuffer := r.1 } }, r.2.1, r.2.2)

/-- `s.Reset(data)` for `s *doubleHashParser`: `doubleHashDictionary.Reset` on the embedded dictionary -/
def dhp_Reset (s : Gen.doubleHashParser) (data : Slice) : Res (Gen.doubleHashParser × Gen.Err) :=
  Res.bind (doubleHashDictionary_Reset s.doubleHashDictionary data) fun r =>
  Res.ok ({ s with doubleHashDictionary := r.1 }, r.2)

/-- `s.Shrink()` for `s *doubleHashParser`: `doubleHashDictionary.Shrink` on the embedded dictionary -/
def dhp_Shrink (s : Gen.doubleHashParser) : Res (Gen.doubleHashParser × Int) :=
  Res.bind (doubleHashDictionary_Shrink s.doubleHashDictionary) fun r =>
  Res.ok ({ s with doubleHashDictionary := r.1 }, r.2)

/-! ## the invariant -/

/-- the invariant of a history of translated operations on a Go `doubleHashParser` -/
structure HistOKD (bc : BufCfg) (t : Gen.doubleHashParser) : Prop where
  pok : ParseOKD t
  cfg : ofCfg t.doubleHashDictionary.ParserBuffer.BufConfig = bc
  len : t.doubleHashDictionary.ParserBuffer.Data.len ≤ bc.bufferSize
  cap : (ofPB t.doubleHashDictionary.ParserBuffer).CapOK
  il8 : t.doubleHashDictionary.h2.inputLen.toNat ≤ 8

theorem HistOKD.dataLen {bc : BufCfg} {t : Gen.doubleHashParser} (h : HistOKD bc t) :
    (ofDHPs t).buf.data.length = t.doubleHashDictionary.ParserBuffer.Data.len := data_length h.pok.wf.1.data

theorem HistOKD.hw {bc : BufCfg} {t : Gen.doubleHashParser} (h : HistOKD bc t) :
    (ofDHPs t).buf.w ≤ (ofDHPs t).buf.data.length := by
  rw [h.dataLen]
  have h1 := h.pok.w
  have h2 := h.pok.wf.1.w
  show t.doubleHashDictionary.ParserBuffer.W.toNat ≤ _
  omega

theorem HistOKD.mlen {bc : BufCfg} {t : Gen.doubleHashParser} (h : HistOKD bc t) :
    (ofDHPs t).buf.data.length ≤ (ofDHPs t).buf.cfg.bufferSize := by
  rw [h.dataLen]
  show _ ≤ (ofCfg t.doubleHashDictionary.ParserBuffer.BufConfig).bufferSize
  rw [h.cfg]; exact h.len

theorem HistOKD.mcfg {bc : BufCfg} {t : Gen.doubleHashParser} (h : HistOKD bc t) : (ofDHPs t).buf.cfg = bc := h.cfg

/-- `HistOKD` after an operation that replaced the embedded dictionary: what has to be known about the new one -/
theorem histOK_update {bc : BufCfg} (hbc : BCOK bc) {t : Gen.doubleHashParser} (h : HistOKD bc t)
    (f' : Gen.doubleHashDictionary) (hwf : DDictWF f')
    (hil1 : (ofHash f'.h1).inputLen = (ofHash t.doubleHashDictionary.h1).inputLen)
    (hhb1 : (ofHash f'.h1).hashBits = (ofHash t.doubleHashDictionary.h1).hashBits)
    (hil2 : (ofHash f'.h2).inputLen = (ofHash t.doubleHashDictionary.h2).inputLen)
    (hhb2 : (ofHash f'.h2).hashBits = (ofHash t.doubleHashDictionary.h2).hashBits)
    (hcfg : (ofPB f'.ParserBuffer).cfg = bc)
    (hw : (ofPB f'.ParserBuffer).w ≤ (ofPB f'.ParserBuffer).data.length)
    (hlen : (ofPB f'.ParserBuffer).data.length ≤ bc.bufferSize)
    (hcap : (ofPB f'.ParserBuffer).CapOK) :
    HistOKD bc { t with doubleHashDictionary := f' } := by
  have hdl : (ofPB f'.ParserBuffer).data.length = f'.ParserBuffer.Data.len := data_length hwf.1.data
  rw [hdl] at hw hlen
  have hil1' : f'.h1.inputLen.toNat = t.doubleHashDictionary.h1.inputLen.toNat := hil1
  have hil2' : f'.h2.inputLen.toNat = t.doubleHashDictionary.h2.inputLen.toNat := hil2
  have hhb1' : 64 - f'.h1.shift.toNat = 64 - t.doubleHashDictionary.h1.shift.toNat := hhb1
  have hhb2' : 64 - f'.h2.shift.toNat = 64 - t.doubleHashDictionary.h2.shift.toNat := hhb2
  have hc : ofCfg f'.ParserBuffer.BufConfig = ofCfg t.doubleHashDictionary.ParserBuffer.BufConfig := hcfg.trans h.cfg.symm
  have hws : f'.ParserBuffer.BufConfig.WindowSize.toNat = t.doubleHashDictionary.ParserBuffer.BufConfig.WindowSize.toNat :=
    congrArg BufCfg.windowSize hc
  have hbs : f'.ParserBuffer.BufConfig.BlockSize.toNat = t.doubleHashDictionary.ParserBuffer.BufConfig.BlockSize.toNat :=
    congrArg BufCfg.blockSize hc
  have hW0 := hwf.1.w
  have hw' : f'.ParserBuffer.W.toNat ≤ f'.ParserBuffer.Data.len := hw
  have hs641 := hwf.2.1.2.2.2.1
  have hs642 := hwf.2.2.2.2.2.1
  have hs641' := h.pok.wf.2.1.2.2.2.1
  have hs642' := h.pok.wf.2.2.2.2.2.1
  have hi01 := hwf.2.1.2.1
  have hi02 := hwf.2.2.2.1
  have hi01' := h.pok.wf.2.1.2.1
  have hi02' := h.pok.wf.2.2.2.1
  have := h.pok.il1
  have := h.pok.il12
  have := h.pok.sh1
  have := h.pok.sh2
  have := hbc.bmax
  have := h.il8
  refine ⟨⟨hwf, ?_, ?_, ?_, h.pok.bs0, ?_, ?_, ?_, ?_, ?_, ?_⟩, hcfg, hlen, hcap, ?_⟩
  · show t.DHPConfig.WindowSize.toNat = f'.ParserBuffer.BufConfig.WindowSize.toNat
    rw [hws]; exact h.pok.cws
  · show t.DHPConfig.BlockSize.toNat = f'.ParserBuffer.BufConfig.BlockSize.toNat
    rw [hbs]; exact h.pok.cbs
  · show t.DHPConfig.InputLen1.toNat = f'.h1.inputLen.toNat
    rw [hil1']; exact h.pok.cil
  · show f'.ParserBuffer.W ≤ (f'.ParserBuffer.Data.len : Int)
    omega
  · show 1 ≤ f'.h1.inputLen
    omega
  · show f'.h1.inputLen ≤ f'.h2.inputLen
    omega
  · show 32 ≤ f'.h1.shift.toNat
    omega
  · show 32 ≤ f'.h2.shift.toNat
    omega
  · show f'.ParserBuffer.Data.len < 4294967296
    omega
  · show f'.h2.inputLen.toNat ≤ 8
    omega

/-! ## model-side frame facts for `.double` dictionaries (any kind: DHP and BDHP) -/

theorem mshrink_dict2 (s : Parser) (d : Hash2) (hd : s.dict = .double d) :
    ∃ d', s.shrink.1.dict = .double d' ∧ d'.h1.inputLen = d.h1.inputLen ∧ d'.h1.hashBits = d.h1.hashBits ∧
      d'.h2.inputLen = d.h2.inputLen ∧ d'.h2.hashBits = d.h2.hashBits := by
  unfold Parser.shrink
  generalize s.buf.shrink = x
  obtain ⟨b, dl⟩ := x
  simp only []
  split
  · exact ⟨d, hd, rfl, rfl, rfl, rfl⟩
  · simp only [hd]
    refine ⟨_, rfl, ?_, ?_, ?_, ?_⟩ <;> (unfold HashT.shiftOffsets; split <;> rfl)

theorem mreset_dict2 (s : Parser) (d : Hash2) (hd : s.dict = .double d) (data : List Byte) (ce : Nat) :
    ∃ d', (s.reset data ce).1.dict = .double d' ∧ d'.h1.inputLen = d.h1.inputLen ∧ d'.h1.hashBits = d.h1.hashBits ∧
      d'.h2.inputLen = d.h2.inputLen ∧ d'.h2.hashBits = d.h2.hashBits := by
  unfold Parser.reset
  generalize s.buf.reset data ce = x
  obtain ⟨b, e⟩ := x
  simp only []
  split
  · simp only [Parser.clearDict, hd]
    exact ⟨_, rfl, rfl, rfl, rfl, rfl⟩
  · exact ⟨d, hd, rfl, rfl, rfl, rfl⟩

/-- the greedy loop keeps any dictionary invariant its finder keeps (copy of `greedyLoop_dict`, LzProofs/ResetLemmas.lean,
    which cannot be imported next to LzProofs/SafeProps.lean: both declare `LZ.step_fst`) -/
theorem greedyLoop_dict' {δ} (F : Finder δ) (P : δ → Prop) (p : List Byte) (stop : Nat)
    (hF : ∀ d i li, P d → P (F.probe d p i li).1) :
    ∀ st : LoopSt δ, P st.dict → P (greedyLoop F p stop st).dict := by
  intro st
  induction st using greedyLoop.induct F p stop with
  | case1 st h d hp ih =>
    intro hP
    rw [greedyLoop]; simp only [h, dite_true]
    rw [hp]
    apply ih
    have := hF st.dict st.i st.litIndex hP
    rw [hp] at this; exact this
  | case2 st h d s k o hp hk q ih =>
    intro hP
    rw [greedyLoop]; simp only [h, dite_true]
    rw [hp]
    simp only [hk, dite_true]
    apply ih
    have := hF st.dict st.i st.litIndex hP
    rw [hp] at this; exact this
  | case3 st h d s k o hp hk =>
    intro hP
    rw [greedyLoop]; simp only [h, dite_true]
    rw [hp]
    simp only [hk, dite_false]
    have := hF st.dict st.i st.litIndex hP
    rw [hp] at this; exact this
  | case4 st h =>
    intro hP
    rw [greedyLoop]; simp only [h, dite_false]
    exact hP

theorem runGreedy_dict' {δ} (F : Finder δ) (P : δ → Prop) (d : δ) (p : List Byte) (w stop flags : Nat)
    (hF : ∀ d i li, P d → P (F.probe d p i li).1) (hd : P d) :
    P (Parser.runGreedy F d p w stop flags).1 := by
  unfold Parser.runGreedy
  exact greedyLoop_dict' F P p stop hF _ hd

theorem parse_panic' (s : Parser) (flags : Nat) (hn : s.blockN ≠ 0) (hm : ¬ s.MarginOK) :
    s.parse flags = (s, 0, .panic, ⟨[], []⟩) := by
  have hm := Classical.not_not.mp hm
  unfold Parser.dictInputLen Parser.blockPrefix at hm
  unfold Parser.parse
  simp only [hn, if_false]
  exact if_pos hm

/-- `Parse` keeps the input lengths of both tables -/
theorem mparse_dict2 (s : Parser) (flags : Nat) (d : Hash2) (hd : s.dict = .double d) :
    ∃ d', (s.parse flags).1.dict = .double d' ∧ d'.h1.inputLen = d.h1.inputLen ∧ d'.h2.inputLen = d.h2.inputLen := by
  by_cases hn : s.blockN = 0
  · rw [Parser.parse_empty s flags hn]; exact ⟨d, hd, rfl, rfl⟩
  by_cases hm : s.MarginOK
  · rw [Parser.parse_double s flags d hd hn hm]
    refine ⟨_, rfl, ?_⟩
    obtain ⟨p1, p2⟩ := processSegment2_inputLen d.h1 d.h2 s.buf.data ((s.buf.w : Int) - d.h2.inputLen + 1) s.buf.w
    exact runGreedy_dict' _ (fun x : Hash2 => x.h1.inputLen = d.h1.inputLen ∧ x.h2.inputLen = d.h2.inputLen) _ _ _ _ _
      (fun x i li hx => by
        obtain ⟨q1, q2⟩ := dhpProbe_inputLen s.buf.cfg.windowSize s.minMatch
          (s.blockPrefix.length + 1 -
            (processSegment2 d.h1 d.h2 s.buf.data ((s.buf.w : Int) - d.h2.inputLen + 1) s.buf.w).1.inputLen)
          (s.blockPrefix.length + 1 -
            (processSegment2 d.h1 d.h2 s.buf.data ((s.buf.w : Int) - d.h2.inputLen + 1) s.buf.w).2.inputLen)
          (s.kind == .BDHP) x s.blockPrefix i li
        exact ⟨q1.trans hx.1, q2.trans hx.2⟩)
      ⟨p1, p2⟩
  · rw [parse_panic' s flags hn hm]; exact ⟨d, hd, rfl, rfl⟩

/-! ## Write -/

theorem hist_write {bc : BufCfg} (hbc : BCOK bc) (grow : Nat → Nat → Nat) (t : Gen.doubleHashParser) (h : HistOKD bc t)
    (p : Slice) (hp : SWF p) :
    ∃ t' n e, dhp_Write grow t p = Res.ok (t', n, e) ∧ HistOKD bc t' ∧
      ofDHPs t' = ((ofDHPs t).write p.data).1 ∧ n = (((ofDHPs t).write p.data).2.1 : Int) ∧
      errOf e = some ((ofDHPs t).write p.data).2.2 ∧
      (((ofDHPs t).write p.data).2.2 = .ok ∨ ((ofDHPs t).write p.data).2.2 = .full) := by
  have hA := gen_pbuf_write grow t.doubleHashDictionary.ParserBuffer h.pok.wf.1 p hp
  obtain ⟨c, hc, hcm⟩ := PBuf.write_spec (ofPB t.doubleHashDictionary.ParserBuffer) p.data h.mlen
  obtain ⟨a1, a2, a3, a4, a5, a6⟩ := PBuf.write_frame (ofPB t.doubleHashDictionary.ParserBuffer) p.data
  have herr : (PBuf.write (ofPB t.doubleHashDictionary.ParserBuffer) p.data).2.2 = .ok ∨
      (PBuf.write (ofPB t.doubleHashDictionary.ParserBuffer) p.data).2.2 = .full := by
    rw [hc]; simp only []; split
    · right; rfl
    · left; rfl
  rw [mwrite_eq]
  simp only []
  show ∃ t' n e, dhp_Write grow t p = Res.ok (t', n, e) ∧ HistOKD bc t' ∧
      ofDHPs t' = { ofDHPs t with buf := (PBuf.write (ofPB t.doubleHashDictionary.ParserBuffer) p.data).1 } ∧
      n = ((PBuf.write (ofPB t.doubleHashDictionary.ParserBuffer) p.data).2.1 : Int) ∧
      errOf e = some (PBuf.write (ofPB t.doubleHashDictionary.ParserBuffer) p.data).2.2 ∧ _
  unfold dhp_Write
  cases hr : ParserBuffer_Write grow t.doubleHashDictionary.ParserBuffer p with
  | ok v =>
    obtain ⟨b', n, e⟩ := v
    rw [hr] at hA
    obtain ⟨_, hof, hn, he, hwf⟩ := hA
    refine ⟨_, n, e, rfl, ?_, ?_, hn, he, herr⟩
    · refine histOK_update hbc h { t.doubleHashDictionary with ParserBuffer := b' } ⟨hwf, h.pok.wf.2⟩ rfl rfl rfl rfl ?_ ?_ ?_ ?_
      · show (ofPB b').cfg = bc
        rw [hof, a5]; exact h.cfg
      · show (ofPB b').w ≤ (ofPB b').data.length
        rw [hof, a3, a1, List.length_append]
        have := h.hw
        show (ofPB t.doubleHashDictionary.ParserBuffer).w ≤ (ofPB t.doubleHashDictionary.ParserBuffer).data.length + _
        have h2 : (ofPB t.doubleHashDictionary.ParserBuffer).w ≤ (ofPB t.doubleHashDictionary.ParserBuffer).data.length := this
        omega
      · show (ofPB b').data.length ≤ bc.bufferSize
        rw [hof, hc]
        simp only [List.length_append, List.length_take]
        have h1 := h.mlen
        have h2 : (ofPB t.doubleHashDictionary.ParserBuffer).cfg.bufferSize = bc.bufferSize := by rw [h.cfg.symm]; rfl
        have h1' : (ofPB t.doubleHashDictionary.ParserBuffer).data.length ≤ (ofPB t.doubleHashDictionary.ParserBuffer).cfg.bufferSize := h1
        omega
      · show (ofPB b').CapOK
        rw [hof]; exact a6 h.cap
    · show ofDDict .DHP (ofDHP t.DHPConfig) { t.doubleHashDictionary with ParserBuffer := b' } = _
      simp only [ofDDict, hof, ofDHPs]
  | panic =>
    rw [hr] at hA
    have hA' : (PBuf.write (ofPB t.doubleHashDictionary.ParserBuffer) p.data).2.2 = .panic := hA
    rcases herr with h1 | h1 <;> rw [h1] at hA' <;> cases hA'
  | fuel =>
    rw [hr] at hA
    exact absurd hA (by intro hc; exact hc)

/-! ## Shrink -/

theorem hist_shrink {bc : BufCfg} (hbc : BCOK bc) (t : Gen.doubleHashParser) (h : HistOKD bc t) :
    ∃ t', dhp_Shrink t = Res.ok (t', ((ofDHPs t).shrink.2 : Int)) ∧ HistOKD bc t' ∧
      ofDHPs t' = (ofDHPs t).shrink.1 := by
  have hW := h.pok.w
  have hS := h.pok.small
  have hss := h.pok.wf.1.ss
  obtain ⟨f', hf, hof, hwf⟩ := gen_dhp_shrink .DHP (ofDHP t.DHPConfig) t.doubleHashDictionary h.pok.wf (by omega) (by omega)
  unfold dhp_Shrink
  rw [hf]
  refine ⟨_, rfl, ?_, hof⟩
  obtain ⟨d', hd', hi1', hb1', hi2', hb2'⟩ := mshrink_dict2 (ofDHPs t)
    ⟨ofHash t.doubleHashDictionary.h1, ofHash t.doubleHashDictionary.h2⟩ rfl
  have hdict : Dict.double ⟨ofHash f'.h1, ofHash f'.h2⟩ = Dict.double d' := (congrArg Parser.dict hof).trans hd'
  injection hdict with hdict
  have hd1 : ofHash f'.h1 = d'.h1 := congrArg Hash2.h1 hdict
  have hd2 : ofHash f'.h2 = d'.h2 := congrArg Hash2.h2 hdict
  have hbuf : ofPB f'.ParserBuffer = (ofDHPs t).shrink.1.buf := congrArg Parser.buf hof
  have hbuf' : ofPB f'.ParserBuffer = ofPB t.doubleHashDictionary.ParserBuffer ∨
      ofPB f'.ParserBuffer = (ofPB t.doubleHashDictionary.ParserBuffer).shrink.1 := by
    rcases shrink_eq (ofDHPs t) with he | ⟨-, -, hb, -, -⟩
    · left; rw [hbuf, he]; rfl
    · right; rw [hbuf, hb]; rfl
  have hmw : (ofPB t.doubleHashDictionary.ParserBuffer).w ≤ (ofPB t.doubleHashDictionary.ParserBuffer).data.length := h.hw
  have hml : (ofPB t.doubleHashDictionary.ParserBuffer).data.length ≤ bc.bufferSize := by
    have := h.mlen; rw [h.mcfg] at this; exact this
  refine histOK_update hbc h f' hwf (by rw [hd1]; exact hi1') (by rw [hd1]; exact hb1') (by rw [hd2]; exact hi2')
    (by rw [hd2]; exact hb2') ?_ ?_ ?_ ?_
  · rcases hbuf' with e | e
    · rw [e]; exact h.cfg
    · rw [e, (PBuf.shrink_frame _).2.2.2.1]; exact h.cfg
  · rcases hbuf' with e | e
    · rw [e]; exact hmw
    · obtain ⟨a1, a2, a3, a4, a5, a6⟩ := PBuf.shrink_frame (ofPB t.doubleHashDictionary.ParserBuffer)
      rw [e, a1, List.length_drop]; omega
  · rcases hbuf' with e | e
    · rw [e]; exact hml
    · obtain ⟨a1, a2, a3, a4, a5, a6⟩ := PBuf.shrink_frame (ofPB t.doubleHashDictionary.ParserBuffer)
      rw [e, a1, List.length_drop]; omega
  · rcases hbuf' with e | e
    · rw [e]; exact h.cap
    · rw [e]; exact capOK_shrink _ h.cap

/-! ## Reset -/

theorem hist_reset {bc : BufCfg} (hbc : BCOK bc) (t : Gen.doubleHashParser) (h : HistOKD bc t) (data : Slice)
    (hdat : SWF data) :
    ∃ t' e, dhp_Reset t data = Res.ok (t', e) ∧ HistOKD bc t' ∧
      ofDHPs t' = ((ofDHPs t).reset data.data (data.cap - data.len)).1 ∧
      errOfReset e = some ((ofDHPs t).reset data.data (data.cap - data.len)).2 := by
  obtain ⟨f', e, hf, hof, herr, hwf⟩ := gen_dhp_reset .DHP (ofDHP t.DHPConfig) t.doubleHashDictionary h.pok.wf data hdat
  unfold dhp_Reset
  rw [hf]
  refine ⟨_, e, rfl, ?_, hof, herr⟩
  obtain ⟨d', hd', hi1', hb1', hi2', hb2'⟩ := mreset_dict2 (ofDHPs t)
    ⟨ofHash t.doubleHashDictionary.h1, ofHash t.doubleHashDictionary.h2⟩ rfl data.data (data.cap - data.len)
  have hdict : Dict.double ⟨ofHash f'.h1, ofHash f'.h2⟩ = Dict.double d' := (congrArg Parser.dict hof).trans hd'
  injection hdict with hdict
  have hd1 : ofHash f'.h1 = d'.h1 := congrArg Hash2.h1 hdict
  have hd2 : ofHash f'.h2 = d'.h2 := congrArg Hash2.h2 hdict
  have hbuf : ofPB f'.ParserBuffer = ((ofDHPs t).reset data.data (data.cap - data.len)).1.buf := congrArg Parser.buf hof
  have hmw : (ofPB t.doubleHashDictionary.ParserBuffer).w ≤ (ofPB t.doubleHashDictionary.ParserBuffer).data.length := h.hw
  have hml : (ofPB t.doubleHashDictionary.ParserBuffer).data.length ≤ bc.bufferSize := by
    have := h.mlen; rw [h.mcfg] at this; exact this
  refine histOK_update hbc h f' hwf (by rw [hd1]; exact hi1') (by rw [hd1]; exact hb1') (by rw [hd2]; exact hi2')
    (by rw [hd2]; exact hb2') ?_ ?_ ?_ ?_
  all_goals
    rcases reset_eq (ofDHPs t) data.data (data.cap - data.len) with ⟨-, hs⟩ | ⟨-, -, -, hb, hbe, -, -⟩
    · rw [hbuf, hs]
      first | exact h.cfg | exact hmw | exact hml | exact h.cap
    · rw [hbuf, hb]
      have hbe' : (PBuf.reset (ofPB t.doubleHashDictionary.ParserBuffer) data.data (data.cap - data.len)).2 = .ok := hbe
      rcases PBuf.reset_frame (ofPB t.doubleHashDictionary.ParserBuffer) data.data (data.cap - data.len) with
        ⟨-, b1, b2, b3, b4, b5⟩ | ⟨b0, -⟩
      · show _
        first
          | (show (PBuf.reset (ofPB t.doubleHashDictionary.ParserBuffer) data.data (data.cap - data.len)).1.cfg = bc
             rw [b4]; exact h.cfg)
          | (show (PBuf.reset (ofPB t.doubleHashDictionary.ParserBuffer) data.data (data.cap - data.len)).1.w ≤ _
             rw [b2]; exact Nat.zero_le _)
          | (show (PBuf.reset (ofPB t.doubleHashDictionary.ParserBuffer) data.data (data.cap - data.len)).1.data.length ≤ bc.bufferSize
             rw [b1]
             have hno : ¬ (ofPB t.doubleHashDictionary.ParserBuffer).cfg.bufferSize < data.data.length := by
               intro hc
               have := (PBuf.reset_err_iff _ data.data (data.cap - data.len)).mpr hc
               rw [hbe'] at this; cases this
             have hcc : (ofPB t.doubleHashDictionary.ParserBuffer).cfg.bufferSize = bc.bufferSize := by rw [← h.cfg]; rfl
             omega)
          | exact b5
      · exact absurd hbe' b0

/-! ## Parse -/

theorem hist_parse {bc : BufCfg} (hbc : BCOK bc) (grow : Nat → Nat → Nat) (fuel : Nat) (t : Gen.doubleHashParser)
    (h : HistOKD bc t) (blk : Gen.Block') (flags : Int) (hfl : 0 ≤ flags)
    (hfuel : 2 * t.doubleHashDictionary.ParserBuffer.Data.len + 3 ≤ fuel) :
    ∃ t' blk', doubleHashParser_Parse grow fuel t blk flags =
        Res.ok (t', blk', (((ofDHPs t).parse flags.toNat).2.1 : Int), parseErr ((ofDHPs t).parse flags.toNat).2.2.1) ∧
      HistOKD bc t' ∧ ofDHPs t' = ((ofDHPs t).parse flags.toNat).1 ∧
      ofBlock blk' = ((ofDHPs t).parse flags.toNat).2.2.2 ∧ SWF blk'.Literals ∧
      (((ofDHPs t).parse flags.toNat).2.2.1 = .ok ∨ ((ofDHPs t).parse flags.toNat).2.2.1 = .empty) := by
  have hil1 := h.pok.il1
  have hil12 := h.pok.il12
  have hcil := h.pok.cil
  have hil8 := h.il8
  have hi01 := h.pok.wf.2.1.2.1
  have hi02 := h.pok.wf.2.2.2.1
  have hb : ProbeW.Backing (ofDHPs t) (staleOfD t) := staleOfD_length t h.pok.wf.1.data
  have hd : ProbeW.HashDictOK (ofDHPs t).dict := by
    show 1 ≤ t.doubleHashDictionary.h1.inputLen.toNat ∧
      t.doubleHashDictionary.h1.inputLen.toNat ≤ t.doubleHashDictionary.h2.inputLen.toNat ∧
      t.doubleHashDictionary.h2.inputLen.toNat ≤ 8
    omega
  have hmm3 : (ofDHPs t).minMatch = Min.min 3 t.DHPConfig.InputLen1.toNat := rfl
  have hW := ProbeW.parseW_eq (ofDHPs t) (staleOfD t) flags.toNat h.hw hb h.cap hd (by rw [hmm3]; omega)
  have hnot : ∀ o, (ofDHPs t).dict ≠ .osap o := by intro o ho; cases ho
  have hbm := hbc.bmax
  have hwm := hbc.wmax
  obtain ⟨f1, f2, f3, f4⟩ := mparse_frame (ofDHPs t) flags.toNat h.hw (by rw [hmm3]; omega) h.cap hnot 4294967288
    (by have := h.mlen; rw [h.mcfg] at this; omega) (by rw [h.mcfg]; exact hwm)
  obtain ⟨d', f5, f6, f7⟩ := mparse_dict2 (ofDHPs t) flags.toNat
    ⟨ofHash t.doubleHashDictionary.h1, ofHash t.doubleHashDictionary.h2⟩ rfl
  have hm := gen_dhp_parse grow fuel t blk flags h.pok hfl hfuel
  rw [hW] at hm
  generalize (ofDHPs t).parse flags.toNat = R at hm f1 f2 f3 f4 f5 ⊢
  obtain ⟨s', n, e, b⟩ := R
  simp only at hm f1 f2 f3 f4 f5 ⊢
  obtain ⟨t', blk', h1, h2, h3, h4, h5, h6, h7, h8⟩ := hm
  refine ⟨t', blk', h1, ?_, h2, ?_, h7, h4⟩
  · have hbuf : ofPB t'.doubleHashDictionary.ParserBuffer = _ := (congrArg Parser.buf h2).trans f1
    have hdict : Dict.double ⟨ofHash t'.doubleHashDictionary.h1, ofHash t'.doubleHashDictionary.h2⟩ = Dict.double d' :=
      (congrArg Parser.dict h2).trans f5
    injection hdict with hdict
    have hi2 : t'.doubleHashDictionary.h2.inputLen.toNat = t.doubleHashDictionary.h2.inputLen.toNat :=
      (congrArg (fun x : Hash2 => x.h2.inputLen) hdict).trans f7
    refine ⟨h8, ?_, ?_, ?_, by rw [hi2]; exact h.il8⟩
    · have : (ofPB t'.doubleHashDictionary.ParserBuffer).cfg = (ofPB t.doubleHashDictionary.ParserBuffer).cfg := by rw [hbuf]; rfl
      exact this.trans h.cfg
    · have e : (ofPB t'.doubleHashDictionary.ParserBuffer).data = (ofPB t.doubleHashDictionary.ParserBuffer).data := by rw [hbuf]; rfl
      have e2 := congrArg List.length e
      have d1 : (ofPB t'.doubleHashDictionary.ParserBuffer).data.length = t'.doubleHashDictionary.ParserBuffer.Data.len :=
        data_length h8.wf.1.data
      have d2 : (ofPB t.doubleHashDictionary.ParserBuffer).data.length = t.doubleHashDictionary.ParserBuffer.Data.len :=
        data_length h.pok.wf.1.data
      have := h.len
      omega
    · have hc := h.cap
      unfold PBuf.CapOK at hc ⊢
      rw [hbuf]; exact hc
  · have hmap : List.map (ofSeq ∘ seqRep) b.seqs = b.seqs := by
      conv => rhs; rw [← List.map_id b.seqs]
      apply List.map_congr_left
      intro q hq
      obtain ⟨g1, g2, g3, g4⟩ := f4 q hq
      exact ofSeq_seqRep q (by omega) (by omega) (by omega) g4
    unfold ofBlock
    rw [h5, h6, List.map_map, hmap]

/-! ## init -/

/-- `doubleHashParser.init(cfg)` on `new(doubleHashParser)`: if it returns `nil`, the configuration is one the model's
    `NewParser` accepts, the Go state abstracts to the model's fresh parser, and `HistOKD` holds for its buffer
    configuration -/
theorem hist_init (cfg : Gen.DHPConfig) (s0 : Gen.doubleHashParser)
    (hinit : doubleHashParser_init default cfg = Res.ok (s0, Gen.Err.ok)) :
    ∃ p, newParser .DHP (ofDHP cfg) = some p ∧ ofDHPs s0 = p ∧ BCOK p.buf.cfg ∧ HistOKD p.buf.cfg s0 := by
  have hg := gen_dhp_init default (ofDHP cfg) (by unfold GWF; exact Nat.le_refl 0) (by unfold GWF; exact Nat.le_refl 0)
  rw [toDHP_ofDHP] at hg
  cases hp : newParser .DHP (ofDHP cfg) with
  | none =>
    rw [hp] at hg
    obtain ⟨e, he, hne⟩ := hg
    rw [hinit] at he
    injection he with he
    injection he with _ he
    exact absurd he.symm hne
  | some p =>
    obtain ⟨s', h1, h2, h3⟩ := gen_dhp_init_parseOK (ofDHP cfg) p hp
    rw [toDHP_ofDHP, hinit] at h1
    injection h1 with h1
    injection h1 with h1 _
    subst h1
    refine ⟨p, rfl, h2, ?_⟩
    unfold newParser at hp
    simp only [] at hp
    split at hp
    · rename_i hv
      simp only [Option.some.injEq] at hp
      generalize setDefaults .DHP ((ofDHP cfg).restrict .DHP) = c at hv hp
      have hbv := verify_buf .DHP c hv
      simp only [bufVerify, Facts.maxUint32, Facts.margin] at hbv
      replace hbv := of_decide_eq_true hbv
      have hbv' : c.bufferSize ≤ 4294967288 ∧ c.windowSize ≤ 4294967288 := by
        obtain ⟨⟨_, a⟩, _, ⟨_, b⟩, _⟩ := hbv
        exact ⟨by omega, by omega⟩
      obtain ⟨-, ⟨-, hhv', -, -⟩, -⟩ := verify_double .DHP (Or.inl rfl) c hv
      have hbuf : (ofDHPs s0).buf = PBuf.init c.bufCfg := by rw [h2, ← hp]
      have hdict : (ofDHPs s0).dict = freshDict .DHP c := by rw [h2, ← hp]
      have hpb : p.buf.cfg = c.bufCfg := by rw [← hp]; rfl
      have hI : s0.doubleHashDictionary.h2.inputLen.toNat = c.inputLen2.toNat :=
        congrArg (fun x : Dict => match x with | .double d => d.h2.inputLen | _ => 0) hdict
      have hBC : BCOK p.buf.cfg := by
        rw [hpb]
        exact ⟨by show c.bufferSize.toNat ≤ _; omega, by show c.windowSize.toNat ≤ _; omega⟩
      refine ⟨hBC, h3, ?_, ?_, ?_, ?_⟩
      · rw [hpb]; exact congrArg PBuf.cfg hbuf
      · have : s0.doubleHashDictionary.ParserBuffer.Data.len = 0 := by
          have := data_length h3.wf.1.data
          have e : s0.doubleHashDictionary.ParserBuffer.Data.data = [] := congrArg PBuf.data hbuf
          rw [e] at this; exact this.symm
        rw [this]; exact Nat.zero_le _
      · left; exact congrArg PBuf.data hbuf
      · rw [hI]; omega
    · exact absurd hp (by simp)

end LZ.GenDHPHist

#print axioms LZ.GenDHPHist.mparse_dict2
#print axioms LZ.GenDHPHist.hist_write
#print axioms LZ.GenDHPHist.hist_shrink
#print axioms LZ.GenDHPHist.hist_reset
#print axioms LZ.GenDHPHist.hist_parse
#print axioms LZ.GenDHPHist.hist_init
