/-
  LzProofs.GenHashPropsDict — initialisation, `Reset` and `Shrink` of the hash parser (HP):
  the model (`newParser .HP`, `Parser.reset`, `Parser.shrink`; LzModel/Parser.lean) equals the
  mechanical translation of
      hash.go  hashDictionary.init / Reset / Shrink   (CodeHashDict.lean) — `Reset` and `Shrink`
               of `hashParser` ARE these methods (hashParser embeds hashDictionary and does
               not override them),
      hp.go    hashParser.init                        (CodeHPInit.lean).

  Abstraction: `ofDict k c f` — the model `Parser` of kind `k` (HP; the backward hash parser BHP
  embeds the same Go type) with configuration `c`, buffer
  `ofPB f.ParserBuffer` (GenBufPropsP) and dictionary `.single (ofHash f.hash)` (GenHashProps);
  `ofHPs s = ofDict .HP (ofHP s.HPConfig) s.hashDictionary` for the whole Go `hashParser` struct.
  Invariant: `DictWF f = PBWF f.ParserBuffer ∧ HashWF f.hash`.

      P01 gen_hp_init     hashParser.init(cfg) vs newParser .HP: rejected configurations leave the
                          receiver unchanged and return an error; accepted ones yield the
                          model's fresh parser (the buffer capacity is that of the receiver's
                          old array — 0 for `new(hashParser)`, see gen_hp_init_fresh)
      P02 gen_hp_reset    hashDictionary.Reset(data) vs Parser.reset
      P03 gen_hp_shrink   hashDictionary.Shrink()   vs Parser.shrink
  The proofs compose the buffer theorems (gen_pbuf_init / _reset / _shrink), the configuration
  theorems (gen_setDefaults_HP, gen_verify_HP, …) and H01–H03; they unfold the three small
  wrapper functions and nothing else.
-/
import LzModel.Generated.CodeHashDict
import LzModel.Generated.CodeHPInit
import LzModel.Parser
import LzProofs.GenHashProps
import LzProofs.GenBufPropsP
import LzProofs.GenPropsCfgHP

set_option linter.unusedSimpArgs false
set_option linter.unusedVariables false

namespace LZ.GenHash
open LZ LZ.Gen LZ.GenBuf LZ.GenProps

def DictWF (f : Gen.hashDictionary) : Prop := PBWF f.ParserBuffer ∧ HashWF f.hash

/-- the model parser state a Go `hashDictionary` (plus the configuration kept next to it) stands for -/
def ofDict (k : Kind) (c : Cfg) (f : Gen.hashDictionary) : Parser :=
  { kind := k, cfg := c, buf := ofPB f.ParserBuffer, dict := .single (ofHash f.hash) }

/-- the model parser state a Go `hashParser` stands for -/
def ofHPs (s : Gen.hashParser) : Parser := ofDict .HP (ofHP s.HPConfig) s.hashDictionary

/-! ## P02 Reset -/

theorem pbuf_reset_err (b : PBuf) (d : List Byte) (c : Nat) (h : (PBuf.reset b d c).2 ≠ .ok) :
    (PBuf.reset b d c).1 = b := by
  unfold PBuf.reset at h ⊢
  by_cases h1 : d.length > b.cfg.bufferSize
  · simp only [h1, if_true]
  · exfalso; apply h
    simp only [h1, if_false]
    (repeat' split) <;> rfl

theorem errOfReset_ok_iff (e : Gen.Err) (m : LZ.Err) (h : errOfReset e = some m) : e = Gen.Err.ok ↔ m = .ok := by
  unfold errOfReset at h
  split at h
  · rename_i h1; simp only [Option.some.injEq] at h; subst h; simp [h1]
  · rename_i h1; split at h
    · simp only [Option.some.injEq] at h; subst h; simp [h1]
    · simp at h

/-- P02 `Reset(data)` of the hash parser -/
theorem gen_hp_reset (k : Kind) (c : Cfg) (f : Gen.hashDictionary) (h : DictWF f) (data : Slice) (hdat : SWF data) :
    ∃ f' e, hashDictionary_Reset f data = Res.ok (f', e) ∧
      ofDict k c f' = (Parser.reset (ofDict k c f) data.data (data.cap - data.len)).1 ∧
      errOfReset e = some (Parser.reset (ofDict k c f) data.data (data.cap - data.len)).2 ∧ DictWF f' := by
  obtain ⟨hpb, hh⟩ := h
  obtain ⟨b', e, hb, hof, herr, hwf⟩ := gen_pbuf_reset f.ParserBuffer hpb data hdat
  have hiff := errOfReset_ok_iff e _ herr
  unfold hashDictionary_Reset
  rw [hb]
  simp only [bind_ok]
  rcases hr : PBuf.reset (ofPB f.ParserBuffer) data.data (data.cap - data.len) with ⟨rb, re⟩
  rw [hr] at hof herr hiff
  have hpr : Parser.reset (ofDict k c f) data.data (data.cap - data.len) =
      if re = .ok then ({ ofDict k c f with buf := rb, dict := .single (ofHash f.hash).clear }, re)
      else (ofDict k c f, re) := by
    simp only [Parser.reset, ofDict, hr, Parser.clearDict]
  rw [hpr]
  by_cases he : e = Gen.Err.ok
  · have hre : re = .ok := hiff.mp he
    obtain ⟨g', hg, hofg, hwg⟩ := gen_hash_reset f.hash hh
    simp only [he, ne_eq, not_true_eq_false, if_false, hg, bind_ok, hre, if_true]
    refine ⟨_, _, rfl, ?_, ?_, ⟨hwf, hwg⟩⟩
    · simp only [ofDict, hof, hofg]
    · rfl
  · have hre : re ≠ .ok := fun c => he (hiff.mpr c)
    simp only [he, ne_eq, not_false_eq_true, if_true, hre, if_false]
    refine ⟨_, _, rfl, ?_, herr, ⟨hwf, hh⟩⟩
    have : rb = ofPB f.ParserBuffer := by
      have := pbuf_reset_err (ofPB f.ParserBuffer) data.data (data.cap - data.len) (by rw [hr]; exact hre)
      rw [hr] at this; exact this
    simp only [ofDict, hof, this]

/-! ## P03 Shrink -/

theorem toNat_ofInt32_small (n : Nat) (h : n < 2 ^ 32) : (UInt32.ofInt (n : Int)).toNat = n := by
  unfold UInt32.ofInt
  simp only [UInt32.toNat_ofNat', Nat.reducePow, Int.reducePow] at *
  omega

/-- P03 `Shrink()` of the hash parser; `hw`: the write position minus ShrinkSize lies inside the
    data (otherwise ParserBuffer.Shrink panics, `gen_pbuf_shrink_panic`), `hW`: positions fit
    `uint32` (BufferSize ≤ 2^32 - 8 is enforced by Verify) -/
theorem gen_hp_shrink (k : Kind) (c : Cfg) (f : Gen.hashDictionary) (h : DictWF f)
    (hw : f.ParserBuffer.W - f.ParserBuffer.BufConfig.ShrinkSize ≤ f.ParserBuffer.Data.len)
    (hW : f.ParserBuffer.W < 4294967296) :
    ∃ f', hashDictionary_Shrink f = Res.ok (f', ((Parser.shrink (ofDict k c f)).2 : Int)) ∧
      ofDict k c f' = (Parser.shrink (ofDict k c f)).1 ∧ DictWF f' := by
  obtain ⟨hpb, hh⟩ := h
  obtain ⟨b', hb, hof, hwf⟩ := gen_pbuf_shrink f.ParserBuffer hpb hw
  unfold hashDictionary_Shrink
  rw [hb]
  simp only [bind_ok]
  rcases hr : PBuf.shrink (ofPB f.ParserBuffer) with ⟨rb, d⟩
  rw [hr] at hof
  have hdlt : d < 2 ^ 32 := by
    have : d = (PBuf.shrink (ofPB f.ParserBuffer)).2 := by rw [hr]
    rw [this]; unfold PBuf.shrink
    have hw0 := hpb.w
    split
    · simp
    · simp only [ofPB]; omega
  have hps : Parser.shrink (ofDict k c f) =
      if d = 0 then (ofDict k c f, 0)
      else ({ ofDict k c f with buf := rb, dict := .single ((ofHash f.hash).shiftOffsets d) }, d) := by
    simp only [Parser.shrink, ofDict, hr]
  rw [hps]
  -- the test `delta > 0` (or `delta <= 0` with an early return): one arm is contradictory
  by_cases hd : d = 0
  · subst hd
    have hrb : rb = ofPB f.ParserBuffer := by
      have e : rb = (PBuf.shrink (ofPB f.ParserBuffer)).1 := by rw [hr]
      have e2 : (PBuf.shrink (ofPB f.ParserBuffer)).2 = 0 := by rw [hr]
      rw [e]; unfold PBuf.shrink at e2 ⊢
      split
      · rfl
      · rename_i hn; rw [if_neg hn] at e2; simp only at e2; omega
    simp only [if_true]
    split
    all_goals first
      | (exfalso; omega)
      | ((try simp only [bind_ok])
         refine ⟨_, rfl, ?_, ⟨hwf, hh⟩⟩
         simp only [ofDict, hof, hrb])
  · obtain ⟨g', hg, hofg, hwg⟩ := gen_hash_shiftOffsets f.hash (UInt32.ofInt (d : Int)) hh
    simp only [hd, if_false]
    split
    all_goals first
      | (exfalso; omega)
      | (simp only [hg, bind_ok]
         refine ⟨_, rfl, ?_, ⟨hwf, hwg⟩⟩
         simp only [ofDict, hof, hofg, toNat_ofInt32_small d hdlt])

/-! ## P01 init -/

theorem bufDefaults_idem (c : Gen.BufConfig) :
    BufConfig_SetDefaults (BufConfig_SetDefaults c) = BufConfig_SetDefaults c := by
  obtain ⟨ss, bs, ws, bl⟩ := c
  simp only [Gen.BufConfig_SetDefaults, Gen.BufConfig.mk.injEq]
  grind

theorem hashDefaults_idem (c : Gen.hashConfig) :
    hashConfig_SetDefaults (hashConfig_SetDefaults c) = hashConfig_SetDefaults c := by
  obtain ⟨il, hb⟩ := c
  simp only [hashConfig_SetDefaults]
  repeat' split
  all_goals simp_all

theorem hashVerify_initOK (c : Gen.hashConfig) (h : hashConfig_Verify c = Gen.Err.ok) : InitOK c.InputLen c.HashBits := by
  have := (gen_hashVerify c).mp h
  rw [hashVerify_iff] at this
  simp only [Facts.maxHashBits] at this
  unfold InitOK
  obtain ⟨⟨a, b⟩, c1, d⟩ := this
  by_cases h8 : 8 * c.InputLen < 24 <;> simp only [h8, if_true, if_false] at d <;> omega

/-- P01 `hashParser.init(cfg)`: `raw` is the configuration as the model sees it (`toHP raw` the Go
    struct with the fields of `raw` that HPConfig has) -/
theorem gen_hp_init (s : Gen.hashParser) (raw : Cfg) (hw : GWF s.hashDictionary.hash.table) :
    match newParser .HP raw with
    | none => ∃ e, hashParser_init s (toHP raw) = Res.ok (s, e) ∧ e ≠ Gen.Err.ok
    | some p => ∃ s', hashParser_init s (toHP raw) = Res.ok (s', Gen.Err.ok) ∧
        ofHPs s' = { p with buf := { p.buf with cap := s.hashDictionary.ParserBuffer.Data.cap } } ∧
        DictWF s'.hashDictionary := by
  -- the configuration after SetDefaults, on both sides
  have hc : ofHP (HPConfig_SetDefaults (toHP raw)) = setDefaults .HP (raw.restrict .HP) := by
    rw [gen_setDefaults_HP, ofHP_toHP]
  have hv := gen_verify_HP (HPConfig_SetDefaults (toHP raw))
  rw [hc] at hv
  unfold newParser
  simp only []
  by_cases hok : HPConfig_Verify (HPConfig_SetDefaults (toHP raw)) = Gen.Err.ok
  · have hvm : verify .HP (setDefaults .HP (raw.restrict .HP)) = true := hv.mp hok
    simp only [hvm, if_true]
    unfold hashParser_init hashDictionary_init
    dsimp only
    -- what Verify = ok says about the two helper configurations
    have hparts : BufConfig_Verify ⟨(HPConfig_SetDefaults (toHP raw)).ShrinkSize, (HPConfig_SetDefaults (toHP raw)).BufferSize,
          (HPConfig_SetDefaults (toHP raw)).WindowSize, (HPConfig_SetDefaults (toHP raw)).BlockSize⟩ = Gen.Err.ok ∧
        hashConfig_Verify ⟨(HPConfig_SetDefaults (toHP raw)).InputLen, (HPConfig_SetDefaults (toHP raw)).HashBits⟩ = Gen.Err.ok := by
      have := hok
      simp only [HPConfig_Verify] at this
      split at this
      · rename_i hne; exact absurd this hne
      · rename_i hne; exact ⟨Classical.not_not.mp hne, this⟩
    -- the two helper configurations are SetDefaults images, so SetDefaults does not change them
    have hbc : ∃ b0 : Gen.BufConfig, (⟨(HPConfig_SetDefaults (toHP raw)).ShrinkSize, (HPConfig_SetDefaults (toHP raw)).BufferSize,
          (HPConfig_SetDefaults (toHP raw)).WindowSize, (HPConfig_SetDefaults (toHP raw)).BlockSize⟩ : Gen.BufConfig) =
        BufConfig_SetDefaults b0 := ⟨_, rfl⟩
    have hhc : ∃ h0 : Gen.hashConfig, (⟨(HPConfig_SetDefaults (toHP raw)).InputLen, (HPConfig_SetDefaults (toHP raw)).HashBits⟩ : Gen.hashConfig) =
        hashConfig_SetDefaults h0 := ⟨_, rfl⟩
    generalize HPConfig_SetDefaults (toHP raw) = c' at *
    obtain ⟨hvb, hvh⟩ := hparts
    obtain ⟨b0, hb0⟩ := hbc
    obtain ⟨h0, hh0⟩ := hhc
    have hbi : BufConfig_SetDefaults ⟨c'.ShrinkSize, c'.BufferSize, c'.WindowSize, c'.BlockSize⟩ =
        ⟨c'.ShrinkSize, c'.BufferSize, c'.WindowSize, c'.BlockSize⟩ := by rw [hb0, bufDefaults_idem]
    have hhi : hashConfig_SetDefaults ⟨c'.InputLen, c'.HashBits⟩ = ⟨c'.InputLen, c'.HashBits⟩ := by
      rw [hh0, hashDefaults_idem]
    obtain ⟨pb', hpi, hofpb, hpwf⟩ :=
      (gen_pbuf_init s.hashDictionary.ParserBuffer ⟨c'.ShrinkSize, c'.BufferSize, c'.WindowSize, c'.BlockSize⟩).2
        (by rw [hbi]; exact hvb)
    obtain ⟨g', hgi, hofg, hgwf⟩ := gen_hash_init s.hashDictionary.hash c'.InputLen c'.HashBits hw
      (hashVerify_initOK _ hvh)
    simp only [hok, ne_eq, not_true_eq_false, if_false, hpi, bind_ok, hhi, hvh, hgi]
    refine ⟨_, rfl, ?_, ⟨hpwf, hgwf⟩⟩
    simp only [ofHPs, ofDict, hofpb, hofg, hbi, freshDict, ← hc]
    rfl
  · have hvm : ¬ verify .HP (setDefaults .HP (raw.restrict .HP)) = true := fun c => hok (hv.mpr c)
    simp only [hvm, if_false]
    unfold hashParser_init
    simp only [hok, ne_eq, not_false_eq_true, if_true]
    exact ⟨_, rfl, hok⟩

/-- P01 for the receiver `new(hashParser)` (all fields zero): exactly the model's fresh parser -/
theorem gen_hp_init_fresh (raw : Cfg) (p : Parser) (hp : newParser .HP raw = some p) :
    ∃ s', hashParser_init default (toHP raw) = Res.ok (s', Gen.Err.ok) ∧ ofHPs s' = p ∧ DictWF s'.hashDictionary := by
  have := gen_hp_init default raw (by unfold GWF; exact Nat.le_refl 0)
  rw [hp] at this
  obtain ⟨s', h1, h2, h3⟩ := this
  refine ⟨s', h1, ?_, h3⟩
  rw [h2]
  unfold newParser at hp
  simp only [] at hp
  split at hp
  · simp only [Option.some.injEq] at hp
    subst hp; rfl
  · exact absurd hp (by simp)

end LZ.GenHash

#print axioms LZ.GenHash.gen_hp_init
#print axioms LZ.GenHash.gen_hp_init_fresh
#print axioms LZ.GenHash.gen_hp_reset
#print axioms LZ.GenHash.gen_hp_shrink
